/-
  Scc.Backend.ProofsSim — lemmas for Theorem A (Props/C06Generic.lean): temporaries, code layout
  (`CodeAt` from the layout of the whole program), symbolic execution of single instructions.
  Proof file.
-/
import Scc.Backend.SimDefs
import Scc.Backend.ProofsNames

set_option linter.unusedSimpArgs false
set_option linter.unusedVariables false

namespace Scc.Backend.Sim

open Scc.AxCut Scc.AxCut.Pos Scc.Backend Scc.Backend.Abs

/-! ## temporaries -/

theorem find_filter_ne {t t' : Nat} (σ : Temps) (h : t' ≠ t) :
    (σ.filter (fun e => e.1 != t)).find? (fun e => e.1 == t') = σ.find? (fun e => e.1 == t') := by
  induction σ with
  | nil => rfl
  | cons e σ ih =>
    by_cases h1 : e.1 = t
    · have : (e.1 != t) = false := by simp [h1]
      simp only [List.filter_cons, this]
      have : (e.1 == t') = false := by simp [h1, Ne.symm h]
      simp only [List.find?_cons, this]
      exact ih
    · have : (e.1 != t) = true := by simp [h1]
      simp only [List.filter_cons, this, if_true, List.find?_cons]
      rw [ih]

theorem find_filter_eq {t : Nat} (σ : Temps) :
    (σ.filter (fun e => e.1 != t)).find? (fun e => e.1 == t) = none := by
  induction σ with
  | nil => rfl
  | cons e σ ih =>
    by_cases h1 : e.1 = t
    · have : (e.1 != t) = false := by simp [h1]
      simp only [List.filter_cons, this]
      exact ih
    · have : (e.1 != t) = true := by simp [h1]
      have h2 : (e.1 == t) = false := by simp [h1]
      simp only [List.filter_cons, this, if_true, List.find?_cons, h2]
      exact ih

theorem get_unset_same (σ : Temps) (t : Nat) : (σ.unset t).get t = none := by
  unfold Temps.get Temps.unset
  rw [find_filter_eq]

theorem get_unset_other (σ : Temps) {t t' : Nat} (h : t' ≠ t) : (σ.unset t).get t' = σ.get t' := by
  unfold Temps.get Temps.unset
  rw [find_filter_ne σ h]

theorem get_set_same (σ : Temps) (t : Nat) (v : Word) : (σ.set t v).get t = some v := by
  unfold Temps.get Temps.set
  simp

theorem get_set_other (σ : Temps) {t t' : Nat} (v : Word) (h : t' ≠ t) :
    (σ.set t v).get t' = σ.get t' := by
  unfold Temps.set
  have : Temps.get ((t, v) :: σ.unset t) t' = (σ.unset t).get t' := by
    unfold Temps.get
    have : (t == t') = false := by simp [Ne.symm h]
    simp [List.find?_cons, this]
  rw [this, get_unset_other σ h]

theorem get_clobberTemp (σ : Temps) {t : Nat} (h : t ≠ Mock.T_TEMP) :
    (clobberTemp σ).get t = σ.get t := get_unset_other σ h

theorem get_keepPositions (σ : Temps) (n t : Nat) :
    (keepPositions σ n).get t = if t < 2 * n then σ.get t else none := by
  unfold keepPositions Temps.get
  induction σ with
  | nil => simp
  | cons e σ ih =>
    by_cases h1 : e.1 < 2 * n
    · simp only [List.filter_cons, decide_eq_true_eq, h1, if_true, List.find?_cons]
      by_cases h2 : e.1 = t
      · subst h2; simp [h1]
      · have : (e.1 == t) = false := by simp [h2]
        simp only [this]
        exact ih
    · simp only [List.filter_cons, decide_eq_true_eq, h1, if_false, List.find?_cons]
      by_cases h2 : e.1 = t
      · subst h2
        simp only [beq_self_eq_true, h1, if_false]
        rw [ih]; simp [h1]
      · have : (e.1 == t) = false := by simp [h2]
        simp only [this]
        exact ih

/-! ## code layout -/

theorem CodeAt_append (P : Program) : ∀ (a b : List MockOp) (pc : Nat),
    CodeAt P pc (a ++ b) ↔ CodeAt P pc a ∧ CodeAt P (pc + instrCount a) b
  | [], b, pc => by simp [CodeAt, instrCount]
  | op :: a, b, pc => by
    cases op <;>
      simp only [List.cons_append, CodeAt, instrCount, CodeAt_append P a b, and_assoc,
        Nat.add_assoc, Nat.add_comm 1] <;> rfl

theorem stepsTo_trans (P : Program) : ∀ (k1 k2 : Nat) (c1 c2 c3 : Config),
    stepsTo P k1 c1 c2 → stepsTo P k2 c2 c3 → stepsTo P (k1 + k2) c1 c3
  | 0, k2, c1, c2, c3, h1, h2 => by simp only [stepsTo] at h1; subst h1; simpa using h2
  | k1 + 1, k2, c1, c2, c3, h1, h2 => by
    obtain ⟨c, hs, h1'⟩ := h1
    rw [show k1 + 1 + k2 = (k1 + k2) + 1 by omega]
    exact ⟨c, hs, stepsTo_trans P k1 k2 c c2 c3 h1' h2⟩

theorem stepsTo_one (P : Program) (c c' : Config) (h : Abs.step P c = .next c') : stepsTo P 1 c c' :=
  ⟨c', h, rfl⟩


/-! ### `CodeAt` from the layout of the whole program -/

theorem layout_fst_length : ∀ (ops : List MockOp) (a : Nat), (layout ops a).1.length = instrCount ops
  | [], a => rfl
  | op :: r, a => by
    cases op <;> simp [layout, instrCount, layout_fst_length r]

theorem layout_append : ∀ (pre suf : List MockOp) (a : Nat),
    layout (pre ++ suf) a =
      ((layout pre a).1 ++ (layout suf (a + instrCount pre)).1,
       (layout pre a).2 ++ (layout suf (a + instrCount pre)).2)
  | [], suf, a => by simp [layout, instrCount]
  | op :: r, suf, a => by
    cases op <;>
      simp [layout, instrCount, layout_append r suf, Nat.add_assoc, Nat.add_comm 1]

/-- names of the labels defined in a code list -/
def labelNames : List MockOp → List String
  | [] => []
  | .label n :: r => n :: labelNames r
  | _ :: r => labelNames r

theorem labelNames_eq_dfns : ∀ (ops : List MockOp), labelNames ops = dfns (events ops)
  | [] => rfl
  | op :: r => by
    cases op <;> simp [labelNames, MockOp.events, labelNames_eq_dfns r]

theorem layout_snd_names : ∀ (ops : List MockOp) (a : Nat),
    (layout ops a).2.map (·.1) = labelNames ops
  | [], a => rfl
  | op :: r, a => by
    cases op <;> simp [layout, labelNames, layout_snd_names r]

theorem labelNames_append (a b : List MockOp) : labelNames (a ++ b) = labelNames a ++ labelNames b := by
  induction a with
  | nil => rfl
  | cons op r ih => cases op <;> simp [labelNames, ih]

theorem lookupLabel_append_of_not_mem (l1 l2 : List (String × Nat)) (n : String)
    (h : n ∉ l1.map (·.1)) : lookupLabel (l1 ++ l2) n = lookupLabel l2 n := by
  unfold lookupLabel
  rw [List.find?_append]
  have : l1.find? (fun e => e.1 == n) = none := by
    rw [List.find?_eq_none]
    intro e he hc
    apply h
    simp only [beq_iff_eq] at hc
    exact List.mem_map.mpr ⟨e, he, hc⟩
  rw [this]; rfl

theorem codeAt_of_layout (P : Program) (whole : List MockOp)
    (hcode : P.code = (layout whole 0).1.toArray) (hlab : P.labels = (layout whole 0).2)
    (hnodup : (labelNames whole).Nodup) :
    ∀ (suf pre : List MockOp), whole = pre ++ suf → CodeAt P (instrCount pre) suf
  | [], pre, _ => trivial
  | op :: r, pre, hw => by
    have hw' : whole = (pre ++ [op]) ++ r := by simp [hw]
    have ih := codeAt_of_layout P whole hcode hlab hnodup r (pre ++ [op]) hw'
    have hl := layout_append pre (op :: r) 0
    rw [← hw, Nat.zero_add] at hl
    have instr : ∀ (hp : ∀ m, op ≠ .comment m) (hq : ∀ n, op ≠ .label n),
        P.code[instrCount pre]? = some op ∧ CodeAt P (instrCount pre + 1) r := by
      intro hp hq
      have e1 : (layout (op :: r) (instrCount pre)).1 = op :: (layout r (instrCount pre + 1)).1 := by
        cases op <;> first | rfl | exact absurd rfl (hp _) | exact absurd rfl (hq _)
      have e2 : instrCount (pre ++ [op]) = instrCount pre + 1 := by
        have : instrCount [op] = 1 := by
          cases op <;> first | rfl | exact absurd rfl (hp _) | exact absurd rfl (hq _)
        have h3 := layout_fst_length (pre ++ [op]) 0
        rw [layout_append, List.length_append, layout_fst_length, layout_fst_length] at h3
        omega
      constructor
      · rw [hcode, hl]
        simp only [List.getElem?_toArray]
        rw [e1, List.getElem?_append_right (by rw [layout_fst_length]; exact Nat.le_refl _)]
        simp [layout_fst_length]
      · rw [← e2]; exact ih
    cases op with
    | comment m =>
      simp only [CodeAt]
      have : instrCount (pre ++ [MockOp.comment m]) = instrCount pre := by
        have h3 := layout_fst_length (pre ++ [MockOp.comment m]) 0
        rw [layout_append, List.length_append, layout_fst_length, layout_fst_length] at h3
        simpa [instrCount] using h3.symm
      rw [← this]; exact ih
    | label n =>
      simp only [CodeAt]
      have e2 : instrCount (pre ++ [MockOp.label n]) = instrCount pre := by
        have h3 := layout_fst_length (pre ++ [MockOp.label n]) 0
        rw [layout_append, List.length_append, layout_fst_length, layout_fst_length] at h3
        simpa [instrCount] using h3.symm
      constructor
      · unfold Program.labelAddr
        rw [hlab, hl]
        simp only [layout]
        rw [lookupLabel_append_of_not_mem]
        · simp [lookupLabel]
        · rw [layout_snd_names]
          intro hmem
          rw [hw, labelNames_append, List.nodup_append] at hnodup
          exact hnodup.2.2 n hmem n (by simp [labelNames]) rfl
      · rw [← e2]; exact ih
    | jump t => exact instr (fun _ => by simp) (fun _ => by simp)
    | jumpLabel n => exact instr (fun _ => by simp) (fun _ => by simp)
    | jumpFixed n => exact instr (fun _ => by simp) (fun _ => by simp)
    | jif c a b n => exact instr (fun _ => by simp) (fun _ => by simp)
    | jifz c a n => exact instr (fun _ => by simp) (fun _ => by simp)
    | li t i => exact instr (fun _ => by simp) (fun _ => by simp)
    | ll t n => exact instr (fun _ => by simp) (fun _ => by simp)
    | addJump t i => exact instr (fun _ => by simp) (fun _ => by simp)
    | binop o t a b => exact instr (fun _ => by simp) (fun _ => by simp)
    | mov t s => exact instr (fun _ => by simp) (fun _ => by simp)
    | print nl s k => exact instr (fun _ => by simp) (fun _ => by simp)
    | erase t => exact instr (fun _ => by simp) (fun _ => by simp)
    | share t n => exact instr (fun _ => by simp) (fun _ => by simp)
    | store k n => exact instr (fun _ => by simp) (fun _ => by simp)
    | load k n => exact instr (fun _ => by simp) (fun _ => by simp)
    | save t s => exact instr (fun _ => by simp) (fun _ => by simp)
    | restore t s => exact instr (fun _ => by simp) (fun _ => by simp)

/-- the whole code is laid out at address 0 of the program made from it -/
theorem codeAt_ofOps (whole : List MockOp) (hnodup : (dfns (events whole)).Nodup) :
    ∀ (pre suf : List MockOp), whole = pre ++ suf →
      CodeAt (Program.ofOps whole) (instrCount pre) suf := by
  intro pre suf hw
  exact codeAt_of_layout (Program.ofOps whole) whole rfl rfl (by rw [labelNames_eq_dfns]; exact hnodup)
    suf pre hw


/-! ## positions -/

theorem ctxPosition_go (id : Nat) : ∀ (Γ : Ctx) (k : Nat),
    Mock.ctxPosition.go id Γ k = (Γ.findIdx? (fun b => b.var.id == id)).map (· + k)
  | [], k => rfl
  | b :: bs, k => by
    simp only [Mock.ctxPosition.go, List.findIdx?_cons]
    by_cases h : (b.var.id == id) = true
    · simp [h]
    · simp only [h, if_false, Bool.false_eq_true]
      rw [ctxPosition_go id bs (k + 1)]
      cases List.findIdx? (fun b => b.var.id == id) bs <;> simp [Nat.add_assoc, Nat.add_comm 1]

theorem ctxPosition_eq_posOf (Γ : Ctx) (id : Nat) : Mock.ctxPosition Γ id = posOf Γ id := by
  unfold Mock.ctxPosition posOf
  rw [ctxPosition_go]
  cases List.findIdx? (fun b => b.var.id == id) Γ <;> simp

theorem posOf_lt {Γ : Ctx} {id i : Nat} (h : posOf Γ id = some i) : i < Γ.length := by
  unfold posOf at h
  obtain ⟨hi, _⟩ := List.findIdx?_eq_some_iff_getElem.mp h
  exact hi

theorem posOf_append_old {Γ : Ctx} {id i : Nat} (l : Ctx) (h : posOf Γ id = some i) :
    posOf (Γ ++ l) id = some i := by
  unfold posOf at *
  rw [List.findIdx?_append, h]; rfl

theorem posOf_append_fresh (Γ : Ctx) (b : Binding) (h : ∀ b' ∈ Γ, b'.var.id ≠ b.var.id) :
    posOf (Γ ++ [b]) b.var.id = some Γ.length := by
  unfold posOf
  rw [List.findIdx?_append]
  have : List.findIdx? (fun b' => b'.var.id == b.var.id) Γ = none := by
    rw [List.findIdx?_eq_none_iff]
    intro x hx
    simp [h x hx]
  rw [this]
  simp [List.findIdx?_cons]

/-! ## reading integers -/

theorem readInt_ok {Γ : Ctx} {ρ : List Value} {x : Ident} {n : Word} (h : readInt Γ ρ x = .ok n) :
    ∃ i, posOf Γ x.id = some i ∧ ρ[i]? = some (.int n) := by
  unfold readInt readVar at h
  cases hp : posOf Γ x.id with
  | none => simp [hp] at h
  | some i =>
    simp only [hp] at h
    cases hv : ρ[i]? with
    | none => simp [hv] at h
    | some v =>
      simp only [hv] at h
      cases v with
      | int m => simp at h; subst h; exact ⟨i, rfl, hv⟩
      | obj _ _ => simp at h
      | clo _ _ _ => simp at h

theorem Rel.temp_of_int {P : Program} {hooks : Bool} {prog : Prog} {st : Pos.State} {cfg : Config}
    (R : Rel P hooks prog st cfg) {i : Nat} {n : Word} (hi : i < st.ctx.length)
    (hv : st.env[i]? = some (.int n)) : cfg.temps.get (2 * i + 1) = some n := by
  have hi2 : i < st.env.length := by rw [R.len]; exact hi
  obtain ⟨hr, hsome, _, _⟩ := R.vals i hi hi2
  have : st.env[i] = .int n := by
    rw [List.getElem?_eq_getElem hi2] at hv
    exact Option.some.inj hv
  rw [this] at hr
  cases hr
  cases hg : cfg.temps.get (2 * i + 1) with
  | none => simp [hg] at hsome
  | some w => simp [hg]

theorem Rel.readInt {P : Program} {hooks : Bool} {prog : Prog} {st : Pos.State} {cfg : Config}
    (R : Rel P hooks prog st cfg) {x : Ident} {n : Word} (h : readInt st.ctx st.env x = .ok n) :
    ∃ i, Mock.ctxPosition st.ctx x.id = some i ∧ i < st.ctx.length ∧
      cfg.temps.get (2 * i + 1) = some n := by
  obtain ⟨i, hp, hv⟩ := readInt_ok h
  exact ⟨i, by rw [ctxPosition_eq_posOf]; exact hp, posOf_lt hp, R.temp_of_int (posOf_lt hp) hv⟩

/-! ## roots -/

theorem roots_go_congr (σ σ' : Temps) : ∀ (Γ : Ctx) (k : Nat),
    (∀ i, i < Γ.length → σ'.get (2 * (k + i)) = σ.get (2 * (k + i))) →
    roots.go σ' Γ k = roots.go σ Γ k
  | [], k, _ => rfl
  | b :: bs, k, h => by
    simp only [roots.go]
    have h0 := h 0 (by simp)
    simp only [Nat.add_zero] at h0
    rw [h0, roots_go_congr σ σ' bs (k + 1)]
    intro i hi
    have := h (i + 1) (by simp; omega)
    rw [show k + (i + 1) = k + 1 + i by omega] at this
    exact this

theorem roots_go_append (σ : Temps) : ∀ (Γ Δ : Ctx) (k : Nat),
    roots.go σ (Γ ++ Δ) k = roots.go σ Γ k ++ roots.go σ Δ (k + Γ.length)
  | [], Δ, k => by simp [roots.go]
  | b :: bs, Δ, k => by
    simp only [List.cons_append, roots.go, roots_go_append σ bs Δ (k + 1), List.append_assoc,
      List.length_cons]
    rw [show k + 1 + bs.length = k + (bs.length + 1) by omega]

theorem roots_append_ext (σ : Temps) (Γ : Ctx) (b : Binding) (hb : b.chi = .ext) :
    roots (Γ ++ [b]) σ = roots Γ σ := by
  unfold roots
  rw [roots_go_append]
  have : (Chi.ext != Chi.ext) = false := by decide
  simp [roots.go, hb, this]

theorem roots_congr (σ σ' : Temps) (Γ : Ctx)
    (h : ∀ i, i < Γ.length → σ'.get (2 * i) = σ.get (2 * i)) : roots Γ σ' = roots Γ σ := by
  unfold roots
  apply roots_go_congr
  intro i hi
  rw [Nat.zero_add]
  exact h i hi

theorem roots_go_chi (σ : Temps) : ∀ (Γ Δ : Ctx) (k : Nat), Γ.map (·.chi) = Δ.map (·.chi) →
    roots.go σ Γ k = roots.go σ Δ k
  | [], [], k, _ => rfl
  | [], _ :: _, k, h => by simp at h
  | _ :: _, [], k, h => by simp at h
  | b :: bs, d :: ds, k, h => by
    simp only [List.map_cons, List.cons.injEq] at h
    simp only [roots.go, h.1, roots_go_chi σ bs ds (k + 1) h.2]

/-! ## code layout helpers -/

theorem CodeAt_hook (P : Program) (hooks : Bool) (Γ : Ctx) (pc : Nat) (r : List MockOp) :
    CodeAt P pc (hookCode mockSym hooks Γ ++ r) ↔ CodeAt P pc r := by
  unfold hookCode
  cases hooks <;> simp [CodeAt]


/-! ## frame lemmas for the representation -/

theorem ValsOK_congr {P : Program} {hooks : Bool} {types : List TypeDecl} {h : Heap} {σ σ' : Temps}
    {Γ : Ctx} {ρ : List Value} (V : ValsOK P hooks types h σ Γ ρ)
    (hσ : ∀ t, t < 2 * Γ.length → σ'.get t = σ.get t) : ValsOK P hooks types h σ' Γ ρ := by
  intro i h1 h2
  have e0 := hσ (2 * i) (by omega)
  have e1 := hσ (2 * i + 1) (by omega)
  rw [e0, e1]
  exact V i h1 h2

theorem ValsOK_snoc_int {P : Program} {hooks : Bool} {types : List TypeDecl} {h : Heap} {σ σ' : Temps}
    {Γ : Ctx} {ρ : List Value} (V : ValsOK P hooks types h σ Γ ρ) (hlen : ρ.length = Γ.length)
    (hσ : ∀ t, t < 2 * Γ.length → σ'.get t = σ.get t) (b : Binding) (hb : b.chi = .ext) (w : Word)
    (hw : σ'.get (2 * Γ.length + 1) = some w) :
    ValsOK P hooks types h σ' (Γ ++ [b]) (ρ ++ [.int w]) := by
  intro i h1 h2
  by_cases hi : i < Γ.length
  · have hi2 : i < ρ.length := by omega
    have e0 := hσ (2 * i) (by omega)
    have e1 := hσ (2 * i + 1) (by omega)
    rw [e0, e1]
    have g1 : (Γ ++ [b])[i] = Γ[i] := List.getElem_append_left hi
    have g2 : (ρ ++ [Value.int w])[i] = ρ[i] := List.getElem_append_left hi2
    rw [g1, g2]
    exact V i hi hi2
  · have hi' : i = Γ.length := by simp at h1; omega
    subst hi'
    have g1 : (Γ ++ [b])[Γ.length] = b := by simp
    have g2 : (ρ ++ [Value.int w])[Γ.length] = Value.int w := by
      rw [List.getElem_append_right (by omega)]; simp [hlen]
    rw [g1, g2, hw, hb]
    refine ⟨?_, rfl, rfl, ?_⟩
    · have : (Chi.ext == Chi.ext) = true := by decide
      simp only [this, if_true, Option.getD_some]
      exact RepVal.int w none
    · intro hc; exact absurd hc (by decide)

theorem HeapOK_congr {h : Heap} {rs rs' : List Nat} {next : Nat} (H : HeapOK h rs next) (e : rs' = rs) :
    HeapOK h rs' next := by subst e; exact H

/-! ## symbolic execution: one instruction -/

theorem step_li (P : Program) (cfg : Config) (t : Nat) (imm : Int)
    (hc : P.code[cfg.pc]? = some (.li t imm)) (ht : t ≠ Mock.T_TEMP) :
    Abs.step P cfg = .next { cfg with pc := cfg.pc + 1,
                                      temps := (clobberTemp cfg.temps).set t (BitVec.ofInt 64 imm) } := by
  have : (t == Abs.T_TEMP) = false := by simp [Abs.T_TEMP, ht]
  simp [Abs.step, hc, this]

/-! ## simulation: `lit` -/

theorem sim_lit {P : Program} {hooks : Bool} {prog : Prog} {Γ : Ctx} {ρ : List Value} {x : Ident}
    {n : Int} {next : Stmt} {fv : FV} {cfg : Config}
    (R : Rel P hooks prog ⟨Γ, ρ, .lit x n next fv⟩ cfg)
    (hfresh : ∀ b ∈ Γ, b.var.id ≠ x.id) (hcap : 2 * (Γ.length + 1) + 2 < Mock.T_TEMP) :
    ∃ cfg', stepsTo P 1 cfg cfg' ∧ cfg'.out = cfg.out ∧
      Rel P hooks prog ⟨Γ ++ [⟨x, .ext, .i64⟩], ρ ++ [.int (BitVec.ofInt 64 n)], next⟩ cfg' := by
  obtain ⟨c, c', ops, hrun, hat⟩ := R.code
  simp only [codeStatementR, run_bind_ok, run_pure_ok, mockSym_variableTemporary, vt_run_ok] at hrun
  obtain ⟨t, k1, ⟨pos, hpos, rfl, rfl⟩, c2, k2, h2, rfl, rfl⟩ := hrun
  have hp : pos = Γ.length := by
    rw [ctxPosition_eq_posOf] at hpos
    have := posOf_append_fresh Γ ⟨x, .ext, .i64⟩ hfresh
    rw [this] at hpos
    exact (Option.some.inj hpos).symm
  subst hp
  simp only [mockSym_loadImmediate, mockSym_comment, List.append_assoc, CodeAt_hook] at hat
  simp only [List.cons_append, List.nil_append, CodeAt, TempNum.toNat] at hat
  obtain ⟨hcode, hat2⟩ := hat
  have ht : 2 * Γ.length + 1 ≠ Mock.T_TEMP := by omega
  refine ⟨_, stepsTo_one P _ _ (step_li P cfg _ n hcode ht), rfl, ?_⟩
  have hσ : ∀ t, t < 2 * Γ.length →
      ((clobberTemp cfg.temps).set (2 * Γ.length + 1) (BitVec.ofInt 64 n)).get t = cfg.temps.get t := by
    intro t ht'
    rw [get_set_other _ _ (by omega), get_clobberTemp _ (by omega)]
  exact {
    len := by simp [R.len]
    cap := by simpa using hcap
    vals := ValsOK_snoc_int R.vals R.len hσ _ rfl _ (get_set_same _ _ _)
    heap := by
      apply HeapOK_congr R.heap
      show roots (Γ ++ [_]) _ = roots Γ cfg.temps
      rw [roots_append_ext _ _ _ rfl]
      exact roots_congr _ _ _ (fun i hi => hσ (2 * i) (by omega))
    code := ⟨_, _, c2, h2, hat2⟩ }


/-! ## simulation: `op` -/

theorem evalBinOp_of_evalOp {o : BinOp} {a b v : Word} (h : Pos.evalOp o a b = .ok v) :
    Abs.evalBinOp o a b = .ok v := by
  cases o with
  | sum => simp only [Pos.evalOp] at h; cases h; rfl
  | sub => simp only [Pos.evalOp] at h; cases h; rfl
  | prod => simp only [Pos.evalOp] at h; cases h; rfl
  | div =>
    simp only [Pos.evalOp] at h
    split at h
    · cases h
    · split at h
      · cases h
      · cases h
        rename_i hb ho
        simp only [Pos.minInt] at ho
        simp only [Abs.evalBinOp, Abs.minWord, beq_iff_eq, Bool.and_eq_true]
        rw [if_neg hb, if_neg ho]
  | rem =>
    simp only [Pos.evalOp] at h
    split at h
    · cases h
    · split at h
      · cases h
      · cases h
        rename_i hb ho
        simp only [Pos.minInt] at ho
        simp only [Abs.evalBinOp, Abs.minWord, beq_iff_eq, Bool.and_eq_true]
        rw [if_neg hb, if_neg ho]

theorem step_binop (P : Program) (cfg : Config) (o : BinOp) (t a b : Nat) (va vb v : Word)
    (hc : P.code[cfg.pc]? = some (.binop o t a b)) (ht : t ≠ Mock.T_TEMP)
    (ha : cfg.temps.get a = some va) (hb : cfg.temps.get b = some vb)
    (hv : Abs.evalBinOp o va vb = .ok v) :
    Abs.step P cfg = .next { cfg with pc := cfg.pc + 1, temps := (clobberTemp cfg.temps).set t v } := by
  have : (t == Abs.T_TEMP) = false := by simp [Abs.T_TEMP, ht]
  simp [Abs.step, hc, this, getT, ha, hb, hv]

theorem sim_op {P : Program} {hooks : Bool} {prog : Prog} {Γ : Ctx} {ρ : List Value} {x a b : Ident}
    {o : BinOp} {next : Stmt} {fv : FV} {cfg : Config} {va vb v : Word}
    (R : Rel P hooks prog ⟨Γ, ρ, .op x a o b next fv⟩ cfg)
    (hfresh : ∀ b' ∈ Γ, b'.var.id ≠ x.id) (hcap : 2 * (Γ.length + 1) + 2 < Mock.T_TEMP)
    (ha : readInt Γ ρ a = .ok va) (hb : readInt Γ ρ b = .ok vb) (hv : Pos.evalOp o va vb = .ok v) :
    ∃ cfg', stepsTo P 1 cfg cfg' ∧ cfg'.out = cfg.out ∧
      Rel P hooks prog ⟨Γ ++ [⟨x, .ext, .i64⟩], ρ ++ [.int v], next⟩ cfg' := by
  obtain ⟨c, c', ops, hrun, hat⟩ := R.code
  simp only [codeStatementR, run_bind_ok, run_pure_ok, mockSym_variableTemporary, vt_run_ok] at hrun
  obtain ⟨t, k1, ⟨pos, hpos, rfl, rfl⟩, s1, k2, ⟨p1, hp1, rfl, rfl⟩, s2, k3, ⟨p2, hp2, rfl, rfl⟩,
    c2, k4, h2, rfl, rfl⟩ := hrun
  have hp : pos = Γ.length := by
    rw [ctxPosition_eq_posOf] at hpos
    have := posOf_append_fresh Γ ⟨x, .ext, .i64⟩ hfresh
    rw [this] at hpos
    exact (Option.some.inj hpos).symm
  subst hp
  obtain ⟨i1, hi1, hl1, hg1⟩ := R.readInt ha
  obtain ⟨i2, hi2, hl2, hg2⟩ := R.readInt hb
  have e1 : p1 = i1 := by
    rw [ctxPosition_eq_posOf] at hp1 hi1
    have := posOf_append_old [⟨x, .ext, .i64⟩] hi1
    simp only at this hi1
    rw [this] at hp1; exact (Option.some.inj hp1).symm
  have e2 : p2 = i2 := by
    rw [ctxPosition_eq_posOf] at hp2 hi2
    have := posOf_append_old [⟨x, .ext, .i64⟩] hi2
    simp only at this hi2
    rw [this] at hp2; exact (Option.some.inj hp2).symm
  subst e1 e2
  simp only [mockSym_binop, mockSym_comment, List.append_assoc, CodeAt_hook] at hat
  simp only [List.cons_append, List.nil_append, CodeAt, TempNum.toNat] at hat
  obtain ⟨hcode, hat2⟩ := hat
  have ht : 2 * Γ.length + 1 ≠ Mock.T_TEMP := by omega
  refine ⟨_, stepsTo_one P _ _
    (step_binop P cfg o _ _ _ va vb v hcode ht hg1 hg2 (evalBinOp_of_evalOp hv)), rfl, ?_⟩
  have hσ : ∀ t, t < 2 * Γ.length →
      ((clobberTemp cfg.temps).set (2 * Γ.length + 1) v).get t = cfg.temps.get t := by
    intro t ht'
    rw [get_set_other _ _ (by omega), get_clobberTemp _ (by omega)]
  exact {
    len := by simp [R.len]
    cap := by simpa using hcap
    vals := ValsOK_snoc_int R.vals R.len hσ _ rfl _ (get_set_same _ _ _)
    heap := by
      apply HeapOK_congr R.heap
      show roots (Γ ++ [_]) _ = roots Γ cfg.temps
      rw [roots_append_ext _ _ _ rfl]
      exact roots_congr _ _ _ (fun i hi => hσ (2 * i) (by omega))
    code := ⟨_, _, c2, h2, hat2⟩ }

/-! ## simulation: `print` -/

theorem step_print (P : Program) (cfg : Config) (nl : Bool) (s : Nat) (kinds : List Chi) (v : Word)
    (hc : P.code[cfg.pc]? = some (.print nl s kinds)) (hs : cfg.temps.get s = some v) :
    Abs.step P cfg = .next { cfg with pc := cfg.pc + 1, temps := keepPositions cfg.temps kinds.length,
                                      out := (nl, v) :: cfg.out } := by
  simp [Abs.step, hc, getT, hs]

theorem sim_print {P : Program} {hooks : Bool} {prog : Prog} {Γ : Ctx} {ρ : List Value} {a : Ident}
    {nl : Bool} {next : Stmt} {fv : FV} {cfg : Config} {v : Word}
    (R : Rel P hooks prog ⟨Γ, ρ, .print nl a next fv⟩ cfg) (ha : readInt Γ ρ a = .ok v) :
    ∃ cfg', stepsTo P 1 cfg cfg' ∧ cfg'.out = (nl, v) :: cfg.out ∧
      Rel P hooks prog ⟨Γ, ρ, next⟩ cfg' := by
  obtain ⟨c, c', ops, hrun, hat⟩ := R.code
  simp only [codeStatementR, run_bind_ok, run_pure_ok, mockSym_variableTemporary, vt_run_ok,
    mockSym_printI64] at hrun
  obtain ⟨t, k1, ⟨pos, hpos, rfl, rfl⟩, c1, k2, ⟨rfl, rfl⟩, c2, k3, h2, rfl, rfl⟩ := hrun
  obtain ⟨i, hi, hl, hg⟩ := R.readInt ha
  simp only at hi
  rw [hi] at hpos
  cases hpos
  simp only [mockSym_comment, List.append_assoc, CodeAt_hook] at hat
  simp only [List.cons_append, List.nil_append, CodeAt, TempNum.toNat] at hat
  obtain ⟨hcode, hat2⟩ := hat
  refine ⟨_, stepsTo_one P _ _ (step_print P cfg nl _ _ v hcode hg), rfl, ?_⟩
  have hσ : ∀ t, t < 2 * Γ.length →
      (keepPositions cfg.temps (Mock.kindsOf Γ).length).get t = cfg.temps.get t := by
    intro t ht'
    rw [get_keepPositions]
    simp [Mock.kindsOf, ht']
  exact {
    len := R.len
    cap := R.cap
    vals := ValsOK_congr R.vals hσ
    heap := by
      apply HeapOK_congr R.heap
      exact roots_congr _ _ _ (fun i hi => hσ (2 * i) (by have : i < Γ.length := hi; omega))
    code := ⟨_, _, c2, h2, hat2⟩ }


/-! ## simulation: `ifc` -/

theorem evalCond_eq_evalCmp (c : IfSort) (a b : Word) : Abs.evalCond c a b = Pos.evalCmp c a b := by
  cases c <;> rfl

theorem step_jif (P : Program) (cfg : Config) (c : IfSort) (a b : Nat) (name : String) (va vb : Word)
    (hc : P.code[cfg.pc]? = some (.jif c a b name))
    (ha : cfg.temps.get a = some va) (hb : cfg.temps.get b = some vb) :
    Abs.step P cfg =
      if Abs.evalCond c va vb then jumpTo P cfg name
      else .next { cfg with pc := cfg.pc + 1, temps := clobberTemp cfg.temps } := by
  simp [Abs.step, hc, getT, ha, hb]

theorem step_jifz (P : Program) (cfg : Config) (c : IfSort) (a : Nat) (name : String) (va : Word)
    (hc : P.code[cfg.pc]? = some (.jifz c a name)) (ha : cfg.temps.get a = some va) :
    Abs.step P cfg =
      if Abs.evalCond c va 0 then jumpTo P cfg name
      else .next { cfg with pc := cfg.pc + 1, temps := clobberTemp cfg.temps } := by
  simp [Abs.step, hc, getT, ha]

/-- a state that differs from a related one only in the program counter and `TEMP` -/
theorem Rel.jump {P : Program} {hooks : Bool} {prog : Prog} {Γ : Ctx} {ρ : List Value} {s s' : Stmt}
    {cfg : Config} (R : Rel P hooks prog ⟨Γ, ρ, s⟩ cfg) (pc' : Nat)
    (hcode : ∃ c c' ops, (codeStatementR mockSym hooks natRen prog.types s' Γ).run c = .ok (ops, c') ∧
      CodeAt P pc' ops) :
    Rel P hooks prog ⟨Γ, ρ, s'⟩ { cfg with pc := pc', temps := clobberTemp cfg.temps } := by
  have hσ : ∀ t, t < 2 * Γ.length → (clobberTemp cfg.temps).get t = cfg.temps.get t := by
    intro t ht
    have := R.cap
    exact get_clobberTemp _ (by simp only at this; omega)
  exact {
    len := R.len
    cap := R.cap
    vals := ValsOK_congr R.vals hσ
    heap := by
      apply HeapOK_congr R.heap
      exact roots_congr _ _ _ (fun i hi => hσ (2 * i) (by have : i < Γ.length := hi; omega))
    code := hcode }

theorem sim_ifc {P : Program} {hooks : Bool} {prog : Prog} {Γ : Ctx} {ρ : List Value} {a : Ident}
    {b : Option Ident} {srt : IfSort} {t e : Stmt} {cfg : Config} {va vb : Word}
    (R : Rel P hooks prog ⟨Γ, ρ, .ifc srt a b t e⟩ cfg) (ha : readInt Γ ρ a = .ok va)
    (hb : match b with | none => vb = 0 | some b' => readInt Γ ρ b' = .ok vb) :
    ∃ cfg', stepsTo P 1 cfg cfg' ∧ cfg'.out = cfg.out ∧
      Rel P hooks prog ⟨Γ, ρ, if Pos.evalCmp srt va vb then t else e⟩ cfg' := by
  obtain ⟨c, c', ops, hrun, hat⟩ := R.code
  simp only [codeStatementR, run_bind_ok, run_pure_ok, freshLabelStr_run_ok] at hrun
  obtain ⟨num, k1, ⟨rfl, rfl⟩, c1, k2, h1, c2, k3, h2, c3, k4, h3, rfl, rfl⟩ := hrun
  obtain ⟨i1, hi1, hl1, hg1⟩ := R.readInt ha
  simp only at hi1
  simp only [mockSym_comment, mockSym_label, List.append_assoc, CodeAt_hook] at hat
  simp only [List.cons_append, List.nil_append, CodeAt] at hat
  rw [CodeAt_append] at hat
  obtain ⟨hat1, hat'⟩ := hat
  simp only [CodeAt] at hat'
  rw [CodeAt_append] at hat'
  obtain ⟨hatE, hatT⟩ := hat'
  simp only [CodeAt] at hatT
  obtain ⟨hlab, hatT⟩ := hatT
  cases b with
  | none =>
    simp only at hb
    subst hb
    simp only [run_bind_ok, run_pure_ok, mockSym_variableTemporary, vt_run_ok] at h1
    obtain ⟨ta, k5, ⟨p, hp, rfl, rfl⟩, rfl, rfl⟩ := h1
    rw [hi1] at hp; cases hp
    simp only [mockSym_jumpLabelIfZero, CodeAt, TempNum.toNat, instrCount] at hat1 hatE hlab
    have hst := step_jifz P cfg srt _ _ va hat1.1 hg1
    rw [evalCond_eq_evalCmp] at hst
    by_cases hc : Pos.evalCmp srt va 0 = true
    · simp only [hc, if_true] at hst ⊢
      simp only [jumpTo, hlab] at hst
      exact ⟨_, stepsTo_one P _ _ hst, rfl, R.jump _ ⟨_, _, c3, h3, hatT⟩⟩
    · simp only [hc, if_false, Bool.false_eq_true] at hst ⊢
      exact ⟨_, stepsTo_one P _ _ hst, rfl, R.jump _ ⟨_, _, c2, h2, hatE⟩⟩
  | some b' =>
    simp only at hb
    obtain ⟨i2, hi2, hl2, hg2⟩ := R.readInt hb
    simp only at hi2
    simp only [run_bind_ok, run_pure_ok, mockSym_variableTemporary, vt_run_ok] at h1
    obtain ⟨ta, k5, ⟨p, hp, rfl, rfl⟩, tb, k6, ⟨q, hq, rfl, rfl⟩, rfl, rfl⟩ := h1
    rw [hi1] at hp; cases hp
    rw [hi2] at hq; cases hq
    simp only [mockSym_jumpLabelIf, CodeAt, TempNum.toNat, instrCount] at hat1 hatE hlab
    have hst := step_jif P cfg srt _ _ _ va vb hat1.1 hg1 hg2
    rw [evalCond_eq_evalCmp] at hst
    by_cases hc : Pos.evalCmp srt va vb = true
    · simp only [hc, if_true] at hst ⊢
      simp only [jumpTo, hlab] at hst
      exact ⟨_, stepsTo_one P _ _ hst, rfl, R.jump _ ⟨_, _, c3, h3, hatT⟩⟩
    · simp only [hc, if_false, Bool.false_eq_true] at hst ⊢
      exact ⟨_, stepsTo_one P _ _ hst, rfl, R.jump _ ⟨_, _, c2, h2, hatE⟩⟩


/-! ## simulation: `exit` -/

theorem step_mov (P : Program) (cfg : Config) (t s : Nat) (v : Word)
    (hc : P.code[cfg.pc]? = some (.mov t s)) (ht : t ≠ Mock.T_TEMP) (hs : cfg.temps.get s = some v) :
    Abs.step P cfg = .next { cfg with pc := cfg.pc + 1, temps := (clobberTemp cfg.temps).set t v } := by
  have : (t == Abs.T_TEMP) = false := by simp [Abs.T_TEMP, ht]
  simp [Abs.step, hc, this, hs, Temps.put]

theorem step_cleanup (P : Program) (cfg : Config) (v : Word)
    (hc : P.code[cfg.pc]? = some (.jumpLabel "cleanup")) (hs : cfg.temps.get Mock.T_RET1 = some v) :
    Abs.step P cfg = .halt (.done v) := by
  simp [Abs.step, hc, getT, Abs.T_RET1, hs]

theorem sim_exit {P : Program} {hooks : Bool} {prog : Prog} {Γ : Ctx} {ρ : List Value} {a : Ident}
    {cfg : Config} {v : Word}
    (R : Rel P hooks prog ⟨Γ, ρ, .exit a⟩ cfg) (ha : readInt Γ ρ a = .ok v) :
    ∃ cfg', stepsTo P 1 cfg cfg' ∧ cfg'.out = cfg.out ∧ Abs.step P cfg' = .halt (.done v) := by
  obtain ⟨c, c', ops, hrun, hat⟩ := R.code
  simp only [codeStatementR, run_bind_ok, run_pure_ok, mockSym_variableTemporary, vt_run_ok] at hrun
  obtain ⟨t, k1, ⟨pos, hpos, rfl, rfl⟩, rfl, rfl⟩ := hrun
  obtain ⟨i, hi, hl, hg⟩ := R.readInt ha
  simp only at hi
  rw [hi] at hpos; cases hpos
  simp only [mockSym_comment, mockSym_mov, mockSym_jumpLabel, mockSym_return1, List.append_assoc,
    CodeAt_hook] at hat
  simp only [List.cons_append, List.nil_append, CodeAt, TempNum.toNat] at hat
  obtain ⟨hmov, hjmp, _⟩ := hat
  have hst := step_mov P cfg Mock.T_RET1 _ v hmov (by decide) hg
  refine ⟨_, stepsTo_one P _ _ hst, rfl, ?_⟩
  exact step_cleanup P _ v hjmp (get_set_same _ _ _)

/-! ## simulation: `call` -/

theorem defLabel_ne_cleanup (f : String) : (f ++ "_" == "cleanup") = false := by
  rw [beq_eq_false_iff_ne]
  intro h
  have := congrArg String.toList h
  rw [String.toList_append] at this
  have h2 := congrArg List.getLast? this
  simp at h2

theorem Ident.eq_of_beq {a b : Ident} (h : (a == b) = true) : a = b := by
  cases a with | mk n1 i1 => cases b with | mk n2 i2 =>
  have : (n1 == n2 && i1 == i2) = true := h
  simp at this
  simp [this]

theorem step_jumpLabel (P : Program) (cfg : Config) (name : String) (a : Nat)
    (hc : P.code[cfg.pc]? = some (.jumpLabel name)) (hn : (name == "cleanup") = false)
    (ha : P.labelAddr name = some a) :
    Abs.step P cfg = .next { cfg with pc := a, temps := clobberTemp cfg.temps } := by
  simp [Abs.step, hc, hn, jumpTo, ha]

theorem ValsOK_chi {P : Program} {hooks : Bool} {types : List TypeDecl} {h : Heap} {σ : Temps}
    {Γ Δ : Ctx} {ρ : List Value} (V : ValsOK P hooks types h σ Γ ρ)
    (hc : Γ.map (·.chi) = Δ.map (·.chi)) : ValsOK P hooks types h σ Δ ρ := by
  intro i h1 h2
  have hlen : Γ.length = Δ.length := by simpa using congrArg List.length hc
  have h1' : i < Γ.length := by omega
  have e : Γ[i].chi = Δ[i].chi := by
    have := congrArg (fun l => l[i]?) hc
    simp only [List.getElem?_map, List.getElem?_eq_getElem h1', List.getElem?_eq_getElem h1,
      Option.map_some, Option.some.injEq] at this
    exact this
  rw [← e]
  exact V i h1' h2

theorem sim_call {P : Program} {hooks : Bool} {prog : Prog} {Γ : Ctx} {ρ : List Value} {l : Ident}
    {args : Ctx} {cfg : Config} {d : Def}
    (R : Rel P hooks prog ⟨Γ, ρ, .call l args⟩ cfg) (D : DefsAt P hooks prog)
    (hd : Pos.findDef prog.defs l = some d) (hchi : Pos.chiTys Γ = Pos.chiTys d.ctx) :
    ∃ cfg', stepsTo P 1 cfg cfg' ∧ cfg'.out = cfg.out ∧
      Rel P hooks prog ⟨d.ctx, ρ, d.body⟩ cfg' := by
  obtain ⟨c, c', ops, hrun, hat⟩ := R.code
  simp only [codeStatementR, run_pure_ok] at hrun
  obtain ⟨rfl, rfl⟩ := hrun
  simp only [mockSym_comment, mockSym_jumpLabel, List.append_assoc, CodeAt_hook] at hat
  simp only [List.cons_append, List.nil_append, CodeAt] at hat
  obtain ⟨hjmp, _⟩ := hat
  have hmem : d ∈ prog.defs := List.mem_of_find?_eq_some hd
  have hname : d.name = l := by
    have := List.find?_some hd
    exact Ident.eq_of_beq this
  obtain ⟨a, c1, c1', ops, hlab, hrun, hat⟩ := D d hmem
  rw [hname] at hlab
  have hst := step_jumpLabel P cfg _ a hjmp (defLabel_ne_cleanup _) hlab
  have hchi' : Γ.map (·.chi) = d.ctx.map (·.chi) := by
    have := congrArg (List.map Prod.fst) hchi
    simp only [Pos.chiTys, List.map_map] at this
    exact this
  have hlen : Γ.length = d.ctx.length := by simpa using congrArg List.length hchi'
  have hσ : ∀ t, t < 2 * Γ.length → (clobberTemp cfg.temps).get t = cfg.temps.get t := by
    intro t ht
    have := R.cap
    exact get_clobberTemp _ (by simp only at this; omega)
  refine ⟨_, stepsTo_one P _ _ hst, rfl, ?_⟩
  exact {
    len := by rw [← hlen]; exact R.len
    cap := by have := R.cap; simp only at this ⊢; omega
    vals := ValsOK_chi (ValsOK_congr R.vals hσ) hchi'
    heap := by
      apply HeapOK_congr R.heap
      show roots d.ctx _ = roots Γ cfg.temps
      unfold roots
      rw [← roots_go_chi _ Γ d.ctx 0 hchi']
      exact roots_congr _ _ _ (fun i hi => hσ (2 * i) (by omega))
    code := ⟨_, _, ops, hrun, hat⟩ }


/-! ## the definitions' code is in the compiled program -/

theorem assemble_split (hooks : Bool) (ren : Nat → String) (types : List TypeDecl) :
    ∀ (defs : List Def) (c : Nat) (blocks : List (List MockOp)) (c' : Nat),
      (translateR mockSym hooks ren types defs).run c = .ok (blocks, c') →
      ∀ d ∈ defs, ∃ pre post ck ck' ops,
        assemble mockSym blocks (defs.map (·.name)) =
          pre ++ MockOp.label (d.name.print ++ "_") :: (ops ++ post) ∧
        (codeStatementR mockSym hooks ren types d.body d.ctx).run ck = .ok (ops, ck')
  | [], c, blocks, c', _, d, hd => by simp at hd
  | d0 :: ds, c, blocks, c', h, d, hd => by
    simp only [translateR, run_bind_ok, run_pure_ok] at h
    obtain ⟨is, k1, h1, rest, k2, h2, rfl, rfl⟩ := h
    simp only [List.mem_cons] at hd
    rcases hd with rfl | hd
    · exact ⟨[], assemble mockSym rest (ds.map (·.name)), c, k1, is, by simp [assemble], h1⟩
    · obtain ⟨pre, post, ck, ck', ops, e, hr⟩ := assemble_split hooks ren types ds k1 rest _ h2 d hd
      refine ⟨MockOp.label (d0.name.print ++ "_") :: is ++ pre, post, ck, ck', ops, ?_, hr⟩
      simp [assemble, e]

theorem defsAt_of_compile (hooks : Bool) (prog : Prog) (c : Nat) (code : List MockOp) (nargs c' : Nat)
    (h : (compile mockSym hooks prog).run c = .ok ((code, nargs), c'))
    (hnodup : (dfns (events code)).Nodup) :
    DefsAt (Program.ofOps code) hooks prog := by
  intro d hd
  unfold compile compileR at h
  cases hdefs : prog.defs with
  | nil => rw [hdefs] at hd; simp at hd
  | cons d0 ds =>
    simp only [hdefs, run_bind_ok, run_pure_ok] at h
    obtain ⟨blocks, k, h1, h2, rfl⟩ := h
    cases h2
    rw [hdefs] at hd
    obtain ⟨pre, post, ck, ck', ops, e, hr⟩ := assemble_split hooks natRen prog.types _ c blocks _ h1 d hd
    have hat := codeAt_ofOps _ hnodup pre _ e
    rw [e] at hat ⊢
    simp only [CodeAt] at hat
    obtain ⟨hlab, hat⟩ := hat
    rw [CodeAt_append] at hat
    exact ⟨_, ck, ck', ops, hlab, hr, hat.1⟩


/-! ## the initial configuration -/

theorem initTemps_get : ∀ (args : List Word) (k i : Nat) (hi : i < args.length),
    (initTemps args k).get (2 * (k + i) + 1) = some args[i]
  | [], k, i, hi => by simp at hi
  | w :: ws, k, 0, _ => by
    simp [initTemps, Temps.get]
  | w :: ws, k, i + 1, hi => by
    have ih := initTemps_get ws (k + 1) i (by simpa using hi)
    rw [show k + 1 + i = k + (i + 1) by omega] at ih
    simp only [initTemps, Temps.get, List.find?_cons]
    have : (2 * k + 1 == 2 * (k + (i + 1)) + 1) = false := by
      rw [beq_eq_false_iff_ne]; omega
    simp only [this]
    simpa [Temps.get] using ih

theorem roots_go_all_ext (σ : Temps) : ∀ (Γ : Ctx) (k : Nat), (∀ b ∈ Γ, b.chi = .ext) →
    roots.go σ Γ k = []
  | [], k, _ => rfl
  | b :: bs, k, h => by
    have hb : b.chi = .ext := h b (by simp)
    have : (Chi.ext != Chi.ext) = false := by decide
    simp only [roots.go, hb, this, Bool.false_eq_true, if_false, List.nil_append]
    exact roots_go_all_ext σ bs (k + 1) (fun b' hb' => h b' (by simp [hb']))

theorem heapOK_empty (next : Nat) (hn : 0 < next) : HeapOK [] [] next where
  pos := hn
  nodup := by simp
  ids := by simp
  counts := by simp
  live := by intro id h; simp [refCount] at h

theorem init_rel (hooks : Bool) (prog : Prog) (c : Nat) (code : List MockOp) (nargs c' : Nat)
    (hcomp : (compile mockSym hooks prog).run c = .ok ((code, nargs), c'))
    (hnodup : (dfns (events code)).Nodup)
    (d0 : Def) (hd : d0 ∈ prog.defs) (hext : ∀ b ∈ d0.ctx, b.chi = .ext)
    (args : List Word) (hlen : d0.ctx.length = args.length)
    (hcap : 2 * d0.ctx.length + 2 < Mock.T_TEMP) :
    ∃ a, (Program.ofOps code).labelAddr (d0.name.print ++ "_") = some a ∧
      Rel (Program.ofOps code) hooks prog ⟨d0.ctx, args.map .int, d0.body⟩ (initConfig a args) := by
  obtain ⟨a, ck, ck', ops, hlab, hrun, hat⟩ := defsAt_of_compile hooks prog c code nargs c' hcomp hnodup d0 hd
  refine ⟨a, hlab, ?_⟩
  exact {
    len := by simp [hlen]
    cap := hcap
    vals := by
      intro i h1 h2
      have hi : i < args.length := by simpa using h2
      have hg := initTemps_get args 0 i hi
      rw [Nat.zero_add] at hg
      have hchi : (d0.ctx[i]).chi = .ext := hext _ (List.getElem_mem h1)
      have hb : (Chi.ext == Chi.ext) = true := by decide
      simp only [initConfig, hg, hchi, hb, if_true, List.getElem_map, Option.getD_some]
      refine ⟨RepVal.int _ none, rfl, rfl, ?_⟩
      intro hc; exact absurd hc (by decide)
    heap := by
      show HeapOK [] (roots d0.ctx _) 1
      unfold roots
      rw [roots_go_all_ext _ _ _ hext]
      exact heapOK_empty 1 (by decide)
    code := ⟨ck, ck', ops, hrun, hat⟩ }

end Scc.Backend.Sim
