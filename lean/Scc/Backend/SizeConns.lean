/-
  Scc.Backend.SizeConns — C19, the move problem of an explicit substitution (substitution.rs
  `code_exchange` / `connections`; Generic.lean), for an ARBITRARY backend record whose temporaries
  are a lawful strict total order and whose `variable_temporary` is a function of (number, variable),
  injective on the variables of one context (`BackendLaw`; instances: mock, x86-64):

  if the NEW names of the substitution are pairwise distinct (`(pairs.map (·.1.var.id)).Nodup`; true
  of every substitution produced by `linearize`, and checked by `linTypedCheck`), then the map built by
  `connections` has no temporary that is the target of two moves, at most `2·|pairs|` targets and at
  most `2·|Γ|` sources (`connections_spec`).  With Scc.Backend.SizePM: the parallel moves of a
  substitution cost at most `1 + 2c·|pairs| + 2c·|Γ|` instructions.     Proof file.
-/
import Scc.Backend.SizePM
import Scc.Backend.Proofs

set_option linter.unusedVariables false
set_option linter.unusedSimpArgs false

namespace Scc.Backend.SizeConns

open Scc.AxCut Scc.Backend Scc.Backend.SizePM

/-! ## postconditions of generators -/

/-- every successful run of `m` returns a value satisfying `Q` -/
def GPost {α : Type} (m : GenM α) (Q : α → Prop) : Prop :=
  ∀ c a c', m.run c = .ok (a, c') → Q a

theorem GPost.pure {α : Type} {a : α} {Q : α → Prop} (h : Q a) : GPost (pure a : GenM α) Q := by
  intro c r c' hr
  obtain ⟨rfl, _⟩ := (run_pure_ok a c r c').1 hr
  exact h

theorem GPost.throw {α : Type} {e : String} {Q : α → Prop} : GPost (throw e : GenM α) Q := by
  intro c r c' hr
  exact ((run_throw_ok e c r c').1 hr).elim

theorem GPost.bind {α β : Type} {m : GenM α} {f : α → GenM β} {Q1 : α → Prop} {Q : β → Prop}
    (h1 : GPost m Q1) (h2 : ∀ a, Q1 a → GPost (f a) Q) : GPost (m >>= f) Q := by
  intro c r c' hr
  obtain ⟨a, c1, ha, hf⟩ := (run_bind_ok m f c r c').1 hr
  exact h2 a (h1 c a c1 ha) c1 r c' hf

theorem GPost.mono {α : Type} {m : GenM α} {Q1 Q : α → Prop} (h1 : GPost m Q1) (h : ∀ a, Q1 a → Q a) :
    GPost m Q := fun c a c' hr => h a (h1 c a c' hr)

theorem GPost.true {α : Type} (m : GenM α) : GPost m (fun _ => True) := fun _ _ _ _ => trivial

theorem GPost.and {α : Type} {m : GenM α} {Q1 Q2 : α → Prop} (h1 : GPost m Q1) (h2 : GPost m Q2) :
    GPost m (fun a => Q1 a ∧ Q2 a) := fun c a c' hr => ⟨h1 c a c' hr, h2 c a c' hr⟩

section
variable {Code T : Type} (B : Backend Code T)

/-- `t` is what `variable_temporary(num, ctx, id)` returns -/
def VT (num : TempNum) (ctx : Ctx) (id : Nat) (t : T) : Prop :=
  ∃ c c', (B.variableTemporary num ctx id).run c = .ok (t, c')

/-- the laws of the temporaries of a backend that the size bound of substitutions needs -/
structure BackendLaw : Prop where
  eq : ∀ a b : T, B.tempEq a b = true ↔ a = b
  irrefl : ∀ a : T, B.tempLt a a = false
  trans : ∀ a b c : T, B.tempLt a b = true → B.tempLt b c = true → B.tempLt a c = true
  total : ∀ a b : T, B.tempLt a b = false → a ≠ b → B.tempLt b a = true
  /-- `variable_temporary` is a function of its arguments … -/
  vtDet : ∀ num ctx id (t t' : T), VT B num ctx id t → VT B num ctx id t' → t = t'
  /-- … and injective on (number, variable of the context) -/
  vtInj : ∀ num num' ctx id id' (t : T), VT B num ctx id t → VT B num' ctx id' t → num = num' ∧ id = id'

variable {B}

theorem BackendLaw.lawfulEq (L : BackendLaw B) : LawfulEq B := L.eq

/-! ## `BTreeSet` / `BTreeMap` of temporaries -/

/-- strictly ascending -/
def Asc (B : Backend Code T) (l : List T) : Prop := l.Pairwise (fun a b => B.tempLt a b = true)

theorem Asc.nodup (L : BackendLaw B) {l : List T} (h : Asc B l) : l.Nodup := by
  refine List.Pairwise.imp ?_ h
  intro a b hab e
  subst e
  rw [L.irrefl] at hab
  cases hab

theorem cmp_lt {a b : T} : tempCmp B a b = .lt ↔ B.tempLt a b = true := by
  unfold tempCmp
  cases B.tempLt a b <;> cases B.tempEq a b <;> simp

theorem cmp_eq (L : BackendLaw B) {a b : T} : tempCmp B a b = .eq ↔ a = b := by
  unfold tempCmp
  constructor
  · intro h
    cases hl : B.tempLt a b <;> cases he : B.tempEq a b <;> simp [hl, he] at h
    exact (L.eq _ _).1 he
  · rintro rfl
    simp [L.irrefl, (L.eq a a).2 rfl]

theorem cmp_gt (L : BackendLaw B) {a b : T} (h : tempCmp B a b = .gt) : B.tempLt b a = true := by
  unfold tempCmp at h
  cases hl : B.tempLt a b <;> cases he : B.tempEq a b <;> simp [hl, he] at h
  refine L.total a b hl ?_
  intro e
  have := (L.eq a b).2 e
  rw [he] at this
  cases this

theorem setInsert_spec (L : BackendLaw B) (t : T) : ∀ (l : List T), Asc B l →
    Asc B (setInsert B t l) ∧ (∀ x, x ∈ setInsert B t l ↔ x = t ∨ x ∈ l) ∧
    (setInsert B t l).length ≤ l.length + 1
  | [], _ => by simp [setInsert, Asc]
  | t' :: rest, h => by
    have h' : Asc B rest := (List.pairwise_cons.1 h).2
    have hall : ∀ y ∈ rest, B.tempLt t' y = true := (List.pairwise_cons.1 h).1
    simp only [setInsert]
    cases hc : tempCmp B t t' with
    | lt =>
      have hlt := cmp_lt.1 hc
      refine ⟨?_, by simp, by simp⟩
      refine List.pairwise_cons.2 ⟨?_, h⟩
      intro y hy
      simp only [List.mem_cons] at hy
      rcases hy with rfl | hy
      · exact hlt
      · exact L.trans _ _ _ hlt (hall y hy)
    | eq =>
      have := (cmp_eq L).1 hc
      subst this
      refine ⟨h, ?_, by simp⟩
      intro x; simp
    | gt =>
      have hgt := cmp_gt L hc
      obtain ⟨i1, i2, i3⟩ := setInsert_spec L t rest h'
      refine ⟨?_, ?_, by simp; omega⟩
      · refine List.pairwise_cons.2 ⟨?_, i1⟩
        intro y hy
        rcases (i2 y).1 hy with rfl | hy
        · exact hgt
        · exact hall y hy
      · intro x
        simp only [List.mem_cons, i2]
        constructor
        · rintro (h1 | h1 | h1)
          · exact Or.inr (Or.inl h1)
          · exact Or.inl h1
          · exact Or.inr (Or.inr h1)
        · rintro (h1 | h1 | h1)
          · exact Or.inr (Or.inl h1)
          · exact Or.inl h1
          · exact Or.inr (Or.inr h1)

theorem setOfList_spec (L : BackendLaw B) (ts : List T) :
    Asc B (setOfList B ts) ∧ (∀ x, x ∈ setOfList B ts ↔ x ∈ ts) ∧ (setOfList B ts).length ≤ ts.length := by
  unfold setOfList
  have key : ∀ (ts acc : List T), Asc B acc →
      Asc B (ts.foldl (fun s t => setInsert B t s) acc) ∧
      (∀ x, x ∈ ts.foldl (fun s t => setInsert B t s) acc ↔ x ∈ ts ∨ x ∈ acc) ∧
      (ts.foldl (fun s t => setInsert B t s) acc).length ≤ ts.length + acc.length := by
    intro ts
    induction ts with
    | nil => intro acc h; simp [h]
    | cons t ts ih =>
      intro acc h
      obtain ⟨i1, i2, i3⟩ := setInsert_spec L t acc h
      obtain ⟨j1, j2, j3⟩ := ih _ i1
      refine ⟨j1, ?_, by simp only [List.foldl_cons, List.length_cons]; omega⟩
      intro x
      simp only [List.foldl_cons, j2, i2, List.mem_cons]
      constructor
      · rintro (h1 | h1 | h1)
        · exact Or.inl (Or.inr h1)
        · exact Or.inl (Or.inl h1)
        · exact Or.inr h1
      · rintro ((h1 | h1) | h1)
        · exact Or.inr (Or.inl h1)
        · exact Or.inl h1
        · exact Or.inr (Or.inr h1)
  have := key ts [] (by simp [Asc])
  simpa using this

/-- ascending keys -/
def KeysAsc (B : Backend Code T) (pm : List (T × List T)) : Prop := Asc B (pm.map (·.1))

theorem mapInsert_spec (L : BackendLaw B) (k : T) (v : List T) : ∀ (l : List (T × List T)),
    KeysAsc B l →
    KeysAsc B (mapInsert (tempCmp B) k v l) ∧
    (∀ e, e ∈ mapInsert (tempCmp B) k v l → e = (k, v) ∨ (e ∈ l ∧ e.1 ≠ k)) ∧
    (∀ x, x ∈ (mapInsert (tempCmp B) k v l).map (·.1) ↔ x = k ∨ x ∈ l.map (·.1)) ∧
    (mapInsert (tempCmp B) k v l).length ≤ l.length + 1
  | [], _ => by simp [mapInsert, KeysAsc, Asc]
  | (k', v') :: rest, h => by
    have h' : KeysAsc B rest := (List.pairwise_cons.1 h).2
    have hall : ∀ y ∈ rest.map (·.1), B.tempLt k' y = true := (List.pairwise_cons.1 h).1
    simp only [mapInsert]
    cases hc : tempCmp B k k' with
    | lt =>
      have hlt := cmp_lt.1 hc
      refine ⟨?_, ?_, by simp, by simp⟩
      · refine List.pairwise_cons.2 ⟨?_, h⟩
        intro y hy
        simp only [List.map_cons, List.mem_cons] at hy
        rcases hy with rfl | hy
        · exact hlt
        · exact L.trans _ _ _ hlt (hall y hy)
      · intro e he
        simp only [List.mem_cons] at he
        rcases he with rfl | rfl | he
        · exact Or.inl rfl
        · refine Or.inr ⟨by simp, ?_⟩
          intro e; simp only at e; subst e
          rw [L.irrefl] at hlt; cases hlt
        · refine Or.inr ⟨by simp [he], ?_⟩
          intro e'
          have h1 := hall e.1 (List.mem_map.mpr ⟨e, he, rfl⟩)
          rw [e'] at h1
          have := L.trans _ _ _ hlt h1
          rw [L.irrefl] at this; cases this
    | eq =>
      have := (cmp_eq L).1 hc
      subst this
      refine ⟨h, ?_, by simp, by simp⟩
      intro e he
      simp only [List.mem_cons] at he
      rcases he with rfl | he
      · exact Or.inl rfl
      · refine Or.inr ⟨by simp [he], ?_⟩
        intro e'
        have h1 := hall e.1 (List.mem_map.mpr ⟨e, he, rfl⟩)
        rw [e', L.irrefl] at h1; cases h1
    | gt =>
      have hgt := cmp_gt L hc
      obtain ⟨i1, i2, i3, i4⟩ := mapInsert_spec L k v rest h'
      refine ⟨?_, ?_, ?_, by simp; omega⟩
      · refine List.pairwise_cons.2 ⟨?_, i1⟩
        intro y hy
        rcases (i3 y).1 hy with rfl | hy
        · exact hgt
        · exact hall y hy
      · intro e he
        simp only [List.mem_cons] at he
        rcases he with rfl | he
        · refine Or.inr ⟨by simp, ?_⟩
          intro e'; simp only at e'; subst e'
          rw [L.irrefl] at hgt; cases hgt
        · rcases i2 e he with h1 | ⟨h1, h2⟩
          · exact Or.inl h1
          · exact Or.inr ⟨by simp [h1], h2⟩
      · intro x
        simp only [List.map_cons, List.mem_cons, i3]
        constructor
        · rintro (h1 | h1 | h1)
          · exact Or.inr (Or.inl h1)
          · exact Or.inl h1
          · exact Or.inr (Or.inr h1)
        · rintro (h1 | h1 | h1)
          · exact Or.inr (Or.inl h1)
          · exact Or.inl h1
          · exact Or.inr (Or.inr h1)

/-! ## `transpose` -/

/-- the new names that receive the value of the variable `bid` -/
def targetsId (re : List (Binding × Ident)) (bid : Nat) : List Nat :=
  (re.filter fun (_, old) => bid == old.id).map fun (new, _) => new.var.id

theorem mapInsert_mem_gen {K V : Type} (cmp : K → K → Ordering) (k : K) (v : V) :
    ∀ (l : List (K × V)) (e : K × V), e ∈ mapInsert cmp k v l →
      e = (k, v) ∨ e ∈ l ∨ ∃ k', cmp k k' = .eq ∧ e = (k', v)
  | [], e, h => by simp [mapInsert] at h; exact Or.inl h
  | (k', v') :: rest, e, h => by
    simp only [mapInsert] at h
    cases hc : cmp k k' with
    | lt =>
      simp only [hc, List.mem_cons] at h
      rcases h with h | h | h
      · exact Or.inl h
      · exact Or.inr (Or.inl (by simp [h]))
      · exact Or.inr (Or.inl (by simp [h]))
    | eq =>
      simp only [hc, List.mem_cons] at h
      rcases h with h | h
      · exact Or.inr (Or.inr ⟨k', hc, h⟩)
      · exact Or.inr (Or.inl (by simp [h]))
    | gt =>
      simp only [hc, List.mem_cons] at h
      rcases h with h | h
      · exact Or.inr (Or.inl (by simp [h]))
      · rcases mapInsert_mem_gen cmp k v rest e h with h1 | h1 | h1
        · exact Or.inl h1
        · exact Or.inr (Or.inl (by simp [h1]))
        · exact Or.inr (Or.inr h1)

theorem mapInsert_length_gen {K V : Type} (cmp : K → K → Ordering) (k : K) (v : V) :
    ∀ (l : List (K × V)), (mapInsert cmp k v l).length ≤ l.length + 1
  | [] => by simp [mapInsert]
  | (k', v') :: rest => by
    simp only [mapInsert]
    cases cmp k k' with
    | lt => simp
    | eq => simp
    | gt => have := mapInsert_length_gen cmp k v rest; simp; omega

theorem bindingCmp_eq_id' {a b : Binding} (h : bindingCmp a b = .eq) : a.var.id = b.var.id := by
  unfold bindingCmp at h
  have h1 : identCmp a.var b.var = .eq := by
    cases hc : identCmp a.var b.var <;> simp [hc, Ordering.then] at h ⊢
  unfold identCmp at h1
  have h2 : compare a.var.id b.var.id = .eq := by
    cases hc : strCmp a.var.name b.var.name <;> simp [hc, Ordering.then] at h1 ⊢
    exact h1
  exact Nat.compare_eq_eq.mp h2

/-- every entry of the transposed substitution lists the new names of its own variable; there are at
    most as many entries as variables in the context (no hypothesis on the context) -/
theorem transpose_entries (re : List (Binding × Ident)) (Γ : Ctx) :
    (∀ e ∈ transpose re Γ, e.2 = targetsId re e.1.var.id) ∧ (transpose re Γ).length ≤ Γ.length := by
  unfold transpose
  have key : ∀ (Δ : Ctx) (acc : List (Binding × List Nat)),
      (∀ e ∈ acc, e.2 = targetsId re e.1.var.id) →
      (∀ e ∈ Δ.foldl (fun tm b => mapInsert bindingCmp b (targetsId re b.var.id) tm) acc,
        e.2 = targetsId re e.1.var.id) ∧
      (Δ.foldl (fun tm b => mapInsert bindingCmp b (targetsId re b.var.id) tm) acc).length ≤
        acc.length + Δ.length := by
    intro Δ
    induction Δ with
    | nil => intro acc h; exact ⟨h, by simp⟩
    | cons b rest ih =>
      intro acc h
      have h' : ∀ e ∈ mapInsert bindingCmp b (targetsId re b.var.id) acc,
          e.2 = targetsId re e.1.var.id := by
        intro e he
        rcases mapInsert_mem_gen bindingCmp b _ acc e he with rfl | h1 | ⟨k', hk, rfl⟩
        · rfl
        · exact h e h1
        · simp only; rw [bindingCmp_eq_id' hk]
      obtain ⟨i1, i2⟩ := ih _ h'
      have := mapInsert_length_gen bindingCmp b (targetsId re b.var.id) acc
      exact ⟨i1, by simp only [List.foldl_cons, List.length_cons]; omega⟩
  have := key Γ [] (by simp)
  simpa [targetsId] using this

/-! ## `connections` -/

/-- where an entry of the move map comes from -/
def Prov (B : Backend Code T) (re : List (Binding × Ident)) (Γ newΓ : Ctx) (e : T × List T) : Prop :=
  ∃ (bid : Nat) (num : TempNum), VT B num Γ bid e.1 ∧
    ∀ t ∈ e.2, ∃ i, i ∈ targetsId re bid ∧ VT B num newΓ i t

def Inv (B : Backend Code T) (re : List (Binding × Ident)) (Γ newΓ : Ctx) (acc : List (T × List T)) : Prop :=
  KeysAsc B acc ∧ ∀ e ∈ acc, Asc B e.2 ∧ Prov B re Γ newΓ e

theorem gpost_vt (num : TempNum) (ctx : Ctx) (id : Nat) :
    GPost (B.variableTemporary num ctx id) (VT B num ctx id) := fun c a c' h => ⟨c, c', h⟩

theorem gpost_mapMGen {α β : Type} {f : α → GenM β} {R : α → β → Prop} (hf : ∀ a, GPost (f a) (R a)) :
    ∀ (l : List α), GPost (mapMGen f l) (fun bs => ∀ b ∈ bs, ∃ a ∈ l, R a b)
  | [] => by simp only [mapMGen]; exact GPost.pure (by simp)
  | a :: as => by
    simp only [mapMGen]
    refine GPost.bind (hf a) fun b hb => GPost.bind (gpost_mapMGen hf as) fun bs hbs => GPost.pure ?_
    intro x hx
    simp only [List.mem_cons] at hx
    rcases hx with rfl | hx
    · exact ⟨a, by simp, hb⟩
    · obtain ⟨a', ha', h⟩ := hbs x hx
      exact ⟨a', by simp [ha'], h⟩

theorem inv_insert (L : BackendLaw B) {re : List (Binding × Ident)} {Γ newΓ : Ctx}
    {acc : List (T × List T)} (hacc : Inv B re Γ newΓ acc) {bid : Nat} {num : TempNum} {k : T}
    {ts : List T} (hk : VT B num Γ bid k)
    (hts : ∀ t ∈ ts, ∃ i ∈ targetsId re bid, VT B num newΓ i t) :
    Inv B re Γ newΓ (mapInsert (tempCmp B) k (setOfList B ts) acc) ∧
    (mapInsert (tempCmp B) k (setOfList B ts) acc).length ≤ acc.length + 1 := by
  obtain ⟨i1, i2, _, i4⟩ := mapInsert_spec L k (setOfList B ts) acc hacc.1
  obtain ⟨s1, s2, _⟩ := setOfList_spec L ts
  refine ⟨⟨i1, ?_⟩, i4⟩
  intro e he
  rcases i2 e he with rfl | ⟨h1, _⟩
  · refine ⟨s1, bid, num, hk, ?_⟩
    intro t ht
    obtain ⟨i, hi, h⟩ := hts t ((s2 t).1 ht)
    exact ⟨i, hi, h⟩
  · exact hacc.2 e h1

theorem go_post (L : BackendLaw B) (re : List (Binding × Ident)) (Γ newΓ : Ctx) :
    ∀ (tm : List (Binding × List Nat)) (acc : List (T × List T)),
      (∀ e ∈ tm, e.2 = targetsId re e.1.var.id) → Inv B re Γ newΓ acc →
      GPost (connections.go B Γ newΓ tm acc)
        (fun r => Inv B re Γ newΓ r ∧ r.length ≤ acc.length + 2 * tm.length)
  | [], acc, _, hacc => by
    simp only [connections.go]; exact GPost.pure ⟨hacc, by simp⟩
  | (binding, targets) :: rest, acc, htm, hacc => by
    have ht : targets = targetsId re binding.var.id := htm (binding, targets) (by simp)
    have hrest : ∀ e ∈ rest, e.2 = targetsId re e.1.var.id := fun e he => htm e (by simp [he])
    have hmap : ∀ num, GPost (mapMGen (fun target => B.variableTemporary num newΓ target) targets)
        (fun ts => ∀ t ∈ ts, ∃ i ∈ targetsId re binding.var.id, VT B num newΓ i t) := by
      intro num
      refine GPost.mono (gpost_mapMGen (R := fun i t => VT B num newΓ i t)
        (fun i => gpost_vt num newΓ i) targets) ?_
      intro ts h t htt
      obtain ⟨i, hi, h'⟩ := h t htt
      exact ⟨i, ht ▸ hi, h'⟩
    simp only [connections.go]
    split
    · refine GPost.bind (gpost_vt _ _ _) fun k hk => ?_
      refine GPost.bind (hmap .snd) fun ts hts => ?_
      obtain ⟨j1, j2⟩ := inv_insert L hacc hk hts
      refine GPost.mono (go_post L re Γ newΓ rest _ hrest j1) ?_
      intro r hr
      exact ⟨hr.1, by have := hr.2; simp only [List.length_cons]; omega⟩
    · refine GPost.bind (gpost_vt _ _ _) fun k1 hk1 => ?_
      refine GPost.bind (hmap .fst) fun ts1 hts1 => ?_
      refine GPost.bind (gpost_vt _ _ _) fun k2 hk2 => ?_
      refine GPost.bind (hmap .snd) fun ts2 hts2 => ?_
      obtain ⟨j1, j2⟩ := inv_insert L hacc hk1 hts1
      obtain ⟨j3, j4⟩ := inv_insert L j1 hk2 hts2
      refine GPost.mono (go_post L re Γ newΓ rest _ hrest j3) ?_
      intro r hr
      exact ⟨hr.1, by have := hr.2; simp only [List.length_cons]; omega⟩

/-! ## no temporary is the target of two moves; there are at most `2·|pairs|` targets -/

theorem nodup_flatMap_of {α β γ : Type} (f : α → γ) (g : α → List β) : ∀ (l : List α),
    (l.map f).Nodup → (∀ e ∈ l, (g e).Nodup) →
    (∀ e1 ∈ l, ∀ e2 ∈ l, f e1 ≠ f e2 → ∀ t, t ∈ g e1 → t ∈ g e2 → False) → (l.flatMap g).Nodup
  | [], _, _, _ => by simp
  | a :: r, hk, hn, hd => by
    simp only [List.map_cons, List.nodup_cons] at hk
    simp only [List.flatMap_cons, List.nodup_append]
    refine ⟨hn a (by simp), nodup_flatMap_of f g r hk.2 (fun e he => hn e (by simp [he]))
      (fun e1 h1 e2 h2 => hd e1 (by simp [h1]) e2 (by simp [h2])), ?_⟩
    intro x hx y hy hxy
    subst hxy
    obtain ⟨e, he, hxe⟩ := List.mem_flatMap.1 hy
    refine hd a (by simp) e (by simp [he]) ?_ x hx hxe
    intro hfe
    exact hk.1 (List.mem_map.mpr ⟨e, he, hfe.symm⟩)

theorem eq_of_nodup_map' {α β : Type} (f : α → β) : ∀ (l : List α), (l.map f).Nodup →
    ∀ a ∈ l, ∀ b ∈ l, f a = f b → a = b
  | [], _, a, ha, _, _, _ => by simp at ha
  | c :: r, h, a, ha, b, hb, hab => by
    simp only [List.map_cons, List.nodup_cons] at h
    simp only [List.mem_cons] at ha hb
    rcases ha with rfl | ha <;> rcases hb with rfl | hb
    · rfl
    · exact absurd (List.mem_map.mpr ⟨b, hb, hab.symm⟩) h.1
    · exact absurd (List.mem_map.mpr ⟨a, ha, hab⟩) h.1
    · exact eq_of_nodup_map' f r h.2 a ha b hb hab

theorem mem_targetsId {re : List (Binding × Ident)} {bid i : Nat} :
    i ∈ targetsId re bid ↔ ∃ p ∈ re, bid = p.2.id ∧ p.1.var.id = i := by
  simp only [targetsId, List.mem_map, List.mem_filter, beq_iff_eq]
  constructor
  · rintro ⟨p, ⟨hp, h1⟩, h2⟩; exact ⟨p, hp, h1, h2⟩
  · rintro ⟨p, hp, h1, h2⟩; exact ⟨p, ⟨hp, h1⟩, h2⟩

/-- with pairwise distinct new names, a new name receives the value of one variable only -/
theorem targetsId_unique {re : List (Binding × Ident)} (hnew : (re.map (·.1.var.id)).Nodup)
    {b1 b2 i : Nat} (h1 : i ∈ targetsId re b1) (h2 : i ∈ targetsId re b2) : b1 = b2 := by
  obtain ⟨p1, hp1, e1, i1⟩ := mem_targetsId.1 h1
  obtain ⟨p2, hp2, e2, i2⟩ := mem_targetsId.1 h2
  have := eq_of_nodup_map' (fun p : Binding × Ident => p.1.var.id) re hnew p1 hp1 p2 hp2 (by rw [i1, i2])
  subst this
  rw [e1, e2]

theorem inv_tgt_nodup (L : BackendLaw B) {re : List (Binding × Ident)} {Γ newΓ : Ctx}
    (hnew : (re.map (·.1.var.id)).Nodup) {acc : List (T × List T)} (h : Inv B re Γ newΓ acc) :
    (tgt acc).Nodup := by
  unfold tgt
  refine nodup_flatMap_of (fun e : T × List T => e.1) (fun e => e.2) acc (Asc.nodup L h.1)
    (fun e he => Asc.nodup L (h.2 e he).1) ?_
  intro e1 h1 e2 h2 hne t ht1 ht2
  obtain ⟨b1, n1, k1, p1⟩ := (h.2 e1 h1).2
  obtain ⟨b2, n2, k2, p2⟩ := (h.2 e2 h2).2
  obtain ⟨i1, hi1, v1⟩ := p1 t ht1
  obtain ⟨i2, hi2, v2⟩ := p2 t ht2
  obtain ⟨hn, hi⟩ := L.vtInj _ _ _ _ _ _ v1 v2
  subst hn; subst hi
  have := targetsId_unique hnew hi1 hi2
  subst this
  exact hne (L.vtDet _ _ _ _ _ k1 k2)

attribute [local instance] Classical.propDecidable

theorem length_le_one_of_all_eq {α : Type} : ∀ (l : List α), l.Nodup → (∀ a ∈ l, ∀ b ∈ l, a = b) →
    l.length ≤ 1
  | [], _, _ => by simp
  | [_], _, _ => by simp
  | a :: b :: r, hn, h => by
    have := h a (by simp) b (by simp)
    subst this
    simp at hn

/-- pigeonhole: a duplicate-free list whose elements have names in `N`, a name naming one element only -/
theorem pigeon {α β : Type} (R : α → β → Prop) (hfun : ∀ a a' b, R a b → R a' b → a = a') :
    ∀ (N : List β) (l : List α), l.Nodup → (∀ a ∈ l, ∃ b ∈ N, R a b) → l.length ≤ N.length
  | [], l, _, h => by
    cases l with
    | nil => simp
    | cons a r => obtain ⟨b, hb, _⟩ := h a (by simp); simp at hb
  | b :: N, l, hn, h => by
    have hs := filter_split (fun a => decide (R a b)) l
    have h1 : (l.filter (fun a => decide (R a b))).length ≤ 1 := by
      refine length_le_one_of_all_eq _ (hn.filter _) ?_
      intro a ha a' ha'
      have r1 := of_decide_eq_true (List.mem_filter.1 ha).2
      have r2 := of_decide_eq_true (List.mem_filter.1 ha').2
      exact hfun a a' b r1 r2
    have h2 : (l.filter (fun a => !decide (R a b))).length ≤ N.length := by
      refine pigeon R hfun N _ (hn.filter _) ?_
      intro a ha
      obtain ⟨ha1, ha2⟩ := List.mem_filter.1 ha
      obtain ⟨b', hb', r⟩ := h a ha1
      simp only [List.mem_cons] at hb'
      rcases hb' with rfl | hb'
      · simp [r] at ha2
      · exact ⟨b', hb', r⟩
    simp only [List.length_cons]; omega

theorem names_length (re : List (Binding × Ident)) :
    (re.flatMap fun p => [(TempNum.fst, p.1.var.id), (TempNum.snd, p.1.var.id)]).length = 2 * re.length := by
  induction re with
  | nil => simp
  | cons p r ih => simp only [List.flatMap_cons, List.length_append, ih, List.length_cons,
      List.length_nil]; omega

theorem inv_tgt_length (L : BackendLaw B) {re : List (Binding × Ident)} {Γ newΓ : Ctx}
    (hnew : (re.map (·.1.var.id)).Nodup) {acc : List (T × List T)} (h : Inv B re Γ newΓ acc) :
    (tgt acc).length ≤ 2 * re.length := by
  have hnd := inv_tgt_nodup L hnew h
  rw [← names_length re]
  refine pigeon (fun (t : T) (nm : TempNum × Nat) => VT B nm.1 newΓ nm.2 t) ?_ _ _ hnd ?_
  · intro a a' nm h1 h2
    exact L.vtDet _ _ _ _ _ h1 h2
  · intro t ht
    obtain ⟨e, he, hte⟩ := List.mem_flatMap.1 ht
    obtain ⟨bid, num, _, pr⟩ := (h.2 e he).2
    obtain ⟨i, hi, v⟩ := pr t hte
    obtain ⟨p, hp, _, rfl⟩ := mem_targetsId.1 hi
    refine ⟨(num, p.1.var.id), ?_, v⟩
    refine List.mem_flatMap.2 ⟨p, hp, ?_⟩
    cases num <;> simp

/-- C19, `connections` of a substitution with pairwise distinct new names: a well-formed move problem
    with at most `2·|pairs|` targets and `2·|Γ|` sources -/
theorem connections_spec (L : BackendLaw B) (re : List (Binding × Ident)) (Γ newΓ : Ctx)
    (hnew : (re.map (·.1.var.id)).Nodup) :
    GPost (connections B (transpose re Γ) Γ newΓ)
      (fun conns => (tgt conns).Nodup ∧ (tgt conns).length ≤ 2 * re.length ∧
        conns.length ≤ 2 * Γ.length) := by
  obtain ⟨t1, t2⟩ := transpose_entries re Γ
  unfold connections
  refine GPost.mono (go_post L re Γ newΓ _ [] t1 ⟨by simp [KeysAsc, Asc], by simp⟩) ?_
  intro conns hc
  refine ⟨inv_tgt_nodup L hnew hc.1, inv_tgt_length L hnew hc.1, ?_⟩
  have := hc.2
  simp only [List.length_nil] at this
  omega

/-- the parallel moves of a substitution: at most `1 + 2c·|pairs| + 2c·|Γ|` instructions -/
theorem codeExchange_length {c : Nat} (L : BackendLaw B) (hc : MoveCost B c)
    (re : List (Binding × Ident)) (Γ newΓ : Ctx) (hnew : (re.map (·.1.var.id)).Nodup) :
    GPost (codeExchange B (transpose re Γ) Γ newΓ)
      (fun code => code.length ≤ 1 + 2 * c * re.length + 2 * c * Γ.length) := by
  unfold codeExchange
  refine GPost.bind (connections_spec L re Γ newΓ hnew) fun conns hconns => ?_
  cases hpm : parallelMoves B conns with
  | error e => exact GPost.throw
  | ok code =>
    refine GPost.pure ?_
    have h1 := parallelMoves_length L.lawfulEq hc conns hconns.1 hpm
    have h2 : c * (tgt conns).length ≤ c * (2 * re.length) := Nat.mul_le_mul_left _ hconns.2.1
    have h3 : c * conns.length ≤ c * (2 * Γ.length) := Nat.mul_le_mul_left _ hconns.2.2
    have e1 : c * (2 * re.length) = 2 * c * re.length := by
      rw [← Nat.mul_assoc, Nat.mul_comm c 2]
    have e2 : c * (2 * Γ.length) = 2 * c * Γ.length := by
      rw [← Nat.mul_assoc, Nat.mul_comm c 2]
    omega

end

end Scc.Backend.SizeConns
