/-
  Scc.Backend.TotalPM — `parallelMoves` of the generic code generator (Generic.lean; parallel_moves.rs)
  never fails on a FUNCTIONAL move graph (every temporary is the target of at most one source), for every
  backend whose `tempEq` is equality:
  * `spanningTree` does not run out of fuel (= the Rust recursion terminates): on a functional graph every
    cycle reachable from the root passes through the root, so a path without repetition is not longer
    than the number of distinct temporaries (the fuel `allNodes.length + 1`);
  * `spanningForestLoop` never misses a key (`delete_targets` keeps the keys).
  The argument is the one of Scc/PMoves/Proofs.lean (there for `Nat` temporaries and `Option`), redone for
  an abstract type of temporaries.
  Proof file, core imports only.
-/
import Scc.Backend.TotalDefs

set_option linter.unusedSimpArgs false
set_option linter.unusedVariables false

namespace Scc.Backend.Total

open Scc.AxCut Scc.Backend

section
variable {Code T : Type} (B : Backend Code T)

/-- `s ↦ {…, t, …}` is an entry of the map -/
def Edge (pm : List (T × List T)) (s t : T) : Prop := ∃ ts, (s, ts) ∈ pm ∧ t ∈ ts

/-- every temporary is the target of at most one source (the documented precondition of
    `parallel_moves`) -/
def Functional (pm : List (T × List T)) : Prop := ∀ s s' t, Edge pm s t → Edge pm s' t → s = s'

variable {B}
variable (heq : ∀ a b, B.tempEq a b = true ↔ a = b)
include heq

theorem tempEq_false {a b : T} : B.tempEq a b = false ↔ a ≠ b := by
  rw [← Bool.not_eq_true, heq]

theorem mapLookup_mem {pm : List (T × List T)} {k : T} {ts : List T}
    (h : mapLookup B pm k = some ts) : (k, ts) ∈ pm := by
  unfold mapLookup at h
  cases hf : pm.find? (fun e => B.tempEq k e.1) with
  | none => simp [hf] at h
  | some e =>
    simp only [hf, Option.some.injEq] at h
    have hm := List.mem_of_find?_eq_some hf
    have hp := List.find?_some hf
    have : k = e.1 := (heq _ _).mp hp
    subst h
    rw [this]
    exact hm

theorem mapLookup_isSome_of_key {pm : List (T × List T)} {k : T} (h : k ∈ pm.map (·.1)) :
    ∃ ts, mapLookup B pm k = some ts := by
  unfold mapLookup
  cases hf : pm.find? (fun e => B.tempEq k e.1) with
  | some e => exact ⟨e.2, rfl⟩
  | none =>
    exfalso
    obtain ⟨e, he, rfl⟩ := List.mem_map.mp h
    have := List.find?_eq_none.mp hf e he
    exact this ((heq _ _).mpr rfl)

omit heq in
theorem mapExcept_exists {α β : Type} {f : α → Except String β} : ∀ {xs : List α},
    (∀ x ∈ xs, ∃ y, f x = .ok y) → ∃ ys, mapExcept f xs = .ok ys
  | [], _ => ⟨[], rfl⟩
  | x :: xs, h => by
    obtain ⟨y, hy⟩ := h x List.mem_cons_self
    obtain ⟨ys, hys⟩ := mapExcept_exists (xs := xs) (fun x' hx' => h x' (List.mem_cons_of_mem _ hx'))
    exact ⟨y :: ys, by simp [mapExcept, hy, hys]⟩

omit heq in
/-- `Reach pm r a c`: there is a path `a → … → c` none of whose nodes, except possibly `a`, is `r` -/
inductive Reach (pm : List (T × List T)) (r : T) : T → T → Prop
  | refl (a : T) : Reach pm r a a
  | step {a b c : T} : Reach pm r a b → Edge pm b c → c ≠ r → Reach pm r a c

omit heq in
theorem Reach.head {pm : List (T × List T)} {r a b c : T} (hab : Edge pm a b) (hb : b ≠ r)
    (h : Reach pm r b c) : Reach pm r a c := by
  induction h with
  | refl => exact .step (.refl a) hab hb
  | step _ e ne ih => exact .step ih e ne

omit heq in
theorem Reach.last {pm : List (T × List T)} {r a c : T} (h : Reach pm r a c) (hne : a ≠ c) :
    ∃ y, Reach pm r a y ∧ Edge pm y c ∧ c ≠ r := by
  cases h with
  | refl => exact absurd rfl hne
  | step h1 e ne => exact ⟨_, h1, e, ne⟩

omit heq in
/-- no cycle avoiding the root passes through a node reachable from the root -/
theorem Reach.acyclic {pm : List (T × List T)} (hf : Functional pm) {r n : T} (h : Reach pm r r n) :
    ∀ c, Edge pm n c → c ≠ r → ¬ Reach pm r c n := by
  induction h with
  | refl =>
    intro c _ hc hcr
    obtain ⟨_, _, _, hrr⟩ := hcr.last hc
    exact hrr rfl
  | @step m n hm e ne ih =>
    intro c enc hc hcn
    by_cases hcn' : c = n
    · subst hcn'
      have : m = c := hf _ _ _ e enc
      subst this
      exact ih m enc hc hcn
    · obtain ⟨y, hcy, eyn, _⟩ := hcn.last hcn'
      have : y = m := hf _ _ _ eyn e
      subst this
      exact ih n e ne (Reach.head enc hc hcy)

/-- `fuel > depth` suffices: `anc` is the list of proper ancestors of `n` (root included), `V` any list
    containing all targets of the map -/
theorem spanningTree_terminates {pm : List (T × List T)} (hf : Functional pm) {r : T} (V : List T)
    (hV : ∀ s t, Edge pm s t → t ∈ V) :
    ∀ (fuel : Nat) (n : T) (anc : List T), anc.Nodup → (∀ a ∈ anc, a ∈ V) →
      (∀ a ∈ anc, Reach pm r a n) → Reach pm r r n → (n = r ∨ (n ∉ anc ∧ n ∈ V)) →
      V.length + 1 ≤ anc.length + fuel → ∃ tr, spanningTree B pm r fuel n = .ok tr := by
  intro fuel
  induction fuel with
  | zero =>
    intro n anc hnd hsub _ _ _ hlen
    have := List.Nodup.length_le_of_subset hnd (fun a ha => hsub a ha)
    omega
  | succ fuel ih =>
    intro n anc hnd hsub hanc hrn hn hlen
    simp only [spanningTree]
    by_cases hrn' : r = n
    · simp [(heq r n).mpr hrn']
    · have hne : ¬ (B.tempEq r n = true) := fun h => hrn' ((heq _ _).mp h)
      simp only [hne, if_false]
      cases hl : mapLookup B pm n with
      | none => exact ⟨_, rfl⟩
      | some targets =>
        simp only
        have hnr : n ≠ r := fun e => hrn' e.symm
        obtain ⟨hna, hnV⟩ := hn.resolve_left hnr
        have hnd' : (n :: anc).Nodup := List.nodup_cons.mpr ⟨hna, hnd⟩
        have hsub' : ∀ a ∈ n :: anc, a ∈ V := by
          intro a ha
          rcases List.mem_cons.mp ha with rfl | ha
          · exact hnV
          · exact hsub a ha
        have hle := List.Nodup.length_le_of_subset hnd' (fun a ha => hsub' a ha)
        simp only [List.length_cons] at hle
        have : ∃ kids, mapExcept (spanningTree B pm r fuel) targets = .ok kids := by
          apply mapExcept_exists
          intro c hc
          have e : Edge pm n c := ⟨targets, mapLookup_mem heq hl, hc⟩
          by_cases hcr : c = r
          · subst hcr
            obtain ⟨f', rfl⟩ : ∃ f', fuel = f' + 1 := ⟨fuel - 1, by omega⟩
            exact ⟨.backEdge, by simp [spanningTree, (heq c c).mpr rfl]⟩
          · apply ih c (n :: anc) hnd' hsub'
            · intro a ha
              rcases List.mem_cons.mp ha with rfl | ha
              · exact .step (.refl _) e hcr
              · exact .step (hanc a ha) e hcr
            · exact .step hrn e hcr
            · refine Or.inr ⟨?_, hV _ _ e⟩
              intro hmem
              rcases List.mem_cons.mp hmem with rfl | hmem
              · exact Reach.acyclic hf hrn c e hcr (.refl _)
              · exact Reach.acyclic hf hrn c e hcr (hanc c hmem)
            · simp only [List.length_cons]; omega
        obtain ⟨kids, hk⟩ := this
        exact ⟨.node n kids, by simp [hk]⟩

/-! ## the `spanning_forest` loop -/

omit heq in
theorem edge_deleteTargets {W : List T} {pm : List (T × List T)} {s t : T}
    (h : Edge (deleteTargets B W pm) s t) : Edge pm s t := by
  obtain ⟨ts, hm, ht⟩ := h
  simp only [deleteTargets, List.mem_map] at hm
  obtain ⟨⟨k, v⟩, hm, hkv⟩ := hm
  simp only [Prod.mk.injEq] at hkv
  obtain ⟨rfl, rfl⟩ := hkv
  exact ⟨v, hm, (List.mem_filter.mp ht).1⟩

omit heq in
theorem keys_deleteTargets (W : List T) (pm : List (T × List T)) :
    (deleteTargets B W pm).map (·.1) = pm.map (·.1) := by
  simp [deleteTargets, List.map_map, Function.comp_def]

/-- the mutated map `cur` relative to the original map `pm0` -/
structure Good (pm0 cur : List (T × List T)) : Prop where
  keys : cur.map (·.1) = pm0.map (·.1)
  sub : ∀ s t, Edge cur s t → Edge pm0 s t

omit heq in
theorem Good.delete {pm0 cur : List (T × List T)} (g : Good pm0 cur) (W : List T) :
    Good pm0 (deleteTargets B W cur) :=
  ⟨by rw [keys_deleteTargets, g.keys], fun s t h => g.sub s t (edge_deleteTargets h)⟩

omit heq in
theorem Good.functional {pm0 cur : List (T × List T)} (g : Good pm0 cur) (hf0 : Functional pm0) :
    Functional cur :=
  fun s s' t h h' => hf0 s s' t (g.sub _ _ h) (g.sub _ _ h')

theorem mem_allNodes {pm : List (T × List T)} {x : T}
    (h : x ∈ pm.map (·.1) ∨ x ∈ pm.flatMap (·.2)) : x ∈ allNodes B pm := by
  unfold allNodes
  letI : BEq T := ⟨B.tempEq⟩
  haveI : ReflBEq T := ⟨fun {a} => (heq a a).mpr rfl⟩
  haveI : LawfulBEq T := ⟨fun {a b} h => (heq a b).mp h⟩
  rw [List.mem_eraseDups]
  simpa using h

omit heq in
theorem edge_mem_allTargets {pm : List (T × List T)} {s t : T} (e : Edge pm s t) :
    t ∈ pm.flatMap (·.2) := by
  obtain ⟨ts, hm, ht⟩ := e
  exact List.mem_flatMap.mpr ⟨(s, ts), hm, ht⟩

theorem spanningForestLoop_ok {pm0 : List (T × List T)} (hf0 : Functional pm0) {fuel : Nat}
    (hfuel : (allNodes B pm0).length ≤ fuel) :
    ∀ (ks : List T) (cur : List (T × List T)), Good pm0 cur → (∀ k ∈ ks, k ∈ pm0.map (·.1)) →
      ∃ roots, spanningForestLoop B fuel ks cur = .ok roots := by
  intro ks
  induction ks with
  | nil => intro cur _ _; exact ⟨[], rfl⟩
  | cons k ks ih =>
    intro cur good hks
    have hkey : k ∈ cur.map (·.1) := by rw [good.keys]; exact hks k List.mem_cons_self
    obtain ⟨ts, hl⟩ := mapLookup_isSome_of_key heq hkey
    have hfc := good.functional hf0
    have hV : ∀ s t, Edge cur s t → t ∈ allNodes B pm0 := fun s t e =>
      mem_allNodes heq (Or.inr (edge_mem_allTargets (good.sub _ _ e)))
    have : ∃ trees, mapExcept (spanningTree B cur k fuel)
        (ts.filter (fun t => !B.tempEq t k)) = .ok trees := by
      apply mapExcept_exists
      intro c hc
      obtain ⟨hc1, hc2⟩ := List.mem_filter.mp hc
      have hck : c ≠ k := by
        intro e
        rw [Bool.not_eq_true', tempEq_false heq] at hc2
        exact hc2 e
      have e : Edge cur k c := ⟨ts, mapLookup_mem heq hl, hc1⟩
      have hr : Reach cur k k c := .step (.refl k) e hck
      apply spanningTree_terminates heq hfc (allNodes B pm0) hV fuel c [k]
      · simp
      · intro a ha
        simp only [List.mem_singleton] at ha
        subst ha
        exact mem_allNodes heq (Or.inl (hks a List.mem_cons_self))
      · intro a ha
        simp only [List.mem_singleton] at ha
        subst ha
        exact hr
      · exact hr
      · exact Or.inr ⟨by simpa using hck, hV _ _ e⟩
      · simp only [List.length_singleton]; omega
    obtain ⟨trees, ho⟩ := this
    obtain ⟨rest, hrest⟩ := ih (deleteTargets B (Root.visitedBy (Root.startNode k trees)) cur)
      (good.delete _) (fun k' hk' => hks k' (List.mem_cons_of_mem _ hk'))
    exact ⟨Root.startNode k trees :: rest, by simp [spanningForestLoop, hl, ho, hrest]⟩

/-- **`parallel_moves` does not fail on a functional move graph** -/
theorem parallelMoves_ok {pm : List (T × List T)} (hf : Functional pm) :
    ∃ code, parallelMoves B pm = .ok code := by
  obtain ⟨roots, hroots⟩ := spanningForestLoop_ok heq hf (fuel := (allNodes B pm).length + 1)
    (by omega) (pm.map (·.1)) pm ⟨rfl, fun _ _ h => h⟩ (fun _ h => h)
  unfold parallelMoves spanningForest
  rw [hroots]
  exact ⟨_, rfl⟩

end

end Scc.Backend.Total
