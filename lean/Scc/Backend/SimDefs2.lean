/-
  Scc.Backend.SimDefs2 — the STRENGTHENED representation relation of Theorem A (C06–C08, generic
  simulation).  `Sim.Rel` (SimDefs.lean) is too weak for `switch` / `invoke` / `subst` on objects:

  * `Sim.RepFields` records of a heap field only whether it is `ext` ((f.chi == ext) = isInt v); the
    `load` instruction of the abstract machine compares the FULL kind list of the object with the kind
    list of the clause (`load: kind-mismatch`), so `prd`/`cns` must be recorded too.  Here every field
    and every context position carries exactly the kind of the value it represents (`kindOf`).
  * `Sim.RepVal.clo` asks for the method code of a closure `clo Γc env cs` to be the code generated for
    the ANNOTATED environment `Γc`; the generator (create.rs) uses the context suffix it splits off,
    which `LinTyped` relates to `Γc` only up to names (`Ctx.keys`: ids, kinds, types), and names DO
    influence the emitted code (`transpose` iterates a `BTreeMap` ordered by name first).  Here the
    method code is the code generated for SOME environment with the keys of `Γc`, and likewise the
    code at the program counter is the code of the current statement in SOME context with the keys of
    the machine's context (`Rel2`; `RelX` is the relation for the exact context).

  Everything else (`CodeAt`, `MethodsAt`, `roots`, `HeapOK`, `stepsTo`, `DefsAt`) is SimDefs.lean.
  Core imports only.
-/
import Scc.Backend.SimDefs
import Scc.AxCut.LinTyping

namespace Scc.Backend.Sim2

open Scc.AxCut Scc.AxCut.Pos Scc.Backend Scc.Backend.Abs Scc.Backend.Sim

/-- the kind of the binding that can hold a value -/
def kindOf : Value → Chi
  | .int _ => .ext
  | .obj _ _ => .prd
  | .clo _ _ _ => .cns

mutual
  /-- `RepV P hooks types h v ptr w`: value `v` is represented by pointer part `ptr` (if it has one)
      and word part `w` in heap `h` -/
  inductive RepV (P : Program) (hooks : Bool) (types : List TypeDecl) (h : Heap) :
      Value → Option Word → Word → Prop where
    | int (n : Word) (p : Option Word) : RepV P hooks types h (.int n) p n
    | obj (tag : Nat) (fields : List Value) (r : Word) :
      RepB P hooks types h fields r →
      RepV P hooks types h (.obj tag fields) (some r) (BitVec.ofNat 64 tag)
    | clo (envCtx envCtx' : Ctx) (env : List Value) (clauses : Clauses) (r : Word) (a : Nat) :
      envCtx'.keys = envCtx.keys →
      RepB P hooks types h env r → MethodsAt P hooks types a envCtx' clauses →
      RepV P hooks types h (.clo envCtx env clauses) (some r) (BitVec.ofNat 64 a)
  /-- the values `vs` are the fields of the object referenced by `r` (no value: `r = 0`) -/
  inductive RepB (P : Program) (hooks : Bool) (types : List TypeDecl) (h : Heap) :
      List Value → Word → Prop where
    | empty : RepB P hooks types h [] 0
    | block (v : Value) (vs : List Value) (r : Word) (o : Obj) :
      r ≠ 0 → h.get r.toNat = some o → RepF P hooks types h (v :: vs) o.fields →
      RepB P hooks types h (v :: vs) r
  inductive RepF (P : Program) (hooks : Bool) (types : List TypeDecl) (h : Heap) :
      List Value → List Field → Prop where
    | nil : RepF P hooks types h [] []
    | cons (v : Value) (vs : List Value) (f : Field) (fs : List Field) :
      RepV P hooks types h v (if f.chi == .ext then none else some f.ptr) f.val →
      f.chi = kindOf v →
      RepF P hooks types h vs fs → RepF P hooks types h (v :: vs) (f :: fs)
end

/-- position `i` of the environment is represented by the temporaries `2i` (pointer part, only for
    non-`ext` positions) and `2i+1` (word part); the kind of the position is the kind of the value -/
def ValsOK2 (P : Program) (hooks : Bool) (types : List TypeDecl) (h : Heap) (σ : Temps) (Γ : Ctx)
    (ρ : List Value) : Prop :=
  ∀ i (h1 : i < Γ.length) (h2 : i < ρ.length),
    RepV P hooks types h ρ[i]
      (if Γ[i].chi == .ext then none else σ.get (2 * i))
      ((σ.get (2 * i + 1)).getD 0) ∧
    (σ.get (2 * i + 1)).isSome ∧
    (Γ[i].chi = kindOf ρ[i]) ∧
    (Γ[i].chi != .ext → (σ.get (2 * i)).isSome)

/-- the relation for the EXACT context: the code at the program counter is the code of the current
    statement in the machine's context -/
structure RelX (P : Program) (hooks : Bool) (prog : Prog) (st : Pos.State) (cfg : Config) : Prop where
  len : st.env.length = st.ctx.length
  /-- capacity of the mock numbering: variable temporaries are below the special temporaries -/
  cap : 2 * st.ctx.length + 2 < Mock.T_TEMP
  vals : ValsOK2 P hooks prog.types cfg.heap cfg.temps st.ctx st.env
  heap : HeapOK cfg.heap (roots st.ctx cfg.temps) cfg.next
  code : ∃ c c' ops, (codeStatementR mockSym hooks natRen prog.types st.stmt st.ctx).run c = .ok (ops, c') ∧
    CodeAt P cfg.pc ops

/-- THE simulation relation: `RelX` for some context with the keys (ids, kinds, types) of the
    machine's context -/
def Rel2 (P : Program) (hooks : Bool) (prog : Prog) (st : Pos.State) (cfg : Config) : Prop :=
  ∃ Γ' : Ctx, Γ'.keys = st.ctx.keys ∧ RelX P hooks prog ⟨Γ', st.env, st.stmt⟩ cfg

/-- code addresses fit a word -/
def Fits (P : Program) : Prop := P.code.size < 2 ^ 64

end Scc.Backend.Sim2
