/-
  Scc.Backend.ProofsKeys — contexts with the same KEYS (ids, kinds, types; names are free): the
  positional machine cannot tell them apart (`posOf`, `readVar`, `readInt`, `step.build`, `chiTys`), and
  splitting / taking / dropping respects the keys.  Used by Theorem A (`Rel2`: the code at the program
  counter is the code for SOME context with the keys of the machine's context).
  Proof file.
-/
import Scc.Backend.SimDefs2
import Scc.AxCut.PosSafe

set_option linter.unusedSimpArgs false
set_option linter.unusedVariables false

namespace Scc.Backend.Keys

open Scc.AxCut Scc.AxCut.Pos Scc.Backend

theorem keys_length {Γ Δ : Ctx} (h : Γ.keys = Δ.keys) : Γ.length = Δ.length := by
  have := congrArg List.length h
  simpa [Ctx.keys] using this

theorem keys_ids {Γ Δ : Ctx} (h : Γ.keys = Δ.keys) : Γ.map (·.var.id) = Δ.map (·.var.id) := by
  have := congrArg (List.map (fun k : Nat × Chi × Ty => k.1)) h
  simpa [Ctx.keys, Binding.key, Function.comp_def] using this

theorem keys_ids' {Γ Δ : Ctx} (h : Γ.keys = Δ.keys) : Γ.ids = Δ.ids := keys_ids h

theorem keys_chi {Γ Δ : Ctx} (h : Γ.keys = Δ.keys) : Γ.map (·.chi) = Δ.map (·.chi) := by
  have := congrArg (List.map (fun k : Nat × Chi × Ty => k.2.1)) h
  simpa [Ctx.keys, Binding.key, Function.comp_def] using this

theorem keys_chiTys {Γ Δ : Ctx} (h : Γ.keys = Δ.keys) : Pos.chiTys Γ = Pos.chiTys Δ := by
  have := congrArg (List.map (fun k : Nat × Chi × Ty => k.2)) h
  simpa [Ctx.keys, Binding.key, Pos.chiTys, Function.comp_def] using this

theorem keys_chiTys' {Γ Δ : Ctx} (h : Γ.keys = Δ.keys) : Ctx.chiTys Γ = Ctx.chiTys Δ := keys_chiTys h

theorem keys_take {Γ Δ : Ctx} (h : Γ.keys = Δ.keys) (n : Nat) : Ctx.keys (Γ.take n) = Ctx.keys (Δ.take n) := by
  unfold Ctx.keys at *
  rw [List.map_take, List.map_take, h]

theorem keys_drop {Γ Δ : Ctx} (h : Γ.keys = Δ.keys) (n : Nat) : Ctx.keys (Γ.drop n) = Ctx.keys (Δ.drop n) := by
  unfold Ctx.keys at *
  rw [List.map_drop, List.map_drop, h]

theorem keys_append {Γ Γ' Δ Δ' : Ctx} (h1 : Γ.keys = Γ'.keys) (h2 : Δ.keys = Δ'.keys) :
    Ctx.keys (Γ ++ Δ) = Ctx.keys (Γ' ++ Δ') := by
  unfold Ctx.keys at *
  rw [List.map_append, List.map_append, h1, h2]

theorem keys_getElem {Γ Δ : Ctx} (h : Γ.keys = Δ.keys) {i : Nat} (h1 : i < Γ.length) (h2 : i < Δ.length) :
    Γ[i].key = Δ[i].key := by
  have := congrArg (fun l => l[i]?) h
  simp only [Ctx.keys, List.getElem?_map, List.getElem?_eq_getElem h1, List.getElem?_eq_getElem h2,
    Option.map_some, Option.some.injEq] at this
  exact this

/-- a context with the keys of `Γ1 ++ Γ2` splits accordingly -/
theorem keys_split {Γ' Γ1 Γ2 : Ctx} (h : Γ'.keys = Ctx.keys (Γ1 ++ Γ2)) :
    Γ' = Γ'.take Γ1.length ++ Γ'.drop Γ1.length ∧
    Ctx.keys (Γ'.take Γ1.length) = Γ1.keys ∧ Ctx.keys (Γ'.drop Γ1.length) = Γ2.keys := by
  refine ⟨(List.take_append_drop _ _).symm, ?_, ?_⟩
  · rw [keys_take h]; simp
  · rw [keys_drop h]; simp

theorem keys_snoc {Γ' Γ1 : Ctx} {b : Binding} (h : Γ'.keys = Ctx.keys (Γ1 ++ [b])) :
    ∃ Γ1' b', Γ' = Γ1' ++ [b'] ∧ Ctx.keys Γ1' = Γ1.keys ∧ b'.key = b.key := by
  obtain ⟨h1, h2, h3⟩ := keys_split h
  have hl : (Γ'.drop Γ1.length).length = 1 := by
    have := keys_length h3
    simpa using this
  match hd : Γ'.drop Γ1.length, hl with
  | [b'], _ =>
    refine ⟨Γ'.take Γ1.length, b', by rw [← hd]; exact h1, h2, ?_⟩
    rw [hd] at h3
    simpa [Ctx.keys] using h3

theorem posOf_keys {Γ Δ : Ctx} (h : Γ.keys = Δ.keys) (x : Nat) : posOf Γ x = posOf Δ x := by
  have hid := keys_ids h
  unfold posOf
  have e : ∀ (l : Ctx), l.findIdx? (fun b => b.var.id == x) =
      (l.map (·.var.id)).findIdx? (fun i => i == x) := by
    intro l
    induction l with
    | nil => rfl
    | cons a l ih => simp [List.findIdx?_cons, ih]
  rw [e Γ, e Δ, hid]

theorem readVar_keys {Γ Δ : Ctx} (h : Γ.keys = Δ.keys) (ρ : List Value) (x : Ident) :
    readVar Γ ρ x = readVar Δ ρ x := by
  unfold readVar
  rw [posOf_keys h]

theorem readInt_keys {Γ Δ : Ctx} (h : Γ.keys = Δ.keys) (ρ : List Value) (x : Ident) :
    readInt Γ ρ x = readInt Δ ρ x := by
  unfold readInt
  rw [readVar_keys h]

theorem build_keys {Γ Δ : Ctx} (h : Γ.keys = Δ.keys) (ρ : List Value) :
    ∀ (pairs : List (Binding × Ident)), Pos.step.build Γ ρ pairs = Pos.step.build Δ ρ pairs
  | [] => rfl
  | p :: ps => by
    simp only [Pos.step.build, readVar_keys h, build_keys h ρ ps]

theorem mem_ids_keys {Γ Δ : Ctx} (h : Γ.keys = Δ.keys) {x : Nat} (hx : x ∉ Δ.ids) :
    ∀ b ∈ Γ, b.var.id ≠ x := by
  intro b hb e
  apply hx
  rw [← keys_ids' h]
  unfold Ctx.ids
  exact List.mem_map.mpr ⟨b, hb, e⟩

theorem nodup_keys {Γ Δ : Ctx} (h : Γ.keys = Δ.keys) (hn : NodupIds Δ) : (Γ.map (·.var.id)).Nodup := by
  rw [keys_ids h]; exact hn

/-- a variable of `Δ` is a variable of `Γ` (same id, kind, type) -/
theorem hasVar_keys {Γ Δ : Ctx} (h : Γ.keys = Δ.keys) {x : Nat} {chi : Chi} {ty : Ty}
    (hv : HasVar Δ x chi ty) : HasVar Γ x chi ty := by
  obtain ⟨b, hb, h1, h2, h3⟩ := hv
  obtain ⟨i, hi, rfl⟩ := List.getElem_of_mem hb
  have hi' : i < Γ.length := by rw [keys_length h]; exact hi
  have hk := keys_getElem h hi' hi
  simp only [Binding.key, Prod.mk.injEq] at hk
  exact ⟨Γ[i], List.getElem_mem hi', by rw [hk.1]; exact h1, by rw [hk.2.1]; exact h2,
    by rw [hk.2.2]; exact h3⟩

end Scc.Backend.Keys
