/-
  Scc.Backend.SizeGen — C19 for the GENERIC code generator (/repo/lang/axcut2backend; Generic.lean),
  for an arbitrary backend record `B` whose primitives have bounded code (`GenCost B c`: every
  instruction method emits at most `c` codes, `store`/`load` of `k` fields at most `c·(k+1)`) and whose
  temporaries are lawful (`BackendLaw`, SizeConns.lean):

      |code of s in Γ|  ≤  (5 + 5c) · (1 + M) · |s|         for every M ≥ ctxCap |Γ| s

  (`|s|` = statement + clause nodes, `ctxCap` = longest context, Scc/AxCut/SizeLin.lean), provided the
  new names of every explicit substitution in `s` are pairwise distinct (`substOk`, decidable; see
  SizePM.lean for why the bound is false without it).  Per node: a substitution costs one reference
  count update per old variable and at most `1 + 2c·|new| + 2c·|old|` moves; `let`/`create` store their
  fields, a clause loads its fields (create: the closure environment), everything else is constant.
  `compile_length`: the same for whole programs (`translate` + `assemble`).     Proof file.
-/
import Scc.Backend.SizeConns
import Scc.AxCut.SizeLin

set_option linter.unusedVariables false
set_option linter.unusedSimpArgs false

namespace Scc.Backend.SizeGen

open Scc.AxCut Scc.AxCut.SizeLin Scc.Backend Scc.Backend.SizePM Scc.Backend.SizeConns

/-! ## the hypothesis on the program: substitutions have pairwise distinct new names -/

mutual
  def substOk : Stmt → Bool
    | .subst pairs next => decide ((pairs.map (·.1.var.id)).Nodup) && substOk next
    | .call _ _ => true
    | .letS _ _ _ _ next _ => substOk next
    | .switch _ _ cs _ => substOkC cs
    | .create _ _ _ cs next _ _ => substOkC cs && substOk next
    | .invoke _ _ _ _ => true
    | .lit _ _ next _ => substOk next
    | .op _ _ _ _ next _ => substOk next
    | .print _ _ next _ => substOk next
    | .ifc _ _ _ t e => substOk t && substOk e
    | .exit _ => true
  def substOkC : Clauses → Bool
    | .nil => true
    | .cons _ _ body rest => substOk body && substOkC rest
end

def substOkProg (p : Prog) : Bool := p.defs.all fun d => substOk d.body

section
variable {Code T : Type} (B : Backend Code T)

/-- `c` bounds the code of every primitive of the backend -/
structure GenCost (c : Nat) : Prop where
  move : MoveCost B c
  jump : ∀ t, (B.jump t).length ≤ c
  jumpLabel : ∀ l, (B.jumpLabel l).length ≤ c
  jumpLabelFixed : ∀ l, (B.jumpLabelFixed l).length ≤ c
  jumpLabelIf : ∀ s a b l, (B.jumpLabelIf s a b l).length ≤ c
  jumpLabelIfZero : ∀ s a l, (B.jumpLabelIfZero s a l).length ≤ c
  loadImmediate : ∀ t n, (B.loadImmediate t n).length ≤ c
  loadLabel : ∀ t l, (B.loadLabel t l).length ≤ c
  addAndJump : ∀ t n, (B.addAndJump t n).length ≤ c
  binop : ∀ o t a b, (B.binop o t a b).length ≤ c
  printI64 : ∀ nl t ctx, GPost (B.printI64 nl t ctx) (fun code => code.length ≤ c)
  eraseBlock : ∀ t, GPost (B.eraseBlock t) (fun code => code.length ≤ c)
  shareBlockN : ∀ t n, GPost (B.shareBlockN t n) (fun code => code.length ≤ c)
  store : ∀ a b, GPost (B.store a b) (fun code => code.length ≤ c * (a.length + 1))
  load : ∀ a b, GPost (B.load a b) (fun code => code.length ≤ c * (a.length + 1))

variable {B}

/-! ## the pieces -/

theorem hookCode_length (hooks : Bool) (Γ : Ctx) : (hookCode B hooks Γ).length ≤ 1 := by
  unfold hookCode; split <;> simp

theorem codeTable_length {c : Nat} (C : GenCost B c) (base : String) : ∀ (cs : Clauses),
    (codeTable B cs base).length ≤ c * cs.length
  | .nil => by simp [codeTable]
  | .cons x _ _ rest => by
    have h1 := C.jumpLabelFixed (clauseLabel base x)
    have h2 := codeTable_length C base rest
    simp only [codeTable, List.length_append, Clauses.length, Nat.mul_add, Nat.mul_one]; omega

theorem clauses_length_le_size : ∀ (cs : Clauses), cs.length ≤ cs.size
  | .nil => by simp [Clauses.length, Clauses.size]
  | .cons _ _ body rest => by
    have := clauses_length_le_size rest
    simp only [Clauses.length, Clauses.size]; omega

theorem gpost_splitOffLast (Γ : Ctx) (n : Nat) :
    GPost (splitOffLast Γ n) (fun sp => n ≤ Γ.length ∧ sp.1.length = Γ.length - n ∧ sp.2.length = n) := by
  unfold splitOffLast
  split
  · next h => exact GPost.pure ⟨h, by simp <;> omega, by simp <;> omega⟩
  · exact GPost.throw

theorem urc_length {c : Nat} (C : GenCost B c) (var : Ident) (Γ : Ctx) (n : Nat) :
    GPost (updateReferenceCount B var Γ n) (fun code => code.length ≤ 1 + c) := by
  unfold updateReferenceCount
  refine GPost.bind (GPost.true _) fun t _ => ?_
  match n with
  | 0 => exact GPost.bind (C.eraseBlock t) fun code hc => GPost.pure (by simp; omega)
  | 1 => exact GPost.pure (by simp)
  | n + 2 => exact GPost.bind (C.shareBlockN t (n + 1)) fun code hc => GPost.pure (by simp; omega)

theorem cwc_length {c : Nat} (C : GenCost B c) (Γ : Ctx) : ∀ (tm : List (Binding × List Nat)),
    GPost (codeWeakeningContraction B tm Γ) (fun code => code.length ≤ tm.length * (1 + c))
  | [] => by simp only [codeWeakeningContraction]; exact GPost.pure (by simp)
  | (binding, targets) :: rest => by
    simp only [codeWeakeningContraction]
    refine GPost.bind (Q1 := fun code => code.length ≤ 1 + c) ?_ fun code hc => ?_
    · split
      · exact urc_length C _ _ _
      · exact GPost.pure (by simp)
    · refine GPost.bind (cwc_length C Γ rest) fun codeRest hr => GPost.pure ?_
      simp only [List.length_append, List.length_cons, Nat.add_mul, Nat.one_mul]; omega

theorem exch_length {c : Nat} (L : BackendLaw B) (C : GenCost B c)
    (re : List (Binding × Ident)) (Γ newΓ : Ctx) (hnew : (re.map (·.1.var.id)).Nodup) :
    GPost (codeExchange B (transpose re Γ) Γ newΓ)
      (fun code => code.length ≤ 1 + 2 * (c * re.length) + 2 * (c * Γ.length)) := by
  refine GPost.mono (codeExchange_length L C.move re Γ newΓ hnew) ?_
  intro code h
  rw [Nat.mul_assoc, Nat.mul_assoc] at h
  exact h

/-! ## the generator -/

/-- the constant of the bound: `(5 + 5c)·(1 + M)` per node -/
def KW (c M : Nat) : Nat := (5 + 5 * c) * (1 + M)

theorem KW_eq (c M : Nat) : KW c M = 5 + 5 * c + 5 * M + 5 * (c * M) := by
  unfold KW
  rw [Nat.add_mul, Nat.mul_add, Nat.mul_add, Nat.mul_one, Nat.mul_one, Nat.mul_assoc]
  omega

local macro "fin_gen" : tactic =>
  `(tactic| (simp only [List.length_append, List.length_cons, List.length_nil, List.length_singleton,
      Stmt.size, Clauses.size, Clauses.length, Nat.mul_add, Nat.mul_one, Nat.add_mul, Nat.one_mul,
      ctxCap, ctxCapClauses] at *
             omega))

mutual
  theorem code_length {c : Nat} (L : BackendLaw B) (C : GenCost B c) (hooks : Bool) (ren : Nat → String)
      (types : List TypeDecl) (M W : Nat) (hW : 5 + 5 * c + 5 * M + 5 * (c * M) ≤ W) :
      ∀ (s : Stmt) (Γ : Ctx), ctxCap Γ.length s ≤ M → substOk s = true →
        GPost (codeStatementR B hooks ren types s Γ) (fun code => code.length ≤ W * s.size)
    | .subst rearrange next, Γ, hM, hok => by
      simp only [codeStatementR]
      simp only [substOk, Bool.and_eq_true, decide_eq_true_eq] at hok
      have hΓ := le_ctxCap Γ.length (.subst rearrange next)
      obtain ⟨t1, t2⟩ := transpose_entries rearrange Γ
      have hk := hookCode_length (B := B) hooks Γ
      have hre : rearrange.length ≤ M := by
        have := le_ctxCap rearrange.length next
        simp only [ctxCap] at hM; omega
      have m1 : c * rearrange.length ≤ c * M := Nat.mul_le_mul_left _ hre
      have m2 : c * Γ.length ≤ c * M := Nat.mul_le_mul_left _ (Nat.le_trans hΓ hM)
      have m3 : (transpose rearrange Γ).length * (1 + c) ≤ M * (1 + c) :=
        Nat.mul_le_mul_right _ (Nat.le_trans t2 (Nat.le_trans hΓ hM))
      have m4 : M * (1 + c) = M + c * M := by rw [Nat.mul_add, Nat.mul_one, Nat.mul_comm]
      refine GPost.bind (cwc_length C Γ _) fun c1 h1 => ?_
      refine GPost.bind (exch_length L C rearrange Γ _ hok.1) fun c2 h2 => ?_
      refine GPost.bind (code_length L C hooks ren types M W hW next _ (by
        simp only [List.length_map]; simp only [ctxCap] at hM; omega) hok.2) fun c3 h3 => ?_
      refine GPost.pure ?_
      fin_gen
    | .call label args, Γ, hM, _ => by
      simp only [codeStatementR]
      have hk := hookCode_length (B := B) hooks Γ
      have := C.jumpLabel (label.print ++ "_")
      refine GPost.pure ?_
      fin_gen
    | .letS var ty tag args next fv, Γ, hM, hok => by
      simp only [codeStatementR]
      simp only [substOk] at hok
      have hΓ := le_ctxCap Γ.length (.letS var ty tag args next fv)
      have hk := hookCode_length (B := B) hooks Γ
      refine GPost.bind (GPost.true _) fun decl _ => ?_
      refine GPost.bind (GPost.true _) fun pos _ => ?_
      refine GPost.bind (gpost_splitOffLast Γ args.length) fun sp hsp => ?_
      obtain ⟨context1, arguments⟩ := sp
      dsimp only at hsp ⊢
      refine GPost.bind (C.store _ _) fun c1 h1 => ?_
      refine GPost.bind (GPost.true _) fun t _ => ?_
      have hctx : (context1 ++ [(⟨var, .prd, ty⟩ : Binding)]).length = Γ.length - args.length + 1 := by
        simp [hsp.2.1]
      refine GPost.bind (code_length L C hooks ren types M W hW next _ (by
        rw [hctx]; simp only [ctxCap] at hM; omega) hok) fun c3 h3 => ?_
      refine GPost.pure ?_
      have := C.loadImmediate t (B.jumpLength pos)
      have m1 : c * arguments.length ≤ c * M :=
        Nat.mul_le_mul_left _ (by rw [hsp.2.2]; exact Nat.le_trans hsp.1 (Nat.le_trans hΓ hM))
      fin_gen
    | .switch var ty clauses fv, Γ, hM, hok => by
      simp only [codeStatementR]
      simp only [substOk] at hok
      have hk := hookCode_length (B := B) hooks Γ
      refine GPost.bind (GPost.true _) fun num _ => ?_
      refine GPost.bind (Q1 := fun code => code.length ≤ 3 * c + 1) ?_ fun c1 h1 => ?_
      · split
        · exact GPost.pure (by simp)
        · refine GPost.bind (GPost.true _) fun t _ => GPost.pure ?_
          have a1 := C.loadLabel B.temp (mangleTy ty ++ "_" ++ num)
          have a2 := C.binop .sum B.temp B.temp t
          have a3 := C.jump B.temp
          simp only [List.length_append]; omega
      · refine GPost.bind (clauses_code_length L C hooks ren types M W hW clauses Γ.dropLast _ (by
          simp only [List.length_dropLast]; simp only [ctxCap] at hM; omega) hok) fun c3 h3 => ?_
        refine GPost.pure ?_
        have ht := codeTable_length C (mangleTy ty ++ "_" ++ num) clauses
        have : (if clauses.length > 1 then codeTable B clauses (mangleTy ty ++ "_" ++ num) else []).length
            ≤ c * clauses.length := by split <;> simp [ht]
        fin_gen
    | .create var ty env clauses next fv1 fv2, Γ, hM, hok => by
      cases env with
      | none => simp only [codeStatementR]; exact GPost.throw
      | some envCtx =>
        simp only [codeStatementR]
        simp only [substOk, Bool.and_eq_true] at hok
        have hΓ := le_ctxCap Γ.length (.create var ty (some envCtx) clauses next fv1 fv2)
        have hk := hookCode_length (B := B) hooks Γ
        refine GPost.bind (gpost_splitOffLast Γ envCtx.length) fun sp hsp => ?_
        obtain ⟨context1, closureEnvironment⟩ := sp
        dsimp only at hsp ⊢
        refine GPost.bind (C.store _ _) fun c1 h1 => ?_
        refine GPost.bind (GPost.true _) fun num _ => ?_
        refine GPost.bind (GPost.true _) fun t _ => ?_
        have hctx : (context1 ++ [(⟨var, .cns, ty⟩ : Binding)]).length = Γ.length - envCtx.length + 1 := by
          simp [hsp.2.1]
        have henv : closureEnvironment.length ≤ M := by
          rw [hsp.2.2]; exact Nat.le_trans hsp.1 (Nat.le_trans hΓ hM)
        refine GPost.bind (code_length L C hooks ren types M W hW next _ (by
          rw [hctx]; simp only [ctxCap, Option.getD_some] at hM; omega) hok.2) fun c3 h3 => ?_
        refine GPost.bind (methods_code_length L C hooks ren types M W hW clauses closureEnvironment _ (by
          rw [hsp.2.2]; simp only [ctxCap, Option.getD_some] at hM; omega) henv hok.1) fun c5 h5 => ?_
        refine GPost.pure ?_
        have a1 := C.loadLabel t (mangleTy ty ++ "_" ++ num)
        have ht := codeTable_length C (mangleTy ty ++ "_" ++ num) clauses
        have : (if clauses.length > 1 then codeTable B clauses (mangleTy ty ++ "_" ++ num) else []).length
            ≤ c * clauses.length := by split <;> simp [ht]
        have m1 : c * closureEnvironment.length ≤ c * M := Nat.mul_le_mul_left _ henv
        fin_gen
    | .invoke var tag ty args, Γ, hM, _ => by
      simp only [codeStatementR]
      have hk := hookCode_length (B := B) hooks Γ
      refine GPost.bind (GPost.true _) fun t _ => ?_
      refine GPost.bind (GPost.true _) fun decl _ => ?_
      split
      · refine GPost.pure ?_
        have := C.jump t
        fin_gen
      · refine GPost.bind (GPost.true _) fun pos _ => GPost.pure ?_
        have := C.addAndJump t (B.jumpLength pos)
        fin_gen
    | .lit var n next fv, Γ, hM, hok => by
      simp only [codeStatementR]
      simp only [substOk] at hok
      have hk := hookCode_length (B := B) hooks Γ
      refine GPost.bind (GPost.true _) fun t _ => ?_
      refine GPost.bind (code_length L C hooks ren types M W hW next _ (by
        simp only [List.length_append, List.length_singleton]; simp only [ctxCap] at hM; omega) hok)
        fun c2 h2 => ?_
      refine GPost.pure ?_
      have := C.loadImmediate t n
      fin_gen
    | .op var fst o snd next fv, Γ, hM, hok => by
      simp only [codeStatementR]
      simp only [substOk] at hok
      have hk := hookCode_length (B := B) hooks Γ
      refine GPost.bind (GPost.true _) fun t _ => ?_
      refine GPost.bind (GPost.true _) fun s1 _ => ?_
      refine GPost.bind (GPost.true _) fun s2 _ => ?_
      refine GPost.bind (code_length L C hooks ren types M W hW next _ (by
        simp only [List.length_append, List.length_singleton]; simp only [ctxCap] at hM; omega) hok)
        fun c2 h2 => ?_
      refine GPost.pure ?_
      have := C.binop o t s1 s2
      fin_gen
    | .print newline var next fv, Γ, hM, hok => by
      simp only [codeStatementR]
      simp only [substOk] at hok
      have hk := hookCode_length (B := B) hooks Γ
      refine GPost.bind (GPost.true _) fun t _ => ?_
      refine GPost.bind (C.printI64 _ _ _) fun c1 h1 => ?_
      refine GPost.bind (code_length L C hooks ren types M W hW next _ (by
        simp only [ctxCap] at hM; omega) hok) fun c2 h2 => ?_
      refine GPost.pure ?_
      fin_gen
    | .ifc sort fst snd thenc elsec, Γ, hM, hok => by
      simp only [codeStatementR]
      simp only [substOk, Bool.and_eq_true] at hok
      have hk := hookCode_length (B := B) hooks Γ
      refine GPost.bind (GPost.true _) fun num _ => ?_
      refine GPost.bind (Q1 := fun code => code.length ≤ c) ?_ fun c1 h1 => ?_
      · cases snd with
        | none =>
          dsimp only
          exact GPost.bind (GPost.true _) fun a _ => GPost.pure (C.jumpLabelIfZero _ _ _)
        | some snd =>
          dsimp only
          exact GPost.bind (GPost.true _) fun a _ => GPost.bind (GPost.true _) fun b _ =>
            GPost.pure (C.jumpLabelIf _ _ _ _)
      · refine GPost.bind (code_length L C hooks ren types M W hW elsec _ (by
          simp only [ctxCap] at hM; omega) hok.2) fun c2 h2 => ?_
        refine GPost.bind (code_length L C hooks ren types M W hW thenc _ (by
          simp only [ctxCap] at hM; omega) hok.1) fun c3 h3 => ?_
        refine GPost.pure ?_
        fin_gen
    | .exit var, Γ, hM, _ => by
      simp only [codeStatementR]
      have hk := hookCode_length (B := B) hooks Γ
      refine GPost.bind (GPost.true _) fun t _ => GPost.pure ?_
      have a1 := C.move.mov B.return1 t
      have a2 := C.jumpLabel "cleanup"
      fin_gen
  theorem clauses_code_length {c : Nat} (L : BackendLaw B) (C : GenCost B c) (hooks : Bool)
      (ren : Nat → String) (types : List TypeDecl) (M W : Nat)
      (hW : 5 + 5 * c + 5 * M + 5 * (c * M) ≤ W) :
      ∀ (cs : Clauses) (Γ : Ctx) (base : String), ctxCapClauses Γ.length cs ≤ M → substOkC cs = true →
        GPost (codeClausesR B hooks ren types Γ cs base)
          (fun code => code.length + c * cs.length ≤ W * cs.size)
    | .nil, _, _, _, _ => by simp only [codeClausesR]; exact GPost.pure (by simp [Clauses.length])
    | .cons xtor clauseCtx body rest, Γ, base, hM, hok => by
      simp only [codeClausesR]
      simp only [substOkC, Bool.and_eq_true] at hok
      have hb := le_ctxCap (Γ.length + clauseCtx.length) body
      refine GPost.bind (C.load _ _) fun c1 h1 => ?_
      refine GPost.bind (code_length L C hooks ren types M W hW body _ (by
        simp only [List.length_append]; simp only [ctxCapClauses] at hM; omega) hok.1) fun c2 h2 => ?_
      refine GPost.bind (clauses_code_length L C hooks ren types M W hW rest Γ base (by
        simp only [ctxCapClauses] at hM; omega) hok.2) fun c3 h3 => ?_
      refine GPost.pure ?_
      have m1 : c * clauseCtx.length ≤ c * M :=
        Nat.mul_le_mul_left _ (by simp only [ctxCapClauses] at hM; omega)
      fin_gen
  theorem methods_code_length {c : Nat} (L : BackendLaw B) (C : GenCost B c) (hooks : Bool)
      (ren : Nat → String) (types : List TypeDecl) (M W : Nat)
      (hW : 5 + 5 * c + 5 * M + 5 * (c * M) ≤ W) :
      ∀ (cs : Clauses) (env : Ctx) (base : String), ctxCapClauses env.length cs ≤ M → env.length ≤ M →
        substOkC cs = true →
        GPost (codeMethodsR B hooks ren types env cs base)
          (fun code => code.length + c * cs.length ≤ W * cs.size)
    | .nil, _, _, _, _, _ => by simp only [codeMethodsR]; exact GPost.pure (by simp [Clauses.length])
    | .cons xtor clauseCtx body rest, env, base, hM, henv, hok => by
      simp only [codeMethodsR]
      simp only [substOkC, Bool.and_eq_true] at hok
      refine GPost.bind (C.load _ _) fun c1 h1 => ?_
      refine GPost.bind (code_length L C hooks ren types M W hW body _ (by
        simp only [List.length_append]; simp only [ctxCapClauses] at hM
        rw [Nat.add_comm]; omega) hok.1) fun c2 h2 => ?_
      refine GPost.bind (methods_code_length L C hooks ren types M W hW rest env base (by
        simp only [ctxCapClauses] at hM; omega) henv hok.2) fun c3 h3 => ?_
      refine GPost.pure ?_
      have m1 : c * env.length ≤ c * M := Nat.mul_le_mul_left _ henv
      fin_gen
end

/-! ## whole programs: `translate`, `assemble`, `compile` -/

def blocksLen {α : Type} : List (List α) → Nat
  | [] => 0
  | b :: bs => b.length + blocksLen bs

/-- `substOk` for a list of definitions -/
def substOkDefs (ds : List Def) : Bool := ds.all fun d => substOk d.body

theorem translate_length {c : Nat} (L : BackendLaw B) (C : GenCost B c) (hooks : Bool)
    (ren : Nat → String) (types : List TypeDecl) (M W : Nat)
    (hW : 5 + 5 * c + 5 * M + 5 * (c * M) ≤ W) :
    ∀ (ds : List Def), defsCap ds ≤ M → substOkDefs ds = true →
      GPost (translateR B hooks ren types ds)
        (fun blocks => blocksLen blocks + blocks.length ≤ W * defsNodes ds ∧ blocks.length = ds.length)
  | [], _, _ => by simp only [translateR]; exact GPost.pure (by simp [blocksLen, defsNodes])
  | d :: ds, hM, hok => by
    simp only [translateR]
    simp only [substOkDefs, List.all_cons, Bool.and_eq_true] at hok
    simp only [defsCap] at hM
    refine GPost.bind (code_length L C hooks ren types M W hW d.body d.ctx (by omega) hok.1) fun is h1 => ?_
    refine GPost.bind (translate_length L C hooks ren types M W hW ds (by omega) hok.2) fun rest h2 => ?_
    refine GPost.pure ?_
    simp only [blocksLen, List.length_cons, defsNodes, Nat.mul_add, Nat.mul_one]
    omega

theorem assemble_length : ∀ (blocks : List (List Code)) (names : List Ident),
    (assemble B blocks names).length ≤ blocksLen blocks + blocks.length
  | [], _ => by simp [assemble]
  | _ :: _, [] => by simp [assemble]
  | b :: bs, n :: ns => by
    have := assemble_length bs ns
    simp only [assemble, List.length_cons, List.length_append, blocksLen]; omega

/-- C19 for `compile` with an arbitrary lawful backend: at most `(5 + 5c)·(1 + M)` codes per node of the
    linearized program, `M` = its longest context -/
theorem compile_length {c : Nat} (L : BackendLaw B) (C : GenCost B c) (hooks : Bool)
    (ren : Nat → String) (p : Prog) (M : Nat) (hM : defsCap p.defs ≤ M)
    (hok : substOkProg p = true) :
    GPost (compileR B hooks ren p) (fun r => r.1.length ≤ KW c M * defsNodes p.defs) := by
  unfold compileR
  split
  · exact GPost.throw
  · next d0 rest hd =>
    refine GPost.bind (translate_length L C hooks ren p.types M (KW c M) (Nat.le_of_eq (KW_eq c M).symm)
      p.defs hM hok) fun blocks hb => GPost.pure ?_
    have := assemble_length (B := B) blocks (p.defs.map (·.name))
    simp only
    omega

end

end Scc.Backend.SizeGen
