/-
  Scc.Backend.Proofs — helper lemmas about the generic code generator (Generic.lean) and the mock
  backend (Mock.lean):
  * inversion lemmas for runs of `GenM` programs (`run_bind_ok`, …);
  * `rfl` simp lemmas for the fields of `mockSym`;
  * `CI`: "a generator family indexed by the label renderer uses the counter only through the
    renderer", closed under the monadic combinators, and `CI_codeStatementR` … for every backend whose
    monadic operations are shift invariant (`ShiftInvOps`; the mock backend is).
  Proof file (no Mathlib needed).
-/
import Scc.Backend.Mock

set_option linter.unusedSimpArgs false
set_option linter.unusedVariables false

namespace Scc.Backend

open Scc.AxCut

/-! ## runs of `GenM` programs -/
theorem run_bind_ok {α β : Type} (f : GenM α) (g : α → GenM β) (c : Nat) (r : β) (c' : Nat) :
    (f >>= g).run c = .ok (r, c') ↔ ∃ a c1, f.run c = .ok (a, c1) ∧ (g a).run c1 = .ok (r, c') := by
  simp only [StateT.run_bind]
  cases h : f.run c with
  | error e => simp [bind, Except.bind]
  | ok p =>
    obtain ⟨a, c1⟩ := p
    simp only [bind, Except.bind]
    constructor
    · intro h'; exact ⟨a, c1, rfl, h'⟩
    · rintro ⟨a', c1', h1, h2⟩
      cases h1; exact h2

theorem run_pure_ok {α : Type} (a : α) (c : Nat) (r : α) (c' : Nat) :
    (pure a : GenM α).run c = .ok (r, c') ↔ a = r ∧ c = c' := by
  show (Except.ok (a, c) : Except String (α × Nat)) = .ok (r, c') ↔ _
  constructor
  · intro h; cases h; exact ⟨rfl, rfl⟩
  · rintro ⟨rfl, rfl⟩; rfl

theorem run_throw_ok {α : Type} (e : String) (c : Nat) (r : α) (c' : Nat) :
    (throw e : GenM α).run c = .ok (r, c') ↔ False := by
  show (Except.error e : Except String (α × Nat)) = .ok (r, c') ↔ False
  constructor
  · intro h; cases h
  · intro h; cases h

theorem vt_run_ok (num : TempNum) (ctx : Ctx) (id : Nat) (c : Nat) (t : Nat) (c' : Nat) :
    (Mock.variableTemporary num ctx id).run c = .ok (t, c') ↔
      ∃ pos, Mock.ctxPosition ctx id = some pos ∧ 2 * pos + num.toNat = t ∧ c = c' := by
  unfold Mock.variableTemporary
  cases h : Mock.ctxPosition ctx id with
  | none => simp [run_throw_ok]
  | some pos =>
    simp only [run_pure_ok]
    constructor
    · rintro ⟨rfl, rfl⟩; exact ⟨pos, rfl, rfl, rfl⟩
    · rintro ⟨pos', h1, h2, h3⟩; cases h1; exact ⟨h2, h3⟩


theorem freshLabelStr_run_ok (ren : Nat → String) (c : Nat) (s : String) (c' : Nat) :
    (freshLabelStr ren).run c = .ok (s, c') ↔ ren (c + 1) = s ∧ c + 1 = c' := by
  show (Except.ok (ren (c + 1), c + 1) : Except String (String × Nat)) = .ok (s, c') ↔ _
  constructor
  · intro h; cases h; exact ⟨rfl, rfl⟩
  · rintro ⟨rfl, rfl⟩; rfl

theorem splitOffLast_run_ok (context : Ctx) (n : Nat) (c : Nat) (r : Ctx × Ctx) (c' : Nat) :
    (splitOffLast context n).run c = .ok (r, c') ↔
      n ≤ context.length ∧ r = (context.take (context.length - n), context.drop (context.length - n)) ∧ c = c' := by
  unfold splitOffLast
  split
  · simp only [run_pure_ok]
    constructor
    · rintro ⟨rfl, rfl⟩; exact ⟨by assumption, rfl, rfl⟩
    · rintro ⟨_, rfl, rfl⟩; exact ⟨rfl, rfl⟩
  · simp only [run_throw_ok, false_iff]
    rintro ⟨h, _⟩; contradiction

theorem lookupTypeDeclM_run_ok (types : List TypeDecl) (ty : Ty) (c : Nat) (d : TypeDecl) (c' : Nat) :
    (lookupTypeDeclM types ty).run c = .ok (d, c') ↔ lookupTypeDecl types ty = some d ∧ c = c' := by
  unfold lookupTypeDeclM
  cases ty with
  | i64 => simp [run_throw_ok, lookupTypeDecl]
  | decl n =>
    dsimp only
    cases h : lookupTypeDecl types (.decl n) with
    | none => simp [run_throw_ok]
    | some d' =>
      simp only [run_pure_ok]
      constructor
      · rintro ⟨rfl, rfl⟩; exact ⟨rfl, rfl⟩
      · rintro ⟨h1, rfl⟩; cases h1; exact ⟨rfl, rfl⟩

theorem xtorPositionM_run_ok (d : TypeDecl) (tag : Ident) (c : Nat) (i : Nat) (c' : Nat) :
    (xtorPositionM d tag).run c = .ok (i, c') ↔ xtorPosition d tag = some i ∧ c = c' := by
  unfold xtorPositionM
  cases h : xtorPosition d tag with
  | none => simp [run_throw_ok]
  | some i' =>
    simp only [run_pure_ok]
    constructor
    · rintro ⟨rfl, rfl⟩; exact ⟨rfl, rfl⟩
    · rintro ⟨h1, rfl⟩; cases h1; exact ⟨rfl, rfl⟩


/-! ## the mock backend, field by field -/

section mockSym_simp
@[simp] theorem mockSym_temp : mockSym.temp = Mock.T_TEMP := rfl
@[simp] theorem mockSym_return1 : mockSym.return1 = Mock.T_RET1 := rfl
@[simp] theorem mockSym_jumpLength (n : Nat) : mockSym.jumpLength n = (n : Int) := rfl
@[simp] theorem mockSym_variableTemporary : mockSym.variableTemporary = Mock.variableTemporary := rfl
@[simp] theorem mockSym_comment (m : String) : mockSym.comment m = .comment m := rfl
@[simp] theorem mockSym_label (n : String) : mockSym.label n = .label n := rfl
@[simp] theorem mockSym_jump (t : Nat) : mockSym.jump t = [.jump t] := rfl
@[simp] theorem mockSym_jumpLabel (n : String) : mockSym.jumpLabel n = [.jumpLabel n] := rfl
@[simp] theorem mockSym_jumpLabelFixed (n : String) : mockSym.jumpLabelFixed n = [.jumpFixed n] := rfl
@[simp] theorem mockSym_jumpLabelIf (c : IfSort) (a b : Nat) (n : String) :
    mockSym.jumpLabelIf c a b n = [.jif c a b n] := rfl
@[simp] theorem mockSym_jumpLabelIfZero (c : IfSort) (a : Nat) (n : String) :
    mockSym.jumpLabelIfZero c a n = [.jifz c a n] := rfl
@[simp] theorem mockSym_loadImmediate (t : Nat) (i : Int) : mockSym.loadImmediate t i = [.li t i] := rfl
@[simp] theorem mockSym_loadLabel (t : Nat) (n : String) : mockSym.loadLabel t n = [.ll t n] := rfl
@[simp] theorem mockSym_addAndJump (t : Nat) (i : Int) : mockSym.addAndJump t i = [.addJump t i] := rfl
@[simp] theorem mockSym_binop (o : BinOp) (t a b : Nat) : mockSym.binop o t a b = [.binop o t a b] := rfl
@[simp] theorem mockSym_mov (t s : Nat) : mockSym.mov t s = [.mov t s] := rfl
@[simp] theorem mockSym_printI64 (nl : Bool) (s : Nat) (ctx : Ctx) :
    mockSym.printI64 nl s ctx = pure [.print nl s (Mock.kindsOf ctx)] := rfl
@[simp] theorem mockSym_eraseBlock (t : Nat) : mockSym.eraseBlock t = pure [.erase t] := rfl
@[simp] theorem mockSym_shareBlockN (t n : Nat) : mockSym.shareBlockN t n = pure [.share t n] := rfl
@[simp] theorem mockSym_store (a b : Ctx) :
    mockSym.store a b = pure [.store (Mock.kindsOf a) b.length] := rfl
@[simp] theorem mockSym_load (a b : Ctx) :
    mockSym.load a b = pure [.load (Mock.kindsOf a) b.length] := rfl
@[simp] theorem mockSym_containsSpillEdge (r : Root Nat) : mockSym.containsSpillEdge r = false := rfl
@[simp] theorem mockSym_storeTemporary (t : Nat) (s : Bool) : mockSym.storeTemporary t s = [.save t s] := rfl
@[simp] theorem mockSym_restoreTemporary (t : Nat) (s : Bool) :
    mockSym.restoreTemporary t s = [.restore t s] := rfl
@[simp] theorem mockSym_tempLt (a b : Nat) : mockSym.tempLt a b = decide (a < b) := rfl
@[simp] theorem mockSym_tempEq (a b : Nat) : mockSym.tempEq a b = (a == b) := rfl
end mockSym_simp

/-! ## counter independence -/

/-- shift of a generator result -/
def shiftRes {α : Type} (d : Nat) : Except String (α × Nat) → Except String (α × Nat)
  | .ok (a, k) => .ok (a, k + d)
  | .error e => .error e

/-- a generator family indexed by the label renderer uses the counter only through `ren` -/
structure CI {α : Type} (f : (Nat → String) → GenM α) : Prop where
  run : ∀ ren c d, (f ren).run (c + d) = shiftRes d ((f (fun n => ren (n + d))).run c)

theorem CI_pure {α} (a : α) : CI (fun _ => (pure a : GenM α)) := by
  constructor; intro ren c d; rfl

theorem CI_throw {α} (e : String) : CI (fun _ => (throw e : GenM α)) := by
  constructor; intro ren c d; rfl

theorem CI_bind {α β} (f : (Nat → String) → GenM α) (g : α → (Nat → String) → GenM β)
    (hf : CI f) (hg : ∀ a, CI (g a)) : CI (fun ren => f ren >>= fun a => g a ren) := by
  constructor; intro ren c d
  have h1 := hf.run ren c d
  simp only [StateT.run_bind] at *
  rw [h1]
  cases h : (f (fun n => ren (n + d))).run c with
  | error e => rfl
  | ok r =>
    obtain ⟨a, k⟩ := r
    simp only [shiftRes]
    exact (hg a).run ren k d

theorem CI_freshLabelStr : CI (fun ren => freshLabelStr ren) := by
  constructor; intro ren c d
  show (Except.ok (ren (c + d + 1), c + d + 1) : Except String (String × Nat)) =
    shiftRes d (Except.ok (ren (c + 1 + d), c + 1))
  simp only [shiftRes]
  rw [show c + d + 1 = c + 1 + d by omega]

theorem CI_ite {α} (c : Prop) [Decidable c] (f g : (Nat → String) → GenM α) (hf : CI f) (hg : CI g) :
    CI (fun ren => if c then f ren else g ren) := by
  by_cases h : c <;> simp only [h, if_true, if_false] <;> assumption

/-- shift invariance of a generator that does not depend on `ren` -/
def SI {α : Type} (m : GenM α) : Prop := CI (fun _ => m)

structure ShiftInvOps {Code T : Type} (B : Backend Code T) : Prop where
  variableTemporary : ∀ n ctx id, SI (B.variableTemporary n ctx id)
  printI64 : ∀ nl t ctx, SI (B.printI64 nl t ctx)
  eraseBlock : ∀ t, SI (B.eraseBlock t)
  shareBlockN : ∀ t n, SI (B.shareBlockN t n)
  store : ∀ a b, SI (B.store a b)
  load : ∀ a b, SI (B.load a b)

section
variable {Code T : Type} (B : Backend Code T) (H : ShiftInvOps B)
include H

omit H in
theorem SI_mapMGen {α β} (f : α → GenM β) (hf : ∀ a, SI (f a)) (l : List α) : SI (mapMGen f l) := by
  induction l with
  | nil => exact CI_pure _
  | cons a as ih =>
    unfold mapMGen
    apply CI_bind _ _ (hf a); intro b
    apply CI_bind _ _ ih; intro bs
    exact CI_pure _

theorem SI_connections_go (context newContext : Ctx) (tm : List (Binding × List Nat)) (acc) :
    SI (connections.go B context newContext tm acc) := by
  induction tm generalizing acc with
  | nil => exact CI_pure _
  | cons e rest ih =>
    obtain ⟨binding, targets⟩ := e
    unfold connections.go
    apply CI_ite
    · apply CI_bind _ _ (H.variableTemporary ..); intro k
      apply CI_bind _ _ (SI_mapMGen _ (fun _ => H.variableTemporary _ _ _) _); intro ts
      exact ih _
    · apply CI_bind _ _ (H.variableTemporary ..); intro k
      apply CI_bind _ _ (SI_mapMGen _ (fun _ => H.variableTemporary _ _ _) _); intro ts
      apply CI_bind _ _ (H.variableTemporary ..); intro k2
      apply CI_bind _ _ (SI_mapMGen _ (fun _ => H.variableTemporary _ _ _) _); intro ts2
      exact ih _

theorem SI_codeExchange (tm : List (Binding × List Nat)) (context newContext : Ctx) :
    SI (codeExchange B tm context newContext) := by
  unfold codeExchange connections
  apply CI_bind _ _ (SI_connections_go B H ..); intro conns
  cases parallelMoves B conns with
  | error e => exact CI_throw _
  | ok code => exact CI_pure _

theorem SI_updateReferenceCount (v : Ident) (context : Ctx) (n : Nat) :
    SI (updateReferenceCount B v context n) := by
  unfold updateReferenceCount
  apply CI_bind _ _ (H.variableTemporary ..); intro t
  match n with
  | 0 => exact CI_bind _ _ (H.eraseBlock _) (fun _ => CI_pure _)
  | 1 => exact CI_pure _
  | n + 2 => exact CI_bind _ _ (H.shareBlockN _ _) (fun _ => CI_pure _)

theorem SI_codeWeakeningContraction (tm : List (Binding × List Nat)) (context : Ctx) :
    SI (codeWeakeningContraction B tm context) := by
  induction tm with
  | nil => exact CI_pure _
  | cons e rest ih =>
    obtain ⟨binding, targets⟩ := e
    unfold codeWeakeningContraction
    apply CI_bind
    · apply CI_ite
      · exact SI_updateReferenceCount B H ..
      · exact CI_pure _
    · intro code
      exact CI_bind _ _ ih (fun _ => CI_pure _)

omit H in
theorem SI_splitOffLast (context : Ctx) (n : Nat) : SI (splitOffLast context n) := by
  unfold splitOffLast
  exact CI_ite _ _ _ (CI_pure _) (CI_throw _)

omit H in
theorem SI_lookupTypeDeclM (types : List TypeDecl) (ty : Ty) : SI (lookupTypeDeclM types ty) := by
  unfold lookupTypeDeclM
  cases ty with
  | i64 => exact CI_throw _
  | decl n =>
    dsimp only
    cases lookupTypeDecl types (.decl n) with
    | none => exact CI_throw _
    | some d => exact CI_pure _

omit H in
theorem SI_xtorPositionM (d : TypeDecl) (tag : Ident) : SI (xtorPositionM d tag) := by
  unfold xtorPositionM
  cases xtorPosition d tag with
  | none => exact CI_throw _
  | some d => exact CI_pure _


mutual
theorem CI_codeStatementR (hooks : Bool) (types : List TypeDecl) :
    ∀ (s : Stmt) (context : Ctx), CI (fun ren => codeStatementR B hooks ren types s context)
  | .subst rearrange next, context => by
    simp only [codeStatementR]
    apply CI_bind _ _ (SI_codeWeakeningContraction B H ..); intro c1
    apply CI_bind _ _ (SI_codeExchange B H ..); intro c2
    apply CI_bind _ _ (CI_codeStatementR hooks types next _); intro c3
    exact CI_pure _
  | .call label args, context => by
    simp only [codeStatementR]
    exact CI_pure _
  | .letS var ty tag args next fv, context => by
    simp only [codeStatementR]
    apply CI_bind _ _ (SI_lookupTypeDeclM ..); intro decl
    apply CI_bind _ _ (SI_xtorPositionM ..); intro pos
    apply CI_bind _ _ (SI_splitOffLast ..); intro sp
    obtain ⟨context1, arguments⟩ := sp
    dsimp only
    apply CI_bind _ _ (H.store ..); intro c1
    apply CI_bind _ _ (H.variableTemporary ..); intro t
    apply CI_bind _ _ (CI_codeStatementR hooks types next _); intro c3
    exact CI_pure _
  | .switch var ty clauses fv, context => by
    simp only [codeStatementR]
    apply CI_bind _ _ CI_freshLabelStr; intro num
    apply CI_bind
    · apply CI_ite
      · exact CI_pure _
      · apply CI_bind _ _ (H.variableTemporary ..); intro t
        exact CI_pure _
    · intro c1
      apply CI_bind _ _ (CI_codeClausesR hooks types _ clauses _); intro c3
      exact CI_pure _
  | .create var ty env clauses next fv1 fv2, context => by
    cases env with
    | none => simp only [codeStatementR]; exact CI_throw _
    | some envCtx =>
      simp only [codeStatementR]
      apply CI_bind _ _ (SI_splitOffLast ..); intro sp
      obtain ⟨context1, closureEnvironment⟩ := sp
      dsimp only
      apply CI_bind _ _ (H.store ..); intro c1
      apply CI_bind _ _ CI_freshLabelStr; intro num
      apply CI_bind _ _ (H.variableTemporary ..); intro t
      apply CI_bind _ _ (CI_codeStatementR hooks types next _); intro c3
      apply CI_bind _ _ (CI_codeMethodsR hooks types _ clauses _); intro c5
      exact CI_pure _
  | .invoke var tag ty args, context => by
    simp only [codeStatementR]
    apply CI_bind _ _ (H.variableTemporary ..); intro t
    apply CI_bind _ _ (SI_lookupTypeDeclM ..); intro decl
    apply CI_ite
    · exact CI_pure _
    · apply CI_bind _ _ (SI_xtorPositionM ..); intro pos
      exact CI_pure _
  | .lit var n next fv, context => by
    simp only [codeStatementR]
    apply CI_bind _ _ (H.variableTemporary ..); intro t
    apply CI_bind _ _ (CI_codeStatementR hooks types next _); intro c2
    exact CI_pure _
  | .op var fst o snd next fv, context => by
    simp only [codeStatementR]
    apply CI_bind _ _ (H.variableTemporary ..); intro t
    apply CI_bind _ _ (H.variableTemporary ..); intro s1
    apply CI_bind _ _ (H.variableTemporary ..); intro s2
    apply CI_bind _ _ (CI_codeStatementR hooks types next _); intro c2
    exact CI_pure _
  | .print newline var next fv, context => by
    simp only [codeStatementR]
    apply CI_bind _ _ (H.variableTemporary ..); intro t
    apply CI_bind _ _ (H.printI64 ..); intro c1
    apply CI_bind _ _ (CI_codeStatementR hooks types next _); intro c2
    exact CI_pure _
  | .ifc sort fst snd thenc elsec, context => by
    simp only [codeStatementR]
    apply CI_bind _ _ CI_freshLabelStr; intro num
    apply CI_bind
    · cases snd with
      | none =>
        dsimp only
        apply CI_bind _ _ (H.variableTemporary ..); intro a
        exact CI_pure _
      | some snd =>
        dsimp only
        apply CI_bind _ _ (H.variableTemporary ..); intro a
        apply CI_bind _ _ (H.variableTemporary ..); intro b
        exact CI_pure _
    · intro c1
      apply CI_bind _ _ (CI_codeStatementR hooks types elsec _); intro c2
      apply CI_bind _ _ (CI_codeStatementR hooks types thenc _); intro c3
      exact CI_pure _
  | .exit var, context => by
    simp only [codeStatementR]
    apply CI_bind _ _ (H.variableTemporary ..); intro t
    exact CI_pure _
theorem CI_codeClausesR (hooks : Bool) (types : List TypeDecl) (context : Ctx) :
    ∀ (cs : Clauses) (baseLabel : String),
      CI (fun ren => codeClausesR B hooks ren types context cs baseLabel)
  | .nil, _ => by
    simp only [codeClausesR]; exact CI_pure _
  | .cons xtor clauseCtx body rest, baseLabel => by
    simp only [codeClausesR]
    apply CI_bind _ _ (H.load ..); intro c1
    apply CI_bind _ _ (CI_codeStatementR hooks types body _); intro c2
    apply CI_bind _ _ (CI_codeClausesR hooks types context rest baseLabel); intro c3
    exact CI_pure _
theorem CI_codeMethodsR (hooks : Bool) (types : List TypeDecl) (env : Ctx) :
    ∀ (cs : Clauses) (baseLabel : String),
      CI (fun ren => codeMethodsR B hooks ren types env cs baseLabel)
  | .nil, _ => by
    simp only [codeMethodsR]; exact CI_pure _
  | .cons xtor clauseCtx body rest, baseLabel => by
    simp only [codeMethodsR]
    apply CI_bind _ _ (H.load ..); intro c1
    apply CI_bind _ _ (CI_codeStatementR hooks types body _); intro c2
    apply CI_bind _ _ (CI_codeMethodsR hooks types env rest baseLabel); intro c3
    exact CI_pure _
end


theorem CI_translateR (hooks : Bool) (types : List TypeDecl) :
    ∀ (defs : List Def), CI (fun ren => translateR B hooks ren types defs)
  | [] => by simp only [translateR]; exact CI_pure _
  | d :: ds => by
    simp only [translateR]
    apply CI_bind _ _ (CI_codeStatementR B H hooks types d.body d.ctx); intro is
    apply CI_bind _ _ (CI_translateR hooks types ds); intro rest
    exact CI_pure _

theorem CI_compileR (hooks : Bool) (p : Prog) : CI (fun ren => compileR B hooks ren p) := by
  unfold compileR
  cases p.defs with
  | nil => exact CI_throw _
  | cons d0 ds =>
    dsimp only
    apply CI_bind _ _ (CI_translateR B H hooks p.types _); intro blocks
    exact CI_pure _

end

theorem SI_mock_variableTemporary (n : TempNum) (ctx : Ctx) (id : Nat) :
    SI (Mock.variableTemporary n ctx id) := by
  unfold Mock.variableTemporary
  cases Mock.ctxPosition ctx id with
  | none => exact CI_throw _
  | some pos => exact CI_pure _

/-- the monadic operations of the mock backend do not touch the counter -/
theorem shiftInvOps_mockSym : ShiftInvOps mockSym where
  variableTemporary := SI_mock_variableTemporary
  printI64 := fun _ _ _ => CI_pure _
  eraseBlock := fun _ => CI_pure _
  shareBlockN := fun _ _ => CI_pure _
  store := fun _ _ => CI_pure _
  load := fun _ _ => CI_pure _

end Scc.Backend
