/-
  Scc.Backend.ProofsNames — when do two structured label names (`Lbl`, ProofsLabels.lean) render to
  the same string?  `Lbl.render natRen` is injective on every set of labels whose clause labels use
  xtor names from a list `xs` with `SafeXtorNames xs`:
    (a,b) the last `_`-separated segment of every xtor name is not a (possibly empty) digit string
          [excludes: empty name, name ending in `_`, `…_<digits>`, `<digits>`];
    (c)   no xtor name is `<something>_<another xtor name of xs>`.
  These are the real collision conditions: for each way they fail, Props/C14Generic.lean contains a
  program whose output defines one label twice.
  Proof file (core only).
-/
import Scc.Backend.ProofsLabels

set_option linter.unusedSimpArgs false
set_option linter.unusedVariables false

namespace Scc.Backend

open Scc.AxCut

/-! ## character lists -/

/-- the part after the last underscore (everything, if there is none) -/
def lastSeg (cs : List Char) : List Char := (cs.reverse.takeWhile (· != '_')).reverse

/-- (a,b): the last segment is not a (possibly empty) string of digits -/
def goodXtorName (x : String) : Bool := !(lastSeg x.toList).all Char.isDigit

/-- (c): `x'` preceded by an underscore is a suffix of `x` -/
def uSuffix (x' x : String) : Bool := ('_' :: x'.toList).isSuffixOf x.toList

/-- the decidable safety condition on the printed xtor names of a program -/
def safeXtorNames (xs : List String) : Bool :=
  xs.all goodXtorName && xs.all fun x => xs.all fun x' => !uSuffix x' x

theorem takeWhile_append_of_not {α : Type} (p : α → Bool) (l : List α) (x : α) (r : List α)
    (hx : p x = false) : (l ++ x :: r).takeWhile p = l.takeWhile p := by
  induction l with
  | nil => simp [List.takeWhile, hx]
  | cons a l ih =>
    simp only [List.cons_append, List.takeWhile_cons]
    split
    · rw [ih]
    · rfl

theorem takeWhile_eq_self {α : Type} (p : α → Bool) (l : List α) (h : ∀ a ∈ l, p a = true) :
    l.takeWhile p = l := by
  induction l with
  | nil => rfl
  | cons a l ih =>
    simp only [List.takeWhile_cons, h a (by simp), if_true]
    rw [ih (fun b hb => h b (by simp [hb]))]

theorem lastSeg_append_u (a r : List Char) : lastSeg (a ++ '_' :: r) = lastSeg r := by
  unfold lastSeg
  simp only [List.reverse_append, List.reverse_cons, List.append_assoc, List.singleton_append]
  rw [takeWhile_append_of_not _ _ _ _ (by decide)]

theorem lastSeg_of_no_u (r : List Char) (h : '_' ∉ r) : lastSeg r = r := by
  unfold lastSeg
  rw [takeWhile_eq_self, List.reverse_reverse]
  intro a ha
  have : a ∈ r := by simpa using ha
  simp only [bne_iff_ne, ne_eq]
  intro e; subst e; exact h this

theorem lastSeg_snoc_u (a : List Char) : lastSeg (a ++ ['_']) = [] := by
  rw [lastSeg_append_u]; rfl

/-- splitting at the last underscore is unique -/
theorem split_last_u {a a' r r' : List Char} (h : a ++ '_' :: r = a' ++ '_' :: r')
    (hr : '_' ∉ r) (hr' : '_' ∉ r') : a = a' ∧ r = r' := by
  rcases List.append_eq_append_iff.mp h with ⟨as, h1, h2⟩ | ⟨bs, h1, h2⟩
  · cases as with
    | nil => simp at h1 h2; exact ⟨h1.symm, h2⟩
    | cons c as =>
      simp only [List.cons_append, List.cons.injEq] at h2
      obtain ⟨rfl, h2⟩ := h2
      exfalso; apply hr; rw [h2]; simp
  · cases bs with
    | nil => simp at h1 h2; exact ⟨h1, h2.symm⟩
    | cons c bs =>
      simp only [List.cons_append, List.cons.injEq] at h2
      obtain ⟨rfl, h2⟩ := h2
      exfalso; apply hr'; rw [h2]; simp

/-! ## decimal numbers -/

theorem toString_toList (n : Nat) : (toString n).toList = Nat.toDigits 10 n := by
  rw [Nat.toString_eq_repr, Nat.toList_repr]

theorem toDigits_inj {n m : Nat} (h : Nat.toDigits 10 n = Nat.toDigits 10 m) : n = m := by
  have h1 := @Nat.ofDigitChars_ten_toDigits n
  have h2 := @Nat.ofDigitChars_ten_toDigits m
  rw [h] at h1
  omega

theorem toDigits_all_digit (n : Nat) : (Nat.toDigits 10 n).all Char.isDigit = true := by
  rw [List.all_eq_true]
  intro c hc
  exact Nat.isDigit_of_mem_toDigits (by decide) (by decide) hc

/-! ## the characters of a rendered label -/

theorem render_defn (f : String) : (Lbl.render natRen (.defn f)).toList = f.toList ++ ['_'] := by
  simp [Lbl.render, String.toList_append]

theorem render_lab (n : Nat) :
    (Lbl.render natRen (.lab n)).toList = 'l' :: 'a' :: 'b' :: Nat.toDigits 10 n := by
  simp [Lbl.render, String.toList_append, natRen]

theorem render_base (m : String) (n : Nat) :
    (Lbl.render natRen (.base m n)).toList = m.toList ++ '_' :: Nat.toDigits 10 n := by
  simp [Lbl.render, String.toList_append, natRen]

theorem render_clause (m : String) (n : Nat) (x : String) :
    (Lbl.render natRen (.clause m n x)).toList =
      (m.toList ++ '_' :: Nat.toDigits 10 n) ++ '_' :: x.toList := by
  simp [Lbl.render, String.toList_append, natRen]

theorem render_cleanup : (Lbl.render natRen .cleanup).toList = ['c','l','e','a','n','u','p'] := by
  decide

/-- does the rendered label contain an underscore; what is its last segment -/
theorem u_mem_defn (f : String) : '_' ∈ (Lbl.render natRen (.defn f)).toList := by
  rw [render_defn]; simp

theorem u_mem_base (m : String) (n : Nat) : '_' ∈ (Lbl.render natRen (.base m n)).toList := by
  rw [render_base]; simp

theorem u_mem_clause (m : String) (n : Nat) (x : String) :
    '_' ∈ (Lbl.render natRen (.clause m n x)).toList := by
  rw [render_clause]; simp

theorem u_not_mem_lab (n : Nat) : '_' ∉ (Lbl.render natRen (.lab n)).toList := by
  rw [render_lab]
  simp only [List.mem_cons, not_or]
  exact ⟨by decide, by decide, by decide, Nat.underscore_not_in_toDigits⟩

theorem u_not_mem_cleanup : '_' ∉ (Lbl.render natRen .cleanup).toList := by
  rw [render_cleanup]; decide

theorem lastSeg_defn (f : String) : lastSeg (Lbl.render natRen (.defn f)).toList = [] := by
  rw [render_defn, lastSeg_snoc_u]

theorem lastSeg_base (m : String) (n : Nat) :
    lastSeg (Lbl.render natRen (.base m n)).toList = Nat.toDigits 10 n := by
  rw [render_base, lastSeg_append_u, lastSeg_of_no_u _ Nat.underscore_not_in_toDigits]

theorem lastSeg_clause (m : String) (n : Nat) (x : String) :
    lastSeg (Lbl.render natRen (.clause m n x)).toList = lastSeg x.toList := by
  rw [render_clause, lastSeg_append_u]

/-! ## injectivity -/

/-- clause labels use xtor names from `xs` -/
def Lbl.xtorIn (xs : List String) : Lbl → Prop
  | .clause _ _ x => x ∈ xs
  | _ => True

theorem render_inj (xs : List String) (hs : safeXtorNames xs = true) (l1 l2 : Lbl)
    (h1 : l1.xtorIn xs) (h2 : l2.xtorIn xs)
    (h : Lbl.render natRen l1 = Lbl.render natRen l2) : l1 = l2 := by
  have hl : (Lbl.render natRen l1).toList = (Lbl.render natRen l2).toList := by rw [h]
  simp only [safeXtorNames, Bool.and_eq_true, List.all_eq_true] at hs
  obtain ⟨hgood, hsuf⟩ := hs
  have good : ∀ x ∈ xs, (lastSeg x.toList).all Char.isDigit = false := by
    intro x hx
    have := hgood x hx
    simpa [goodXtorName] using this
  cases l1 with
  | defn f =>
    cases l2 with
    | defn f' =>
      rw [render_defn, render_defn] at hl
      have := List.append_cancel_right hl
      rw [String.toList_inj] at this
      rw [this]
    | cleanup => exact absurd (hl ▸ u_mem_defn f) u_not_mem_cleanup
    | lab n => exact absurd (hl ▸ u_mem_defn f) (u_not_mem_lab n)
    | base m n =>
      have := congrArg lastSeg hl
      rw [lastSeg_defn, lastSeg_base] at this
      exact absurd this.symm Nat.toDigits_ne_nil
    | clause m n x =>
      have := congrArg lastSeg hl
      rw [lastSeg_defn, lastSeg_clause] at this
      have g := good x h2
      rw [← this] at g
      simp at g
  | cleanup =>
    cases l2 with
    | defn f => exact absurd (hl ▸ u_mem_defn f) u_not_mem_cleanup
    | cleanup => rfl
    | lab n =>
      rw [render_cleanup, render_lab] at hl
      simp at hl
    | base m n => exact absurd (hl ▸ u_mem_base m n) u_not_mem_cleanup
    | clause m n x => exact absurd (hl ▸ u_mem_clause m n x) u_not_mem_cleanup
  | lab n =>
    cases l2 with
    | defn f => exact absurd (hl ▸ u_mem_defn f) (u_not_mem_lab n)
    | cleanup =>
      rw [render_cleanup, render_lab] at hl
      simp at hl
    | lab n' =>
      rw [render_lab, render_lab] at hl
      simp only [List.cons.injEq, true_and] at hl
      rw [toDigits_inj hl]
    | base m n' => exact absurd (hl ▸ u_mem_base m n') (u_not_mem_lab n)
    | clause m n' x => exact absurd (hl ▸ u_mem_clause m n' x) (u_not_mem_lab n)
  | base m n =>
    cases l2 with
    | defn f =>
      have := congrArg lastSeg hl
      rw [lastSeg_defn, lastSeg_base] at this
      exact absurd this Nat.toDigits_ne_nil
    | cleanup => exact absurd (hl ▸ u_mem_base m n) u_not_mem_cleanup
    | lab n' => exact absurd (hl ▸ u_mem_base m n) (u_not_mem_lab n')
    | base m' n' =>
      rw [render_base, render_base] at hl
      obtain ⟨e1, e2⟩ := split_last_u hl Nat.underscore_not_in_toDigits Nat.underscore_not_in_toDigits
      rw [String.toList_inj] at e1
      rw [e1, toDigits_inj e2]
    | clause m' n' x =>
      have := congrArg lastSeg hl
      rw [lastSeg_base, lastSeg_clause] at this
      have g := good x h2
      rw [← this, toDigits_all_digit] at g
      cases g
  | clause m n x =>
    cases l2 with
    | defn f =>
      have := congrArg lastSeg hl
      rw [lastSeg_defn, lastSeg_clause] at this
      have g := good x h1
      rw [this] at g
      simp at g
    | cleanup => exact absurd (hl ▸ u_mem_clause m n x) u_not_mem_cleanup
    | lab n' => exact absurd (hl ▸ u_mem_clause m n x) (u_not_mem_lab n')
    | base m' n' =>
      have := congrArg lastSeg hl
      rw [lastSeg_base, lastSeg_clause] at this
      have g := good x h1
      rw [this, toDigits_all_digit] at g
      cases g
    | clause m' n' x' =>
      rw [render_clause, render_clause] at hl
      have key : x.toList = x'.toList ∧
          m.toList ++ '_' :: Nat.toDigits 10 n = m'.toList ++ '_' :: Nat.toDigits 10 n' := by
        rcases List.append_eq_append_iff.mp hl with ⟨as, e1, e2⟩ | ⟨bs, e1, e2⟩
        · -- (m'…n') = (m…n) ++ as,  '_' :: x = as ++ '_' :: x'
          cases as with
          | nil => simp at e1 e2; exact ⟨e2, e1.symm⟩
          | cons c as =>
            simp only [List.cons_append, List.cons.injEq] at e2
            obtain ⟨rfl, e2⟩ := e2
            exfalso
            have := hsuf x h1 x' h2
            simp only [uSuffix, Bool.not_eq_eq_eq_not, Bool.not_true, ← Bool.not_eq_true, List.isSuffixOf_iff_suffix] at this
            exact this ⟨as, e2.symm⟩
        · cases bs with
          | nil => simp at e1 e2; exact ⟨e2.symm, e1⟩
          | cons c bs =>
            simp only [List.cons_append, List.cons.injEq] at e2
            obtain ⟨rfl, e2⟩ := e2
            exfalso
            have := hsuf x' h2 x h1
            simp only [uSuffix, Bool.not_eq_eq_eq_not, Bool.not_true, ← Bool.not_eq_true, List.isSuffixOf_iff_suffix] at this
            exact this ⟨bs, e2.symm⟩
      obtain ⟨ex, em⟩ := key
      obtain ⟨e1, e2⟩ := split_last_u em Nat.underscore_not_in_toDigits Nat.underscore_not_in_toDigits
      rw [String.toList_inj] at e1 ex
      rw [e1, ex, toDigits_inj e2]

end Scc.Backend
