/-
  Scc.Backend.ProofsRep2 — generic lemmas for the strengthened representation relation of Theorem A
  (SimDefs2.lean): heap updates (`set`, `remove`), transfer of the representation along heap changes
  that keep the fields of every reachable object, the two primitive steps of the counting invariant
  `HeapOK` (change of one count / removal of a unique object), frame lemmas for `ValsOK2`.
  Proof file.
-/
import Scc.Backend.SimDefs2
import Scc.Backend.ProofsHeap

set_option linter.unusedSimpArgs false
set_option linter.unusedVariables false

namespace Scc.Backend.Sim2

open Scc.AxCut Scc.AxCut.Pos Scc.Backend Scc.Backend.Abs Scc.Backend.Sim

/-! ## heap updates -/

theorem heap_find_filter_ne {id id' : Nat} (h : Heap) (hne : id' ≠ id) :
    (h.filter (fun e => e.1 != id)).find? (fun e => e.1 == id') = h.find? (fun e => e.1 == id') := by
  induction h with
  | nil => rfl
  | cons e h ih =>
    by_cases h1 : e.1 = id
    · have : (e.1 != id) = false := by simp [h1]
      simp only [List.filter_cons, this]
      have : (e.1 == id') = false := by simp [h1, Ne.symm hne]
      simp only [List.find?_cons, this]
      exact ih
    · have : (e.1 != id) = true := by simp [h1]
      simp only [List.filter_cons, this, if_true, List.find?_cons]
      rw [ih]

theorem heap_find_filter_eq {id : Nat} (h : Heap) :
    (h.filter (fun e => e.1 != id)).find? (fun e => e.1 == id) = none := by
  rw [List.find?_eq_none]
  intro e he
  have := (List.mem_filter.mp he).2
  simpa using this

theorem heap_get_remove_same (h : Heap) (id : Nat) : (h.remove id).get id = none := by
  unfold Heap.get Heap.remove
  rw [heap_find_filter_eq]

theorem heap_get_remove_other (h : Heap) {id id' : Nat} (hne : id' ≠ id) :
    (h.remove id).get id' = h.get id' := by
  unfold Heap.get Heap.remove
  rw [heap_find_filter_ne h hne]

theorem heap_get_set_same (h : Heap) (id : Nat) (o : Obj) : (h.set id o).get id = some o := by
  unfold Heap.set; exact heap_get_cons_same

theorem heap_get_set_other (h : Heap) {id id' : Nat} (o : Obj) (hne : id' ≠ id) :
    (h.set id o).get id' = h.get id' := by
  unfold Heap.set
  rw [heap_get_cons_ne hne, heap_get_remove_other h hne]

theorem mem_remove {h : Heap} {id : Nat} {e : Nat × Obj} : e ∈ h.remove id ↔ e ∈ h ∧ e.1 ≠ id := by
  unfold Heap.remove
  simp [List.mem_filter]

theorem heap_mem_get {h : Heap} (hnd : (h.map (·.1)).Nodup) {e : Nat × Obj} (he : e ∈ h) :
    h.get e.1 = some e.2 := by
  induction h with
  | nil => cases he
  | cons a h ih =>
    simp only [List.map_cons, List.nodup_cons] at hnd
    rcases List.mem_cons.mp he with rfl | he'
    · exact heap_get_cons_same
    · have hne : e.1 ≠ a.1 := by
        intro hc
        exact hnd.1 (List.mem_map.mpr ⟨e, he', hc⟩)
      obtain ⟨a1, a2⟩ := a
      rw [heap_get_cons_ne hne]
      exact ih hnd.2 he'

/-! ## transfer of the representation -/

/-- `h'` keeps the fields of every object of `h` except possibly `x` -/
def FieldsKept (h h' : Heap) (x : Nat) : Prop :=
  ∀ id o, id ≠ x → h.get id = some o → ∃ o', h'.get id = some o' ∧ o'.fields = o.fields

/-- no object of `h` references `x` -/
def Unref (h : Heap) (x : Nat) : Prop := ∀ id o, h.get id = some o → x ∉ o.children

theorem chi_beq_ext (c : Chi) : (c == .ext) = true ↔ c = .ext := by cases c <;> decide

theorem chi_beq_ext_false (c : Chi) : (c == .ext) = false ↔ c ≠ .ext := by cases c <;> decide

theorem chi_bne_ext (c : Chi) : (c != .ext) = true ↔ c ≠ .ext := by cases c <;> decide

theorem chi_bne_ext_false (c : Chi) : (c != .ext) = false ↔ c = .ext := by cases c <;> decide

theorem mem_children {o : Obj} {f : Field} (hf : f ∈ o.fields) (hc : f.chi ≠ .ext) (hp : f.ptr ≠ 0) :
    f.ptr.toNat ∈ o.children := by
  unfold Obj.children
  rw [List.mem_filterMap]
  refine ⟨f, hf, ?_⟩
  have h1 : (f.chi != .ext) = true := (chi_bne_ext _).mpr hc
  have h2 : (f.ptr != 0) = true := by rw [bne_iff_ne]; exact hp
  simp only [h1, h2, Bool.and_self, if_true]

mutual
theorem RepV.transfer {P : Program} {hooks : Bool} {types : List TypeDecl} {h h' : Heap} {x : Nat}
    (hk : FieldsKept h h' x) (hu : Unref h x) : ∀ {v : Value} {p : Option Word} {w : Word},
    RepV P hooks types h v p w → (∀ r, p = some r → r ≠ 0 → r.toNat ≠ x) →
    RepV P hooks types h' v p w
  | _, _, _, .int n p, _ => .int n p
  | _, _, _, .obj tag fields r hb, hp =>
    .obj tag fields r (RepB.transfer hk hu hb (hp r rfl))
  | _, _, _, .clo envCtx envCtx' env clauses r a hkeys hb hm, hp =>
    .clo envCtx envCtx' env clauses r a hkeys (RepB.transfer hk hu hb (hp r rfl)) hm
theorem RepB.transfer {P : Program} {hooks : Bool} {types : List TypeDecl} {h h' : Heap} {x : Nat}
    (hk : FieldsKept h h' x) (hu : Unref h x) : ∀ {vs : List Value} {r : Word},
    RepB P hooks types h vs r → (r ≠ 0 → r.toNat ≠ x) → RepB P hooks types h' vs r
  | _, _, .empty, _ => .empty
  | _, _, .block v vs r o hr hg hf, hp => by
    obtain ⟨o', hg', hfe⟩ := hk _ _ (hp hr) hg
    refine .block v vs r o' hr hg' ?_
    rw [hfe]
    exact RepF.transfer hk hu hf (fun f hfm hc hp0 => by
      intro e
      exact hu _ _ hg (e ▸ mem_children hfm hc hp0))
theorem RepF.transfer {P : Program} {hooks : Bool} {types : List TypeDecl} {h h' : Heap} {x : Nat}
    (hk : FieldsKept h h' x) (hu : Unref h x) : ∀ {vs : List Value} {fs : List Field},
    RepF P hooks types h vs fs → (∀ f ∈ fs, f.chi ≠ .ext → f.ptr ≠ 0 → f.ptr.toNat ≠ x) →
    RepF P hooks types h' vs fs
  | _, _, .nil, _ => .nil
  | _, _, .cons v vs f fs hv hkind hr, hp => by
    refine .cons v vs f fs ?_ hkind (RepF.transfer hk hu hr (fun f' hf' => hp f' (by simp [hf'])))
    refine RepV.transfer hk hu hv ?_
    intro r hr' hr0
    by_cases hc : (f.chi == .ext) = true
    · simp [hc] at hr'
    · simp only [hc, Bool.false_eq_true, if_false, Option.some.injEq] at hr'
      subst hr'
      exact hp f (by simp) (fun e => hc ((chi_beq_ext _).mpr e)) hr0
end


theorem children_lt {o : Obj} {y : Nat} (hy : y ∈ o.children) : y < 2 ^ 64 := by
  unfold Obj.children at hy
  rw [List.mem_filterMap] at hy
  obtain ⟨f, _, hf⟩ := hy
  split at hf
  · cases hf; exact f.ptr.isLt
  · cases hf

/-- `h'` keeps the fields of every object of `h` -/
def AllFieldsKept (h h' : Heap) : Prop :=
  ∀ id o, h.get id = some o → ∃ o', h'.get id = some o' ∧ o'.fields = o.fields

theorem RepV.kept {P : Program} {hooks : Bool} {types : List TypeDecl} {h h' : Heap}
    (hk : AllFieldsKept h h') {v : Value} {p : Option Word} {w : Word}
    (hv : RepV P hooks types h v p w) : RepV P hooks types h' v p w := by
  refine RepV.transfer (x := 2 ^ 64) (fun id o _ hg => hk id o hg) ?_ hv ?_
  · intro id o hg hm
    exact absurd (children_lt hm) (Nat.lt_irrefl _)
  · intro r _ _ e
    have := r.isLt
    omega

theorem RepB.kept {P : Program} {hooks : Bool} {types : List TypeDecl} {h h' : Heap}
    (hk : AllFieldsKept h h') {vs : List Value} {r : Word}
    (hv : RepB P hooks types h vs r) : RepB P hooks types h' vs r := by
  refine RepB.transfer (x := 2 ^ 64) (fun id o _ hg => hk id o hg) ?_ hv ?_
  · intro id o hg hm
    exact absurd (children_lt hm) (Nat.lt_irrefl _)
  · intro _ e
    have := r.isLt
    omega

theorem AllFieldsKept.ofExt {h h' : Heap} (he : HeapExt h h') : AllFieldsKept h h' :=
  fun id o hg => ⟨o, he id o hg, rfl⟩

/-! ## counting -/

/-- number of references to `x` from the fields of heap objects -/
def childSum (h : Heap) (x : Nat) : Nat := (h.map fun e => e.2.children.count x).sum

theorem refCount_eq (h : Heap) (rs : List Nat) (x : Nat) : refCount h rs x = rs.count x + childSum h x := rfl

theorem remove_eq_self {h : Heap} {id : Nat} (hn : id ∉ h.map (·.1)) : h.remove id = h := by
  unfold Heap.remove
  rw [List.filter_eq_self]
  intro e he
  simp only [bne_iff_ne, ne_eq]
  intro hc
  exact hn (List.mem_map.mpr ⟨e, he, hc⟩)

theorem remove_cons_same (e1 : Nat) (e2 : Obj) (h : Heap) :
    Heap.remove ((e1, e2) :: h) e1 = Heap.remove h e1 := by
  unfold Heap.remove
  simp [List.filter_cons]

theorem remove_cons_other {e1 id : Nat} (e2 : Obj) (h : Heap) (hne : e1 ≠ id) :
    Heap.remove ((e1, e2) :: h) id = (e1, e2) :: Heap.remove h id := by
  unfold Heap.remove
  have : (e1 != id) = true := by simp [hne]
  simp [List.filter_cons, this]

theorem childSum_cons (id : Nat) (o : Obj) (h : Heap) (x : Nat) :
    childSum ((id, o) :: h) x = o.children.count x + childSum h x := by
  simp [childSum]

theorem childSum_remove : ∀ {h : Heap}, (h.map (·.1)).Nodup → ∀ {id : Nat} {o : Obj},
    h.get id = some o → ∀ (x : Nat), childSum (h.remove id) x + o.children.count x = childSum h x
  | [], _, id, o, hg, _ => by simp [Heap.get] at hg
  | (e1, e2) :: h, hnd, id, o, hg, x => by
    simp only [List.map_cons, List.nodup_cons] at hnd
    by_cases he : e1 = id
    · subst he
      rw [heap_get_cons_same] at hg
      have ho : e2 = o := Option.some.inj hg
      subst ho
      rw [remove_cons_same, remove_eq_self hnd.1, childSum_cons]
      omega
    · have hne : id ≠ e1 := fun hc => he hc.symm
      rw [heap_get_cons_ne hne] at hg
      rw [remove_cons_other _ _ he, childSum_cons, childSum_cons]
      have := childSum_remove hnd.2 hg x
      omega

theorem childSum_set {h : Heap} (hnd : (h.map (·.1)).Nodup) {id : Nat} {o o' : Obj}
    (hg : h.get id = some o) (x : Nat) :
    childSum (h.set id o') x + o.children.count x = childSum h x + o'.children.count x := by
  have := childSum_remove hnd hg x
  unfold Heap.set
  rw [childSum_cons]
  omega

theorem childSum_zero {h : Heap} {x : Nat} (hz : childSum h x = 0) : ∀ e ∈ h, x ∉ e.2.children := by
  induction h with
  | nil => intro e he; cases he
  | cons a h ih =>
    simp only [childSum, List.map_cons, List.sum_cons] at hz
    intro e he
    rcases List.mem_cons.mp he with rfl | he'
    · intro hm
      have : 0 < e.2.children.count x := List.count_pos_iff.mpr hm
      omega
    · exact ih (by simp only [childSum]; omega) e he'

theorem nodup_remove {h : Heap} (hnd : (h.map (·.1)).Nodup) (id : Nat) : ((h.remove id).map (·.1)).Nodup := by
  unfold Heap.remove
  exact List.Nodup.sublist (List.Sublist.map _ List.filter_sublist) hnd

theorem nodup_set {h : Heap} (hnd : (h.map (·.1)).Nodup) (id : Nat) (o : Obj) :
    ((h.set id o).map (·.1)).Nodup := by
  unfold Heap.set
  simp only [List.map_cons, List.nodup_cons]
  refine ⟨?_, nodup_remove hnd id⟩
  intro hm
  obtain ⟨e, he, he1⟩ := List.mem_map.mp hm
  exact (mem_remove.mp he).2 he1

/-- the counting invariant depends on the roots only through their multiplicities -/
theorem heapOK_count_congr {h : Heap} {rs rs' : List Nat} {next : Nat} (H : HeapOK h rs next)
    (hrs : ∀ x, rs'.count x = rs.count x) : HeapOK h rs' next := by
  have key : ∀ x, refCount h rs' x = refCount h rs x := by
    intro x; simp only [refCount_eq, hrs x]
  exact {
    pos := H.pos
    nodup := H.nodup
    ids := H.ids
    counts := by intro e he; rw [key]; exact H.counts e he
    live := by intro id hid; rw [key] at hid; exact H.live id hid }

/-- primitive step (a): the count of one object changes together with the number of roots
    referencing it -/
theorem heapOK_setCount {h : Heap} {rs rs' : List Nat} {next id c' : Nat} {o : Obj}
    (H : HeapOK h rs next) (hg : h.get id = some o)
    (hrs : ∀ x, x ≠ id → rs'.count x = rs.count x)
    (hc : c' + rs.count id = o.count + rs'.count id) :
    HeapOK (h.set id { o with count := c' }) rs' next := by
  have hmem := heap_get_mem hg
  have hcs : ∀ x, childSum (h.set id { o with count := c' }) x = childSum h x := by
    intro x
    have := childSum_set (o' := { o with count := c' }) H.nodup hg x
    have e : ({ o with count := c' } : Obj).children = o.children := rfl
    rw [e] at this
    omega
  exact {
    pos := H.pos
    nodup := nodup_set H.nodup _ _
    ids := by
      intro e he
      unfold Heap.set at he
      rcases List.mem_cons.mp he with rfl | he'
      · exact H.ids (id, o) hmem
      · exact H.ids e (mem_remove.mp he').1
    counts := by
      intro e he
      unfold Heap.set at he
      rcases List.mem_cons.mp he with rfl | he'
      · have := H.counts _ hmem
        simp only [refCount_eq, hcs] at this ⊢
        omega
      · have hne := (mem_remove.mp he').2
        have := H.counts e (mem_remove.mp he').1
        simp only [refCount_eq, hcs, hrs _ hne] at this ⊢
        exact this
    live := by
      intro x hx
      by_cases hxi : x = id
      · subst hxi; rw [heap_get_set_same]; rfl
      · rw [heap_get_set_other _ _ hxi]
        apply H.live
        simp only [refCount_eq, hcs, hrs _ hxi] at hx ⊢
        exact hx }

/-- primitive step (b): an object with count 0 is removed; the reference to it disappears from the
    roots, its children become roots -/
theorem heapOK_remove {h : Heap} {rs rs' : List Nat} {next id : Nat} {o : Obj}
    (H : HeapOK h rs next) (hg : h.get id = some o) (h0 : o.count = 0)
    (hrs : ∀ x, rs'.count x + (if x = id then 1 else 0) = rs.count x + o.children.count x) :
    HeapOK (h.remove id) rs' next := by
  have hmem := heap_get_mem hg
  have hcs := childSum_remove H.nodup hg
  have hid := H.counts _ hmem
  simp only [refCount_eq, h0] at hid
  exact {
    pos := H.pos
    nodup := nodup_remove H.nodup _
    ids := fun e he => H.ids e (mem_remove.mp he).1
    counts := by
      intro e he
      have hne := (mem_remove.mp he).2
      have := H.counts e (mem_remove.mp he).1
      have h1 := hrs e.1
      have h2 := hcs e.1
      simp only [hne, if_false] at h1
      simp only [refCount_eq] at this ⊢
      omega
    live := by
      intro x hx
      have h1 := hrs x
      have h2 := hcs x
      simp only [refCount_eq] at hx
      by_cases hxi : x = id
      · subst hxi
        simp only [if_true] at h1
        omega
      · simp only [hxi, if_false] at h1
        rw [heap_get_remove_other _ hxi]
        apply H.live
        simp only [refCount_eq]
        omega }

/-- a unique object that is referenced by a root is referenced by nothing else -/
theorem heapOK_unique {h : Heap} {rs : List Nat} {next id : Nat} {o : Obj}
    (H : HeapOK h rs next) (hg : h.get id = some o) (h0 : o.count = 0) (hr : id ∈ rs) :
    rs.count id = 1 ∧ Unref h id := by
  have hid := H.counts _ (heap_get_mem hg)
  simp only [refCount_eq, h0] at hid
  have hpos : 0 < rs.count id := List.count_pos_iff.mpr hr
  refine ⟨by omega, ?_⟩
  intro id' o' hg' hm
  exact childSum_zero (by omega) _ (heap_get_mem hg') hm

/-! ## roots -/

theorem mem_roots_go (σ : Temps) : ∀ (Γ : Ctx) (k i : Nat) (hi : i < Γ.length) (p : Word),
    Γ[i].chi ≠ .ext → σ.get (2 * (k + i)) = some p → p ≠ 0 → p.toNat ∈ roots.go σ Γ k
  | [], _, _, hi, _, _, _, _ => by simp at hi
  | b :: bs, k, 0, _, p, hc, hg, hp => by
    simp only [List.getElem_cons_zero] at hc
    simp only [Nat.add_zero] at hg
    have h1 : (b.chi != .ext) = true := (chi_bne_ext _).mpr hc
    have h2 : (p != 0) = true := by rw [bne_iff_ne]; exact hp
    simp only [roots.go, h1, hg, h2, if_true, List.mem_append, List.mem_singleton]
    exact Or.inl trivial
  | b :: bs, k, i + 1, hi, p, hc, hg, hp => by
    simp only [List.getElem_cons_succ] at hc
    have := mem_roots_go σ bs (k + 1) i (by simpa using hi) p hc
      (by rw [show k + 1 + i = k + (i + 1) by omega]; exact hg) hp
    simp only [roots.go, List.mem_append]
    exact Or.inr this

theorem mem_roots {σ : Temps} {Γ : Ctx} {i : Nat} (hi : i < Γ.length) {p : Word}
    (hc : Γ[i].chi ≠ .ext) (hg : σ.get (2 * i) = some p) (hp : p ≠ 0) : p.toNat ∈ roots Γ σ := by
  unfold roots
  exact mem_roots_go σ Γ 0 i hi p hc (by rw [Nat.zero_add]; exact hg) hp

/-- the root contributed by one position -/
def rootOf (σ : Temps) (b : Binding) (i : Nat) : List Nat :=
  if b.chi != .ext then
    match σ.get (2 * i) with
    | some p => if p != 0 then [p.toNat] else []
    | none => []
  else []

theorem roots_snoc (σ : Temps) (Γ : Ctx) (b : Binding) :
    roots (Γ ++ [b]) σ = roots Γ σ ++ rootOf σ b Γ.length := by
  unfold roots
  rw [roots_go_append]
  simp only [roots.go, rootOf, List.append_nil, Nat.zero_add]
  cases σ.get (2 * Γ.length) <;> rfl

/-! ## frame lemmas for `ValsOK2` -/

theorem ValsOK2_congr {P : Program} {hooks : Bool} {types : List TypeDecl} {h : Heap} {σ σ' : Temps}
    {Γ : Ctx} {ρ : List Value} (V : ValsOK2 P hooks types h σ Γ ρ)
    (hσ : ∀ t, t < 2 * Γ.length → σ'.get t = σ.get t) : ValsOK2 P hooks types h σ' Γ ρ := by
  intro i h1 h2
  have e0 := hσ (2 * i) (by omega)
  have e1 := hσ (2 * i + 1) (by omega)
  rw [e0, e1]
  exact V i h1 h2

theorem ValsOK2_snoc {P : Program} {hooks : Bool} {types : List TypeDecl} {h : Heap} {σ σ' : Temps}
    {Γ : Ctx} {ρ : List Value} (V : ValsOK2 P hooks types h σ Γ ρ) (hlen : ρ.length = Γ.length)
    (hσ : ∀ t, t < 2 * Γ.length → σ'.get t = σ.get t) (b : Binding) (v : Value) (w : Word)
    (hw : σ'.get (2 * Γ.length + 1) = some w)
    (hv : RepV P hooks types h v (if b.chi == .ext then none else σ'.get (2 * Γ.length)) w)
    (hkind : b.chi = kindOf v)
    (hptr : b.chi != .ext → (σ'.get (2 * Γ.length)).isSome) :
    ValsOK2 P hooks types h σ' (Γ ++ [b]) (ρ ++ [v]) := by
  intro i h1 h2
  by_cases hi : i < Γ.length
  · have hi2 : i < ρ.length := by omega
    have e0 := hσ (2 * i) (by omega)
    have e1 := hσ (2 * i + 1) (by omega)
    rw [e0, e1]
    have g1 : (Γ ++ [b])[i] = Γ[i] := List.getElem_append_left hi
    have g2 : (ρ ++ [v])[i] = ρ[i] := List.getElem_append_left hi2
    rw [g1, g2]
    exact V i hi hi2
  · have hi' : i = Γ.length := by simp at h1; omega
    subst hi'
    have g1 : (Γ ++ [b])[Γ.length] = b := by simp
    have g2 : (ρ ++ [v])[Γ.length] = v := by
      rw [List.getElem_append_right (by omega)]; simp [hlen]
    rw [g1, g2, hw]
    exact ⟨by simpa using hv, rfl, hkind, hptr⟩

theorem ValsOK2_snoc_int {P : Program} {hooks : Bool} {types : List TypeDecl} {h : Heap} {σ σ' : Temps}
    {Γ : Ctx} {ρ : List Value} (V : ValsOK2 P hooks types h σ Γ ρ) (hlen : ρ.length = Γ.length)
    (hσ : ∀ t, t < 2 * Γ.length → σ'.get t = σ.get t) (b : Binding) (hb : b.chi = .ext) (w : Word)
    (hw : σ'.get (2 * Γ.length + 1) = some w) :
    ValsOK2 P hooks types h σ' (Γ ++ [b]) (ρ ++ [.int w]) := by
  apply ValsOK2_snoc V hlen hσ b (.int w) w hw
  · rw [hb]
    have : (Chi.ext == Chi.ext) = true := by decide
    simp only [this, if_true]
    exact RepV.int w none
  · rw [hb]; rfl
  · intro hc; rw [hb] at hc; exact absurd hc (by decide)

theorem ValsOK2.take {P : Program} {hooks : Bool} {types : List TypeDecl} {h : Heap} {σ : Temps}
    {Γ : Ctx} {ρ : List Value} (V : ValsOK2 P hooks types h σ Γ ρ) (n : Nat) :
    ValsOK2 P hooks types h σ (Γ.take n) (ρ.take n) := by
  intro i h1 h2
  have h1' : i < Γ.length := by simp at h1; omega
  have h2' : i < ρ.length := by simp at h2; omega
  have g1 : (Γ.take n)[i] = Γ[i] := by simp
  have g2 : (ρ.take n)[i] = ρ[i] := by simp
  rw [g1, g2]
  exact V i h1' h2'

theorem ValsOK2_chi {P : Program} {hooks : Bool} {types : List TypeDecl} {h : Heap} {σ : Temps}
    {Γ Δ : Ctx} {ρ : List Value} (V : ValsOK2 P hooks types h σ Γ ρ)
    (hc : Γ.map (·.chi) = Δ.map (·.chi)) : ValsOK2 P hooks types h σ Δ ρ := by
  intro i h1 h2
  have hlen : Γ.length = Δ.length := by simpa using congrArg List.length hc
  have h1' : i < Γ.length := by omega
  have e : Γ[i].chi = Δ[i].chi := by
    have := congrArg (fun l => l[i]?) hc
    simp only [List.getElem?_map, List.getElem?_eq_getElem h1', List.getElem?_eq_getElem h1,
      Option.map_some, Option.some.injEq] at this
    exact this
  rw [← e]
  exact V i h1' h2

/-- the representation of the environment survives a heap change that keeps the fields of every
    object except `x`, when `x` is referenced neither by the heap nor by a position -/
theorem ValsOK2.transfer {P : Program} {hooks : Bool} {types : List TypeDecl} {h h' : Heap} {σ : Temps}
    {Γ : Ctx} {ρ : List Value} {x : Nat} (V : ValsOK2 P hooks types h σ Γ ρ)
    (hk : FieldsKept h h' x) (hu : Unref h x)
    (hroot : ∀ i (hi : i < Γ.length), Γ[i].chi ≠ .ext → ∀ p, σ.get (2 * i) = some p → p ≠ 0 →
      p.toNat ≠ x) :
    ValsOK2 P hooks types h' σ Γ ρ := by
  intro i h1 h2
  obtain ⟨a, b, c, d⟩ := V i h1 h2
  refine ⟨RepV.transfer hk hu a ?_, b, c, d⟩
  intro r hr hr0
  by_cases hc : (Γ[i].chi == .ext) = true
  · simp [hc] at hr
  · simp only [hc, Bool.false_eq_true, if_false] at hr
    exact hroot i h1 (fun e => hc ((chi_beq_ext _).mpr e)) r hr hr0

theorem ValsOK2.kept {P : Program} {hooks : Bool} {types : List TypeDecl} {h h' : Heap} {σ : Temps}
    {Γ : Ctx} {ρ : List Value} (V : ValsOK2 P hooks types h σ Γ ρ) (hk : AllFieldsKept h h') :
    ValsOK2 P hooks types h' σ Γ ρ := by
  intro i h1 h2
  obtain ⟨a, b, c, d⟩ := V i h1 h2
  exact ⟨RepV.kept hk a, b, c, d⟩

end Scc.Backend.Sim2
