/-
  Scc.Backend.Mock — the MOCK backend of the harness (/verif/harness/src/mock.rs): the five backend
  traits implemented with ABSTRACT instructions.  `mockSym` produces structured instructions
  (`MockOp`, used by the abstract machine and the theorems), `mock` = `mockSym` rendered to the
  text lines of mock.rs (`Code := String`, `T := Nat`).  `runLineMock` is the line function that is
  compared with the harness reply `S6m`.   Core imports only; executable.
-/
import Scc.Backend.Generic

namespace Scc.Backend

open Scc.AxCut

/-- the abstract instructions of mock.rs (one constructor per text form) -/
inductive MockOp where
  | comment (msg : String)
  | label (name : String)
  | jump (t : Nat)
  | jumpLabel (name : String)
  | jumpFixed (name : String)
  | jif (c : IfSort) (a b : Nat) (name : String)
  | jifz (c : IfSort) (a : Nat) (name : String)
  | li (t : Nat) (imm : Int)
  | ll (t : Nat) (name : String)
  | addJump (t : Nat) (imm : Int)
  | binop (o : BinOp) (t a b : Nat)
  | mov (t s : Nat)
  | print (newline : Bool) (s : Nat) (kinds : List Chi)
  | erase (t : Nat)
  | share (t n : Nat)
  | store (kinds : List Chi) (remaining : Nat)
  | load (kinds : List Chi) (existing : Nat)
  | save (t : Nat) (spill : Bool)
  | restore (t : Nat) (spill : Bool)
  deriving DecidableEq, Repr, Inhabited

namespace Mock

/-- mock.rs: T_TEMP … T_RET2 -/
def T_TEMP : Nat := 1000001
def T_HEAP : Nat := 1000002
def T_FREE : Nat := 1000003
def T_RET1 : Nat := 1000004
def T_RET2 : Nat := 1000005

def chiChar : Chi → Char
  | .prd => 'p' | .cns => 'c' | .ext => 'e'

/-- mock.rs: fn kinds -/
def kindsStr (ks : List Chi) : String :=
  if ks.isEmpty then "-" else String.ofList (ks.map chiChar)

def binOpName : BinOp → String
  | .sum => "add" | .sub => "sub" | .prod => "mul" | .div => "div" | .rem => "rem"

def bit (b : Bool) : String := if b then "1" else "0"

end Mock

open Mock in
/-- the text line of an abstract instruction (the `format!` strings of mock.rs) -/
def MockOp.render : MockOp → String
  | .comment msg => "comment " ++ msg
  | .label name => "label " ++ name
  | .jump t => "jump " ++ toString t
  | .jumpLabel name => "jumplabel " ++ name
  | .jumpFixed name => "jumpfixed " ++ name
  | .jif c a b name => "jif " ++ c.sym ++ " " ++ toString a ++ " " ++ toString b ++ " " ++ name
  | .jifz c a name => "jifz " ++ c.sym ++ " " ++ toString a ++ " " ++ name
  | .li t imm => "li " ++ toString t ++ " " ++ toString imm
  | .ll t name => "ll " ++ toString t ++ " " ++ name
  | .addJump t imm => "addjump " ++ toString t ++ " " ++ toString imm
  | .binop o t a b => binOpName o ++ " " ++ toString t ++ " " ++ toString a ++ " " ++ toString b
  | .mov t s => "mov " ++ toString t ++ " " ++ toString s
  | .print nl s ks => "print " ++ (if nl then "nl" else "nonl") ++ " " ++ toString s ++ " " ++ kindsStr ks
  | .erase t => "erase " ++ toString t
  | .share t n => "share " ++ toString t ++ " " ++ toString n
  | .store ks n => "store " ++ kindsStr ks ++ " " ++ toString n
  | .load ks n => "load " ++ kindsStr ks ++ " " ++ toString n
  | .save t s => "save " ++ toString t ++ " " ++ bit s
  | .restore t s => "restore " ++ toString t ++ " " ++ bit s

namespace Mock

/-- position of the first binding with the given id (`iter().position`) -/
def ctxPosition (context : Ctx) (variableId : Nat) : Option Nat :=
  let rec go : Ctx → Nat → Option Nat
    | [], _ => none
    | b :: bs, i => if b.var.id == variableId then some i else go bs (i + 1)
  go context 0

/-- mock.rs: Utils::variable_temporary -/
def variableTemporary (number : TempNum) (context : Ctx) (variableId : Nat) : GenM Nat :=
  match ctxPosition context variableId with
  | some pos => pure (2 * pos + number.toNat)
  | none => throw ("Variable " ++ toString variableId ++ " not found in context")

/-- mock.rs: Utils::fresh_temporary -/
def freshTemporary (number : TempNum) (context : Ctx) : GenM Nat :=
  pure (2 * context.length + number.toNat)

def kindsOf (c : Ctx) : List Chi := c.map (·.chi)

end Mock

open Mock in
/-- mock.rs: `impl … for Mock`, with structured instructions -/
def mockSym : Backend MockOp Nat where
  temp := T_TEMP
  heap := T_HEAP
  free := T_FREE
  return1 := T_RET1
  return2 := T_RET2
  jumpLength := fun n => (n : Int)
  variableTemporary := variableTemporary
  freshTemporary := freshTemporary
  comment := .comment
  label := .label
  jump := fun t => [.jump t]
  jumpLabel := fun name => [.jumpLabel name]
  jumpLabelFixed := fun name => [.jumpFixed name]
  jumpLabelIf := fun c a b name => [.jif c a b name]
  jumpLabelIfZero := fun c a name => [.jifz c a name]
  loadImmediate := fun t imm => [.li t imm]
  loadLabel := fun t name => [.ll t name]
  addAndJump := fun t imm => [.addJump t imm]
  binop := fun o t a b => [.binop o t a b]
  mov := fun t s => [.mov t s]
  printI64 := fun nl s context => pure [.print nl s (kindsOf context)]
  eraseBlock := fun t => pure [.erase t]
  shareBlockN := fun t n => pure [.share t n]
  store := fun toStore remaining => pure [.store (kindsOf toStore) remaining.length]
  load := fun toLoad existing => pure [.load (kindsOf toLoad) existing.length]
  containsSpillEdge := fun _ => false
  storeTemporary := fun t spill => [.save t spill]
  restoreTemporary := fun t spill => [.restore t spill]
  tempLt := fun a b => decide (a < b)
  tempEq := fun a b => a == b

/-- change of the code type of a backend along `f` (the temporaries are untouched) -/
def Backend.mapCode {Code Code' T : Type} (B : Backend Code T) (f : Code → Code') :
    Backend Code' T where
  temp := B.temp
  heap := B.heap
  free := B.free
  return1 := B.return1
  return2 := B.return2
  jumpLength := B.jumpLength
  variableTemporary := B.variableTemporary
  freshTemporary := B.freshTemporary
  comment := fun m => f (B.comment m)
  label := fun n => f (B.label n)
  jump := fun t => (B.jump t).map f
  jumpLabel := fun n => (B.jumpLabel n).map f
  jumpLabelFixed := fun n => (B.jumpLabelFixed n).map f
  jumpLabelIf := fun c a b n => (B.jumpLabelIf c a b n).map f
  jumpLabelIfZero := fun c a n => (B.jumpLabelIfZero c a n).map f
  loadImmediate := fun t i => (B.loadImmediate t i).map f
  loadLabel := fun t n => (B.loadLabel t n).map f
  addAndJump := fun t i => (B.addAndJump t i).map f
  binop := fun o t a b => (B.binop o t a b).map f
  mov := fun t s => (B.mov t s).map f
  printI64 := fun nl s c => (fun l => l.map f) <$> B.printI64 nl s c
  eraseBlock := fun t => (fun l => l.map f) <$> B.eraseBlock t
  shareBlockN := fun t n => (fun l => l.map f) <$> B.shareBlockN t n
  store := fun a b => (fun l => l.map f) <$> B.store a b
  load := fun a b => (fun l => l.map f) <$> B.load a b
  containsSpillEdge := B.containsSpillEdge
  storeTemporary := fun t s => (B.storeTemporary t s).map f
  restoreTemporary := fun t s => (B.restoreTemporary t s).map f
  tempLt := B.tempLt
  tempEq := B.tempEq

/-- mock.rs: `Mock` with `Code := String`, `T := Nat` -/
def mock : Backend String Nat := mockSym.mapCode MockOp.render

/-- result of running a generator from a given counter value -/
def runGen {α : Type} (m : GenM α) (counterStart : Nat) : Except String (α × Nat) :=
  m.run counterStart

def readS5 (dumpS5 : String) : Except String Prog :=
  match Sexp.parse dumpS5 with
  | none => .error "ERR sexp"
  | some sx =>
    match readProg (dumpS5.length + 10) sx with
    | none => .error "ERR read"
    | some p => .ok p

/-- structured mock code of an S5 dump -/
def compileMockSym (p : Prog) (hooks : Bool) (counterStart : Nat) : Except String (List MockOp) :=
  match runGen (compile mockSym hooks p) counterStart with
  | .error e => .error e
  | .ok ((ops, _), _) => .ok ops

/-- mock.rs: fn compile_mock on an S5 dump: `OK <ops joined by \n>` | `PANIC <msg>` | `ERR …` -/
def runLineMock (dumpS5 : String) (hooks : Bool) (counterStart : Nat) : String :=
  match readS5 dumpS5 with
  | .error e => e
  | .ok p =>
    match runGen (compile mock hooks p) counterStart with
    | .error e => "PANIC " ++ e
    | .ok ((ops, _), _) => "OK " ++ "\n".intercalate ops

end Scc.Backend
