/-
  Scc.Backend.TotalSubst — the `substitute` statement of the generic code generator (substitution.rs,
  statements/substitute.rs) is total-or-capacity for every `TotalBackend`:
  * `transpose_mem`: every entry of `transpose pairs Γ` is keyed by a binding of `Γ`, and its targets are
    the new variables of the pairs whose old variable is that binding;
  * `Tot_codeWeakeningContraction`;
  * `TotP_connections`: `connections` terminates with a FUNCTIONAL move graph when the new variables are
    pairwise distinct (each target temporary belongs to one new variable, `vt_inj`; a new variable has
    one old variable; the source temporary is determined by it, `vt_det`);
  * `Tot_codeExchange`: hence `parallel_moves` succeeds (TotalPM.lean).
  Proof file, core imports only.
-/
import Scc.Backend.TotalPM

set_option linter.unusedSimpArgs false
set_option linter.unusedVariables false

namespace Scc.Backend.Total

open Scc.AxCut Scc.Backend

/-! ## `BTreeMap::insert` / `BTreeSet::insert` on association lists: where the entries come from -/

theorem mem_mapInsert {K V : Type} (cmp : K → K → Ordering) (k : K) (v : V) :
    ∀ (l : List (K × V)) (e : K × V), e ∈ mapInsert cmp k v l →
      e ∈ l ∨ (e.2 = v ∧ (e.1 = k ∨ (cmp k e.1 = .eq ∧ e.1 ∈ l.map (·.1))))
  | [], e, h => by
    simp only [mapInsert, List.mem_singleton] at h
    subst h; exact Or.inr ⟨rfl, Or.inl rfl⟩
  | (k', v') :: rest, e, h => by
    simp only [mapInsert] at h
    cases hc : cmp k k' with
    | lt =>
      simp only [hc, List.mem_cons] at h
      rcases h with rfl | h
      · exact Or.inr ⟨rfl, Or.inl rfl⟩
      · exact Or.inl (by simpa using h)
    | eq =>
      simp only [hc, List.mem_cons] at h
      rcases h with rfl | h
      · exact Or.inr ⟨rfl, Or.inr ⟨hc, by simp⟩⟩
      · exact Or.inl (by simp [h])
    | gt =>
      simp only [hc, List.mem_cons] at h
      rcases h with rfl | h
      · exact Or.inl (by simp)
      · rcases mem_mapInsert cmp k v rest e h with h1 | ⟨h1, h2⟩
        · exact Or.inl (by simp [h1])
        · refine Or.inr ⟨h1, ?_⟩
          rcases h2 with h2 | ⟨h2, h3⟩
          · exact Or.inl h2
          · exact Or.inr ⟨h2, by simp only [List.map_cons, List.mem_cons]; exact Or.inr h3⟩

theorem keys_mapInsert {K V : Type} (cmp : K → K → Ordering) (k : K) (v : V) :
    ∀ (l : List (K × V)) (x : K), x ∈ (mapInsert cmp k v l).map (·.1) → x = k ∨ x ∈ l.map (·.1) := by
  intro l x hx
  obtain ⟨e, he, rfl⟩ := List.mem_map.mp hx
  rcases mem_mapInsert cmp k v l e he with h | ⟨_, h | ⟨_, h⟩⟩
  · exact Or.inr (List.mem_map.mpr ⟨e, h, rfl⟩)
  · exact Or.inl h
  · exact Or.inr h

section
variable {Code T : Type} (B : Backend Code T)

theorem mem_setInsert (t : T) : ∀ (l : List T) (x : T), x ∈ setInsert B t l → x = t ∨ x ∈ l
  | [], x, h => by simp only [setInsert, List.mem_singleton] at h; exact Or.inl h
  | t' :: rest, x, h => by
    simp only [setInsert] at h
    cases hc : tempCmp B t t' with
    | lt =>
      simp only [hc, List.mem_cons] at h
      rcases h with h | h
      · exact Or.inl h
      · exact Or.inr (by simpa using h)
    | eq =>
      simp only [hc] at h
      exact Or.inr h
    | gt =>
      simp only [hc, List.mem_cons] at h
      rcases h with h | h
      · exact Or.inr (by simp [h])
      · rcases mem_setInsert t rest x h with h1 | h1
        · exact Or.inl h1
        · exact Or.inr (by simp [h1])

theorem mem_setOfList (ts : List T) (x : T) (h : x ∈ setOfList B ts) : x ∈ ts := by
  unfold setOfList at h
  have key : ∀ (ts acc : List T), x ∈ ts.foldl (fun s t => setInsert B t s) acc → x ∈ acc ∨ x ∈ ts := by
    intro ts
    induction ts with
    | nil => intro acc h; exact Or.inl h
    | cons t rest ih =>
      intro acc h
      simp only [List.foldl_cons] at h
      rcases ih _ h with h1 | h1
      · rcases mem_setInsert B t acc x h1 with h2 | h2
        · exact Or.inr (by simp [h2])
        · exact Or.inl h2
      · exact Or.inr (by simp [h1])
  rcases key ts [] h with h1 | h1
  · simp at h1
  · exact h1

theorem tempCmp_eq {a b : T} (heq : ∀ a b, B.tempEq a b = true ↔ a = b) (h : tempCmp B a b = .eq) :
    a = b := by
  unfold tempCmp at h
  split at h
  · cases h
  · split at h
    · rename_i h2; exact (heq _ _).mp h2
    · cases h

end

/-! ## `transpose` -/

theorem bindingCmp_eq_id {a b : Binding} (h : bindingCmp a b = .eq) : a.var.id = b.var.id := by
  unfold bindingCmp at h
  have h1 : identCmp a.var b.var = .eq := by
    cases hc : identCmp a.var b.var <;> simp [hc, Ordering.then] at h ⊢
  unfold identCmp at h1
  have h2 : compare a.var.id b.var.id = .eq := by
    cases hc : strCmp a.var.name b.var.name <;> simp [hc, Ordering.then] at h1 ⊢
    exact h1
  exact Nat.compare_eq_eq.mp h2

/-- the targets `transpose` records for a binding with id `i` -/
def targetIds (rearrange : List (Binding × Ident)) (i : Nat) : List Nat :=
  (rearrange.filter fun (_, old) => i == old.id).map fun (new, _) => new.var.id

theorem mem_targetIds {pairs : List (Binding × Ident)} {i id : Nat} :
    id ∈ targetIds pairs i ↔ ∃ p ∈ pairs, i = p.2.id ∧ id = p.1.var.id := by
  unfold targetIds
  simp only [List.mem_map, List.mem_filter, beq_iff_eq]
  constructor
  · rintro ⟨p, ⟨hp, hb⟩, rfl⟩; exact ⟨p, hp, hb, rfl⟩
  · rintro ⟨p, hp, hb, rfl⟩; exact ⟨p, ⟨hp, hb⟩, rfl⟩

/-- every entry of the transposed rearrangement is keyed by a binding of the context; its targets are
    the new variables of the pairs whose old variable has the id of the key -/
theorem transpose_mem (pairs : List (Binding × Ident)) (Γ : Ctx) :
    ∀ e ∈ transpose pairs Γ, e.1 ∈ Γ ∧ e.2 = targetIds pairs e.1.var.id := by
  unfold transpose
  have key : ∀ (Δ : Ctx) (acc : List (Binding × List Nat)),
      (∀ b ∈ Δ, b ∈ Γ) → (∀ e ∈ acc, e.1 ∈ Γ ∧ e.2 = targetIds pairs e.1.var.id) →
      ∀ e ∈ Δ.foldl (fun tm b => mapInsert bindingCmp b (targetIds pairs b.var.id) tm) acc,
        e.1 ∈ Γ ∧ e.2 = targetIds pairs e.1.var.id := by
    intro Δ
    induction Δ with
    | nil => intro acc _ hacc e he; exact hacc e he
    | cons b rest ih =>
      intro acc hΔ hacc e he
      simp only [List.foldl_cons] at he
      refine ih _ (fun b' hb' => hΔ b' (by simp [hb'])) ?_ e he
      intro e' he'
      rcases mem_mapInsert bindingCmp b _ acc e' he' with h | ⟨h1, h2 | ⟨h2, h3⟩⟩
      · exact hacc e' h
      · exact ⟨by rw [h2]; exact hΔ b (by simp), by rw [h1, h2]⟩
      · obtain ⟨e0, he0, h0⟩ := List.mem_map.mp h3
        exact ⟨by rw [← h0]; exact (hacc e0 he0).1, by rw [h1, bindingCmp_eq_id h2]⟩
  exact key Γ [] (fun _ h => h) (by simp)

/-! ## the generic `substitute` -/

section
variable {Code T : Type} {B : Backend Code T} {cap : String → Prop} {fits : Nat → Prop}
variable (H : TotalBackend B cap fits)
include H

theorem Tot_updateReferenceCount (v : Ident) (Γ : Ctx) (n : Nat) (hv : ∃ b ∈ Γ, b.var.id = v.id)
    (hfit : fits Γ.length) : Tot cap (updateReferenceCount B v Γ n) := by
  unfold updateReferenceCount
  refine Tot.bind (H.vt_total _ _ _ hv hfit) fun t => ?_
  match n with
  | 0 => exact Tot.bind (H.eraseBlock _) fun _ => Tot.pure _
  | 1 => exact Tot.pure _
  | n + 2 => exact Tot.bind (H.shareBlockN _ _) fun _ => Tot.pure _

theorem Tot_codeWeakeningContraction (Γ : Ctx) (hfit : fits Γ.length) :
    ∀ (tm : List (Binding × List Nat)), (∀ e ∈ tm, e.1 ∈ Γ) →
      Tot cap (codeWeakeningContraction B tm Γ)
  | [], _ => by unfold codeWeakeningContraction; exact Tot.pure _
  | (binding, targets) :: rest, h => by
    unfold codeWeakeningContraction
    refine Tot.bind ?_ fun code => ?_
    · refine TotP.ite (fun _ => ?_) (fun _ => Tot.pure _)
      exact Tot_updateReferenceCount H _ _ _ ⟨binding, h (binding, targets) (by simp), rfl⟩ hfit
    · exact Tot.bind (Tot_codeWeakeningContraction Γ hfit rest fun e he => h e (by simp [he]))
        fun _ => Tot.pure _

/-- the edges of the move graph of `subst pairs` from `Γ` to `newΓ`: the temporary `number` of the
    old variable of a pair goes to the temporary `number` of its new variable -/
def SubstEdges (B : Backend Code T) (pairs : List (Binding × Ident)) (Γ newΓ : Ctx)
    (pm : List (T × List T)) : Prop :=
  ∀ s t, Edge pm s t → ∃ num, ∃ p ∈ pairs, IsVT B num Γ p.2.id s ∧ IsVT B num newΓ p.1.var.id t

omit H in
theorem SubstEdges.insert {pairs : List (Binding × Ident)} {Γ newΓ : Ctx} {acc : List (T × List T)}
    (heq : ∀ a b, B.tempEq a b = true ↔ a = b)
    (hacc : SubstEdges B pairs Γ newΓ acc) {num : TempNum} {i : Nat} {k : T} {ts : List T}
    {targets : List Nat}
    (hk : IsVT B num Γ i k) (hts : ∀ t ∈ ts, ∃ id ∈ targets, IsVT B num newΓ id t)
    (htg : ∀ id ∈ targets, ∃ p ∈ pairs, i = p.2.id ∧ id = p.1.var.id) :
    SubstEdges B pairs Γ newΓ (mapInsert (tempCmp B) k (setOfList B ts) acc) := by
  intro s t ⟨v, hm, ht⟩
  rcases mem_mapInsert (tempCmp B) k (setOfList B ts) acc (s, v) hm with h | ⟨h1, h2⟩
  · exact hacc s t ⟨v, h, ht⟩
  · simp only at h1 h2
    subst h1
    have hs : s = k := by
      rcases h2 with h2 | ⟨h2, _⟩
      · exact h2
      · exact (tempCmp_eq B heq h2).symm
    subst hs
    obtain ⟨id, hid, hvt⟩ := hts t (mem_setOfList B ts t ht)
    obtain ⟨p, hp, hi, hid'⟩ := htg id hid
    exact ⟨num, p, hp, by rw [← hi]; exact hk, by rw [← hid']; exact hvt⟩

omit H in
theorem pair_eq_of_nodup {pairs : List (Binding × Ident)}
    (hnd : ((pairs.map (·.1)).map (·.var.id)).Nodup) {p p' : Binding × Ident} (hp : p ∈ pairs)
    (hp' : p' ∈ pairs) (h : p.1.var.id = p'.1.var.id) : p = p' := by
  induction pairs with
  | nil => cases hp
  | cons a rest ih =>
    simp only [List.map_cons, List.nodup_cons, List.mem_map, not_exists, not_and] at hnd
    have hno : ∀ q ∈ rest, q.1.var.id ≠ a.1.var.id := by
      intro q hq e
      exact hnd.1 q.1 ⟨q, hq, rfl⟩ e
    rcases List.mem_cons.mp hp with h1 | h1
    · rcases List.mem_cons.mp hp' with h2 | h2
      · rw [h1, h2]
      · subst h1; exact absurd h.symm (hno p' h2)
    · rcases List.mem_cons.mp hp' with h2 | h2
      · subst h2; exact absurd h (hno p h1)
      · exact ih (by simpa using hnd.2) h1 h2

theorem SubstEdges.functional {pairs : List (Binding × Ident)} {Γ : Ctx} {pm : List (T × List T)}
    (hnd : ((pairs.map (·.1)).map (·.var.id)).Nodup)
    (h : SubstEdges B pairs Γ (pairs.map (·.1)) pm) : Functional pm := by
  intro s s' t e e'
  obtain ⟨num, p, hp, hs, ht⟩ := h s t e
  obtain ⟨num', p', hp', hs', ht'⟩ := h s' t e'
  obtain ⟨rfl, hid⟩ := H.vt_inj ht ht'
  have := pair_eq_of_nodup hnd hp hp' hid
  subst this
  exact H.vt_det hs hs'

theorem TotP_vts (num : TempNum) (newΓ : Ctx) (hfit : fits newΓ.length) (targets : List Nat)
    (h : ∀ id ∈ targets, ∃ b ∈ newΓ, b.var.id = id) :
    TotP cap (fun ts => ∀ t ∈ ts, ∃ id ∈ targets, IsVT B num newΓ id t)
      (mapMGen (fun target => B.variableTemporary num newΓ target) targets) :=
  TotP.mapMGen (Q := fun id t => IsVT B num newΓ id t) targets
    fun id hid => Tot.self (H.vt_total num newΓ id (h id hid) hfit)

theorem TotP_connections_go (pairs : List (Binding × Ident)) (Γ newΓ : Ctx)
    (hfit : fits Γ.length) (hfit' : fits newΓ.length)
    (hnew : ∀ p ∈ pairs, ∃ b ∈ newΓ, b.var.id = p.1.var.id) :
    ∀ (tm : List (Binding × List Nat)) (acc : List (T × List T)),
      (∀ e ∈ tm, e.1 ∈ Γ ∧ e.2 = targetIds pairs e.1.var.id) →
      SubstEdges B pairs Γ newΓ acc →
      TotP cap (SubstEdges B pairs Γ newΓ) (connections.go B Γ newΓ tm acc)
  | [], acc, _, hacc => by unfold connections.go; exact TotP.pure hacc
  | (binding, targets) :: rest, acc, htm, hacc => by
    obtain ⟨hb, htg⟩ := htm (binding, targets) (by simp)
    simp only at hb htg
    have hrest : ∀ e ∈ rest, e.1 ∈ Γ ∧ e.2 = targetIds pairs e.1.var.id :=
      fun e he => htm e (by simp [he])
    have htg' : ∀ id ∈ targets, ∃ p ∈ pairs, binding.var.id = p.2.id ∧ id = p.1.var.id := by
      intro id hid; rw [htg] at hid; exact mem_targetIds.mp hid
    have hin : ∀ id ∈ targets, ∃ b ∈ newΓ, b.var.id = id := by
      intro id hid
      obtain ⟨p, hp, _, rfl⟩ := htg' id hid
      exact hnew p hp
    have hbΓ : ∃ b ∈ Γ, b.var.id = binding.var.id := ⟨binding, hb, rfl⟩
    unfold connections.go
    refine TotP.ite (fun _ => ?_) (fun _ => ?_)
    · refine TotP.bind (Tot.self (H.vt_total .snd Γ _ hbΓ hfit)) fun k hk => ?_
      refine TotP.bind (TotP_vts H .snd newΓ hfit' targets hin) fun ts hts => ?_
      exact TotP_connections_go pairs Γ newΓ hfit hfit' hnew rest _ hrest
        (hacc.insert H.tempEq_iff hk hts htg')
    · refine TotP.bind (Tot.self (H.vt_total .fst Γ _ hbΓ hfit)) fun k1 hk1 => ?_
      refine TotP.bind (TotP_vts H .fst newΓ hfit' targets hin) fun ts1 hts1 => ?_
      refine TotP.bind (Tot.self (H.vt_total .snd Γ _ hbΓ hfit)) fun k2 hk2 => ?_
      refine TotP.bind (TotP_vts H .snd newΓ hfit' targets hin) fun ts2 hts2 => ?_
      exact TotP_connections_go pairs Γ newΓ hfit hfit' hnew rest _ hrest
        ((hacc.insert H.tempEq_iff hk1 hts1 htg').insert H.tempEq_iff hk2 hts2 htg')

/-- `code_exchange` for the transposed rearrangement of a `subst` whose new variables are pairwise
    distinct: a result or a capacity error -/
theorem Tot_codeExchange (pairs : List (Binding × Ident)) (Γ : Ctx)
    (hfit : fits Γ.length) (hfit' : fits pairs.length)
    (hnd : ((pairs.map (·.1)).map (·.var.id)).Nodup) :
    Tot cap (codeExchange B (transpose pairs Γ) Γ (pairs.map (·.1))) := by
  unfold codeExchange connections
  have hnew : ∀ p ∈ pairs, ∃ b ∈ pairs.map (·.1), b.var.id = p.1.var.id :=
    fun p hp => ⟨p.1, List.mem_map.mpr ⟨p, hp, rfl⟩, rfl⟩
  refine TotP.bind (TotP_connections_go H pairs Γ (pairs.map (·.1)) hfit (by simpa using hfit') hnew
    (transpose pairs Γ) [] (transpose_mem pairs Γ) ?_) fun conns hconns => ?_
  · intro s t ⟨v, hm, _⟩; cases hm
  · obtain ⟨code, hcode⟩ := parallelMoves_ok H.tempEq_iff (hconns.functional H hnd)
    rw [hcode]
    exact Tot.pure _

end

end Scc.Backend.Total
