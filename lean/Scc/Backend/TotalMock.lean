/-
  Scc.Backend.TotalMock — the MOCK backend (Scc/Backend/Mock.lean, `mockSym`) is a `TotalBackend` with NO
  permitted error and NO capacity bound: the generic code generator instantiated with it succeeds on
  every linearly typed program with at least one definition, from every value of the label counter.

    `mock_total`        `TotalBackend mockSym (fun _ => False) (fun _ => True)`
    `mock_compile_ok`   `LinTypedProg p → p.defs ≠ [] → ∃ r, (compile mockSym hooks p).run c = .ok r`

  Used by the end-to-end composition (Props/C01Final.lean): the hypothesis "the mock code generator
  succeeds" of Theorem A / `X86.C06_data_programs` is DERIVED from `LinTypedProg`, not evaluated.
  Proof file, core imports only.
-/
import Scc.Backend.TotalGen
import Scc.Backend.Mock

namespace Scc.Backend.Total

open Scc.AxCut Scc.Backend

/-- `ctxPosition.go` returns the FIRST position of the variable, shifted by the start index -/
theorem mock_go_some {id : Nat} : ∀ {Γ : Ctx} {i q : Nat}, Mock.ctxPosition.go id Γ i = some q →
    ∃ p b, q = i + p ∧ p < Γ.length ∧ Γ[p]? = some b ∧ b.var.id = id
  | [], _, _, h => by simp [Mock.ctxPosition.go] at h
  | b :: bs, i, q, h => by
    unfold Mock.ctxPosition.go at h
    split at h
    · rename_i hb
      injection h with h
      exact ⟨0, b, by omega, by simp, rfl, by simpa using hb⟩
    · obtain ⟨p, b', hq, hp, hb', hid⟩ := mock_go_some h
      exact ⟨p + 1, b', by omega, by simp; omega, by simpa using hb', hid⟩

theorem mock_go_of_mem {id : Nat} : ∀ {Γ : Ctx} (i : Nat), (∃ b ∈ Γ, b.var.id = id) →
    ∃ q, Mock.ctxPosition.go id Γ i = some q
  | [], _, h => by obtain ⟨b, hb, _⟩ := h; cases hb
  | b :: bs, i, h => by
    unfold Mock.ctxPosition.go
    by_cases hb : (b.var.id == id) = true
    · rw [if_pos hb]; exact ⟨i, rfl⟩
    · rw [if_neg hb]
      obtain ⟨b', hb', hid⟩ := h
      rcases List.mem_cons.mp hb' with rfl | hb'
      · exact absurd (by simpa using hid) hb
      · exact mock_go_of_mem (i + 1) ⟨b', hb', hid⟩

/-- the runs of the mock `variable_temporary` -/
theorem mock_vt_run {n : TempNum} {Γ : Ctx} {id : Nat} {c k : Nat} {t : Nat}
    (h : (Mock.variableTemporary n Γ id).run c = .ok (t, k)) :
    ∃ q, Mock.ctxPosition Γ id = some q ∧ t = 2 * q + n.toNat := by
  unfold Mock.variableTemporary at h
  cases hp : Mock.ctxPosition Γ id with
  | none =>
    rw [hp] at h
    have h2 : (Except.error _ : Except String (Nat × Nat)) = .ok (t, k) := h
    cases h2
  | some q =>
    rw [hp] at h
    have h' : (Except.ok (2 * q + n.toNat, c) : Except String (Nat × Nat)) = .ok (t, k) := h
    injection h' with h'
    injection h' with h1 h2
    exact ⟨q, rfl, h1.symm⟩

theorem mock_isVT {n : TempNum} {Γ : Ctx} {id : Nat} {t : Nat} (h : IsVT mockSym n Γ id t) :
    ∃ p b, Mock.ctxPosition Γ id = some p ∧ Γ[p]? = some b ∧ b.var.id = id ∧ t = 2 * p + n.toNat := by
  obtain ⟨c, k, h⟩ := h
  obtain ⟨q, hq, ht⟩ := mock_vt_run h
  obtain ⟨p, b, hqp, _, hb, hid⟩ := mock_go_some (show Mock.ctxPosition.go id Γ 0 = some q from hq)
  have : q = p := by omega
  subst this
  exact ⟨q, b, hq, hb, hid, ht⟩

theorem mock_tot_variableTemporary (n : TempNum) (Γ : Ctx) (id : Nat)
    (hmem : ∃ b ∈ Γ, b.var.id = id) : Tot (fun _ => False) (Mock.variableTemporary n Γ id) := by
  unfold Mock.variableTemporary
  obtain ⟨q, hq⟩ := mock_go_of_mem 0 hmem
  rw [show Mock.ctxPosition Γ id = some q from hq]
  exact Tot.pure _

/-- **the mock backend never fails** on the variables of its context; no capacity -/
theorem mock_total : TotalBackend mockSym (fun _ => False) (fun _ => True) where
  fits_mono := fun _ _ => trivial
  tempEq_iff := fun a b => by
    show (a == b) = true ↔ a = b
    exact beq_iff_eq
  vt_total := fun n Γ id hmem _ => mock_tot_variableTemporary n Γ id hmem
  vt_inj := by
    intro Γ n n' id id' t h h'
    obtain ⟨p, b, _, hb, hid, ht⟩ := mock_isVT h
    obtain ⟨p', b', _, hb', hid', ht'⟩ := mock_isVT h'
    have hp : p = p' := by
      cases n <;> cases n' <;> simp only [TempNum.toNat] at ht ht' <;> omega
    subst hp
    rw [hb] at hb'
    injection hb' with hb'
    subst hb'
    refine ⟨?_, hid.symm.trans hid'⟩
    cases n <;> cases n' <;> simp only [TempNum.toNat] at ht ht' <;> first | rfl | omega
  vt_det := by
    intro Γ n id t t' h h'
    obtain ⟨p, _, hp, _, _, ht⟩ := mock_isVT h
    obtain ⟨p', _, hp', _, _, ht'⟩ := mock_isVT h'
    rw [hp] at hp'
    injection hp' with hp'
    subst hp'
    rw [ht, ht']
  printI64 := fun _ _ _ _ => Tot.pure _
  eraseBlock := fun _ => Tot.pure _
  shareBlockN := fun _ _ => Tot.pure _
  store := fun _ _ _ => Tot.pure _
  load := fun _ _ _ => Tot.pure _

/-- **the mock code generator succeeds on every linearly typed program with a definition** -/
theorem mock_compile_ok (hooks : Bool) (p : Prog) (htp : LinTypedProg p) (hne : p.defs ≠ []) (c : Nat) :
    ∃ ops nargs c', (compile mockSym hooks p).run c = .ok ((ops, nargs), c') := by
  have h := compile_resOk mock_total hooks p htp hne trivial c
  cases hr : (compile mockSym hooks p).run c with
  | error e => rw [hr] at h; exact absurd h id
  | ok r => obtain ⟨⟨ops, nargs⟩, c'⟩ := r; exact ⟨ops, nargs, c', rfl⟩

end Scc.Backend.Total

#print axioms Scc.Backend.Total.mock_total
#print axioms Scc.Backend.Total.mock_compile_ok
