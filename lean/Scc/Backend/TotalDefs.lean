/-
  Scc.Backend.TotalDefs — "total or capacity": the vocabulary of the code-generator totality theorem
  (property C12, link `codegen_total`; Props/C12Codegen.lean).

  * `ResOk cap r`        an `Except String` result is `ok` or an error whose message satisfies `cap`;
  * `TotP cap P m`       the generator `m : GenM α` returns, from EVERY value of the label counter, a result
                         satisfying `P` or an error satisfying `cap` (so no other panic message of the
                         model is reachable); `Tot cap m` is `TotP cap (fun _ => True) m`;
  * closure of `TotP` under the monadic combinators used by Generic.lean and the backends;
  * `TotalBackend B cap fits`: the predicate on a backend record under which the generic generator is
    total-or-capacity: every monadic method is, as long as the number of variables involved `fits`
    (`fits = fun _ => True` for the unconditional theorem, `fits n = (2 * n ≤ K)` for "no error at all
    under the static capacity check"), temporaries are compared by a lawful equality, and
    `variable_temporary` is injective in (number, variable) and independent of the label counter.
  Proof file, core imports only.
-/
import Scc.Backend.Generic

set_option linter.unusedSimpArgs false
set_option linter.unusedVariables false

namespace Scc.Backend.Total

open Scc.AxCut Scc.Backend

/-- a result, or an error with a permitted message -/
def ResOk {α : Type} (cap : String → Prop) : Except String α → Prop
  | .ok _ => True
  | .error e => cap e

/-- from every counter value: a result satisfying `P`, or a permitted error -/
def TotP {α : Type} (cap : String → Prop) (P : α → Prop) (m : GenM α) : Prop :=
  ∀ c, match m.run c with
    | .ok (a, _) => P a
    | .error e => cap e

/-- from every counter value: a result or a permitted error -/
abbrev Tot {α : Type} (cap : String → Prop) (m : GenM α) : Prop := TotP cap (fun _ => True) m

section
variable {α β : Type} {cap : String → Prop}

theorem TotP.pure {P : α → Prop} {a : α} (h : P a) : TotP cap P (pure a : GenM α) := fun _ => h

theorem Tot.pure (a : α) : Tot cap (pure a : GenM α) := fun _ => trivial

theorem TotP.throw {P : α → Prop} {e : String} (h : cap e) : TotP cap P (throw e : GenM α) := fun _ => h

theorem TotP.bind {P : β → Prop} {Q : α → Prop} {m : GenM α} {f : α → GenM β}
    (hm : TotP cap Q m) (hf : ∀ a, Q a → TotP cap P (f a)) : TotP cap P (m >>= f) := by
  intro c
  have h1 := hm c
  simp only [StateT.run_bind]
  cases h : m.run c with
  | error e => rw [h] at h1; exact h1
  | ok p =>
    obtain ⟨a, c1⟩ := p
    rw [h] at h1
    exact hf a h1 c1

theorem Tot.bind {m : GenM α} {f : α → GenM β} (hm : Tot cap m) (hf : ∀ a, Tot cap (f a)) :
    Tot cap (m >>= f) := TotP.bind hm (fun a _ => hf a)

theorem TotP.mono {P Q : α → Prop} {m : GenM α} (h : TotP cap P m) (hpq : ∀ a, P a → Q a) :
    TotP cap Q m := by
  intro c
  have h1 := h c
  cases hr : m.run c with
  | error e => rw [hr] at h1; exact h1
  | ok p => obtain ⟨a, c1⟩ := p; rw [hr] at h1; exact hpq a h1

theorem TotP.tot {P : α → Prop} {m : GenM α} (h : TotP cap P m) : Tot cap m := h.mono (fun _ _ => trivial)

theorem TotP.and {P Q : α → Prop} {m : GenM α} (h1 : TotP cap P m) (h2 : TotP cap Q m) :
    TotP cap (fun a => P a ∧ Q a) m := by
  intro c
  have a1 := h1 c
  have a2 := h2 c
  cases hr : m.run c with
  | error e => rw [hr] at a1; exact a1
  | ok p => obtain ⟨a, c1⟩ := p; rw [hr] at a1 a2; exact ⟨a1, a2⟩

/-- the result of a run is a result of a run -/
theorem Tot.self {m : GenM α} (h : Tot cap m) : TotP cap (fun a => ∃ c k, m.run c = .ok (a, k)) m := by
  intro c
  have h1 := h c
  cases hr : m.run c with
  | error e => rw [hr] at h1; exact h1
  | ok p => obtain ⟨a, c1⟩ := p; exact ⟨c, c1, hr⟩

theorem TotP.ite {P : α → Prop} {c : Prop} [Decidable c] {m n : GenM α}
    (hm : c → TotP cap P m) (hn : ¬ c → TotP cap P n) : TotP cap P (if c then m else n) := by
  by_cases h : c
  · simp only [h, if_true]; exact hm h
  · simp only [h, if_false]; exact hn h

/-- a generator is total-or-capacity iff none of its runs ends in another error -/
theorem TotP.of_runs {P : α → Prop} {m : GenM α}
    (hok : ∀ c a k, m.run c = .ok (a, k) → P a) (herr : ∀ c e, m.run c = .error e → cap e) :
    TotP cap P m := by
  intro c
  cases hr : m.run c with
  | error e => exact herr c e hr
  | ok p => obtain ⟨a, c1⟩ := p; exact hok c a c1 hr

theorem TotP.run_ok {P : α → Prop} {m : GenM α} (h : TotP cap P m) {c : Nat} {a : α} {k : Nat}
    (hr : m.run c = .ok (a, k)) : P a := by
  have := h c; rw [hr] at this; exact this

theorem TotP.run_error {P : α → Prop} {m : GenM α} (h : TotP cap P m) {c : Nat} {e : String}
    (hr : m.run c = .error e) : cap e := by
  have := h c; rw [hr] at this; exact this

theorem Tot.resOk {m : GenM α} (h : Tot cap m) (c : Nat) : ResOk cap (m.run c) := by
  have h1 := h c
  cases hr : m.run c with
  | error e => rw [hr] at h1; exact h1
  | ok p => trivial

theorem Tot.freshLabel : Tot cap Scc.Backend.freshLabel := fun _ => trivial

theorem Tot.freshLabelStr (ren : Nat → String) : Tot cap (Scc.Backend.freshLabelStr ren) := fun _ => trivial

theorem TotP.mapMGen {Q : α → β → Prop} {f : α → GenM β} : ∀ (l : List α),
    (∀ a ∈ l, TotP cap (Q a) (f a)) →
    TotP cap (fun bs => ∀ b ∈ bs, ∃ a ∈ l, Q a b) (mapMGen f l)
  | [], _ => TotP.pure (by simp)
  | a :: as, h => by
    unfold Scc.Backend.mapMGen
    refine TotP.bind (h a (by simp)) fun b hb => ?_
    refine TotP.bind (TotP.mapMGen as fun a' ha' => h a' (by simp [ha'])) fun bs hbs => ?_
    refine TotP.pure ?_
    intro b' hb'
    rcases List.mem_cons.mp hb' with rfl | hb'
    · exact ⟨a, by simp, hb⟩
    · obtain ⟨a', ha', hq⟩ := hbs b' hb'
      exact ⟨a', by simp [ha'], hq⟩

end

/-! ## the predicate on backends -/

/-- `t` is a value of `variable_temporary number Γ id` (for some value of the label counter) -/
def IsVT {Code T : Type} (B : Backend Code T) (n : TempNum) (Γ : Ctx) (id : Nat) (t : T) : Prop :=
  ∃ c k, (B.variableTemporary n Γ id).run c = .ok (t, k)

/-- The hypotheses on a backend under which the generic code generator is total-or-capacity.
    `fits n`: a context of `n` variables is within the capacity for which the methods are claimed total
    (downward closed). -/
structure TotalBackend {Code T : Type} (B : Backend Code T) (cap : String → Prop) (fits : Nat → Prop) :
    Prop where
  fits_mono : ∀ {m n : Nat}, m ≤ n → fits n → fits m
  /-- `PartialEq` of the temporaries is equality -/
  tempEq_iff : ∀ a b, B.tempEq a b = true ↔ a = b
  /-- utils.rs: variable_temporary finds every variable of the context (`get_position` succeeds) -/
  vt_total : ∀ n (Γ : Ctx) id, (∃ b ∈ Γ, b.var.id = id) → fits Γ.length → Tot cap (B.variableTemporary n Γ id)
  /-- different (number, variable) pairs of one context have different temporaries -/
  vt_inj : ∀ {Γ n n' id id' t}, IsVT B n Γ id t → IsVT B n' Γ id' t → n = n' ∧ id = id'
  /-- the temporary does not depend on the label counter -/
  vt_det : ∀ {Γ n id t t'}, IsVT B n Γ id t → IsVT B n Γ id t' → t = t'
  printI64 : ∀ nl t Γ, fits Γ.length → Tot cap (B.printI64 nl t Γ)
  eraseBlock : ∀ t, Tot cap (B.eraseBlock t)
  shareBlockN : ∀ t n, Tot cap (B.shareBlockN t n)
  /-- memory.rs: store `a` (the suffix of the context) keeping `b`; one more variable is bound next -/
  store : ∀ a b, fits (a.length + b.length + 1) → Tot cap (B.store a b)
  /-- memory.rs: load `a` on top of `b` -/
  load : ∀ a b, fits (a.length + b.length) → Tot cap (B.load a b)

end Scc.Backend.Total
