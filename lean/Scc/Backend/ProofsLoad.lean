/-
  Scc.Backend.ProofsLoad — Theorem A for `switch` and `invoke`: the `load` contract of the abstract
  machine against the strengthened representation (SimDefs2.lean) and the counting invariant `HeapOK`.
    unique case (count 0): the block is removed, its children are taken over by the new positions;
    shared case: the count is decremented and every child is shared once more.
  Proof file.
-/
import Scc.Backend.ProofsRep2

set_option linter.unusedSimpArgs false
set_option linter.unusedVariables false

namespace Scc.Backend.Sim2

open Scc.AxCut Scc.AxCut.Pos Scc.Backend Scc.Backend.Abs Scc.Backend.Sim

/-! ## `writeFields` -/

theorem writeFields_get_low : ∀ (fs : List Field) (σ : Temps) (n t : Nat), t < 2 * n →
    (writeFields σ fs n).get t = σ.get t
  | [], σ, n, t, _ => rfl
  | f :: fs, σ, n, t, ht => by
    simp only [writeFields]
    rw [writeFields_get_low fs _ (n + 1) t (by omega)]
    split
    · rw [get_set_other _ _ (by omega), get_unset_other _ (by omega)]
    · rw [get_set_other _ _ (by omega), get_set_other _ _ (by omega)]

theorem writeFields_get_val : ∀ (fs : List Field) (σ : Temps) (n j : Nat) (hj : j < fs.length),
    (writeFields σ fs n).get (2 * (n + j) + 1) = some fs[j].val
  | [], _, _, _, hj => by simp at hj
  | f :: fs, σ, n, 0, _ => by
    simp only [writeFields, Nat.add_zero, List.getElem_cons_zero]
    rw [writeFields_get_low fs _ (n + 1) _ (by omega)]
    split <;> exact get_set_same _ _ _
  | f :: fs, σ, n, j + 1, hj => by
    simp only [writeFields, List.getElem_cons_succ]
    have := writeFields_get_val fs
      (if f.chi == .ext then (σ.unset (2 * n)).set (2 * n + 1) f.val
       else (σ.set (2 * n) f.ptr).set (2 * n + 1) f.val) (n + 1) j (by simpa using hj)
    rw [show n + 1 + j = n + (j + 1) by omega] at this
    exact this

theorem writeFields_get_ptr : ∀ (fs : List Field) (σ : Temps) (n j : Nat) (hj : j < fs.length),
    (writeFields σ fs n).get (2 * (n + j)) = if fs[j].chi == .ext then none else some fs[j].ptr
  | [], _, _, _, hj => by simp at hj
  | f :: fs, σ, n, 0, _ => by
    simp only [writeFields, Nat.add_zero, List.getElem_cons_zero]
    rw [writeFields_get_low fs _ (n + 1) _ (by omega)]
    split
    · rw [get_set_other _ _ (by omega), get_unset_same]
    · rw [get_set_other _ _ (by omega), get_set_same]
  | f :: fs, σ, n, j + 1, hj => by
    simp only [writeFields, List.getElem_cons_succ]
    have := writeFields_get_ptr fs
      (if f.chi == .ext then (σ.unset (2 * n)).set (2 * n + 1) f.val
       else (σ.set (2 * n) f.ptr).set (2 * n + 1) f.val) (n + 1) j (by simpa using hj)
    rw [show n + 1 + j = n + (j + 1) by omega] at this
    exact this

/-- the roots of freshly loaded positions are the children of the loaded object -/
theorem roots_go_loaded (σ : Temps) (c : Nat) : ∀ (Δ : Ctx) (fs : List Field) (k : Nat),
    fs.map (·.chi) = Δ.map (·.chi) →
    (∀ j (hj : j < fs.length), σ.get (2 * (k + j)) = if fs[j].chi == .ext then none else some fs[j].ptr) →
    roots.go σ Δ k = Obj.children ⟨c, fs⟩
  | [], [], _, _, _ => rfl
  | [], _ :: _, _, h, _ => by simp at h
  | _ :: _, [], _, h, _ => by simp at h
  | b :: bs, f :: fs, k, h, hg => by
    simp only [List.map_cons, List.cons.injEq] at h
    have ih := roots_go_loaded σ c bs fs (k + 1) h.2 (fun j hj => by
      have := hg (j + 1) (by simpa using hj)
      simp only [List.getElem_cons_succ] at this
      rw [show k + 1 + j = k + (j + 1) by omega]
      exact this)
    have h0 := hg 0 (by simp)
    simp only [Nat.add_zero, List.getElem_cons_zero] at h0
    simp only [roots.go, Obj.children, List.filterMap_cons, ← h.1]
    have ih' : roots.go σ bs (k + 1) = List.filterMap
        (fun f => if (f.chi != Chi.ext && f.ptr != 0) = true then some f.ptr.toNat else none) fs := ih
    rw [ih', h0]
    by_cases hc : f.chi = .ext
    · have h1 : (f.chi != .ext) = false := (chi_bne_ext_false _).mpr hc
      simp [h1]
    · have h1 : (f.chi != .ext) = true := (chi_bne_ext _).mpr hc
      have h2 : (f.chi == .ext) = false := (chi_beq_ext_false _).mpr hc
      simp only [h1, h2, Bool.false_eq_true, if_false, if_true, Bool.true_and]
      by_cases hp : f.ptr = 0#64
      · simp [hp]
      · simp [hp]

/-! ## index-wise reading of `RepF` -/

theorem RepF.length_eq {P : Program} {hooks : Bool} {types : List TypeDecl} {h : Heap} :
    ∀ {vs : List Value} {fs : List Field}, RepF P hooks types h vs fs → vs.length = fs.length
  | _, _, .nil => rfl
  | _, _, .cons v vs f fs _ _ hr => by simp [RepF.length_eq hr]

theorem RepF.get {P : Program} {hooks : Bool} {types : List TypeDecl} {h : Heap} :
    ∀ {vs : List Value} {fs : List Field}, RepF P hooks types h vs fs →
    ∀ j (h1 : j < vs.length) (h2 : j < fs.length),
      RepV P hooks types h vs[j] (if fs[j].chi == .ext then none else some fs[j].ptr) fs[j].val ∧
      fs[j].chi = kindOf vs[j]
  | _, _, .nil, j, h1, _ => by simp at h1
  | _, _, .cons v vs f fs hv hk hr, 0, _, _ => ⟨hv, hk⟩
  | _, _, .cons v vs f fs hv hk hr, j + 1, h1, h2 => by
    simpa using RepF.get hr j (by simpa using h1) (by simpa using h2)

theorem RepF.kinds {P : Program} {hooks : Bool} {types : List TypeDecl} {h : Heap} :
    ∀ {vs : List Value} {fs : List Field}, RepF P hooks types h vs fs → fs.map (·.chi) = vs.map kindOf
  | _, _, .nil => rfl
  | _, _, .cons v vs f fs _ hk hr => by simp [hk, RepF.kinds hr]

/-! ## appending loaded positions -/

theorem ValsOK2_append {P : Program} {hooks : Bool} {types : List TypeDecl} {h : Heap} {σ : Temps}
    {Γ Δ : Ctx} {ρ vs : List Value} (V : ValsOK2 P hooks types h σ Γ ρ) (hlen : ρ.length = Γ.length)
    (hΔ : ∀ j (h1 : j < Δ.length) (h2 : j < vs.length),
      RepV P hooks types h vs[j]
        (if Δ[j].chi == .ext then none else σ.get (2 * (Γ.length + j)))
        ((σ.get (2 * (Γ.length + j) + 1)).getD 0) ∧
      (σ.get (2 * (Γ.length + j) + 1)).isSome ∧
      (Δ[j].chi = kindOf vs[j]) ∧
      (Δ[j].chi != .ext → (σ.get (2 * (Γ.length + j))).isSome)) :
    ValsOK2 P hooks types h σ (Γ ++ Δ) (ρ ++ vs) := by
  intro i h1 h2
  by_cases hi : i < Γ.length
  · have hi2 : i < ρ.length := by omega
    have g1 : (Γ ++ Δ)[i] = Γ[i] := List.getElem_append_left hi
    have g2 : (ρ ++ vs)[i] = ρ[i] := List.getElem_append_left hi2
    rw [g1, g2]
    exact V i hi hi2
  · have hi' : Γ.length ≤ i := by omega
    have h1' : i - Γ.length < Δ.length := by simp at h1; omega
    have h2' : i - Γ.length < vs.length := by simp at h2; omega
    have g1 : (Γ ++ Δ)[i] = Δ[i - Γ.length] := List.getElem_append_right hi'
    have g2 : (ρ ++ vs)[i] = vs[i - Γ.length] := by
      rw [List.getElem_append_right (by omega)]
      simp [hlen]
    rw [g1, g2]
    have := hΔ (i - Γ.length) h1' h2'
    rw [show Γ.length + (i - Γ.length) = i by omega] at this
    exact this

/-! ## `shareAll` -/

theorem AllFieldsKept.refl (h : Heap) : AllFieldsKept h h := fun id o hg => ⟨o, hg, rfl⟩

theorem AllFieldsKept.trans {h1 h2 h3 : Heap} (a : AllFieldsKept h1 h2) (b : AllFieldsKept h2 h3) :
    AllFieldsKept h1 h3 := by
  intro id o hg
  obtain ⟨o2, hg2, e2⟩ := a id o hg
  obtain ⟨o3, hg3, e3⟩ := b id o2 hg2
  exact ⟨o3, hg3, e3.trans e2⟩

theorem allFieldsKept_set {h : Heap} {id : Nat} {o : Obj} (hg : h.get id = some o) (c : Nat) :
    AllFieldsKept h (h.set id { o with count := c }) := by
  intro id' o' hg'
  by_cases hi : id' = id
  · subst hi
    rw [hg] at hg'
    cases hg'
    exact ⟨_, heap_get_set_same _ _ _, rfl⟩
  · exact ⟨o', by rw [heap_get_set_other _ _ hi]; exact hg', rfl⟩

theorem share_ok {h : Heap} {c k : Nat} {o : Obj} (h0 : 0 < c) (hlt : c < 2 ^ 64)
    (hg : h.get c = some o) :
    h.share (BitVec.ofNat 64 c) k = .ok (h.set c { o with count := o.count + k }) := by
  unfold Heap.share
  have hne : (BitVec.ofNat 64 c == 0) = false := by
    rw [beq_eq_false_iff_ne]; exact ofNat_ne_zero h0 hlt
  simp only [hne, Bool.false_eq_true, if_false, ofNat_toNat_lt hlt, hg]

theorem shareAll_ok : ∀ (cs : List Nat) (h : Heap) (rs : List Nat) (next : Nat),
    HeapOK h rs next → (∀ c ∈ cs, 0 < c ∧ c < 2 ^ 64 ∧ (h.get c).isSome) →
    ∃ h', h.shareAll cs = .ok h' ∧ HeapOK h' (rs ++ cs) next ∧ AllFieldsKept h h'
  | [], h, rs, next, H, _ => ⟨h, rfl, by simpa using H, AllFieldsKept.refl h⟩
  | c :: cs, h, rs, next, H, hcs => by
    obtain ⟨h0, hlt, hs⟩ := hcs c (by simp)
    cases hg : h.get c with
    | none => simp [hg] at hs
    | some o =>
      have hshare := share_ok (k := 1) h0 hlt hg
      have H1 : HeapOK (h.set c { o with count := o.count + 1 }) (rs ++ [c]) next := by
        apply heapOK_setCount H hg
        · intro x hx
          have : ¬ (c = x) := fun e => hx e.symm
          simp [List.count_append, List.count_cons, this]
        · simp [List.count_append]; omega
      have hcs' : ∀ c' ∈ cs, 0 < c' ∧ c' < 2 ^ 64 ∧
          ((h.set c { o with count := o.count + 1 }).get c').isSome := by
        intro c' hc'
        obtain ⟨a, b, d⟩ := hcs c' (by simp [hc'])
        refine ⟨a, b, ?_⟩
        by_cases e : c' = c
        · subst e; rw [heap_get_set_same]; rfl
        · rw [heap_get_set_other _ _ e]; exact d
      obtain ⟨h', hs', H', K'⟩ := shareAll_ok cs _ _ next H1 hcs'
      refine ⟨h', ?_, ?_, (allFieldsKept_set hg _).trans K'⟩
      · simp only [Heap.shareAll, hshare]; exact hs'
      · simpa [List.append_assoc] using H'


/-! ## the `load` instruction -/

theorem step_load_empty (P : Program) (cfg : Config) (n : Nat)
    (hc : P.code[cfg.pc]? = some (.load [] n)) :
    Abs.step P cfg = .next { cfg with pc := cfg.pc + 1, temps := clobberTemp cfg.temps } := by
  simp [Abs.step, hc]

theorem chi_beq_self (c : Chi) : (c == c) = true := by cases c <;> decide

theorem kinds_bne_self : ∀ (l : List Chi), (l != l) = false
  | [] => rfl
  | c :: l => by
    have ih := kinds_bne_self l
    simp only [bne, Bool.not_eq_false'] at ih ⊢
    show ((c :: l) == (c :: l)) = true
    have : ((c :: l) == (c :: l)) = ((c == c) && (l == l)) := rfl
    rw [this, chi_beq_self, ih]; rfl

theorem step_load_unique (P : Program) (cfg : Config) (k : Chi) (ks : List Chi) (n : Nat) (ref : Word)
    (o : Obj) (hc : P.code[cfg.pc]? = some (.load (k :: ks) n))
    (hr : cfg.temps.get (2 * n) = some ref) (h0 : ref ≠ 0) (hg : cfg.heap.get ref.toNat = some o)
    (hk : o.fields.map (·.chi) = k :: ks) (hcount : o.count = 0) :
    Abs.step P cfg = .next { cfg with pc := cfg.pc + 1,
                                      temps := writeFields (clobberTemp cfg.temps) o.fields n,
                                      heap := cfg.heap.remove ref.toNat } := by
  have h1 : (ref == 0) = false := by rw [beq_eq_false_iff_ne]; exact h0
  have h2 : (o.fields.map (·.chi) != k :: ks) = false := by rw [hk]; exact kinds_bne_self _
  simp only [Abs.step, hc, getT, hr, h1, hg, h2, hcount, Bool.false_eq_true, if_false, beq_self_eq_true,
    if_true]

theorem step_load_shared (P : Program) (cfg : Config) (k : Chi) (ks : List Chi) (n : Nat) (ref : Word)
    (o : Obj) (h' : Heap) (hc : P.code[cfg.pc]? = some (.load (k :: ks) n))
    (hr : cfg.temps.get (2 * n) = some ref) (h0 : ref ≠ 0) (hg : cfg.heap.get ref.toNat = some o)
    (hk : o.fields.map (·.chi) = k :: ks) (hcount : o.count ≠ 0)
    (hs : (cfg.heap.set ref.toNat { o with count := o.count - 1 }).shareAll o.children = .ok h') :
    Abs.step P cfg = .next { cfg with pc := cfg.pc + 1,
                                      temps := writeFields (clobberTemp cfg.temps) o.fields n,
                                      heap := h' } := by
  have h1 : (ref == 0) = false := by rw [beq_eq_false_iff_ne]; exact h0
  have h2 : (o.fields.map (·.chi) != k :: ks) = false := by rw [hk]; exact kinds_bne_self _
  have h3 : (o.count == 0) = false := by rw [beq_eq_false_iff_ne]; exact hcount
  simp only [Abs.step, hc, getT, hr, h1, hg, h2, h3, hs, Bool.false_eq_true, if_false]

theorem childSum_pos_of_mem {h : Heap} {e : Nat × Obj} (he : e ∈ h) {x : Nat} (hx : x ∈ e.2.children) :
    0 < childSum h x := by
  induction h with
  | nil => cases he
  | cons a h ih =>
    obtain ⟨a1, a2⟩ := a
    rw [childSum_cons]
    rcases List.mem_cons.mp he with rfl | he'
    · have : 0 < List.count x a2.children := List.count_pos_iff.mpr hx
      omega
    · have := ih he'
      omega

/-- every child of a heap object is a live object, non-null, below `2^64` -/
theorem heapOK_child_live {h : Heap} {rs : List Nat} {next id : Nat} {o : Obj} (H : HeapOK h rs next)
    (hg : h.get id = some o) {c : Nat} (hc : c ∈ o.children) :
    0 < c ∧ c < 2 ^ 64 ∧ (h.get c).isSome := by
  have hlive : (h.get c).isSome := by
    apply H.live
    have := childSum_pos_of_mem (heap_get_mem hg) hc
    simp only [refCount_eq]
    omega
  obtain ⟨o', ho'⟩ := heap_get_isSome_mem hlive
  exact ⟨(H.ids _ ho').1, children_lt hc, hlive⟩

/-- THE `load` CONTRACT: temporary `2n` (n = number of remaining positions) references a block
    representing `vs`; after `load` the positions `n, n+1, …` represent `vs`, and the counting
    invariant holds for the extended context. -/
theorem load_sim {P : Program} {hooks : Bool} {types : List TypeDecl} {Γ Δ : Ctx} {ρ vs : List Value}
    {cfg : Config} {r : Word}
    (V : ValsOK2 P hooks types cfg.heap cfg.temps Γ ρ) (hlen : ρ.length = Γ.length)
    (hcap : 2 * (Γ.length + Δ.length) + 2 < Mock.T_TEMP)
    (hr : cfg.temps.get (2 * Γ.length) = some r)
    (hB : RepB P hooks types cfg.heap vs r)
    (hkinds : vs.map kindOf = Mock.kindsOf Δ)
    (H : HeapOK cfg.heap (roots Γ cfg.temps ++ (if r != 0 then [r.toNat] else [])) cfg.next)
    (hc : P.code[cfg.pc]? = some (.load (Mock.kindsOf Δ) Γ.length)) :
    ∃ cfg1, Abs.step P cfg = .next cfg1 ∧ cfg1.pc = cfg.pc + 1 ∧ cfg1.out = cfg.out ∧
      cfg1.next = cfg.next ∧
      ValsOK2 P hooks types cfg1.heap cfg1.temps (Γ ++ Δ) (ρ ++ vs) ∧
      HeapOK cfg1.heap (roots (Γ ++ Δ) cfg1.temps) cfg1.next := by
  have hlenΔ : vs.length = Δ.length := by
    have := congrArg List.length hkinds
    simpa [Mock.kindsOf] using this
  cases hB with
  | empty =>
    -- nothing to load
    have hΔ : Δ = [] := List.length_eq_zero_iff.mp (by simpa using hlenΔ.symm)
    subst hΔ
    have hc' : P.code[cfg.pc]? = some (.load [] Γ.length) := hc
    refine ⟨_, step_load_empty P cfg _ hc', rfl, rfl, rfl, ?_, ?_⟩
    · simp only [List.append_nil]
      exact ValsOK2_congr V (fun t ht => get_clobberTemp _ (by simp at hcap; omega))
    · simp only [List.append_nil]
      have e : roots Γ (clobberTemp cfg.temps) = roots Γ cfg.temps :=
        roots_congr _ _ _ (fun i hi => get_clobberTemp _ (by simp at hcap; omega))
      show HeapOK cfg.heap (roots Γ (clobberTemp cfg.temps)) cfg.next
      rw [e]
      simpa using H
  | block v vs' r o hr0 hg hF =>
    have hrb : (r != 0) = true := by rw [bne_iff_ne]; exact hr0
    simp only [hrb, if_true] at H
    have hfk : o.fields.map (·.chi) = Mock.kindsOf Δ := by rw [RepF.kinds hF]; exact hkinds
    have hflen : o.fields.length = Δ.length := by
      have := congrArg List.length hfk
      simpa [Mock.kindsOf] using this
    -- the kind list is not empty
    obtain ⟨k, ks, hkk⟩ : ∃ k ks, Mock.kindsOf Δ = k :: ks := by
      cases hd : Mock.kindsOf Δ with
      | nil => rw [hd] at hkinds; simp at hkinds
      | cons k ks => exact ⟨k, ks, rfl⟩
    rw [hkk] at hc
    -- the temporaries after the load
    have hσlow : ∀ t, t < 2 * Γ.length →
        (writeFields (clobberTemp cfg.temps) o.fields Γ.length).get t = cfg.temps.get t := by
      intro t ht
      rw [writeFields_get_low _ _ _ _ ht]
      exact get_clobberTemp _ (by omega)
    have hroots' : roots (Γ ++ Δ) (writeFields (clobberTemp cfg.temps) o.fields Γ.length) =
        roots Γ cfg.temps ++ o.children := by
      unfold roots
      rw [roots_go_append, Nat.zero_add]
      congr 1
      · exact roots_go_congr _ _ _ 0 (fun i hi => by rw [Nat.zero_add]; exact hσlow _ (by omega))
      · exact roots_go_loaded _ o.count Δ o.fields Γ.length hfk
          (fun j hj => writeFields_get_ptr _ _ _ j hj)
    -- representation of the loaded positions in any heap that keeps the fields reachable from them
    have hnew : ∀ (h' : Heap), (∀ j (h1 : j < (v :: vs').length) (h2 : j < o.fields.length),
          RepV P hooks types h' (v :: vs')[j]
            (if o.fields[j].chi == .ext then none else some o.fields[j].ptr) o.fields[j].val) →
        ∀ j (h1 : j < Δ.length) (h2 : j < (v :: vs').length),
          RepV P hooks types h' (v :: vs')[j]
            (if Δ[j].chi == .ext then none
             else (writeFields (clobberTemp cfg.temps) o.fields Γ.length).get (2 * (Γ.length + j)))
            (((writeFields (clobberTemp cfg.temps) o.fields Γ.length).get
              (2 * (Γ.length + j) + 1)).getD 0) ∧
          ((writeFields (clobberTemp cfg.temps) o.fields Γ.length).get (2 * (Γ.length + j) + 1)).isSome ∧
          (Δ[j].chi = kindOf (v :: vs')[j]) ∧
          (Δ[j].chi != .ext →
            ((writeFields (clobberTemp cfg.temps) o.fields Γ.length).get (2 * (Γ.length + j))).isSome) := by
      intro h' hrep j h1 h2
      have h3 : j < o.fields.length := by omega
      have hchi : o.fields[j].chi = Δ[j].chi := by
        have := congrArg (fun l => l[j]?) hfk
        simp only [Mock.kindsOf, List.getElem?_map, List.getElem?_eq_getElem h3,
          List.getElem?_eq_getElem h1, Option.map_some, Option.some.injEq] at this
        exact this
      have hk := (RepF.get hF j h2 h3).2
      rw [writeFields_get_val _ _ _ j h3, writeFields_get_ptr _ _ _ j h3, ← hchi]
      refine ⟨?_, rfl, hk, ?_⟩
      · have := hrep j h2 h3
        by_cases hce : (o.fields[j].chi == .ext) = true
        · simpa [hce] using this
        · simpa [hce] using this
      · intro hne
        have : (o.fields[j].chi == .ext) = false := by
          rw [chi_beq_ext_false]; exact (chi_bne_ext _).mp hne
        simp [this]
    by_cases hcount : o.count = 0
    · -- unique: the block is freed
      have hmemr : r.toNat ∈ roots Γ cfg.temps ++ [r.toNat] := by simp
      obtain ⟨hcnt, hunref⟩ := heapOK_unique H hg hcount hmemr
      have hnotroot : r.toNat ∉ roots Γ cfg.temps := by
        intro hm
        have : 0 < (roots Γ cfg.temps).count r.toNat := List.count_pos_iff.mpr hm
        simp [List.count_append] at hcnt
        omega
      have hkept : FieldsKept cfg.heap (cfg.heap.remove r.toNat) r.toNat := by
        intro id o' hne hg'
        exact ⟨o', by rw [heap_get_remove_other _ hne]; exact hg', rfl⟩
      refine ⟨_, step_load_unique P cfg k ks _ r o hc hr hr0 hg (by rw [hfk, hkk]) hcount,
        rfl, rfl, rfl, ?_, ?_⟩
      · apply ValsOK2_append _ hlen
        · apply hnew
          intro j h1 h2
          refine RepV.transfer hkept hunref (RepF.get hF j h1 h2).1 ?_
          intro p hp hp0 e
          by_cases hce : (o.fields[j].chi == .ext) = true
          · simp [hce] at hp
          · simp only [hce, Bool.false_eq_true, if_false, Option.some.injEq] at hp
            subst hp
            exact hunref _ _ hg (e ▸ mem_children (List.getElem_mem h2)
              (fun e' => hce ((chi_beq_ext _).mpr e')) hp0)
        · apply ValsOK2_congr _ hσlow
          apply V.transfer hkept hunref
          intro i hi hci p hp hp0 e
          exact hnotroot (e ▸ mem_roots hi hci hp hp0)
      · show HeapOK (cfg.heap.remove r.toNat) (roots (Γ ++ Δ) _) cfg.next
        rw [hroots']
        apply heapOK_remove H hg hcount
        intro x
        simp only [List.count_append, List.count_cons, List.count_nil]
        by_cases hx : x = r.toNat
        · subst hx; simp; omega
        · have : ¬ (r.toNat = x) := fun e => hx e.symm
          simp [hx, this]
    · -- shared: decrement, share the children
      have H1 : HeapOK (cfg.heap.set r.toNat { o with count := o.count - 1 }) (roots Γ cfg.temps) cfg.next := by
        apply heapOK_setCount H hg
        · intro x hx
          have : ¬ (r.toNat = x) := fun e => hx e.symm
          simp [List.count_append, List.count_cons, this]
        · simp [List.count_append]; omega
      have hlive : ∀ c ∈ o.children, 0 < c ∧ c < 2 ^ 64 ∧
          ((cfg.heap.set r.toNat { o with count := o.count - 1 }).get c).isSome := by
        intro c hc'
        obtain ⟨a, b, d⟩ := heapOK_child_live H hg hc'
        refine ⟨a, b, ?_⟩
        by_cases e : c = r.toNat
        · rw [e, heap_get_set_same]; rfl
        · rw [heap_get_set_other _ _ e]; exact d
      obtain ⟨h', hs, H', K'⟩ := shareAll_ok o.children _ _ _ H1 hlive
      have K : AllFieldsKept cfg.heap h' := (allFieldsKept_set hg _).trans K'
      refine ⟨_, step_load_shared P cfg k ks _ r o h' hc hr hr0 hg (by rw [hfk, hkk]) hcount hs,
        rfl, rfl, rfl, ?_, ?_⟩
      · apply ValsOK2_append _ hlen
        · apply hnew
          intro j h1 h2
          exact RepV.kept K (RepF.get hF j h1 h2).1
        · exact ValsOK2_congr (V.kept K) hσlow
      · show HeapOK h' (roots (Γ ++ Δ) _) cfg.next
        rw [hroots']
        exact H'


/-! ## where the code of a clause / method is -/

theorem nthClause_lt : ∀ (clauses : Clauses) (i : Nat) (c : Clause), nthClause clauses i = some c →
    i < clauses.length
  | .nil, _, _, h => by simp [nthClause] at h
  | .cons _ _ _ r, 0, _, _ => by simp [Clauses.length]
  | .cons _ _ _ r, i + 1, c, h => by
    simp only [nthClause] at h
    have := nthClause_lt r i c h
    simp only [Clauses.length]; omega

theorem codeClauses_nth (hooks : Bool) (ren : Nat → String) (types : List TypeDecl) (Γ : Ctx) :
    ∀ (clauses : Clauses) (base : String) (i : Nat) (c : Clause) (k : Nat) (code : List MockOp) (k' : Nat),
    (codeClausesR mockSym hooks ren types Γ clauses base).run k = .ok (code, k') →
    nthClause clauses i = some c →
    ∃ pre post kb kb' body,
      code = pre ++ MockOp.label (clauseLabel base c.xtor) ::
        MockOp.load (Mock.kindsOf c.ctx) Γ.length :: (body ++ post) ∧
      (codeStatementR mockSym hooks ren types c.body (Γ ++ c.ctx)).run kb = .ok (body, kb')
  | .nil, _, _, _, _, _, _, _, h => by simp [nthClause] at h
  | .cons x ctx body rest, base, i, c, k, code, k', hrun, h => by
    simp only [codeClausesR, run_bind_ok, run_pure_ok, mockSym_load, mockSym_label] at hrun
    obtain ⟨c1, k1, ⟨rfl, rfl⟩, c2, k2, h2, c3, k3, h3, rfl, rfl⟩ := hrun
    cases i with
    | zero =>
      simp only [nthClause, Option.some.injEq] at h
      subst h
      exact ⟨[], c3, _, _, c2, by simp, h2⟩
    | succ i =>
      simp only [nthClause] at h
      obtain ⟨pre, post, kb, kb', b, e, hb⟩ := codeClauses_nth hooks ren types Γ rest base i c _ _ _ h3 h
      refine ⟨MockOp.label (clauseLabel base x) :: ([MockOp.load (Mock.kindsOf ctx) Γ.length] ++ c2) ++ pre,
        post, kb, kb', b, ?_, hb⟩
      rw [e]; simp

theorem codeClauses_head (hooks : Bool) (ren : Nat → String) (types : List TypeDecl) (Γ : Ctx)
    (clauses : Clauses) (base : String) (c : Clause) (k : Nat) (code : List MockOp) (k' : Nat)
    (hrun : (codeClausesR mockSym hooks ren types Γ clauses base).run k = .ok (code, k'))
    (h : nthClause clauses 0 = some c) :
    ∃ post kb kb' body,
      code = [] ++ MockOp.label (clauseLabel base c.xtor) ::
        MockOp.load (Mock.kindsOf c.ctx) Γ.length :: (body ++ post) ∧
      (codeStatementR mockSym hooks ren types c.body (Γ ++ c.ctx)).run kb = .ok (body, kb') := by
  cases clauses with
  | nil => simp [nthClause] at h
  | cons x ctx body rest =>
    simp only [codeClausesR, run_bind_ok, run_pure_ok, mockSym_load, mockSym_label] at hrun
    obtain ⟨c1, k1, ⟨rfl, rfl⟩, c2, k2, h2, c3, k3, h3, rfl, rfl⟩ := hrun
    simp only [nthClause, Option.some.injEq] at h
    subst h
    exact ⟨c3, _, _, c2, by simp, h2⟩

theorem codeMethods_head (hooks : Bool) (ren : Nat → String) (types : List TypeDecl) (env : Ctx)
    (clauses : Clauses) (base : String) (c : Clause) (k : Nat) (code : List MockOp) (k' : Nat)
    (hrun : (codeMethodsR mockSym hooks ren types env clauses base).run k = .ok (code, k'))
    (h : nthClause clauses 0 = some c) :
    ∃ post kb kb' body,
      code = [] ++ MockOp.label (clauseLabel base c.xtor) ::
        MockOp.load (Mock.kindsOf env) c.ctx.length :: (body ++ post) ∧
      (codeStatementR mockSym hooks ren types c.body (c.ctx ++ env)).run kb = .ok (body, kb') := by
  cases clauses with
  | nil => simp [nthClause] at h
  | cons x ctx body rest =>
    simp only [codeMethodsR, run_bind_ok, run_pure_ok, mockSym_load, mockSym_label] at hrun
    obtain ⟨c1, k1, ⟨rfl, rfl⟩, c2, k2, h2, c3, k3, h3, rfl, rfl⟩ := hrun
    simp only [nthClause, Option.some.injEq] at h
    subst h
    exact ⟨c3, _, _, c2, by simp, h2⟩

theorem codeMethods_nth (hooks : Bool) (ren : Nat → String) (types : List TypeDecl) (env : Ctx) :
    ∀ (clauses : Clauses) (base : String) (i : Nat) (c : Clause) (k : Nat) (code : List MockOp) (k' : Nat),
    (codeMethodsR mockSym hooks ren types env clauses base).run k = .ok (code, k') →
    nthClause clauses i = some c →
    ∃ pre post kb kb' body,
      code = pre ++ MockOp.label (clauseLabel base c.xtor) ::
        MockOp.load (Mock.kindsOf env) c.ctx.length :: (body ++ post) ∧
      (codeStatementR mockSym hooks ren types c.body (c.ctx ++ env)).run kb = .ok (body, kb')
  | .nil, _, _, _, _, _, _, _, h => by simp [nthClause] at h
  | .cons x ctx body rest, base, i, c, k, code, k', hrun, h => by
    simp only [codeMethodsR, run_bind_ok, run_pure_ok, mockSym_load, mockSym_label] at hrun
    obtain ⟨c1, k1, ⟨rfl, rfl⟩, c2, k2, h2, c3, k3, h3, rfl, rfl⟩ := hrun
    cases i with
    | zero =>
      simp only [nthClause, Option.some.injEq] at h
      subst h
      exact ⟨[], c3, _, _, c2, by simp, h2⟩
    | succ i =>
      simp only [nthClause] at h
      obtain ⟨pre, post, kb, kb', b, e, hb⟩ := codeMethods_nth hooks ren types env rest base i c _ _ _ h3 h
      refine ⟨MockOp.label (clauseLabel base x) :: ([MockOp.load (Mock.kindsOf env) ctx.length] ++ c2) ++ pre,
        post, kb, kb', b, ?_, hb⟩
      rw [e]; simp

theorem codeTable_nth (P : Program) (base : String) : ∀ (clauses : Clauses) (i : Nat) (c : Clause)
    (a : Nat) (rest : List MockOp), nthClause clauses i = some c →
    CodeAt P a (codeTable mockSym clauses base ++ rest) →
    P.code[a + i]? = some (.jumpFixed (clauseLabel base c.xtor))
  | .nil, _, _, _, _, h, _ => by simp [nthClause] at h
  | .cons x ctx body r, 0, c, a, rest, h, hat => by
    simp only [nthClause, Option.some.injEq] at h
    subst h
    simp only [codeTable, mockSym_jumpLabelFixed, List.cons_append, List.nil_append, CodeAt] at hat
    exact hat.1
  | .cons x ctx body r, i + 1, c, a, rest, h, hat => by
    simp only [nthClause] at h
    simp only [codeTable, mockSym_jumpLabelFixed, List.cons_append, List.nil_append, CodeAt] at hat
    have := codeTable_nth P base r i c (a + 1) rest h hat.2
    rw [show a + (i + 1) = a + 1 + i by omega]
    exact this

/-- the clause code found in a laid out code list -/
theorem clause_at {P : Program} {a : Nat} {pre post body : List MockOp} {lbl : String} {ks : List Chi}
    {n : Nat} (hat : CodeAt P a (pre ++ MockOp.label lbl :: MockOp.load ks n :: (body ++ post))) :
    P.labelAddr lbl = some (a + instrCount pre) ∧
    P.code[a + instrCount pre]? = some (.load ks n) ∧ CodeAt P (a + instrCount pre + 1) body := by
  rw [CodeAt_append] at hat
  obtain ⟨_, hat⟩ := hat
  simp only [CodeAt] at hat
  obtain ⟨h1, h2, h3⟩ := hat
  rw [CodeAt_append] at h3
  exact ⟨h1, h2, h3.1⟩

/-! ## inversion of the representation of objects and closures -/

theorem RepV.obj_inv {P : Program} {hooks : Bool} {types : List TypeDecl} {h : Heap} {tag : Nat}
    {fields : List Value} {p : Option Word} {w : Word}
    (hv : RepV P hooks types h (.obj tag fields) p w) :
    ∃ r, p = some r ∧ RepB P hooks types h fields r ∧ w = BitVec.ofNat 64 tag := by
  cases hv with
  | obj _ _ r hb => exact ⟨r, rfl, hb, rfl⟩

theorem RepV.clo_inv {P : Program} {hooks : Bool} {types : List TypeDecl} {h : Heap} {envCtx : Ctx}
    {env : List Value} {clauses : Clauses} {p : Option Word} {w : Word}
    (hv : RepV P hooks types h (.clo envCtx env clauses) p w) :
    ∃ r a envCtx', p = some r ∧ RepB P hooks types h env r ∧ w = BitVec.ofNat 64 a ∧
      envCtx'.keys = envCtx.keys ∧ MethodsAt P hooks types a envCtx' clauses := by
  cases hv with
  | clo _ envCtx' _ _ r a hk hb hm => exact ⟨r, a, envCtx', rfl, hb, rfl, hk, hm⟩

/-! ## entering a clause / method: the `load` at its head -/

/-- the last position holds a block reference; the machine is (after the jumps of `switch` / `invoke`,
    which only change `TEMP`) at the `load` of a clause whose body is coded for the context
    `Γ'' ++ Δ` (`Γ''`: the remaining positions, possibly renamed) -/
theorem load_enter {P : Program} {hooks : Bool} {prog : Prog} {Γ' Γ'' Δ : Ctx} {b : Binding}
    {ρ' vs : List Value} {v : Value} {s s' : Stmt} {cfg cfg4 : Config} {r : Word}
    (R : RelX P hooks prog ⟨Γ' ++ [b], ρ' ++ [v], s⟩ cfg)
    (hchi : Γ'.map (·.chi) = Γ''.map (·.chi))
    (hbchi : b.chi ≠ .ext)
    (hr : cfg.temps.get (2 * Γ'.length) = some r)
    (hB : RepB P hooks prog.types cfg.heap vs r)
    (hkinds : vs.map kindOf = Mock.kindsOf Δ)
    (hcap : 2 * (Γ'.length + Δ.length) + 2 < Mock.T_TEMP)
    (hheap : cfg4.heap = cfg.heap) (hnext : cfg4.next = cfg.next) (hout : cfg4.out = cfg.out)
    (htemps : ∀ t, t < 2 * (Γ'.length + 1) → cfg4.temps.get t = cfg.temps.get t)
    (hc : P.code[cfg4.pc]? = some (.load (Mock.kindsOf Δ) Γ'.length))
    (hcode : ∃ c c' ops, (codeStatementR mockSym hooks natRen prog.types s' (Γ'' ++ Δ)).run c = .ok (ops, c') ∧
      CodeAt P (cfg4.pc + 1) ops) :
    ∃ cfg', Abs.step P cfg4 = .next cfg' ∧ cfg'.out = cfg.out ∧ cfg'.next = cfg.next ∧
      RelX P hooks prog ⟨Γ'' ++ Δ, ρ' ++ vs, s'⟩ cfg' := by
  have hlen : ρ'.length = Γ'.length := by
    have := R.len
    simpa using this
  have hlen'' : Γ'.length = Γ''.length := by simpa using congrArg List.length hchi
  -- the remaining positions
  have V0 : ValsOK2 P hooks prog.types cfg4.heap cfg4.temps Γ' ρ' := by
    rw [hheap]
    have e1 : (Γ' ++ [b]).take Γ'.length = Γ' := List.take_left' rfl
    have e2 : (ρ' ++ [v]).take Γ'.length = ρ' := List.take_left' hlen
    have V1 := R.vals.take Γ'.length
    rw [e1, e2] at V1
    exact ValsOK2_congr V1 (fun t ht => htemps t (by omega))
  have hroots : roots Γ' cfg4.temps = roots Γ' cfg.temps :=
    roots_congr _ _ _ (fun i hi => htemps _ (by omega))
  have H0 : HeapOK cfg4.heap (roots Γ' cfg4.temps ++ (if r != 0 then [r.toNat] else [])) cfg4.next := by
    rw [hheap, hnext, hroots]
    have := R.heap
    simp only at this
    rw [roots_snoc] at this
    have hne : (b.chi != .ext) = true := (chi_bne_ext _).mpr hbchi
    simpa [rootOf, hne, hr] using this
  have hr4 : cfg4.temps.get (2 * Γ'.length) = some r := by rw [htemps _ (by omega)]; exact hr
  obtain ⟨cfg', hstep, hpc, hout', hnext', V', H'⟩ :=
    load_sim (Δ := Δ) V0 hlen hcap hr4 (hheap ▸ hB) hkinds H0 hc
  refine ⟨cfg', hstep, by rw [hout', hout], by rw [hnext', hnext], ?_⟩
  obtain ⟨c, c', ops, hrun, hat⟩ := hcode
  exact {
    len := by simp [hlen, hlen'']; have := congrArg List.length hkinds; simp [Mock.kindsOf] at this; omega
    cap := by simp only [List.length_append]; rw [← hlen'']; exact hcap
    vals := by
      apply ValsOK2_chi V'
      simp [hchi]
    heap := by
      apply HeapOK_congr H'
      show roots (Γ'' ++ Δ) _ = roots (Γ' ++ Δ) _
      unfold roots
      exact (roots_go_chi _ (Γ' ++ Δ) (Γ'' ++ Δ) 0 (by simp [hchi])).symm
    code := ⟨c, c', ops, hrun, by rw [hpc]; exact hat⟩ }


/-! ## the jump instructions -/

theorem step_ll_temp (P : Program) (cfg : Config) (name : String) (a : Nat)
    (hc : P.code[cfg.pc]? = some (.ll Mock.T_TEMP name)) (ha : P.labelAddr name = some a) :
    Abs.step P cfg = .next { cfg with pc := cfg.pc + 1,
                                      temps := cfg.temps.set Mock.T_TEMP (BitVec.ofNat 64 a) } := by
  have : (Mock.T_TEMP == Abs.T_TEMP) = true := by decide
  simp [Abs.step, hc, this, ha]

theorem step_binop_temp (P : Program) (cfg : Config) (o : BinOp) (b : Nat) (va vb v : Word)
    (hc : P.code[cfg.pc]? = some (.binop o Mock.T_TEMP Mock.T_TEMP b))
    (ha : cfg.temps.get Mock.T_TEMP = some va) (hb : cfg.temps.get b = some vb)
    (hv : Abs.evalBinOp o va vb = .ok v) :
    Abs.step P cfg = .next { cfg with pc := cfg.pc + 1, temps := cfg.temps.set Mock.T_TEMP v } := by
  have : (Mock.T_TEMP == Abs.T_TEMP) = true := by decide
  simp [Abs.step, hc, this, getT, ha, hb, hv]

theorem step_jump (P : Program) (cfg : Config) (t : Nat) (v : Word)
    (hc : P.code[cfg.pc]? = some (.jump t)) (ht : cfg.temps.get t = some v) :
    Abs.step P cfg = .next { cfg with pc := v.toNat, temps := clobberTemp cfg.temps } := by
  simp [Abs.step, hc, getT, ht]

theorem step_jumpFixed (P : Program) (cfg : Config) (name : String) (a : Nat)
    (hc : P.code[cfg.pc]? = some (.jumpFixed name)) (ha : P.labelAddr name = some a) :
    Abs.step P cfg = .next { cfg with pc := a, temps := clobberTemp cfg.temps } := by
  simp [Abs.step, hc, jumpTo, ha]

theorem step_addJump (P : Program) (cfg : Config) (t : Nat) (imm : Int) (v : Word)
    (hc : P.code[cfg.pc]? = some (.addJump t imm)) (ht : cfg.temps.get t = some v) :
    Abs.step P cfg = .next { cfg with pc := (v + BitVec.ofInt 64 imm).toNat,
                                      temps := clobberTemp cfg.temps } := by
  simp [Abs.step, hc, getT, ht]

theorem toNat_add_ofNat {a i : Nat} (h : a + i < 2 ^ 64) :
    (BitVec.ofNat 64 a + BitVec.ofNat 64 i).toNat = a + i := by
  simp only [BitVec.toNat_add, BitVec.toNat_ofNat]
  have h1 : a % 2 ^ 64 = a := Nat.mod_eq_of_lt (by omega)
  have h2 : i % 2 ^ 64 = i := Nat.mod_eq_of_lt (by omega)
  rw [h1, h2, Nat.mod_eq_of_lt h]

theorem code_lt_size {P : Program} {a : Nat} {op : MockOp} (h : P.code[a]? = some op) : a < P.code.size := by
  by_cases hlt : a < P.code.size
  · exact hlt
  · rw [Array.getElem?_eq_none (by omega)] at h; cases h

/-! ## simulation: `switch` -/

/-- a `switch` with at most one clause falls through: the `load` of the clause is AT the switch -/
theorem switch_code_single {P : Program} {hooks : Bool} {types : List TypeDecl} {x : Ident} {ty : Ty}
    {clauses : Clauses} {fv : FV} {Γ : Ctx} {pc : Nat} {cl : Clause}
    (hcode : ∃ c c' ops, (codeStatementR mockSym hooks natRen types (.switch x ty clauses fv) Γ).run c =
      .ok (ops, c') ∧ CodeAt P pc ops)
    (hle : clauses.length ≤ 1) (hcl : nthClause clauses 0 = some cl) :
    P.code[pc]? = some (.load (Mock.kindsOf cl.ctx) Γ.dropLast.length) := by
  obtain ⟨k0, k0', ops, hrun, hat⟩ := hcode
  simp only [codeStatementR, run_bind_ok, run_pure_ok, freshLabelStr_run_ok] at hrun
  obtain ⟨num, k1, ⟨rfl, rfl⟩, c1, k2, h1, c3, k3, h3, rfl, rfl⟩ := hrun
  obtain ⟨post0, kb0, kb0', body0, hc30, hbody0⟩ :=
    codeClauses_head hooks natRen types _ clauses _ cl _ _ _ h3 hcl
  simp only [mockSym_comment, mockSym_label, List.append_assoc, CodeAt_hook] at hat
  simp only [List.cons_append, List.nil_append, CodeAt] at hat
  rw [CodeAt_append] at hat
  obtain ⟨hat1, hat2⟩ := hat
  simp only [CodeAt] at hat2
  obtain ⟨hlab, hat2⟩ := hat2
  simp only [hle, if_true, run_pure_ok] at h1
  obtain ⟨rfl, rfl⟩ := h1
  have hgt : ¬ (clauses.length > 1) := by omega
  simp only [hgt, if_false, List.nil_append, CodeAt, instrCount, Nat.add_zero, mockSym_comment] at hat2
  rw [hc30] at hat2
  obtain ⟨_, hload, _⟩ := clause_at hat2
  simpa [instrCount] using hload

theorem sim2_switch {P : Program} {hooks : Bool} {prog : Prog} {Γ' : Ctx} {b : Binding}
    {ρ' : List Value} {pos : Nat} {fields : List Value} {x : Ident} {ty : Ty} {clauses : Clauses}
    {fv : FV} {cfg : Config} {c : Clause}
    (R : RelX P hooks prog ⟨Γ' ++ [b], ρ' ++ [.obj pos fields], .switch x ty clauses fv⟩ cfg)
    (hfits : Fits P)
    (hb : b.var.id = x.id) (hfresh : ∀ b' ∈ Γ', b'.var.id ≠ x.id)
    (hclause : nthClause clauses pos = some c)
    (hkinds : fields.map kindOf = Mock.kindsOf c.ctx)
    (hcap : 2 * (Γ'.length + c.ctx.length) + 2 < Mock.T_TEMP) :
    ∃ k cfg', stepsTo P k cfg cfg' ∧ cfg'.out = cfg.out ∧ cfg'.next = cfg.next ∧
      RelX P hooks prog ⟨Γ' ++ c.ctx, ρ' ++ fields, c.body⟩ cfg' := by
  obtain ⟨k0, k0', ops, hrun, hat⟩ := R.code
  have hlen : ρ'.length = Γ'.length := by have := R.len; simpa using this
  -- the scrutinee position
  have hn1 : Γ'.length < (Γ' ++ [b]).length := by simp
  have hn2 : Γ'.length < (ρ' ++ [Value.obj pos fields]).length := by simp [hlen]
  obtain ⟨hrep, hsome, hkind, hptr⟩ := R.vals Γ'.length hn1 hn2
  have g1 : (Γ' ++ [b])[Γ'.length] = b := by simp
  have g2 : (ρ' ++ [Value.obj pos fields])[Γ'.length] = .obj pos fields := by
    rw [List.getElem_append_right (by omega)]; simp [hlen]
  simp only [g1, g2] at hrep hkind hptr
  have hbchi : b.chi = .prd := hkind
  have hbne : b.chi ≠ .ext := by rw [hbchi]; decide
  have hbe : (b.chi == .ext) = false := (chi_beq_ext_false _).mpr hbne
  simp only [hbe, Bool.false_eq_true, if_false] at hrep
  obtain ⟨r, hr, hB, hw⟩ := hrep.obj_inv
  have hword : cfg.temps.get (2 * Γ'.length + 1) = some (BitVec.ofNat 64 pos) := by
    cases hg : cfg.temps.get (2 * Γ'.length + 1) with
    | none => simp [hg] at hsome
    | some w => simp only [hg, Option.getD_some] at hw; rw [hw]
  -- decode the code
  simp only [codeStatementR, run_bind_ok, run_pure_ok, freshLabelStr_run_ok] at hrun
  obtain ⟨num, k1, ⟨rfl, rfl⟩, c1, k2, h1, c3, k3, h3, rfl, rfl⟩ := hrun
  obtain ⟨pre, post, kb, kb', body, hc3, hbody⟩ :=
    codeClauses_nth hooks natRen prog.types _ clauses _ pos c _ _ _ h3 hclause
  have hdl : (Γ' ++ [b]).dropLast = Γ' := by simp
  rw [hdl] at hc3 hbody
  simp only [mockSym_comment, mockSym_label, List.append_assoc, CodeAt_hook] at hat
  simp only [List.cons_append, List.nil_append, CodeAt] at hat
  rw [CodeAt_append] at hat
  obtain ⟨hat1, hat2⟩ := hat
  simp only [CodeAt] at hat2
  obtain ⟨hlab, hat2⟩ := hat2
  have hposlt := nthClause_lt clauses pos c hclause
  by_cases hle : clauses.length ≤ 1
  · -- a single clause: fall through (comments and labels occupy no space)
    have hpos0 : pos = 0 := by omega
    subst hpos0
    obtain ⟨post0, kb0, kb0', body0, hc30, hbody0⟩ :=
      codeClauses_head hooks natRen prog.types _ clauses _ c _ _ _ h3 hclause
    rw [hdl] at hc30 hbody0
    simp only [hle, if_true, run_pure_ok] at h1
    obtain ⟨rfl, rfl⟩ := h1
    have hgt : ¬ (clauses.length > 1) := by omega
    simp only [hgt, if_false, List.nil_append, CodeAt, instrCount, Nat.add_zero, mockSym_comment] at hat2 hlab
    rw [hc30] at hat2
    obtain ⟨_, hload, hatb⟩ := clause_at hat2
    simp only [instrCount, Nat.add_zero] at hload hatb
    obtain ⟨cfg', hstep, hout, hnext, R'⟩ := load_enter (Γ'' := Γ') (s' := c.body)
      (cfg4 := cfg) R rfl hbne hr
      hB hkinds hcap rfl rfl rfl (fun _ _ => rfl) hload ⟨_, _, body0, hbody0, hatb⟩
    exact ⟨1, cfg', stepsTo_one P _ _ hstep, hout, hnext, R'⟩
  · -- a jump table
    have hgt : clauses.length > 1 := by omega
    simp only [hle, if_false, run_bind_ok, run_pure_ok, mockSym_variableTemporary, vt_run_ok] at h1
    obtain ⟨tt, k4, ⟨p, hp, rfl, rfl⟩, rfl, rfl⟩ := h1
    have hp' : p = Γ'.length := by
      rw [ctxPosition_eq_posOf] at hp
      have := posOf_append_fresh Γ' b (fun b' hb' => by rw [hb]; exact hfresh b' hb')
      rw [hb] at this
      rw [this] at hp
      exact (Option.some.inj hp).symm
    subst hp'
    simp only [mockSym_loadLabel, mockSym_binop, mockSym_jump, mockSym_temp, List.cons_append,
      List.nil_append, CodeAt, instrCount, TempNum.toNat] at hat1 hat2 hlab
    obtain ⟨hll, hadd, hjmp, _⟩ := hat1
    simp only [hgt, if_true] at hat2
    generalize cfg.pc + (0 + 1 + 1 + 1) = a at hlab hat2
    -- the table entry and the clause
    have htab := codeTable_nth P _ clauses pos c _ _ hclause hat2
    rw [CodeAt_append] at hat2
    obtain ⟨_, hat3⟩ := hat2
    rw [hc3] at hat3
    obtain ⟨hclab, hload, hatb⟩ := clause_at hat3
    generalize a + instrCount (codeTable mockSym clauses (mangleTy ty ++ "_" ++ natRen (k0 + 1))) +
      instrCount pre = ca at hclab hload hatb
    have hcapR := R.cap
    simp only [List.length_append, List.length_singleton] at hcapR
    -- 1: ll
    let σ1 : Temps := cfg.temps.set Mock.T_TEMP (BitVec.ofNat 64 a)
    let cfg1 : Config := { cfg with pc := cfg.pc + 1, temps := σ1 }
    have hs1 : Abs.step P cfg = .next cfg1 := step_ll_temp P cfg _ _ hll hlab
    -- 2: add
    let σ2 : Temps := σ1.set Mock.T_TEMP (BitVec.ofNat 64 a + BitVec.ofNat 64 pos)
    let cfg2 : Config := { cfg1 with pc := cfg.pc + 1 + 1, temps := σ2 }
    have hs2 : Abs.step P cfg1 = .next cfg2 :=
      step_binop_temp P cfg1 BinOp.sum (2 * Γ'.length + 1) (BitVec.ofNat 64 a) (BitVec.ofNat 64 pos) _
        hadd (get_set_same _ _ _) (by
          show σ1.get (2 * Γ'.length + 1) = _
          rw [get_set_other _ _ (by omega)]; exact hword) rfl
    -- 3: jump
    have haddr : (BitVec.ofNat 64 a + BitVec.ofNat 64 pos).toNat = a + pos := by
      apply toNat_add_ofNat
      have := code_lt_size htab
      unfold Fits at hfits
      omega
    let cfg3 : Config := { cfg2 with pc := a + pos, temps := clobberTemp σ2 }
    have hs3 : Abs.step P cfg2 = .next cfg3 := by
      have := step_jump P cfg2 Mock.T_TEMP _ hjmp (get_set_same _ _ _)
      rw [haddr] at this
      exact this
    -- 4: the table entry
    let cfg4 : Config := { cfg3 with pc := ca, temps := clobberTemp (clobberTemp σ2) }
    have hs4 : Abs.step P cfg3 = .next cfg4 := step_jumpFixed P cfg3 _ _ htab hclab
    -- 5: the load
    obtain ⟨cfg', hstep, hout, hnext, R'⟩ := load_enter (Γ'' := Γ') (s' := c.body) (cfg4 := cfg4)
      R rfl hbne hr hB hkinds hcap rfl rfl rfl
      (fun t ht => by
        show (clobberTemp (clobberTemp σ2)).get t = _
        rw [get_clobberTemp _ (by omega), get_clobberTemp _ (by omega), get_set_other _ _ (by omega),
          get_set_other _ _ (by omega)])
      hload ⟨_, _, body, hbody, hatb⟩
    exact ⟨5, cfg', ⟨cfg1, hs1, cfg2, hs2, cfg3, hs3, cfg4, hs4, stepsTo_one P _ _ hstep⟩, hout, hnext, R'⟩

/-! ## simulation: `invoke` -/

theorem kinds_of_keys {Γ Δ : Ctx} (h : Γ.keys = Δ.keys) : Γ.map (·.chi) = Δ.map (·.chi) := by
  have := congrArg (List.map (fun k : Nat × Chi × Ty => k.2.1)) h
  simpa [Ctx.keys, Binding.key, Function.comp_def] using this

theorem length_of_keys {Γ Δ : Ctx} (h : Γ.keys = Δ.keys) : Γ.length = Δ.length := by
  have := congrArg List.length h
  simpa [Ctx.keys] using this

theorem toNat_ofNat_lt {a : Nat} (h : a < 2 ^ 64) : (BitVec.ofNat 64 a).toNat = a := ofNat_toNat_lt h

theorem sim2_invoke {P : Program} {hooks : Bool} {prog : Prog} {Γa : Ctx} {b : Binding}
    {ρa : List Value} {Γc : Ctx} {ρc : List Value} {clauses : Clauses} {x tag : Ident} {ty : Ty}
    {args : Ctx} {cfg : Config} {c : Clause} {pos : Nat}
    (R : RelX P hooks prog ⟨Γa ++ [b], ρa ++ [.clo Γc ρc clauses], .invoke x tag ty args⟩ cfg)
    (hfits : Fits P)
    (hb : b.var.id = x.id) (hfresh : ∀ b' ∈ Γa, b'.var.id ≠ x.id)
    (hpos : Pos.tagPosition prog.types ty tag = .ok pos)
    (hclause : nthClause clauses pos = some c)
    (hlenc : ∀ d, lookupTypeDecl prog.types ty = some d → clauses.length = d.xtors.length)
    (hargs : Γa.map (·.chi) = c.ctx.map (·.chi))
    (hkinds : ρc.map kindOf = Mock.kindsOf Γc)
    (hcap : 2 * (c.ctx.length + Γc.length) + 2 < Mock.T_TEMP) :
    ∃ k cfg' envCtx', Ctx.keys envCtx' = Γc.keys ∧ stepsTo P k cfg cfg' ∧ cfg'.out = cfg.out ∧
      cfg'.next = cfg.next ∧ RelX P hooks prog ⟨c.ctx ++ envCtx', ρa ++ ρc, c.body⟩ cfg' := by
  obtain ⟨k0, k0', ops, hrun, hat⟩ := R.code
  have hlen : ρa.length = Γa.length := by have := R.len; simpa using this
  have hlenA : Γa.length = c.ctx.length := by simpa using congrArg List.length hargs
  -- the closure position
  have hn1 : Γa.length < (Γa ++ [b]).length := by simp
  have hn2 : Γa.length < (ρa ++ [Value.clo Γc ρc clauses]).length := by simp [hlen]
  obtain ⟨hrep, hsome, hkind, hptr⟩ := R.vals Γa.length hn1 hn2
  have g1 : (Γa ++ [b])[Γa.length] = b := by simp
  have g2 : (ρa ++ [Value.clo Γc ρc clauses])[Γa.length] = .clo Γc ρc clauses := by
    rw [List.getElem_append_right (by omega)]; simp [hlen]
  simp only [g1, g2] at hrep hkind hptr
  have hbchi : b.chi = .cns := hkind
  have hbne : b.chi ≠ .ext := by rw [hbchi]; decide
  have hbe : (b.chi == .ext) = false := (chi_beq_ext_false _).mpr hbne
  simp only [hbe, Bool.false_eq_true, if_false] at hrep
  obtain ⟨r, a, envCtx', hr, hB, hw, hkeys, hmeth⟩ := hrep.clo_inv
  have hword : cfg.temps.get (2 * Γa.length + 1) = some (BitVec.ofNat 64 a) := by
    cases hg : cfg.temps.get (2 * Γa.length + 1) with
    | none => simp [hg] at hsome
    | some w => simp only [hg, Option.getD_some] at hw; rw [hw]
  obtain ⟨base, km, km', mcode, hmrun, hmat⟩ := hmeth
  simp only [CodeAt] at hmat
  obtain ⟨_, hmat⟩ := hmat
  have hkenv : Mock.kindsOf envCtx' = Mock.kindsOf Γc := kinds_of_keys hkeys
  have hlenv : envCtx'.length = Γc.length := length_of_keys hkeys
  have hkinds' : ρc.map kindOf = Mock.kindsOf envCtx' := by rw [hkenv]; exact hkinds
  have hcap' : 2 * (Γa.length + envCtx'.length) + 2 < Mock.T_TEMP := by rw [hlenA, hlenv]; exact hcap
  have hcapR := R.cap
  simp only [List.length_append, List.length_singleton] at hcapR
  obtain ⟨d, hd, hx⟩ := tagPosition_ok hpos
  have hlc := hlenc d hd
  have hposlt := nthClause_lt clauses pos c hclause
  -- decode the code
  simp only [codeStatementR, run_bind_ok, run_pure_ok, mockSym_variableTemporary, vt_run_ok,
    lookupTypeDeclM_run_ok] at hrun
  obtain ⟨tt, k1, ⟨p, hp, rfl, rfl⟩, decl, k2, ⟨hd', rfl⟩, hrun⟩ := hrun
  rw [hd] at hd'; cases hd'
  have hp' : p = Γa.length := by
    rw [ctxPosition_eq_posOf] at hp
    have := posOf_append_fresh Γa b (fun b' hb' => by rw [hb]; exact hfresh b' hb')
    rw [hb] at this
    rw [this] at hp
    exact (Option.some.inj hp).symm
  subst hp'
  by_cases hle : d.xtors.length ≤ 1
  · -- a single method: jump to it directly
    have hpos0 : pos = 0 := by omega
    subst hpos0
    simp only [hle, if_true, run_pure_ok] at hrun
    obtain ⟨rfl, rfl⟩ := hrun
    simp only [mockSym_comment, mockSym_jump, List.append_assoc, CodeAt_hook] at hat
    simp only [List.cons_append, List.nil_append, CodeAt, TempNum.toNat] at hat
    obtain ⟨hjmp, _⟩ := hat
    have hgt : ¬ (clauses.length > 1) := by omega
    simp only [hgt, if_false, List.nil_append] at hmat
    obtain ⟨post0, kb0, kb0', body0, hc0, hbody0⟩ :=
      codeMethods_head hooks natRen prog.types _ clauses _ c _ _ _ hmrun hclause
    rw [hc0] at hmat
    obtain ⟨_, hload, hatb⟩ := clause_at hmat
    simp only [instrCount, Nat.add_zero] at hload hatb
    have ha : (BitVec.ofNat 64 a).toNat = a := by
      apply toNat_ofNat_lt
      have := code_lt_size hload
      unfold Fits at hfits
      omega
    let cfg1 : Config := { cfg with pc := a, temps := clobberTemp cfg.temps }
    have hs1 : Abs.step P cfg = .next cfg1 := by
      have := step_jump P cfg _ _ hjmp hword
      rw [ha] at this
      exact this
    obtain ⟨cfg', hstep, hout, hnext, R'⟩ := load_enter (Γ'' := c.ctx) (Δ := envCtx') (s' := c.body)
      (cfg4 := cfg1) R hargs hbne hr hB hkinds' hcap' rfl rfl rfl
      (fun t ht => by
        show (clobberTemp cfg.temps).get t = _
        rw [get_clobberTemp _ (by omega)])
      (by rw [hlenA]; exact hload) ⟨_, _, body0, hbody0, hatb⟩
    exact ⟨2, cfg', envCtx', hkeys, ⟨cfg1, hs1, stepsTo_one P _ _ hstep⟩, hout, hnext, R'⟩
  · -- through the method table
    have hgt : clauses.length > 1 := by omega
    simp only [hle, if_false, run_bind_ok, run_pure_ok, xtorPositionM_run_ok] at hrun
    obtain ⟨pos', k3, ⟨hx', rfl⟩, rfl, rfl⟩ := hrun
    rw [hx] at hx'; cases hx'
    simp only [mockSym_addAndJump, mockSym_jumpLength, List.append_assoc, CodeAt_hook] at hat
    simp only [List.cons_append, List.nil_append, CodeAt, TempNum.toNat] at hat
    obtain ⟨hjmp, _⟩ := hat
    simp only [hgt, if_true] at hmat
    have htab := codeTable_nth P _ clauses pos c _ _ hclause hmat
    rw [CodeAt_append] at hmat
    obtain ⟨_, hmat3⟩ := hmat
    obtain ⟨pre, post, kb, kb', body, hc3, hbody⟩ :=
      codeMethods_nth hooks natRen prog.types _ clauses _ pos c _ _ _ hmrun hclause
    rw [hc3] at hmat3
    obtain ⟨hclab, hload, hatb⟩ := clause_at hmat3
    generalize a + instrCount (codeTable mockSym clauses base) + instrCount pre = ca at hclab hload hatb
    have haddr : (BitVec.ofNat 64 a + BitVec.ofInt 64 (pos : Int)).toNat = a + pos := by
      have e : BitVec.ofInt 64 (pos : Int) = BitVec.ofNat 64 pos := by simp
      rw [e]
      apply toNat_add_ofNat
      have := code_lt_size htab
      unfold Fits at hfits
      omega
    let cfg1 : Config := { cfg with pc := a + pos, temps := clobberTemp cfg.temps }
    have hs1 : Abs.step P cfg = .next cfg1 := by
      have := step_addJump P cfg _ _ _ hjmp hword
      rw [haddr] at this
      exact this
    let cfg2 : Config := { cfg1 with pc := ca, temps := clobberTemp (clobberTemp cfg.temps) }
    have hs2 : Abs.step P cfg1 = .next cfg2 := step_jumpFixed P cfg1 _ _ htab hclab
    obtain ⟨cfg', hstep, hout, hnext, R'⟩ := load_enter (Γ'' := c.ctx) (Δ := envCtx') (s' := c.body)
      (cfg4 := cfg2) R hargs hbne hr hB hkinds' hcap' rfl rfl rfl
      (fun t ht => by
        show (clobberTemp (clobberTemp cfg.temps)).get t = _
        rw [get_clobberTemp _ (by omega), get_clobberTemp _ (by omega)])
      (by rw [hlenA]; exact hload) ⟨_, _, body, hbody, hatb⟩
    exact ⟨3, cfg', envCtx', hkeys, ⟨cfg1, hs1, cfg2, hs2, stepsTo_one P _ _ hstep⟩, hout, hnext, R'⟩

end Scc.Backend.Sim2
