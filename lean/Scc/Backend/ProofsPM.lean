/-
  Scc.Backend.ProofsPM — the generic `parallelMoves` of Generic.lean, instantiated with the mock
  backend, IS the parallel-move model of Scc/PMoves/Model.lean (the one whose correctness is proved in
  Scc/PMoves/Proofs.lean): same forest, same instruction sequence, same fuel.  Then the correctness
  theorem `parallelMovesFuel_correct` is transported to the abstract backend machine: running the
  emitted `mov`/`save`/`restore` instructions performs the simultaneous assignment.
  Proof file.
-/
import Scc.Backend.ProofsSim
import Scc.PMoves.Proofs

set_option linter.unusedSimpArgs false
set_option linter.unusedVariables false

namespace Scc.Backend.PM

open Scc.AxCut Scc.Backend Scc.Backend.Abs Scc.Backend.Sim

mutual
  def convTree : Tree Nat → PMoves.Tree
    | .backEdge => .backEdge
    | .node t kids => .node t (convTrees kids)
  def convTrees : List (Tree Nat) → List PMoves.Tree
    | [] => []
    | k :: ks => convTree k :: convTrees ks
end

def convRoot : Root Nat → PMoves.Root
  | .startNode t kids => .startNode t (convTrees kids)

def aopToMock : PMoves.AOp → MockOp
  | .mov t s => .mov t s
  | .save s sp => .save s sp
  | .restore t sp => .restore t sp
  | .comment m => .comment m

def toOpt {α β : Type} (g : α → β) : Except String α → Option β
  | .ok a => some (g a)
  | .error _ => none

theorem convTrees_eq_map (l : List (Tree Nat)) : convTrees l = l.map convTree := by
  induction l with
  | nil => rfl
  | cons k ks ih => simp [convTrees, ih]

theorem mapLookup_eq (pm : List (Nat × List Nat)) (k : Nat) :
    mapLookup mockSym pm k = PMoves.mapLookup pm k := by
  unfold mapLookup
  induction pm with
  | nil => rfl
  | cons e rest ih =>
    obtain ⟨k', v⟩ := e
    simp only [List.find?_cons, mockSym_tempEq, PMoves.mapLookup]
    by_cases h : k' = k
    · subst h; simp
    · have h1 : (k == k') = false := by simp [Ne.symm h]
      have h2 : (k' == k) = false := by simp [h]
      simp only [h1, h2, Bool.false_eq_true, if_false]
      exact ih

theorem optMap_mapExcept {α β β' : Type} (g : β → β') (fe : α → Except String β) (fo : α → Option β')
    (h : ∀ a, fo a = toOpt g (fe a)) : ∀ (l : List α),
    PMoves.optMap fo l = toOpt (List.map g) (mapExcept fe l)
  | [] => rfl
  | a :: as => by
    simp only [PMoves.optMap, mapExcept, h a]
    cases fe a with
    | error e => rfl
    | ok b =>
      simp only [toOpt]
      rw [optMap_mapExcept g fe fo h as]
      cases mapExcept fe as with
      | error e => rfl
      | ok bs => rfl

theorem spanningTree_eq (pm : List (Nat × List Nat)) (root : Nat) : ∀ (fuel node : Nat),
    PMoves.spanningTree fuel pm root node = toOpt convTree (spanningTree mockSym pm root fuel node)
  | 0, _ => rfl
  | fuel + 1, node => by
    simp only [PMoves.spanningTree, spanningTree, mockSym_tempEq, mapLookup_eq]
    by_cases h : root = node
    · subst h; simp [toOpt, convTree]
    · have h1 : (root == node) = false := by simp [h]
      simp only [h1, Bool.false_eq_true, if_false]
      cases PMoves.mapLookup pm node with
      | none => simp [toOpt, convTree, convTrees]
      | some targets =>
        simp only
        rw [optMap_mapExcept convTree _ _ (spanningTree_eq pm root fuel) targets]
        cases mapExcept (spanningTree mockSym pm root fuel) targets with
        | error e => rfl
        | ok kids => simp [toOpt, convTree, convTrees_eq_map]

mutual
theorem nodes_eq : ∀ (t : Tree Nat), (convTree t).nodes = Tree.nodes t
  | .backEdge => rfl
  | .node t kids => by simp [convTree, PMoves.Tree.nodes, Tree.nodes, nodesList_eq kids]
theorem nodesList_eq : ∀ (l : List (Tree Nat)), PMoves.nodesList (convTrees l) = Tree.nodesList l
  | [] => rfl
  | k :: ks => by simp [convTrees, PMoves.nodesList, Tree.nodesList, nodes_eq k, nodesList_eq ks]
end

mutual
theorem refersBack_eq : ∀ (t : Tree Nat), (convTree t).refersBack = Tree.refersBack t
  | .backEdge => rfl
  | .node t kids => by simp [convTree, PMoves.Tree.refersBack, Tree.refersBack, anyRefersBack_eq kids]
theorem anyRefersBack_eq : ∀ (l : List (Tree Nat)),
    PMoves.anyRefersBack (convTrees l) = Tree.anyRefersBack l
  | [] => rfl
  | k :: ks => by
    simp [convTrees, PMoves.anyRefersBack, Tree.anyRefersBack, refersBack_eq k, anyRefersBack_eq ks]
end

theorem visitedBy_eq (r : Root Nat) : (convRoot r).visitedBy = Root.visitedBy r := by
  cases r with
  | startNode t kids =>
    simp [convRoot, PMoves.Root.visitedBy, Root.visitedBy, anyRefersBack_eq, nodesList_eq]

theorem memT_eq (t : Nat) : ∀ (del : List Nat), memT mockSym t del = del.contains t
  | [] => rfl
  | d :: ds => by
    have ih := memT_eq t ds
    unfold memT at ih ⊢
    simp only [List.any_cons, List.contains_cons, ih, mockSym_tempEq]

theorem deleteTargets_eq (del : List Nat) (pm : List (Nat × List Nat)) :
    deleteTargets mockSym del pm = PMoves.deleteTargets del pm := by
  unfold deleteTargets PMoves.deleteTargets
  apply List.map_congr_left
  intro kv _
  obtain ⟨k, ts⟩ := kv
  simp only [memT_eq]

def toRes {α β : Type} (g : α → β) : Except String α → PMoves.Res β → Prop
  | .ok a, .ok b => b = g a
  | .error _, .outOfFuel => True
  | .error _, .missingKey => True
  | _, _ => False

theorem forest_eq (fuel : Nat) : ∀ (keys : List Nat) (pm : List (Nat × List Nat)),
    toRes (List.map convRoot) (spanningForestLoop mockSym fuel keys pm)
      (PMoves.spanningForestGo fuel keys pm)
  | [], pm => by simp [spanningForestLoop, PMoves.spanningForestGo, toRes]
  | t :: keys, pm => by
    simp only [spanningForestLoop, PMoves.spanningForestGo, mapLookup_eq, mockSym_tempEq]
    cases PMoves.mapLookup pm t with
    | none => simp [toRes]
    | some ts =>
      simp only
      rw [optMap_mapExcept convTree _ _ (spanningTree_eq pm t fuel)]
      cases hk : mapExcept (spanningTree mockSym pm t fuel) (List.filter (fun x => !(x == t)) ts) with
      | error e => simp [toOpt, toRes]
      | ok kids =>
        simp only [toOpt]
        have hv : (PMoves.Root.startNode t (List.map convTree kids)).visitedBy =
            Root.visitedBy (Root.startNode t kids) := by
          rw [← convTrees_eq_map]; exact visitedBy_eq (Root.startNode t kids)
        rw [hv, ← deleteTargets_eq]
        have ih := forest_eq fuel keys (deleteTargets mockSym (Root.visitedBy (Root.startNode t kids)) pm)
        cases h1 : spanningForestLoop mockSym fuel keys
            (deleteTargets mockSym (Root.visitedBy (Root.startNode t kids)) pm) with
        | error e =>
          rw [h1] at ih
          cases h2 : PMoves.spanningForestGo fuel keys
              (deleteTargets mockSym (Root.visitedBy (Root.startNode t kids)) pm) with
          | ok r => rw [h2] at ih; simp [toRes] at ih
          | outOfFuel => simp [toRes]
          | missingKey => simp [toRes]
        | ok roots =>
          rw [h1] at ih
          cases h2 : PMoves.spanningForestGo fuel keys
              (deleteTargets mockSym (Root.visitedBy (Root.startNode t kids)) pm) with
          | ok r =>
            rw [h2] at ih
            simp only [toRes] at ih
            simp [toRes, ih, convRoot, convTrees_eq_map]
          | outOfFuel => rw [h2] at ih; simp [toRes] at ih
          | missingKey => rw [h2] at ih; simp [toRes] at ih


mutual
theorem treeMoves_eq (t : Nat) (sp : Bool) : ∀ (tr : Tree Nat),
    treeMoves mockSym t sp tr = (PMoves.treeMoves t (convTree tr) sp).map aopToMock
  | .backEdge => rfl
  | .node target kids => by
    simp [treeMoves, convTree, PMoves.treeMoves, treeMovesList_eq target sp kids, aopToMock]
theorem treeMovesList_eq (t : Nat) (sp : Bool) : ∀ (trs : List (Tree Nat)),
    treeMovesList mockSym t sp trs = (PMoves.forestMoves t (convTrees trs) sp).map aopToMock
  | [] => rfl
  | k :: ks => by
    simp [treeMovesList, convTrees, PMoves.forestMoves, treeMoves_eq t sp k, treeMovesList_eq t sp ks]
end

theorem rootMoves_eq (r : Root Nat) :
    rootMoves mockSym r = (PMoves.rootMoves (fun _ => false) (convRoot r)).map aopToMock := by
  cases r with
  | startNode t kids =>
    simp only [rootMoves, convRoot, PMoves.rootMoves, mockSym_containsSpillEdge, treeMovesList_eq,
      List.map_append, anyRefersBack_eq]
    split <;> simp [aopToMock]

theorem noTargets_eq (r : Root Nat) : Root.noTargets r = (convRoot r).trees.isEmpty := by
  cases r with
  | startNode t kids => cases kids <;> rfl

theorem forestCode_eq (forest : List (Root Nat)) :
    (if !forest.all Root.noTargets then [mockSym.comment "#move variables"] else []) ++
        (forest.map (rootMoves mockSym)).flatten =
      (PMoves.forestCode (fun _ => false) (forest.map convRoot)).map aopToMock := by
  unfold PMoves.forestCode
  have h1 : (forest.map convRoot).all (fun r => r.trees.isEmpty) = forest.all Root.noTargets := by
    induction forest with
    | nil => rfl
    | cons r rs ih => simp [List.all_cons, noTargets_eq r, ih]
  rw [h1]
  simp only [List.map_append, List.flatMap, List.map_flatten, List.map_map]
  congr 1
  · split <;> simp [aopToMock]
  · congr 1
    apply List.map_congr_left
    intro r _
    exact rootMoves_eq r

theorem allNodes_eq (pm : List (Nat × List Nat)) : allNodes mockSym pm = PMoves.allNodes pm := rfl

/-- the generic `parallelMoves` with the mock backend is the PMoves model -/
theorem parallelMoves_eq (pm : List (Nat × List Nat)) (aops : List PMoves.AOp)
    (h : PMoves.parallelMoves pm (fun _ => false) = .ok aops) :
    parallelMoves mockSym pm = .ok (aops.map aopToMock) := by
  unfold PMoves.parallelMoves PMoves.parallelMovesFuel PMoves.spanningForest PMoves.fuelFor at h
  unfold parallelMoves spanningForest
  rw [allNodes_eq]
  have hf := forest_eq ((PMoves.allNodes pm).length + 1) (pm.map (·.1)) pm
  cases h1 : spanningForestLoop mockSym ((PMoves.allNodes pm).length + 1) (pm.map (·.1)) pm with
  | error e =>
    rw [h1] at hf
    cases h2 : PMoves.spanningForestGo ((PMoves.allNodes pm).length + 1) (pm.map (·.1)) pm with
    | ok r => rw [h2] at hf; simp [toRes] at hf
    | outOfFuel => rw [h2] at h; simp at h
    | missingKey => rw [h2] at h; simp at h
  | ok forest =>
    rw [h1] at hf
    cases h2 : PMoves.spanningForestGo ((PMoves.allNodes pm).length + 1) (pm.map (·.1)) pm with
    | ok r =>
      rw [h2] at hf h
      simp only [toRes] at hf
      subst hf
      simp only [PMoves.Res.ok.injEq] at h
      subst h
      simp only
      rw [forestCode_eq]
    | outOfFuel => rw [h2] at hf; simp [toRes] at hf
    | missingKey => rw [h2] at hf; simp [toRes] at hf


/-! ## which temporaries the move code mentions -/

def opTemps : MockOp → List Nat
  | .mov t s => [t, s]
  | .save t _ => [t]
  | .restore t _ => [t]
  | _ => []

def codeTemps (code : List MockOp) : List Nat := code.flatMap opTemps

@[simp] theorem codeTemps_nil : codeTemps [] = [] := rfl
@[simp] theorem codeTemps_append (a b : List MockOp) : codeTemps (a ++ b) = codeTemps a ++ codeTemps b := by
  simp [codeTemps]
@[simp] theorem codeTemps_cons (op : MockOp) (a : List MockOp) :
    codeTemps (op :: a) = opTemps op ++ codeTemps a := by simp [codeTemps]

mutual
theorem treeMoves_temps (t : Nat) (sp : Bool) : ∀ (tr : Tree Nat),
    ∀ x ∈ codeTemps (treeMoves mockSym t sp tr), x = t ∨ x ∈ Tree.nodes tr
  | .backEdge => by
    intro x hx
    simp [treeMoves, opTemps] at hx
    exact Or.inl hx
  | .node target kids => by
    intro x hx
    simp only [treeMoves, codeTemps_append, List.mem_append, mockSym_mov, codeTemps_cons, opTemps,
      codeTemps_nil, List.append_nil, List.mem_cons, List.not_mem_nil, or_false] at hx
    simp only [Tree.nodes, List.mem_cons]
    rcases hx with hx | hx | hx
    · rcases treeMovesList_temps target sp kids x hx with h | h
      · exact Or.inr (Or.inl h)
      · exact Or.inr (Or.inr h)
    · exact Or.inr (Or.inl hx)
    · exact Or.inl hx
theorem treeMovesList_temps (t : Nat) (sp : Bool) : ∀ (trs : List (Tree Nat)),
    ∀ x ∈ codeTemps (treeMovesList mockSym t sp trs), x = t ∨ x ∈ Tree.nodesList trs
  | [] => by intro x hx; simp [treeMovesList] at hx
  | k :: ks => by
    intro x hx
    simp only [treeMovesList, codeTemps_append, List.mem_append] at hx
    simp only [Tree.nodesList, List.mem_append]
    rcases hx with hx | hx
    · rcases treeMoves_temps t sp k x hx with h | h
      · exact Or.inl h
      · exact Or.inr (Or.inl h)
    · rcases treeMovesList_temps t sp ks x hx with h | h
      · exact Or.inl h
      · exact Or.inr (Or.inr h)
end

def allTargets (pm : List (Nat × List Nat)) : List Nat := pm.flatMap (·.2)

theorem mapLookup_mem {pm : List (Nat × List Nat)} {k : Nat} {ts : List Nat}
    (h : mapLookup mockSym pm k = some ts) : ∀ t ∈ ts, t ∈ allTargets pm := by
  unfold mapLookup at h
  simp only [mockSym_tempEq] at h
  cases hf : pm.find? (fun e => k == e.1) with
  | none => simp [hf] at h
  | some e =>
    simp only [hf, Option.some.injEq] at h
    subst h
    intro t ht
    unfold allTargets
    exact List.mem_flatMap.mpr ⟨e, List.mem_of_find?_eq_some hf, ht⟩

theorem mapExcept_ok_mem {α β : Type} {f : α → Except String β} : ∀ {l : List α} {r : List β},
    mapExcept f l = .ok r → ∀ b ∈ r, ∃ a ∈ l, f a = .ok b
  | [], r, h => by simp [mapExcept] at h; subst h; simp
  | a :: as, r, h => by
    simp only [mapExcept] at h
    cases ha : f a with
    | error e => simp [ha] at h
    | ok b0 =>
      simp only [ha] at h
      cases hr : mapExcept f as with
      | error e => simp [hr] at h
      | ok bs =>
        simp only [hr, Except.ok.injEq] at h
        subst h
        intro b hb
        simp only [List.mem_cons] at hb
        rcases hb with rfl | hb
        · exact ⟨a, by simp, ha⟩
        · obtain ⟨a', ha', hfa⟩ := mapExcept_ok_mem hr b hb
          exact ⟨a', by simp [ha'], hfa⟩

theorem nodesList_mem {l : List (Tree Nat)} {x : Nat} (h : x ∈ Tree.nodesList l) :
    ∃ k ∈ l, x ∈ Tree.nodes k := by
  induction l with
  | nil => simp [Tree.nodesList] at h
  | cons k ks ih =>
    simp only [Tree.nodesList, List.mem_append] at h
    rcases h with h | h
    · exact ⟨k, by simp, h⟩
    · obtain ⟨k', hk', hx⟩ := ih h
      exact ⟨k', by simp [hk'], hx⟩

theorem spanningTree_nodes (pm : List (Nat × List Nat)) (root : Nat) : ∀ (fuel node : Nat) (tr : Tree Nat),
    spanningTree mockSym pm root fuel node = .ok tr →
    ∀ x ∈ Tree.nodes tr, x = node ∨ x ∈ allTargets pm
  | 0, _, _, h => by simp [spanningTree] at h
  | fuel + 1, node, tr, h => by
    simp only [spanningTree] at h
    split at h
    · cases h; intro x hx; simp [Tree.nodes] at hx
    · cases hl : mapLookup mockSym pm node with
      | none =>
        simp only [hl, Except.ok.injEq] at h
        subst h
        intro x hx
        simp [Tree.nodes, Tree.nodesList] at hx
        exact Or.inl hx
      | some targets =>
        simp only [hl] at h
        cases hm : mapExcept (spanningTree mockSym pm root fuel) targets with
        | error e => simp [hm] at h
        | ok kids =>
          simp only [hm, Except.ok.injEq] at h
          subst h
          intro x hx
          simp only [Tree.nodes, List.mem_cons] at hx
          rcases hx with hx | hx
          · exact Or.inl hx
          · obtain ⟨k, hk, hxk⟩ := nodesList_mem hx
            obtain ⟨a, ha, hfa⟩ := mapExcept_ok_mem hm k hk
            rcases spanningTree_nodes pm root fuel a k hfa x hxk with h1 | h1
            · subst h1; exact Or.inr (mapLookup_mem hl _ ha)
            · exact Or.inr h1

theorem allTargets_deleteTargets (del : List Nat) (pm : List (Nat × List Nat)) :
    ∀ x ∈ allTargets (deleteTargets mockSym del pm), x ∈ allTargets pm := by
  intro x hx
  unfold allTargets deleteTargets at *
  simp only [List.mem_flatMap, List.mem_map] at hx ⊢
  obtain ⟨e, ⟨e0, he0, rfl⟩, hx⟩ := hx
  exact ⟨e0, he0, (List.mem_filter.mp hx).1⟩

theorem forest_temps (fuel : Nat) : ∀ (keys : List Nat) (pm : List (Nat × List Nat)) (roots : List (Root Nat)),
    spanningForestLoop mockSym fuel keys pm = .ok roots →
    ∀ x ∈ codeTemps ((roots.map (rootMoves mockSym)).flatten), x ∈ keys ∨ x ∈ allTargets pm
  | [], pm, roots, h => by
    simp [spanningForestLoop] at h; subst h; simp
  | t :: keys, pm, roots, h => by
    simp only [spanningForestLoop] at h
    cases hl : mapLookup mockSym pm t with
    | none => simp [hl] at h
    | some ts =>
      simp only [hl] at h
      simp only [mockSym_tempEq] at h
      cases hm : mapExcept (spanningTree mockSym pm t fuel) (ts.filter fun x => !(x == t)) with
      | error e => simp [hm] at h
      | ok kids =>
        simp only [hm] at h
        cases hr : spanningForestLoop mockSym fuel keys
            (deleteTargets mockSym (Root.visitedBy (Root.startNode t kids)) pm) with
        | error e => simp [hr] at h
        | ok rest =>
          simp only [hr, Except.ok.injEq] at h
          subst h
          intro x hx
          simp only [List.map_cons, List.flatten_cons, codeTemps_append, List.mem_append] at hx
          rcases hx with hx | hx
          · -- the root's own moves
            simp only [rootMoves, codeTemps_append, List.mem_append] at hx
            have hroot : x = t ∨ x ∈ Tree.nodesList kids := by
              rcases hx with hx | hx
              · exact treeMovesList_temps t _ kids x hx
              · split at hx
                · simp [opTemps] at hx; exact Or.inl hx
                · simp at hx
            rcases hroot with rfl | hxk
            · exact Or.inl (by simp)
            · obtain ⟨k, hk, hxk'⟩ := nodesList_mem hxk
              obtain ⟨a, ha, hfa⟩ := mapExcept_ok_mem hm k hk
              rcases spanningTree_nodes pm t fuel a k hfa x hxk' with h1 | h1
              · subst h1
                exact Or.inr (mapLookup_mem hl _ (List.mem_filter.mp ha).1)
              · exact Or.inr h1
          · rcases forest_temps fuel keys _ rest hr x hx with h1 | h1
            · exact Or.inl (by simp [h1])
            · exact Or.inr (allTargets_deleteTargets _ _ x h1)

/-- the instructions of `parallelMoves` mention only keys and targets of the map -/
theorem parallelMoves_temps (pm : List (Nat × List Nat)) (code : List MockOp)
    (h : parallelMoves mockSym pm = .ok code) :
    ∀ x ∈ codeTemps code, x ∈ pm.map (·.1) ∨ x ∈ allTargets pm := by
  unfold parallelMoves spanningForest at h
  cases hf : spanningForestLoop mockSym ((allNodes mockSym pm).length + 1) (pm.map (·.1)) pm with
  | error e => simp [hf] at h
  | ok forest =>
    simp only [hf, Except.ok.injEq] at h
    subst h
    intro x hx
    simp only [codeTemps_append, List.mem_append] at hx
    rcases hx with hx | hx
    · split at hx <;> simp [opTemps] at hx
    · exact forest_temps _ _ _ _ hf x hx


/-! ## running the move code on the abstract machine -/

theorem get_put_same (σ : Temps) (t : Nat) (v : Option Word) : (σ.put t v).get t = v := by
  cases v with
  | none => exact get_unset_same σ t
  | some w => exact get_set_same σ t w

theorem get_put_other (σ : Temps) {t t' : Nat} (v : Option Word) (h : t' ≠ t) :
    (σ.put t v).get t' = σ.get t' := by
  cases v with
  | none => exact get_unset_other σ h
  | some w => exact get_set_other σ w h

/-- the machine's temporaries agree with an abstract store, except possibly at `TEMP` -/
def Agrees (σ : Temps) (f : Nat → Option Word) : Prop := ∀ t, t ≠ Mock.T_TEMP → σ.get t = f t

theorem run_moves (P : Program) : ∀ (aops : List PMoves.AOp) (cfg : Config) (f : Nat → Option Word)
    (sc : Option Word),
    CodeAt P cfg.pc (aops.map aopToMock) →
    (∀ x ∈ codeTemps (aops.map aopToMock), x ≠ Mock.T_TEMP) →
    Agrees cfg.temps f → cfg.scratch = sc →
    ∃ cfg', stepsTo P (instrCount (aops.map aopToMock)) cfg cfg' ∧
      cfg'.pc = cfg.pc + instrCount (aops.map aopToMock) ∧ cfg'.heap = cfg.heap ∧
      cfg'.next = cfg.next ∧ cfg'.out = cfg.out ∧
      Agrees cfg'.temps (PMoves.run aops (f, sc)).1 ∧ cfg'.scratch = (PMoves.run aops (f, sc)).2
  | [], cfg, f, sc, _, _, hag, hsc => ⟨cfg, rfl, rfl, rfl, rfl, rfl, hag, hsc⟩
  | op :: rest, cfg, f, sc, hat, hne, hag, hsc => by
    cases op with
    | comment m =>
      simp only [List.map_cons, aopToMock, CodeAt, instrCount, codeTemps_cons, opTemps,
        List.nil_append] at hat hne ⊢
      exact run_moves P rest cfg f sc hat hne hag hsc
    | mov t s =>
      simp only [List.map_cons, aopToMock, CodeAt, instrCount, codeTemps_cons, opTemps] at hat hne ⊢
      obtain ⟨hcode, hat'⟩ := hat
      have ht : t ≠ Mock.T_TEMP := hne t (by simp)
      have hs : s ≠ Mock.T_TEMP := hne s (by simp)
      have hb : (t == Abs.T_TEMP) = false := by simp [Abs.T_TEMP, ht]
      have hstep : Abs.step P cfg =
          .next { cfg with pc := cfg.pc + 1, temps := Temps.put (clobberTemp cfg.temps) t (cfg.temps.get s) } := by
        simp [Abs.step, hcode, hb]
      have hag' : Agrees ((clobberTemp cfg.temps).put t (cfg.temps.get s)) (PMoves.upd f t (f s)) := by
        intro x hx
        unfold PMoves.upd
        by_cases hxt : x = t
        · subst hxt; rw [get_put_same, hag s hs]; simp
        · rw [get_put_other _ _ hxt, get_clobberTemp _ hx, hag x hx]; simp [hxt]
      obtain ⟨cfg', h1, h2, h3, h4, h5, h6, h7⟩ := run_moves P rest
        { cfg with pc := cfg.pc + 1, temps := Temps.put (clobberTemp cfg.temps) t (cfg.temps.get s) }
        (PMoves.upd f t (f s)) sc hat' (fun x hx => hne x (by simp [hx])) hag' hsc
      refine ⟨cfg', ?_, ?_, h3, h4, h5, ?_, ?_⟩
      · rw [Nat.add_comm]; exact stepsTo_trans P 1 _ _ _ _ (stepsTo_one P _ _ hstep) h1
      · rw [h2]; simp only; omega
      · simpa [PMoves.run, PMoves.step] using h6
      · simpa [PMoves.run, PMoves.step] using h7
    | save s sp =>
      simp only [List.map_cons, aopToMock, CodeAt, instrCount, codeTemps_cons, opTemps] at hat hne ⊢
      obtain ⟨hcode, hat'⟩ := hat
      have hs : s ≠ Mock.T_TEMP := hne s (by simp)
      have hstep : Abs.step P cfg =
          .next { cfg with pc := cfg.pc + 1, temps := clobberTemp cfg.temps, scratch := cfg.temps.get s } := by
        simp [Abs.step, hcode]
      have hag' : Agrees (clobberTemp cfg.temps) f := by
        intro x hx; rw [get_clobberTemp _ hx, hag x hx]
      obtain ⟨cfg', h1, h2, h3, h4, h5, h6, h7⟩ := run_moves P rest
        { cfg with pc := cfg.pc + 1, temps := clobberTemp cfg.temps, scratch := cfg.temps.get s }
        f (f s) hat' (fun x hx => hne x (by simp [hx])) hag' (hag s hs)
      refine ⟨cfg', ?_, ?_, h3, h4, h5, ?_, ?_⟩
      · rw [Nat.add_comm]; exact stepsTo_trans P 1 _ _ _ _ (stepsTo_one P _ _ hstep) h1
      · rw [h2]; simp only; omega
      · simpa [PMoves.run, PMoves.step] using h6
      · simpa [PMoves.run, PMoves.step] using h7
    | restore t sp =>
      simp only [List.map_cons, aopToMock, CodeAt, instrCount, codeTemps_cons, opTemps] at hat hne ⊢
      obtain ⟨hcode, hat'⟩ := hat
      have ht : t ≠ Mock.T_TEMP := hne t (by simp)
      have hb : (t == Abs.T_TEMP) = false := by simp [Abs.T_TEMP, ht]
      have hstep : Abs.step P cfg =
          .next { cfg with pc := cfg.pc + 1, temps := Temps.put (clobberTemp cfg.temps) t cfg.scratch } := by
        simp [Abs.step, hcode, hb]
      have hag' : Agrees ((clobberTemp cfg.temps).put t cfg.scratch) (PMoves.upd f t sc) := by
        intro x hx
        unfold PMoves.upd
        by_cases hxt : x = t
        · subst hxt; rw [get_put_same, hsc]; simp
        · rw [get_put_other _ _ hxt, get_clobberTemp _ hx, hag x hx]; simp [hxt]
      obtain ⟨cfg', h1, h2, h3, h4, h5, h6, h7⟩ := run_moves P rest
        { cfg with pc := cfg.pc + 1, temps := Temps.put (clobberTemp cfg.temps) t cfg.scratch }
        (PMoves.upd f t sc) sc hat' (fun x hx => hne x (by simp [hx])) hag' hsc
      refine ⟨cfg', ?_, ?_, h3, h4, h5, ?_, ?_⟩
      · rw [Nat.add_comm]; exact stepsTo_trans P 1 _ _ _ _ (stepsTo_one P _ _ hstep) h1
      · rw [h2]; simp only; omega
      · simpa [PMoves.run, PMoves.step] using h6
      · simpa [PMoves.run, PMoves.step] using h7

end Scc.Backend.PM
