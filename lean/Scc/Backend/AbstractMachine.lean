/-
  Scc.Backend.AbstractMachine — SPEC: a small-step machine executing the abstract instructions of
  the mock backend (`MockOp`, Mock.lean / harness mock.rs).  It fixes the CONTRACT that every
  backend method has towards the generic code generator (Theorem A is proved against this machine,
  Theorem B relates a concrete backend to it).   Core imports only; executable; total (fuel).

  * Words are `BitVec 64`.  Temporaries are natural numbers (position i owns `2i` = pointer part and
    `2i+1` = word part; the special temporaries are TEMP, HEAP, FREE, RET1, RET2 of mock.rs);
    a temporary is DEFINED (has a word) or UNDEFINED; reading an undefined temporary is `stuck`.
  * Code addresses: comments and labels occupy no space, every other instruction has size 1
    (so a `jumpfixed` table entry has size 1 = `jumpLength 1`); a label denotes the address of the
    next instruction; `ll t name` loads that address, `jump t` / `addjump t i` go to the address
    `value t (+ i)`.  `jumplabel cleanup` ends the run with the value of RET1 as result.
  * Abstract heap: objects `id ↦ (count, fields)`; ids are never reused; the reference to object
    `id` is the word `id` (ids start at 1), `0` is the null reference.  `count` is the number of
    ADDITIONAL references (0 = unique), as in the real memory layout.
      - `store kinds n`: the fields are the positions `n, n+1, …` (|kinds| of them): an `ext` field
        holds the word part, other fields pointer and word part.  No field: temporary `2n := 0`
        ("no allocation").  Otherwise a fresh object with count 0 is allocated and `2n := ref`.
        The temporaries of the stored positions become undefined (they are consumed).
      - `load kinds n`: no field: nothing.  Otherwise temporary `2n` must hold a live reference to
        an object with exactly these field kinds; the fields are unpacked into positions `n, …`.
        count = 0: the object is freed (fields move out); otherwise the count is decremented and
        every non-null pointer field is shared once more.
      - `share t k`: null: nothing; else count += k.  `erase t`: null: nothing; count > 0: count −= 1;
        count = 0: the object is freed and its non-null pointer fields are erased in turn.
        The erased temporary becomes undefined.
  * `print nl s kinds`: appends `(nl, value s)` to the trace; only the temporaries of the
    |kinds| context positions survive (every other temporary becomes undefined).
  * `save t _` copies `t` into a scratch cell, `restore t _` copies it back (parallel_moves.rs).
  * `mov`, `save`, `restore` COPY a temporary including its definedness (copying an undefined
    temporary is not an error, the target becomes undefined); every other read of an undefined
    temporary is `stuck`.
  * TEMP is scratch: every instruction that does not have TEMP as its target leaves it undefined.
  * Division: signed; divisor 0 is `stuck div-by-zero`; MIN / −1 is `stuck div-overflow`.
-/
import Scc.Backend.Mock

namespace Scc.Backend.Abs

open Scc.AxCut Scc.Backend

abbrev Word := BitVec 64

structure Field where
  chi : Chi
  /-- pointer part (0 for `ext` fields) -/
  ptr : Word
  val : Word
  deriving Repr, DecidableEq, Inhabited

structure Obj where
  count : Nat
  fields : List Field
  deriving Repr, DecidableEq, Inhabited

/-- a laid-out program: the instructions (without comments and labels) and the label addresses -/
structure Program where
  code : Array MockOp
  labels : List (String × Nat)

/-- instructions and label table; `a` = address of the next instruction -/
def layout : List MockOp → Nat → List MockOp × List (String × Nat)
  | [], _ => ([], [])
  | .comment _ :: rest, a => layout rest a
  | .label name :: rest, a =>
    let r := layout rest a
    (r.1, (name, a) :: r.2)
  | op :: rest, a =>
    let r := layout rest (a + 1)
    (op :: r.1, r.2)

def Program.ofOps (ops : List MockOp) : Program :=
  let r := layout ops 0
  ⟨r.1.toArray, r.2⟩

def lookupLabel (labels : List (String × Nat)) (name : String) : Option Nat :=
  match labels.find? (fun e => e.1 == name) with
  | some e => some e.2
  | none => none

def Program.labelAddr (p : Program) (name : String) : Option Nat := lookupLabel p.labels name

/-- first label that is defined more than once -/
def duplicateLabel : List (String × Nat) → Option String
  | [] => none
  | (n, _) :: rest => if rest.any (fun e => e.1 == n) then some n else duplicateLabel rest

/-! ## machine state -/

abbrev Temps := List (Nat × Word)

def Temps.get (σ : Temps) (t : Nat) : Option Word :=
  match σ.find? (fun e => e.1 == t) with
  | some e => some e.2
  | none => none

def Temps.unset (σ : Temps) (t : Nat) : Temps := σ.filter (fun e => e.1 != t)

def Temps.set (σ : Temps) (t : Nat) (v : Word) : Temps := (t, v) :: σ.unset t

/-- copy a possibly undefined value -/
def Temps.put (σ : Temps) (t : Nat) (v : Option Word) : Temps :=
  match v with
  | some w => σ.set t w
  | none => σ.unset t

abbrev Heap := List (Nat × Obj)

def Heap.get (h : Heap) (id : Nat) : Option Obj :=
  match h.find? (fun e => e.1 == id) with
  | some e => some e.2
  | none => none

def Heap.remove (h : Heap) (id : Nat) : Heap := h.filter (fun e => e.1 != id)

def Heap.set (h : Heap) (id : Nat) (o : Obj) : Heap := (id, o) :: h.remove id

structure Config where
  pc : Nat
  temps : Temps
  scratch : Option Word
  heap : Heap
  /-- next fresh object id (≥ 1) -/
  next : Nat
  /-- the trace, most recent first -/
  out : List (Bool × Word)

inductive Res where
  | done (v : Word)
  | stuck (why : String)
  | outOfFuel
  deriving Repr, DecidableEq, Inhabited

structure Behaviour where
  out : List (Bool × Word)
  res : Res
  deriving Repr, DecidableEq, Inhabited

inductive StepRes where
  | next (c : Config)
  | halt (r : Res)

/-! ## heap operations -/

/-- pointer fields (non-null) of an object -/
def Obj.children (o : Obj) : List Nat :=
  o.fields.filterMap fun f => if f.chi != .ext && f.ptr != 0 then some f.ptr.toNat else none

/-- `share`: count += k (reference must be live) -/
def Heap.share (h : Heap) (ref : Word) (k : Nat) : Except String Heap :=
  if ref == 0 then .ok h
  else match h.get ref.toNat with
    | none => .error "dangling-reference"
    | some o => .ok (h.set ref.toNat { o with count := o.count + k })

def Heap.shareAll (h : Heap) : List Nat → Except String Heap
  | [] => .ok h
  | id :: ids =>
    match h.share (BitVec.ofNat 64 id) 1 with
    | .error e => .error e
    | .ok h' => Heap.shareAll h' ids

def Heap.totalFields (h : Heap) : Nat := (h.map fun e => e.2.fields.length).sum

/-- `erase` with a work list of object ids; the fuel bound `work.length + totalFields + 1` is never
    exhausted (each step removes a work item, and items are added only for fields of a removed object) -/
def Heap.eraseLoop : Nat → List Nat → Heap → Except String Heap
  | 0, [], h => .ok h
  | 0, _ :: _, _ => .error "erase: out of fuel"
  | _ + 1, [], h => .ok h
  | fuel + 1, id :: work, h =>
    match h.get id with
    | none => .error "dangling-reference"
    | some o =>
      if o.count > 0 then Heap.eraseLoop fuel work (h.set id { o with count := o.count - 1 })
      else Heap.eraseLoop fuel (o.children ++ work) (h.remove id)

def Heap.erase (h : Heap) (ref : Word) : Except String Heap :=
  if ref == 0 then .ok h
  else Heap.eraseLoop (h.totalFields + 2) [ref.toNat] h

/-! ## one step -/

def T_TEMP : Nat := Mock.T_TEMP
def T_RET1 : Nat := Mock.T_RET1

def clobberTemp (σ : Temps) : Temps := σ.unset T_TEMP

def evalCond (c : IfSort) (a b : Word) : Bool :=
  match c with
  | .eq => a == b
  | .ne => a != b
  | .lt => a.slt b
  | .le => a.sle b
  | .gt => b.slt a
  | .ge => b.sle a

def minWord : Word := BitVec.intMin 64

def evalBinOp (o : BinOp) (a b : Word) : Except String Word :=
  match o with
  | .sum => .ok (a + b)
  | .sub => .ok (a - b)
  | .prod => .ok (a * b)
  | .div =>
    if b == 0 then .error "div-by-zero"
    else if a == minWord && b == -1 then .error "div-overflow"
    else .ok (a.sdiv b)
  | .rem =>
    if b == 0 then .error "div-by-zero"
    else if a == minWord && b == -1 then .error "div-overflow"
    else .ok (a.srem b)

/-- read the fields at positions `n, n+1, …` for `store` -/
def readFields (σ : Temps) : List Chi → Nat → Option (List Field)
  | [], _ => some []
  | k :: ks, n =>
    match σ.get (2 * n + 1), readFields σ ks (n + 1) with
    | some w, some rest =>
      if k == .ext then some (⟨k, 0, w⟩ :: rest)
      else match σ.get (2 * n) with
        | some p => some (⟨k, p, w⟩ :: rest)
        | none => none
    | _, _ => none

/-- forget the temporaries of `cnt` positions from `n` on -/
def clearPositions (σ : Temps) (n cnt : Nat) : Temps :=
  σ.filter fun e => !(2 * n ≤ e.1 && e.1 < 2 * (n + cnt))

/-- unpack fields into positions `n, n+1, …` for `load` -/
def writeFields (σ : Temps) : List Field → Nat → Temps
  | [], _ => σ
  | f :: fs, n =>
    let σ1 := if f.chi == .ext then (σ.unset (2 * n)).set (2 * n + 1) f.val
              else (σ.set (2 * n) f.ptr).set (2 * n + 1) f.val
    writeFields σ1 fs (n + 1)

/-- only the temporaries of the first `cnt` positions survive an external call -/
def keepPositions (σ : Temps) (cnt : Nat) : Temps := σ.filter fun e => e.1 < 2 * cnt

def stuck (why : String) : StepRes := .halt (.stuck why)

def getT (σ : Temps) (t : Nat) (k : Word → StepRes) : StepRes :=
  match σ.get t with
  | some v => k v
  | none => stuck ("read-undefined " ++ toString t)

def jumpTo (p : Program) (c : Config) (name : String) : StepRes :=
  match p.labelAddr name with
  | some a => .next { c with pc := a, temps := clobberTemp c.temps }
  | none => stuck ("undefined-label " ++ name)

def step (p : Program) (c : Config) : StepRes :=
  match p.code[c.pc]? with
  | none => stuck "pc-out-of-code"
  | some op =>
    let σ := c.temps
    let adv (σ' : Temps) : StepRes := .next { c with pc := c.pc + 1, temps := σ' }
    match op with
    | .comment _ => adv σ
    | .label _ => adv σ
    | .jump t => getT σ t fun v => .next { c with pc := v.toNat, temps := clobberTemp σ }
    | .jumpLabel name =>
      if name == "cleanup" then getT σ T_RET1 fun v => .halt (.done v)
      else jumpTo p c name
    | .jumpFixed name => jumpTo p c name
    | .jif cnd a b name =>
      getT σ a fun va => getT σ b fun vb =>
        if evalCond cnd va vb then jumpTo p c name else adv (clobberTemp σ)
    | .jifz cnd a name =>
      getT σ a fun va =>
        if evalCond cnd va 0 then jumpTo p c name else adv (clobberTemp σ)
    | .li t imm => adv ((if t == T_TEMP then σ else clobberTemp σ).set t (BitVec.ofInt 64 imm))
    | .ll t name =>
      match p.labelAddr name with
      | some a => adv ((if t == T_TEMP then σ else clobberTemp σ).set t (BitVec.ofNat 64 a))
      | none => stuck ("undefined-label " ++ name)
    | .addJump t imm =>
      getT σ t fun v =>
        .next { c with pc := (v + BitVec.ofInt 64 imm).toNat, temps := clobberTemp σ }
    | .binop o t a b =>
      getT σ a fun va => getT σ b fun vb =>
        match evalBinOp o va vb with
        | .error e => stuck e
        | .ok v => adv ((if t == T_TEMP then σ else clobberTemp σ).set t v)
    | .mov t s => adv ((if t == T_TEMP then σ else clobberTemp σ).put t (σ.get s))
    | .print nl s kinds =>
      getT σ s fun v =>
        .next { c with pc := c.pc + 1, temps := keepPositions σ kinds.length, out := (nl, v) :: c.out }
    | .erase t =>
      getT σ t fun v =>
        match c.heap.erase v with
        | .error e => stuck e
        | .ok h => .next { c with pc := c.pc + 1, temps := (clobberTemp σ).unset t, heap := h }
    | .share t k =>
      getT σ t fun v =>
        match c.heap.share v k with
        | .error e => stuck e
        | .ok h => .next { c with pc := c.pc + 1, temps := clobberTemp σ, heap := h }
    | .store kinds n =>
      match kinds with
      | [] => adv ((clobberTemp σ).set (2 * n) 0)
      | _ =>
        match readFields σ kinds n with
        | none => stuck "store: read-undefined field"
        | some fields =>
          let σ' := ((clearPositions (clobberTemp σ) n kinds.length)).set (2 * n) (BitVec.ofNat 64 c.next)
          .next { c with pc := c.pc + 1, temps := σ', heap := (c.next, ⟨0, fields⟩) :: c.heap,
                         next := c.next + 1 }
    | .load kinds n =>
      match kinds with
      | [] => adv (clobberTemp σ)
      | _ =>
        getT σ (2 * n) fun ref =>
          if ref == 0 then stuck "load: null-reference"
          else match c.heap.get ref.toNat with
            | none => stuck "dangling-reference"
            | some o =>
              if o.fields.map (·.chi) != kinds then stuck "load: kind-mismatch"
              else
                let σ' := writeFields (clobberTemp σ) o.fields n
                if o.count == 0 then
                  .next { c with pc := c.pc + 1, temps := σ', heap := c.heap.remove ref.toNat }
                else
                  match (c.heap.set ref.toNat { o with count := o.count - 1 }).shareAll o.children with
                  | .error e => stuck e
                  | .ok h => .next { c with pc := c.pc + 1, temps := σ', heap := h }
    | .save t _ => .next { c with pc := c.pc + 1, temps := clobberTemp σ, scratch := σ.get t }
    | .restore t _ => adv ((if t == T_TEMP then σ else clobberTemp σ).put t c.scratch)

def runFrom (p : Program) : Nat → Config → Behaviour
  | 0, c => ⟨c.out.reverse, .outOfFuel⟩
  | fuel + 1, c =>
    match step p c with
    | .halt r => ⟨c.out.reverse, r⟩
    | .next c' => runFrom p fuel c'

/-- the arguments of the entry definition are `ext` values in positions 0, 1, … -/
def initTemps : List Word → Nat → Temps
  | [], _ => []
  | w :: ws, i => (2 * i + 1, w) :: initTemps ws (i + 1)

def initConfig (pc : Nat) (args : List Word) : Config :=
  ⟨pc, initTemps args 0, none, [], 1, []⟩

/-- run the code of `compile mockSym …` from the label `entry` -/
def run (ops : List MockOp) (entry : String) (args : List Word) (fuel : Nat) : Behaviour :=
  let p := Program.ofOps ops
  match duplicateLabel p.labels with
  | some n => ⟨[], .stuck ("duplicate-label " ++ n)⟩
  | none =>
    match p.labelAddr entry with
    | none => ⟨[], .stuck ("undefined-label " ++ entry)⟩
    | some a => runFrom p fuel (initConfig a args)

/-! ## text interface -/

def parseKinds (s : String) : Option (List Chi) :=
  if s == "-" then some []
  else s.toList.mapM fun c =>
    if c == 'p' then some Chi.prd else if c == 'c' then some Chi.cns
    else if c == 'e' then some Chi.ext else none

def parseCond (s : String) : Option IfSort := readIfSort (.atom s)

def parseBit (s : String) : Option Bool :=
  if s == "0" then some false else if s == "1" then some true else none

/-- one text line of mock.rs ↦ instruction (inverse of `MockOp.render`) -/
def parseOp (line : String) : Option MockOp :=
  if line.startsWith "comment " then some (.comment (line.drop 8).toString)
  else
    match line.splitOn " " with
    | ["label", n] => some (.label n)
    | ["jump", t] => t.toNat?.map .jump
    | ["jumplabel", n] => some (.jumpLabel n)
    | ["jumpfixed", n] => some (.jumpFixed n)
    | ["jif", c, a, b, n] => do pure (.jif (← parseCond c) (← a.toNat?) (← b.toNat?) n)
    | ["jifz", c, a, n] => do pure (.jifz (← parseCond c) (← a.toNat?) n)
    | ["li", t, i] => do pure (.li (← t.toNat?) (← i.toInt?))
    | ["ll", t, n] => do pure (.ll (← t.toNat?) n)
    | ["addjump", t, i] => do pure (.addJump (← t.toNat?) (← i.toInt?))
    | ["add", t, a, b] => do pure (.binop .sum (← t.toNat?) (← a.toNat?) (← b.toNat?))
    | ["sub", t, a, b] => do pure (.binop .sub (← t.toNat?) (← a.toNat?) (← b.toNat?))
    | ["mul", t, a, b] => do pure (.binop .prod (← t.toNat?) (← a.toNat?) (← b.toNat?))
    | ["div", t, a, b] => do pure (.binop .div (← t.toNat?) (← a.toNat?) (← b.toNat?))
    | ["rem", t, a, b] => do pure (.binop .rem (← t.toNat?) (← a.toNat?) (← b.toNat?))
    | ["mov", t, s] => do pure (.mov (← t.toNat?) (← s.toNat?))
    | ["print", nl, s, ks] =>
      if nl == "nl" || nl == "nonl" then do pure (.print (nl == "nl") (← s.toNat?) (← parseKinds ks))
      else none
    | ["erase", t] => t.toNat?.map .erase
    | ["share", t, n] => do pure (.share (← t.toNat?) (← n.toNat?))
    | ["store", ks, n] => do pure (.store (← parseKinds ks) (← n.toNat?))
    | ["load", ks, n] => do pure (.load (← parseKinds ks) (← n.toNat?))
    | ["save", t, s] => do pure (.save (← t.toNat?) (← parseBit s))
    | ["restore", t, s] => do pure (.restore (← t.toNat?) (← parseBit s))
    | _ => none

/-- parse a text of lines; `.error n` = number of the first line that does not parse -/
def parseOps (text : String) : Except Nat (List MockOp) :=
  let rec go : List String → Nat → Except Nat (List MockOp)
    | [], _ => .ok []
    | l :: ls, i =>
      if l.isEmpty then go ls (i + 1)
      else match parseOp l with
        | none => .error i
        | some op =>
          match go ls (i + 1) with
          | .error e => .error e
          | .ok ops => .ok (op :: ops)
  go (text.splitOn "\n") 1

def renderWord (w : Word) : String := toString w.toInt

def Behaviour.render (b : Behaviour) : String :=
  "OK out=[" ++ ",".intercalate (b.out.map fun (nl, w) => (if nl then "1:" else "0:") ++ renderWord w) ++
    "] res=" ++
    (match b.res with
     | .done v => "done:" ++ renderWord v
     | .stuck why => "stuck:" ++ why
     | .outOfFuel => "outOfFuel")

def parseArgs (args : String) : Option (List Word) :=
  let s := args.trimAscii.toString
  if s.isEmpty then some []
  else (s.splitOn ",").mapM fun a => a.trimAscii.toString.toInt?.map (BitVec.ofInt 64)

def firstLabel : List MockOp → Option String
  | [] => none
  | .label n :: _ => some n
  | _ :: rest => firstLabel rest

/-- `ops`: mock text (lines separated by `\n`); `args`: comma separated decimal integers; the entry
    is the first label of the text (= the label of the first definition).
    -> `OK out=[1:55,0:-73] res=done:300|stuck:<why>|outOfFuel` or `PARSE-ERROR line <n>` -/
def runLineAbs (ops : String) (args : String) (fuel : Nat) : String :=
  match parseOps ops with
  | .error n => "PARSE-ERROR line " ++ toString n
  | .ok code =>
    match parseArgs args, firstLabel code with
    | none, _ => "ERR args"
    | _, none => "ERR no label"
    | some ws, some entry => (run code entry ws fuel).render

end Scc.Backend.Abs
