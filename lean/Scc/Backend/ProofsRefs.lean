/-
  Scc.Backend.ProofsRefs — C14, the parts that need an induction over the GENERIC code generator
  (Scc/Backend/Generic.lean) and are stated for an arbitrary backend record `B`:

  Part 1 (`RefOps`, `refs_compileR`, `refs_defined`): EVERY LABEL REFERENCED by the code of `compileR B` IS
    DEFINED in that code, or is `cleanup`, or is `f_` for a called definition `f`.  A backend supplies a
    label view `V` of its code type (`V.dfn c` the label defined by an item, `V.ref c` the label it refers
    to) and, per method, which labels the returned codes refer to (`RefOps`): nothing, the label argument,
    or — memory methods, which draw local labels — only labels defined by the returned code itself
    (`Closed`).  The references of the generator are then resolved by the shape of the statements:
    `switch`/`create` refer to the table label and the table to the clause labels they define themselves,
    `ifc` to its `lab<n>`, `call f` to `f_`, `exit` to `cleanup`.
  Part 2 (`PieceOps`, `piece_compileR`): lifting of a predicate `Q` on code LISTS that is closed under `++`
    (e.g. "no fixed-size jump outside a jump table", or any per-item predicate), where `binop` may assume
    that the target variable differs from the source variables (`OpFresh`, which `LinTyped` gives:
    `opFresh_of_linTyped`).
  Part 3: `callsDefined_of_linTyped` — in a linearly typed program every called definition exists.
  Proof file; `Post` / `AllP` are the Hoare-style postconditions of Scc/X86/ProofsWfAll.lean (generic in
  the backend).
-/
import Scc.X86.ProofsWfProg
import Scc.Backend.ProofsLabels
import Scc.Backend.TotalDefs
import Scc.AxCut.LinTyping

set_option linter.unusedVariables false
set_option linter.unusedSimpArgs false

namespace Scc.Backend.Refs

open Scc.AxCut Scc.Backend
open Scc.X86 (Post AllP)
open Scc.Backend.Total (IsVT)

/-- label view of a code type: the label an item defines / refers to -/
structure View (Code : Type) where
  dfn : Code → Option String
  ref : Code → Option String

section lists
variable {Code : Type} (V : View Code)

def View.labs (items : List Code) : List String := items.filterMap V.dfn
def View.refs (items : List Code) : List String := items.filterMap V.ref

@[simp] theorem labs_nil : V.labs [] = [] := rfl
@[simp] theorem refs_nil : V.refs [] = [] := rfl
theorem labs_append (a b : List Code) : V.labs (a ++ b) = V.labs a ++ V.labs b := by
  simp [View.labs, List.filterMap_append]
theorem refs_append (a b : List Code) : V.refs (a ++ b) = V.refs a ++ V.refs b := by
  simp [View.refs, List.filterMap_append]
theorem labs_cons (c : Code) (l : List Code) : V.labs (c :: l) = V.labs [c] ++ V.labs l :=
  labs_append V [c] l
theorem refs_cons (c : Code) (l : List Code) : V.refs (c :: l) = V.refs [c] ++ V.refs l :=
  refs_append V [c] l

/-- every referenced label satisfies `D` -/
def RefsIn (D : String → Prop) (items : List Code) : Prop := ∀ r ∈ V.refs items, D r
/-- every defined label satisfies `D` -/
def LabsIn (D : String → Prop) (items : List Code) : Prop := ∀ l ∈ V.labs items, D l
/-- every referenced label is defined in the same list -/
def Closed (items : List Code) : Prop := ∀ r ∈ V.refs items, r ∈ V.labs items
/-- no label is referenced -/
def NoRefs (items : List Code) : Prop := V.refs items = []
/-- only `l` is referenced -/
def RefsTo (l : String) (items : List Code) : Prop := ∀ r ∈ V.refs items, r = l

variable {V}

theorem RefsIn.nil {D : String → Prop} : RefsIn V D [] := fun _ h => by cases h
theorem RefsIn.append {D : String → Prop} {a b : List Code} (ha : RefsIn V D a) (hb : RefsIn V D b) :
    RefsIn V D (a ++ b) := by
  intro r hr
  rw [refs_append, List.mem_append] at hr
  exact hr.elim (ha r) (hb r)
theorem RefsIn.cons {D : String → Prop} {c : Code} {l : List Code} (hc : RefsIn V D [c]) (hl : RefsIn V D l) :
    RefsIn V D (c :: l) := RefsIn.append (a := [c]) hc hl
theorem RefsIn.ite {D : String → Prop} {c : Prop} [Decidable c] {a b : List Code} (ha : RefsIn V D a)
    (hb : RefsIn V D b) : RefsIn V D (if c then a else b) := by split <;> assumption
theorem NoRefs.refsIn {D : String → Prop} {a : List Code} (h : NoRefs V a) : RefsIn V D a := by
  intro r hr; rw [h] at hr; cases hr
theorem RefsTo.refsIn {D : String → Prop} {l : String} {a : List Code} (h : RefsTo V l a) (hl : D l) :
    RefsIn V D a := fun r hr => (h r hr) ▸ hl
theorem Closed.refsIn {D : String → Prop} {a : List Code} (h : Closed V a) (hl : LabsIn V D a) :
    RefsIn V D a := fun r hr => hl r (h r hr)

theorem NoRefs.nil : NoRefs V ([] : List Code) := rfl
theorem NoRefs.append {a b : List Code} (ha : NoRefs V a) (hb : NoRefs V b) : NoRefs V (a ++ b) := by
  unfold NoRefs at *; rw [refs_append, ha, hb]; rfl
theorem NoRefs.ite {c : Prop} [Decidable c] {a b : List Code} (ha : NoRefs V a) (hb : NoRefs V b) :
    NoRefs V (if c then a else b) := by split <;> assumption
theorem NoRefs.flatten {ls : List (List Code)} (h : ∀ l ∈ ls, NoRefs V l) : NoRefs V ls.flatten := by
  induction ls with
  | nil => rfl
  | cons l ls ih =>
    rw [List.flatten_cons]
    exact NoRefs.append (h l (by simp)) (ih fun x hx => h x (by simp [hx]))
theorem NoRefs.closed {a : List Code} (h : NoRefs V a) : Closed V a := by
  intro r hr; rw [h] at hr; cases hr
theorem noRefs_of_forall {a : List Code} (h : ∀ c ∈ a, V.ref c = none) : NoRefs V a := by
  unfold NoRefs View.refs
  rw [List.filterMap_eq_nil_iff]
  exact h
theorem noRefs_single {c : Code} (h : V.ref c = none) : NoRefs V [c] := by
  unfold NoRefs View.refs; simp [h]

theorem Closed.nil : Closed V ([] : List Code) := fun _ h => by cases h
theorem Closed.append {a b : List Code} (ha : Closed V a) (hb : Closed V b) : Closed V (a ++ b) := by
  intro r hr
  rw [refs_append, List.mem_append] at hr
  rw [labs_append, List.mem_append]
  exact hr.elim (fun h => Or.inl (ha r h)) (fun h => Or.inr (hb r h))
theorem Closed.noRefs_left {a b : List Code} (ha : NoRefs V a) (hb : Closed V b) : Closed V (a ++ b) :=
  Closed.append ha.closed hb
theorem Closed.noRefs_right {a b : List Code} (ha : Closed V a) (hb : NoRefs V b) : Closed V (a ++ b) :=
  Closed.append ha hb.closed
theorem Closed.cons {c : Code} {l : List Code} (hc : V.ref c = none) (hl : Closed V l) : Closed V (c :: l) :=
  Closed.noRefs_left (a := [c]) (noRefs_single hc) hl
/-- closedness of a list whose references are resolved by its own labels: the general form -/
theorem closed_of {a : List Code} (h : ∀ r ∈ V.refs a, r ∈ V.labs a) : Closed V a := h

theorem LabsIn.append_iff {D : String → Prop} {a b : List Code} :
    LabsIn V D (a ++ b) ↔ LabsIn V D a ∧ LabsIn V D b := by
  unfold LabsIn
  rw [labs_append]
  simp only [List.mem_append]
  exact ⟨fun h => ⟨fun l hl => h l (Or.inl hl), fun l hl => h l (Or.inr hl)⟩,
    fun h l hl => hl.elim (h.1 l) (h.2 l)⟩
theorem LabsIn.cons_iff {D : String → Prop} {c : Code} {l : List Code} :
    LabsIn V D (c :: l) ↔ LabsIn V D [c] ∧ LabsIn V D l := LabsIn.append_iff (a := [c])
theorem LabsIn.of_mem {D : String → Prop} {a : List Code} (h : LabsIn V D a) {l : String} (hl : l ∈ V.labs a) :
    D l := h l hl

end lists

/-! ## Part 1: references -/

section Generic
variable {Code T : Type}

/-- which labels the codes returned by the methods of a backend define and refer to -/
structure RefOps (B : Backend Code T) (V : View Code) : Prop where
  comment : ∀ m, V.dfn (B.comment m) = none ∧ V.ref (B.comment m) = none
  label : ∀ l, V.dfn (B.label l) = some l ∧ V.ref (B.label l) = none
  jump : ∀ t, NoRefs V (B.jump t)
  jumpLabel : ∀ l, RefsTo V l (B.jumpLabel l)
  jumpLabelFixed : ∀ l, RefsTo V l (B.jumpLabelFixed l)
  jumpLabelIf : ∀ s a b l, RefsTo V l (B.jumpLabelIf s a b l)
  jumpLabelIfZero : ∀ s a l, RefsTo V l (B.jumpLabelIfZero s a l)
  loadImmediate : ∀ t n, NoRefs V (B.loadImmediate t n)
  loadLabel : ∀ t l, RefsTo V l (B.loadLabel t l)
  addAndJump : ∀ t n, NoRefs V (B.addAndJump t n)
  binop : ∀ o t a b, NoRefs V (B.binop o t a b)
  mov : ∀ t s, NoRefs V (B.mov t s)
  printI64 : ∀ nl t ctx, Post (B.printI64 nl t ctx) (Closed V)
  eraseBlock : ∀ t, Post (B.eraseBlock t) (Closed V)
  shareBlockN : ∀ t n, Post (B.shareBlockN t n) (Closed V)
  store : ∀ a b, Post (B.store a b) (Closed V)
  load : ∀ a b, Post (B.load a b) (Closed V)
  storeTemporary : ∀ t sp, NoRefs V (B.storeTemporary t sp)
  restoreTemporary : ∀ t sp, NoRefs V (B.restoreTemporary t sp)

variable {B : Backend Code T} {V : View Code}

theorem RefOps.noRefs_comment (S : RefOps B V) (m : String) : NoRefs V [B.comment m] :=
  noRefs_single (S.comment m).2
theorem RefOps.noRefs_label (S : RefOps B V) (l : String) : NoRefs V [B.label l] :=
  noRefs_single (S.label l).2
theorem RefOps.labs_label (S : RefOps B V) (l : String) : V.labs [B.label l] = [l] := by
  simp [View.labs, (S.label l).1]
theorem RefOps.labs_comment (S : RefOps B V) (m : String) : V.labs [B.comment m] = [] := by
  simp [View.labs, (S.comment m).1]

theorem RefOps.noRefs_hook (S : RefOps B V) (hooks : Bool) (ctx : Ctx) : NoRefs V (hookCode B hooks ctx) := by
  unfold hookCode
  exact NoRefs.ite (S.noRefs_comment _) NoRefs.nil

theorem RefOps.noRefs_c0 (S : RefOps B V) (hooks : Bool) (ctx : Ctx) (m : String) :
    NoRefs V (hookCode B hooks ctx ++ [B.comment m]) :=
  NoRefs.append (S.noRefs_hook hooks ctx) (S.noRefs_comment m)

/-! ### parallel moves -/

mutual
  theorem noRefs_treeMoves (S : RefOps B V) (t : T) (sp : Bool) : ∀ (tr : Tree T), NoRefs V (treeMoves B t sp tr)
    | .backEdge => by simp only [treeMoves]; exact S.storeTemporary _ _
    | .node target kids => by
      simp only [treeMoves]
      exact NoRefs.append (noRefs_treeMovesList S target sp kids) (S.mov _ _)
  theorem noRefs_treeMovesList (S : RefOps B V) (t : T) (sp : Bool) :
      ∀ (trs : List (Tree T)), NoRefs V (treeMovesList B t sp trs)
    | [] => by simp only [treeMovesList]; exact NoRefs.nil
    | k :: ks => by
      simp only [treeMovesList]
      exact NoRefs.append (noRefs_treeMoves S t sp k) (noRefs_treeMovesList S t sp ks)
end

theorem noRefs_rootMoves (S : RefOps B V) : ∀ (r : Root T), NoRefs V (rootMoves B r)
  | .startNode t kids => by
    simp only [rootMoves]
    exact NoRefs.append (noRefs_treeMovesList S _ _ kids) (NoRefs.ite (S.restoreTemporary _ _) NoRefs.nil)

theorem noRefs_parallelMoves (S : RefOps B V) {conns : List (T × List T)} {code : List Code}
    (h : parallelMoves B conns = .ok code) : NoRefs V code := by
  unfold parallelMoves at h
  split at h
  · cases h
  · rename_i forest _
    cases h
    refine NoRefs.append (NoRefs.ite (S.noRefs_comment _) NoRefs.nil) (NoRefs.flatten ?_)
    intro l hl
    obtain ⟨r, _, rfl⟩ := List.mem_map.1 hl
    exact noRefs_rootMoves S r

theorem post_codeExchange (S : RefOps B V) (tm : List (Binding × List Nat)) (context newContext : Ctx) :
    Post (codeExchange B tm context newContext) (NoRefs V) := by
  unfold codeExchange
  refine Post.bind (Post.true _) fun conns _ => ?_
  cases hpm : parallelMoves B conns with
  | error e => exact Post.throw
  | ok code => exact Post.pure (noRefs_parallelMoves S hpm)

theorem post_updateReferenceCount (S : RefOps B V) (var : Ident) (context : Ctx) (newCount : Nat) :
    Post (updateReferenceCount B var context newCount) (Closed V) := by
  unfold updateReferenceCount
  refine Post.bind (Post.true _) fun t _ => ?_
  match newCount with
  | 0 => exact Post.bind (S.eraseBlock t) fun code hc => Post.pure (Closed.cons (S.comment _).2 hc)
  | 1 => exact Post.pure Closed.nil
  | n + 2 => exact Post.bind (S.shareBlockN t (n + 1)) fun code hc => Post.pure (Closed.cons (S.comment _).2 hc)

theorem post_codeWeakeningContraction (S : RefOps B V) (context : Ctx) :
    ∀ (tm : List (Binding × List Nat)), Post (codeWeakeningContraction B tm context) (Closed V)
  | [] => by simp only [codeWeakeningContraction]; exact Post.pure Closed.nil
  | (binding, targets) :: rest => by
    simp only [codeWeakeningContraction]
    refine Post.bind (Q1 := Closed V) ?_ fun code hc => ?_
    · split
      · exact post_updateReferenceCount S _ _ _
      · exact Post.pure Closed.nil
    · exact Post.bind (post_codeWeakeningContraction S context rest) fun codeRest hr =>
        Post.pure (Closed.append hc hr)

/-! ### jump tables and clause labels -/

/-- the xtors of a clause list, in order -/
def cxs : Clauses → List Ident
  | .nil => []
  | .cons x _ _ rest => x :: cxs rest

theorem refs_codeTable (S : RefOps B V) (base : String) : ∀ (cs : Clauses),
    ∀ r ∈ V.refs (codeTable B cs base), ∃ x ∈ cxs cs, r = clauseLabel base x
  | .nil => by intro r hr; simp [codeTable] at hr
  | .cons x _ _ rest => by
    intro r hr
    simp only [codeTable] at hr
    rw [refs_append, List.mem_append] at hr
    rcases hr with hr | hr
    · exact ⟨x, by simp [cxs], S.jumpLabelFixed _ r hr⟩
    · obtain ⟨y, hy, e⟩ := refs_codeTable S base rest r hr
      exact ⟨y, by simp [cxs, hy], e⟩

/-- the clause labels are defined by the clause code -/
theorem labs_codeClausesR (S : RefOps B V) (hooks : Bool) (ren : Nat → String) (types : List TypeDecl)
    (context : Ctx) : ∀ (cs : Clauses) (base : String),
    Post (codeClausesR B hooks ren types context cs base)
      (fun items => ∀ x ∈ cxs cs, clauseLabel base x ∈ V.labs items)
  | .nil, _ => by simp only [codeClausesR]; exact Post.pure (by simp [cxs])
  | .cons xtor clauseCtx body rest, base => by
    simp only [codeClausesR]
    refine Post.bind (Post.true _) fun c1 _ => ?_
    refine Post.bind (Post.true _) fun c2 _ => ?_
    refine Post.bind (labs_codeClausesR S hooks ren types context rest base) fun c3 h3 => ?_
    refine Post.pure ?_
    intro x hx
    simp only [cxs, List.mem_cons] at hx
    have e : B.label (clauseLabel base xtor) :: c1 ++ c2 ++ c3 =
        [B.label (clauseLabel base xtor)] ++ (c1 ++ c2) ++ c3 := by simp
    rw [e, labs_append, labs_append, S.labs_label]
    rcases hx with rfl | hx
    · simp
    · simp [h3 x hx]

theorem labs_codeMethodsR (S : RefOps B V) (hooks : Bool) (ren : Nat → String) (types : List TypeDecl)
    (env : Ctx) : ∀ (cs : Clauses) (base : String),
    Post (codeMethodsR B hooks ren types env cs base)
      (fun items => ∀ x ∈ cxs cs, clauseLabel base x ∈ V.labs items)
  | .nil, _ => by simp only [codeMethodsR]; exact Post.pure (by simp [cxs])
  | .cons xtor clauseCtx body rest, base => by
    simp only [codeMethodsR]
    refine Post.bind (Post.true _) fun c1 _ => ?_
    refine Post.bind (Post.true _) fun c2 _ => ?_
    refine Post.bind (labs_codeMethodsR S hooks ren types env rest base) fun c3 h3 => ?_
    refine Post.pure ?_
    intro x hx
    simp only [cxs, List.mem_cons] at hx
    have e : B.label (clauseLabel base xtor) :: c1 ++ c2 ++ c3 =
        [B.label (clauseLabel base xtor)] ++ (c1 ++ c2) ++ c3 := by simp
    rw [e, labs_append, labs_append, S.labs_label]
    rcases hx with rfl | hx
    · simp
    · simp [h3 x hx]

theorem post_and {α : Type} {m : GenM α} {P1 P2 : α → Prop} (h1 : Post m P1) (h2 : Post m P2) :
    Post m (fun a => P1 a ∧ P2 a) := fun c a c' h => ⟨h1 c a c' h, h2 c a c' h⟩

/-- the result of a statement: every reference satisfies any `D` that holds of the labels defined by the
code, of `cleanup` and of the labels of the called definitions -/
def Res (V : View Code) (calls : List String) (items : List Code) : Prop :=
  ∀ D : String → Prop, LabsIn V D items → D "cleanup" → (∀ f ∈ calls, D (f ++ "_")) → RefsIn V D items

theorem Res.mono {calls calls' : List String} {items : List Code} (h : Res V calls items)
    (hc : ∀ f ∈ calls, f ∈ calls') : Res V calls' items :=
  fun D hl hcl hf => h D hl hcl (fun f hf' => hf f (hc f hf'))

theorem Closed.res {calls : List String} {items : List Code} (h : Closed V items) : Res V calls items :=
  fun D hl _ _ => h.refsIn hl

theorem NoRefs.res {calls : List String} {items : List Code} (h : NoRefs V items) : Res V calls items :=
  h.closed.res

/-- the label of the table and the table itself: references to the clause labels -/
theorem refsIn_table (S : RefOps B V) {D : String → Prop} (lbl : String) (cs : Clauses)
    (h : ∀ x ∈ cxs cs, D (clauseLabel lbl x)) :
    RefsIn V D (B.label lbl :: (if cs.length > 1 then codeTable B cs lbl else [])) := by
  refine RefsIn.cons (S.noRefs_label _).refsIn (RefsIn.ite ?_ RefsIn.nil)
  intro r hr
  obtain ⟨x, hx, rfl⟩ := refs_codeTable S lbl cs r hr
  exact h x hx

mutual
theorem res_codeStatementR (S : RefOps B V) (hooks : Bool) (ren : Nat → String) (types : List TypeDecl) :
    ∀ (s : Stmt) (context : Ctx),
      Post (codeStatementR B hooks ren types s context) (Res V (stmtCalls s))
  | .subst rearrange next, context => by
    simp only [codeStatementR]
    refine Post.bind (post_codeWeakeningContraction S context _) fun c1 h1 => ?_
    refine Post.bind (post_codeExchange S _ _ _) fun c2 h2 => ?_
    refine Post.bind (res_codeStatementR S hooks ren types next _) fun c3 h3 => ?_
    refine Post.pure ?_
    intro D hl hcl hf
    simp only [LabsIn.append_iff] at hl
    exact RefsIn.append (RefsIn.append (RefsIn.append (S.noRefs_c0 _ _ _).refsIn (h1.refsIn hl.1.1.2))
      h2.refsIn) (h3 D hl.2 hcl (by simpa [stmtCalls] using hf))
  | .call label args, context => by
    simp only [codeStatementR]
    refine Post.pure ?_
    intro D hl hcl hf
    exact RefsIn.append (S.noRefs_c0 _ _ _).refsIn ((S.jumpLabel _).refsIn (hf _ (by simp [stmtCalls])))
  | .letS var ty tag args next fv, context => by
    simp only [codeStatementR]
    refine Post.bind (Post.true _) fun decl _ => ?_
    refine Post.bind (Post.true _) fun pos _ => ?_
    refine Post.bind (Post.true _) fun sp _ => ?_
    obtain ⟨context1, arguments⟩ := sp
    dsimp only
    refine Post.bind (S.store _ _) fun c1 h1 => ?_
    refine Post.bind (Post.true _) fun t _ => ?_
    refine Post.bind (res_codeStatementR S hooks ren types next _) fun c3 h3 => ?_
    refine Post.pure ?_
    intro D hl hcl hf
    simp only [LabsIn.append_iff] at hl
    exact RefsIn.append (RefsIn.append (RefsIn.append (S.noRefs_c0 _ _ _).refsIn (h1.refsIn hl.1.1.2))
      (RefsIn.cons (S.noRefs_comment _).refsIn (S.loadImmediate _ _).refsIn))
      (h3 D hl.2 hcl (by simpa [stmtCalls] using hf))
  | .switch var ty clauses fv, context => by
    simp only [codeStatementR]
    refine Post.bind (Post.true _) fun num _ => ?_
    refine Post.bind (Q1 := fun c1 => ∀ D : String → Prop, D (mangleTy ty ++ "_" ++ num) → RefsIn V D c1) ?_
      fun c1 h1 => ?_
    · split
      · exact Post.pure fun D _ => (S.noRefs_comment _).refsIn
      · exact Post.bind (Post.true _) fun t _ => Post.pure fun D hD =>
          RefsIn.append (RefsIn.append ((S.loadLabel _ _).refsIn hD) (S.binop _ _ _ _).refsIn) (S.jump _).refsIn
    · refine Post.bind (Q1 := fun c3 => Res V (clausesCalls clauses) c3 ∧
        ∀ x ∈ cxs clauses, clauseLabel (mangleTy ty ++ "_" ++ num) x ∈ V.labs c3)
        (post_and (res_codeClausesR S hooks ren types _ clauses _) (labs_codeClausesR S hooks ren types _ clauses _))
        fun c3 h3 => ?_
      refine Post.pure ?_
      intro D hl hcl hf
      simp only [LabsIn.append_iff] at hl
      have hlab : D (mangleTy ty ++ "_" ++ num) := by
        have := hl.1.2
        rw [LabsIn.cons_iff] at this
        exact this.1 _ (by rw [S.labs_label]; simp)
      exact RefsIn.append (RefsIn.append (RefsIn.append (S.noRefs_c0 _ _ _).refsIn (h1 D hlab))
        (refsIn_table S _ clauses fun x hx => hl.2 _ (h3.2 x hx)))
        (h3.1 D hl.2 hcl (by simpa [stmtCalls] using hf))
  | .create var ty env clauses next fv1 fv2, context => by
    cases env with
    | none => simp only [codeStatementR]; exact Post.throw
    | some envCtx =>
      simp only [codeStatementR]
      refine Post.bind (Post.true _) fun sp _ => ?_
      obtain ⟨context1, closureEnvironment⟩ := sp
      dsimp only
      refine Post.bind (S.store _ _) fun c1 h1 => ?_
      refine Post.bind (Post.true _) fun num _ => ?_
      refine Post.bind (Post.true _) fun t _ => ?_
      refine Post.bind (res_codeStatementR S hooks ren types next _) fun c3 h3 => ?_
      refine Post.bind (Q1 := fun c5 => Res V (clausesCalls clauses) c5 ∧
        ∀ x ∈ cxs clauses, clauseLabel (mangleTy ty ++ "_" ++ num) x ∈ V.labs c5)
        (post_and (res_codeMethodsR S hooks ren types _ clauses _) (labs_codeMethodsR S hooks ren types _ clauses _))
        fun c5 h5 => ?_
      refine Post.pure ?_
      intro D hl hcl hf
      simp only [LabsIn.append_iff] at hl
      have hlab : D (mangleTy ty ++ "_" ++ num) := by
        have := hl.1.2
        rw [LabsIn.cons_iff] at this
        exact this.1 _ (by rw [S.labs_label]; simp)
      simp only [stmtCalls, List.mem_append] at hf
      exact RefsIn.append (RefsIn.append (RefsIn.append (RefsIn.append (RefsIn.append
        (S.noRefs_c0 _ _ _).refsIn (h1.refsIn hl.1.1.1.1.2))
        (RefsIn.cons (S.noRefs_comment _).refsIn ((S.loadLabel _ _).refsIn hlab)))
        (h3 D hl.1.1.2 hcl (fun f hf' => hf f (Or.inl hf'))))
        (refsIn_table S _ clauses fun x hx => hl.2 _ (h5.2 x hx)))
        (h5.1 D hl.2 hcl (fun f hf' => hf f (Or.inr hf')))
  | .invoke var tag ty args, context => by
    simp only [codeStatementR]
    refine Post.bind (Post.true _) fun t _ => ?_
    refine Post.bind (Post.true _) fun decl _ => ?_
    split
    · exact Post.pure (NoRefs.res (NoRefs.append (NoRefs.append (S.noRefs_c0 _ _ _) (S.noRefs_comment _))
        (S.jump _)))
    · exact Post.bind (Post.true _) fun pos _ =>
        Post.pure (NoRefs.res (NoRefs.append (S.noRefs_c0 _ _ _) (S.addAndJump _ _)))
  | .lit var n next fv, context => by
    simp only [codeStatementR]
    refine Post.bind (Post.true _) fun t _ => ?_
    refine Post.bind (res_codeStatementR S hooks ren types next _) fun c2 h2 => ?_
    refine Post.pure ?_
    intro D hl hcl hf
    simp only [LabsIn.append_iff] at hl
    exact RefsIn.append (RefsIn.append (S.noRefs_c0 _ _ _).refsIn (S.loadImmediate _ _).refsIn)
      (h2 D hl.2 hcl (by simpa [stmtCalls] using hf))
  | .op var fst o snd next fv, context => by
    simp only [codeStatementR]
    refine Post.bind (Post.true _) fun t _ => ?_
    refine Post.bind (Post.true _) fun s1 _ => ?_
    refine Post.bind (Post.true _) fun s2 _ => ?_
    refine Post.bind (res_codeStatementR S hooks ren types next _) fun c2 h2 => ?_
    refine Post.pure ?_
    intro D hl hcl hf
    simp only [LabsIn.append_iff] at hl
    exact RefsIn.append (RefsIn.append (S.noRefs_c0 _ _ _).refsIn (S.binop _ _ _ _).refsIn)
      (h2 D hl.2 hcl (by simpa [stmtCalls] using hf))
  | .print newline var next fv, context => by
    simp only [codeStatementR]
    refine Post.bind (Post.true _) fun t _ => ?_
    refine Post.bind (S.printI64 _ _ _) fun c1 h1 => ?_
    refine Post.bind (res_codeStatementR S hooks ren types next _) fun c2 h2 => ?_
    refine Post.pure ?_
    intro D hl hcl hf
    simp only [LabsIn.append_iff] at hl
    exact RefsIn.append (RefsIn.append (S.noRefs_c0 _ _ _).refsIn (h1.refsIn hl.1.2))
      (h2 D hl.2 hcl (by simpa [stmtCalls] using hf))
  | .ifc sort fst snd thenc elsec, context => by
    simp only [codeStatementR]
    refine Post.bind (Post.true _) fun num _ => ?_
    refine Post.bind (Q1 := RefsTo V ("lab" ++ num)) ?_ fun c1 h1 => ?_
    · cases snd with
      | none =>
        dsimp only
        exact Post.bind (Post.true _) fun a _ => Post.pure (S.jumpLabelIfZero _ _ _)
      | some snd =>
        dsimp only
        exact Post.bind (Post.true _) fun a _ => Post.bind (Post.true _) fun b _ =>
          Post.pure (S.jumpLabelIf _ _ _ _)
    · refine Post.bind (res_codeStatementR S hooks ren types elsec _) fun c2 h2 => ?_
      refine Post.bind (res_codeStatementR S hooks ren types thenc _) fun c3 h3 => ?_
      refine Post.pure ?_
      intro D hl hcl hf
      simp only [LabsIn.append_iff] at hl
      have hlab : D ("lab" ++ num) := by
        have := hl.1.2
        rw [LabsIn.cons_iff] at this
        exact this.1 _ (by rw [S.labs_label]; simp)
      simp only [stmtCalls, List.mem_append] at hf
      exact RefsIn.append (RefsIn.append (RefsIn.append (RefsIn.append (RefsIn.append
        (S.noRefs_c0 _ _ _).refsIn (h1.refsIn hlab)) (S.noRefs_comment _).refsIn)
        (h2 D hl.1.1.2 hcl (fun f hf' => hf f (Or.inl hf'))))
        (RefsIn.cons (S.noRefs_label _).refsIn (S.noRefs_comment _).refsIn))
        (h3 D hl.2 hcl (fun f hf' => hf f (Or.inr hf')))
  | .exit var, context => by
    simp only [codeStatementR]
    refine Post.bind (Post.true _) fun t _ => Post.pure ?_
    intro D hl hcl hf
    exact RefsIn.append (RefsIn.append (S.noRefs_c0 _ _ _).refsIn (S.mov _ _).refsIn)
      ((S.jumpLabel _).refsIn hcl)
theorem res_codeClausesR (S : RefOps B V) (hooks : Bool) (ren : Nat → String) (types : List TypeDecl)
    (context : Ctx) : ∀ (cs : Clauses) (baseLabel : String),
      Post (codeClausesR B hooks ren types context cs baseLabel) (Res V (clausesCalls cs))
  | .nil, _ => by simp only [codeClausesR]; exact Post.pure NoRefs.nil.res
  | .cons xtor clauseCtx body rest, baseLabel => by
    simp only [codeClausesR]
    refine Post.bind (S.load _ _) fun c1 h1 => ?_
    refine Post.bind (res_codeStatementR S hooks ren types body _) fun c2 h2 => ?_
    refine Post.bind (res_codeClausesR S hooks ren types context rest baseLabel) fun c3 h3 => ?_
    refine Post.pure ?_
    intro D hl hcl hf
    have e : B.label (clauseLabel baseLabel xtor) :: c1 ++ c2 ++ c3 =
        (([B.label (clauseLabel baseLabel xtor)] ++ c1) ++ c2) ++ c3 := by simp
    rw [e] at hl ⊢
    simp only [LabsIn.append_iff] at hl
    simp only [clausesCalls, List.mem_append] at hf
    exact RefsIn.append (RefsIn.append (RefsIn.append (S.noRefs_label _).refsIn (h1.refsIn hl.1.1.2))
      (h2 D hl.1.2 hcl (fun f hf' => hf f (Or.inl hf')))) (h3 D hl.2 hcl (fun f hf' => hf f (Or.inr hf')))
theorem res_codeMethodsR (S : RefOps B V) (hooks : Bool) (ren : Nat → String) (types : List TypeDecl)
    (env : Ctx) : ∀ (cs : Clauses) (baseLabel : String),
      Post (codeMethodsR B hooks ren types env cs baseLabel) (Res V (clausesCalls cs))
  | .nil, _ => by simp only [codeMethodsR]; exact Post.pure NoRefs.nil.res
  | .cons xtor clauseCtx body rest, baseLabel => by
    simp only [codeMethodsR]
    refine Post.bind (S.load _ _) fun c1 h1 => ?_
    refine Post.bind (res_codeStatementR S hooks ren types body _) fun c2 h2 => ?_
    refine Post.bind (res_codeMethodsR S hooks ren types env rest baseLabel) fun c3 h3 => ?_
    refine Post.pure ?_
    intro D hl hcl hf
    have e : B.label (clauseLabel baseLabel xtor) :: c1 ++ c2 ++ c3 =
        (([B.label (clauseLabel baseLabel xtor)] ++ c1) ++ c2) ++ c3 := by simp
    rw [e] at hl ⊢
    simp only [LabsIn.append_iff] at hl
    simp only [clausesCalls, List.mem_append] at hf
    exact RefsIn.append (RefsIn.append (RefsIn.append (S.noRefs_label _).refsIn (h1.refsIn hl.1.1.2))
      (h2 D hl.1.2 hcl (fun f hf' => hf f (Or.inl hf')))) (h3 D hl.2 hcl (fun f hf' => hf f (Or.inr hf')))
end

/-! ### definitions and programs -/

theorem res_translateR (S : RefOps B V) (hooks : Bool) (ren : Nat → String) (types : List TypeDecl) :
    ∀ (defs : List Def), Post (translateR B hooks ren types defs)
      (fun blocks => blocks.length = defs.length ∧ ∀ b ∈ blocks, Res V (defsCalls defs) b)
  | [] => by simp only [translateR]; exact Post.pure ⟨rfl, by simp⟩
  | d :: ds => by
    simp only [translateR]
    refine Post.bind (res_codeStatementR S hooks ren types d.body d.ctx) fun is his => ?_
    refine Post.bind (res_translateR S hooks ren types ds) fun rest hr => ?_
    refine Post.pure ⟨by simp [hr.1], ?_⟩
    intro b hb
    simp only [List.mem_cons] at hb
    rcases hb with rfl | hb
    · exact his.mono (fun f hf => by simp [defsCalls, hf])
    · exact (hr.2 b hb).mono (fun f hf => by simp [defsCalls, hf])

theorem res_assemble (S : RefOps B V) (calls : List String) :
    ∀ (blocks : List (List Code)) (names : List Ident), (∀ b ∈ blocks, Res V calls b) →
      Res V calls (assemble B blocks names)
  | [], _, _ => by simp only [assemble]; exact NoRefs.nil.res
  | _ :: _, [], _ => by simp only [assemble]; exact NoRefs.nil.res
  | block :: blocks, name :: names, h => by
    simp only [assemble]
    intro D hl hcl hf
    have e : B.label (name.print ++ "_") :: block ++ assemble B blocks names =
        ([B.label (name.print ++ "_")] ++ block) ++ assemble B blocks names := by simp
    rw [e] at hl ⊢
    simp only [LabsIn.append_iff] at hl
    exact RefsIn.append (RefsIn.append (S.noRefs_label _).refsIn (h block (by simp) D hl.1.2 hcl hf))
      (res_assemble S calls blocks names (fun b hb => h b (by simp [hb])) D hl.2 hcl hf)

theorem labs_assemble (S : RefOps B V) : ∀ (blocks : List (List Code)) (names : List Ident),
    blocks.length = names.length → ∀ n ∈ names, n.print ++ "_" ∈ V.labs (assemble B blocks names)
  | [], [], _ => by intro n hn; cases hn
  | [], _ :: _, h => by simp at h
  | _ :: _, [], h => by simp at h
  | block :: blocks, name :: names, h => by
    intro n hn
    simp only [assemble]
    have e : B.label (name.print ++ "_") :: block ++ assemble B blocks names =
        ([B.label (name.print ++ "_")] ++ block) ++ assemble B blocks names := by simp
    rw [e, labs_append, labs_append, S.labs_label]
    simp only [List.mem_cons] at hn
    rcases hn with rfl | hn
    · simp
    · have := labs_assemble S blocks names (by simpa using h) n hn
      simp [this]

/-- GENERIC: the references of the code of a whole program, and the labels of its definitions -/
theorem refs_compileR (S : RefOps B V) (hooks : Bool) (ren : Nat → String) (p : AxCut.Prog) :
    Post (compileR B hooks ren p) (fun r => Res V (defsCalls p.defs) r.1 ∧
      ∀ d ∈ p.defs, d.name.print ++ "_" ∈ V.labs r.1) := by
  unfold compileR
  cases hd : p.defs with
  | nil => exact Post.throw
  | cons d0 ds =>
    dsimp only
    refine Post.bind (res_translateR S hooks ren p.types (d0 :: ds)) fun blocks hb => ?_
    refine Post.pure ⟨res_assemble S _ _ _ hb.2, ?_⟩
    intro d hd'
    exact labs_assemble S blocks _ (by simp [hb.1]) d.name (List.mem_map.2 ⟨d, hd', rfl⟩)

/-- **every label referenced by the code of a program whose called definitions exist is defined in the
    code, or is `cleanup`** -/
theorem refs_defined (S : RefOps B V) (hooks : Bool) (ren : Nat → String) (p : AxCut.Prog)
    (hcalls : ∀ f ∈ defsCalls p.defs, f ∈ p.defs.map (·.name.print)) :
    Post (compileR B hooks ren p) (fun r => ∀ l ∈ V.refs r.1, l ∈ V.labs r.1 ∨ l = "cleanup") := by
  refine (refs_compileR S hooks ren p).mono ?_
  rintro r ⟨h1, h2⟩
  refine h1 (fun l => l ∈ V.labs r.1 ∨ l = "cleanup") (fun l hl => Or.inl hl) (Or.inr rfl) ?_
  intro f hf
  obtain ⟨d, hd, rfl⟩ := List.mem_map.1 (hcalls f hf)
  exact Or.inl (h2 d hd)

/-! ## Part 2: predicates on code lists closed under `++` -/

mutual
  /-- the target of every `op` differs from its sources -/
  def OpFresh : Stmt → Prop
    | .subst _ next => OpFresh next
    | .call _ _ => True
    | .letS _ _ _ _ next _ => OpFresh next
    | .switch _ _ clauses _ => OpFreshC clauses
    | .create _ _ _ clauses next _ _ => OpFreshC clauses ∧ OpFresh next
    | .invoke _ _ _ _ => True
    | .lit _ _ next _ => OpFresh next
    | .op x a _ b next _ => x.id ≠ a.id ∧ x.id ≠ b.id ∧ OpFresh next
    | .print _ _ next _ => OpFresh next
    | .ifc _ _ _ thenc elsec => OpFresh thenc ∧ OpFresh elsec
    | .exit _ => True
  def OpFreshC : Clauses → Prop
    | .nil => True
    | .cons _ _ body rest => OpFresh body ∧ OpFreshC rest
end

/-- what the generic generator needs from the backend for a predicate `Q` on code lists -/
structure PieceOps (B : Backend Code T) (Q : List Code → Prop) : Prop where
  nil : Q []
  append : ∀ {a b}, Q a → Q b → Q (a ++ b)
  comment : ∀ m, Q [B.comment m]
  label : ∀ l, Q [B.label l]
  /-- a label directly followed by a jump table -/
  table : ∀ l cs base, Q (B.label l :: codeTable B cs base)
  jump : ∀ t, Q (B.jump t)
  jumpLabel : ∀ l, Q (B.jumpLabel l)
  jumpLabelIf : ∀ s a b l, Q (B.jumpLabelIf s a b l)
  jumpLabelIfZero : ∀ s a l, Q (B.jumpLabelIfZero s a l)
  loadImmediate : ∀ t n, Q (B.loadImmediate t n)
  loadLabel : ∀ t l, Q (B.loadLabel t l)
  addAndJump : ∀ t n, Q (B.addAndJump t n)
  /-- `op`: the three temporaries are those of three variables of one context, the target variable
      differing from the sources -/
  binop : ∀ o (Γ : Ctx) (x a b : Nat) t s1 s2, x ≠ a → x ≠ b → IsVT B .snd Γ x t → IsVT B .snd Γ a s1 →
    IsVT B .snd Γ b s2 → Q (B.binop o t s1 s2)
  /-- `switch`: the table address plus the tag, in the scratch temporary -/
  binopTemp : ∀ t, Q (B.binop .sum B.temp B.temp t)
  mov : ∀ t s, Q (B.mov t s)
  printI64 : ∀ nl t ctx, Post (B.printI64 nl t ctx) Q
  eraseBlock : ∀ t, Post (B.eraseBlock t) Q
  shareBlockN : ∀ t n, Post (B.shareBlockN t n) Q
  store : ∀ a b, Post (B.store a b) Q
  load : ∀ a b, Post (B.load a b) Q
  storeTemporary : ∀ t sp, Q (B.storeTemporary t sp)
  restoreTemporary : ∀ t sp, Q (B.restoreTemporary t sp)

variable {Q : List Code → Prop}

theorem PieceOps.cons (S : PieceOps B Q) {c : Code} {l : List Code} (hc : Q [c]) (hl : Q l) : Q (c :: l) :=
  S.append (a := [c]) hc hl
theorem PieceOps.ite (S : PieceOps B Q) {c : Prop} [Decidable c] {a b : List Code} (ha : Q a) (hb : Q b) :
    Q (if c then a else b) := by split <;> assumption
theorem PieceOps.flatten (S : PieceOps B Q) {ls : List (List Code)} (h : ∀ l ∈ ls, Q l) : Q ls.flatten := by
  induction ls with
  | nil => exact S.nil
  | cons l ls ih =>
    rw [List.flatten_cons]
    exact S.append (h l (by simp)) (ih fun x hx => h x (by simp [hx]))
theorem PieceOps.hook (S : PieceOps B Q) (hooks : Bool) (ctx : Ctx) : Q (hookCode B hooks ctx) := by
  unfold hookCode
  exact S.ite (S.comment _) S.nil
theorem PieceOps.c0 (S : PieceOps B Q) (hooks : Bool) (ctx : Ctx) (m : String) :
    Q (hookCode B hooks ctx ++ [B.comment m]) := S.append (S.hook hooks ctx) (S.comment m)
theorem PieceOps.tableIf (S : PieceOps B Q) (l : String) (cs : Clauses) :
    Q (B.label l :: (if cs.length > 1 then codeTable B cs l else [])) := by
  split
  · exact S.table _ _ _
  · exact S.label _

mutual
  theorem q_treeMoves (S : PieceOps B Q) (t : T) (sp : Bool) : ∀ (tr : Tree T), Q (treeMoves B t sp tr)
    | .backEdge => by simp only [treeMoves]; exact S.storeTemporary _ _
    | .node target kids => by
      simp only [treeMoves]
      exact S.append (q_treeMovesList S target sp kids) (S.mov _ _)
  theorem q_treeMovesList (S : PieceOps B Q) (t : T) (sp : Bool) :
      ∀ (trs : List (Tree T)), Q (treeMovesList B t sp trs)
    | [] => by simp only [treeMovesList]; exact S.nil
    | k :: ks => by
      simp only [treeMovesList]
      exact S.append (q_treeMoves S t sp k) (q_treeMovesList S t sp ks)
end

theorem q_rootMoves (S : PieceOps B Q) : ∀ (r : Root T), Q (rootMoves B r)
  | .startNode t kids => by
    simp only [rootMoves]
    exact S.append (q_treeMovesList S _ _ kids) (S.ite (S.restoreTemporary _ _) S.nil)

theorem q_parallelMoves (S : PieceOps B Q) {conns : List (T × List T)} {code : List Code}
    (h : parallelMoves B conns = .ok code) : Q code := by
  unfold parallelMoves at h
  split at h
  · cases h
  · rename_i forest _
    cases h
    refine S.append (S.ite (S.comment _) S.nil) (S.flatten ?_)
    intro l hl
    obtain ⟨r, _, rfl⟩ := List.mem_map.1 hl
    exact q_rootMoves S r

theorem q_codeExchange (S : PieceOps B Q) (tm : List (Binding × List Nat)) (context newContext : Ctx) :
    Post (codeExchange B tm context newContext) Q := by
  unfold codeExchange
  refine Post.bind (Post.true _) fun conns _ => ?_
  cases hpm : parallelMoves B conns with
  | error e => exact Post.throw
  | ok code => exact Post.pure (q_parallelMoves S hpm)

theorem q_updateReferenceCount (S : PieceOps B Q) (var : Ident) (context : Ctx) (newCount : Nat) :
    Post (updateReferenceCount B var context newCount) Q := by
  unfold updateReferenceCount
  refine Post.bind (Post.true _) fun t _ => ?_
  match newCount with
  | 0 => exact Post.bind (S.eraseBlock t) fun code hc => Post.pure (S.cons (S.comment _) hc)
  | 1 => exact Post.pure S.nil
  | n + 2 => exact Post.bind (S.shareBlockN t (n + 1)) fun code hc => Post.pure (S.cons (S.comment _) hc)

theorem q_codeWeakeningContraction (S : PieceOps B Q) (context : Ctx) :
    ∀ (tm : List (Binding × List Nat)), Post (codeWeakeningContraction B tm context) Q
  | [] => by simp only [codeWeakeningContraction]; exact Post.pure S.nil
  | (binding, targets) :: rest => by
    simp only [codeWeakeningContraction]
    refine Post.bind (Q1 := Q) ?_ fun code hc => ?_
    · split
      · exact q_updateReferenceCount S _ _ _
      · exact Post.pure S.nil
    · exact Post.bind (q_codeWeakeningContraction S context rest) fun codeRest hr =>
        Post.pure (S.append hc hr)

theorem post_isVT (B : Backend Code T) (n : TempNum) (Γ : Ctx) (id : Nat) :
    Post (B.variableTemporary n Γ id) (IsVT B n Γ id) := fun c a c' h => ⟨c, c', h⟩

mutual
theorem q_codeStatementR (S : PieceOps B Q) (hooks : Bool) (ren : Nat → String) (types : List TypeDecl) :
    ∀ (s : Stmt) (context : Ctx), OpFresh s → Post (codeStatementR B hooks ren types s context) Q
  | .subst rearrange next, context, hb => by
    simp only [codeStatementR]
    simp only [OpFresh] at hb
    refine Post.bind (q_codeWeakeningContraction S context _) fun c1 h1 => ?_
    refine Post.bind (q_codeExchange S _ _ _) fun c2 h2 => ?_
    refine Post.bind (q_codeStatementR S hooks ren types next _ hb) fun c3 h3 => ?_
    exact Post.pure (S.append (S.append (S.append (S.c0 _ _ _) h1) h2) h3)
  | .call label args, context, _ => by
    simp only [codeStatementR]
    exact Post.pure (S.append (S.c0 _ _ _) (S.jumpLabel _))
  | .letS var ty tag args next fv, context, hb => by
    simp only [codeStatementR]
    simp only [OpFresh] at hb
    refine Post.bind (Post.true _) fun decl _ => ?_
    refine Post.bind (Post.true _) fun pos _ => ?_
    refine Post.bind (Post.true _) fun sp _ => ?_
    obtain ⟨context1, arguments⟩ := sp
    dsimp only
    refine Post.bind (S.store _ _) fun c1 h1 => ?_
    refine Post.bind (Post.true _) fun t _ => ?_
    refine Post.bind (q_codeStatementR S hooks ren types next _ hb) fun c3 h3 => ?_
    exact Post.pure (S.append (S.append (S.append (S.c0 _ _ _) h1)
      (S.cons (S.comment _) (S.loadImmediate _ _))) h3)
  | .switch var ty clauses fv, context, hb => by
    simp only [codeStatementR]
    simp only [OpFresh] at hb
    refine Post.bind (Post.true _) fun num _ => ?_
    refine Post.bind (Q1 := Q) ?_ fun c1 h1 => ?_
    · split
      · exact Post.pure (S.comment _)
      · exact Post.bind (Post.true _) fun t _ =>
          Post.pure (S.append (S.append (S.loadLabel _ _) (S.binopTemp _)) (S.jump _))
    · refine Post.bind (q_codeClausesR S hooks ren types _ clauses _ hb) fun c3 h3 => ?_
      exact Post.pure (S.append (S.append (S.append (S.c0 _ _ _) h1) (S.tableIf _ clauses)) h3)
  | .create var ty env clauses next fv1 fv2, context, hb => by
    cases env with
    | none => simp only [codeStatementR]; exact Post.throw
    | some envCtx =>
      simp only [codeStatementR]
      simp only [OpFresh] at hb
      refine Post.bind (Post.true _) fun sp _ => ?_
      obtain ⟨context1, closureEnvironment⟩ := sp
      dsimp only
      refine Post.bind (S.store _ _) fun c1 h1 => ?_
      refine Post.bind (Post.true _) fun num _ => ?_
      refine Post.bind (Post.true _) fun t _ => ?_
      refine Post.bind (q_codeStatementR S hooks ren types next _ hb.2) fun c3 h3 => ?_
      refine Post.bind (q_codeMethodsR S hooks ren types _ clauses _ hb.1) fun c5 h5 => ?_
      exact Post.pure (S.append (S.append (S.append (S.append (S.append (S.c0 _ _ _) h1)
        (S.cons (S.comment _) (S.loadLabel _ _))) h3) (S.tableIf _ clauses)) h5)
  | .invoke var tag ty args, context, _ => by
    simp only [codeStatementR]
    refine Post.bind (Post.true _) fun t _ => ?_
    refine Post.bind (Post.true _) fun decl _ => ?_
    split
    · exact Post.pure (S.append (S.append (S.c0 _ _ _) (S.comment _)) (S.jump _))
    · exact Post.bind (Post.true _) fun pos _ => Post.pure (S.append (S.c0 _ _ _) (S.addAndJump _ _))
  | .lit var n next fv, context, hb => by
    simp only [codeStatementR]
    simp only [OpFresh] at hb
    refine Post.bind (Post.true _) fun t _ => ?_
    refine Post.bind (q_codeStatementR S hooks ren types next _ hb) fun c2 h2 => ?_
    exact Post.pure (S.append (S.append (S.c0 _ _ _) (S.loadImmediate _ _)) h2)
  | .op var fst o snd next fv, context, hb => by
    simp only [codeStatementR]
    simp only [OpFresh] at hb
    refine Post.bind (post_isVT B _ _ _) fun t ht => ?_
    refine Post.bind (post_isVT B _ _ _) fun s1 hs1 => ?_
    refine Post.bind (post_isVT B _ _ _) fun s2 hs2 => ?_
    refine Post.bind (q_codeStatementR S hooks ren types next _ hb.2.2) fun c2 h2 => ?_
    exact Post.pure (S.append (S.append (S.c0 _ _ _) (S.binop _ _ _ _ _ _ _ _ hb.1 hb.2.1 ht hs1 hs2)) h2)
  | .print newline var next fv, context, hb => by
    simp only [codeStatementR]
    simp only [OpFresh] at hb
    refine Post.bind (Post.true _) fun t _ => ?_
    refine Post.bind (S.printI64 _ _ _) fun c1 h1 => ?_
    refine Post.bind (q_codeStatementR S hooks ren types next _ hb) fun c2 h2 => ?_
    exact Post.pure (S.append (S.append (S.c0 _ _ _) h1) h2)
  | .ifc sort fst snd thenc elsec, context, hb => by
    simp only [codeStatementR]
    simp only [OpFresh] at hb
    refine Post.bind (Post.true _) fun num _ => ?_
    refine Post.bind (Q1 := Q) ?_ fun c1 h1 => ?_
    · cases snd with
      | none =>
        dsimp only
        exact Post.bind (Post.true _) fun a _ => Post.pure (S.jumpLabelIfZero _ _ _)
      | some snd =>
        dsimp only
        exact Post.bind (Post.true _) fun a _ => Post.bind (Post.true _) fun b _ =>
          Post.pure (S.jumpLabelIf _ _ _ _)
    · refine Post.bind (q_codeStatementR S hooks ren types elsec _ hb.2) fun c2 h2 => ?_
      refine Post.bind (q_codeStatementR S hooks ren types thenc _ hb.1) fun c3 h3 => ?_
      exact Post.pure (S.append (S.append (S.append (S.append (S.append (S.c0 _ _ _) h1)
        (S.comment _)) h2) (S.cons (S.label _) (S.comment _))) h3)
  | .exit var, context, _ => by
    simp only [codeStatementR]
    exact Post.bind (Post.true _) fun t _ =>
      Post.pure (S.append (S.append (S.c0 _ _ _) (S.mov _ _)) (S.jumpLabel _))
theorem q_codeClausesR (S : PieceOps B Q) (hooks : Bool) (ren : Nat → String) (types : List TypeDecl)
    (context : Ctx) : ∀ (cs : Clauses) (baseLabel : String), OpFreshC cs →
      Post (codeClausesR B hooks ren types context cs baseLabel) Q
  | .nil, _, _ => by simp only [codeClausesR]; exact Post.pure S.nil
  | .cons xtor clauseCtx body rest, baseLabel, hb => by
    simp only [codeClausesR]
    simp only [OpFreshC] at hb
    refine Post.bind (S.load _ _) fun c1 h1 => ?_
    refine Post.bind (q_codeStatementR S hooks ren types body _ hb.1) fun c2 h2 => ?_
    refine Post.bind (q_codeClausesR S hooks ren types context rest baseLabel hb.2) fun c3 h3 => ?_
    exact Post.pure (S.cons (S.label _) (S.append (S.append h1 h2) h3))
theorem q_codeMethodsR (S : PieceOps B Q) (hooks : Bool) (ren : Nat → String) (types : List TypeDecl)
    (env : Ctx) : ∀ (cs : Clauses) (baseLabel : String), OpFreshC cs →
      Post (codeMethodsR B hooks ren types env cs baseLabel) Q
  | .nil, _, _ => by simp only [codeMethodsR]; exact Post.pure S.nil
  | .cons xtor clauseCtx body rest, baseLabel, hb => by
    simp only [codeMethodsR]
    simp only [OpFreshC] at hb
    refine Post.bind (S.load _ _) fun c1 h1 => ?_
    refine Post.bind (q_codeStatementR S hooks ren types body _ hb.1) fun c2 h2 => ?_
    refine Post.bind (q_codeMethodsR S hooks ren types env rest baseLabel hb.2) fun c3 h3 => ?_
    exact Post.pure (S.cons (S.label _) (S.append (S.append h1 h2) h3))
end

theorem q_translateR (S : PieceOps B Q) (hooks : Bool) (ren : Nat → String) (types : List TypeDecl) :
    ∀ (defs : List Def), (∀ d ∈ defs, OpFresh d.body) →
      Post (translateR B hooks ren types defs) (fun blocks => ∀ b ∈ blocks, Q b)
  | [], _ => by simp only [translateR]; exact Post.pure (by simp)
  | d :: ds, h => by
    simp only [translateR]
    refine Post.bind (q_codeStatementR S hooks ren types d.body d.ctx (h d (by simp))) fun is his => ?_
    refine Post.bind (q_translateR S hooks ren types ds (fun x hx => h x (by simp [hx]))) fun rest hr => ?_
    exact Post.pure (by
      intro b hb
      simp only [List.mem_cons] at hb
      rcases hb with rfl | hb
      · exact his
      · exact hr b hb)

theorem q_assemble (S : PieceOps B Q) :
    ∀ (blocks : List (List Code)) (names : List Ident), (∀ b ∈ blocks, Q b) → Q (assemble B blocks names)
  | [], _, _ => by simp only [assemble]; exact S.nil
  | _ :: _, [], _ => by simp only [assemble]; exact S.nil
  | block :: blocks, name :: names, h => by
    simp only [assemble]
    exact S.cons (S.label _) (S.append (h block (by simp)) (q_assemble S blocks names (fun b hb => h b (by simp [hb]))))

/-- GENERIC LIFTING of a list predicate closed under `++` -/
theorem piece_compileR (S : PieceOps B Q) (hooks : Bool) (ren : Nat → String) (p : AxCut.Prog)
    (hp : ∀ d ∈ p.defs, OpFresh d.body) : Post (compileR B hooks ren p) (fun r => Q r.1) := by
  unfold compileR
  cases hd : p.defs with
  | nil => exact Post.throw
  | cons d0 ds =>
    dsimp only
    refine Post.bind (q_translateR S hooks ren p.types _ (by rw [← hd]; exact hp)) fun blocks hb => ?_
    exact Post.pure (q_assemble S _ _ hb)

end Generic

/-! ## Part 3: what linear typing gives -/

theorem hasVar_ids {Γ : Ctx} {x : Nat} {chi : Chi} {ty : Ty} (h : HasVar Γ x chi ty) : x ∈ Γ.ids := by
  obtain ⟨b, hb, e, _⟩ := h
  exact List.mem_map.2 ⟨b, hb, e⟩

mutual
theorem opFresh_of_linTyped {T : List TypeDecl} {S : Sigs} : ∀ {Γ : Ctx} {s : Stmt}, LinTyped T S Γ s → OpFresh s
  | _, _, .subst _ _ _ h => by simp only [OpFresh]; exact opFresh_of_linTyped h
  | _, _, .call _ _ _ => by simp only [OpFresh]
  | _, _, .letS _ _ _ _ _ _ h => by simp only [OpFresh]; exact opFresh_of_linTyped h
  | _, _, .switch _ _ _ _ _ h => by simp only [OpFresh]; exact opFreshC_of_linTyped h
  | _, _, .create _ _ _ _ _ hc _ h => by
    simp only [OpFresh]; exact ⟨opFreshC_of_linTyped hc, opFresh_of_linTyped h⟩
  | _, _, .invoke _ _ _ _ _ => by simp only [OpFresh]
  | _, _, .lit _ _ h => by simp only [OpFresh]; exact opFresh_of_linTyped h
  | _, _, .op _ ha hb hx h => by
    simp only [OpFresh]
    exact ⟨fun e => hx (e ▸ hasVar_ids ha), fun e => hx (e ▸ hasVar_ids hb), opFresh_of_linTyped h⟩
  | _, _, .print _ _ h => by simp only [OpFresh]; exact opFresh_of_linTyped h
  | _, _, .ifc _ _ _ ht he => by simp only [OpFresh]; exact ⟨opFresh_of_linTyped ht, opFresh_of_linTyped he⟩
  | _, _, .exit _ _ => by simp only [OpFresh]
theorem opFreshC_of_linTyped {T : List TypeDecl} {S : Sigs} : ∀ {pre post : Ctx} {cs : Clauses},
    LinTypedClauses T S pre post cs → OpFreshC cs
  | _, _, _, .nil => by simp only [OpFreshC]
  | _, _, _, .cons hb hr => by simp only [OpFreshC]; exact ⟨opFresh_of_linTyped hb, opFreshC_of_linTyped hr⟩
end

theorem opFresh_of_linTypedProg {p : AxCut.Prog} (h : LinTypedProg p) : ∀ d ∈ p.defs, OpFresh d.body :=
  fun d hd => opFresh_of_linTyped (h d hd)

private theorem ident_eq_of_beq {a b : Ident} (h : (a == b) = true) : a = b := by
  cases a with | mk n1 i1 => cases b with | mk n2 i2 =>
  have : (n1 == n2 && i1 == i2) = true := h
  simp at this
  simp [this]

theorem findSig_mem {S : Sigs} {l : Ident} {params : Ctx} (h : findSig S l = some params) :
    l ∈ S.map (·.1) := by
  unfold findSig at h
  split at h
  · cases h
  · rename_i s hs
    have h1 := List.mem_of_find?_eq_some hs
    have h2 := List.find?_some hs
    exact List.mem_map.2 ⟨s, h1, ident_eq_of_beq h2⟩

mutual
theorem calls_of_linTyped {T : List TypeDecl} {S : Sigs} : ∀ {Γ : Ctx} {s : Stmt}, LinTyped T S Γ s →
    ∀ f ∈ stmtCalls s, f ∈ S.map (·.1.print)
  | _, _, .subst _ _ _ h => by simp only [stmtCalls]; exact calls_of_linTyped h
  | _, _, .call _ hs _ => by
    intro f hf
    simp only [stmtCalls, List.mem_singleton] at hf
    subst hf
    obtain ⟨s, hs1, hs2⟩ := List.mem_map.1 (findSig_mem hs)
    exact List.mem_map.2 ⟨s, hs1, by rw [hs2]⟩
  | _, _, .letS _ _ _ _ _ _ h => by simp only [stmtCalls]; exact calls_of_linTyped h
  | _, _, .switch _ _ _ _ _ h => by simp only [stmtCalls]; exact callsC_of_linTyped h
  | _, _, .create _ _ _ _ _ hc _ h => by
    intro f hf
    simp only [stmtCalls, List.mem_append] at hf
    exact hf.elim (calls_of_linTyped h f) (callsC_of_linTyped hc f)
  | _, _, .invoke _ _ _ _ _ => by intro f hf; simp [stmtCalls] at hf
  | _, _, .lit _ _ h => by simp only [stmtCalls]; exact calls_of_linTyped h
  | _, _, .op _ _ _ _ h => by simp only [stmtCalls]; exact calls_of_linTyped h
  | _, _, .print _ _ h => by simp only [stmtCalls]; exact calls_of_linTyped h
  | _, _, .ifc _ _ _ ht he => by
    intro f hf
    simp only [stmtCalls, List.mem_append] at hf
    exact hf.elim (calls_of_linTyped he f) (calls_of_linTyped ht f)
  | _, _, .exit _ _ => by intro f hf; simp [stmtCalls] at hf
theorem callsC_of_linTyped {T : List TypeDecl} {S : Sigs} : ∀ {pre post : Ctx} {cs : Clauses},
    LinTypedClauses T S pre post cs → ∀ f ∈ clausesCalls cs, f ∈ S.map (·.1.print)
  | _, _, _, .nil => by intro f hf; simp [clausesCalls] at hf
  | _, _, _, .cons hb hr => by
    intro f hf
    simp only [clausesCalls, List.mem_append] at hf
    exact hf.elim (calls_of_linTyped hb f) (callsC_of_linTyped hr f)
end

/-- in a linearly typed program every called definition exists -/
theorem callsDefined_of_linTyped {p : AxCut.Prog} (h : LinTypedProg p) :
    ∀ f ∈ defsCalls p.defs, f ∈ p.defs.map (·.name.print) := by
  have hs : ∀ f, f ∈ p.sigs.map (·.1.print) → f ∈ p.defs.map (·.name.print) := by
    intro f hf
    simpa [Prog.sigs, List.map_map] using hf
  have : ∀ (ds : List Def), (∀ d ∈ ds, d ∈ p.defs) → ∀ f ∈ defsCalls ds, f ∈ p.defs.map (·.name.print) := by
    intro ds
    induction ds with
    | nil => intro _ f hf; simp [defsCalls] at hf
    | cons d ds ih =>
      intro hsub f hf
      simp only [defsCalls, List.mem_append] at hf
      rcases hf with hf | hf
      · exact hs f (calls_of_linTyped (h d (hsub d (by simp))) f hf)
      · exact ih (fun x hx => hsub x (by simp [hx])) f hf
  exact this p.defs (fun _ h => h)

end Scc.Backend.Refs
