/-
  Scc.Backend.ProofsConn2 — the map built by `connections` (substitution.rs) for ARBITRARY contexts:
  an `ext` binding contributes one entry (word part `2*pos+1`), a `prd`/`cns` binding two entries
  (pointer part `2*pos`, then word part `2*pos+1`).  `connections_go_spec` computes the map,
  `conns_wf2` shows that it is a well-formed parallel-move problem with the expected edges.
  Generalises `connections_go_ext` / `conns_wf` of ProofsSubst.lean.   Proof file.
-/
import Scc.Backend.ProofsSubst

set_option linter.unusedSimpArgs false
set_option linter.unusedVariables false

namespace Scc.Backend.Subst

open Scc.AxCut Scc.AxCut.Pos Scc.Backend Scc.Backend.Abs Scc.Backend.Sim Scc.Backend.PM

/-! ## small helpers -/

theorem chi_beq_ext {c : Chi} : (c == Chi.ext) = true ↔ c = .ext := by
  cases c <;> decide

theorem chi_beq_ext_false {c : Chi} : (c == Chi.ext) = false ↔ c ≠ .ext := by
  cases c <;> decide

theorem nodup_flatMap_of {α β : Type} (f : α → List β) :
    ∀ (l : List α), l.Nodup → (∀ a ∈ l, (f a).Nodup) →
      (∀ a ∈ l, ∀ b ∈ l, ∀ x, x ∈ f a → x ∈ f b → a = b) → (l.flatMap f).Nodup
  | [], _, _, _ => by simp
  | a :: l, hn, hf, hdis => by
    simp only [List.nodup_cons] at hn
    rw [List.flatMap_cons, List.nodup_append]
    refine ⟨hf a (by simp), ?_, ?_⟩
    · exact nodup_flatMap_of f l hn.2 (fun x hx => hf x (by simp [hx]))
        (fun x hx y hy => hdis x (by simp [hx]) y (by simp [hy]))
    · intro x hx y hy hxy
      subst hxy
      obtain ⟨b, hb, hxb⟩ := List.mem_flatMap.mp hy
      have := hdis a (by simp) b (by simp [hb]) x hx hxb
      subst this
      exact hn.1 hb

theorem nodup_of_map_id_nodup : ∀ (l : Ctx), (l.map (·.var.id)).Nodup → l.Nodup
  | [], _ => by simp
  | a :: l, h => by
    simp only [List.map_cons, List.nodup_cons] at h ⊢
    exact ⟨fun hm => h.1 (List.mem_map.mpr ⟨a, hm, rfl⟩), nodup_of_map_id_nodup l h.2⟩

/-! ## `connections` on arbitrary bindings -/

/-- the map entries `connections` inserts for a binding (in insertion order) -/
def entriesOf (Γ newΓ : Ctx) (e : Binding × List Nat) : List (Nat × List Nat) :=
  if e.1.chi == .ext then [(2 * posIn Γ e.1.var.id + 1, e.2.map fun id => 2 * posIn newΓ id + 1)]
  else [(2 * posIn Γ e.1.var.id, e.2.map fun id => 2 * posIn newΓ id),
        (2 * posIn Γ e.1.var.id + 1, e.2.map fun id => 2 * posIn newΓ id + 1)]

theorem mapMGen_vt_fst (newΓ : Ctx) : ∀ (ids : List Nat) (c : Nat) (ts : List Nat) (c' : Nat),
    (mapMGen (fun id => mockSym.variableTemporary .fst newΓ id) ids).run c = .ok (ts, c') →
    ts = ids.map (fun id => 2 * posIn newΓ id) ∧ c = c' ∧
      ∀ id ∈ ids, (Mock.ctxPosition newΓ id).isSome
  | [], c, ts, c', h => by
    simp only [mapMGen, run_pure_ok] at h
    obtain ⟨rfl, rfl⟩ := h
    simp
  | id :: rest, c, ts, c', h => by
    simp only [mapMGen, run_bind_ok, run_pure_ok, mockSym_variableTemporary, vt_run_ok] at h
    obtain ⟨t, c1, ⟨pos, hpos, rfl, rfl⟩, bs, c2, h2, rfl, rfl⟩ := h
    obtain ⟨e1, e2, e3⟩ := mapMGen_vt_fst newΓ rest _ _ _ h2
    subst e1 e2
    refine ⟨?_, rfl, ?_⟩
    · simp [posIn, hpos, TempNum.toNat]
    · intro id' hid'
      simp only [List.mem_cons] at hid'
      rcases hid' with rfl | hid'
      · simp [hpos]
      · exact e3 id' hid'

theorem connections_go_spec (Γ newΓ : Ctx) : ∀ (tm : List (Binding × List Nat))
    (acc : List (Nat × List Nat)) (c : Nat) (r : List (Nat × List Nat)) (c' : Nat),
    (connections.go mockSym Γ newΓ tm acc).run c = .ok (r, c') →
    r = insertAll (tm.flatMap (entriesOf Γ newΓ)) acc ∧ c = c' ∧
    ∀ e ∈ tm, (Mock.ctxPosition Γ e.1.var.id).isSome ∧ ∀ id ∈ e.2, (Mock.ctxPosition newΓ id).isSome
  | [], acc, c, r, c', h => by
    simp only [connections.go, run_pure_ok] at h
    simp [insertAll, h.1, h.2]
  | (b, targets) :: rest, acc, c, r, c', h => by
    unfold connections.go at h
    cases hbe : (b.chi == Chi.ext) with
    | true =>
      simp only [hbe, if_true, run_bind_ok, mockSym_variableTemporary, vt_run_ok] at h
      obtain ⟨k, c1, ⟨pos, hpos, rfl, rfl⟩, ts, c2, h2, h3⟩ := h
      obtain ⟨e1, e2, e3⟩ := mapMGen_vt_snd newΓ targets _ _ _ h2
      subst e1 e2
      obtain ⟨ih1, ih2, ih3⟩ := connections_go_spec Γ newΓ rest _ _ _ _ h3
      refine ⟨?_, ih2, ?_⟩
      · rw [ih1]
        simp [insertAll, entriesOf, hbe, posIn, hpos, TempNum.toNat, List.foldl_append]
      · intro e he
        simp only [List.mem_cons] at he
        rcases he with rfl | he
        · exact ⟨by simp [hpos], e3⟩
        · exact ih3 e he
    | false =>
      simp only [hbe, Bool.false_eq_true, if_false, run_bind_ok, mockSym_variableTemporary,
        vt_run_ok] at h
      obtain ⟨k1, c1, ⟨pos, hpos, rfl, rfl⟩, ts1, c2, h2, k2, c3, ⟨pos', hpos', rfl, rfl⟩,
        ts2, c4, h4, h5⟩ := h
      rw [hpos] at hpos'
      cases hpos'
      obtain ⟨e1, e2, e3⟩ := mapMGen_vt_fst newΓ targets _ _ _ h2
      subst e1 e2
      obtain ⟨e4, e5, e6⟩ := mapMGen_vt_snd newΓ targets _ _ _ h4
      subst e4 e5
      obtain ⟨ih1, ih2, ih3⟩ := connections_go_spec Γ newΓ rest _ _ _ _ h5
      refine ⟨?_, ih2, ?_⟩
      · rw [ih1]
        simp [insertAll, entriesOf, hbe, posIn, hpos, TempNum.toNat, List.foldl_append]
      · intro e he
        simp only [List.mem_cons] at he
        rcases he with rfl | he
        · exact ⟨by simp [hpos], e3⟩
        · exact ih3 e he

/-! ## the entries -/

theorem mem_entriesOf {Γ newΓ : Ctx} {e : Binding × List Nat} {e0 : Nat × List Nat} :
    e0 ∈ entriesOf Γ newΓ e ↔
      e0 = (2 * posIn Γ e.1.var.id + 1, e.2.map fun id => 2 * posIn newΓ id + 1) ∨
      (e.1.chi ≠ .ext ∧ e0 = (2 * posIn Γ e.1.var.id, e.2.map fun id => 2 * posIn newΓ id)) := by
  unfold entriesOf
  cases hbe : (e.1.chi == Chi.ext) with
  | true =>
    have := chi_beq_ext.mp hbe
    simp [this]
  | false =>
    have := chi_beq_ext_false.mp hbe
    simp only [Bool.false_eq_true, if_false, List.mem_cons, List.not_mem_nil, or_false]
    constructor
    · rintro (h | h)
      · exact Or.inr ⟨this, h⟩
      · exact Or.inl h
    · rintro (h | ⟨_, h⟩)
      · exact Or.inr h
      · exact Or.inl h

theorem entriesOf_keys_nodup (Γ newΓ : Ctx) (e : Binding × List Nat) :
    ((entriesOf Γ newΓ e).map (·.1)).Nodup := by
  unfold entriesOf
  cases hbe : (e.1.chi == Chi.ext) <;> simp

/-! ## the move problem of a substitution is well formed -/

structure ConnsWF2 (Γ : Ctx) (pairs : List (Binding × Ident)) (pm : List (Nat × List Nat)) : Prop where
  keys : PMoves.KeysNodup pm
  targets : PMoves.TargetsNodup pm
  functional : PMoves.Functional pm
  edgeSnd : ∀ j (hj : j < pairs.length), PMoves.Edge pm (2 * posIn Γ pairs[j].2.id + 1) (2 * j + 1)
  edgeFst : ∀ j (hj : j < pairs.length), pairs[j].1.chi ≠ .ext →
    PMoves.Edge pm (2 * posIn Γ pairs[j].2.id) (2 * j)
  range : ∀ x, x ∈ pm.map (·.1) ∨ x ∈ allTargets pm → x < 2 * Γ.length ∨ x < 2 * pairs.length

/-- the keys of all entries are pairwise distinct -/
theorem entries_keys_nodup (Γ : Ctx) (pairs : List (Binding × Ident)) (newΓ : Ctx)
    (hΓ : (Γ.map (·.var.id)).Nodup) :
    (((transpose pairs Γ).flatMap (entriesOf Γ newΓ)).map (·.1)).Nodup := by
  have hperm := transpose_perm pairs Γ hΓ
  have hΓnd : Γ.Nodup := nodup_of_map_id_nodup Γ hΓ
  rw [List.map_flatMap]
  rw [(hperm.flatMap_right _).nodup_iff, List.flatMap_map]
  apply nodup_flatMap_of _ _ hΓnd
  · intro b _
    exact entriesOf_keys_nodup Γ newΓ _
  · intro a ha b hb x hxa hxb
    obtain ⟨ea, hea, rfl⟩ := List.mem_map.mp hxa
    obtain ⟨eb, heb, hab⟩ := List.mem_map.mp hxb
    obtain ⟨i, hi, rfl, ei⟩ := posIn_of_mem hΓ ha
    obtain ⟨j, hj, rfl, ej⟩ := posIn_of_mem hΓ hb
    have h1 := mem_entriesOf.mp hea
    have h2 := mem_entriesOf.mp heb
    simp only at h1 h2
    rw [ei] at h1
    rw [ej] at h2
    have : i = j := by
      rcases h1 with rfl | ⟨_, rfl⟩ <;> rcases h2 with rfl | ⟨_, rfl⟩ <;> simp only at hab <;> omega
    subst this
    rfl

/-- membership in the entries -/
theorem mem_entries (Γ : Ctx) (pairs : List (Binding × Ident)) (newΓ : Ctx)
    (hΓ : (Γ.map (·.var.id)).Nodup) (e0 : Nat × List Nat) :
    e0 ∈ (transpose pairs Γ).flatMap (entriesOf Γ newΓ) ↔
      ∃ b ∈ Γ, e0 = (2 * posIn Γ b.var.id + 1,
          (targetsOf pairs b).map fun id => 2 * posIn newΓ id + 1) ∨
        (b.chi ≠ .ext ∧ e0 = (2 * posIn Γ b.var.id,
          (targetsOf pairs b).map fun id => 2 * posIn newΓ id)) := by
  rw [List.mem_flatMap]
  constructor
  · rintro ⟨e, he, h⟩
    obtain ⟨b, hb, rfl⟩ := (transpose_spec pairs Γ hΓ e).mp he
    exact ⟨b, hb, mem_entriesOf.mp h⟩
  · rintro ⟨b, hb, h⟩
    exact ⟨(b, targetsOf pairs b), (transpose_spec pairs Γ hΓ _).mpr ⟨b, hb, rfl⟩,
      mem_entriesOf.mpr h⟩

/-- characterisation of the edges of the map -/
theorem conns_edge_iff (Γ : Ctx) (pairs : List (Binding × Ident)) (newΓ : Ctx)
    (hΓ : (Γ.map (·.var.id)).Nodup) (s t : Nat) :
    PMoves.Edge (insertAll ((transpose pairs Γ).flatMap (entriesOf Γ newΓ)) []) s t ↔
      ∃ b ∈ Γ, ∃ p ∈ pairs, b.var.id = p.2.id ∧
        ((s = 2 * posIn Γ b.var.id + 1 ∧ t = 2 * posIn newΓ p.1.var.id + 1) ∨
         (b.chi ≠ .ext ∧ s = 2 * posIn Γ b.var.id ∧ t = 2 * posIn newΓ p.1.var.id)) := by
  obtain ⟨hasc, hmem⟩ := insertAll_spec _ [] (by simp [KeysAsc, Asc])
    (entries_keys_nodup Γ pairs newΓ hΓ) (by simp)
  unfold PMoves.Edge
  constructor
  · rintro ⟨ts, hin, ht⟩
    rcases (hmem (s, ts)).mp hin with h | ⟨e0, he0, h⟩
    · simp at h
    · obtain ⟨b, hb, hcase⟩ := (mem_entries Γ pairs newΓ hΓ e0).mp he0
      rcases hcase with rfl | ⟨hne, rfl⟩
      · simp only [Prod.mk.injEq] at h
        obtain ⟨rfl, rfl⟩ := h
        rw [(setOfList_spec _).2] at ht
        obtain ⟨id, hid, rfl⟩ := List.mem_map.mp ht
        obtain ⟨p, hp, hbp, rfl⟩ := mem_targetsOf.mp hid
        exact ⟨b, hb, p, hp, hbp, Or.inl ⟨rfl, rfl⟩⟩
      · simp only [Prod.mk.injEq] at h
        obtain ⟨rfl, rfl⟩ := h
        rw [(setOfList_spec _).2] at ht
        obtain ⟨id, hid, rfl⟩ := List.mem_map.mp ht
        obtain ⟨p, hp, hbp, rfl⟩ := mem_targetsOf.mp hid
        exact ⟨b, hb, p, hp, hbp, Or.inr ⟨hne, rfl, rfl⟩⟩
  · rintro ⟨b, hb, p, hp, hbp, ⟨rfl, rfl⟩ | ⟨hne, rfl, rfl⟩⟩
    · refine ⟨_, (hmem _).mpr (Or.inr ⟨_, (mem_entries Γ pairs newΓ hΓ _).mpr
        ⟨b, hb, Or.inl rfl⟩, rfl⟩), ?_⟩
      rw [(setOfList_spec _).2]
      exact List.mem_map.mpr ⟨p.1.var.id, mem_targetsOf.mpr ⟨p, hp, hbp, rfl⟩, rfl⟩
    · refine ⟨_, (hmem _).mpr (Or.inr ⟨_, (mem_entries Γ pairs newΓ hΓ _).mpr
        ⟨b, hb, Or.inr ⟨hne, rfl⟩⟩, rfl⟩), ?_⟩
      rw [(setOfList_spec _).2]
      exact List.mem_map.mpr ⟨p.1.var.id, mem_targetsOf.mpr ⟨p, hp, hbp, rfl⟩, rfl⟩

/-- position of a new variable -/
theorem posIn_new (pairs : List (Binding × Ident)) (hnew : (pairs.map (·.1.var.id)).Nodup) :
    ∀ p ∈ pairs, ∃ j, ∃ hj : j < pairs.length, pairs[j] = p ∧
      posIn (pairs.map (·.1)) p.1.var.id = j := by
  have hnewΓ : ((pairs.map (·.1)).map (·.var.id)).Nodup := by
    rw [List.map_map]; exact hnew
  intro p hp
  obtain ⟨j, hj, rfl⟩ := List.getElem_of_mem hp
  refine ⟨j, hj, rfl, ?_⟩
  have hj' : j < (pairs.map (·.1)).length := by simpa using hj
  have := posIn_getElem hnewΓ hj'
  simpa using this

theorem posIn_new_idx (pairs : List (Binding × Ident)) (hnew : (pairs.map (·.1.var.id)).Nodup)
    (j : Nat) (hj : j < pairs.length) : posIn (pairs.map (·.1)) pairs[j].1.var.id = j := by
  obtain ⟨j', hj', e1, e2⟩ := posIn_new pairs hnew pairs[j] (List.getElem_mem hj)
  have hjj : j' = j := by
    have hn : (pairs.map (·.1.var.id))[j']'(by simpa using hj') =
        (pairs.map (·.1.var.id))[j]'(by simpa using hj) := by simp [e1]
    exact (List.getElem_inj hnew).mp hn
  rw [e2, hjj]

theorem conns_wf2 (Γ : Ctx) (pairs : List (Binding × Ident)) (hΓ : (Γ.map (·.var.id)).Nodup)
    (hnew : (pairs.map (·.1.var.id)).Nodup)
    (hold : ∀ p ∈ pairs, ∃ b ∈ Γ, b.var.id = p.2.id ∧ b.chi = p.1.chi) :
    ConnsWF2 Γ pairs
      (insertAll ((transpose pairs Γ).flatMap (entriesOf Γ (pairs.map (·.1)))) []) := by
  obtain ⟨hasc, hmem⟩ := insertAll_spec _ [] (by simp [KeysAsc, Asc])
    (entries_keys_nodup Γ pairs (pairs.map (·.1)) hΓ) (by simp)
  have hedge := conns_edge_iff Γ pairs (pairs.map (·.1)) hΓ
  have hposNew := posIn_new pairs hnew
  exact {
    keys := Asc.nodup hasc
    targets := by
      intro kv hkv
      rcases (hmem kv).mp hkv with h | ⟨e0, _, rfl⟩
      · simp at h
      · exact Asc.nodup (setOfList_spec _).1
    functional := by
      intro s s' t h1 h2
      obtain ⟨b, hb, p, hp, hbp, hc⟩ := (hedge s t).mp h1
      obtain ⟨b', hb', p', hp', hbp', hc'⟩ := (hedge s' t).mp h2
      obtain ⟨j, hj, rfl, ej⟩ := hposNew p hp
      obtain ⟨j', hj', rfl, ej'⟩ := hposNew p' hp'
      rw [ej] at hc
      rw [ej'] at hc'
      rw [hbp] at hc
      rw [hbp'] at hc'
      rcases hc with ⟨rfl, rfl⟩ | ⟨_, rfl, rfl⟩ <;> rcases hc' with ⟨rfl, ht⟩ | ⟨_, rfl, ht⟩
      · have : j = j' := by omega
        subst this; rfl
      · omega
      · omega
      · have : j = j' := by omega
        subst this; rfl
    edgeSnd := by
      intro j hj
      obtain ⟨b, hb, hbid, _⟩ := hold pairs[j] (List.getElem_mem hj)
      rw [hedge]
      refine ⟨b, hb, pairs[j], List.getElem_mem hj, hbid, Or.inl ⟨by rw [hbid], ?_⟩⟩
      rw [posIn_new_idx pairs hnew j hj]
    edgeFst := by
      intro j hj hne
      obtain ⟨b, hb, hbid, hchi⟩ := hold pairs[j] (List.getElem_mem hj)
      rw [hedge]
      refine ⟨b, hb, pairs[j], List.getElem_mem hj, hbid,
        Or.inr ⟨by rw [hchi]; exact hne, by rw [hbid], ?_⟩⟩
      rw [posIn_new_idx pairs hnew j hj]
    range := by
      intro x hx
      rcases hx with hx | hx
      · obtain ⟨e, he, rfl⟩ := List.mem_map.mp hx
        rcases (hmem e).mp he with h | ⟨e0, he0, rfl⟩
        · simp at h
        · obtain ⟨b, hb, hcase⟩ := (mem_entries Γ pairs _ hΓ e0).mp he0
          obtain ⟨i, hi, _, ei⟩ := posIn_of_mem hΓ hb
          rcases hcase with rfl | ⟨_, rfl⟩
          · simp only [ei]; omega
          · simp only [ei]; omega
      · unfold allTargets at hx
        obtain ⟨e, he, hxe⟩ := List.mem_flatMap.mp hx
        have : PMoves.Edge _ e.1 x := ⟨e.2, he, hxe⟩
        obtain ⟨b, hb, p, hp, _, hc⟩ := (hedge _ _).mp this
        obtain ⟨j, hj, _, ej⟩ := hposNew p hp
        rw [ej] at hc
        rcases hc with ⟨_, rfl⟩ | ⟨_, _, rfl⟩ <;> omega }

/-! ## non-vacuity -/

/-- old context `x : ext, k : cns`; new context `k' := k, y := x, z := x` -/
def exΓ : Ctx := [⟨⟨"x", 1⟩, .ext, .i64⟩, ⟨⟨"k", 2⟩, .cns, .i64⟩]
def exPairs : List (Binding × Ident) :=
  [(⟨⟨"k'", 3⟩, .cns, .i64⟩, ⟨"k", 2⟩), (⟨⟨"y", 4⟩, .ext, .i64⟩, ⟨"x", 1⟩),
   (⟨⟨"z", 5⟩, .ext, .i64⟩, ⟨"x", 1⟩)]

example : (exΓ.map (·.var.id)).Nodup ∧ (exPairs.map (·.1.var.id)).Nodup ∧
    ∀ p ∈ exPairs, ∃ b ∈ exΓ, b.var.id = p.2.id ∧ b.chi = p.1.chi := by
  unfold exΓ exPairs; decide

example : (connections.go mockSym exΓ (exPairs.map (·.1)) (transpose exPairs exΓ) []).run 7 =
    .ok ([(1, [3, 5]), (2, [0]), (3, [1])], 7) := by rfl

end Scc.Backend.Subst
