/-
  Scc.Backend.ProofsSubstObj — Theorem A for `subst` on ARBITRARY contexts (objects and closures may be
  dropped, duplicated, moved):
    * `urc_step`: the code of `update_reference_count` for one binding (erase | nothing | share n)
      against the counting invariant: the root of the binding is replaced by one root per target;
    * `run_cwc`: the whole `code_weakening_contraction`, in the order of the transposed map;
    * `sim2_subst`: then the parallel moves of BOTH temporaries of every position
      (ProofsConn2.lean, PMoves correctness) give a configuration representing the new environment.
  Proof file.
-/
import Scc.Backend.ProofsErase
import Scc.Backend.ProofsSubstRoots
import Scc.Backend.ProofsSim2

set_option linter.unusedSimpArgs false
set_option linter.unusedVariables false

namespace Scc.Backend.Subst

open Scc.AxCut Scc.AxCut.Pos Scc.Backend Scc.Backend.Abs Scc.Backend.Sim Scc.Backend.Sim2 Scc.Backend.PM

theorem instrCount_append : ∀ (a b : List MockOp), instrCount (a ++ b) = instrCount a + instrCount b
  | [], b => by simp [instrCount]
  | op :: a, b => by
    cases op <;> simp [instrCount, instrCount_append a b] <;> omega

/-- the root list of a pointer -/
def rp (p : Word) : List Nat := if p != 0 then [p.toNat] else []

theorem rootOf_nonext {σ : Temps} {b : Binding} {i : Nat} {p : Word} (hc : b.chi ≠ .ext)
    (hg : σ.get (2 * i) = some p) : rootOf σ b i = rp p := by
  have h1 : (b.chi != .ext) = true := (Sim2.chi_bne_ext _).mpr hc
  simp [rootOf, h1, hg, rp]

theorem count_replicate_flatten (k : Nat) (l : List Nat) (x : Nat) :
    ((List.replicate k l).flatten).count x = k * l.count x := by
  induction k with
  | zero => simp
  | succ k ih =>
    simp only [List.replicate_succ, List.flatten_cons, List.count_append, ih]
    rw [Nat.succ_mul]; omega

/-! ## `update_reference_count` for one binding -/

theorem urc_run_ok (var : Ident) (Γ : Ctx) (n : Nat) (c : Nat) (code : List MockOp) (c' : Nat) :
    (updateReferenceCount mockSym var Γ n).run c = .ok (code, c') →
    ∃ pos, Mock.ctxPosition Γ var.id = some pos ∧ c = c' ∧
      code = match n with
        | 0 => [MockOp.comment ("#erase " ++ var.print), MockOp.erase (2 * pos)]
        | 1 => []
        | m + 2 => [MockOp.comment ("#share " ++ var.print), MockOp.share (2 * pos) (m + 1)] := by
  intro h
  unfold updateReferenceCount at h
  simp only [run_bind_ok, mockSym_variableTemporary, vt_run_ok] at h
  obtain ⟨t, c1, ⟨pos, hpos, rfl, rfl⟩, h⟩ := h
  refine ⟨pos, hpos, ?_⟩
  match n with
  | 0 =>
    simp only [mockSym_eraseBlock, run_bind_ok, run_pure_ok, mockSym_comment] at h
    obtain ⟨cd, c2, ⟨rfl, rfl⟩, rfl, rfl⟩ := h
    exact ⟨rfl, by simp [TempNum.toNat]⟩
  | 1 =>
    simp only [run_pure_ok] at h
    exact ⟨h.2, h.1.symm⟩
  | m + 2 =>
    simp only [mockSym_shareBlockN, run_bind_ok, run_pure_ok, mockSym_comment] at h
    obtain ⟨cd, c2, ⟨rfl, rfl⟩, rfl, rfl⟩ := h
    exact ⟨rfl, by simp [TempNum.toNat]⟩

theorem urc_step {P : Program} {hooks : Bool} {types : List TypeDecl} {Γ : Ctx} {b : Binding} (tl : Nat)
    (cfg : Config) (code : List MockOp) (c c' : Nat)
    (hrun : (updateReferenceCount mockSym b.var Γ tl).run c = .ok (code, c'))
    (hat : CodeAt P cfg.pc code)
    (p : Word) (hp : cfg.temps.get (2 * posIn Γ b.var.id) = some p)
    (hcap : 2 * posIn Γ b.var.id ≠ Mock.T_TEMP)
    (acc rs : List Nat) (H : HeapOK cfg.heap (acc ++ rp p ++ rs) cfg.next) :
    ∃ k cfg1, stepsTo P k cfg cfg1 ∧ cfg1.pc = cfg.pc + instrCount code ∧ cfg1.out = cfg.out ∧
      cfg1.next = cfg.next ∧ c = c' ∧
      HeapOK cfg1.heap (acc ++ (List.replicate tl (rp p)).flatten ++ rs) cfg1.next ∧
      (∀ t, t ≠ Mock.T_TEMP → (t ≠ 2 * posIn Γ b.var.id ∨ 0 < tl) → cfg1.temps.get t = cfg.temps.get t) ∧
      (∀ (v : Value) (p' : Option Word) (w : Word), RepV P hooks types cfg.heap v p' w →
        (tl = 0 → ∀ r, p' = some r → r ≠ 0 → r.toNat ∈ acc ++ rs) →
        RepV P hooks types cfg1.heap v p' w) := by
  obtain ⟨pos, hpos, hcc, hcode⟩ := urc_run_ok _ _ _ _ _ _ hrun
  have hposIn : posIn Γ b.var.id = pos := by unfold posIn; rw [hpos]; rfl
  rw [hposIn] at hp hcap ⊢
  cases tl with
  | zero =>
    simp only at hcode
    subst hcode
    simp only [CodeAt] at hat
    obtain ⟨hc, _⟩ := hat
    have H' : HeapOK cfg.heap ((acc ++ rs) ++ (if p != 0 then [p.toNat] else [])) cfg.next := by
      apply heapOK_count_congr H
      intro x
      simp only [rp, List.count_append]
      omega
    obtain ⟨h', he, Hh, hrep⟩ := erase_ok (P := P) (hooks := hooks) (types := types) p H'
    refine ⟨1, _, stepsTo_one P _ _ (step_erase P cfg _ p h' hc hp he), by simp [instrCount], rfl, rfl,
      hcc, ?_, ?_, ?_⟩
    · simpa using Hh
    · intro t ht hor
      have htp : t ≠ 2 * pos := by
        rcases hor with h | h
        · exact h
        · omega
      show ((clobberTemp cfg.temps).unset (2 * pos)).get t = _
      rw [get_unset_other _ htp, get_clobberTemp _ ht]
    · intro v p' w hv hcond
      exact hrep v p' w hv (hcond rfl)
  | succ n =>
  cases n with
  | zero =>
    simp only at hcode
    subst hcode
    refine ⟨0, cfg, rfl, by simp [instrCount], rfl, rfl, hcc, ?_, fun _ _ _ => rfl, fun _ _ _ hv _ => hv⟩
    simpa using H
  | succ m =>
    simp only at hcode
    subst hcode
    simp only [CodeAt] at hat
    obtain ⟨hc, _⟩ := hat
    have hmem : p ≠ 0 → p.toNat ∈ acc ++ rp p ++ rs := by
      intro h0
      have : (p != 0) = true := by rw [bne_iff_ne]; exact h0
      simp only [rp, this, if_true, List.mem_append, List.mem_singleton]
      exact Or.inl (Or.inr trivial)
    obtain ⟨h', he, Hh, hk⟩ := share_heapOK p (m + 1) hmem H
    refine ⟨1, _, stepsTo_one P _ _ (step_share P cfg _ _ p h' hc hp he), by simp [instrCount], rfl, rfl,
      hcc, ?_, ?_, ?_⟩
    · apply heapOK_count_congr Hh
      intro x
      have e : (if p != 0 then [p.toNat] else []) = rp p := rfl
      rw [e]
      simp only [List.count_append, count_replicate_flatten]
      rw [show m + 2 = (m + 1) + 1 by omega, Nat.succ_mul]
      omega
    · intro t ht _
      show (clobberTemp cfg.temps).get t = _
      exact get_clobberTemp _ ht
    · intro v p' w hv _
      exact RepV.kept hk hv

/-! ## the whole `code_weakening_contraction` -/

theorem getElem_inj_ids {Γ : Ctx} (hΓ : (Γ.map (·.var.id)).Nodup) {i j : Nat} (hi : i < Γ.length)
    (hj : j < Γ.length) (h : Γ[i] = Γ[j]) : i = j := by
  have : (Γ.map (·.var.id))[i]'(by simpa using hi) = (Γ.map (·.var.id))[j]'(by simpa using hj) := by
    simp [h]
  exact (List.getElem_inj hΓ).mp this

theorem mem_replicate_flatten {k : Nat} {l : List Nat} {y : Nat} (hk : 0 < k) (hy : y ∈ l) :
    y ∈ (List.replicate k l).flatten := by
  cases k with
  | zero => omega
  | succ k => simp [List.replicate_succ, hy]

theorem run_cwc {P : Program} {hooks : Bool} {types : List TypeDecl} {Γ : Ctx} {ρ : List Value}
    {pairs : List (Binding × Ident)} {σ0 : Temps}
    (hΓ : (Γ.map (·.var.id)).Nodup) (hcap : 2 * Γ.length + 2 < Mock.T_TEMP)
    (hptr : ∀ i (hi : i < Γ.length), Γ[i].chi ≠ .ext → (σ0.get (2 * i)).isSome) :
    ∀ (rest : List (Binding × List Nat)) (acc : List Nat) (cfg : Config) (code : List MockOp) (c c' : Nat),
    (codeWeakeningContraction mockSym rest Γ).run c = .ok (code, c') → CodeAt P cfg.pc code →
    (∀ e ∈ rest, e.1 ∈ Γ ∧ e.2 = targetsOf pairs e.1) → (rest.map (·.1.var.id)).Nodup →
    HeapOK cfg.heap (acc ++ rootsT σ0 Γ rest) cfg.next →
    (∀ i (hi : i < Γ.length), targetsOf pairs Γ[i] ≠ [] → Γ[i].chi ≠ .ext →
      (∃ e ∈ rest, e.1 = Γ[i]) ∨ (∀ y ∈ rootOf σ0 Γ[i] i, y ∈ acc)) →
    (∀ i (hi : i < Γ.length), (targetsOf pairs Γ[i] ≠ [] ∨ ∃ e ∈ rest, e.1 = Γ[i]) →
      cfg.temps.get (2 * i) = σ0.get (2 * i) ∧ cfg.temps.get (2 * i + 1) = σ0.get (2 * i + 1)) →
    (∀ i (hi : i < Γ.length) (hi2 : i < ρ.length), targetsOf pairs Γ[i] ≠ [] →
      RepV P hooks types cfg.heap ρ[i] (if Γ[i].chi == .ext then none else σ0.get (2 * i))
        ((σ0.get (2 * i + 1)).getD 0)) →
    ∃ k cfg1, stepsTo P k cfg cfg1 ∧ cfg1.pc = cfg.pc + instrCount code ∧ cfg1.out = cfg.out ∧
      cfg1.next = cfg.next ∧ c = c' ∧
      HeapOK cfg1.heap (acc ++ rootsDone σ0 Γ rest) cfg1.next ∧
      (∀ i (hi : i < Γ.length), targetsOf pairs Γ[i] ≠ [] →
        cfg1.temps.get (2 * i) = σ0.get (2 * i) ∧ cfg1.temps.get (2 * i + 1) = σ0.get (2 * i + 1)) ∧
      (∀ i (hi : i < Γ.length) (hi2 : i < ρ.length), targetsOf pairs Γ[i] ≠ [] →
        RepV P hooks types cfg1.heap ρ[i] (if Γ[i].chi == .ext then none else σ0.get (2 * i))
          ((σ0.get (2 * i + 1)).getD 0))
  | [], acc, cfg, code, c, c', hrun, _, _, _, H, _, T, Vv => by
    simp only [codeWeakeningContraction, run_pure_ok] at hrun
    obtain ⟨rfl, rfl⟩ := hrun
    refine ⟨0, cfg, rfl, by simp [instrCount], rfl, rfl, rfl, ?_, ?_, Vv⟩
    · simpa [rootsT, rootsDone] using H
    · intro i hi hS; exact T i hi (Or.inl hS)
  | (b, targets) :: rest', acc, cfg, code, c, c', hrun, hat, hent, hnd, H, J, T, Vv => by
    unfold codeWeakeningContraction at hrun
    simp only [run_bind_ok, run_pure_ok] at hrun
    obtain ⟨code1, c1, h1, code2, c2, h2, rfl, rfl⟩ := hrun
    rw [CodeAt_append] at hat
    obtain ⟨hat1, hat2⟩ := hat
    obtain ⟨hbΓ, htg⟩ := hent (b, targets) (by simp)
    simp only at hbΓ htg
    obtain ⟨i, hi, hgi, hposi⟩ := posIn_of_mem hΓ hbΓ
    have hent' : ∀ e ∈ rest', e.1 ∈ Γ ∧ e.2 = targetsOf pairs e.1 := fun e he => hent e (by simp [he])
    simp only [List.map_cons, List.nodup_cons] at hnd
    -- an entry of the rest is at another position
    have hother : ∀ e ∈ rest', e.1 ≠ b := by
      intro e he hc
      exact hnd.1 (List.mem_map.mpr ⟨e, he, by rw [hc]⟩)
    by_cases hext : b.chi = .ext
    · -- `ext`: no code, no root
      have hbne : (b.chi != .ext) = false := (Sim2.chi_bne_ext_false _).mpr hext
      simp only [hbne, Bool.false_eq_true, if_false, run_pure_ok] at h1
      obtain ⟨rfl, rfl⟩ := h1
      have hroot : rootAt σ0 Γ b = [] := rootOf_ext σ0 hext _
      have H' : HeapOK cfg.heap (acc ++ rootsT σ0 Γ rest') cfg.next := by
        simpa [rootsT, hroot] using H
      have J' : ∀ i' (hi' : i' < Γ.length), targetsOf pairs Γ[i'] ≠ [] → Γ[i'].chi ≠ .ext →
          (∃ e ∈ rest', e.1 = Γ[i']) ∨ (∀ y ∈ rootOf σ0 Γ[i'] i', y ∈ acc) := by
        intro i' hi' hS hne
        rcases J i' hi' hS hne with ⟨e, he, hee⟩ | h
        · rcases List.mem_cons.mp he with rfl | he'
          · simp only at hee
            rw [← hee] at hne
            exact absurd hext hne
          · exact Or.inl ⟨e, he', hee⟩
        · exact Or.inr h
      have T' : ∀ i' (hi' : i' < Γ.length), (targetsOf pairs Γ[i'] ≠ [] ∨ ∃ e ∈ rest', e.1 = Γ[i']) →
          cfg.temps.get (2 * i') = σ0.get (2 * i') ∧ cfg.temps.get (2 * i' + 1) = σ0.get (2 * i' + 1) := by
        intro i' hi' h
        apply T i' hi'
        rcases h with h | ⟨e, he, hee⟩
        · exact Or.inl h
        · exact Or.inr ⟨e, by simp [he], hee⟩
      obtain ⟨k, cfg1, hs, hpc, hout, hnext, hcc, H1, T1, V1⟩ :=
        run_cwc hΓ hcap hptr rest' acc cfg code2 _ _ h2 (by simpa [instrCount] using hat2) hent' hnd.2 H' J' T' Vv
      refine ⟨k, cfg1, hs, by simpa [instrCount] using hpc, hout, hnext, hcc, ?_, T1, V1⟩
      simpa [rootsDone, hroot, flatten_replicate_nil] using H1
    · -- an object or closure variable
      have hbne : (b.chi != .ext) = true := (Sim2.chi_bne_ext _).mpr hext
      simp only [hbne, if_true] at h1
      have hci : Γ[i].chi ≠ .ext := by rw [hgi]; exact hext
      obtain ⟨hT0, _⟩ := T i hi (Or.inr ⟨(b, targets), by simp, hgi.symm⟩)
      obtain ⟨p, hp0⟩ := Option.isSome_iff_exists.mp (hptr i hi hci)
      have hp : cfg.temps.get (2 * posIn Γ b.var.id) = some p := by rw [hposi, hT0, hp0]
      have hroot : rootAt σ0 Γ b = rp p := by
        unfold rootAt; rw [hposi]; exact rootOf_nonext hext hp0
      have hrooti : rootOf σ0 Γ[i] i = rp p := rootOf_nonext hci hp0
      have H0 : HeapOK cfg.heap (acc ++ rp p ++ rootsT σ0 Γ rest') cfg.next := by
        have : rootsT σ0 Γ ((b, targets) :: rest') = rp p ++ rootsT σ0 Γ rest' := by
          simp [rootsT, hroot]
        rw [this, ← List.append_assoc] at H
        exact H
      obtain ⟨k1, cfg1, hs1, hpc1, hout1, hnext1, hcc1, H1, ht1, hr1⟩ :=
        urc_step (P := P) (hooks := hooks) (types := types) targets.length cfg code1 c c1 h1 hat1 p hp
          (by rw [hposi]; omega) acc (rootsT σ0 Γ rest') H0
      subst hcc1
      have hS_tl : targetsOf pairs Γ[i] ≠ [] → 0 < targets.length := by
        intro h
        rw [hgi, ← htg] at h
        exact List.length_pos_iff.mpr h
      -- the invariants after this binding
      have J' : ∀ i' (hi' : i' < Γ.length), targetsOf pairs Γ[i'] ≠ [] → Γ[i'].chi ≠ .ext →
          (∃ e ∈ rest', e.1 = Γ[i']) ∨
            (∀ y ∈ rootOf σ0 Γ[i'] i', y ∈ acc ++ (List.replicate targets.length (rp p)).flatten) := by
        intro i' hi' hS hne
        rcases J i' hi' hS hne with ⟨e, he, hee⟩ | h
        · rcases List.mem_cons.mp he with rfl | he'
          · simp only at hee
            have hii : i' = i := getElem_inj_ids hΓ hi' hi (by rw [← hee, hgi])
            subst hii
            right
            intro y hy
            rw [hrooti] at hy
            exact List.mem_append.mpr (Or.inr (mem_replicate_flatten (hS_tl hS) hy))
          · exact Or.inl ⟨e, he', hee⟩
        · exact Or.inr (fun y hy => List.mem_append.mpr (Or.inl (h y hy)))
      have T' : ∀ i' (hi' : i' < Γ.length), (targetsOf pairs Γ[i'] ≠ [] ∨ ∃ e ∈ rest', e.1 = Γ[i']) →
          cfg1.temps.get (2 * i') = σ0.get (2 * i') ∧ cfg1.temps.get (2 * i' + 1) = σ0.get (2 * i' + 1) := by
        intro i' hi' h
        have hold' := T i' hi' (by
          rcases h with h | ⟨e, he, hee⟩
          · exact Or.inl h
          · exact Or.inr ⟨e, by simp [he], hee⟩)
        have hcond : 2 * i' ≠ 2 * posIn Γ b.var.id ∨ 0 < targets.length := by
          rw [hposi]
          by_cases hii : i' = i
          · subst hii
            rcases h with h | ⟨e, he, hee⟩
            · exact Or.inr (hS_tl h)
            · exact absurd (hee.trans hgi) (hother e he)
          · left; omega
        refine ⟨?_, ?_⟩
        · rw [ht1 _ (by omega) hcond]; exact hold'.1
        · rw [ht1 _ (by omega) (Or.inl (by omega))]; exact hold'.2
      have V' : ∀ i' (hi' : i' < Γ.length) (hi2 : i' < ρ.length), targetsOf pairs Γ[i'] ≠ [] →
          RepV P hooks types cfg1.heap ρ[i'] (if Γ[i'].chi == .ext then none else σ0.get (2 * i'))
            ((σ0.get (2 * i' + 1)).getD 0) := by
        intro i' hi' hi2 hS
        apply hr1 _ _ _ (Vv i' hi' hi2 hS)
        intro htl0 r hr hr0
        by_cases hce : (Γ[i'].chi == .ext) = true
        · simp [hce] at hr
        · simp only [hce, Bool.false_eq_true, if_false] at hr
          have hne : Γ[i'].chi ≠ .ext := fun e => hce ((Sim2.chi_beq_ext _).mpr e)
          have hroot' : rootOf σ0 Γ[i'] i' = [r.toNat] := by
            rw [rootOf_nonext hne hr]
            have : (r != 0) = true := by rw [bne_iff_ne]; exact hr0
            simp only [rp, this, if_true]
          rcases J i' hi' hS hne with ⟨e, he, hee⟩ | h
          · rcases List.mem_cons.mp he with rfl | he'
            · simp only at hee
              have hii : i' = i := getElem_inj_ids hΓ hi' hi (by rw [← hee, hgi])
              subst hii
              have := hS_tl hS
              omega
            · apply List.mem_append.mpr
              right
              unfold rootsT
              rw [List.mem_flatMap]
              refine ⟨e, he', ?_⟩
              unfold rootAt
              rw [hee, posIn_getElem hΓ hi', hroot']
              simp
          · exact List.mem_append.mpr (Or.inl (h _ (by rw [hroot']; simp)))
      have H1' : HeapOK cfg1.heap ((acc ++ (List.replicate targets.length (rp p)).flatten) ++
          rootsT σ0 Γ rest') cfg1.next := H1
      obtain ⟨k2, cfg2, hs2, hpc2, hout2, hnext2, hcc2, H2, T2, V2⟩ :=
        run_cwc hΓ hcap hptr rest' _ cfg1 code2 _ _ h2 (by rw [hpc1]; exact hat2) hent' hnd.2 H1' J' T' V'
      refine ⟨k1 + k2, cfg2, stepsTo_trans P _ _ _ _ _ hs1 hs2, ?_, by rw [hout2, hout1],
        by rw [hnext2, hnext1], hcc2, ?_, T2, V2⟩
      · rw [hpc2, hpc1, instrCount_append]; omega
      · have : rootsDone σ0 Γ ((b, targets) :: rest') =
            (List.replicate targets.length (rp p)).flatten ++ rootsDone σ0 Γ rest' := by
          simp [rootsDone, hroot]
        rw [this, ← List.append_assoc]
        exact H2

/-! ## simulation: `subst` -/

theorem sim2_subst {P : Program} {hooks : Bool} {prog : Prog} {Γ : Ctx} {ρ : List Value}
    {pairs : List (Binding × Ident)} {next : Stmt} {cfg : Config} {vs : List Value}
    (R : RelX P hooks prog ⟨Γ, ρ, .subst pairs next⟩ cfg)
    (hΓ : (Γ.map (·.var.id)).Nodup)
    (hnew : (pairs.map (·.1.var.id)).Nodup)
    (hold : ∀ p ∈ pairs, ∃ b ∈ Γ, b.var.id = p.2.id ∧ b.chi = p.1.chi)
    (hcap : 2 * pairs.length + 2 < Mock.T_TEMP)
    (hvs : Pos.step.build Γ ρ pairs = .ok vs) :
    ∃ k cfg', stepsTo P k cfg cfg' ∧ cfg'.out = cfg.out ∧ cfg'.next = cfg.next ∧
      RelX P hooks prog ⟨pairs.map (·.1), vs, next⟩ cfg' := by
  obtain ⟨c, c', ops, hrun, hat⟩ := R.code
  simp only [codeStatementR, run_bind_ok, run_pure_ok] at hrun
  obtain ⟨c1, k1, h1, c2, k2, h2, c3, k3, h3, rfl, rfl⟩ := hrun
  have hcapΓ := R.cap
  have hlenρ := R.len
  simp only at hcapΓ hlenρ
  -- code layout
  simp only [mockSym_comment, List.append_assoc, CodeAt_hook] at hat
  simp only [List.cons_append, List.nil_append, CodeAt] at hat
  rw [CodeAt_append] at hat
  obtain ⟨hat1, hat23⟩ := hat
  rw [CodeAt_append] at hat23
  obtain ⟨hat2, hat3⟩ := hat23
  -- the transposed map
  have hperm := transpose_perm pairs Γ hΓ
  have hent : ∀ e ∈ transpose pairs Γ, e.1 ∈ Γ ∧ e.2 = targetsOf pairs e.1 := by
    intro e he
    obtain ⟨b, hb, rfl⟩ := (transpose_spec pairs Γ hΓ e).mp he
    exact ⟨hb, rfl⟩
  have hndtm : ((transpose pairs Γ).map (·.1.var.id)).Nodup := by
    have := (hperm.map (·.1.var.id))
    rw [this.nodup_iff, List.map_map]
    exact hΓ
  have hmemtm : ∀ i (hi : i < Γ.length), ∃ e ∈ transpose pairs Γ, e.1 = Γ[i] := by
    intro i hi
    exact ⟨(Γ[i], targetsOf pairs Γ[i]),
      (transpose_spec pairs Γ hΓ _).mpr ⟨Γ[i], List.getElem_mem hi, rfl⟩, rfl⟩
  have hptr : ∀ i (hi : i < Γ.length), Γ[i].chi ≠ .ext → (cfg.temps.get (2 * i)).isSome := by
    intro i hi hc
    exact (R.vals i hi (by rw [hlenρ]; exact hi)).2.2.2 ((Sim2.chi_bne_ext _).mpr hc)
  -- 1: erase / share
  obtain ⟨ka, cfg1, hs1, hpc1, hout1, hnext1, _, H1, T1, V1⟩ :=
    run_cwc (P := P) (hooks := hooks) (types := prog.types) (ρ := ρ) (pairs := pairs) (σ0 := cfg.temps)
      hΓ hcapΓ hptr (transpose pairs Γ) [] cfg c1 _ _ h1 hat1 hent hndtm
      (by
        apply heapOK_count_congr R.heap
        intro x
        simp only [List.nil_append]
        exact roots_count_transpose cfg.temps Γ pairs hΓ x)
      (fun i hi _ _ => Or.inl (hmemtm i hi))
      (fun i hi _ => ⟨rfl, rfl⟩)
      (fun i hi hi2 _ => (R.vals i hi hi2).1)
  -- 2: the moves
  unfold codeExchange connections at h2
  simp only [run_bind_ok] at h2
  obtain ⟨conns, k4, h4, h5⟩ := h2
  obtain ⟨rfl, _, _⟩ := connections_go_spec Γ (pairs.map (·.1)) _ _ _ _ _ h4
  have W := conns_wf2 Γ pairs hΓ hnew hold
  obtain ⟨aops, haops, hsem⟩ := PMoves.parallelMovesFuel_correct (V := Option Word)
    (insertAll ((transpose pairs Γ).flatMap (entriesOf Γ (pairs.map (·.1)))) []) W.keys W.targets
    W.functional (fun _ => false)
    (PMoves.fuelFor (insertAll ((transpose pairs Γ).flatMap (entriesOf Γ (pairs.map (·.1)))) []))
    (by unfold PMoves.fuelFor; omega)
  have hmine := parallelMoves_eq _ aops haops
  rw [hmine] at h5
  simp only [run_pure_ok] at h5
  obtain ⟨rfl, rfl⟩ := h5
  have hne : ∀ x ∈ codeTemps (aops.map aopToMock), x ≠ Mock.T_TEMP := by
    intro x hx
    rcases W.range x (parallelMoves_temps _ _ hmine x hx) with h | h <;> omega
  obtain ⟨cfg2, hs2, hpc2, hheap2, hnext2, hout2, hag, _⟩ :=
    run_moves P aops cfg1 (fun t => cfg1.temps.get t) cfg1.scratch (by rw [hpc1]; exact hat2) hne
      (fun _ _ => rfl) rfl
  have hsem' := (hsem (fun t => cfg1.temps.get t) cfg1.scratch).1
  obtain ⟨hlen, hbuild⟩ := build_spec Γ ρ pairs vs hvs
  -- the source of a new position
  have hsrc : ∀ j (hj : j < pairs.length) (hv : j < vs.length),
      ∃ i, ∃ hi : i < Γ.length, posIn Γ pairs[j].2.id = i ∧ ρ[i]? = some vs[j] ∧
        targetsOf pairs Γ[i] ≠ [] ∧ Γ[i].chi = pairs[j].1.chi := by
    intro j hj hv
    obtain ⟨i, hpos, hval⟩ := hbuild j hj hv
    have hi := posOf_lt hpos
    obtain ⟨_, hid⟩ := posOf_getElem hpos
    refine ⟨i, hi, posIn_eq hpos, hval, ?_, ?_⟩
    · intro hnil
      have : pairs[j].1.var.id ∈ targetsOf pairs Γ[i] :=
        mem_targetsOf.mpr ⟨pairs[j], List.getElem_mem hj, hid, rfl⟩
      rw [hnil] at this
      cases this
    · obtain ⟨b, hb, hbid, hbchi⟩ := hold pairs[j] (List.getElem_mem hj)
      obtain ⟨i', hi', hgi', hposi'⟩ := posIn_of_mem hΓ hb
      have : i' = i := by rw [← hposi', hbid]; exact posIn_eq hpos
      subst this
      rw [hgi']; exact hbchi
  have hget1 : ∀ j (hj : j < pairs.length) (hv : j < vs.length) (i : Nat) (hi : i < Γ.length),
      posIn Γ pairs[j].2.id = i → targetsOf pairs Γ[i] ≠ [] →
      cfg2.temps.get (2 * j + 1) = cfg.temps.get (2 * i + 1) := by
    intro j hj hv i hi hpi hS
    rw [hag _ (by omega)]
    have := hsem' _ _ (W.edgeSnd j hj)
    rw [hpi] at this
    rw [this]
    exact (T1 i hi hS).2
  have hget0 : ∀ j (hj : j < pairs.length) (i : Nat) (hi : i < Γ.length),
      posIn Γ pairs[j].2.id = i → targetsOf pairs Γ[i] ≠ [] → pairs[j].1.chi ≠ .ext →
      cfg2.temps.get (2 * j) = cfg.temps.get (2 * i) := by
    intro j hj i hi hpi hS hne'
    rw [hag _ (by omega)]
    have := hsem' _ _ (W.edgeFst j hj hne')
    rw [hpi] at this
    rw [this]
    exact (T1 i hi hS).1
  refine ⟨ka + instrCount (aops.map aopToMock), cfg2, stepsTo_trans P _ _ _ _ _ hs1 hs2,
    by rw [hout2, hout1], by rw [hnext2, hnext1], ?_⟩
  exact {
    len := by simp [hlen]
    cap := by simpa using hcap
    vals := by
      intro j h1' h2'
      have hj : j < pairs.length := by simpa using h1'
      obtain ⟨i, hi, hpi, hval, hS, hchi⟩ := hsrc j hj h2'
      have hi2 : i < ρ.length := by rw [hlenρ]; exact hi
      have hv : vs[j] = ρ[i] := by
        rw [List.getElem?_eq_getElem hi2] at hval
        exact (Option.some.inj hval).symm
      obtain ⟨_, hsome, hkind, hptr'⟩ := R.vals i hi hi2
      have hrep := V1 i hi hi2 hS
      have hcj : ((List.map (fun p : Binding × Ident => p.1) pairs)[j]'h1').chi = Γ[i].chi := by
        simp [hchi]
      rw [hcj, hget1 j hj h2' i hi hpi hS, hv, hheap2]
      refine ⟨?_, hsome, hkind, ?_⟩
      · by_cases hce : (Γ[i].chi == .ext) = true
        · simpa [hce] using hrep
        · have hne' : pairs[j].1.chi ≠ .ext := by
            rw [← hchi]; exact fun e => hce ((Sim2.chi_beq_ext _).mpr e)
          simp only [hce, Bool.false_eq_true, if_false] at hrep ⊢
          rw [hget0 j hj i hi hpi hS hne']
          exact hrep
      · intro hc
        have hne' : pairs[j].1.chi ≠ .ext := by
          rw [← hchi]; exact (Sim2.chi_bne_ext _).mp hc
        rw [hget0 j hj i hi hpi hS hne']
        exact hptr' hc
    heap := by
      rw [hheap2, hnext2]
      apply heapOK_count_congr H1
      intro x
      simp only [List.nil_append]
      apply roots_new_count cfg.temps cfg2.temps Γ pairs hΓ hold
      intro j hj hne'
      obtain ⟨b, hb, hbid, hbchi⟩ := hold pairs[j] (List.getElem_mem hj)
      obtain ⟨i, hi, hgi, hposi⟩ := posIn_of_mem hΓ hb
      have hpi : posIn Γ pairs[j].2.id = i := by rw [← hbid]; exact hposi
      have hS : targetsOf pairs Γ[i] ≠ [] := by
        intro hnil
        have : pairs[j].1.var.id ∈ targetsOf pairs Γ[i] :=
          mem_targetsOf.mpr ⟨pairs[j], List.getElem_mem hj, by rw [hgi]; exact hbid, rfl⟩
        rw [hnil] at this
        cases this
      rw [hpi]
      exact hget0 j hj i hi hpi hS hne'
    code := ⟨_, _, c3, h3, by rw [hpc2, hpc1]; simpa [Nat.add_assoc] using hat3⟩ }

end Scc.Backend.Subst
