/-
  Scc.Backend.ProofsErase — the `erase` and `share` operations of the abstract backend machine
  (AbstractMachine.lean: `Heap.eraseLoop`, `Heap.erase`, `Heap.share`) against the counting invariant
  `HeapOK` (SimDefs.lean) and the representation relation `RepV` (SimDefs2.lean), for Theorem A.

  * `eraseLoop_ok`: the work list items are references that are being dropped; they count as roots
    (invariant `HeapOK h (rs ++ work) next`).  The loop never runs out of fuel (measure
    `work.length + totalFields`), never meets a dangling reference, ends in a heap satisfying
    `HeapOK h' rs next`, and every representation whose start pointer is one of the remaining roots
    survives.
  * `erase_ok`: the same for `Heap.erase`.
  * `share_heapOK`: `share ref k` adds `k` roots referencing `ref`.
  * `step_erase`, `step_share`: the machine steps.
  Proof file.
-/
import Scc.Backend.ProofsLoad

set_option linter.unusedSimpArgs false
set_option linter.unusedVariables false

namespace Scc.Backend.Sim2

open Scc.AxCut Scc.AxCut.Pos Scc.Backend Scc.Backend.Abs Scc.Backend.Sim

/-! ## `totalFields` -/

theorem totalFields_cons (id : Nat) (o : Obj) (h : Heap) :
    Heap.totalFields ((id, o) :: h) = o.fields.length + Heap.totalFields h := by
  simp [Heap.totalFields]

theorem totalFields_remove_aux : ∀ {h : Heap}, (h.map (·.1)).Nodup → ∀ {id : Nat} {o : Obj},
    Heap.get h id = some o → Heap.totalFields (Heap.remove h id) + o.fields.length = Heap.totalFields h
  | [], _, id, o, hg => by simp [Heap.get] at hg
  | (e1, e2) :: h, hnd, id, o, hg => by
    simp only [List.map_cons, List.nodup_cons] at hnd
    by_cases he : e1 = id
    · subst he
      rw [heap_get_cons_same] at hg
      have ho : e2 = o := Option.some.inj hg
      subst ho
      rw [remove_cons_same, remove_eq_self hnd.1, totalFields_cons]
      omega
    · have hne : id ≠ e1 := fun hc => he hc.symm
      rw [heap_get_cons_ne hne] at hg
      rw [remove_cons_other _ _ he, totalFields_cons, totalFields_cons]
      have := totalFields_remove_aux hnd.2 hg
      omega

theorem totalFields_remove {h : Heap} (hnd : (h.map (·.1)).Nodup) {id : Nat} {o : Obj}
    (hg : h.get id = some o) : (h.remove id).totalFields + o.fields.length = h.totalFields :=
  totalFields_remove_aux hnd hg

theorem totalFields_set {h : Heap} (hnd : (h.map (·.1)).Nodup) {id : Nat} {o o' : Obj}
    (hg : h.get id = some o) (hf : o'.fields = o.fields) :
    (h.set id o').totalFields = h.totalFields := by
  have := totalFields_remove hnd hg
  unfold Heap.set
  rw [totalFields_cons, hf]
  omega

theorem children_length_le (o : Obj) : o.children.length ≤ o.fields.length := by
  unfold Obj.children
  exact List.length_filterMap_le _ _

/-! ## the erase loop -/

theorem eraseLoop_ok {P : Program} {hooks : Bool} {types : List TypeDecl} {next : Nat} :
    ∀ (fuel : Nat) (work : List Nat) (h : Heap) (rs : List Nat),
    HeapOK h (rs ++ work) next → work.length + h.totalFields < fuel →
    ∃ h', Heap.eraseLoop fuel work h = .ok h' ∧ HeapOK h' rs next ∧
      ∀ (v : Value) (p : Option Word) (w : Word), RepV P hooks types h v p w →
        (∀ r, p = some r → r ≠ 0 → r.toNat ∈ rs) → RepV P hooks types h' v p w
  | 0, _, _, _, _, hfuel => by omega
  | fuel + 1, [], h, rs, H, _ =>
    ⟨h, rfl, by simpa using H, fun _ _ _ hv _ => hv⟩
  | fuel + 1, id :: work, h, rs, H, hfuel => by
    have hmem : id ∈ rs ++ id :: work := by simp
    have hlive : (h.get id).isSome := by
      apply H.live
      have : 0 < (rs ++ id :: work).count id := List.count_pos_iff.mpr hmem
      simp only [refCount_eq]
      omega
    cases hg : h.get id with
    | none => simp [hg] at hlive
    | some o =>
      by_cases hcount : o.count > 0
      · -- shared: the count is decremented
        have H1 : HeapOK (h.set id { o with count := o.count - 1 }) (rs ++ work) next := by
          apply heapOK_setCount H hg
          · intro x hx
            have : ¬ (id = x) := fun e => hx e.symm
            simp [List.count_append, List.count_cons, this]
          · simp [List.count_append, List.count_cons]; omega
        have htf : (h.set id { o with count := o.count - 1 }).totalFields = h.totalFields :=
          totalFields_set H.nodup hg rfl
        have hfuel1 : work.length + (h.set id { o with count := o.count - 1 }).totalFields < fuel := by
          rw [htf]; simp only [List.length_cons] at hfuel; omega
        obtain ⟨h', he, H', R'⟩ := eraseLoop_ok (P := P) (hooks := hooks) (types := types)
          fuel work _ rs H1 hfuel1
        refine ⟨h', ?_, H', ?_⟩
        · simp only [Heap.eraseLoop, hg, hcount, if_true]
          exact he
        · intro v p w hv hp
          exact R' v p w (RepV.kept (allFieldsKept_set hg _) hv) hp
      · -- unique: the object is freed, its children are erased in turn
        have h0 : o.count = 0 := by omega
        obtain ⟨hcnt, hunref⟩ := heapOK_unique H hg h0 hmem
        have hnotroot : id ∉ rs := by
          intro hm
          have : 0 < rs.count id := List.count_pos_iff.mpr hm
          simp [List.count_append, List.count_cons] at hcnt
          omega
        have hkept : FieldsKept h (h.remove id) id := by
          intro id' o' hne hg'
          exact ⟨o', by rw [heap_get_remove_other _ hne]; exact hg', rfl⟩
        have H1 : HeapOK (h.remove id) (rs ++ (o.children ++ work)) next := by
          apply heapOK_remove H hg h0
          intro x
          simp only [List.count_append, List.count_cons, List.count_nil]
          by_cases hx : x = id
          · subst hx; simp; omega
          · have : ¬ (id = x) := fun e => hx e.symm
            simp [hx, this]; omega
        have hfuel1 : (o.children ++ work).length + (h.remove id).totalFields < fuel := by
          have h1 := totalFields_remove H.nodup hg
          have h2 := children_length_le o
          simp only [List.length_cons] at hfuel
          simp only [List.length_append]
          omega
        obtain ⟨h', he, H', R'⟩ := eraseLoop_ok (P := P) (hooks := hooks) (types := types)
          fuel (o.children ++ work) _ rs H1 hfuel1
        refine ⟨h', ?_, H', ?_⟩
        · simp only [Heap.eraseLoop, hg, hcount, if_false]
          exact he
        · intro v p w hv hp
          refine R' v p w (RepV.transfer hkept hunref hv ?_) hp
          intro r hr hr0 e
          exact hnotroot (e ▸ hp r hr hr0)

/-! ## `erase` -/

theorem erase_ok {P : Program} {hooks : Bool} {types : List TypeDecl} {h : Heap} {rs : List Nat}
    {next : Nat} (ref : Word)
    (H : HeapOK h (rs ++ (if ref != 0 then [ref.toNat] else [])) next) :
    ∃ h', h.erase ref = .ok h' ∧ HeapOK h' rs next ∧
      ∀ (v : Value) (p : Option Word) (w : Word), RepV P hooks types h v p w →
        (∀ r, p = some r → r ≠ 0 → r.toNat ∈ rs) → RepV P hooks types h' v p w := by
  by_cases hr : ref = 0
  · subst hr
    refine ⟨h, by simp [Heap.erase], by simpa using H, fun _ _ _ hv _ => hv⟩
  · have h1 : (ref != 0) = true := by rw [bne_iff_ne]; exact hr
    have h2 : (ref == 0) = false := by rw [beq_eq_false_iff_ne]; exact hr
    simp only [h1, if_true] at H
    obtain ⟨h', he, H', R'⟩ := eraseLoop_ok (P := P) (hooks := hooks) (types := types)
      (h.totalFields + 2) [ref.toNat] h rs H (by simp only [List.length_cons, List.length_nil]; omega)
    refine ⟨h', ?_, H', R'⟩
    simp only [Heap.erase, h2, Bool.false_eq_true, if_false]
    exact he

/-! ## `share` -/

theorem count_flatten_replicate_singleton (x y : Nat) : ∀ (k : Nat),
    ((List.replicate k [x]).flatten).count y = if y = x then k else 0
  | 0 => by simp
  | k + 1 => by
    have ih := count_flatten_replicate_singleton x y k
    simp only [List.replicate_succ, List.flatten_cons, List.count_append, List.count_cons,
      List.count_nil, ih]
    by_cases e : y = x
    · subst e; simp; omega
    · have : ¬ (x = y) := fun e' => e e'.symm
      simp [e, this]

theorem flatten_replicate_nil : ∀ (k : Nat), ((List.replicate k ([] : List Nat)).flatten) = []
  | 0 => rfl
  | k + 1 => by
    simp only [List.replicate_succ, List.flatten_cons, List.nil_append]
    exact flatten_replicate_nil k

theorem share_heapOK {h : Heap} {rs : List Nat} {next : Nat} (ref : Word) (k : Nat)
    (hmem : ref ≠ 0 → ref.toNat ∈ rs) (H : HeapOK h rs next) :
    ∃ h', h.share ref k = .ok h' ∧
      HeapOK h' (rs ++ (List.replicate k (if ref != 0 then [ref.toNat] else [])).flatten) next ∧
      AllFieldsKept h h' := by
  by_cases hr : ref = 0
  · subst hr
    refine ⟨h, by simp [Heap.share], ?_, AllFieldsKept.refl h⟩
    have : ((0 : Word) != 0) = false := by simp
    simp only [this, Bool.false_eq_true, if_false, flatten_replicate_nil, List.append_nil]
    exact H
  · have h1 : (ref != 0) = true := by rw [bne_iff_ne]; exact hr
    have h2 : (ref == 0) = false := by rw [beq_eq_false_iff_ne]; exact hr
    have hm := hmem hr
    have hlive : (h.get ref.toNat).isSome := by
      apply H.live
      have : 0 < rs.count ref.toNat := List.count_pos_iff.mpr hm
      simp only [refCount_eq]
      omega
    cases hg : h.get ref.toNat with
    | none => simp [hg] at hlive
    | some o =>
      refine ⟨h.set ref.toNat { o with count := o.count + k }, ?_, ?_, allFieldsKept_set hg _⟩
      · simp only [Heap.share, h2, Bool.false_eq_true, if_false, hg]
      · simp only [h1, if_true]
        apply heapOK_setCount H hg
        · intro x hx
          simp only [List.count_append, count_flatten_replicate_singleton, hx, if_false, Nat.add_zero]
        · simp only [List.count_append, count_flatten_replicate_singleton, if_true]
          omega

/-! ## the machine steps -/

theorem step_erase (P : Program) (cfg : Config) (t : Nat) (v : Word) (h' : Heap)
    (hc : P.code[cfg.pc]? = some (.erase t)) (ht : cfg.temps.get t = some v)
    (he : cfg.heap.erase v = .ok h') :
    Abs.step P cfg = .next { cfg with pc := cfg.pc + 1, temps := (clobberTemp cfg.temps).unset t,
                                      heap := h' } := by
  simp only [Abs.step, hc, getT, ht, he]

theorem step_share (P : Program) (cfg : Config) (t k : Nat) (v : Word) (h' : Heap)
    (hc : P.code[cfg.pc]? = some (.share t k)) (ht : cfg.temps.get t = some v)
    (he : cfg.heap.share v k = .ok h') :
    Abs.step P cfg = .next { cfg with pc := cfg.pc + 1, temps := clobberTemp cfg.temps, heap := h' } := by
  simp only [Abs.step, hc, getT, ht, he]

/-! ## non-vacuity -/

/-- a two-object heap: object 2 (unique) has a pointer field referencing object 1 (count 1, also a root) -/
example : HeapOK [(2, ⟨0, [⟨.prd, 1, 0⟩]⟩), (1, ⟨1, [⟨.ext, 0, 7⟩]⟩)] ([1] ++ [2]) 3 :=
  { pos := by decide
    nodup := by decide
    ids := by decide
    counts := by decide
    live := by
      intro id hid
      by_cases h1 : id = 1
      · subst h1; decide
      · by_cases h2 : id = 2
        · subst h2; decide
        · exfalso
          have e1 : ¬ (1 = id) := fun e => h1 e.symm
          have e2 : ¬ (2 = id) := fun e => h2 e.symm
          simp [refCount, Obj.children, List.count_cons, e1, e2] at hid }

example : Heap.erase [(2, ⟨0, [⟨.prd, 1, 0⟩]⟩), (1, ⟨1, [⟨.ext, 0, 7⟩]⟩)] 2 =
    .ok [(1, ⟨0, [⟨.ext, 0, 7⟩]⟩)] := by rfl

example : Heap.share [(1, ⟨1, [⟨.ext, 0, 7⟩]⟩)] 1 2 = .ok [(1, ⟨3, [⟨.ext, 0, 7⟩]⟩)] := by rfl

end Scc.Backend.Sim2
