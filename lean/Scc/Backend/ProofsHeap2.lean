/-
  Scc.Backend.ProofsHeap2 — the allocating statements `let` and `create` (ProofsHeap.lean) FORKED to
  the strengthened representation relation `RelX` (SimDefs2.lean): what `store` reads (`SliceOK2`,
  `readFields_ok2`), the `store` instruction against `ValsOK2`/`RepB` and the counting invariant, the
  two simulation lemmas.  `sim2_create` needs of the annotated closure environment only that its KEYS
  (ids, kinds, types) are those of the context suffix it captures.  The generic lemmas (`HeapExt`,
  `heapOK_alloc`, `step_store_*`, `get_clearPositions`, …) are those of ProofsHeap.lean.  Proof file.
-/
import Scc.Backend.ProofsSim2

set_option linter.unusedSimpArgs false
set_option linter.unusedVariables false

namespace Scc.Backend.Sim2

open Scc.AxCut Scc.AxCut.Pos Scc.Backend Scc.Backend.Abs Scc.Backend.Sim

/-! ## the representation of a field list is stable under heap changes that keep all fields -/

theorem RepF.kept {P : Program} {hooks : Bool} {types : List TypeDecl} {h h' : Heap}
    (hk : AllFieldsKept h h') {vs : List Value} {fs : List Field}
    (hv : RepF P hooks types h vs fs) : RepF P hooks types h' vs fs := by
  refine RepF.transfer (x := 2 ^ 64) (fun id o _ hg => hk id o hg) ?_ hv ?_
  · intro id o hg hm
    exact absurd (children_lt hm) (Nat.lt_irrefl _)
  · intro f _ _ _ e
    have := f.ptr.isLt
    omega

/-! ## what `store` reads -/

/-- the positions `k, k+1, …` represent the values `ρΔ` with the bindings `Δ` -/
def SliceOK2 (P : Program) (hooks : Bool) (types : List TypeDecl) (h : Heap) (σ : Temps) (Δ : Ctx)
    (ρΔ : List Value) (k : Nat) : Prop :=
  ∀ i (h1 : i < Δ.length) (h2 : i < ρΔ.length),
    RepV P hooks types h ρΔ[i]
      (if Δ[i].chi == .ext then none else σ.get (2 * (k + i)))
      ((σ.get (2 * (k + i) + 1)).getD 0) ∧
    (σ.get (2 * (k + i) + 1)).isSome ∧
    (Δ[i].chi = kindOf ρΔ[i]) ∧
    (Δ[i].chi != .ext → (σ.get (2 * (k + i))).isSome)

theorem ValsOK2.slice {P : Program} {hooks : Bool} {types : List TypeDecl} {h : Heap} {σ : Temps}
    {Γ : Ctx} {ρ : List Value} (V : ValsOK2 P hooks types h σ Γ ρ) (n : Nat) :
    SliceOK2 P hooks types h σ (Γ.drop n) (ρ.drop n) n := by
  intro i h1 h2
  have h1' : n + i < Γ.length := by simp at h1; omega
  have h2' : n + i < ρ.length := by simp at h2; omega
  have g1 : (Γ.drop n)[i] = Γ[n + i] := by simp
  have g2 : (ρ.drop n)[i] = ρ[n + i] := by simp
  rw [g1, g2]
  exact V (n + i) h1' h2'

theorem SliceOK2.tail {P : Program} {hooks : Bool} {types : List TypeDecl} {h : Heap} {σ : Temps}
    {b : Binding} {Δ : Ctx} {v : Value} {vs : List Value} {k : Nat}
    (S : SliceOK2 P hooks types h σ (b :: Δ) (v :: vs) k) : SliceOK2 P hooks types h σ Δ vs (k + 1) := by
  intro i h1 h2
  have := S (i + 1) (by simp; omega) (by simp; omega)
  simp only [List.getElem_cons_succ] at this
  rw [show k + (i + 1) = k + 1 + i by omega] at this
  exact this

theorem readFields_ok2 {P : Program} {hooks : Bool} {types : List TypeDecl} {h : Heap} {σ : Temps} :
    ∀ (Δ : Ctx) (ρΔ : List Value) (k : Nat), SliceOK2 P hooks types h σ Δ ρΔ k → ρΔ.length = Δ.length →
    ∃ fields, readFields σ (Mock.kindsOf Δ) k = some fields ∧ RepF P hooks types h ρΔ fields ∧
      ∀ c, Obj.children ⟨c, fields⟩ = roots.go σ Δ k
  | [], ρΔ, k, _, hl => by
    have : ρΔ = [] := List.length_eq_zero_iff.mp (by simpa using hl)
    subst this
    exact ⟨[], rfl, .nil, fun _ => rfl⟩
  | b :: Δ, ρΔ, k, S, hl => by
    cases ρΔ with
    | nil => simp at hl
    | cons v vs =>
      obtain ⟨fs, hfs, hrep, hch⟩ := readFields_ok2 Δ vs (k + 1) S.tail (by simpa using hl)
      obtain ⟨hv, hsome, hkind, hptr⟩ := S 0 (by simp) (by simp)
      simp only [List.getElem_cons_zero, Nat.add_zero] at hv hsome hkind hptr
      cases hw : σ.get (2 * k + 1) with
      | none => simp [hw] at hsome
      | some w =>
        simp only [hw, Option.getD_some] at hv
        by_cases hext : (b.chi == .ext) = true
        · refine ⟨⟨b.chi, 0, w⟩ :: fs, ?_, ?_, ?_⟩
          · have hfs' : readFields σ (List.map (fun x => x.chi) Δ) (k + 1) = some fs := hfs
            simp [Mock.kindsOf, readFields, hw, hext, hfs']
          · refine .cons v vs _ fs ?_ ?_ hrep
            · simp only [hext, if_true] at hv ⊢; exact hv
            · simp only; exact hkind
          · intro c
            have hne : (b.chi != .ext) = false := by simp [bne, hext]
            simp only [Obj.children, List.filterMap_cons, roots.go, hne, Bool.false_and,
              Bool.false_eq_true, if_false, List.nil_append]
            exact hch c
        · have hne : (b.chi != .ext) = true := by simp [bne, hext]
          have hps := hptr hne
          cases hp : σ.get (2 * k) with
          | none => simp [hp] at hps
          | some p =>
            refine ⟨⟨b.chi, p, w⟩ :: fs, ?_, ?_, ?_⟩
            · have hext' : (b.chi == .ext) = false := by simpa using hext
              have hfs' : readFields σ (List.map (fun x => x.chi) Δ) (k + 1) = some fs := hfs
              simp [Mock.kindsOf, readFields, hw, hext', hp, hfs']
            · refine .cons v vs _ fs ?_ ?_ hrep
              · simp only [hext, hp] at hv ⊢
                simpa using hv
              · simp only; exact hkind
            · intro c
              simp only [Obj.children, List.filterMap_cons, roots.go, hne, Bool.true_and, hp,
                if_true]
              by_cases hp0 : (p != 0) = true
              · simp only [hp0, if_true, List.singleton_append, List.cons.injEq, true_and]
                exact hch c
              · simp only [hp0, Bool.false_eq_true, if_false, List.nil_append]
                exact hch c


/-! ## the `store` instruction -/

/-- the common part of `let` and `create`: the last `k` positions are stored into a fresh object
    (or nothing is allocated when `k = 0`); afterwards temporary `2n` references the block -/
theorem store_sim2 {P : Program} {hooks : Bool} {types : List TypeDecl} {Γ : Ctx} {ρ : List Value}
    {cfg : Config} (k : Nat)
    (V : ValsOK2 P hooks types cfg.heap cfg.temps Γ ρ) (hlen : ρ.length = Γ.length)
    (hcap : 2 * Γ.length + 2 < Mock.T_TEMP)
    (H : HeapOK cfg.heap (roots Γ cfg.temps) cfg.next) (hk : k ≤ Γ.length)
    (hnext : cfg.next < 2 ^ 64)
    (hc : P.code[cfg.pc]? = some (.store (Mock.kindsOf (Γ.drop (Γ.length - k)))
      (Γ.take (Γ.length - k)).length)) :
    ∃ cfg1 r, Abs.step P cfg = .next cfg1 ∧ cfg1.pc = cfg.pc + 1 ∧ cfg1.out = cfg.out ∧
      cfg1.temps.get (2 * (Γ.length - k)) = some r ∧
      RepB P hooks types cfg1.heap (ρ.drop (Γ.length - k)) r ∧
      (∀ t, t < 2 * (Γ.length - k) → cfg1.temps.get t = cfg.temps.get t) ∧
      HeapExt cfg.heap cfg1.heap ∧
      HeapOK cfg1.heap (roots (Γ.take (Γ.length - k)) cfg.temps ++ (if r != 0 then [r.toNat] else []))
        cfg1.next ∧
      cfg1.next ≤ cfg.next + 1 := by
  have hn : (Γ.take (Γ.length - k)).length = Γ.length - k := by simp
  rw [hn] at hc
  have hroots : roots Γ cfg.temps =
      roots (Γ.take (Γ.length - k)) cfg.temps ++
        roots.go cfg.temps (Γ.drop (Γ.length - k)) (Γ.length - k) := by
    unfold roots
    conv => lhs; rw [← List.take_append_drop (Γ.length - k) Γ]
    rw [roots_go_append, hn, Nat.zero_add]
  have hlow : ∀ (σ' : Temps) (t : Nat), t < 2 * (Γ.length - k) → t ≠ Mock.T_TEMP := by
    intro _ t ht; omega
  cases hΔ : Γ.drop (Γ.length - k) with
  | nil =>
    rw [hΔ] at hc
    have hρ : ρ.drop (Γ.length - k) = [] := by
      have h1 : (Γ.drop (Γ.length - k)).length = 0 := by rw [hΔ]; rfl
      apply List.eq_nil_of_length_eq_zero
      simp only [List.length_drop] at h1 ⊢
      omega
    refine ⟨_, 0, step_store_empty P cfg _ hc, rfl, rfl, get_set_same _ _ _, ?_, ?_, ?_, ?_, Nat.le_succ _⟩
    · rw [hρ]; exact .empty
    · intro t ht
      have h1 : t ≠ 2 * (Γ.length - k) := by omega
      have h2 : t ≠ Mock.T_TEMP := by omega
      rw [get_set_other _ _ h1, get_clobberTemp _ h2]
    · intro id o h; exact h
    · rw [hroots, hΔ] at H
      simpa [roots.go] using H
  | cons b Δ =>
    rw [hΔ] at hc
    have S := V.slice (Γ.length - k)
    rw [hΔ] at S
    have hlenΔ : (ρ.drop (Γ.length - k)).length = (b :: Δ).length := by
      rw [← hΔ]; simp [hlen]
    obtain ⟨fields, hf, hrep, hch⟩ := readFields_ok2 (b :: Δ) _ _ S hlenΔ
    have hfresh : ∀ e ∈ cfg.heap, e.1 ≠ cfg.next := fun e he => Nat.ne_of_lt (H.ids e he).2.1
    have hext : HeapExt cfg.heap ((cfg.next, ⟨0, fields⟩) :: cfg.heap) := heapExt_cons hfresh
    have hr0 : BitVec.ofNat 64 cfg.next ≠ 0 := ofNat_ne_zero H.pos hnext
    have hrt : (BitVec.ofNat 64 cfg.next).toNat = cfg.next := ofNat_toNat_lt hnext
    refine ⟨_, BitVec.ofNat 64 cfg.next, step_store_cons P cfg _ _ _ fields hc hf, rfl, rfl,
      get_set_same _ _ _, ?_, ?_, hext, ?_, Nat.le_refl _⟩
    · cases hρ : ρ.drop (Γ.length - k) with
      | nil => rw [hρ] at hlenΔ; simp at hlenΔ
      | cons v vs =>
        rw [hρ] at hrep
        refine .block v vs _ ⟨0, fields⟩ hr0 ?_ (RepF.kept (AllFieldsKept.ofExt hext) hrep)
        rw [hrt]; exact heap_get_cons_same
    · intro t ht
      have h1 : t ≠ 2 * (Γ.length - k) := by omega
      have h2 : t ≠ Mock.T_TEMP := by omega
      rw [get_set_other _ _ h1, get_clearPositions]
      rw [if_neg (by omega)]
      exact get_clobberTemp _ h2
    · have hb : (BitVec.ofNat 64 cfg.next != 0) = true := by rw [bne_iff_ne]; exact hr0
      simp only [hb, if_true, hrt]
      rw [hroots, hΔ] at H
      exact heapOK_alloc H rfl (hch 0) hnext

/-! ## simulation: `let` -/

theorem sim2_let {P : Program} {hooks : Bool} {prog : Prog} {Γ : Ctx} {ρ : List Value} {x : Ident}
    {ty : Ty} {tag : Ident} {args : Ctx} {next : Stmt} {fv : FV} {cfg : Config} {pos : Nat}
    (R : RelX P hooks prog ⟨Γ, ρ, .letS x ty tag args next fv⟩ cfg)
    (hk : args.length ≤ Γ.length)
    (hfresh : ∀ b ∈ Γ.take (Γ.length - args.length), b.var.id ≠ x.id)
    (hpos : Pos.tagPosition prog.types ty tag = .ok pos)
    (hcap : 2 * (Γ.length - args.length + 1) + 2 < Mock.T_TEMP)
    (hnext : cfg.next < 2 ^ 64) :
    ∃ cfg', stepsTo P 2 cfg cfg' ∧ cfg'.out = cfg.out ∧ cfg'.next ≤ cfg.next + 1 ∧
      RelX P hooks prog ⟨Γ.take (Γ.length - args.length) ++ [⟨x, .prd, ty⟩],
        ρ.take (Γ.length - args.length) ++ [.obj pos (ρ.drop (Γ.length - args.length))], next⟩ cfg' := by
  obtain ⟨c, c', ops, hrun, hat⟩ := R.code
  obtain ⟨d, hd, hx⟩ := tagPosition_ok hpos
  simp only [codeStatementR, run_bind_ok, run_pure_ok, lookupTypeDeclM_run_ok, xtorPositionM_run_ok,
    splitOffLast_run_ok, mockSym_store, mockSym_variableTemporary, vt_run_ok] at hrun
  obtain ⟨decl, k1, ⟨hd', rfl⟩, pos', k2, ⟨hx', rfl⟩, sp, k3, ⟨_, rfl, rfl⟩, c1, k4, ⟨rfl, rfl⟩, t, k5,
    ⟨p, hp, rfl, rfl⟩, c3, k6, h3, rfl, rfl⟩ := hrun
  rw [hd] at hd'; cases hd'
  rw [hx] at hx'; cases hx'
  have hn : (Γ.take (Γ.length - args.length)).length = Γ.length - args.length := by simp
  have hp' : p = Γ.length - args.length := by
    rw [ctxPosition_eq_posOf] at hp
    have := posOf_append_fresh (Γ.take (Γ.length - args.length)) ⟨x, .prd, ty⟩ hfresh
    simp only at hp
    rw [this, hn] at hp
    exact (Option.some.inj hp).symm
  subst hp'
  simp only [mockSym_comment, mockSym_loadImmediate, mockSym_jumpLength, List.append_assoc,
    CodeAt_hook] at hat
  simp only [List.cons_append, List.nil_append, CodeAt, TempNum.toNat] at hat
  obtain ⟨hstore, hli, hat3⟩ := hat
  obtain ⟨cfg1, r, hstep1, hpc1, hout1, hr, hblock, hlow, hext, hheap, hnx⟩ :=
    store_sim2 args.length R.vals R.len R.cap R.heap hk hnext hstore
  -- second instruction: the tag
  have hli' : P.code[cfg1.pc]? = some (.li (2 * (Γ.length - args.length) + 1) (pos : Int)) := by
    rw [hpc1]; exact hli
  have ht : 2 * (Γ.length - args.length) + 1 ≠ Mock.T_TEMP := by omega
  have hstep2 := step_li P cfg1 _ _ hli' ht
  refine ⟨_, ⟨cfg1, hstep1, stepsTo_one P _ _ hstep2⟩, by simpa using hout1, hnx, ?_⟩
  have hlenT : (ρ.take (Γ.length - args.length)).length = (Γ.take (Γ.length - args.length)).length := by
    simp [R.len]
  have hσ : ∀ t, t < 2 * (Γ.take (Γ.length - args.length)).length →
      ((clobberTemp cfg1.temps).set (2 * (Γ.length - args.length) + 1) (BitVec.ofInt 64 pos)).get t =
        cfg.temps.get t := by
    intro t ht'
    rw [hn] at ht'
    have h1 : t ≠ 2 * (Γ.length - args.length) + 1 := by omega
    have h2 : t ≠ Mock.T_TEMP := by omega
    rw [get_set_other _ _ h1, get_clobberTemp _ h2, hlow t ht']
  have hget2n : ((clobberTemp cfg1.temps).set (2 * (Γ.length - args.length) + 1)
      (BitVec.ofInt 64 pos)).get (2 * (Γ.length - args.length)) = some r := by
    have h1 : 2 * (Γ.length - args.length) ≠ 2 * (Γ.length - args.length) + 1 := by omega
    have h2 : 2 * (Γ.length - args.length) ≠ Mock.T_TEMP := by omega
    rw [get_set_other _ _ h1, get_clobberTemp _ h2, hr]
  have hprd : (Chi.prd == Chi.ext) = false := by decide
  exact {
    len := by simp [R.len]
    cap := by simpa using hcap
    vals := by
      have V0 := ((R.vals.take (Γ.length - args.length)).kept (AllFieldsKept.ofExt hext))
      apply ValsOK2_snoc V0 hlenT hσ _ _ (BitVec.ofInt 64 pos)
      · rw [hn]; exact get_set_same _ _ _
      · rw [hn, hget2n]
        simp only [hprd, Bool.false_eq_true, if_false]
        have : BitVec.ofInt 64 (pos : Int) = BitVec.ofNat 64 pos := by simp
        rw [this]
        exact .obj pos _ r hblock
      · rfl
      · intro _; rw [hn, hget2n]; rfl
    heap := by
      apply HeapOK_congr hheap
      show roots (Γ.take (Γ.length - args.length) ++ [_]) _ = _
      unfold roots
      rw [roots_go_append, hn, Nat.zero_add]
      congr 1
      · exact roots_go_congr _ _ _ 0 (fun i hi => by
          rw [Nat.zero_add]; exact hσ (2 * i) (by omega))
      · simp only [roots.go, List.append_nil]
        have : (Chi.prd != Chi.ext) = true := by decide
        simp only [this, if_true, hget2n]
    code := ⟨_, _, c3, h3, by rw [hpc1]; exact hat3⟩ }

/-! ## simulation: `create` -/

/-- `create` with the closure environment annotated with the keys (ids, kinds, types) of the context
    suffix it captures (what `LinTyped` gives) -/
theorem sim2_create {P : Program} {hooks : Bool} {prog : Prog} {Γ : Ctx} {ρ : List Value} {x : Ident}
    {ty : Ty} {Γc : Ctx} {clauses : Clauses} {next : Stmt} {f1 f2 : FV} {cfg : Config}
    (R : RelX P hooks prog ⟨Γ, ρ, .create x ty (some Γc) clauses next f1 f2⟩ cfg)
    (hk : Γc.length ≤ Γ.length)
    (hkeys : Ctx.keys (Γ.drop (Γ.length - Γc.length)) = Γc.keys)
    (hfresh : ∀ b ∈ Γ.take (Γ.length - Γc.length), b.var.id ≠ x.id)
    (hcap : 2 * (Γ.length - Γc.length + 1) + 2 < Mock.T_TEMP)
    (hnext : cfg.next < 2 ^ 64) :
    ∃ cfg', stepsTo P 2 cfg cfg' ∧ cfg'.out = cfg.out ∧ cfg'.next ≤ cfg.next + 1 ∧
      RelX P hooks prog ⟨Γ.take (Γ.length - Γc.length) ++ [⟨x, .cns, ty⟩],
        ρ.take (Γ.length - Γc.length) ++ [.clo Γc (ρ.drop (Γ.length - Γc.length)) clauses], next⟩ cfg' := by
  obtain ⟨c, c', ops, hrun, hat⟩ := R.code
  simp only [codeStatementR, run_bind_ok, run_pure_ok, freshLabelStr_run_ok, splitOffLast_run_ok,
    mockSym_store, mockSym_variableTemporary, vt_run_ok] at hrun
  obtain ⟨sp, k1, ⟨_, rfl, rfl⟩, c1, k2, ⟨rfl, rfl⟩, num, k3, ⟨rfl, rfl⟩, t, k4, ⟨p, hp, rfl, rfl⟩,
    c3, k5, h3, c5, k6, h5, rfl, rfl⟩ := hrun
  have hn : (Γ.take (Γ.length - Γc.length)).length = Γ.length - Γc.length := by simp
  have hp' : p = Γ.length - Γc.length := by
    rw [ctxPosition_eq_posOf] at hp
    have := posOf_append_fresh (Γ.take (Γ.length - Γc.length)) ⟨x, .cns, ty⟩ hfresh
    simp only at hp
    rw [this, hn] at hp
    exact (Option.some.inj hp).symm
  subst hp'
  simp only [mockSym_comment, mockSym_loadLabel, mockSym_label, List.append_assoc, CodeAt_hook] at hat
  simp only [List.cons_append, List.nil_append, CodeAt, TempNum.toNat] at hat
  obtain ⟨hstore, hll, hat'⟩ := hat
  rw [CodeAt_append] at hat'
  obtain ⟨hat3, hat45⟩ := hat'
  simp only [CodeAt] at hat45
  obtain ⟨hlab, hat45'⟩ := hat45
  obtain ⟨cfg1, r, hstep1, hpc1, hout1, hr, hblock, hlow, hext, hheap, hnx⟩ :=
    store_sim2 Γc.length R.vals R.len R.cap R.heap hk hnext hstore
  have hll' : P.code[cfg1.pc]? = some (.ll (2 * (Γ.length - Γc.length) + 1)
      (mangleTy ty ++ "_" ++ natRen (c + 1))) := by
    rw [hpc1]; exact hll
  have ht : 2 * (Γ.length - Γc.length) + 1 ≠ Mock.T_TEMP := by omega
  have hstep2 := step_ll P cfg1 _ _ _ hll' ht hlab
  refine ⟨_, ⟨cfg1, hstep1, stepsTo_one P _ _ hstep2⟩, by simpa using hout1, hnx, ?_⟩
  have hlenT : (ρ.take (Γ.length - Γc.length)).length = (Γ.take (Γ.length - Γc.length)).length := by
    simp [R.len]
  have hσ : ∀ t, t < 2 * (Γ.take (Γ.length - Γc.length)).length →
      ((clobberTemp cfg1.temps).set (2 * (Γ.length - Γc.length) + 1)
        (BitVec.ofNat 64 (cfg.pc + 1 + 1 + instrCount c3))).get t = cfg.temps.get t := by
    intro t ht'
    rw [hn] at ht'
    have h1 : t ≠ 2 * (Γ.length - Γc.length) + 1 := by omega
    have h2 : t ≠ Mock.T_TEMP := by omega
    rw [get_set_other _ _ h1, get_clobberTemp _ h2, hlow t ht']
  have hget2n : ((clobberTemp cfg1.temps).set (2 * (Γ.length - Γc.length) + 1)
      (BitVec.ofNat 64 (cfg.pc + 1 + 1 + instrCount c3))).get (2 * (Γ.length - Γc.length)) = some r := by
    have h1 : 2 * (Γ.length - Γc.length) ≠ 2 * (Γ.length - Γc.length) + 1 := by omega
    have h2 : 2 * (Γ.length - Γc.length) ≠ Mock.T_TEMP := by omega
    rw [get_set_other _ _ h1, get_clobberTemp _ h2, hr]
  have hcns : (Chi.cns == Chi.ext) = false := by decide
  have hmeth : MethodsAt P hooks prog.types (cfg.pc + 1 + 1 + instrCount c3)
      (Γ.drop (Γ.length - Γc.length)) clauses := by
    refine ⟨mangleTy ty ++ "_" ++ natRen (c + 1), k5, k6, c5, ?_, ?_⟩
    · simpa using h5
    · simp only [CodeAt]
      exact ⟨hlab, hat45'⟩
  exact {
    len := by simp [R.len]
    cap := by simpa using hcap
    vals := by
      have V0 := ((R.vals.take (Γ.length - Γc.length)).kept (AllFieldsKept.ofExt hext))
      apply ValsOK2_snoc V0 hlenT hσ _ _ (BitVec.ofNat 64 (cfg.pc + 1 + 1 + instrCount c3))
      · rw [hn]; exact get_set_same _ _ _
      · rw [hn, hget2n]
        simp only [hcns, Bool.false_eq_true, if_false]
        exact .clo Γc (Γ.drop (Γ.length - Γc.length)) _ clauses r _ hkeys hblock hmeth
      · rfl
      · intro _; rw [hn, hget2n]; rfl
    heap := by
      apply HeapOK_congr hheap
      show roots (Γ.take (Γ.length - Γc.length) ++ [_]) _ = _
      unfold roots
      rw [roots_go_append, hn, Nat.zero_add]
      congr 1
      · exact roots_go_congr _ _ _ 0 (fun i hi => by
          rw [Nat.zero_add]; exact hσ (2 * i) (by omega))
      · simp only [roots.go, List.append_nil]
        have : (Chi.cns != Chi.ext) = true := by decide
        simp only [this, if_true, hget2n]
    code := ⟨_, _, c3, h3, by rw [hpc1]; exact hat3⟩ }

end Scc.Backend.Sim2
