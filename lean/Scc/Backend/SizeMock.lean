/-
  Scc.Backend.SizeMock — the mock backend (Mock.lean, /verif/harness/src/mock.rs) satisfies the
  hypotheses of the generic size bound of Scc.Backend.SizeGen: its temporaries are `Nat` with the
  usual order, `variable_temporary` is `2·position + number`, and every primitive emits ONE abstract
  instruction (`GenCost mockSym 1`).  Hence

      |compile mock p|  ≤  10 · (1 + M) · nodes(p)       (`mock_compile_length`)

  for every linearized program `p` with longest context `M` whose substitutions have pairwise distinct
  new names.     Proof file.
-/
import Scc.Backend.SizeGen

set_option linter.unusedVariables false
set_option linter.unusedSimpArgs false

namespace Scc.Backend.SizeMock

open Scc.AxCut Scc.AxCut.SizeLin Scc.Backend Scc.Backend.SizePM Scc.Backend.SizeConns Scc.Backend.SizeGen

theorem mock_go_spec (id : Nat) : ∀ (ctx : Ctx) (i pos : Nat), Mock.ctxPosition.go id ctx i = some pos →
    i ≤ pos ∧ ∃ b, ctx[pos - i]? = some b ∧ b.var.id = id
  | [], _, _, h => by simp [Mock.ctxPosition.go] at h
  | b :: bs, i, pos, h => by
    simp only [Mock.ctxPosition.go] at h
    split at h
    · next hb =>
      cases h
      exact ⟨Nat.le_refl _, b, by simp, by simpa using hb⟩
    · obtain ⟨h1, b', h2, h3⟩ := mock_go_spec id bs (i + 1) pos h
      refine ⟨by omega, b', ?_, h3⟩
      have : pos - i = (pos - (i + 1)) + 1 := by omega
      rw [this]; simpa using h2

theorem mock_vt {num : TempNum} {ctx : Ctx} {id t : Nat} (h : VT mockSym num ctx id t) :
    ∃ pos b, Mock.ctxPosition ctx id = some pos ∧ t = 2 * pos + num.toNat ∧ ctx[pos]? = some b ∧
      b.var.id = id := by
  obtain ⟨c, c', hr⟩ := h
  obtain ⟨pos, hp, ht, _⟩ := (vt_run_ok num ctx id c t c').1 hr
  obtain ⟨_, b, hb, hid⟩ := mock_go_spec id ctx 0 pos hp
  exact ⟨pos, b, hp, ht.symm, by simpa using hb, hid⟩

theorem mock_law : BackendLaw mockSym where
  eq := by intro a b; show (a == b) = true ↔ a = b; simp
  irrefl := by intro a; show decide (a < a) = false; simp
  trans := by
    intro a b c h1 h2
    have h1' : a < b := of_decide_eq_true h1
    have h2' : b < c := of_decide_eq_true h2
    exact decide_eq_true (Nat.lt_trans h1' h2')
  total := by
    intro a b h1 h2
    have h1' : ¬ a < b := of_decide_eq_false h1
    exact decide_eq_true (by omega)
  vtDet := by
    intro num ctx id t t' h h'
    obtain ⟨p, _, hp, rfl, _, _⟩ := mock_vt h
    obtain ⟨p', _, hp', rfl, _, _⟩ := mock_vt h'
    rw [hp] at hp'; cases hp'; rfl
  vtInj := by
    intro num num' ctx id id' t h h'
    obtain ⟨p, b, _, rfl, hb, hid⟩ := mock_vt h
    obtain ⟨p', b', _, e, hb', hid'⟩ := mock_vt h'
    have hn : num = num' ∧ p = p' := by
      cases num <;> cases num' <;> simp only [TempNum.toNat] at e <;>
        first | exact ⟨rfl, by omega⟩ | (exfalso; omega)
    obtain ⟨rfl, rfl⟩ := hn
    rw [hb] at hb'; cases hb'
    exact ⟨rfl, hid.symm.trans hid'⟩

theorem mock_cost : GenCost mockSym 1 where
  move := ⟨fun _ _ => Nat.le_refl _, fun _ _ => Nat.le_refl _, fun _ _ => Nat.le_refl _⟩
  jump := fun _ => Nat.le_refl _
  jumpLabel := fun _ => Nat.le_refl _
  jumpLabelFixed := fun _ => Nat.le_refl _
  jumpLabelIf := fun _ _ _ _ => Nat.le_refl _
  jumpLabelIfZero := fun _ _ _ => Nat.le_refl _
  loadImmediate := fun _ _ => Nat.le_refl _
  loadLabel := fun _ _ => Nat.le_refl _
  addAndJump := fun _ _ => Nat.le_refl _
  binop := fun _ _ _ _ => Nat.le_refl _
  printI64 := fun _ _ _ => GPost.pure (Nat.le_refl _)
  eraseBlock := fun _ => GPost.pure (Nat.le_refl _)
  shareBlockN := fun _ _ => GPost.pure (Nat.le_refl _)
  store := fun a _ => GPost.pure (by simp)
  load := fun a _ => GPost.pure (by simp)

/-- C19 for the mock backend: at most `10·(1 + M)` abstract instructions per node -/
theorem mock_compile_length (hooks : Bool) (p : Prog) (M : Nat) (hM : defsCap p.defs ≤ M)
    (hok : substOkProg p = true) (c : Nat) (ops : List MockOp)
    (h : compileMockSym p hooks c = .ok ops) : ops.length ≤ 10 * (1 + M) * defsNodes p.defs := by
  unfold compileMockSym runGen at h
  split at h
  · cases h
  · next r c' hr =>
    cases h
    have := compile_length mock_law mock_cost hooks natRen p M hM hok c _ c' hr
    simpa [KW] using this

end Scc.Backend.SizeMock
