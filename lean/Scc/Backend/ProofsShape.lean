/-
  Scc.Backend.ProofsShape — GENERIC LIFTING OF LIST SHAPES through the generic code generator
  (Generic.lean), used by the calling-convention theorems (property C13) of the x86-64 and AArch64
  backends.

  `ProofsWfProg.lean` lifts a predicate on single instructions (`AllP P`).  The calling convention is
  not a property of single instructions: the code of `print_i64` is a BLOCK (save; move argument;
  call; restore) that must stay together.  Here the lifted property is an arbitrary predicate
  `L : List Code → Prop` that holds of `[]` and is closed under `++`:

    if every method of a backend `B` returns a list satisfying `L` when it is given temporaries
    satisfying `TOK` (`OpsShape`), then the body that `compileR B` emits satisfies `L`.

  Two refinements the C13 theorems need:
  * `print_i64` is only ever called with the `Snd` temporary of a variable OF THE CONTEXT IT IS GIVEN
    (`Src ctx t`: the block saves the registers of exactly that context);
  * a flag `mem : Prop`: with `mem = True` the statement is about all programs; with `mem = False` it
    is about INTEGER programs (`IntStmtC`: no `let`/`switch`/`create`/`invoke`, substitutions only in
    contexts of integers), for which the memory methods, indirect jumps and jump tables of the backend
    are never called — the hypotheses about them are then vacuous.
  * labels that are the target of a direct jump satisfy `LabOK` (definition labels `f_`, `cleanup`,
    fresh labels `lab<n>`).

  The spanning-forest lemmas (`TreeOK`, `spanningForestLoop_ok`, `mem_mapInsert`, …) and the
  postcondition calculus `Post` are reused from Scc/X86/ProofsWfProg.lean, where they are stated for an
  arbitrary backend record.
-/
import Scc.X86.ProofsWfProg

set_option linter.unusedVariables false

namespace Scc.Backend.Shape

open Scc.AxCut
open Scc.Backend
open Scc.X86 (Post TreeOK TreesOK RootOK treesOK_of_forall PmOK ConnsOK spanningForestLoop_ok
  mem_mapInsert mem_setOfList post_mapMGen post_lookupTypeDeclM post_xtorPositionM)

/-- all variables of the context are integers -/
def AllExt (Γ : Ctx) : Prop := ∀ b ∈ Γ, b.chi = .ext

instance (Γ : Ctx) : Decidable (AllExt Γ) := by unfold AllExt; infer_instance

/-- statements of integer programs, with the context the code generator keeps: no `let`, `switch`,
    `create`, `invoke`; a substitution only in a context of integers -/
def IntStmtC : Ctx → Stmt → Prop
  | Γ, .subst pairs next => AllExt Γ ∧ IntStmtC (pairs.map (·.1)) next
  | Γ, .lit x _ next _ => IntStmtC (Γ ++ [⟨x, .ext, .i64⟩]) next
  | Γ, .op x _ _ _ next _ => IntStmtC (Γ ++ [⟨x, .ext, .i64⟩]) next
  | Γ, .print _ _ next _ => IntStmtC Γ next
  | Γ, .ifc _ _ _ t e => IntStmtC Γ t ∧ IntStmtC Γ e
  | _, .exit _ => True
  | _, .call _ _ => True
  | _, _ => False

section Generic

variable {Code T : Type} (B : Backend Code T) (L : List Code → Prop) (TOK : T → Prop)
  (Src : Ctx → T → Prop) (LabOK : String → Prop) (mem : Prop)

/-- what the generic generator needs from the backend methods -/
structure OpsShape : Prop where
  nil : L []
  append : ∀ {a b : List Code}, L a → L b → L (a ++ b)
  temp : TOK B.temp
  return1 : TOK B.return1
  vt : ∀ n ctx id, Post (B.variableTemporary n ctx id) TOK
  vtSrc : ∀ ctx id, Post (B.variableTemporary .snd ctx id) (Src ctx)
  labDef : ∀ x : Ident, LabOK (x.print ++ "_")
  labCleanup : LabOK "cleanup"
  labFresh : ∀ s : String, LabOK ("lab" ++ s)
  comment : ∀ m, L [B.comment m]
  label : ∀ l, L [B.label l]
  jumpLabel : ∀ l, LabOK l → L (B.jumpLabel l)
  jumpLabelIf : ∀ s a b l, TOK a → TOK b → LabOK l → L (B.jumpLabelIf s a b l)
  jumpLabelIfZero : ∀ s a l, TOK a → LabOK l → L (B.jumpLabelIfZero s a l)
  loadImmediate : ∀ t n, TOK t → L (B.loadImmediate t n)
  binop : ∀ o t s1 s2, TOK t → TOK s1 → TOK s2 → L (B.binop o t s1 s2)
  mov : ∀ t s, TOK t → TOK s → L (B.mov t s)
  printI64 : ∀ nl t ctx, TOK t → Src ctx t → Post (B.printI64 nl t ctx) L
  storeTemporary : ∀ t sp, TOK t → L (B.storeTemporary t sp)
  restoreTemporary : ∀ t sp, TOK t → L (B.restoreTemporary t sp)
  -- only reached from `let` / `switch` / `create` / `invoke` / substitutions of non-integers
  jump : mem → ∀ t, TOK t → L (B.jump t)
  jumpLabelFixed : mem → ∀ l, L (B.jumpLabelFixed l)
  loadLabel : mem → ∀ t l, TOK t → L (B.loadLabel t l)
  addAndJump : mem → ∀ t k, TOK t → L (B.addAndJump t k)
  eraseBlock : mem → ∀ t, TOK t → Post (B.eraseBlock t) L
  shareBlockN : mem → ∀ t n, TOK t → Post (B.shareBlockN t n) L
  store : mem → ∀ a b, Post (B.store a b) L
  load : mem → ∀ a b, Post (B.load a b) L

variable {B L TOK Src LabOK mem}

theorem OpsShape.cons (S : OpsShape B L TOK Src LabOK mem) {c : Code} {l : List Code} (h : L [c]) (hl : L l) :
    L (c :: l) := S.append h hl

theorem OpsShape.ite (S : OpsShape B L TOK Src LabOK mem) {c : Prop} [Decidable c] {a b : List Code}
    (ha : L a) (hb : L b) : L (if c then a else b) := by
  split <;> assumption

theorem OpsShape.flatten (S : OpsShape B L TOK Src LabOK mem) :
    ∀ {ls : List (List Code)}, (∀ l ∈ ls, L l) → L ls.flatten
  | [], _ => S.nil
  | l :: ls, h => by
    rw [List.flatten_cons]
    exact S.append (h l (by simp)) (S.flatten fun x hx => h x (by simp [hx]))

/-! ## parallel_moves.rs -/

mutual
  theorem shape_treeMoves (S : OpsShape B L TOK Src LabOK mem) {temporary : T} (ht : TOK temporary)
      (sp : Bool) : ∀ (tr : Tree T), TreeOK TOK tr → L (treeMoves B temporary sp tr)
    | .backEdge, _ => by simp only [treeMoves]; exact S.storeTemporary _ _ ht
    | .node target kids, h => by
      simp only [treeMoves]
      exact S.append (shape_treeMovesList S h.1 sp kids h.2) (S.mov _ _ h.1 ht)
  theorem shape_treeMovesList (S : OpsShape B L TOK Src LabOK mem) {temporary : T}
      (ht : TOK temporary) (sp : Bool) :
      ∀ (trs : List (Tree T)), TreesOK TOK trs → L (treeMovesList B temporary sp trs)
    | [], _ => by simp only [treeMovesList]; exact S.nil
    | k :: ks, h => by
      simp only [treeMovesList]
      exact S.append (shape_treeMoves S ht sp k h.1) (shape_treeMovesList S ht sp ks h.2)
end

theorem shape_rootMoves (S : OpsShape B L TOK Src LabOK mem) :
    ∀ (r : Root T), RootOK TOK r → L (rootMoves B r)
  | .startNode t kids, h => by
    simp only [rootMoves]
    exact S.append (shape_treeMovesList S h.1 _ kids h.2)
      (S.ite (S.restoreTemporary _ _ h.1) S.nil)

theorem shape_parallelMoves (S : OpsShape B L TOK Src LabOK mem) {conns : List (T × List T)}
    (hkeys : ∀ e ∈ conns, TOK e.1) (hpm : PmOK TOK conns) {code : List Code}
    (h : parallelMoves B conns = .ok code) : L code := by
  unfold parallelMoves at h
  split at h
  · cases h
  · rename_i forest hf
    cases h
    have hroots := spanningForestLoop_ok (B := B) _ _ _ forest
      (fun k hk => by
        obtain ⟨e, he, rfl⟩ := List.mem_map.1 hk
        exact hkeys e he) hpm hf
    refine S.append (S.ite (S.comment _) S.nil) (S.flatten ?_)
    intro l hl
    obtain ⟨r, hr, rfl⟩ := List.mem_map.1 hl
    exact shape_rootMoves S r (hroots r hr)

/-! ## substitution.rs -/

theorem post_connections_go (S : OpsShape B L TOK Src LabOK mem) (context newContext : Ctx) :
    ∀ (tm : List (Binding × List Nat)) (acc : List (T × List T)), ConnsOK TOK acc →
      Post (connections.go B context newContext tm acc) (ConnsOK TOK)
  | [], acc, hacc => by simp only [connections.go]; exact Post.pure hacc
  | (binding, targets) :: rest, acc, hacc => by
    simp only [connections.go]
    split
    · refine Post.bind (S.vt _ _ _) fun k hk => ?_
      refine Post.bind (post_mapMGen (fun target => S.vt .snd newContext target) targets) fun ts hts => ?_
      exact post_connections_go S context newContext rest _
        (mem_mapInsert _ k _ (QK := TOK) (QV := fun l => ∀ t ∈ l, TOK t) hk (mem_setOfList hts) acc hacc)
    · refine Post.bind (S.vt _ _ _) fun k1 hk1 => ?_
      refine Post.bind (post_mapMGen (fun target => S.vt .fst newContext target) targets) fun ts1 hts1 => ?_
      refine Post.bind (S.vt _ _ _) fun k2 hk2 => ?_
      refine Post.bind (post_mapMGen (fun target => S.vt .snd newContext target) targets) fun ts2 hts2 => ?_
      exact post_connections_go S context newContext rest _
        (mem_mapInsert _ k2 _ (QK := TOK) (QV := fun l => ∀ t ∈ l, TOK t) hk2 (mem_setOfList hts2) _
          (mem_mapInsert _ k1 _ (QK := TOK) (QV := fun l => ∀ t ∈ l, TOK t) hk1 (mem_setOfList hts1) acc hacc))

theorem post_codeExchange (S : OpsShape B L TOK Src LabOK mem) (tm : List (Binding × List Nat))
    (context newContext : Ctx) : Post (codeExchange B tm context newContext) L := by
  unfold codeExchange connections
  refine Post.bind (post_connections_go S context newContext tm [] (fun _ h => by simp at h)) fun conns hc => ?_
  cases hpm : parallelMoves B conns with
  | error e => exact Post.throw
  | ok code =>
    exact Post.pure (shape_parallelMoves S (fun e he => (hc e he).1) (fun e he => (hc e he).2) hpm)

theorem post_updateReferenceCount (S : OpsShape B L TOK Src LabOK mem) (hm : mem) (var : Ident) (context : Ctx)
    (newCount : Nat) : Post (updateReferenceCount B var context newCount) L := by
  unfold updateReferenceCount
  refine Post.bind (S.vt _ _ _) fun t ht => ?_
  match newCount with
  | 0 => exact Post.bind (S.eraseBlock hm t ht) fun code hc => Post.pure (S.cons (S.comment _) hc)
  | 1 => exact Post.pure S.nil
  | n + 2 =>
    exact Post.bind (S.shareBlockN hm t (n + 1) ht) fun code hc => Post.pure (S.cons (S.comment _) hc)

/-- reference counts are only updated for non-integer bindings -/
theorem post_codeWeakeningContraction (S : OpsShape B L TOK Src LabOK mem) (context : Ctx) :
    ∀ (tm : List (Binding × List Nat)), (mem ∨ ∀ e ∈ tm, e.1.chi = .ext) →
      Post (codeWeakeningContraction B tm context) L
  | [], _ => by simp only [codeWeakeningContraction]; exact Post.pure S.nil
  | (binding, targets) :: rest, h => by
    simp only [codeWeakeningContraction]
    refine Post.bind (Q1 := L) ?_ fun code hc => ?_
    · split
      · rename_i hne
        rcases h with hm | hext
        · exact post_updateReferenceCount S hm _ _ _
        · have hx : binding.chi = .ext := hext (binding, targets) (by simp)
          rw [hx] at hne
          exact absurd hne (by decide)
      · exact Post.pure S.nil
    · exact Post.bind (post_codeWeakeningContraction S context rest
        (h.imp id fun hext e he => hext e (by simp [he])))
        fun codeRest hr => Post.pure (S.append hc hr)

/-- the keys of `transpose` are bindings of the context -/
theorem transpose_keys_mem (rearrange : List (Binding × Ident)) (context : Ctx) :
    ∀ e ∈ transpose rearrange context, e.1 ∈ context := by
  unfold transpose
  suffices h : ∀ (l : Ctx) (acc : List (Binding × List Nat)),
      (∀ b ∈ l, b ∈ context) → (∀ e ∈ acc, e.1 ∈ context ∧ True) →
      ∀ e ∈ l.foldl (fun targetMap binding =>
        mapInsert bindingCmp binding
          ((rearrange.filter fun x => binding.var.id == x.2.id).map fun x => x.1.var.id) targetMap) acc,
        e.1 ∈ context ∧ True from
    fun e he => (h context [] (fun _ hb => hb) (by simp) e he).1
  intro l
  induction l with
  | nil => intro acc _ hacc; simpa using hacc
  | cons b rest ih =>
    intro acc hl hacc
    simp only [List.foldl_cons]
    exact ih _ (fun x hx => hl x (by simp [hx]))
      (mem_mapInsert bindingCmp b _ (QK := fun k => k ∈ context) (QV := fun _ => True)
        (hl b (by simp)) trivial acc hacc)

/-! ## statements -/

theorem shape_codeTable (S : OpsShape B L TOK Src LabOK mem) (hm : mem) (base : String) :
    ∀ (cs : Clauses), L (codeTable B cs base)
  | .nil => by simp only [codeTable]; exact S.nil
  | .cons xtor _ _ rest => by
    simp only [codeTable]
    exact S.append (S.jumpLabelFixed hm _) (shape_codeTable S hm base rest)

theorem shape_hookCode (S : OpsShape B L TOK Src LabOK mem) (hooks : Bool) (ctx : Ctx) :
    L (hookCode B hooks ctx) := by
  unfold hookCode
  exact S.ite (S.comment _) S.nil

theorem shape_c0 (S : OpsShape B L TOK Src LabOK mem) (hooks : Bool) (ctx : Ctx) (m : String) :
    L (hookCode B hooks ctx ++ [B.comment m]) :=
  S.append (shape_hookCode S hooks ctx) (S.comment _)

theorem post_freshLabelStr (ren : Nat → String) : Post (freshLabelStr ren) (fun s => ∃ n, s = ren n) := by
  intro c s c' h
  exact ⟨c + 1, ((freshLabelStr_run_ok ren c s c').1 h).1.symm⟩

mutual
theorem post_codeStatementR (S : OpsShape B L TOK Src LabOK mem) (hooks : Bool) (ren : Nat → String)
    (types : List TypeDecl) :
    ∀ (s : Stmt) (context : Ctx), (mem ∨ IntStmtC context s) →
      Post (codeStatementR B hooks ren types s context) L
  | .subst rearrange next, context, hb => by
    simp only [codeStatementR]
    have hb' : mem ∨ (AllExt context ∧ IntStmtC (rearrange.map (·.1)) next) := by
      simpa only [IntStmtC] using hb
    refine Post.bind (post_codeWeakeningContraction S context _ (hb'.imp id fun h e he =>
      h.1 e.1 (transpose_keys_mem rearrange context e he))) fun c1 h1 => ?_
    refine Post.bind (post_codeExchange S _ _ _) fun c2 h2 => ?_
    refine Post.bind (post_codeStatementR S hooks ren types next _ (hb'.imp id (·.2))) fun c3 h3 => ?_
    exact Post.pure (S.append (S.append (S.append (shape_c0 S _ _ _) h1) h2) h3)
  | .call label args, context, _ => by
    simp only [codeStatementR]
    exact Post.pure (S.append (shape_c0 S _ _ _) (S.jumpLabel _ (S.labDef label)))
  | .letS var ty tag args next fv, context, hb => by
    have hm : mem := hb.elim id (fun h => by simp [IntStmtC] at h)
    simp only [codeStatementR]
    refine Post.bind (Post.true _) fun decl _ => ?_
    refine Post.bind (Post.true _) fun pos _ => ?_
    refine Post.bind (Post.true _) fun sp _ => ?_
    obtain ⟨context1, arguments⟩ := sp
    dsimp only
    refine Post.bind (S.store hm _ _) fun c1 h1 => ?_
    refine Post.bind (S.vt _ _ _) fun t ht => ?_
    refine Post.bind (post_codeStatementR S hooks ren types next _ (Or.inl hm)) fun c3 h3 => ?_
    exact Post.pure (S.append (S.append (S.append (shape_c0 S _ _ _) h1)
      (S.cons (S.comment _) (S.loadImmediate _ _ ht))) h3)
  | .switch var ty clauses fv, context, hb => by
    have hm : mem := hb.elim id (fun h => by simp [IntStmtC] at h)
    simp only [codeStatementR]
    refine Post.bind (Post.true _) fun num _ => ?_
    refine Post.bind (Q1 := L) ?_ fun c1 h1 => ?_
    · split
      · exact Post.pure (S.comment _)
      · exact Post.bind (S.vt _ _ _) fun t ht =>
          Post.pure (S.append (S.append (S.loadLabel hm _ _ S.temp) (S.binop _ _ _ _ S.temp S.temp ht))
            (S.jump hm _ S.temp))
    · refine Post.bind (post_codeClausesR S hm hooks ren types _ clauses _) fun c3 h3 => ?_
      exact Post.pure (S.append (S.append (S.append (shape_c0 S _ _ _) h1)
        (S.cons (S.label _) (S.ite (shape_codeTable S hm _ clauses) S.nil))) h3)
  | .create var ty env clauses next fv1 fv2, context, hb => by
    have hm : mem := hb.elim id (fun h => by simp [IntStmtC] at h)
    cases env with
    | none => simp only [codeStatementR]; exact Post.throw
    | some envCtx =>
      simp only [codeStatementR]
      refine Post.bind (Post.true _) fun sp _ => ?_
      obtain ⟨context1, closureEnvironment⟩ := sp
      dsimp only
      refine Post.bind (S.store hm _ _) fun c1 h1 => ?_
      refine Post.bind (Post.true _) fun num _ => ?_
      refine Post.bind (S.vt _ _ _) fun t ht => ?_
      refine Post.bind (post_codeStatementR S hooks ren types next _ (Or.inl hm)) fun c3 h3 => ?_
      refine Post.bind (post_codeMethodsR S hm hooks ren types _ clauses _) fun c5 h5 => ?_
      exact Post.pure (S.append (S.append (S.append (S.append (S.append (shape_c0 S _ _ _) h1)
        (S.cons (S.comment _) (S.loadLabel hm _ _ ht))) h3)
        (S.cons (S.label _) (S.ite (shape_codeTable S hm _ clauses) S.nil))) h5)
  | .invoke var tag ty args, context, hb => by
    have hm : mem := hb.elim id (fun h => by simp [IntStmtC] at h)
    simp only [codeStatementR]
    refine Post.bind (S.vt _ _ _) fun t ht => ?_
    refine Post.bind (Post.true _) fun decl _ => ?_
    split
    · exact Post.pure (S.append (S.append (shape_c0 S _ _ _) (S.comment _)) (S.jump hm _ ht))
    · exact Post.bind (Post.true _) fun pos _ =>
        Post.pure (S.append (shape_c0 S _ _ _) (S.addAndJump hm _ _ ht))
  | .lit var n next fv, context, hb => by
    simp only [codeStatementR]
    refine Post.bind (S.vt _ _ _) fun t ht => ?_
    refine Post.bind (post_codeStatementR S hooks ren types next _
      (hb.imp id fun h => by simpa only [IntStmtC] using h)) fun c2 h2 => ?_
    exact Post.pure (S.append (S.append (shape_c0 S _ _ _) (S.loadImmediate _ _ ht)) h2)
  | .op var fst o snd next fv, context, hb => by
    simp only [codeStatementR]
    refine Post.bind (S.vt _ _ _) fun t ht => ?_
    refine Post.bind (S.vt _ _ _) fun s1 hs1 => ?_
    refine Post.bind (S.vt _ _ _) fun s2 hs2 => ?_
    refine Post.bind (post_codeStatementR S hooks ren types next _
      (hb.imp id fun h => by simpa only [IntStmtC] using h)) fun c2 h2 => ?_
    exact Post.pure (S.append (S.append (shape_c0 S _ _ _) (S.binop _ _ _ _ ht hs1 hs2)) h2)
  | .print newline var next fv, context, hb => by
    simp only [codeStatementR]
    refine Post.bind (Q1 := fun t => TOK t ∧ Src context t) ?_ fun t ht => ?_
    · intro c a c' h
      exact ⟨S.vt _ _ _ c a c' h, S.vtSrc _ _ c a c' h⟩
    refine Post.bind (S.printI64 _ _ _ ht.1 ht.2) fun c1 h1 => ?_
    refine Post.bind (post_codeStatementR S hooks ren types next _
      (hb.imp id fun h => by simpa only [IntStmtC] using h)) fun c2 h2 => ?_
    exact Post.pure (S.append (S.append (shape_c0 S _ _ _) h1) h2)
  | .ifc sort fst snd thenc elsec, context, hb => by
    simp only [codeStatementR]
    have hb' : mem ∨ (IntStmtC context thenc ∧ IntStmtC context elsec) := by
      simpa only [IntStmtC] using hb
    refine Post.bind (post_freshLabelStr ren) fun num hnum => ?_
    refine Post.bind (Q1 := L) ?_ fun c1 h1 => ?_
    · cases snd with
      | none =>
        dsimp only
        exact Post.bind (S.vt _ _ _) fun a ha => Post.pure (S.jumpLabelIfZero _ _ _ ha (S.labFresh _))
      | some snd =>
        dsimp only
        exact Post.bind (S.vt _ _ _) fun a ha => Post.bind (S.vt _ _ _) fun b hb' =>
          Post.pure (S.jumpLabelIf _ _ _ _ ha hb' (S.labFresh _))
    · refine Post.bind (post_codeStatementR S hooks ren types elsec _ (hb'.imp id (·.2))) fun c2 h2 => ?_
      refine Post.bind (post_codeStatementR S hooks ren types thenc _ (hb'.imp id (·.1))) fun c3 h3 => ?_
      exact Post.pure (S.append (S.append (S.append (S.append (S.append (shape_c0 S _ _ _) h1)
        (S.comment _)) h2) (S.cons (S.label _) (S.comment _))) h3)
  | .exit var, context, _ => by
    simp only [codeStatementR]
    exact Post.bind (S.vt _ _ _) fun t ht =>
      Post.pure (S.append (S.append (shape_c0 S _ _ _) (S.mov _ _ S.return1 ht)) (S.jumpLabel _ S.labCleanup))
theorem post_codeClausesR (S : OpsShape B L TOK Src LabOK mem) (hm : mem) (hooks : Bool) (ren : Nat → String)
    (types : List TypeDecl) (context : Ctx) :
    ∀ (cs : Clauses) (baseLabel : String),
      Post (codeClausesR B hooks ren types context cs baseLabel) L
  | .nil, _ => by simp only [codeClausesR]; exact Post.pure S.nil
  | .cons xtor clauseCtx body rest, baseLabel => by
    simp only [codeClausesR]
    refine Post.bind (S.load hm _ _) fun c1 h1 => ?_
    refine Post.bind (post_codeStatementR S hooks ren types body _ (Or.inl hm)) fun c2 h2 => ?_
    refine Post.bind (post_codeClausesR S hm hooks ren types context rest baseLabel) fun c3 h3 => ?_
    exact Post.pure (S.cons (S.label _) (S.append (S.append h1 h2) h3))
theorem post_codeMethodsR (S : OpsShape B L TOK Src LabOK mem) (hm : mem) (hooks : Bool) (ren : Nat → String)
    (types : List TypeDecl) (env : Ctx) :
    ∀ (cs : Clauses) (baseLabel : String),
      Post (codeMethodsR B hooks ren types env cs baseLabel) L
  | .nil, _ => by simp only [codeMethodsR]; exact Post.pure S.nil
  | .cons xtor clauseCtx body rest, baseLabel => by
    simp only [codeMethodsR]
    refine Post.bind (S.load hm _ _) fun c1 h1 => ?_
    refine Post.bind (post_codeStatementR S hooks ren types body _ (Or.inl hm)) fun c2 h2 => ?_
    refine Post.bind (post_codeMethodsR S hm hooks ren types env rest baseLabel) fun c3 h3 => ?_
    exact Post.pure (S.cons (S.label _) (S.append (S.append h1 h2) h3))
end

theorem post_translateR (S : OpsShape B L TOK Src LabOK mem) (hooks : Bool) (ren : Nat → String)
    (types : List TypeDecl) :
    ∀ (defs : List Def), (mem ∨ ∀ d ∈ defs, IntStmtC d.ctx d.body) →
      Post (translateR B hooks ren types defs) (fun blocks => ∀ b ∈ blocks, L b)
  | [], _ => by simp only [translateR]; exact Post.pure (by simp)
  | d :: ds, h => by
    simp only [translateR]
    refine Post.bind (post_codeStatementR S hooks ren types d.body d.ctx
      (h.imp id fun h => h d (by simp))) fun is his => ?_
    refine Post.bind (post_translateR S hooks ren types ds
      (h.imp id fun h x hx => h x (by simp [hx]))) fun rest hr => ?_
    exact Post.pure (by
      intro b hb
      simp only [List.mem_cons] at hb
      rcases hb with rfl | hb
      · exact his
      · exact hr b hb)

theorem shape_assemble (S : OpsShape B L TOK Src LabOK mem) :
    ∀ (blocks : List (List Code)) (names : List Ident), (∀ b ∈ blocks, L b) →
      L (assemble B blocks names)
  | [], _, _ => by simp only [assemble]; exact S.nil
  | _ :: _, [], _ => by simp only [assemble]; exact S.nil
  | block :: blocks, name :: names, h => by
    simp only [assemble]
    exact S.cons (S.label _) (S.append (h block (by simp))
      (shape_assemble S blocks names (fun b hb => h b (by simp [hb]))))

/-- integer programs (syntactic, decidable; implied by `IntProg` + `LinTypedProg`) -/
def IntProgC (p : AxCut.Prog) : Prop := ∀ d ∈ p.defs, IntStmtC d.ctx d.body

/-- GENERIC LIFTING OF SHAPES: the body emitted for a program (any program if `mem`, an integer
    program otherwise) satisfies `L` -/
theorem post_compileR (S : OpsShape B L TOK Src LabOK mem) (hooks : Bool) (ren : Nat → String)
    (p : AxCut.Prog) (hp : mem ∨ IntProgC p) :
    Post (compileR B hooks ren p) (fun r => L r.1) := by
  unfold compileR
  cases hd : p.defs with
  | nil => exact Post.throw
  | cons d0 ds =>
    dsimp only
    refine Post.bind (post_translateR S hooks ren p.types _ (by
      rw [← hd]; exact hp)) fun blocks hb => ?_
    exact Post.pure (shape_assemble S _ _ hb)

end Generic

end Scc.Backend.Shape
