/-
  Scc.Backend.LoaderNamesC — the generic lifting of Scc/X86/LoaderNames.lean (`post_compileR_names`: which
  strings the generic code generator hands to the label- and comment-taking methods of a backend) with a
  STRONGER statement about comments, as the AArch64 / RISC-V loaders need it: their parser reads a comment
  that starts with `#ctx [` as a heap-monitor hook and REJECTS the text if it is not a well-formed hook.

  `CommentOK okc m`: the comment `m` has no line break and is either NOT a `#ctx [` text or EXACTLY the
  hook comment `ctxHookComment ctx` of a context whose variable names are `okc`-strings.
  Every comment of the generator is of this kind, provided `okc '#' = false` (the `op` comment
  `x <- a + b;` and the `call` comment `f(...)` START WITH A NAME; every other comment starts with a
  literal: `substitute `, `let `, `switch `, `create `, `invoke `, `lit `, `print…`, `if `, `exit `,
  `else branch`, `then branch`, `#move variables`, `#erase `, `#share `, `#load tag`, `#there is only…`).
  `MM m`: the text differs from `#ctx [` at a position inside both (stable under appending on the right).
  `OpsNamesC B P COK LOK` = `OpsNames` with `comment : ∀ m, COK m → P (B.comment m)`;
  `post_compileR_namesC`: the lifting.  The traversal is that of LoaderNames.lean, Part 3.
  Proof file.
-/
import Scc.X86.LoaderNames

set_option linter.unusedVariables false
set_option linter.unusedSimpArgs false

namespace Scc.Backend.NamesC

open Scc.AxCut Scc.Backend Scc.X86 Scc.X86.Loader

/-! ## texts that are not `#ctx [` hooks -/

def ctxP : List Char := "#ctx [".toList

/-- the text differs from `#ctx [` at a position inside both -/
abbrev MM (m : String) : Prop := mismatch ctxP m.toList = true

theorem mismatch_append {p a : List Char} (b : List Char) (h : mismatch p a = true) :
    mismatch p (a ++ b) = true := by
  induction p generalizing a with
  | nil => simp [mismatch] at h
  | cons x xs ih =>
    cases a with
    | nil => simp [mismatch] at h
    | cons y ys =>
      simp only [mismatch] at h
      simp only [List.cons_append, mismatch]
      split
      · rename_i hxy; simp only [hxy, if_true] at h; exact ih h
      · rfl

theorem not_prefix_of_mismatch {p a : List Char} (h : mismatch p a = true) : ¬ p <+: a := by
  induction p generalizing a with
  | nil => simp [mismatch] at h
  | cons x xs ih =>
    cases a with
    | nil => simp [mismatch] at h
    | cons y ys =>
      simp only [mismatch] at h
      intro hp
      obtain ⟨t, ht⟩ := hp
      simp only [List.cons_append, List.cons.injEq] at ht
      simp only [ht.1, if_true] at h
      exact ih h ⟨t, ht.2⟩

theorem mm_append {a b : String} (h : MM a) : MM (a ++ b) := by
  show mismatch ctxP (a ++ b).toList = true
  rw [String.toList_append]; exact mismatch_append _ h

theorem mm_not_prefix {m : String} (h : MM m) : ¬ ctxP <+: m.toList := not_prefix_of_mismatch h

/-- a text that starts with a name (of characters other than `#`) -/
theorem mm_strOK_append {okc : Char → Bool} (hh : okc '#' = false) {a b : String} (ha : StrOK okc a)
    (hb : MM b) : MM (a ++ b) := by
  show mismatch ctxP (a ++ b).toList = true
  rw [String.toList_append]
  cases hl : a.toList with
  | nil => exact hb
  | cons x xs =>
    have hx : okc x = true := ha x (by rw [hl]; simp)
    have : '#' ≠ x := by intro e; rw [← e, hh] at hx; cases hx
    show mismatch ('#' :: _) (x :: _) = true
    simp only [mismatch, this, if_false]

/-- **what every comment of the generator is** -/
def CommentOK (okc : Char → Bool) (m : String) : Prop :=
  NoNL m ∧ (¬ ctxP <+: m.toList ∨ ∃ ctx, CtxVars okc ctx ∧ m = ctxHookComment ctx)

theorem cok_lit {okc : Char → Bool} {m : String} (h1 : NoNL m) (h2 : ¬ ctxP <+: m.toList) : CommentOK okc m :=
  ⟨h1, Or.inl h2⟩

theorem cok_mm {okc : Char → Bool} {m : String} (h1 : NoNL m) (h2 : MM m) : CommentOK okc m :=
  ⟨h1, Or.inl (mm_not_prefix h2)⟩

/-! ## the generator (LoaderNames.lean Part 3 with `CommentOK` in place of `NoNL`) -/

section Generic

variable {Code T : Type} (B : Backend Code T) (P : Code → Prop) (COK : String → Prop) (LOK : String → Prop)

/-- what the generic generator needs from the backend methods: comments without line break and
    labels in `LOK` give `P`-codes, whatever the temporaries and numbers are -/
structure OpsNamesC : Prop where
  comment : ∀ m, COK m → P (B.comment m)
  label : ∀ l, LOK l → P (B.label l)
  jump : ∀ t, AllP P (B.jump t)
  jumpLabel : ∀ l, LOK l → AllP P (B.jumpLabel l)
  jumpLabelFixed : ∀ l, LOK l → AllP P (B.jumpLabelFixed l)
  jumpLabelIf : ∀ s a b l, LOK l → AllP P (B.jumpLabelIf s a b l)
  jumpLabelIfZero : ∀ s a l, LOK l → AllP P (B.jumpLabelIfZero s a l)
  loadImmediate : ∀ t n, AllP P (B.loadImmediate t n)
  loadLabel : ∀ t l, LOK l → AllP P (B.loadLabel t l)
  addAndJump : ∀ t k, AllP P (B.addAndJump t k)
  binop : ∀ o t s1 s2, AllP P (B.binop o t s1 s2)
  mov : ∀ t s, AllP P (B.mov t s)
  printI64 : ∀ nl t ctx, Post (B.printI64 nl t ctx) (AllP P)
  eraseBlock : ∀ t, Post (B.eraseBlock t) (AllP P)
  shareBlockN : ∀ t n, Post (B.shareBlockN t n) (AllP P)
  store : ∀ a b, Post (B.store a b) (AllP P)
  load : ∀ a b, Post (B.load a b) (AllP P)
  storeTemporary : ∀ t sp, AllP P (B.storeTemporary t sp)
  restoreTemporary : ∀ t sp, AllP P (B.restoreTemporary t sp)

variable {B P LOK} {okc : Char → Bool}

/-! ### parallel moves and substitutions emit only fixed comments -/

mutual
theorem allPN_treeMoves (S : OpsNamesC B P (CommentOK okc) LOK) (t : T) (sp : Bool) : ∀ (tr : Tree T), AllP P (treeMoves B t sp tr)
  | .backEdge => by simp only [treeMoves]; exact S.storeTemporary _ _
  | .node target kids => by
    simp only [treeMoves]
    exact AllP.append (allPN_treeMovesList S target sp kids) (S.mov _ _)
theorem allPN_treeMovesList (S : OpsNamesC B P (CommentOK okc) LOK) (t : T) (sp : Bool) :
    ∀ (trs : List (Tree T)), AllP P (treeMovesList B t sp trs)
  | [] => by simp only [treeMovesList]; exact AllP.nil
  | k :: ks => by
    simp only [treeMovesList]
    exact AllP.append (allPN_treeMoves S t sp k) (allPN_treeMovesList S t sp ks)
end

theorem allPN_rootMoves (S : OpsNamesC B P (CommentOK okc) LOK) (root : Root T) : AllP P (rootMoves B root) := by
  cases root with
  | startNode t kids =>
    simp only [rootMoves]
    exact AllP.append (allPN_treeMovesList S _ _ _) (AllP.ite (S.restoreTemporary _ _) AllP.nil)

theorem allPN_parallelMoves (S : OpsNamesC B P (CommentOK okc) LOK) {conns : List (T × List T)} {code : List Code}
    (h : parallelMoves B conns = .ok code) : AllP P code := by
  unfold parallelMoves at h
  split at h
  · cases h
  · rename_i forest _
    cases h
    refine AllP.append (AllP.ite (AllP.single (S.comment _ (cok_lit (by decide) (by decide)))) AllP.nil) (AllP.flatten ?_)
    intro l hl
    obtain ⟨r, _, rfl⟩ := List.mem_map.1 hl
    exact allPN_rootMoves S r

theorem postN_codeExchange (S : OpsNamesC B P (CommentOK okc) LOK) (tm : List (Binding × List Nat)) (context newContext : Ctx) :
    Post (codeExchange B tm context newContext) (AllP P) := by
  unfold codeExchange
  refine Post.bind (Post.true _) fun conns _ => ?_
  cases hpm : parallelMoves B conns with
  | error e => exact Post.throw
  | ok code => exact Post.pure (allPN_parallelMoves S hpm)

theorem postN_updateReferenceCount (S : OpsNamesC B P (CommentOK okc) LOK) (var : Ident) (hv : NoNL var.print) (context : Ctx)
    (newCount : Nat) : Post (updateReferenceCount B var context newCount) (AllP P) := by
  unfold updateReferenceCount
  refine Post.bind (Post.true _) fun t _ => ?_
  match newCount with
  | 0 =>
    exact Post.bind (S.eraseBlock t) fun code hc =>
      Post.pure (AllP.cons (S.comment _ (cok_mm (noNL_append.2 ⟨by decide, hv⟩) (mm_append (by decide)))) hc)
  | 1 => exact Post.pure AllP.nil
  | n + 2 =>
    exact Post.bind (S.shareBlockN t (n + 1)) fun code hc =>
      Post.pure (AllP.cons (S.comment _ (cok_mm (noNL_append.2 ⟨by decide, hv⟩) (mm_append (by decide)))) hc)

theorem postN_codeWeakeningContraction (S : OpsNamesC B P (CommentOK okc) LOK) (context : Ctx) :
    ∀ (tm : List (Binding × List Nat)), (∀ e ∈ tm, NoNL e.1.var.print) →
      Post (codeWeakeningContraction B tm context) (AllP P)
  | [], _ => by simp only [codeWeakeningContraction]; exact Post.pure AllP.nil
  | (binding, targets) :: rest, h => by
    simp only [codeWeakeningContraction]
    refine Post.bind (Q1 := AllP P) ?_ fun code hc => ?_
    · split
      · exact postN_updateReferenceCount S _ (h (binding, targets) (by simp)) _ _
      · exact Post.pure AllP.nil
    · exact Post.bind (postN_codeWeakeningContraction S context rest (fun e he => h e (by simp [he])))
        fun codeRest hr => Post.pure (AllP.append hc hr)

/-- the keys of the transposed substitution are bindings of the context -/
theorem transpose_keys (rearrange : List (Binding × Ident)) (context : Ctx) {Q : Binding → Prop}
    (hctx : ∀ b ∈ context, Q b) : ∀ e ∈ transpose rearrange context, Q e.1 := by
  unfold transpose
  suffices h : ∀ (l : Ctx) (acc : List (Binding × List Nat)), (∀ b ∈ l, Q b) →
      (∀ e ∈ acc, Q e.1 ∧ True) →
      ∀ e ∈ l.foldl (fun targetMap binding =>
        mapInsert bindingCmp binding
          ((rearrange.filter fun x => binding.var.id == x.2.id).map fun x => x.1.var.id) targetMap) acc,
        Q e.1 ∧ True from
    fun e he => (h context [] hctx (by simp) e he).1
  intro l
  induction l with
  | nil => intro acc _ hacc; simpa using hacc
  | cons b rest ih =>
    intro acc hl hacc
    simp only [List.foldl_cons]
    exact ih _ (fun x hx => hl x (by simp [hx]))
      (mem_mapInsert bindingCmp b _ (QK := Q) (QV := fun _ => True) (hl b (by simp)) trivial acc hacc)

end Generic

section Traversal

variable {Code T : Type} {B : Backend Code T} {P : Code → Prop} {okc : Char → Bool} {ren : Nat → String}

theorem genLabel_us (H : OkcSpec okc) {a : String} (ha : StrOK okc a) {b : String} (hb : StrOK okc b) :
    GenLabel okc ren (a ++ "_" ++ b) := by
  refine Or.inl ⟨strOK_append.2 ⟨strOK_append.2 ⟨ha, strOK_us H⟩, hb⟩, ?_⟩
  simp [String.toList_append]

theorem genLabel_us' (H : OkcSpec okc) {a : String} (ha : StrOK okc a) : GenLabel okc ren (a ++ "_") := by
  refine Or.inl ⟨strOK_append.2 ⟨ha, strOK_us H⟩, ?_⟩
  simp [String.toList_append]

theorem strOK_of_genLabel_us (H : OkcSpec okc) {a : String} (ha : StrOK okc a) {b : String} (hb : StrOK okc b) :
    StrOK okc (a ++ "_" ++ b) := strOK_append.2 ⟨strOK_append.2 ⟨ha, strOK_us H⟩, hb⟩

theorem post_freshLabelStr (ren : Nat → String) : Post (freshLabelStr ren) (fun s => ∃ n, s = ren n) := by
  unfold freshLabelStr
  exact Post.bind (Post.true _) fun n _ => Post.pure ⟨n, rfl⟩

theorem allPN_hookCode (H : OkcSpec okc) (S : OpsNamesC B P (CommentOK okc) (GenLabel okc ren)) (hooks : Bool) {ctx : Ctx}
    (hc : CtxVars okc ctx) : AllP P (hookCode B hooks ctx) := by
  unfold hookCode
  exact AllP.ite (AllP.single (S.comment _ ⟨noNL_ctxHookComment H hc, Or.inr ⟨_, hc, rfl⟩⟩)) AllP.nil

theorem allPN_c0 (H : OkcSpec okc) (S : OpsNamesC B P (CommentOK okc) (GenLabel okc ren)) (hooks : Bool) {ctx : Ctx}
    (hc : CtxVars okc ctx) {m : String} (hm : NoNL m) (hmm : MM m) : AllP P (hookCode B hooks ctx ++ [B.comment m]) :=
  AllP.append (allPN_hookCode H S hooks hc) (AllP.single (S.comment _ (cok_mm hm hmm)))

theorem allPN_codeTable (H : OkcSpec okc) (S : OpsNamesC B P (CommentOK okc) (GenLabel okc ren)) {base : String}
    (hbase : StrOK okc base) : ∀ (cs : Clauses), clausesNamesOK okc cs = true → AllP P (codeTable B cs base)
  | .nil, _ => by simp only [codeTable]; exact AllP.nil
  | .cons xtor _ _ rest, h => by
    simp only [clausesNamesOK, Bool.and_eq_true] at h
    simp only [codeTable]
    exact AllP.append (S.jumpLabelFixed _ (genLabel_us H hbase (strOK_print H h.1.1.1)))
      (allPN_codeTable H S hbase rest h.2)

theorem ctxVars_take {ctx : Ctx} (h : CtxVars okc ctx) (n : Nat) : CtxVars okc (ctx.take n) :=
  h.sub (fun _ hx => List.mem_of_mem_take hx)
theorem ctxVars_drop {ctx : Ctx} (h : CtxVars okc ctx) (n : Nat) : CtxVars okc (ctx.drop n) :=
  h.sub (fun _ hx => List.mem_of_mem_drop hx)
theorem ctxVars_dropLast {ctx : Ctx} (h : CtxVars okc ctx) : CtxVars okc ctx.dropLast :=
  h.sub (fun _ hx => by rw [List.dropLast_eq_take] at hx; exact List.mem_of_mem_take hx)

theorem post_splitOffLast {ctx : Ctx} (h : CtxVars okc ctx) (n : Nat) :
    Post (splitOffLast ctx n) (fun r => CtxVars okc r.1 ∧ CtxVars okc r.2) := by
  unfold splitOffLast
  split
  · exact Post.pure ⟨ctxVars_take h _, ctxVars_drop h _⟩
  · exact Post.throw

mutual
theorem postN_codeStatementR (H : OkcSpec okc) (hh : okc '#' = false) (hren : ∀ n, StrOK okc (ren n))
    (S : OpsNamesC B P (CommentOK okc) (GenLabel okc ren)) (hooks : Bool) (types : List TypeDecl) :
    ∀ (s : Stmt) (context : Ctx), stmtNamesOK okc s = true → CtxVars okc context →
      Post (codeStatementR B hooks ren types s context) (AllP P)
  | .subst rearrange next, context, hb, hc => by
    simp only [codeStatementR]
    simp only [stmtNamesOK, Bool.and_eq_true, List.all_eq_true] at hb
    have hnew : CtxVars okc (rearrange.map (·.1)) := by
      intro b hbm
      obtain ⟨e, he, rfl⟩ := List.mem_map.1 hbm
      exact (hb.1 e he).1
    refine Post.bind (postN_codeWeakeningContraction S context _
      (transpose_keys rearrange context (Q := fun b => NoNL b.var.print)
        (fun b hbm => noNL_print H (hc b hbm)))) fun c1 h1 => ?_
    refine Post.bind (postN_codeExchange S _ _ _) fun c2 h2 => ?_
    refine Post.bind (postN_codeStatementR H hh hren S hooks types next _ hb.2 hnew) fun c3 h3 => ?_
    exact Post.pure (AllP.append (AllP.append (AllP.append
      (allPN_c0 H S _ hc (noNL_substComment H hb.1) (mm_append (mm_append (by decide)))) h1) h2) h3)
  | .call label args, context, hb, hc => by
    simp only [codeStatementR]
    simp only [stmtNamesOK] at hb
    exact Post.pure (AllP.append (allPN_c0 H S _ hc (noNL_append.2 ⟨noNL_print H hb, by decide⟩)
        (mm_strOK_append hh (strOK_print H hb) (by decide)))
      (S.jumpLabel _ (genLabel_us' H (strOK_print H hb))))
  | .letS var ty tag args next fv, context, hb, hc => by
    simp only [codeStatementR]
    simp only [stmtNamesOK, Bool.and_eq_true] at hb
    obtain ⟨⟨⟨⟨hvar, hty⟩, htag⟩, hargs⟩, hnext⟩ := hb
    refine Post.bind (Post.true _) fun decl _ => ?_
    refine Post.bind (Post.true _) fun pos _ => ?_
    refine Post.bind (post_splitOffLast hc _) fun sp hsp => ?_
    obtain ⟨context1, arguments⟩ := sp
    dsimp only
    refine Post.bind (S.store _ _) fun c1 h1 => ?_
    refine Post.bind (Post.true _) fun t _ => ?_
    refine Post.bind (postN_codeStatementR H hh hren S hooks types next _ hnext
      (hsp.1.append (CtxVars.single hvar))) fun c3 h3 => ?_
    refine Post.pure (AllP.append (AllP.append (AllP.append (allPN_c0 H S _ hc ?_ ?_) h1)
      (AllP.cons (S.comment _ (cok_lit (by decide) (by decide))) (S.loadImmediate _ _))) h3)
    · simp only [noNL_append]
      exact ⟨⟨⟨⟨⟨⟨⟨⟨by decide, noNL_print H hvar⟩, by decide⟩, noNL_tyPrint hty⟩, by decide⟩, noNL_print H htag⟩,
        by decide⟩, noNL_varsPrint H (ctxVars_of_ctxOK hargs)⟩, by decide⟩
    · exact mm_append (mm_append (mm_append (mm_append (mm_append (mm_append (mm_append (mm_append (by decide))))))))
  | .switch var ty clauses fv, context, hb, hc => by
    simp only [codeStatementR]
    simp only [stmtNamesOK, Bool.and_eq_true] at hb
    obtain ⟨⟨hvar, hty⟩, hcl⟩ := hb
    refine Post.bind (post_freshLabelStr ren) fun num hnum => ?_
    obtain ⟨n, rfl⟩ := hnum
    have hbase : StrOK okc (mangleTy ty ++ "_" ++ ren n) :=
      strOK_of_genLabel_us H (strOK_mangleTy hty) (hren n)
    have hlbl : GenLabel okc ren (mangleTy ty ++ "_" ++ ren n) := genLabel_us H (strOK_mangleTy hty) (hren n)
    refine Post.bind (Q1 := AllP P) ?_ fun c1 h1 => ?_
    · split
      · exact Post.pure (AllP.single (S.comment _ (cok_lit (by decide) (by decide))))
      · exact Post.bind (Post.true _) fun t _ =>
          Post.pure (AllP.append (AllP.append (S.loadLabel _ _ hlbl) (S.binop _ _ _ _)) (S.jump _))
    · refine Post.bind (postN_codeClausesR H hh hren S hooks types _ (ctxVars_dropLast hc) clauses _ hcl hbase)
        fun c3 h3 => ?_
      exact Post.pure (AllP.append (AllP.append (AllP.append
        (allPN_c0 H S _ hc (noNL_append.2 ⟨noNL_append.2 ⟨by decide, noNL_print H hvar⟩, by decide⟩)
          (mm_append (mm_append (by decide)))) h1)
        (AllP.cons (S.label _ hlbl) (AllP.ite (allPN_codeTable H S hbase clauses hcl) AllP.nil))) h3)
  | .create var ty env clauses next fv1 fv2, context, hb, hc => by
    cases env with
    | none => simp only [codeStatementR]; exact Post.throw
    | some envCtx =>
      simp only [codeStatementR]
      simp only [stmtNamesOK, Bool.and_eq_true] at hb
      obtain ⟨⟨⟨⟨⟨hvar, hty⟩, htyl⟩, henv⟩, hcl⟩, hnext⟩ := hb
      refine Post.bind (post_splitOffLast hc _) fun sp hsp => ?_
      obtain ⟨context1, closureEnvironment⟩ := sp
      dsimp only
      refine Post.bind (S.store _ _) fun c1 h1 => ?_
      refine Post.bind (post_freshLabelStr ren) fun num hnum => ?_
      obtain ⟨n, rfl⟩ := hnum
      have hbase : StrOK okc (mangleTy ty ++ "_" ++ ren n) :=
        strOK_of_genLabel_us H (strOK_mangleTy htyl) (hren n)
      have hlbl : GenLabel okc ren (mangleTy ty ++ "_" ++ ren n) := genLabel_us H (strOK_mangleTy htyl) (hren n)
      refine Post.bind (Post.true _) fun t _ => ?_
      refine Post.bind (postN_codeStatementR H hh hren S hooks types next _ hnext
        (hsp.1.append (CtxVars.single hvar))) fun c3 h3 => ?_
      refine Post.bind (postN_codeMethodsR H hh hren S hooks types _ hsp.2 clauses _ hcl hbase) fun c5 h5 => ?_
      refine Post.pure (AllP.append (AllP.append (AllP.append (AllP.append (AllP.append
        (allPN_c0 H S _ hc ?_ ?_) h1)
        (AllP.cons (S.comment _ (cok_lit (by decide) (by decide))) (S.loadLabel _ _ hlbl))) h3)
        (AllP.cons (S.label _ hlbl) (AllP.ite (allPN_codeTable H S hbase clauses hcl) AllP.nil))) h5)
      · simp only [noNL_append]
        exact ⟨⟨⟨⟨⟨⟨by decide, noNL_print H hvar⟩, by decide⟩, noNL_tyPrint hty⟩, by decide⟩,
          noNL_varsPrint H (ctxVars_of_ctxOK henv)⟩, by decide⟩
      · exact mm_append (mm_append (mm_append (mm_append (mm_append (mm_append (by decide))))))
  | .invoke var tag ty args, context, hb, hc => by
    simp only [codeStatementR]
    simp only [stmtNamesOK, Bool.and_eq_true] at hb
    obtain ⟨⟨hvar, htag⟩, hargs⟩ := hb
    have hcom := noNL_invokePrint H hvar htag hargs
    have hcmm : MM (invokePrint var tag args) := by
      unfold invokePrint
      exact mm_append (mm_append (mm_append (mm_append (by decide))))
    refine Post.bind (Post.true _) fun t _ => ?_
    refine Post.bind (Post.true _) fun decl _ => ?_
    split
    · exact Post.pure (AllP.append (AllP.append (allPN_c0 H S _ hc hcom hcmm)
        (AllP.single (S.comment _ (cok_lit (by decide) (by decide))))) (S.jump _))
    · exact Post.bind (Post.true _) fun pos _ =>
        Post.pure (AllP.append (allPN_c0 H S _ hc hcom hcmm) (S.addAndJump _ _))
  | .lit var n next fv, context, hb, hc => by
    simp only [codeStatementR]
    simp only [stmtNamesOK, Bool.and_eq_true] at hb
    refine Post.bind (Post.true _) fun t _ => ?_
    refine Post.bind (postN_codeStatementR H hh hren S hooks types next _ hb.2
      (hc.append (CtxVars.single hb.1))) fun c2 h2 => ?_
    refine Post.pure (AllP.append (AllP.append (allPN_c0 H S _ hc ?_ ?_) (S.loadImmediate _ _)) h2)
    · simp only [noNL_append]
      exact ⟨⟨⟨⟨by decide, noNL_print H hb.1⟩, by decide⟩, noNL_intToString n⟩, by decide⟩
    · exact mm_append (mm_append (mm_append (mm_append (by decide))))
  | .op var fst o snd next fv, context, hb, hc => by
    simp only [codeStatementR]
    simp only [stmtNamesOK, Bool.and_eq_true] at hb
    obtain ⟨⟨⟨hvar, hfst⟩, hsnd⟩, hnext⟩ := hb
    refine Post.bind (Post.true _) fun t _ => ?_
    refine Post.bind (Post.true _) fun s1 _ => ?_
    refine Post.bind (Post.true _) fun s2 _ => ?_
    refine Post.bind (postN_codeStatementR H hh hren S hooks types next _ hnext
      (hc.append (CtxVars.single hvar))) fun c2 h2 => ?_
    refine Post.pure (AllP.append (AllP.append (allPN_c0 H S _ hc ?_ ?_) (S.binop _ _ _ _)) h2)
    · simp only [noNL_append]
      exact ⟨⟨⟨⟨⟨⟨⟨noNL_print H hvar, by decide⟩, noNL_print H hfst⟩, by decide⟩, noNL_opSym o⟩, by decide⟩,
        noNL_print H hsnd⟩, by decide⟩
    · exact mm_append (mm_append (mm_append (mm_append (mm_append (mm_append
        (mm_strOK_append hh (strOK_print H hvar) (by decide)))))))
  | .print newline var next fv, context, hb, hc => by
    simp only [codeStatementR]
    simp only [stmtNamesOK, Bool.and_eq_true] at hb
    refine Post.bind (Post.true _) fun t _ => ?_
    refine Post.bind (S.printI64 _ _ _) fun c1 h1 => ?_
    refine Post.bind (postN_codeStatementR H hh hren S hooks types next _ hb.2 hc) fun c2 h2 => ?_
    refine Post.pure (AllP.append (AllP.append (allPN_c0 H S _ hc ?_ ?_) h1) h2)
    · simp only [noNL_append]
      refine ⟨⟨⟨?_, by decide⟩, noNL_print H hb.1⟩, by decide⟩
      cases newline <;> decide
    · refine mm_append (mm_append (mm_append ?_))
      cases newline <;> decide
  | .ifc sort fst snd thenc elsec, context, hb, hc => by
    simp only [codeStatementR]
    simp only [stmtNamesOK, Bool.and_eq_true] at hb
    obtain ⟨⟨⟨hfst, hsnd⟩, hthen⟩, helse⟩ := hb
    refine Post.bind (post_freshLabelStr ren) fun num hnum => ?_
    obtain ⟨n, rfl⟩ := hnum
    have hlbl : GenLabel okc ren ("lab" ++ ren n) := Or.inr (Or.inl ⟨n, rfl⟩)
    refine Post.bind (Q1 := AllP P) ?_ fun c1 h1 => ?_
    · cases snd with
      | none =>
        dsimp only
        exact Post.bind (Post.true _) fun a _ => Post.pure (S.jumpLabelIfZero _ _ _ hlbl)
      | some snd =>
        dsimp only
        exact Post.bind (Post.true _) fun a _ => Post.bind (Post.true _) fun b _ =>
          Post.pure (S.jumpLabelIf _ _ _ _ hlbl)
    · refine Post.bind (postN_codeStatementR H hh hren S hooks types elsec _ helse hc) fun c2 h2 => ?_
      refine Post.bind (postN_codeStatementR H hh hren S hooks types thenc _ hthen hc) fun c3 h3 => ?_
      have hcmm : MM (ifcComment sort fst snd) := by
        unfold ifcComment
        exact mm_append (mm_append (mm_append (mm_append (mm_append (mm_append (by decide))))))
      have hcom : NoNL (ifcComment sort fst snd) := by
        refine noNL_ifcComment H sort hfst ?_
        intro s hs; subst hs; exact hsnd
      exact Post.pure (AllP.append (AllP.append (AllP.append (AllP.append (AllP.append
        (allPN_c0 H S _ hc hcom hcmm) h1)
        (AllP.single (S.comment _ (cok_lit (by decide) (by decide))))) h2)
        (AllP.cons (S.label _ hlbl) (AllP.single (S.comment _ (cok_lit (by decide) (by decide)))))) h3)
  | .exit var, context, hb, hc => by
    simp only [codeStatementR]
    simp only [stmtNamesOK] at hb
    exact Post.bind (Post.true _) fun t _ =>
      Post.pure (AllP.append (AllP.append
        (allPN_c0 H S _ hc (noNL_append.2 ⟨by decide, noNL_print H hb⟩) (mm_append (by decide))) (S.mov _ _))
        (S.jumpLabel _ (Or.inr (Or.inr rfl))))
theorem postN_codeClausesR (H : OkcSpec okc) (hh : okc '#' = false) (hren : ∀ n, StrOK okc (ren n))
    (S : OpsNamesC B P (CommentOK okc) (GenLabel okc ren)) (hooks : Bool) (types : List TypeDecl) (context : Ctx)
    (hc : CtxVars okc context) :
    ∀ (cs : Clauses) (baseLabel : String), clausesNamesOK okc cs = true → StrOK okc baseLabel →
      Post (codeClausesR B hooks ren types context cs baseLabel) (AllP P)
  | .nil, _, _, _ => by simp only [codeClausesR]; exact Post.pure AllP.nil
  | .cons xtor clauseCtx body rest, baseLabel, hb, hbase => by
    simp only [codeClausesR]
    simp only [clausesNamesOK, Bool.and_eq_true] at hb
    obtain ⟨⟨⟨hx, hctx⟩, hbody⟩, hrest⟩ := hb
    refine Post.bind (S.load _ _) fun c1 h1 => ?_
    refine Post.bind (postN_codeStatementR H hh hren S hooks types body _ hbody
      (hc.append (ctxVars_of_ctxOK hctx))) fun c2 h2 => ?_
    refine Post.bind (postN_codeClausesR H hh hren S hooks types context hc rest baseLabel hrest hbase) fun c3 h3 => ?_
    exact Post.pure (AllP.cons (S.label _ (genLabel_us H hbase (strOK_print H hx)))
      (AllP.append (AllP.append h1 h2) h3))
theorem postN_codeMethodsR (H : OkcSpec okc) (hh : okc '#' = false) (hren : ∀ n, StrOK okc (ren n))
    (S : OpsNamesC B P (CommentOK okc) (GenLabel okc ren)) (hooks : Bool) (types : List TypeDecl) (env : Ctx)
    (hc : CtxVars okc env) :
    ∀ (cs : Clauses) (baseLabel : String), clausesNamesOK okc cs = true → StrOK okc baseLabel →
      Post (codeMethodsR B hooks ren types env cs baseLabel) (AllP P)
  | .nil, _, _, _ => by simp only [codeMethodsR]; exact Post.pure AllP.nil
  | .cons xtor clauseCtx body rest, baseLabel, hb, hbase => by
    simp only [codeMethodsR]
    simp only [clausesNamesOK, Bool.and_eq_true] at hb
    obtain ⟨⟨⟨hx, hctx⟩, hbody⟩, hrest⟩ := hb
    refine Post.bind (S.load _ _) fun c1 h1 => ?_
    refine Post.bind (postN_codeStatementR H hh hren S hooks types body _ hbody
      ((ctxVars_of_ctxOK hctx).append hc)) fun c2 h2 => ?_
    refine Post.bind (postN_codeMethodsR H hh hren S hooks types env hc rest baseLabel hrest hbase) fun c3 h3 => ?_
    exact Post.pure (AllP.cons (S.label _ (genLabel_us H hbase (strOK_print H hx)))
      (AllP.append (AllP.append h1 h2) h3))
end

theorem postN_translateR (H : OkcSpec okc) (hh : okc '#' = false) (hren : ∀ n, StrOK okc (ren n))
    (S : OpsNamesC B P (CommentOK okc) (GenLabel okc ren)) (hooks : Bool) (types : List TypeDecl) :
    ∀ (defs : List Def), (∀ d ∈ defs, defNamesOK okc d = true) →
      Post (translateR B hooks ren types defs) (fun blocks => ∀ b ∈ blocks, AllP P b)
  | [], _ => by simp only [translateR]; exact Post.pure (by simp)
  | d :: ds, h => by
    simp only [translateR]
    have hd := h d (by simp)
    simp only [defNamesOK, Bool.and_eq_true] at hd
    refine Post.bind (postN_codeStatementR H hh hren S hooks types d.body d.ctx hd.2
      (ctxVars_of_ctxOK hd.1.2)) fun is his => ?_
    refine Post.bind (postN_translateR H hh hren S hooks types ds (fun x hx => h x (by simp [hx]))) fun rest hr => ?_
    exact Post.pure (by
      intro b hb
      simp only [List.mem_cons] at hb
      rcases hb with rfl | hb
      · exact his
      · exact hr b hb)

theorem allPN_assemble (H : OkcSpec okc) (S : OpsNamesC B P (CommentOK okc) (GenLabel okc ren)) :
    ∀ (blocks : List (List Code)) (names : List Ident), (∀ b ∈ blocks, AllP P b) →
      (∀ n ∈ names, identOK okc n = true) → AllP P (assemble B blocks names)
  | [], _, _, _ => by simp only [assemble]; exact AllP.nil
  | _ :: _, [], _, _ => by simp only [assemble]; exact AllP.nil
  | block :: blocks, name :: names, h, hn => by
    simp only [assemble]
    exact AllP.cons (S.label _ (genLabel_us' H (strOK_print H (hn name (by simp)))))
      (AllP.append (h block (by simp))
        (allPN_assemble H S blocks names (fun b hb => h b (by simp [hb])) (fun n hnm => hn n (by simp [hnm]))))

/-- GENERIC LIFTING for names: every code emitted for a program whose names are label-safe satisfies
    `P`, if the backend methods produce `P`-codes from line-break-free comments and `GenLabel`s -/
theorem post_compileR_namesC (H : OkcSpec okc) (hh : okc '#' = false) (hren : ∀ n, StrOK okc (ren n))
    (S : OpsNamesC B P (CommentOK okc) (GenLabel okc ren)) (hooks : Bool) (p : AxCut.Prog) (hp : progNamesOK okc p = true) :
    Post (compileR B hooks ren p) (fun r => AllP P r.1) := by
  unfold compileR
  simp only [progNamesOK, List.all_eq_true] at hp
  cases hd : p.defs with
  | nil => exact Post.throw
  | cons d0 ds =>
    dsimp only
    refine Post.bind (postN_translateR H hh hren S hooks p.types _ (by rw [← hd]; exact hp)) fun blocks hb => ?_
    refine Post.pure (allPN_assemble H S _ _ hb ?_)
    intro n hn
    obtain ⟨d, hdm, rfl⟩ := List.mem_map.1 hn
    have := hp d (by rw [hd]; exact hdm)
    simp only [defNamesOK, Bool.and_eq_true] at this
    exact this.1.1

end Traversal



end Scc.Backend.NamesC
