/-
  Scc.Backend.ProofsSim2 — the simulation lemmas of ProofsSim.lean (`lit`, `op`, `print`, `ifc`, `exit`,
  `call`, the initial configuration) FORKED to the strengthened representation relation `RelX`
  (SimDefs2.lean).  Each conclusion additionally states what happens to the allocation counter
  `next`.  The generic lemmas (temporaries, code layout, single steps, roots) are those of
  ProofsSim.lean.  Proof file.
-/
import Scc.Backend.ProofsRep2

set_option linter.unusedSimpArgs false
set_option linter.unusedVariables false

namespace Scc.Backend.Sim2

open Scc.AxCut Scc.AxCut.Pos Scc.Backend Scc.Backend.Abs Scc.Backend.Sim

/-! ## reading integers -/

theorem RelX.temp_of_int {P : Program} {hooks : Bool} {prog : Prog} {st : Pos.State} {cfg : Config}
    (R : RelX P hooks prog st cfg) {i : Nat} {n : Word} (hi : i < st.ctx.length)
    (hv : st.env[i]? = some (.int n)) : cfg.temps.get (2 * i + 1) = some n := by
  have hi2 : i < st.env.length := by rw [R.len]; exact hi
  obtain ⟨hr, hsome, _, _⟩ := R.vals i hi hi2
  have : st.env[i] = .int n := by
    rw [List.getElem?_eq_getElem hi2] at hv
    exact Option.some.inj hv
  rw [this] at hr
  cases hr
  cases hg : cfg.temps.get (2 * i + 1) with
  | none => simp [hg] at hsome
  | some w => simp [hg]

theorem RelX.readInt {P : Program} {hooks : Bool} {prog : Prog} {st : Pos.State} {cfg : Config}
    (R : RelX P hooks prog st cfg) {x : Ident} {n : Word} (h : readInt st.ctx st.env x = .ok n) :
    ∃ i, Mock.ctxPosition st.ctx x.id = some i ∧ i < st.ctx.length ∧
      cfg.temps.get (2 * i + 1) = some n := by
  obtain ⟨i, hp, hv⟩ := readInt_ok h
  exact ⟨i, by rw [ctxPosition_eq_posOf]; exact hp, posOf_lt hp, R.temp_of_int (posOf_lt hp) hv⟩

/-- a state that differs from a related one only in the program counter and `TEMP` -/
theorem RelX.jump {P : Program} {hooks : Bool} {prog : Prog} {Γ : Ctx} {ρ : List Value} {s s' : Stmt}
    {cfg : Config} (R : RelX P hooks prog ⟨Γ, ρ, s⟩ cfg) (pc' : Nat)
    (hcode : ∃ c c' ops, (codeStatementR mockSym hooks natRen prog.types s' Γ).run c = .ok (ops, c') ∧
      CodeAt P pc' ops) :
    RelX P hooks prog ⟨Γ, ρ, s'⟩ { cfg with pc := pc', temps := clobberTemp cfg.temps } := by
  have hσ : ∀ t, t < 2 * Γ.length → (clobberTemp cfg.temps).get t = cfg.temps.get t := by
    intro t ht
    have := R.cap
    exact get_clobberTemp _ (by simp only at this; omega)
  exact {
    len := R.len
    cap := R.cap
    vals := ValsOK2_congr R.vals hσ
    heap := by
      apply HeapOK_congr R.heap
      exact roots_congr _ _ _ (fun i hi => hσ (2 * i) (by have : i < Γ.length := hi; omega))
    code := hcode }

/-! ## simulation: `lit` -/

theorem sim2_lit {P : Program} {hooks : Bool} {prog : Prog} {Γ : Ctx} {ρ : List Value} {x : Ident}
    {n : Int} {next : Stmt} {fv : FV} {cfg : Config}
    (R : RelX P hooks prog ⟨Γ, ρ, .lit x n next fv⟩ cfg)
    (hfresh : ∀ b ∈ Γ, b.var.id ≠ x.id) (hcap : 2 * (Γ.length + 1) + 2 < Mock.T_TEMP) :
    ∃ cfg', stepsTo P 1 cfg cfg' ∧ cfg'.out = cfg.out ∧ cfg'.next = cfg.next ∧
      RelX P hooks prog ⟨Γ ++ [⟨x, .ext, .i64⟩], ρ ++ [.int (BitVec.ofInt 64 n)], next⟩ cfg' := by
  obtain ⟨c, c', ops, hrun, hat⟩ := R.code
  simp only [codeStatementR, run_bind_ok, run_pure_ok, mockSym_variableTemporary, vt_run_ok] at hrun
  obtain ⟨t, k1, ⟨pos, hpos, rfl, rfl⟩, c2, k2, h2, rfl, rfl⟩ := hrun
  have hp : pos = Γ.length := by
    rw [ctxPosition_eq_posOf] at hpos
    have := posOf_append_fresh Γ ⟨x, .ext, .i64⟩ hfresh
    rw [this] at hpos
    exact (Option.some.inj hpos).symm
  subst hp
  simp only [mockSym_loadImmediate, mockSym_comment, List.append_assoc, CodeAt_hook] at hat
  simp only [List.cons_append, List.nil_append, CodeAt, TempNum.toNat] at hat
  obtain ⟨hcode, hat2⟩ := hat
  have ht : 2 * Γ.length + 1 ≠ Mock.T_TEMP := by omega
  refine ⟨_, stepsTo_one P _ _ (step_li P cfg _ n hcode ht), rfl, rfl, ?_⟩
  have hσ : ∀ t, t < 2 * Γ.length →
      ((clobberTemp cfg.temps).set (2 * Γ.length + 1) (BitVec.ofInt 64 n)).get t = cfg.temps.get t := by
    intro t ht'
    rw [get_set_other _ _ (by omega), get_clobberTemp _ (by omega)]
  exact {
    len := by simp [R.len]
    cap := by simpa using hcap
    vals := ValsOK2_snoc_int R.vals R.len hσ _ rfl _ (get_set_same _ _ _)
    heap := by
      apply HeapOK_congr R.heap
      show roots (Γ ++ [_]) _ = roots Γ cfg.temps
      rw [roots_append_ext _ _ _ rfl]
      exact roots_congr _ _ _ (fun i hi => hσ (2 * i) (by omega))
    code := ⟨_, _, c2, h2, hat2⟩ }

/-! ## simulation: `op` -/

theorem sim2_op {P : Program} {hooks : Bool} {prog : Prog} {Γ : Ctx} {ρ : List Value} {x a b : Ident}
    {o : BinOp} {next : Stmt} {fv : FV} {cfg : Config} {va vb v : Word}
    (R : RelX P hooks prog ⟨Γ, ρ, .op x a o b next fv⟩ cfg)
    (hfresh : ∀ b' ∈ Γ, b'.var.id ≠ x.id) (hcap : 2 * (Γ.length + 1) + 2 < Mock.T_TEMP)
    (ha : readInt Γ ρ a = .ok va) (hb : readInt Γ ρ b = .ok vb) (hv : Pos.evalOp o va vb = .ok v) :
    ∃ cfg', stepsTo P 1 cfg cfg' ∧ cfg'.out = cfg.out ∧ cfg'.next = cfg.next ∧
      RelX P hooks prog ⟨Γ ++ [⟨x, .ext, .i64⟩], ρ ++ [.int v], next⟩ cfg' := by
  obtain ⟨c, c', ops, hrun, hat⟩ := R.code
  simp only [codeStatementR, run_bind_ok, run_pure_ok, mockSym_variableTemporary, vt_run_ok] at hrun
  obtain ⟨t, k1, ⟨pos, hpos, rfl, rfl⟩, s1, k2, ⟨p1, hp1, rfl, rfl⟩, s2, k3, ⟨p2, hp2, rfl, rfl⟩,
    c2, k4, h2, rfl, rfl⟩ := hrun
  have hp : pos = Γ.length := by
    rw [ctxPosition_eq_posOf] at hpos
    have := posOf_append_fresh Γ ⟨x, .ext, .i64⟩ hfresh
    rw [this] at hpos
    exact (Option.some.inj hpos).symm
  subst hp
  obtain ⟨i1, hi1, hl1, hg1⟩ := R.readInt ha
  obtain ⟨i2, hi2, hl2, hg2⟩ := R.readInt hb
  have e1 : p1 = i1 := by
    rw [ctxPosition_eq_posOf] at hp1 hi1
    have := posOf_append_old [⟨x, .ext, .i64⟩] hi1
    simp only at this hi1
    rw [this] at hp1; exact (Option.some.inj hp1).symm
  have e2 : p2 = i2 := by
    rw [ctxPosition_eq_posOf] at hp2 hi2
    have := posOf_append_old [⟨x, .ext, .i64⟩] hi2
    simp only at this hi2
    rw [this] at hp2; exact (Option.some.inj hp2).symm
  subst e1 e2
  simp only [mockSym_binop, mockSym_comment, List.append_assoc, CodeAt_hook] at hat
  simp only [List.cons_append, List.nil_append, CodeAt, TempNum.toNat] at hat
  obtain ⟨hcode, hat2⟩ := hat
  have ht : 2 * Γ.length + 1 ≠ Mock.T_TEMP := by omega
  refine ⟨_, stepsTo_one P _ _
    (step_binop P cfg o _ _ _ va vb v hcode ht hg1 hg2 (evalBinOp_of_evalOp hv)), rfl, rfl, ?_⟩
  have hσ : ∀ t, t < 2 * Γ.length →
      ((clobberTemp cfg.temps).set (2 * Γ.length + 1) v).get t = cfg.temps.get t := by
    intro t ht'
    rw [get_set_other _ _ (by omega), get_clobberTemp _ (by omega)]
  exact {
    len := by simp [R.len]
    cap := by simpa using hcap
    vals := ValsOK2_snoc_int R.vals R.len hσ _ rfl _ (get_set_same _ _ _)
    heap := by
      apply HeapOK_congr R.heap
      show roots (Γ ++ [_]) _ = roots Γ cfg.temps
      rw [roots_append_ext _ _ _ rfl]
      exact roots_congr _ _ _ (fun i hi => hσ (2 * i) (by omega))
    code := ⟨_, _, c2, h2, hat2⟩ }

/-! ## simulation: `print` -/

theorem sim2_print {P : Program} {hooks : Bool} {prog : Prog} {Γ : Ctx} {ρ : List Value} {a : Ident}
    {nl : Bool} {next : Stmt} {fv : FV} {cfg : Config} {v : Word}
    (R : RelX P hooks prog ⟨Γ, ρ, .print nl a next fv⟩ cfg) (ha : readInt Γ ρ a = .ok v) :
    ∃ cfg', stepsTo P 1 cfg cfg' ∧ cfg'.out = (nl, v) :: cfg.out ∧ cfg'.next = cfg.next ∧
      RelX P hooks prog ⟨Γ, ρ, next⟩ cfg' := by
  obtain ⟨c, c', ops, hrun, hat⟩ := R.code
  simp only [codeStatementR, run_bind_ok, run_pure_ok, mockSym_variableTemporary, vt_run_ok,
    mockSym_printI64] at hrun
  obtain ⟨t, k1, ⟨pos, hpos, rfl, rfl⟩, c1, k2, ⟨rfl, rfl⟩, c2, k3, h2, rfl, rfl⟩ := hrun
  obtain ⟨i, hi, hl, hg⟩ := R.readInt ha
  simp only at hi
  rw [hi] at hpos
  cases hpos
  simp only [mockSym_comment, List.append_assoc, CodeAt_hook] at hat
  simp only [List.cons_append, List.nil_append, CodeAt, TempNum.toNat] at hat
  obtain ⟨hcode, hat2⟩ := hat
  refine ⟨_, stepsTo_one P _ _ (step_print P cfg nl _ _ v hcode hg), rfl, rfl, ?_⟩
  have hσ : ∀ t, t < 2 * Γ.length →
      (keepPositions cfg.temps (Mock.kindsOf Γ).length).get t = cfg.temps.get t := by
    intro t ht'
    rw [get_keepPositions]
    simp [Mock.kindsOf, ht']
  exact {
    len := R.len
    cap := R.cap
    vals := ValsOK2_congr R.vals hσ
    heap := by
      apply HeapOK_congr R.heap
      exact roots_congr _ _ _ (fun i hi => hσ (2 * i) (by have : i < Γ.length := hi; omega))
    code := ⟨_, _, c2, h2, hat2⟩ }

/-! ## simulation: `ifc` -/

theorem sim2_ifc {P : Program} {hooks : Bool} {prog : Prog} {Γ : Ctx} {ρ : List Value} {a : Ident}
    {b : Option Ident} {srt : IfSort} {t e : Stmt} {cfg : Config} {va vb : Word}
    (R : RelX P hooks prog ⟨Γ, ρ, .ifc srt a b t e⟩ cfg) (ha : readInt Γ ρ a = .ok va)
    (hb : match b with | none => vb = 0 | some b' => readInt Γ ρ b' = .ok vb) :
    ∃ cfg', stepsTo P 1 cfg cfg' ∧ cfg'.out = cfg.out ∧ cfg'.next = cfg.next ∧
      RelX P hooks prog ⟨Γ, ρ, if Pos.evalCmp srt va vb then t else e⟩ cfg' := by
  obtain ⟨c, c', ops, hrun, hat⟩ := R.code
  simp only [codeStatementR, run_bind_ok, run_pure_ok, freshLabelStr_run_ok] at hrun
  obtain ⟨num, k1, ⟨rfl, rfl⟩, c1, k2, h1, c2, k3, h2, c3, k4, h3, rfl, rfl⟩ := hrun
  obtain ⟨i1, hi1, hl1, hg1⟩ := R.readInt ha
  simp only at hi1
  simp only [mockSym_comment, mockSym_label, List.append_assoc, CodeAt_hook] at hat
  simp only [List.cons_append, List.nil_append, CodeAt] at hat
  rw [CodeAt_append] at hat
  obtain ⟨hat1, hat'⟩ := hat
  simp only [CodeAt] at hat'
  rw [CodeAt_append] at hat'
  obtain ⟨hatE, hatT⟩ := hat'
  simp only [CodeAt] at hatT
  obtain ⟨hlab, hatT⟩ := hatT
  cases b with
  | none =>
    simp only at hb
    subst hb
    simp only [run_bind_ok, run_pure_ok, mockSym_variableTemporary, vt_run_ok] at h1
    obtain ⟨ta, k5, ⟨p, hp, rfl, rfl⟩, rfl, rfl⟩ := h1
    rw [hi1] at hp; cases hp
    simp only [mockSym_jumpLabelIfZero, CodeAt, TempNum.toNat, instrCount] at hat1 hatE hlab
    have hst := step_jifz P cfg srt _ _ va hat1.1 hg1
    rw [evalCond_eq_evalCmp] at hst
    by_cases hc : Pos.evalCmp srt va 0 = true
    · simp only [hc, if_true] at hst ⊢
      simp only [jumpTo, hlab] at hst
      exact ⟨_, stepsTo_one P _ _ hst, rfl, rfl, R.jump _ ⟨_, _, c3, h3, hatT⟩⟩
    · simp only [hc, if_false, Bool.false_eq_true] at hst ⊢
      exact ⟨_, stepsTo_one P _ _ hst, rfl, rfl, R.jump _ ⟨_, _, c2, h2, hatE⟩⟩
  | some b' =>
    simp only at hb
    obtain ⟨i2, hi2, hl2, hg2⟩ := R.readInt hb
    simp only at hi2
    simp only [run_bind_ok, run_pure_ok, mockSym_variableTemporary, vt_run_ok] at h1
    obtain ⟨ta, k5, ⟨p, hp, rfl, rfl⟩, tb, k6, ⟨q, hq, rfl, rfl⟩, rfl, rfl⟩ := h1
    rw [hi1] at hp; cases hp
    rw [hi2] at hq; cases hq
    simp only [mockSym_jumpLabelIf, CodeAt, TempNum.toNat, instrCount] at hat1 hatE hlab
    have hst := step_jif P cfg srt _ _ _ va vb hat1.1 hg1 hg2
    rw [evalCond_eq_evalCmp] at hst
    by_cases hc : Pos.evalCmp srt va vb = true
    · simp only [hc, if_true] at hst ⊢
      simp only [jumpTo, hlab] at hst
      exact ⟨_, stepsTo_one P _ _ hst, rfl, rfl, R.jump _ ⟨_, _, c3, h3, hatT⟩⟩
    · simp only [hc, if_false, Bool.false_eq_true] at hst ⊢
      exact ⟨_, stepsTo_one P _ _ hst, rfl, rfl, R.jump _ ⟨_, _, c2, h2, hatE⟩⟩

/-! ## simulation: `exit` -/

theorem sim2_exit {P : Program} {hooks : Bool} {prog : Prog} {Γ : Ctx} {ρ : List Value} {a : Ident}
    {cfg : Config} {v : Word}
    (R : RelX P hooks prog ⟨Γ, ρ, .exit a⟩ cfg) (ha : readInt Γ ρ a = .ok v) :
    ∃ cfg', stepsTo P 1 cfg cfg' ∧ cfg'.out = cfg.out ∧ Abs.step P cfg' = .halt (.done v) := by
  obtain ⟨c, c', ops, hrun, hat⟩ := R.code
  simp only [codeStatementR, run_bind_ok, run_pure_ok, mockSym_variableTemporary, vt_run_ok] at hrun
  obtain ⟨t, k1, ⟨pos, hpos, rfl, rfl⟩, rfl, rfl⟩ := hrun
  obtain ⟨i, hi, hl, hg⟩ := R.readInt ha
  simp only at hi
  rw [hi] at hpos; cases hpos
  simp only [mockSym_comment, mockSym_mov, mockSym_jumpLabel, mockSym_return1, List.append_assoc,
    CodeAt_hook] at hat
  simp only [List.cons_append, List.nil_append, CodeAt, TempNum.toNat] at hat
  obtain ⟨hmov, hjmp, _⟩ := hat
  have hst := step_mov P cfg Mock.T_RET1 _ v hmov (by decide) hg
  refine ⟨_, stepsTo_one P _ _ hst, rfl, ?_⟩
  exact step_cleanup P _ v hjmp (get_set_same _ _ _)

/-! ## simulation: `call` -/

theorem sim2_call {P : Program} {hooks : Bool} {prog : Prog} {Γ : Ctx} {ρ : List Value} {l : Ident}
    {args : Ctx} {cfg : Config} {d : Def}
    (R : RelX P hooks prog ⟨Γ, ρ, .call l args⟩ cfg) (D : DefsAt P hooks prog)
    (hd : Pos.findDef prog.defs l = some d) (hchi : Pos.chiTys Γ = Pos.chiTys d.ctx) :
    ∃ cfg', stepsTo P 1 cfg cfg' ∧ cfg'.out = cfg.out ∧ cfg'.next = cfg.next ∧
      RelX P hooks prog ⟨d.ctx, ρ, d.body⟩ cfg' := by
  obtain ⟨c, c', ops, hrun, hat⟩ := R.code
  simp only [codeStatementR, run_pure_ok] at hrun
  obtain ⟨rfl, rfl⟩ := hrun
  simp only [mockSym_comment, mockSym_jumpLabel, List.append_assoc, CodeAt_hook] at hat
  simp only [List.cons_append, List.nil_append, CodeAt] at hat
  obtain ⟨hjmp, _⟩ := hat
  have hmem : d ∈ prog.defs := List.mem_of_find?_eq_some hd
  have hname : d.name = l := by
    have := List.find?_some hd
    exact Ident.eq_of_beq this
  obtain ⟨a, c1, c1', ops, hlab, hrun, hat⟩ := D d hmem
  rw [hname] at hlab
  have hst := step_jumpLabel P cfg _ a hjmp (defLabel_ne_cleanup _) hlab
  have hchi' : Γ.map (·.chi) = d.ctx.map (·.chi) := by
    have := congrArg (List.map Prod.fst) hchi
    simp only [Pos.chiTys, List.map_map] at this
    exact this
  have hlen : Γ.length = d.ctx.length := by simpa using congrArg List.length hchi'
  have hσ : ∀ t, t < 2 * Γ.length → (clobberTemp cfg.temps).get t = cfg.temps.get t := by
    intro t ht
    have := R.cap
    exact get_clobberTemp _ (by simp only at this; omega)
  refine ⟨_, stepsTo_one P _ _ hst, rfl, rfl, ?_⟩
  exact {
    len := by rw [← hlen]; exact R.len
    cap := by have := R.cap; simp only at this ⊢; omega
    vals := ValsOK2_chi (ValsOK2_congr R.vals hσ) hchi'
    heap := by
      apply HeapOK_congr R.heap
      show roots d.ctx _ = roots Γ cfg.temps
      unfold roots
      rw [← roots_go_chi _ Γ d.ctx 0 hchi']
      exact roots_congr _ _ _ (fun i hi => hσ (2 * i) (by omega))
    code := ⟨_, _, ops, hrun, hat⟩ }

/-! ## the initial configuration -/

theorem init_relX (hooks : Bool) (prog : Prog) (c : Nat) (code : List MockOp) (nargs c' : Nat)
    (hcomp : (compile mockSym hooks prog).run c = .ok ((code, nargs), c'))
    (hnodup : (dfns (events code)).Nodup)
    (d0 : Def) (hd : d0 ∈ prog.defs) (hext : ∀ b ∈ d0.ctx, b.chi = .ext)
    (args : List Word) (hlen : d0.ctx.length = args.length)
    (hcap : 2 * d0.ctx.length + 2 < Mock.T_TEMP) :
    ∃ a, (Program.ofOps code).labelAddr (d0.name.print ++ "_") = some a ∧
      RelX (Program.ofOps code) hooks prog ⟨d0.ctx, args.map .int, d0.body⟩ (initConfig a args) ∧
      (initConfig a args).next = 1 := by
  obtain ⟨a, ck, ck', ops, hlab, hrun, hat⟩ := defsAt_of_compile hooks prog c code nargs c' hcomp hnodup d0 hd
  refine ⟨a, hlab, ?_, rfl⟩
  exact {
    len := by simp [hlen]
    cap := hcap
    vals := by
      intro i h1 h2
      have hi : i < args.length := by simpa using h2
      have hg := initTemps_get args 0 i hi
      rw [Nat.zero_add] at hg
      have hchi : (d0.ctx[i]).chi = .ext := hext _ (List.getElem_mem h1)
      have hb : (Chi.ext == Chi.ext) = true := by decide
      simp only [initConfig, hg, hchi, hb, if_true, List.getElem_map, Option.getD_some]
      refine ⟨RepV.int _ none, rfl, rfl, ?_⟩
      intro hc; exact absurd hc (by decide)
    heap := by
      show HeapOK [] (roots d0.ctx _) 1
      unfold roots
      rw [roots_go_all_ext _ _ _ hext]
      exact heapOK_empty 1 (by decide)
    code := ⟨ck, ck', ops, hrun, hat⟩ }

end Scc.Backend.Sim2
