/-
  Scc.Backend.SizeX86 — the x86-64 backend (Scc/X86/Backend.lean, /repo/lang/axcut2x86_64) satisfies
  the hypotheses of the generic size bound of Scc.Backend.SizeGen with the constant c = 96:

    * `x86_law`:  temporaries are a lawful strict total order (registers before spills),
                  `variable_temporary` = `temporary_from_position (2·position + number)` is injective;
    * `x86_cost`: every instruction method emits at most 96 instructions (the longest: `div` 9,
                  `print_i64` ≤ 25 with the caller-save dance, `erase_block` ≤ 15), `store` of k
                  fields at most 96·(k+1) (per block of ≤ 3 fields: ≤ 17 for the values, 74 for
                  `acquire_block` including `erase_fields`), `load` at most 96·(k+1).
  Hence (`x86_compile_length`, `x86_routine_length`): the body has at most 485·(1 + M)·nodes
  instructions, the printed routine at most that + 48 lines.     Proof file.
-/
import Scc.Backend.SizeGen
import Scc.X86.Backend

set_option linter.unusedVariables false
set_option linter.unusedSimpArgs false

namespace Scc.Backend.SizeX86

open Scc.AxCut Scc.AxCut.SizeLin Scc.Backend Scc.Backend.SizePM Scc.Backend.SizeConns Scc.Backend.SizeGen
open Scc.X86

/-! ## code.rs -/

theorem moveFromRegister_length (t : Temporary) (r : Reg) : (moveFromRegister t r).length = 1 := by
  cases t <;> rfl
theorem moveToRegister_length (r : Reg) (t : Temporary) : (moveToRegister r t).length = 1 := by
  cases t <;> rfl
theorem addToRegister_length (r : Reg) (t : Temporary) : (addToRegister r t).length = 1 := by
  cases t <;> rfl
theorem addToSpill_length (p : Nat) (t : Temporary) : (addToSpill p t).length ≤ 2 := by
  cases t <;> simp [addToSpill]
theorem mulToRegister_length (r : Reg) (t : Temporary) : (mulToRegister r t).length = 1 := by
  cases t <;> rfl
theorem mulToSpill_length (p : Nat) (t : Temporary) : (mulToSpill p t).length ≤ 2 := by
  cases t <;> simp [mulToSpill]
theorem subToRegister_length (r : Reg) (t : Temporary) : (subToRegister r t).length = 1 := by
  cases t <;> rfl
theorem subToSpill_length (p : Nat) (t : Temporary) : (subToSpill p t).length ≤ 2 := by
  cases t <;> simp [subToSpill]

theorem opCommutative_length (f : Reg → Temporary → List Code) (g : Nat → Temporary → List Code)
    (hf : ∀ r t, (f r t).length = 1) (hg : ∀ p t, (g p t).length ≤ 2) (t s1 s2 : Temporary) :
    (opCommutative f g t s1 s2).length ≤ 3 := by
  unfold opCommutative
  cases t with
  | reg r =>
    dsimp only
    split
    · rw [hf]; omega
    · split
      · rw [hf]; omega
      · simp only [List.length_append, moveToRegister_length, hf]; omega
  | spill p =>
    dsimp only
    split
    · have := hg p s2; omega
    · split
      · have := hg p s1; omega
      · simp only [List.length_append, moveToRegister_length, hf, List.length_cons, List.length_nil]; omega

theorem sub_length (t s1 s2 : Temporary) : (X86.sub t s1 s2).length ≤ 3 := by
  unfold X86.sub
  cases t with
  | reg r =>
    dsimp only
    split
    · rw [subToRegister_length]; omega
    · split <;> simp only [List.length_append, moveToRegister_length, subToRegister_length,
        List.length_cons, List.length_nil] <;> omega
  | spill p =>
    dsimp only
    split
    · have := subToSpill_length p s2; omega
    · simp only [List.length_append, moveToRegister_length, subToRegister_length,
        List.length_cons, List.length_nil]; omega

theorem divBy_length (t : Temporary) : (divBy t).length = 2 := by
  cases t with
  | reg r => simp only [divBy]; split <;> rfl
  | spill p => rfl

theorem binop_length (o : BinOp) (t s1 s2 : Temporary) : (X86.binop o t s1 s2).length ≤ 9 := by
  cases o with
  | sum =>
    have := opCommutative_length addToRegister addToSpill addToRegister_length addToSpill_length t s1 s2
    simp only [X86.binop, X86.add]; omega
  | sub => have := sub_length t s1 s2; simp only [X86.binop]; omega
  | prod =>
    have := opCommutative_length mulToRegister mulToSpill mulToRegister_length mulToSpill_length t s1 s2
    simp only [X86.binop, X86.mul]; omega
  | div =>
    simp only [X86.binop, X86.div, List.length_append, moveFromRegister_length, moveToRegister_length,
      divBy_length, List.length_cons, List.length_nil]; omega
  | rem =>
    simp only [X86.binop, X86.rem, List.length_append, moveFromRegister_length, moveToRegister_length,
      divBy_length, List.length_cons, List.length_nil]; omega

theorem mov_length (t s : Temporary) : (X86.mov t s).length ≤ 2 := by
  cases s <;> cases t <;> simp [X86.mov, moveFromRegister, moveToRegister]

theorem compare_length (a b : Temporary) : (X86.compare a b).length ≤ 2 := by
  cases a <;> cases b <;> simp [X86.compare]

theorem compareImmediate_length (a : Temporary) (n : Int) : (compareImmediate a n).length = 1 := by
  cases a <;> rfl

theorem jump_length (t : Temporary) : (X86.jump t).length ≤ 2 := by cases t <;> simp [X86.jump]
theorem loadImmediate_length (t : Temporary) (n : Int) : (X86.loadImmediate t n).length ≤ 2 := by
  cases t with
  | reg r => simp [X86.loadImmediate]
  | spill p => simp only [X86.loadImmediate]; split <;> simp
theorem loadLabel_length (t : Temporary) (l : String) : (X86.loadLabel t l).length ≤ 2 := by
  cases t <;> simp [X86.loadLabel]
theorem addAndJump_length (t : Temporary) (n : Int) : (X86.addAndJump t n).length ≤ 3 := by
  cases t <;> simp [X86.addAndJump]
theorem storeTemporary_length (t : Temporary) (b : Bool) : (X86.storeTemporary t b).length ≤ 2 := by
  cases t <;> cases b <;> simp [X86.storeTemporary]
theorem restoreTemporary_length (t : Temporary) (b : Bool) : (X86.restoreTemporary t b).length ≤ 2 := by
  cases t <;> cases b <;> simp [X86.restoreTemporary]

/-! ## print_i64: the caller-save dance -/

theorem flatten_length_le {α : Type} (k : Nat) : ∀ (ls : List (List α)), (∀ l ∈ ls, l.length ≤ k) →
    ls.flatten.length ≤ k * ls.length
  | [], _ => by simp
  | l :: ls, h => by
    have h1 := h l (by simp)
    have h2 := flatten_length_le k ls (fun x hx => h x (by simp [hx]))
    simp only [List.flatten_cons, List.length_append, List.length_cons, Nat.mul_add, Nat.mul_one]; omega

theorem registersToSave_length (Γ : Ctx) : (callerSaveRegistersInfo Γ).2.length ≤ 8 := by
  unfold callerSaveRegistersInfo
  dsimp only
  refine Nat.le_trans (flatten_length_le 2 _ ?_) ?_
  · intro l hl
    obtain ⟨bo, _, rfl⟩ := List.mem_map.1 hl
    split <;> simp
  · simp only [List.length_map, List.length_zipIdx, List.length_take]
    have : (CALLER_SAVE_LAST + 1 - CALLER_SAVE_FIRST) / 2 = 4 := rfl
    rw [this]; omega

theorem save_length (f : Nat) (rs : List Nat) : (saveCallerSaveRegisters f rs).length ≤ rs.length + 1 := by
  unfold saveCallerSaveRegisters
  simp only [List.length_append, List.length_map, List.length_zipIdx, List.length_take, List.length_drop]
  split <;> simp <;> omega

theorem restore_length (f : Nat) (rs : List Nat) :
    (restoreCallerSaveRegisters f rs).length ≤ rs.length + 1 := by
  unfold restoreCallerSaveRegisters
  simp only [List.length_append, List.length_map, List.length_zipIdx, List.length_take, List.length_drop,
    List.length_reverse]
  split <;> simp <;> omega

theorem printI64_length (nl : Bool) (t : Temporary) (Γ : Ctx) : (X86.printI64 nl t Γ).length ≤ 25 := by
  unfold X86.printI64
  have h1 := registersToSave_length Γ
  have h2 := save_length (callerSaveRegistersInfo Γ).1 (callerSaveRegistersInfo Γ).2
  have h3 := restore_length (callerSaveRegistersInfo Γ).1 (callerSaveRegistersInfo Γ).2
  cases t with
  | reg r => simp only [List.length_append, List.length_cons, List.length_nil]; omega
  | spill p =>
    simp only [List.length_append, List.length_cons, List.length_nil, moveToRegister_length]; omega

/-! ## memory.rs -/

theorem skipIfZero_length (cond : Temporary) (toSkip : List Code) :
    GPost (skipIfZero cond toSkip) (fun code => code.length = toSkip.length + 3) := by
  unfold skipIfZero
  refine GPost.bind (GPost.true _) fun l _ => GPost.pure ?_
  simp only [List.length_append, compareImmediate_length, List.length_cons, List.length_nil]; omega

theorem ifZeroThenElse_length (cond : Reg) (off : Option Int) (th el : List Code) :
    GPost (ifZeroThenElse cond off th el) (fun code => code.length = th.length + el.length + 5) := by
  unfold ifZeroThenElse
  refine GPost.bind (GPost.true _) fun l1 _ => GPost.bind (GPost.true _) fun l2 _ => GPost.pure ?_
  simp only [List.length_append, List.length_cons, List.length_nil]; omega

theorem eraseValidObject_length (r : Reg) : GPost (eraseValidObject r) (fun code => code.length = 10) := by
  unfold eraseValidObject
  exact GPost.mono (ifZeroThenElse_length _ _ _ _) (fun code h => by simpa using h)

theorem eraseBlock_length (t : Temporary) : GPost (X86.eraseBlock t) (fun code => code.length ≤ 15) := by
  unfold X86.eraseBlock
  cases t with
  | reg r =>
    dsimp only
    refine GPost.bind (eraseValidObject_length r) fun c hc => ?_
    refine GPost.mono (skipIfZero_length _ _) fun code h => ?_
    simp only [List.length_append, List.length_cons, List.length_nil, hc] at h; omega
  | spill p =>
    dsimp only
    refine GPost.bind (eraseValidObject_length TEMP) fun c hc => ?_
    refine GPost.bind (skipIfZero_length _ _) fun r hr => GPost.pure ?_
    simp only [List.length_append, List.length_cons, List.length_nil, hc] at hr ⊢; omega

theorem eraseBlock_reg_length (r : Reg) : GPost (X86.eraseBlock (.reg r)) (fun code => code.length = 14) := by
  unfold X86.eraseBlock
  dsimp only
  refine GPost.bind (eraseValidObject_length r) fun c hc => ?_
  refine GPost.mono (skipIfZero_length _ _) fun code h => ?_
  simp only [List.length_append, List.length_cons, List.length_nil, hc] at h; omega

theorem shareBlockN_length (t : Temporary) (n : Nat) :
    GPost (X86.shareBlockN t n) (fun code => code.length ≤ 6) := by
  unfold X86.shareBlockN
  cases t with
  | reg r =>
    dsimp only
    refine GPost.mono (skipIfZero_length _ _) fun code h => ?_
    simp only [List.length_append, List.length_cons, List.length_nil] at h; omega
  | spill p =>
    dsimp only
    refine GPost.mono (skipIfZero_length _ _) fun code h => ?_
    simp only [List.length_append, List.length_cons, List.length_nil] at h; omega

theorem eraseFields_length (r : Reg) : ∀ (n off : Nat),
    GPost (eraseFields r n off) (fun code => code.length = 16 * n)
  | 0, _ => by simp only [eraseFields]; exact GPost.pure rfl
  | n + 1, off => by
    simp only [eraseFields]
    refine GPost.bind (eraseBlock_reg_length TEMP) fun c hc => ?_
    refine GPost.bind (eraseFields_length r n (off + 1)) fun rest hr => GPost.pure ?_
    simp only [List.length_append, List.length_cons, List.length_nil, hc, hr]; omega

theorem acquireBlock_length (t : Temporary) : GPost (acquireBlock t) (fun code => code.length ≤ 74) := by
  unfold acquireBlock
  have hF : FIELDS_PER_BLOCK = 3 := rfl
  refine GPost.bind (eraseFields_length HEAP FIELDS_PER_BLOCK 0) fun erased he => ?_
  refine GPost.bind (ifZeroThenElse_length _ _ _ _) fun inner hi => ?_
  refine GPost.bind (ifZeroThenElse_length _ _ _ _) fun outer ho => GPost.pure ?_
  rw [hF] at he
  cases t with
  | reg r =>
    simp only [List.length_append, List.length_cons, List.length_nil, he] at hi ho ⊢; omega
  | spill p =>
    simp only [List.length_append, List.length_cons, List.length_nil, he] at hi ho ⊢; omega

theorem storeZeros_length (ff : Nat) (r : Reg) : (storeZeros ff r).length = ff := by
  unfold storeZeros
  have : ∀ (l : List Nat), ((l.map fun offset => storeZero r offset).flatten).length = l.length := by
    intro l; induction l with
    | nil => rfl
    | cons a l ih =>
      rw [List.map_cons, List.flatten_cons, List.length_append, ih]
      simp [storeZero]; omega
  rw [this, List.length_range]

theorem storeField_length (num : TempNum) (Γ : Ctx) (r : Reg) (off : Nat) :
    GPost (storeField num Γ r off) (fun code => code.length ≤ 2) := by
  unfold storeField
  refine GPost.bind (GPost.true _) fun t _ => ?_
  cases t <;> exact GPost.pure (by simp)

theorem loadField_length (num : TempNum) (Γ : Ctx) (r : Reg) (off : Nat) :
    GPost (loadField num Γ r off) (fun code => code.length ≤ 2) := by
  unfold loadField
  refine GPost.bind (GPost.true _) fun t _ => ?_
  cases t <;> exact GPost.pure (by simp)

theorem storeValue_length (b : Binding) (Γ : Ctx) (r : Reg) (off : Nat) :
    GPost (storeValue b Γ r off) (fun code => code.length ≤ 4) := by
  unfold storeValue
  refine GPost.bind (storeField_length _ _ _ _) fun c1 h1 => ?_
  split
  · exact GPost.pure (by simp [storeZero]; omega)
  · exact GPost.bind (storeField_length _ _ _ _) fun c2 h2 => GPost.pure (by simp; omega)

theorem loadValue_length (b : Binding) (Γ : Ctx) (r : Reg) (off : Nat) (mode : LoadMode) :
    GPost (loadValue b Γ r off mode) (fun code => code.length ≤ 10) := by
  unfold loadValue
  refine GPost.bind (loadField_length _ _ _ _) fun c1 h1 => ?_
  split
  · refine GPost.bind (loadField_length _ _ _ _) fun c2 h2 => ?_
    refine GPost.bind (GPost.true _) fun t _ => ?_
    dsimp only
    split
    · refine GPost.bind (Q1 := fun (code : List Code) => code.length ≤ 6)
        (by unfold shareBlock; exact shareBlockN_length _ 1) fun c3 h3 => GPost.pure ?_
      simp only [List.length_append]; omega
    · exact GPost.pure (by simp only [List.length_append]; omega)
  · exact GPost.pure (by omega)

theorem gpost_pred1 (n : Nat) : GPost (pred1 n) (fun k => k + 1 = n) := by
  unfold pred1
  cases n with
  | zero => exact GPost.throw
  | succ k => exact GPost.pure rfl

theorem storeValuesLoop_length (Γ : Ctx) (r : Reg) : ∀ (l : List Binding) (ff : Nat),
    GPost (storeValuesLoop Γ r l ff) (fun res => res.1.length ≤ 4 * l.length ∧ res.2 ≤ ff)
  | [], ff => by simp only [storeValuesLoop]; exact GPost.pure (by simp)
  | b :: rest, ff => by
    simp only [storeValuesLoop]
    refine GPost.bind (gpost_pred1 ff) fun off hoff => ?_
    refine GPost.bind (storeValue_length _ _ _ _) fun c hc => ?_
    refine GPost.bind (storeValuesLoop_length Γ r rest off) fun res hres => ?_
    obtain ⟨cs, ff'⟩ := res
    refine GPost.pure ?_
    simp only [List.length_append, List.length_cons] at hres ⊢; omega

theorem storeValues_length (toStore Γ : Ctx) (r : Reg) (ff : Nat) :
    GPost (storeValues toStore Γ r ff) (fun code => code.length ≤ 2 + 4 * toStore.length + ff) := by
  unfold storeValues
  refine GPost.bind (storeValuesLoop_length Γ r toStore.reverse ff) fun res hres => ?_
  obtain ⟨cs, ff'⟩ := res
  refine GPost.pure ?_
  simp only [List.length_reverse] at hres
  simp only [List.length_append, List.length_cons, List.length_nil, storeZeros_length]
  split <;> simp <;> omega

theorem loadValuesLoop_length (Γ : Ctx) (r : Reg) (mode : LoadMode) : ∀ (l : List Binding) (ff : Nat),
    GPost (loadValuesLoop Γ r mode l ff) (fun code => code.length ≤ 10 * l.length)
  | [], ff => by simp only [loadValuesLoop]; exact GPost.pure (by simp)
  | b :: rest, ff => by
    simp only [loadValuesLoop]
    refine GPost.bind (GPost.true _) fun off _ => ?_
    refine GPost.bind (loadValue_length _ _ _ _ _) fun c hc => ?_
    refine GPost.bind (loadValuesLoop_length Γ r mode rest off) fun cs hcs => GPost.pure ?_
    simp only [List.length_append, List.length_cons]; omega

theorem loadValues_length (toLoad Γ : Ctx) (r : Reg) (ff : Nat) (mode : LoadMode) :
    GPost (loadValues toLoad Γ r ff mode) (fun code => code.length ≤ 1 + 10 * toLoad.length) := by
  unfold loadValues
  refine GPost.bind (loadValuesLoop_length Γ r mode toLoad.reverse ff) fun cs hcs => GPost.pure ?_
  simp only [List.length_reverse] at hcs
  simp only [List.length_append, List.length_cons, List.length_nil]; omega

/-- the part of the fields stored into / loaded from one block: at most 3, and the rest is shorter -/
theorem restLength_spec (len : Nat) (pos : BlockPosition) (hlen : 0 < len) :
    len - restLength len pos ≤ 3 ∧ restLength len pos < len := by
  have hF : FIELDS_PER_BLOCK = 3 := rfl
  unfold restLength
  rw [hF]
  cases pos
  · by_cases h : len ≤ 3 - 0 <;> simp only [BlockPosition.toNat, h, if_true, if_false] <;> omega
  · by_cases h : len ≤ 3 - 1 <;> simp only [BlockPosition.toNat, h, if_true, if_false] <;> omega

theorem storeFields_length : ∀ (fuel : Nat) (toStore Γ : Ctx) (pos : BlockPosition),
    GPost (storeFields fuel toStore Γ pos) (fun code => code.length ≤ 96 * toStore.length + 3)
  | 0, _, _, _ => by simp only [storeFields]; exact GPost.throw
  | fuel + 1, toStore, Γ, pos => by
    simp only [storeFields]
    split
    · split
      · refine GPost.bind (GPost.true _) fun t _ => GPost.pure ?_
        have := loadImmediate_length t 0
        simp only [List.length_append, List.length_cons, List.length_nil]; omega
      · exact GPost.pure (by simp)
    · next hne =>
      have hlen : 0 < toStore.length := by
        cases toStore with
        | nil => simp at hne
        | cons _ _ => simp
      obtain ⟨r1, r2⟩ := restLength_spec toStore.length pos hlen
      have hF : FIELDS_PER_BLOCK = 3 := rfl
      have hc2 : (if pos = BlockPosition.last then [Code.COMMENT "#allocate memory"] else []).length ≤ 1 := by
        split <;> simp
      split
      · refine GPost.bind (storeField_length _ _ _ _) fun c hc => ?_
        simp only [pure_bind]
        refine GPost.bind (storeValues_length _ _ _ _) fun c3 h3 => ?_
        refine GPost.bind (GPost.true _) fun t _ => ?_
        refine GPost.bind (acquireBlock_length t) fun c4 h4 => ?_
        refine GPost.bind (storeFields_length fuel _ Γ .other) fun c5 h5 => GPost.pure ?_
        simp only [List.length_drop, List.length_take, hF] at h3 h5
        simp only [List.length_append, List.length_cons, List.length_nil]
        omega
      · simp only [pure_bind]
        refine GPost.bind (storeValues_length _ _ _ _) fun c3 h3 => ?_
        refine GPost.bind (GPost.true _) fun t _ => ?_
        refine GPost.bind (acquireBlock_length t) fun c4 h4 => ?_
        refine GPost.bind (storeFields_length fuel _ Γ .other) fun c5 h5 => GPost.pure ?_
        simp only [List.length_drop, List.length_take, hF] at h3 h5
        simp only [List.length_append, List.length_cons, List.length_nil]
        omega

theorem store_length (a b : Ctx) : GPost (X86.store a b) (fun code => code.length ≤ 96 * (a.length + 1)) := by
  unfold X86.store
  exact GPost.mono (storeFields_length _ a b .last) (fun code h => by omega)

theorem loadFieldsBlock_length (r : Reg) (next Γ1 Γ2 : Ctx) (pos : BlockPosition) (mode : LoadMode) :
    GPost (loadFieldsBlock r next Γ1 Γ2 pos mode) (fun code => code.length ≤ 7 + 10 * next.length) := by
  unfold loadFieldsBlock
  have hrel : (if mode = LoadMode.release then [Code.COMMENT "###release block"] ++ releaseBlock r
      else []).length ≤ 3 := by
    split <;> simp [releaseBlock]
  dsimp only
  split
  · refine GPost.bind (loadField_length _ _ _ _) fun c hc => ?_
    simp only [pure_bind]
    refine GPost.bind (loadValues_length _ _ _ _ _) fun c3 h3 => GPost.pure ?_
    simp only [List.length_append, List.length_cons, List.length_nil] at hrel ⊢; omega
  · simp only [pure_bind]
    refine GPost.bind (loadValues_length _ _ _ _ _) fun c3 h3 => GPost.pure ?_
    simp only [List.length_append, List.length_cons, List.length_nil] at hrel ⊢; omega

theorem loadFields_length : ∀ (fuel : Nat) (toLoad Γ : Ctx) (pos : BlockPosition) (mode : LoadMode)
    (freed : Bool), GPost (loadFields fuel toLoad Γ pos mode freed)
      (fun res => res.1.length ≤ 42 * toLoad.length)
  | 0, _, _, _, _, _ => by simp only [loadFields]; exact GPost.throw
  | fuel + 1, toLoad, Γ, pos, mode, freed => by
    simp only [loadFields]
    split
    · exact GPost.pure (by simp)
    · next hne =>
      have hlen : 0 < toLoad.length := by
        cases toLoad with
        | nil => simp at hne
        | cons _ _ => simp
      obtain ⟨r1, r2⟩ := restLength_spec toLoad.length pos hlen
      refine GPost.bind (loadFields_length fuel _ Γ .other mode freed) fun res hres => ?_
      obtain ⟨c0, freed'⟩ := res
      dsimp only at hres ⊢
      refine GPost.bind (GPost.true _) fun mb _ => ?_
      simp only [List.length_take] at hres
      cases mb with
      | reg r =>
        dsimp only
        refine GPost.bind (loadFieldsBlock_length _ _ _ _ _ _) fun c hc => GPost.pure ?_
        simp only [List.length_drop] at hc
        simp only [List.length_append]; omega
      | spill p =>
        dsimp only
        refine GPost.bind (loadFieldsBlock_length _ _ _ _ _ _) fun c hc => GPost.pure ?_
        simp only [List.length_drop] at hc
        have h1 : (if (!freed') = true then
            [Code.COMMENT "###evacuate additional scratch register for memory block",
             Code.MOVS TEMPORARY_TEMP STACK (stackOffset SPILL_TEMP)] else []).length ≤ 2 := by
          split <;> simp
        have h3 : (if pos = BlockPosition.last then
            [Code.COMMENT "###restore evacuated register",
             Code.MOVL TEMPORARY_TEMP STACK (stackOffset SPILL_TEMP)] else []).length ≤ 2 := by
          split <;> simp
        simp only [List.length_append, List.length_cons, List.length_nil]; omega

theorem loadRegister_length (r : Reg) (toLoad Γ : Ctx) :
    GPost (loadRegister r toLoad Γ) (fun code => code.length ≤ 9 + 84 * toLoad.length) := by
  unfold loadRegister
  refine GPost.bind (loadFields_length _ toLoad Γ .last .release false) fun r1 h1 => ?_
  obtain ⟨cThen, _⟩ := r1
  refine GPost.bind (loadFields_length _ toLoad Γ .last .share false) fun r2 h2 => ?_
  obtain ⟨cElse, _⟩ := r2
  refine GPost.bind (ifZeroThenElse_length _ _ _ _) fun c hc => GPost.pure ?_
  simp only [List.length_append, List.length_cons, List.length_nil] at hc h1 h2 ⊢; omega

theorem load_length (a b : Ctx) : GPost (X86.load a b) (fun code => code.length ≤ 96 * (a.length + 1)) := by
  unfold X86.load
  split
  · exact GPost.pure (by simp)
  · refine GPost.bind (GPost.true _) fun mb _ => ?_
    cases mb with
    | reg r =>
      dsimp only
      refine GPost.bind (loadRegister_length _ _ _) fun c hc => GPost.pure ?_
      simp only [List.length_append, List.length_cons, List.length_nil]; omega
    | spill p =>
      dsimp only
      refine GPost.bind (loadRegister_length _ _ _) fun c hc => GPost.pure ?_
      simp only [List.length_append, List.length_cons, List.length_nil]; omega

/-! ## utils.rs: `variable_temporary` -/

theorem ctxPosition_spec (id : Nat) : ∀ (ctx : Ctx) (i pos : Nat), X86.ctxPosition ctx id i = some pos →
    i ≤ pos ∧ ∃ b, ctx[pos - i]? = some b ∧ b.var.id = id
  | [], _, _, h => by simp [X86.ctxPosition] at h
  | b :: bs, i, pos, h => by
    simp only [X86.ctxPosition] at h
    split at h
    · next hb =>
      cases h
      exact ⟨Nat.le_refl _, b, by simp, by simpa using hb⟩
    · obtain ⟨h1, b', h2, h3⟩ := ctxPosition_spec id bs (i + 1) pos h
      refine ⟨by omega, b', ?_, h3⟩
      have : pos - i = (pos - (i + 1)) + 1 := by omega
      rw [this]; simpa using h2

theorem tfp_cases' {n : Nat} {t : Temporary} (h : temporaryFromPosition n = .ok t) :
    (n + 4 < 16 ∧ t = .reg (n + 4)) ∨ (16 ≤ n + 4 ∧ t = .spill (n + 4 - 16 + 1)) := by
  have hR : RESERVED = 4 := rfl
  have hN : REGISTER_NUM = 16 := rfl
  have hS : RESERVED_SPILLS = 1 := rfl
  unfold temporaryFromPosition at h
  simp only [hR, hN, hS] at h
  split at h
  · next hlt => left; exact ⟨hlt, (Except.ok.inj h).symm⟩
  · next hge =>
    split at h
    · right; exact ⟨by omega, (Except.ok.inj h).symm⟩
    · cases h

theorem tfp_inj {n m : Nat} {t : Temporary} (h1 : temporaryFromPosition n = .ok t)
    (h2 : temporaryFromPosition m = .ok t) : n = m := by
  rcases tfp_cases' h1 with ⟨a1, rfl⟩ | ⟨a1, rfl⟩ <;> rcases tfp_cases' h2 with ⟨a2, e⟩ | ⟨a2, e⟩
  · have := Temporary.reg.inj e; omega
  · cases e
  · cases e
  · have := Temporary.spill.inj e; omega

theorem x86_vt {num : TempNum} {ctx : Ctx} {id : Nat} {t : Temporary} (h : VT x86Backend num ctx id t) :
    ∃ pos b, X86.ctxPosition ctx id 0 = some pos ∧ temporaryFromPosition (2 * pos + num.toNat) = .ok t ∧
      ctx[pos]? = some b ∧ b.var.id = id := by
  obtain ⟨c, c', hr⟩ := h
  change (X86.variableTemporary num ctx id).run c = .ok (t, c') at hr
  unfold X86.variableTemporary at hr
  cases hp : X86.ctxPosition ctx id 0 with
  | none => rw [hp] at hr; exact ((run_throw_ok _ c t c').1 hr).elim
  | some pos =>
    rw [hp] at hr
    dsimp only at hr
    obtain ⟨_, b, hb, hid⟩ := ctxPosition_spec id ctx 0 pos hp
    refine ⟨pos, b, rfl, ?_, by simpa using hb, hid⟩
    cases ht : temporaryFromPosition (2 * pos + num.toNat) with
    | error e => rw [ht] at hr; exact ((run_throw_ok _ c t c').1 hr).elim
    | ok t' =>
      rw [ht] at hr
      obtain ⟨rfl, _⟩ := (run_pure_ok t' c t c').1 hr
      rfl

theorem temp_beq' (x y : Temporary) : (x == y) = true ↔ x = y := by
  cases x <;> cases y <;> simp [BEq.beq, instBEqTemporary.beq]

theorem x86_law : BackendLaw x86Backend where
  eq := by intro a b; exact temp_beq' a b
  irrefl := by intro a; cases a <;> simp [x86Backend, tempLt]
  trans := by
    intro a b c h1 h2
    cases a <;> cases b <;> cases c <;> simp [x86Backend, tempLt] at h1 h2 ⊢ <;> omega
  total := by
    intro a b h1 h2
    cases a <;> cases b <;> simp [x86Backend, tempLt] at h1 h2 ⊢ <;> omega
  vtDet := by
    intro num ctx id t t' h h'
    obtain ⟨p, _, hp, ht, _, _⟩ := x86_vt h
    obtain ⟨p', _, hp', ht', _, _⟩ := x86_vt h'
    rw [hp] at hp'; cases hp'
    rw [ht] at ht'; cases ht'; rfl
  vtInj := by
    intro num num' ctx id id' t h h'
    obtain ⟨p, b, _, ht, hb, hid⟩ := x86_vt h
    obtain ⟨p', b', _, ht', hb', hid'⟩ := x86_vt h'
    have e := tfp_inj ht ht'
    have hn : num = num' ∧ p = p' := by
      cases num <;> cases num' <;> simp only [TempNum.toNat] at e <;>
        first | exact ⟨rfl, by omega⟩ | (exfalso; omega)
    obtain ⟨rfl, rfl⟩ := hn
    rw [hb] at hb'; cases hb'
    exact ⟨rfl, hid.symm.trans hid'⟩

theorem x86_cost : GenCost x86Backend 96 where
  move := ⟨fun a b => Nat.le_trans (mov_length a b) (by omega),
    fun t s => Nat.le_trans (storeTemporary_length t s) (by omega),
    fun t s => Nat.le_trans (restoreTemporary_length t s) (by omega)⟩
  jump := fun t => Nat.le_trans (jump_length t) (by omega)
  jumpLabel := fun _ => by show [Code.JMPL _].length ≤ 96; simp
  jumpLabelFixed := fun _ => by show [Code.JMPLN _].length ≤ 96; simp
  jumpLabelIf := fun s a b l => by
    show (X86.jumpLabelIf s a b l).length ≤ 96
    have := compare_length a b
    simp only [X86.jumpLabelIf, List.length_append, List.length_cons, List.length_nil]; omega
  jumpLabelIfZero := fun s a l => by
    show (X86.jumpLabelIfZero s a l).length ≤ 96
    simp only [X86.jumpLabelIfZero, List.length_append, compareImmediate_length, List.length_cons,
      List.length_nil]; omega
  loadImmediate := fun t n => Nat.le_trans (loadImmediate_length t n) (by omega)
  loadLabel := fun t l => Nat.le_trans (loadLabel_length t l) (by omega)
  addAndJump := fun t n => Nat.le_trans (addAndJump_length t n) (by omega)
  binop := fun o t a b => Nat.le_trans (binop_length o t a b) (by omega)
  printI64 := fun nl t ctx => GPost.pure (Nat.le_trans (printI64_length nl t ctx) (by omega))
  eraseBlock := fun t => GPost.mono (eraseBlock_length t) (fun _ h => by omega)
  shareBlockN := fun t n => GPost.mono (shareBlockN_length t n) (fun _ h => by omega)
  store := store_length
  load := load_length

/-! ## the whole backend -/

/-- C19 for the x86-64 code generator: at most `485·(1 + M)` instructions per node -/
theorem x86_compile_length (hooks : Bool) (p : Prog) (M : Nat) (hM : defsCap p.defs ≤ M)
    (hok : substOkProg p = true) (c : Nat) (body : List Code) (nargs : Nat)
    (h : compileX86 p hooks c = .ok (body, nargs)) : body.length ≤ 485 * (1 + M) * defsNodes p.defs := by
  unfold compileX86 at h
  split at h
  · cases h
  · next r c' hr =>
    cases h
    have := compile_length x86_law x86_cost hooks natRen p M hM hok c _ c' hr
    simpa [KW] using this

theorem moveArguments_length : ∀ (n : Nat) (l : List Code), moveArguments n = .ok l → l.length ≤ 10
  | 0, l, h => by simp [moveArguments] at h; subst h; simp
  | 1, l, h => by
    simp only [moveArguments] at h
    split at h
    · cases h; simp
    · cases h
  | n + 2, l, h => by
    simp only [moveArguments] at h
    split at h
    · cases h
    · next hn =>
      split at h
      · next target src rest _ _ hrest =>
        cases h
        have hlen : ∀ (k : Nat) (r : List Code), 1 ≤ k → k ≤ 4 → moveArguments k = .ok r → r.length ≤ 2 * k := by
          intro k
          induction k with
          | zero => intro r h0 _ hr; omega
          | succ k ih =>
            intro r _ hk hr
            cases k with
            | zero =>
              simp only [moveArguments] at hr
              split at hr
              · cases hr; simp
              · cases hr
            | succ k =>
              simp only [moveArguments] at hr
              split at hr
              · cases hr
              · split at hr
                · next _ _ rest' _ _ hrest' =>
                  cases hr
                  have := ih rest' (by omega) (by omega) hrest'
                  simp only [List.length_append, List.length_cons, List.length_nil]; omega
                · cases hr
        have := hlen (n + 1) rest (by omega) (by omega) hrest
        simp only [List.length_append, List.length_cons, List.length_nil]; omega
      · cases h

/-- the routine wrapper (preamble, setup, cleanup) adds at most 44 lines -/
theorem intoRoutine_length (body : List Code) (nargs : Nat) (routine : List Code)
    (h : intoRoutine body nargs = .ok routine) : routine.length ≤ body.length + 44 := by
  unfold intoRoutine at h
  split at h
  · cases h
  · next su hsu =>
    cases h
    unfold setup at hsu
    split at hsu
    · cases hsu
    · next moves hm =>
      cases hsu
      have := moveArguments_length nargs moves hm
      have hp : consts.calleeSavePushed.length = 6 := rfl
      simp only [List.length_append, List.length_cons, List.length_nil, preamble, cleanup,
        List.length_map, List.length_reverse, hp]
      omega

end Scc.Backend.SizeX86
