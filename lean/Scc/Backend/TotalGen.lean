/-
  Scc.Backend.TotalGen — THE GENERIC CODE GENERATOR IS TOTAL-OR-CAPACITY ON LINEARLY TYPED PROGRAMS
  (property C12, link `codegen_total`), for every backend satisfying `TotalBackend B cap fits`
  (TotalDefs.lean):

    `Tot_codeStatementR`   LinTyped types sigs Γ s → fits (capStmt Γ.length s) →
                           Tot cap (codeStatementR B hooks ren types s Γ)
    `Tot_compileR`         LinTypedProg p → p.defs ≠ [] → fits (progCap p) → Tot cap (compileR B hooks ren p)

  i.e. from every value of the label counter the generator returns code or an error whose message
  satisfies `cap`; none of the other panic sites of the model (= of axcut2backend) is reachable:
    "Variable … not found in context"          every looked-up variable is in the context (LinTyped gives
                                               the exact contexts; `HasVar`, the split-off suffixes);
    "User-defined type cannot be i64", "Type … not found", "Xtor … not found in type declaration …"
                                               `lookupXtor` of the typing rule for let / invoke;
    "attempt to subtract with overflow"        `split_off`: arguments / closure environment are a suffix;
    "Closure environment must be annotated"    the typing rule for create has an annotated environment;
    "spanning_forest: key not found", "spanning_tree: unbounded recursion (stack overflow)"
                                               the move graph of a subst with pairwise distinct new
                                               variables is functional (TotalSubst.lean, TotalPM.lean);
    "index out of bounds: the len is 0 …"      the program has a definition.
  `fits` is the capacity for which the backend methods are claimed total; `capStmt`/`progCap`
  (Scc/AxCut/PosCapacity.lean) is the static bound on the length of the contexts the generator visits.
  Proof file, core imports only.
-/
import Scc.Backend.TotalSubst
import Scc.Backend.TotalKeys
import Scc.AxCut.PosCapacity

set_option linter.unusedSimpArgs false
set_option linter.unusedVariables false

namespace Scc.Backend.Total

open Scc.AxCut Scc.AxCut.Pos Scc.Backend

/-! ## the lookups of the generic part succeed on typed statements -/

section
variable {cap : String → Prop}

theorem TotP_lookupTypeDeclM {types : List TypeDecl} {ty : Ty} {d : TypeDecl}
    (h : lookupTypeDecl types ty = some d) : TotP cap (fun d' => d' = d) (lookupTypeDeclM types ty) := by
  unfold lookupTypeDeclM
  cases ty with
  | i64 => simp [lookupTypeDecl] at h
  | decl n =>
    dsimp only
    rw [h]
    exact TotP.pure rfl

theorem xtorPosition_go_isSome {tag : Ident} : ∀ (xs : List XtorSig) (i : Nat) (x : XtorSig),
    xs.find? (fun x => x.name == tag) = some x → ∃ j, xtorPosition.go tag xs i = some j
  | [], _, _, h => by simp at h
  | y :: ys, i, x, h => by
    unfold xtorPosition.go
    by_cases hy : (y.name == tag) = true
    · exact ⟨i, by simp [hy]⟩
    · simp only [hy, if_false, Bool.false_eq_true]
      rw [List.find?_cons] at h
      simp only [hy] at h
      exact xtorPosition_go_isSome ys (i + 1) x h

theorem Tot_xtorPositionM {d : TypeDecl} {tag : Ident} {x : XtorSig}
    (h : d.xtors.find? (fun x => x.name == tag) = some x) : Tot cap (xtorPositionM d tag) := by
  unfold xtorPositionM xtorPosition
  obtain ⟨j, hj⟩ := xtorPosition_go_isSome d.xtors 0 x h
  rw [hj]
  exact Tot.pure _

theorem TotP_splitOffLast {Γ : Ctx} {n : Nat} (h : n ≤ Γ.length) :
    TotP cap (fun r => r = (Γ.take (Γ.length - n), Γ.drop (Γ.length - n))) (splitOffLast Γ n) := by
  unfold splitOffLast
  rw [if_pos h]
  exact TotP.pure rfl

/-- `lookupXtor` = `lookupTypeDecl` followed by `find?` -/
theorem lookupXtor_some {types : List TypeDecl} {ty : Ty} {tag : Ident} {sig : Ctx}
    (h : lookupXtor types ty tag = some sig) :
    ∃ d x, lookupTypeDecl types ty = some d ∧ d.xtors.find? (fun x => x.name == tag) = some x := by
  unfold lookupXtor at h
  cases hd : lookupTypeDecl types ty with
  | none => simp [hd] at h
  | some d =>
    simp only [hd] at h
    cases hx : d.xtors.find? (fun x => x.name == tag) with
    | none => simp [hx] at h
    | some x => exact ⟨d, x, rfl, hx⟩

end

/-! ## membership facts about contexts -/

theorem hasVar_mem {Γ : Ctx} {x : Nat} {chi : Chi} {ty : Ty} (h : HasVar Γ x chi ty) :
    ∃ b ∈ Γ, b.var.id = x := by
  obtain ⟨b, hb, h1, _⟩ := h
  exact ⟨b, hb, h1⟩

theorem mem_append_left' {Γ Δ : Ctx} {x : Nat} (h : ∃ b ∈ Γ, b.var.id = x) :
    ∃ b ∈ Γ ++ Δ, b.var.id = x := by
  obtain ⟨b, hb, h1⟩ := h
  exact ⟨b, List.mem_append_left _ hb, h1⟩

theorem mem_snoc_self (Γ : Ctx) (b : Binding) : ∃ b' ∈ Γ ++ [b], b'.var.id = b.var.id :=
  ⟨b, by simp, rfl⟩

theorem mem_of_key {b : Binding} {x : Nat} {chi : Chi} {ty : Ty} (h : b.key = (x, chi, ty)) :
    b.var.id = x := by
  simp only [Binding.key, Prod.mk.injEq] at h
  exact h.1

/-! ## the theorem -/

section
variable {Code T : Type} {B : Backend Code T} {cap : String → Prop} {fits : Nat → Prop}
variable (H : TotalBackend B cap fits)
include H

theorem Tot_subst (hooks : Bool) (ren : Nat → String) (types : List TypeDecl)
    (pairs : List (Binding × Ident)) (next : Stmt) (Γ : Ctx)
    (hnd : NodupIds (pairs.map (·.1))) (hfit : fits Γ.length) (hfit' : fits pairs.length)
    (hnext : Tot cap (codeStatementR B hooks ren types next (pairs.map (·.1)))) :
    Tot cap (codeStatementR B hooks ren types (.subst pairs next) Γ) := by
  simp only [codeStatementR]
  refine Tot.bind (Tot_codeWeakeningContraction H Γ hfit _ fun e he => (transpose_mem pairs Γ e he).1)
    fun c1 => ?_
  refine Tot.bind (Tot_codeExchange H pairs Γ hfit hfit' hnd) fun c2 => ?_
  exact Tot.bind hnext fun c3 => Tot.pure _

mutual
  theorem Tot_codeStatementR (hooks : Bool) (ren : Nat → String) (types : List TypeDecl) (sigs : Sigs) :
      ∀ (s : Stmt) (Γ : Ctx), LinTyped types sigs Γ s → fits (capStmt Γ.length s) →
        Tot cap (codeStatementR B hooks ren types s Γ)
    | .subst pairs next, Γ, h, hfit => by
      cases h with
      | subst h1 h2 h3 h4 =>
        simp only [capStmt] at hfit
        have hnext := Tot_codeStatementR hooks ren types sigs next _ h4
          (H.fits_mono (by simp only [List.length_map]; omega) hfit)
        exact Tot_subst H hooks ren types pairs next Γ h3 (H.fits_mono (by omega) hfit)
          (H.fits_mono (by have := le_capStmt pairs.length next; omega) hfit) hnext
    | .call label args, Γ, h, hfit => by
      simp only [codeStatementR]
      exact Tot.pure _
    | .letS var ty tag args next fv, Γ, h, hfit => by
      cases h with
      | @letS _ Γ1 Γa _ _ _ _ sig _ _ h1 h2 h3 h4 h5 h6 h7 =>
        subst h2
        obtain ⟨d, x, hd, hx⟩ := lookupXtor_some h4
        have hlen : Γa.length = args.length := keys_length h3
        simp only [capStmt, List.length_append] at hfit
        have hc := le_capStmt (Γ1.length + Γa.length + 1) next
        have htake : List.take ((Γ1 ++ Γa).length - args.length) (Γ1 ++ Γa) = Γ1 := by
          rw [List.length_append, ← hlen, Nat.add_sub_cancel, List.take_left']; rfl
        have hdrop : List.drop ((Γ1 ++ Γa).length - args.length) (Γ1 ++ Γa) = Γa := by
          rw [List.length_append, ← hlen, Nat.add_sub_cancel, List.drop_left']; rfl
        simp only [codeStatementR]
        refine TotP.bind (TotP_lookupTypeDeclM hd) fun decl hdecl => ?_
        subst hdecl
        refine Tot.bind (Tot_xtorPositionM hx) fun pos => ?_
        refine TotP.bind (TotP_splitOffLast (by rw [List.length_append]; omega)) fun sp hsp => ?_
        subst hsp
        rw [htake, hdrop]
        dsimp only
        refine Tot.bind (H.store _ _ (H.fits_mono (by omega) hfit)) fun c1 => ?_
        refine Tot.bind (H.vt_total _ _ _ (mem_snoc_self _ _)
          (H.fits_mono (by simp only [List.length_append, List.length_singleton]; omega) hfit))
          fun t => ?_
        refine Tot.bind (Tot_codeStatementR hooks ren types sigs next _ h7 ?_) fun c3 => Tot.pure _
        have hm : capStmt (Γ1 ++ [(⟨var, .prd, ty⟩ : Binding)]).length next ≤
            capStmt (Γ1.length + Γa.length + 1) next :=
          capStmt_mono next (by simp only [List.length_append, List.length_singleton]; omega)
        exact H.fits_mono (by omega) hfit
    | .switch var ty clauses fv, Γ, h, hfit => by
      cases h with
      | @switch _ Γ1 b _ _ _ _ d h1 h2 h3 h4 h5 h6 =>
        subst h2
        simp only [capStmt, List.length_append, List.length_singleton] at hfit
        simp only [codeStatementR]
        refine Tot.bind (Tot.freshLabelStr ren) fun num => ?_
        refine Tot.bind ?_ fun c1 => ?_
        · refine TotP.ite (fun _ => Tot.pure _) (fun _ => ?_)
          refine Tot.bind (H.vt_total _ _ _ ⟨b, by simp, mem_of_key h3⟩
            (H.fits_mono (by simp only [List.length_append, List.length_singleton]; omega) hfit))
            fun t => Tot.pure _
        · rw [List.dropLast_concat]
          refine Tot.bind (Tot_codeClausesR hooks ren types sigs clauses Γ1 _ h6 ?_) fun c3 => Tot.pure _
          have hm : capClauses Γ1.length clauses ≤ capClauses (Γ1.length + 1) clauses :=
            capClauses_mono clauses (by omega)
          exact H.fits_mono (by omega) hfit
    | .create var ty env clauses next fc fn, Γ, h, hfit => by
      cases h with
      | @create _ Γn Γe Γc _ _ _ _ _ _ d h1 h2 h3 h4 h5 h6 h7 h8 =>
        subst h2
        have hlen : Γe.length = Γc.length := keys_length h3
        simp only [capStmt, List.length_append, Option.getD_some] at hfit
        have hc := le_capStmt (Γn.length + Γe.length + 1) next
        have htake : List.take ((Γn ++ Γe).length - Γc.length) (Γn ++ Γe) = Γn := by
          rw [List.length_append, ← hlen, Nat.add_sub_cancel, List.take_left']; rfl
        have hdrop : List.drop ((Γn ++ Γe).length - Γc.length) (Γn ++ Γe) = Γe := by
          rw [List.length_append, ← hlen, Nat.add_sub_cancel, List.drop_left']; rfl
        simp only [codeStatementR]
        refine TotP.bind (TotP_splitOffLast (by rw [List.length_append]; omega)) fun sp hsp => ?_
        subst hsp
        rw [htake, hdrop]
        dsimp only
        refine Tot.bind (H.store _ _ (H.fits_mono (by omega) hfit)) fun c1 => ?_
        refine Tot.bind (Tot.freshLabelStr ren) fun num => ?_
        refine Tot.bind (H.vt_total _ _ _ (mem_snoc_self _ _)
          (H.fits_mono (by simp only [List.length_append, List.length_singleton]; omega) hfit))
          fun t => ?_
        refine Tot.bind (Tot_codeStatementR hooks ren types sigs next _ h8 ?_) fun c3 => ?_
        · have hm : capStmt (Γn ++ [(⟨var, .cns, ty⟩ : Binding)]).length next ≤
              capStmt (Γn.length + Γe.length + 1) next :=
            capStmt_mono next (by simp only [List.length_append, List.length_singleton]; omega)
          exact H.fits_mono (by omega) hfit
        · refine Tot.bind (Tot_codeMethodsR hooks ren types sigs clauses Γe Γc _ h3 h6 ?_)
            fun c5 => Tot.pure _
          rw [hlen]
          exact H.fits_mono (by omega) hfit
    | .invoke var tag ty args, Γ, h, hfit => by
      cases h with
      | @invoke _ Γa b _ _ _ _ sig h1 h2 h3 h4 h5 =>
        subst h2
        obtain ⟨d, x, hd, hx⟩ := lookupXtor_some h4
        simp only [capStmt] at hfit
        simp only [codeStatementR]
        refine Tot.bind (H.vt_total _ _ _ ⟨b, by simp, mem_of_key h3⟩ hfit) fun t => ?_
        refine TotP.bind (TotP_lookupTypeDeclM hd) fun decl hdecl => ?_
        subst hdecl
        refine TotP.ite (fun _ => Tot.pure _) (fun _ => ?_)
        exact Tot.bind (Tot_xtorPositionM hx) fun pos => Tot.pure _
    | .lit var n next fv, Γ, h, hfit => by
      cases h with
      | lit h1 h2 h3 =>
        simp only [capStmt] at hfit
        have hc := le_capStmt (Γ.length + 1) next
        simp only [codeStatementR]
        refine Tot.bind (H.vt_total _ _ _ (mem_snoc_self _ _)
          (H.fits_mono (by simp only [List.length_append, List.length_singleton]; omega) hfit))
          fun t => ?_
        refine Tot.bind (Tot_codeStatementR hooks ren types sigs next _ h3 ?_) fun c2 => Tot.pure _
        rw [List.length_append, List.length_singleton]
        exact H.fits_mono (by omega) hfit
    | .op var fst o snd next fv, Γ, h, hfit => by
      cases h with
      | op h1 h2 h3 h4 h5 =>
        simp only [capStmt] at hfit
        have hc := le_capStmt (Γ.length + 1) next
        have hf1 : fits (Γ ++ [(⟨var, .ext, .i64⟩ : Binding)]).length :=
          H.fits_mono (by simp only [List.length_append, List.length_singleton]; omega) hfit
        simp only [codeStatementR]
        refine Tot.bind (H.vt_total _ _ _ (mem_snoc_self _ _) hf1) fun t => ?_
        refine Tot.bind (H.vt_total _ _ _ (mem_append_left' (hasVar_mem h2)) hf1) fun s1 => ?_
        refine Tot.bind (H.vt_total _ _ _ (mem_append_left' (hasVar_mem h3)) hf1) fun s2 => ?_
        refine Tot.bind (Tot_codeStatementR hooks ren types sigs next _ h5 ?_) fun c2 => Tot.pure _
        rw [List.length_append, List.length_singleton]
        exact H.fits_mono (by omega) hfit
    | .print newline var next fv, Γ, h, hfit => by
      cases h with
      | print h1 h2 h3 =>
        simp only [capStmt] at hfit
        have hf1 : fits Γ.length := H.fits_mono (by omega) hfit
        simp only [codeStatementR]
        refine Tot.bind (H.vt_total _ _ _ (hasVar_mem h2) hf1) fun t => ?_
        refine Tot.bind (H.printI64 _ _ _ hf1) fun c1 => ?_
        exact Tot.bind (Tot_codeStatementR hooks ren types sigs next _ h3
          (H.fits_mono (by omega) hfit)) fun c2 => Tot.pure _
    | .ifc sort fst snd thenc elsec, Γ, h, hfit => by
      cases h with
      | ifc h1 h2 h3 h4 h5 =>
        simp only [capStmt] at hfit
        have hf1 : fits Γ.length := H.fits_mono (by omega) hfit
        simp only [codeStatementR]
        refine Tot.bind (Tot.freshLabelStr ren) fun num => ?_
        refine Tot.bind ?_ fun c1 => ?_
        · cases snd with
          | none =>
            dsimp only
            exact Tot.bind (H.vt_total _ _ _ (hasVar_mem h2) hf1) fun a => Tot.pure _
          | some snd =>
            dsimp only
            refine Tot.bind (H.vt_total _ _ _ (hasVar_mem h2) hf1) fun a => ?_
            exact Tot.bind (H.vt_total _ _ _ (hasVar_mem (h3 snd rfl)) hf1) fun b => Tot.pure _
        · refine Tot.bind (Tot_codeStatementR hooks ren types sigs elsec _ h5
            (H.fits_mono (by omega) hfit)) fun c2 => ?_
          exact Tot.bind (Tot_codeStatementR hooks ren types sigs thenc _ h4
            (H.fits_mono (by omega) hfit)) fun c3 => Tot.pure _
    | .exit var, Γ, h, hfit => by
      cases h with
      | exit h1 h2 =>
        simp only [capStmt] at hfit
        simp only [codeStatementR]
        exact Tot.bind (H.vt_total _ _ _ (hasVar_mem h2) hfit) fun t => Tot.pure _
  theorem Tot_codeClausesR (hooks : Bool) (ren : Nat → String) (types : List TypeDecl) (sigs : Sigs) :
      ∀ (cs : Clauses) (Γ : Ctx) (baseLabel : String), LinTypedClauses types sigs Γ [] cs →
        fits (capClauses Γ.length cs) → Tot cap (codeClausesR B hooks ren types Γ cs baseLabel)
    | .nil, _, _, _, _ => by
      simp only [codeClausesR]; exact Tot.pure _
    | .cons xtor clauseCtx body rest, Γ, baseLabel, h, hfit => by
      cases h with
      | cons h1 h2 =>
        simp only [capClauses] at hfit
        have hc := le_capStmt (Γ.length + clauseCtx.length) body
        simp only [List.append_nil] at h1
        simp only [codeClausesR]
        refine Tot.bind (H.load _ _ (H.fits_mono (by omega) hfit)) fun c1 => ?_
        refine Tot.bind (Tot_codeStatementR hooks ren types sigs body _ h1 ?_) fun c2 => ?_
        · rw [List.length_append]; exact H.fits_mono (by omega) hfit
        · exact Tot.bind (Tot_codeClausesR hooks ren types sigs rest Γ baseLabel h2
            (H.fits_mono (by omega) hfit)) fun c3 => Tot.pure _
  theorem Tot_codeMethodsR (hooks : Bool) (ren : Nat → String) (types : List TypeDecl) (sigs : Sigs) :
      ∀ (cs : Clauses) (env envC : Ctx) (baseLabel : String), env.keys = envC.keys →
        LinTypedClauses types sigs [] envC cs → fits (capClauses env.length cs) →
        Tot cap (codeMethodsR B hooks ren types env cs baseLabel)
    | .nil, _, _, _, _, _, _ => by
      simp only [codeMethodsR]; exact Tot.pure _
    | .cons xtor clauseCtx body rest, env, envC, baseLabel, hk, h, hfit => by
      cases h with
      | cons h1 h2 =>
        simp only [capClauses] at hfit
        have hc := le_capStmt (env.length + clauseCtx.length) body
        simp only [List.nil_append] at h1
        have h1' : LinTyped types sigs (clauseCtx ++ env) body :=
          LinTyped.of_keys body (keys_append rfl hk) h1
        simp only [codeMethodsR]
        refine Tot.bind (H.load _ _ (H.fits_mono (by omega) hfit)) fun c1 => ?_
        refine Tot.bind (Tot_codeStatementR hooks ren types sigs body _ h1' ?_) fun c2 => ?_
        · rw [List.length_append, Nat.add_comm]; exact H.fits_mono (by omega) hfit
        · exact Tot.bind (Tot_codeMethodsR hooks ren types sigs rest env envC baseLabel hk h2
            (H.fits_mono (by omega) hfit)) fun c3 => Tot.pure _
end

theorem Tot_translateR (hooks : Bool) (ren : Nat → String) (types : List TypeDecl) (sigs : Sigs) :
    ∀ (defs : List Def), (∀ d ∈ defs, LinTyped types sigs d.ctx d.body) →
      (∀ d ∈ defs, fits (capStmt d.ctx.length d.body)) → Tot cap (translateR B hooks ren types defs)
  | [], _, _ => by simp only [translateR]; exact Tot.pure _
  | d :: ds, h, hfit => by
    simp only [translateR]
    refine Tot.bind (Tot_codeStatementR H hooks ren types sigs d.body d.ctx (h d (by simp))
      (hfit d (by simp))) fun is => ?_
    exact Tot.bind (Tot_translateR hooks ren types sigs ds (fun d' hd' => h d' (by simp [hd']))
      (fun d' hd' => hfit d' (by simp [hd']))) fun rest => Tot.pure _

/-- **the generic code generator on a linearly typed program with at least one definition, all of whose
    contexts fit: code, or an error permitted by `cap`** -/
theorem Tot_compileR (hooks : Bool) (ren : Nat → String) (p : Prog) (htp : LinTypedProg p)
    (hne : p.defs ≠ []) (hfit : fits (progCap p)) : Tot cap (compileR B hooks ren p) := by
  unfold compileR
  cases hd : p.defs with
  | nil => exact absurd hd hne
  | cons d0 ds =>
    dsimp only
    refine Tot.bind ?_ fun blocks => Tot.pure _
    rw [← hd]
    exact Tot_translateR H hooks ren p.types p.sigs p.defs htp
      (fun d hd' => H.fits_mono (progCap_def p d hd') hfit)

theorem Tot_compile (hooks : Bool) (p : Prog) (htp : LinTypedProg p)
    (hne : p.defs ≠ []) (hfit : fits (progCap p)) : Tot cap (compile B hooks p) :=
  Tot_compileR H hooks natRen p htp hne hfit

/-- the same as a statement about the result of one run -/
theorem compile_resOk (hooks : Bool) (p : Prog) (htp : LinTypedProg p)
    (hne : p.defs ≠ []) (hfit : fits (progCap p)) (c : Nat) : ResOk cap ((compile B hooks p).run c) :=
  (Tot_compile H hooks p htp hne hfit).resOk c

end

end Scc.Backend.Total
