/-
  Scc.Backend.Interface — the backend abstraction of /repo/lang/axcut2backend/src/{config.rs,
  code.rs,memory.rs,parallel_moves.rs,utils.rs}: the five Rust traits `Config`, `Instructions`,
  `Memory`, `ParallelMoves`, `Utils` as ONE Lean record.  The generic code generator
  (Scc/Backend/Generic.lean) is written against this record; the mock backend and the three real
  backends are instances.   Core imports only; executable.

  Conventions shared by all instances:
  * Rust methods that push onto `instructions: &mut Vec<Code>` return the list of pushed codes;
  * the process-global label counter of fresh_labels.rs is the state of the monad `GenM`
    (`freshLabel` increments first and returns the new value, like the Rust);
  * every Rust panic site (`panic!`, `assert!`, `unwrap`, `expect`, index out of range) is an
    `Except.error` carrying a message that starts with the site, e.g. "Out of temporaries",
    "Variable 7 not found in context", "Type T not found", "Xtor K not found …";
  * immediates are `Int`.
-/
import Scc.AxCut.Syntax

namespace Scc.Backend

open Scc.AxCut

/-- config.rs: TemporaryNumber -/
inductive TempNum where
  | fst | snd
  deriving DecidableEq, Repr, BEq, Inhabited

def TempNum.toNat : TempNum → Nat
  | .fst => 0
  | .snd => 1

/-- state: the label counter (fresh_labels.rs `COUNTER`); errors: Rust panics -/
abbrev GenM := StateT Nat (Except String)

/-- fresh_labels.rs: fn fresh_label -/
def freshLabel : GenM Nat := do
  let c ← get
  set (c + 1)
  pure (c + 1)

def panic {α : Type} (msg : String) : GenM α := throw msg

/-- parallel_moves.rs: Tree / Root (generic in the temporary type) -/
inductive Tree (T : Type) where
  | backEdge
  | node (t : T) (kids : List (Tree T))

inductive Root (T : Type) where
  | startNode (t : T) (kids : List (Tree T))

structure Backend (Code : Type) (T : Type) where
  -- Config
  temp : T
  heap : T
  free : T
  return1 : T
  return2 : T
  jumpLength : Nat → Int
  -- Utils
  variableTemporary : TempNum → Ctx → Nat → GenM T
  freshTemporary : TempNum → Ctx → GenM T
  -- Instructions
  comment : String → Code
  label : String → Code
  jump : T → List Code
  jumpLabel : String → List Code
  jumpLabelFixed : String → List Code
  /-- jump_label_if_{equal,not_equal,less,less_or_equal,greater,greater_or_equal} -/
  jumpLabelIf : IfSort → T → T → String → List Code
  /-- jump_label_if_{zero,not_zero,less_zero,less_or_equal_zero,greater_zero,greater_or_equal_zero} -/
  jumpLabelIfZero : IfSort → T → String → List Code
  loadImmediate : T → Int → List Code
  loadLabel : T → String → List Code
  addAndJump : T → Int → List Code
  /-- add / sub / mul / div / rem: target, source1, source2 -/
  binop : BinOp → T → T → T → List Code
  mov : T → T → List Code
  printI64 : Bool → T → Ctx → GenM (List Code)
  -- Memory (these may draw fresh labels)
  eraseBlock : T → GenM (List Code)
  shareBlockN : T → Nat → GenM (List Code)
  store : Ctx → Ctx → GenM (List Code)
  load : Ctx → Ctx → GenM (List Code)
  -- ParallelMoves
  containsSpillEdge : Root T → Bool
  storeTemporary : T → Bool → List Code
  restoreTemporary : T → Bool → List Code
  /-- total order on temporaries = the derived `Ord` of the Rust type (BTreeMap iteration order) -/
  tempLt : T → T → Bool
  tempEq : T → T → Bool

end Scc.Backend
