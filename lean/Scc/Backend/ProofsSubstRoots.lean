/-
  Counting lemmas about the ROOTS of a context for the `subst` statement (Theorem A):
  * `roots_count_transpose` — the roots of `Γ` are, up to order, the roots contributed by the keys of the
    transposed map `transpose pairs Γ` (each binding of `Γ` once);
  * `roots_new_count` — the roots of the new context `pairs.map (·.1)` (whose pointer temporaries hold what
    the pointer temporaries of the sources held) are, up to order, the root of every old binding once per
    target of that binding.
  Pure list/counting facts: no machine, no code.  Sources modelled elsewhere (`substitution.rs: fn transpose`
  in `Scc/Backend/Generic.lean`).
-/
import Scc.Backend.ProofsConn2
import Scc.Backend.ProofsRep2

set_option linter.unusedSimpArgs false
set_option linter.unusedVariables false

namespace Scc.Backend.Subst

open Scc.AxCut Scc.AxCut.Pos Scc.Backend Scc.Backend.Abs Scc.Backend.Sim Scc.Backend.Sim2

/-- the root contributed by the binding `b` of `Γ` (at its position) -/
def rootAt (σ : Temps) (Γ : Ctx) (b : Binding) : List Nat := rootOf σ b (posIn Γ b.var.id)

/-- the roots of the not yet processed entries of the transposed map: each once -/
def rootsT (σ : Temps) (Γ : Ctx) (tm : List (Binding × List Nat)) : List Nat :=
  tm.flatMap fun e => rootAt σ Γ e.1

/-- the roots after reference counts have been adjusted: one per target -/
def rootsDone (σ : Temps) (Γ : Ctx) (tm : List (Binding × List Nat)) : List Nat :=
  tm.flatMap fun e => (List.replicate e.2.length (rootAt σ Γ e.1)).flatten

/-! ## generic counting helpers -/

theorem count_flatMap_perm {α : Type} (f : α → List Nat) (x : Nat) {l₁ l₂ : List α} (h : l₁.Perm l₂) :
    (l₁.flatMap f).count x = (l₂.flatMap f).count x := by
  induction h with
  | nil => rfl
  | cons a _ ih => simp only [List.flatMap_cons, List.count_append, ih]
  | swap a b l => simp only [List.flatMap_cons, List.count_append]; omega
  | trans _ _ ih1 ih2 => rw [ih1, ih2]

theorem count_flatten_replicate (x : Nat) (L : List Nat) : ∀ n : Nat,
    (List.replicate n L).flatten.count x = n * L.count x
  | 0 => by simp
  | n + 1 => by
    rw [List.replicate_succ, List.flatten_cons, List.count_append, count_flatten_replicate x L n,
      Nat.succ_mul, Nat.add_comm]

/-- the weighted number of occurrences of `x`: binding `b` contributes `w b` copies of `g b` -/
theorem count_weighted_add {α : Type} (g : α → List Nat) (w1 w2 : α → Nat) (x : Nat) : ∀ l : List α,
    (l.flatMap fun b => (List.replicate (w1 b + w2 b) (g b)).flatten).count x =
      (l.flatMap fun b => (List.replicate (w1 b) (g b)).flatten).count x +
      (l.flatMap fun b => (List.replicate (w2 b) (g b)).flatten).count x
  | [] => by simp
  | a :: l => by
    simp only [List.flatMap_cons, List.count_append, count_weighted_add g w1 w2 x l,
      count_flatten_replicate, Nat.add_mul]
    omega

theorem count_weighted_zero {α : Type} (g : α → List Nat) (x : Nat) : ∀ l : List α,
    (l.flatMap fun b => (List.replicate 0 (g b)).flatten).count x = 0
  | [] => by simp
  | a :: l => by
    simp only [List.flatMap_cons, List.count_append, count_weighted_zero g x l,
      count_flatten_replicate, Nat.zero_mul]

/-- the indicator weight of one identifier picks out the unique binding with that identifier -/
theorem count_weighted_unique (g : Binding → List Nat) (x : Nat) (id : Nat) (b₀ : Binding)
    (hid : b₀.var.id = id) : ∀ Γ : Ctx, (Γ.map (·.var.id)).Nodup → b₀ ∈ Γ →
    (Γ.flatMap fun b => (List.replicate (if b.var.id == id then 1 else 0) (g b)).flatten).count x =
      (g b₀).count x
  | [], _, hm => by simp at hm
  | a :: Γ, hnd, hm => by
    simp only [List.map_cons, List.nodup_cons] at hnd
    simp only [List.flatMap_cons, List.count_append, count_flatten_replicate]
    rcases List.mem_cons.mp hm with rfl | hm'
    · -- `b₀` is the head: no binding of the tail has its identifier
      have htail : (Γ.flatMap fun b =>
          (List.replicate (if b.var.id == id then 1 else 0) (g b)).flatten).count x = 0 := by
        have hcongr : ∀ Δ : Ctx, (∀ b ∈ Δ, b.var.id ≠ id) →
            (Δ.flatMap fun b =>
              (List.replicate (if b.var.id == id then 1 else 0) (g b)).flatten).count x = 0 := by
          intro Δ
          induction Δ with
          | nil => intro _; simp
          | cons d Δ ih =>
            intro hne
            have hd : (d.var.id == id) = false := by
              rw [beq_eq_false_iff_ne]; exact hne d (List.mem_cons_self)
            simp only [List.flatMap_cons, List.count_append, count_flatten_replicate, hd,
              ih (fun b hb => hne b (List.mem_cons_of_mem _ hb))]
            simp
        apply hcongr
        intro b hb hbid
        exact hnd.1 (List.mem_map.mpr ⟨b, hb, by rw [hbid, hid]⟩)
      have hh : (b₀.var.id == id) = true := by rw [beq_iff_eq]; exact hid
      rw [htail, hh]; simp
    · have hne : (a.var.id == id) = false := by
        rw [beq_eq_false_iff_ne]
        intro ha
        exact hnd.1 (List.mem_map.mpr ⟨b₀, hm', by rw [hid, ha]⟩)
      rw [count_weighted_unique g x id b₀ hid Γ hnd.2 hm', hne]; simp

/-! ## the roots as a `flatMap` -/

theorem roots_go_cons (σ : Temps) (b : Binding) (Δ : Ctx) (k : Nat) :
    roots.go σ (b :: Δ) k = rootOf σ b k ++ roots.go σ Δ (k + 1) := by
  simp only [roots.go, rootOf]
  cases σ.get (2 * k) <;> rfl

theorem rootOf_get_congr (σ σ' : Temps) (b : Binding) (i j : Nat) (h : σ'.get (2 * i) = σ.get (2 * j)) :
    rootOf σ' b i = rootOf σ b j := by
  unfold rootOf; rw [h]

theorem roots_go_flatMap (σ : Temps) (f : Binding → Nat) : ∀ (Δ : Ctx) (k : Nat),
    (∀ j (hj : j < Δ.length), f Δ[j] = k + j) →
    roots.go σ Δ k = Δ.flatMap (fun b => rootOf σ b (f b))
  | [], _, _ => rfl
  | b :: Δ, k, h => by
    have h0 : f b = k := h 0 (Nat.zero_lt_succ _)
    have ih := roots_go_flatMap σ f Δ (k + 1) (fun j hj => by
      have := h (j + 1) (by simpa using hj)
      simp only [List.getElem_cons_succ] at this
      omega)
    rw [roots_go_cons, List.flatMap_cons, ih, h0]

theorem roots_eq_flatMap (σ : Temps) (Γ : Ctx) (hΓ : (Γ.map (·.var.id)).Nodup) :
    roots Γ σ = Γ.flatMap (rootAt σ Γ) := by
  unfold roots
  exact roots_go_flatMap σ (fun b => posIn Γ b.var.id) Γ 0 (fun j hj => by
    rw [posIn_getElem hΓ hj]; omega)

/-- (A) the roots of the keys of the transposed map are the roots of the context -/
theorem roots_count_transpose (σ : Temps) (Γ : Ctx) (pairs : List (Binding × Ident))
    (hΓ : (Γ.map (·.var.id)).Nodup) :
    ∀ x, (rootsT σ Γ (transpose pairs Γ)).count x = (roots Γ σ).count x := by
  intro x
  unfold rootsT
  rw [count_flatMap_perm _ x (transpose_perm pairs Γ hΓ), List.flatMap_map, roots_eq_flatMap σ Γ hΓ]

/-! ## the roots of the new context -/

/-- the root of the source of the pair `p` (only `.chi` of the binding matters to `rootOf`) -/
def srcRoot (σ : Temps) (Γ : Ctx) (p : Binding × Ident) : List Nat := rootOf σ p.1 (posIn Γ p.2.id)

theorem rootOf_chi_congr (σ : Temps) {b b' : Binding} (h : b.chi = b'.chi) (i : Nat) :
    rootOf σ b i = rootOf σ b' i := by
  unfold rootOf; rw [h]

theorem rootOf_ext (σ : Temps) {b : Binding} (h : b.chi = .ext) (i : Nat) : rootOf σ b i = [] := by
  unfold rootOf; rw [h]; rfl

theorem roots_go_new (σ σ' : Temps) (Γ : Ctx) : ∀ (ps : List (Binding × Ident)) (k : Nat),
    (∀ j (hj : j < ps.length), ps[j].1.chi ≠ .ext →
      σ'.get (2 * (k + j)) = σ.get (2 * posIn Γ ps[j].2.id)) →
    roots.go σ' (ps.map (·.1)) k = ps.flatMap (srcRoot σ Γ)
  | [], _, _ => rfl
  | p :: ps, k, h => by
    have ih := roots_go_new σ σ' Γ ps (k + 1) (fun j hj hc => by
      have := h (j + 1) (by simpa using hj) (by simpa using hc)
      simp only [List.getElem_cons_succ] at this
      rw [← this]; congr 2; omega)
    rw [List.map_cons, roots_go_cons, List.flatMap_cons, ih]
    congr 1
    unfold srcRoot
    by_cases hc : p.1.chi = .ext
    · rw [rootOf_ext σ' hc, rootOf_ext σ hc]
    · have h0 := h 0 (by simp) (by simpa using hc)
      simp only [List.getElem_cons_zero, Nat.add_zero] at h0
      exact rootOf_get_congr σ σ' p.1 k _ h0

theorem roots_new_eq (σ σ' : Temps) (Γ : Ctx) (pairs : List (Binding × Ident))
    (hσ : ∀ j (hj : j < pairs.length), pairs[j].1.chi ≠ .ext →
      σ'.get (2 * j) = σ.get (2 * posIn Γ pairs[j].2.id)) :
    roots (pairs.map (·.1)) σ' = pairs.flatMap (srcRoot σ Γ) := by
  unfold roots
  exact roots_go_new σ σ' Γ pairs 0 (fun j hj hc => by rw [Nat.zero_add]; exact hσ j hj hc)

theorem targetsOf_length_cons (p : Binding × Ident) (ps : List (Binding × Ident)) (b : Binding) :
    (targetsOf (p :: ps) b).length = (if b.var.id == p.2.id then 1 else 0) + (targetsOf ps b).length := by
  unfold targetsOf
  simp only [List.length_map, List.filter_cons]
  split <;> simp <;> omega

/-- double counting: every pair contributes the root of its source once -/
theorem count_pairs_eq_weighted (σ : Temps) (Γ : Ctx) (hΓ : (Γ.map (·.var.id)).Nodup) (x : Nat) :
    ∀ ps : List (Binding × Ident),
    (∀ p ∈ ps, ∃ b ∈ Γ, b.var.id = p.2.id ∧ b.chi = p.1.chi) →
    (ps.flatMap (srcRoot σ Γ)).count x =
      (Γ.flatMap fun b => (List.replicate (targetsOf ps b).length (rootAt σ Γ b)).flatten).count x
  | [], _ => by
    have : ∀ b : Binding, (targetsOf [] b).length = 0 := fun b => by simp [targetsOf]
    simp only [this, count_weighted_zero]; simp
  | p :: ps, hold => by
    obtain ⟨b₀, hb₀, hid, hchi⟩ := hold p (List.mem_cons_self)
    have ih := count_pairs_eq_weighted σ Γ hΓ x ps (fun q hq => hold q (List.mem_cons_of_mem _ hq))
    have hsrc : srcRoot σ Γ p = rootAt σ Γ b₀ := by
      unfold srcRoot rootAt
      rw [hid]; exact (rootOf_chi_congr σ hchi _).symm
    simp only [targetsOf_length_cons]
    rw [count_weighted_add (rootAt σ Γ) (fun b => if b.var.id == p.2.id then 1 else 0)
        (fun b => (targetsOf ps b).length) x Γ,
      count_weighted_unique (rootAt σ Γ) x p.2.id b₀ hid Γ hΓ hb₀, ← ih, List.flatMap_cons,
      List.count_append, hsrc]

/-- (B) the roots of the new context: the root of every old binding, once per target -/
theorem roots_new_count (σ σ' : Temps) (Γ : Ctx) (pairs : List (Binding × Ident))
    (hΓ : (Γ.map (·.var.id)).Nodup)
    (hold : ∀ p ∈ pairs, ∃ b ∈ Γ, b.var.id = p.2.id ∧ b.chi = p.1.chi)
    (hσ : ∀ j (hj : j < pairs.length), pairs[j].1.chi ≠ .ext →
      σ'.get (2 * j) = σ.get (2 * posIn Γ pairs[j].2.id)) :
    ∀ x, (roots (pairs.map (·.1)) σ').count x = (rootsDone σ Γ (transpose pairs Γ)).count x := by
  intro x
  unfold rootsDone
  rw [roots_new_eq σ σ' Γ pairs hσ, count_flatMap_perm _ x (transpose_perm pairs Γ hΓ), List.flatMap_map,
    count_pairs_eq_weighted σ Γ hΓ x pairs hold]

/-! ## non-vacuity -/

/-- a concrete instance of the hypotheses of `roots_new_count` / `roots_count_transpose`:
    `Γ = [a : prd, n : ext]`, substitution `[a1 := a, a2 := a, m := n]` (the producer is duplicated) -/
example :
    let a : Binding := ⟨⟨"a", 0⟩, .prd, .decl ⟨"L", 0⟩⟩
    let n : Binding := ⟨⟨"n", 1⟩, .ext, .i64⟩
    let Γ : Ctx := [a, n]
    let pairs : List (Binding × Ident) :=
      [(⟨⟨"a1", 2⟩, .prd, .decl ⟨"L", 0⟩⟩, ⟨"a", 0⟩), (⟨⟨"a2", 3⟩, .prd, .decl ⟨"L", 0⟩⟩, ⟨"a", 0⟩),
       (⟨⟨"m", 4⟩, .ext, .i64⟩, ⟨"n", 1⟩)]
    (Γ.map (·.var.id)).Nodup ∧
      (∀ p ∈ pairs, ∃ b ∈ Γ, b.var.id = p.2.id ∧ b.chi = p.1.chi) := by
  refine ⟨by decide, ?_⟩
  intro p hp
  simp only [List.mem_cons, List.not_mem_nil, or_false] at hp
  rcases hp with rfl | rfl | rfl
  · exact ⟨_, List.mem_cons_self, rfl, rfl⟩
  · exact ⟨_, List.mem_cons_self, rfl, rfl⟩
  · exact ⟨_, List.mem_cons_of_mem _ List.mem_cons_self, rfl, rfl⟩

end Scc.Backend.Subst

#print axioms Scc.Backend.Subst.roots_count_transpose
#print axioms Scc.Backend.Subst.roots_new_count
