/-
  Scc.Backend.ProofsShapeInt — the syntactic notion of integer program used by the generic shape lifting
  (`IntProgC`, Scc/Backend/ProofsShape.lean: substitutions only in contexts of integers, with the context
  that the code generator keeps) follows from the notion used for Theorem A (`IntProg` of
  Props/C06Generic.lean: integer parameters, no `let`/`switch`/`create`/`invoke`) for linearly typed
  programs: typing forces the new bindings of a substitution to have the kinds of the old ones.
-/
import Scc.Backend.ProofsShape
import Scc.Props.C06Generic

namespace Scc.Backend.Shape

open Scc.AxCut
open Scc.Props.C06Generic (IntCtx IntStmt IntProg)

theorem allExt_snoc {Γ : Ctx} (h : AllExt Γ) (x : Ident) : AllExt (Γ ++ [⟨x, .ext, .i64⟩]) := by
  intro b hb
  rcases List.mem_append.1 hb with hb | hb
  · exact h b hb
  · simp only [List.mem_singleton] at hb; subst hb; rfl

theorem intStmtC_of_typed {T : List TypeDecl} {S : Sigs} : ∀ (s : Stmt) (Γ : Ctx),
    IntStmt s → AllExt Γ → LinTyped T S Γ s → IntStmtC Γ s
  | .lit x n next fv, Γ, hi, hΓ, ht => by
    cases ht with
    | lit _ _ hnext =>
      simp only [IntStmtC]
      exact intStmtC_of_typed next _ (by simpa [IntStmt] using hi) (allExt_snoc hΓ x) hnext
  | .op x a o b next fv, Γ, hi, hΓ, ht => by
    cases ht with
    | op _ _ _ _ hnext =>
      simp only [IntStmtC]
      exact intStmtC_of_typed next _ (by simpa [IntStmt] using hi) (allExt_snoc hΓ x) hnext
  | .print nl a next fv, Γ, hi, hΓ, ht => by
    cases ht with
    | print _ _ hnext =>
      simp only [IntStmtC]
      exact intStmtC_of_typed next _ (by simpa [IntStmt] using hi) hΓ hnext
  | .ifc sort a b t e, Γ, hi, hΓ, ht => by
    cases ht with
    | ifc _ _ _ h1 h2 =>
      simp only [IntStmt] at hi
      simp only [IntStmtC]
      exact ⟨intStmtC_of_typed t _ hi.1 hΓ h1, intStmtC_of_typed e _ hi.2 hΓ h2⟩
  | .exit x, _, _, _, _ => by simp [IntStmtC]
  | .call l args, _, _, _, _ => by simp [IntStmtC]
  | .subst pairs next, Γ, hi, hΓ, ht => by
    cases ht with
    | subst _ hvars _ hnext =>
      simp only [IntStmtC]
      refine ⟨hΓ, intStmtC_of_typed next _ (by simpa [IntStmt] using hi) ?_ hnext⟩
      intro b hb
      obtain ⟨pr, hpr, rfl⟩ := List.mem_map.1 hb
      obtain ⟨b', hb', _, hchi, _⟩ := hvars pr hpr
      rw [← hchi]
      exact hΓ b' hb'
  | .letS _ _ _ _ _ _, _, hi, _, _ => by simp [IntStmt] at hi
  | .switch _ _ _ _, _, hi, _, _ => by simp [IntStmt] at hi
  | .create _ _ _ _ _ _ _, _, hi, _, _ => by simp [IntStmt] at hi
  | .invoke _ _ _ _, _, hi, _, _ => by simp [IntStmt] at hi

/-- pipeline programs that are integer programs in the sense of Theorem A are integer programs in the
    sense of the shape lifting -/
theorem intProgC_of_intProg {p : AxCut.Prog} (hi : IntProg p) (ht : LinTypedProg p) : IntProgC p := by
  intro d hd
  exact intStmtC_of_typed d.body d.ctx (hi d hd).2 (hi d hd).1 (ht d hd)

end Scc.Backend.Shape
