/-
  Scc.Backend.Generic — the GENERIC code generator of /repo/lang/axcut2backend, transcribed from
  src/{coder.rs, utils.rs, substitution.rs, parallel_moves.rs, fresh_labels.rs} and
  src/statements/{code_statement,let,switch,create,invoke,literal,op,print,ifc,exit,substitute}.rs,
  parametrised by a backend record `Scc.Backend.Backend Code T` (Interface.lean).
  Core imports only; executable; every recursion is structural.

  Conventions:
  * a Rust function pushing onto `instructions: &mut Vec<Code>` returns the list of pushed codes;
  * the process-global label counter is the state of `GenM`; `fresh_label()` = `freshLabel`;
  * the decimal rendering of a label number is a parameter `ren : Nat → String` of the `…R`
    functions (`natRen = toString` is what the Rust does; C17-T1 is stated through it);
  * `hooks = true` models the cargo feature `verif_hooks` (a `#ctx […]` comment per statement);
  * `BTreeMap`/`BTreeSet` are strictly sorted association lists / lists (`bindingCmp` = the derived
    `Ord` of `ContextBinding`, `Backend.tempLt`/`tempEq` = the `Ord` of the temporaries);
  * Rust panic sites are `throw`s; the only possible non-termination (`spanning_tree` on a move
    graph with a cycle that avoids the root: unbounded recursion = stack overflow in Rust) is
    detected EXACTLY by fuel = number of distinct temporaries + 1 (a path without repetition is not
    longer) and reported as an error.
-/
import Scc.Backend.Interface

namespace Scc.Backend

open Scc.AxCut

/-! ## printing (printer crate with `print_to_string(None)`: no line breaks) -/

/-- types.rs: impl Print for Ty -/
def tyPrint : Ty → String
  | .i64 => "i64"
  | .decl n => n.print

/-- `str::replace(", ", "_")`: non-overlapping matches, left to right -/
def replaceCommaSpace : List Char → List Char
  | ',' :: ' ' :: rest => '_' :: replaceCommaSpace rest
  | c :: rest => c :: replaceCommaSpace rest
  | [] => []

/-- `s.replace('[',"_").replace(", ","_").replace(']',"")` on the list of characters (structural,
    so that it reduces in the kernel; `String.replace` does not) -/
def mangleChars (cs : List Char) : List Char :=
  (replaceCommaSpace (cs.map fun c => if c == '[' then '_' else c)).filter fun c => c != ']'

/-- switch.rs / create.rs: `ty.print_to_string(None).replace('[',"_").replace(", ","_").replace(']',"")` -/
def mangleTy (ty : Ty) : String := String.ofList (mangleChars (tyPrint ty).toList)

def chiStr : Chi → String
  | .prd => "prd" | .cns => "cns" | .ext => "ext"

/-- `Vec<Identifier>::print` (print_comma_separated without line breaks) -/
def varsPrint (c : Ctx) : String := ", ".intercalate (c.map fun b => b.var.print)

/-- context.rs: impl Print for ContextBinding -/
def bindingPrint (b : Binding) : String :=
  b.var.print ++ ":" ++ " " ++ chiStr b.chi ++ " " ++ tyPrint b.ty

/-- context.rs: impl Print for TypingContext (allow_linebreaks = false) -/
def ctxPrint (c : Ctx) : String := ", ".intercalate (c.map bindingPrint)

/-- statements/invoke.rs (axcut): impl Print for Invoke -/
def invokePrint (var tag : Ident) (args : Ctx) : String :=
  "invoke " ++ var.print ++ " " ++ tag.print ++
    (if args.isEmpty then "" else "(" ++ ctxPrint args ++ ")")

/-- code_statement.rs: the `verif_hooks` comment -/
def ctxHookComment (c : Ctx) : String :=
  "#ctx [" ++ " ".intercalate (c.map fun b => b.var.print ++ ":" ++ chiStr b.chi) ++ "]"

def ifSortSym : IfSort → String
  | .eq => "==" | .ne => "!=" | .lt => "<" | .le => "<=" | .gt => ">" | .ge => ">="

/-- rendering of label numbers (`usize` Display) -/
def natRen : Nat → String := fun n => toString n

/-- `format!("{}", fresh_label())`: the next label number, rendered -/
def freshLabelStr (ren : Nat → String) : GenM String := do
  let n ← freshLabel
  pure (ren n)

/-! ## derived `Ord` of `ContextBinding` (key order of the `BTreeMap` in `transpose`) -/

/-- `String: Ord` is byte-wise lexicographic on UTF-8 = lexicographic on code points -/
def strCmp (a b : String) : Ordering :=
  if a.toList < b.toList then .lt else if a = b then .eq else .gt

def identCmp (a b : Ident) : Ordering :=
  (strCmp a.name b.name).then (compare a.id b.id)

def chiRank : Chi → Nat
  | .prd => 0 | .cns => 1 | .ext => 2

def tyCmp : Ty → Ty → Ordering
  | .i64, .i64 => .eq
  | .i64, .decl _ => .lt
  | .decl _, .i64 => .gt
  | .decl a, .decl b => identCmp a b

def bindingCmp (a b : Binding) : Ordering :=
  ((identCmp a.var b.var).then (compare (chiRank a.chi) (chiRank b.chi))).then (tyCmp a.ty b.ty)

/-- `BTreeMap::insert` on a sorted association list (an equal key keeps the OLD key, new value) -/
def mapInsert {K V : Type} (cmp : K → K → Ordering) (k : K) (v : V) : List (K × V) → List (K × V)
  | [] => [(k, v)]
  | (k', v') :: rest =>
    match cmp k k' with
    | .lt => (k, v) :: (k', v') :: rest
    | .eq => (k', v) :: rest
    | .gt => (k', v') :: mapInsert cmp k v rest

/-- substitution.rs: fn transpose -/
def transpose (rearrange : List (Binding × Ident)) (context : Ctx) : List (Binding × List Nat) :=
  context.foldl (fun targetMap binding =>
    let targets := (rearrange.filter fun (_, old) => binding.var.id == old.id).map fun (new, _) => new.var.id
    mapInsert bindingCmp binding targets targetMap) []

section Generic

variable {Code T : Type} (B : Backend Code T)

/-! ## parallel_moves.rs -/

def tempCmp (a b : T) : Ordering :=
  if B.tempLt a b then .lt else if B.tempEq a b then .eq else .gt

/-- `BTreeSet::insert` -/
def setInsert (t : T) : List T → List T
  | [] => [t]
  | t' :: rest =>
    match tempCmp B t t' with
    | .lt => t :: t' :: rest
    | .eq => t' :: rest
    | .gt => t' :: setInsert t rest

def setOfList (ts : List T) : List T := ts.foldl (fun s t => setInsert B t s) []

def memT (t : T) (l : List T) : Bool := l.any (B.tempEq t)

def mapLookup (pm : List (T × List T)) (k : T) : Option (List T) :=
  match pm.find? (fun e => B.tempEq k e.1) with
  | some e => some e.2
  | none => none

mutual
  /-- parallel_moves.rs: Tree::nodes (a `HashSet`, used for membership only) -/
  def Tree.nodes : Tree T → List T
    | .backEdge => []
    | .node t kids => t :: Tree.nodesList kids
  def Tree.nodesList : List (Tree T) → List T
    | [] => []
    | k :: ks => Tree.nodes k ++ Tree.nodesList ks
end

mutual
  /-- parallel_moves.rs: Tree::refers_back -/
  def Tree.refersBack : Tree T → Bool
    | .backEdge => true
    | .node _ kids => Tree.anyRefersBack kids
  def Tree.anyRefersBack : List (Tree T) → Bool
    | [] => false
    | k :: ks => Tree.refersBack k || Tree.anyRefersBack ks
end

/-- parallel_moves.rs: Root::visited_by -/
def Root.visitedBy : Root T → List T
  | .startNode t kids =>
    (if Tree.anyRefersBack kids then [t] else []) ++ Tree.nodesList kids

/-- parallel_moves.rs: fn delete_targets -/
def deleteTargets (toDelete : List T) (pm : List (T × List T)) : List (T × List T) :=
  pm.map fun (k, ts) => (k, ts.filter fun t => !memT B t toDelete)

def mapExcept {α β : Type} (f : α → Except String β) : List α → Except String (List β)
  | [] => .ok []
  | a :: as =>
    match f a with
    | .error e => .error e
    | .ok b =>
      match mapExcept f as with
      | .error e => .error e
      | .ok bs => .ok (b :: bs)

/-- parallel_moves.rs: fn spanning_tree.  Fuel: recursion depth; see the file header. -/
def spanningTree (pm : List (T × List T)) (root : T) : Nat → T → Except String (Tree T)
  | 0, _ => .error "spanning_tree: unbounded recursion (stack overflow)"
  | fuel + 1, node =>
    if B.tempEq root node then .ok .backEdge
    else match mapLookup B pm node with
      | some targets =>
        match mapExcept (spanningTree pm root fuel) targets with
        | .error e => .error e
        | .ok kids => .ok (.node node kids)
      | none => .ok (.node node [])

/-- parallel_moves.rs: fn spanning_forest (loop over `mappings.keys()`, `pm` is the mutated map) -/
def spanningForestLoop (fuel : Nat) : List T → List (T × List T) → Except String (List (Root T))
  | [], _ => .ok []
  | temporary :: keys, pm =>
    match mapLookup B pm temporary with
    | none => .error "spanning_forest: key not found"   -- unreachable: keys are never removed
    | some targets0 =>
      let targets := targets0.filter fun t => !B.tempEq t temporary
      match mapExcept (spanningTree B pm temporary fuel) targets with
      | .error e => .error e
      | .ok kids =>
        let root := Root.startNode temporary kids
        match spanningForestLoop fuel keys (deleteTargets B (Root.visitedBy root) pm) with
        | .error e => .error e
        | .ok roots => .ok (root :: roots)

/-- the distinct temporaries of the map (keys and targets) -/
def allNodes (pm : List (T × List T)) : List T :=
  @List.eraseDups T ⟨B.tempEq⟩ (pm.map (·.1) ++ pm.flatMap (·.2))

def spanningForest (pm : List (T × List T)) : Except String (List (Root T)) :=
  spanningForestLoop B ((allNodes B pm).length + 1) (pm.map (·.1)) pm

mutual
  /-- parallel_moves.rs: fn tree_moves -/
  def treeMoves (temporary : T) (spill : Bool) : Tree T → List Code
    | .backEdge => B.storeTemporary temporary spill
    | .node target kids => treeMovesList target spill kids ++ B.mov target temporary
  def treeMovesList (temporary : T) (spill : Bool) : List (Tree T) → List Code
    | [] => []
    | k :: ks => treeMoves temporary spill k ++ treeMovesList temporary spill ks
end

/-- parallel_moves.rs: fn root_moves -/
def rootMoves (root : Root T) : List Code :=
  let spill := B.containsSpillEdge root
  match root with
  | .startNode temporary kids =>
    treeMovesList B temporary spill kids ++
      (if Tree.anyRefersBack kids then B.restoreTemporary temporary spill else [])

def Root.noTargets : Root T → Bool
  | .startNode _ kids => kids.isEmpty

/-- parallel_moves.rs: fn parallel_moves -/
def parallelMoves (assignments : List (T × List T)) : Except String (List Code) :=
  match spanningForest B assignments with
  | .error e => .error e
  | .ok forest =>
    .ok ((if !forest.all Root.noTargets then [B.comment "#move variables"] else []) ++
      (forest.map (rootMoves B)).flatten)

/-! ## substitution.rs -/

def mapMGen {α β : Type} (f : α → GenM β) : List α → GenM (List β)
  | [] => pure []
  | a :: as => do
    let b ← f a
    let bs ← mapMGen f as
    pure (b :: bs)

/-- substitution.rs: fn code_exchange / fn connections -/
def connections (targetMap : List (Binding × List Nat)) (context newContext : Ctx) :
    GenM (List (T × List T)) :=
  let rec go : List (Binding × List Nat) → List (T × List T) → GenM (List (T × List T))
    | [], acc => pure acc
    | (binding, targets) :: rest, acc => do
      if binding.chi == .ext then
        let k ← B.variableTemporary .snd context binding.var.id
        let ts ← mapMGen (fun target => B.variableTemporary .snd newContext target) targets
        go rest (mapInsert (tempCmp B) k (setOfList B ts) acc)
      else
        let k1 ← B.variableTemporary .fst context binding.var.id
        let ts1 ← mapMGen (fun target => B.variableTemporary .fst newContext target) targets
        let acc1 := mapInsert (tempCmp B) k1 (setOfList B ts1) acc
        let k2 ← B.variableTemporary .snd context binding.var.id
        let ts2 ← mapMGen (fun target => B.variableTemporary .snd newContext target) targets
        go rest (mapInsert (tempCmp B) k2 (setOfList B ts2) acc1)
  go targetMap []

/-- substitution.rs: fn code_exchange -/
def codeExchange (targetMap : List (Binding × List Nat)) (context newContext : Ctx) :
    GenM (List Code) := do
  let conns ← connections B targetMap context newContext
  match parallelMoves B conns with
  | .error e => throw e
  | .ok code => pure code

/-- substitution.rs: fn update_reference_count -/
def updateReferenceCount (var : Ident) (context : Ctx) (newCount : Nat) : GenM (List Code) := do
  let temporary ← B.variableTemporary .fst context var.id
  match newCount with
  | 0 => do
    let code ← B.eraseBlock temporary
    pure (B.comment ("#erase " ++ var.print) :: code)
  | 1 => pure []
  | n + 2 => do
    let code ← B.shareBlockN temporary (n + 1)
    pure (B.comment ("#share " ++ var.print) :: code)

/-- substitution.rs: fn code_weakening_contraction -/
def codeWeakeningContraction (targetMap : List (Binding × List Nat)) (context : Ctx) :
    GenM (List Code) :=
  match targetMap with
  | [] => pure []
  | (binding, targets) :: rest => do
    let code ← (if binding.chi != .ext then
        updateReferenceCount B binding.var context targets.length
      else pure [])
    let codeRest ← codeWeakeningContraction rest context
    pure (code ++ codeRest)

/-! ## utils.rs: code_table; statements/*.rs -/

def clauseLabel (baseLabel : String) (xtor : Ident) : String := baseLabel ++ "_" ++ xtor.print

/-- utils.rs: fn code_table -/
def codeTable (clauses : Clauses) (baseLabel : String) : List Code :=
  match clauses with
  | .nil => []
  | .cons xtor _ _ rest => B.jumpLabelFixed (clauseLabel baseLabel xtor) ++ codeTable rest baseLabel

/-- `Vec::split_off(len - n)`: (remaining prefix, split-off suffix); the subtraction panics -/
def splitOffLast (context : Ctx) (n : Nat) : GenM (Ctx × Ctx) :=
  if n ≤ context.length then
    pure (context.take (context.length - n), context.drop (context.length - n))
  else throw "attempt to subtract with overflow"

def lookupTypeDeclM (types : List TypeDecl) (ty : Ty) : GenM TypeDecl :=
  match ty with
  | .i64 => throw "User-defined type cannot be i64"
  | .decl n =>
    match lookupTypeDecl types ty with
    | some d => pure d
    | none => throw ("Type " ++ n.name ++ " not found")

def xtorPositionM (d : TypeDecl) (tag : Ident) : GenM Nat :=
  match xtorPosition d tag with
  | some i => pure i
  | none => throw ("Xtor " ++ tag.name ++ " not found in type declaration " ++ d.name.print)

def substComment (rearrange : List (Binding × Ident)) : String :=
  "substitute " ++
    String.join (rearrange.map fun (x, y) => "(" ++ x.var.print ++ " := " ++ y.print ++ ")") ++ ";"

def ifcComment (sort : IfSort) (fst : Ident) (snd : Option Ident) : String :=
  "if " ++ fst.print ++ " " ++ ifSortSym sort ++ " " ++
    (match snd with | none => "0" | some s => s.print) ++ " \\{ ... \\}"

def hookCode (hooks : Bool) (context : Ctx) : List Code :=
  if hooks then [B.comment (ctxHookComment context)] else []

mutual
  /-- statements/code_statement.rs: impl CodeStatement for Statement (and the per-statement impls
      in statements/{substitute,let,switch,create,invoke,literal,op,print,ifc,exit}.rs) -/
  def codeStatementR (hooks : Bool) (ren : Nat → String) (types : List TypeDecl) :
      Stmt → Ctx → GenM (List Code)
    -- substitute.rs
    | .subst rearrange next, context => do
      let c0 := hookCode B hooks context ++ [B.comment (substComment rearrange)]
      let targetMap := transpose rearrange context
      let newContext : Ctx := rearrange.map (·.1)
      let c1 ← codeWeakeningContraction B targetMap context
      let c2 ← codeExchange B targetMap context newContext
      let c3 ← codeStatementR hooks ren types next newContext
      pure (c0 ++ c1 ++ c2 ++ c3)
    -- code_statement.rs: Statement::Call
    | .call label _, context =>
      pure (hookCode B hooks context ++ [B.comment (label.print ++ "(...)")] ++
        B.jumpLabel (label.print ++ "_"))
    -- let.rs
    | .letS var ty tag args next _, context => do
      let c0 := hookCode B hooks context ++
        [B.comment ("let " ++ var.print ++ ": " ++ tyPrint ty ++ " = " ++ tag.print ++ "(" ++
          varsPrint args ++ ");")]
      let decl ← lookupTypeDeclM types ty
      let tagPosition ← xtorPositionM decl tag
      let (context1, arguments) ← splitOffLast context args.length
      let c1 ← B.store arguments context1
      let context2 := context1 ++ [⟨var, .prd, ty⟩]
      let tagTemporary ← B.variableTemporary .snd context2 var.id
      let c2 := B.comment "#load tag" :: B.loadImmediate tagTemporary (B.jumpLength tagPosition)
      let c3 ← codeStatementR hooks ren types next context2
      pure (c0 ++ c1 ++ c2 ++ c3)
    -- switch.rs
    | .switch var ty clauses _, context => do
      let c0 := hookCode B hooks context ++ [B.comment ("switch " ++ var.print ++ " \\{ ... \\};")]
      let num ← freshLabelStr ren
      let freshLbl := mangleTy ty ++ "_" ++ num
      let numberOfClauses := clauses.length
      let c1 ← (if numberOfClauses ≤ 1 then
          pure [B.comment "#there is only one clause, so we can just fall through"]
        else do
          let tagTemporary ← B.variableTemporary .snd context var.id
          pure (B.loadLabel B.temp freshLbl ++ B.binop .sum B.temp B.temp tagTemporary ++
            B.jump B.temp))
      let c2 := B.label freshLbl ::
        (if numberOfClauses > 1 then codeTable B clauses freshLbl else [])
      let c3 ← codeClausesR hooks ren types context.dropLast clauses freshLbl
      pure (c0 ++ c1 ++ c2 ++ c3)
    -- create.rs
    | .create var ty env clauses next _ _, context => do
      match env with
      | none => throw "Closure environment must be annotated"
      | some envCtx =>
        let c0 := hookCode B hooks context ++
          [B.comment ("create " ++ var.print ++ ": " ++ tyPrint ty ++ " = (" ++ varsPrint envCtx ++
            ")\\{ ... \\};")]
        let (context1, closureEnvironment) ← splitOffLast context envCtx.length
        let c1 ← B.store closureEnvironment context1
        let num ← freshLabelStr ren
        let freshLbl := mangleTy ty ++ "_" ++ num
        let context2 := context1 ++ [⟨var, .cns, ty⟩]
        let tableTemporary ← B.variableTemporary .snd context2 var.id
        let c2 := B.comment "#load tag" :: B.loadLabel tableTemporary freshLbl
        let c3 ← codeStatementR hooks ren types next context2
        let c4 := B.label freshLbl ::
          (if clauses.length > 1 then codeTable B clauses freshLbl else [])
        let c5 ← codeMethodsR hooks ren types closureEnvironment clauses freshLbl
        pure (c0 ++ c1 ++ c2 ++ c3 ++ c4 ++ c5)
    -- invoke.rs
    | .invoke var tag ty args, context => do
      let c0 := hookCode B hooks context ++ [B.comment (invokePrint var tag args)]
      let tableTemporary ← B.variableTemporary .snd context var.id
      let decl ← lookupTypeDeclM types ty
      if decl.xtors.length ≤ 1 then
        pure (c0 ++
          [B.comment "#there is only one clause, so we can jump there directly"] ++
          B.jump tableTemporary)
      else do
        let tagPosition ← xtorPositionM decl tag
        pure (c0 ++ B.addAndJump tableTemporary (B.jumpLength tagPosition))
    -- literal.rs
    | .lit var n next _, context => do
      let c0 := hookCode B hooks context ++
        [B.comment ("lit " ++ var.print ++ " <- " ++ toString n ++ ";")]
      let context1 := context ++ [⟨var, .ext, .i64⟩]
      let t ← B.variableTemporary .snd context1 var.id
      let c1 := B.loadImmediate t n
      let c2 ← codeStatementR hooks ren types next context1
      pure (c0 ++ c1 ++ c2)
    -- op.rs
    | .op var fst o snd next _, context => do
      let c0 := hookCode B hooks context ++
        [B.comment (var.print ++ " <- " ++ fst.print ++ " " ++ o.sym ++ " " ++ snd.print ++ ";")]
      let context1 := context ++ [⟨var, .ext, .i64⟩]
      let target ← B.variableTemporary .snd context1 var.id
      let s1 ← B.variableTemporary .snd context1 fst.id
      let s2 ← B.variableTemporary .snd context1 snd.id
      let c1 := B.binop o target s1 s2
      let c2 ← codeStatementR hooks ren types next context1
      pure (c0 ++ c1 ++ c2)
    -- print.rs
    | .print newline var next _, context => do
      let c0 := hookCode B hooks context ++
        [B.comment ((if newline then "println_i64" else "print_i64") ++ " " ++ var.print ++ ";")]
      let t ← B.variableTemporary .snd context var.id
      let c1 ← B.printI64 newline t context
      let c2 ← codeStatementR hooks ren types next context
      pure (c0 ++ c1 ++ c2)
    -- ifc.rs
    | .ifc sort fst snd thenc elsec, context => do
      let c0 := hookCode B hooks context ++ [B.comment (ifcComment sort fst snd)]
      let num ← freshLabelStr ren
      let freshLbl := "lab" ++ num
      let c1 ← (match snd with
        | none => do
          let a ← B.variableTemporary .snd context fst.id
          pure (B.jumpLabelIfZero sort a freshLbl)
        | some snd => do
          let a ← B.variableTemporary .snd context fst.id
          let b ← B.variableTemporary .snd context snd.id
          pure (B.jumpLabelIf sort a b freshLbl))
      let c2 ← codeStatementR hooks ren types elsec context
      let c3 ← codeStatementR hooks ren types thenc context
      pure (c0 ++ c1 ++ [B.comment "else branch"] ++ c2 ++
        [B.label freshLbl, B.comment "then branch"] ++ c3)
    -- exit.rs
    | .exit var, context => do
      let c0 := hookCode B hooks context ++ [B.comment ("exit " ++ var.print)]
      let t ← B.variableTemporary .snd context var.id
      pure (c0 ++ B.mov B.return1 t ++ B.jumpLabel "cleanup")
  /-- utils.rs: fn code_clauses / fn code_clause -/
  def codeClausesR (hooks : Bool) (ren : Nat → String) (types : List TypeDecl) (context : Ctx) :
      Clauses → String → GenM (List Code)
    | .nil, _ => pure []
    | .cons xtor clauseCtx body rest, baseLabel => do
      let c1 ← B.load clauseCtx context
      let c2 ← codeStatementR hooks ren types body (context ++ clauseCtx)
      let c3 ← codeClausesR hooks ren types context rest baseLabel
      pure (B.label (clauseLabel baseLabel xtor) :: c1 ++ c2 ++ c3)
  /-- utils.rs: fn code_methods / fn code_method -/
  def codeMethodsR (hooks : Bool) (ren : Nat → String) (types : List TypeDecl)
      (closureEnvironment : Ctx) : Clauses → String → GenM (List Code)
    | .nil, _ => pure []
    | .cons xtor clauseCtx body rest, baseLabel => do
      let c1 ← B.load closureEnvironment clauseCtx
      let c2 ← codeStatementR hooks ren types body (clauseCtx ++ closureEnvironment)
      let c3 ← codeMethodsR hooks ren types closureEnvironment rest baseLabel
      pure (B.label (clauseLabel baseLabel xtor) :: c1 ++ c2 ++ c3)
end

/-- coder.rs: fn translate -/
def translateR (hooks : Bool) (ren : Nat → String) (types : List TypeDecl) :
    List Def → GenM (List (List Code))
  | [] => pure []
  | d :: ds => do
    let is ← codeStatementR B hooks ren types d.body d.ctx
    let rest ← translateR hooks ren types ds
    pure (is :: rest)

/-- coder.rs: fn assemble (`zip` stops at the shorter list) -/
def assemble : List (List Code) → List Ident → List Code
  | block :: blocks, name :: names => B.label (name.print ++ "_") :: block ++ assemble blocks names
  | _, _ => []

/-- coder.rs: fn compile -/
def compileR (hooks : Bool) (ren : Nat → String) (p : Prog) : GenM (List Code × Nat) :=
  let names := p.defs.map (·.name)
  match p.defs with
  | [] => throw "index out of bounds: the len is 0 but the index is 0"
  | d0 :: _ => do
    let numberOfArguments := d0.ctx.length
    let blocks ← translateR B hooks ren p.types p.defs
    pure (assemble B blocks names, numberOfArguments)

/-! ## the functions with the Rust's own number rendering -/

def codeStatement (hooks : Bool) (types : List TypeDecl) : Stmt → Ctx → GenM (List Code) :=
  codeStatementR B hooks natRen types

def codeClauses (hooks : Bool) (types : List TypeDecl) (context : Ctx) :
    Clauses → String → GenM (List Code) :=
  codeClausesR B hooks natRen types context

def codeMethods (hooks : Bool) (types : List TypeDecl) (closureEnvironment : Ctx) :
    Clauses → String → GenM (List Code) :=
  codeMethodsR B hooks natRen types closureEnvironment

def translate (hooks : Bool) (types : List TypeDecl) : List Def → GenM (List (List Code)) :=
  translateR B hooks natRen types

def compile (hooks : Bool) (p : Prog) : GenM (List Code × Nat) :=
  compileR B hooks natRen p

end Generic

end Scc.Backend
