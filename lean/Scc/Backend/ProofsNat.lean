/-
  Scc.Backend.ProofsNat — naturality of the generic code generator in the code type: running it with
  the backend `B.mapCode f` gives the `f`-image of running it with `B` (same counter, same panics).
  Consequence: the text produced with `mock` (`Code := String`, what is compared with the harness)
  is `MockOp.render` applied to the structured code produced with `mockSym` (what the theorems are
  about).   Proof file.
-/
import Scc.Backend.Proofs

set_option linter.unusedSimpArgs false
set_option linter.unusedVariables false

namespace Scc.Backend

open Scc.AxCut

/-- map the result value of a run -/
def mapRun {α β : Type} (g : α → β) : Except String (α × Nat) → Except String (β × Nat)
  | .ok (a, k) => .ok (g a, k)
  | .error e => .error e

/-- `m'` computes the `g`-image of what `m` computes -/
structure Img {α β : Type} (g : α → β) (m : GenM α) (m' : GenM β) : Prop where
  run : ∀ c, m'.run c = mapRun g (m.run c)

theorem Img_pure {α β : Type} (g : α → β) (a : α) : Img g (pure a : GenM α) (pure (g a)) :=
  ⟨fun _ => rfl⟩

theorem Img_pure' {α β : Type} (g : α → β) (a : α) (b : β) (h : b = g a) :
    Img g (pure a : GenM α) (pure b) := by subst h; exact Img_pure g a

theorem Img_throw {α β : Type} (g : α → β) (e : String) : Img g (throw e : GenM α) (throw e) :=
  ⟨fun _ => rfl⟩

theorem Img_id {α : Type} (m : GenM α) : Img id m m := by
  constructor; intro c
  cases h : m.run c with
  | error e => rfl
  | ok r => obtain ⟨a, k⟩ := r; rfl

theorem Img_bind {α α' β β' : Type} (g : α → α') (h : β → β') (m : GenM α) (m' : GenM α')
    (k : α → GenM β) (k' : α' → GenM β')
    (hm : Img g m m') (hk : ∀ a, Img h (k a) (k' (g a))) : Img h (m >>= k) (m' >>= k') := by
  constructor; intro c
  simp only [StateT.run_bind]
  rw [hm.run c]
  cases hx : m.run c with
  | error e => rfl
  | ok r =>
    obtain ⟨a, k1⟩ := r
    simp only [mapRun, bind, Except.bind]
    exact (hk a).run k1

theorem Img_ite {α β : Type} (g : α → β) (c : Prop) [Decidable c] (m1 m2 : GenM α) (m1' m2' : GenM β)
    (h1 : Img g m1 m1') (h2 : Img g m2 m2') :
    Img g (if c then m1 else m2) (if c then m1' else m2') := by
  by_cases h : c <;> simp only [h, if_true, if_false] <;> assumption

section
variable {Code Code' T : Type} (B : Backend Code T) (f : Code → Code')

@[simp] theorem mapCode_variableTemporary : (B.mapCode f).variableTemporary = B.variableTemporary := rfl
@[simp] theorem mapCode_comment (m : String) : (B.mapCode f).comment m = f (B.comment m) := rfl
@[simp] theorem mapCode_label (m : String) : (B.mapCode f).label m = f (B.label m) := rfl
@[simp] theorem mapCode_jump (t : T) : (B.mapCode f).jump t = (B.jump t).map f := rfl
@[simp] theorem mapCode_jumpLabel (n : String) : (B.mapCode f).jumpLabel n = (B.jumpLabel n).map f := rfl
@[simp] theorem mapCode_jumpLabelFixed (n : String) :
    (B.mapCode f).jumpLabelFixed n = (B.jumpLabelFixed n).map f := rfl
@[simp] theorem mapCode_jumpLabelIf (c : IfSort) (a b : T) (n : String) :
    (B.mapCode f).jumpLabelIf c a b n = (B.jumpLabelIf c a b n).map f := rfl
@[simp] theorem mapCode_jumpLabelIfZero (c : IfSort) (a : T) (n : String) :
    (B.mapCode f).jumpLabelIfZero c a n = (B.jumpLabelIfZero c a n).map f := rfl
@[simp] theorem mapCode_loadImmediate (t : T) (i : Int) :
    (B.mapCode f).loadImmediate t i = (B.loadImmediate t i).map f := rfl
@[simp] theorem mapCode_loadLabel (t : T) (n : String) :
    (B.mapCode f).loadLabel t n = (B.loadLabel t n).map f := rfl
@[simp] theorem mapCode_addAndJump (t : T) (i : Int) :
    (B.mapCode f).addAndJump t i = (B.addAndJump t i).map f := rfl
@[simp] theorem mapCode_binop (o : BinOp) (t a b : T) :
    (B.mapCode f).binop o t a b = (B.binop o t a b).map f := rfl
@[simp] theorem mapCode_mov (t s : T) : (B.mapCode f).mov t s = (B.mov t s).map f := rfl
@[simp] theorem mapCode_temp : (B.mapCode f).temp = B.temp := rfl
@[simp] theorem mapCode_return1 : (B.mapCode f).return1 = B.return1 := rfl
@[simp] theorem mapCode_jumpLength : (B.mapCode f).jumpLength = B.jumpLength := rfl
@[simp] theorem mapCode_printI64 (nl : Bool) (t : T) (c : Ctx) :
    (B.mapCode f).printI64 nl t c = (fun l => l.map f) <$> B.printI64 nl t c := rfl
@[simp] theorem mapCode_eraseBlock (t : T) :
    (B.mapCode f).eraseBlock t = (fun l => l.map f) <$> B.eraseBlock t := rfl
@[simp] theorem mapCode_shareBlockN (t : T) (n : Nat) :
    (B.mapCode f).shareBlockN t n = (fun l => l.map f) <$> B.shareBlockN t n := rfl
@[simp] theorem mapCode_store (a b : Ctx) :
    (B.mapCode f).store a b = (fun l => l.map f) <$> B.store a b := rfl
@[simp] theorem mapCode_load (a b : Ctx) :
    (B.mapCode f).load a b = (fun l => l.map f) <$> B.load a b := rfl
@[simp] theorem mapCode_tempLt : (B.mapCode f).tempLt = B.tempLt := rfl
@[simp] theorem mapCode_tempEq : (B.mapCode f).tempEq = B.tempEq := rfl

/-! ### the pure parts -/

theorem mapCode_tempCmp : tempCmp (B.mapCode f) = tempCmp B := rfl
theorem mapCode_setInsert (t : T) : ∀ (l : List T), setInsert (B.mapCode f) t l = setInsert B t l
  | [] => rfl
  | t' :: rest => by
    simp only [setInsert, mapCode_tempCmp, mapCode_setInsert t rest]

theorem mapCode_setOfList : setOfList (B.mapCode f) = setOfList B := by
  funext ts
  unfold setOfList
  have : (fun s t => setInsert (B.mapCode f) t s) = (fun s t => setInsert B t s) := by
    funext s t; exact mapCode_setInsert B f t s
  rw [this]

theorem mapCode_spanningTree (pm : List (T × List T)) (root : T) : ∀ (fuel : Nat) (node : T),
    spanningTree (B.mapCode f) pm root fuel node = spanningTree B pm root fuel node
  | 0, _ => rfl
  | fuel + 1, node => by
    have ih : spanningTree (B.mapCode f) pm root fuel = spanningTree B pm root fuel :=
      funext (mapCode_spanningTree pm root fuel)
    simp only [spanningTree, mapCode_tempEq, mapLookup, ih]

theorem mapCode_spanningTree' (pm : List (T × List T)) (root : T) (fuel : Nat) :
    spanningTree (B.mapCode f) pm root fuel = spanningTree B pm root fuel :=
  funext (mapCode_spanningTree B f pm root fuel)

theorem mapCode_spanningForestLoop (fuel : Nat) : ∀ (keys : List T) (pm : List (T × List T)),
    spanningForestLoop (B.mapCode f) fuel keys pm = spanningForestLoop B fuel keys pm
  | [], _ => rfl
  | t :: keys, pm => by
    have ih : spanningForestLoop (B.mapCode f) fuel keys = spanningForestLoop B fuel keys :=
      funext (mapCode_spanningForestLoop fuel keys)
    simp only [spanningForestLoop, mapLookup, mapCode_tempEq, mapCode_spanningTree', deleteTargets,
      memT, ih]

mutual
theorem mapCode_treeMoves (t : T) (sp : Bool) : ∀ (tr : Tree T),
    treeMoves (B.mapCode f) t sp tr = (treeMoves B t sp tr).map f
  | .backEdge => rfl
  | .node target kids => by
    simp only [treeMoves, List.map_append, mapCode_treeMovesList target sp kids]
    rfl
theorem mapCode_treeMovesList (t : T) (sp : Bool) : ∀ (trs : List (Tree T)),
    treeMovesList (B.mapCode f) t sp trs = (treeMovesList B t sp trs).map f
  | [] => rfl
  | k :: ks => by
    simp only [treeMovesList, List.map_append, mapCode_treeMoves t sp k, mapCode_treeMovesList t sp ks]
end

theorem mapCode_rootMoves (r : Root T) : rootMoves (B.mapCode f) r = (rootMoves B r).map f := by
  cases r with
  | startNode t kids =>
    simp only [rootMoves, List.map_append, mapCode_treeMovesList]
    have : (B.mapCode f).containsSpillEdge = B.containsSpillEdge := rfl
    rw [this]
    split
    · rfl
    · rfl

theorem mapCode_rootMoves' : rootMoves (B.mapCode f) = fun r => (rootMoves B r).map f :=
  funext (mapCode_rootMoves B f)

theorem mapCode_parallelMoves (conns : List (T × List T)) :
    parallelMoves (B.mapCode f) conns = (parallelMoves B conns).map (List.map f) := by
  unfold parallelMoves spanningForest
  rw [mapCode_spanningForestLoop]
  have : allNodes (B.mapCode f) conns = allNodes B conns := rfl
  rw [this]
  cases spanningForestLoop B ((allNodes B conns).length + 1) (conns.map (·.1)) conns with
  | error e => rfl
  | ok forest =>
    simp only [Except.map, List.map_append, List.map_flatten, List.map_map, mapCode_rootMoves',
      mapCode_comment]
    split <;> rfl

theorem mapCode_hookCode (hooks : Bool) (ctx : Ctx) :
    hookCode (B.mapCode f) hooks ctx = (hookCode B hooks ctx).map f := by
  unfold hookCode; cases hooks <;> rfl

theorem mapCode_codeTable (base : String) : ∀ (cs : Clauses),
    codeTable (B.mapCode f) cs base = (codeTable B cs base).map f
  | .nil => rfl
  | .cons x _ _ rest => by
    simp only [codeTable, List.map_append, mapCode_codeTable base rest]
    rfl


/-! ### the monadic parts -/

theorem mapCode_connections (tm : List (Binding × List Nat)) (context newContext : Ctx) :
    connections (B.mapCode f) tm context newContext = connections B tm context newContext := by
  unfold connections
  have key : ∀ (tm : List (Binding × List Nat)) (acc : List (T × List T)),
      connections.go (B.mapCode f) context newContext tm acc =
        connections.go B context newContext tm acc := by
    intro tm
    induction tm with
    | nil => intro acc; rfl
    | cons e rest ih =>
      intro acc
      obtain ⟨binding, targets⟩ := e
      simp only [connections.go, mapCode_variableTemporary, ih, mapCode_tempCmp, mapCode_setOfList]
  exact key tm []

theorem Img_codeExchange (tm : List (Binding × List Nat)) (context newContext : Ctx) :
    Img (List.map f) (codeExchange B tm context newContext)
      (codeExchange (B.mapCode f) tm context newContext) := by
  unfold codeExchange
  rw [mapCode_connections]
  apply Img_bind id (List.map f) _ _ _ _ (Img_id _)
  intro conns
  simp only [id, mapCode_parallelMoves]
  cases parallelMoves B conns with
  | error e => exact Img_throw _ _
  | ok code => exact Img_pure _ _

omit B in
theorem Img_mapped (m : GenM (List Code)) :
    Img (List.map f) m ((fun l => l.map f) <$> m) := by
  constructor; intro c
  show ((fun l => List.map f l) <$> m).run c = _
  simp only [StateT.run_map]
  cases m.run c with
  | error e => rfl
  | ok r => obtain ⟨a, k⟩ := r; rfl

theorem Img_updateReferenceCount (v : Ident) (context : Ctx) (n : Nat) :
    Img (List.map f) (updateReferenceCount B v context n)
      (updateReferenceCount (B.mapCode f) v context n) := by
  unfold updateReferenceCount
  apply Img_bind id (List.map f) _ _ _ _ (Img_id _)
  intro t
  match n with
  | 0 =>
    apply Img_bind (List.map f) (List.map f) _ _ _ _ (Img_mapped f _)
    intro code
    exact Img_pure _ _
  | 1 => exact Img_pure _ _
  | n + 2 =>
    apply Img_bind (List.map f) (List.map f) _ _ _ _ (Img_mapped f _)
    intro code
    exact Img_pure _ _

theorem Img_codeWeakeningContraction (context : Ctx) : ∀ (tm : List (Binding × List Nat)),
    Img (List.map f) (codeWeakeningContraction B tm context)
      (codeWeakeningContraction (B.mapCode f) tm context)
  | [] => Img_pure _ _
  | (binding, targets) :: rest => by
    unfold codeWeakeningContraction
    apply Img_bind (List.map f) (List.map f)
    · apply Img_ite
      · exact Img_updateReferenceCount B f ..
      · exact Img_pure _ _
    · intro code
      apply Img_bind (List.map f) (List.map f) _ _ _ _ (Img_codeWeakeningContraction context rest)
      intro codeRest
      apply Img_pure'; simp


/-! ### the generator -/

/-- shorthand: a code-valued monadic operation of `B.mapCode f` -/
theorem Img_op (m : GenM (List Code)) : Img (List.map f) m ((fun l => l.map f) <$> m) := Img_mapped f m

mutual
theorem Img_codeStatementR (hooks : Bool) (ren : Nat → String) (types : List TypeDecl) :
    ∀ (s : Stmt) (context : Ctx),
      Img (List.map f) (codeStatementR B hooks ren types s context)
        (codeStatementR (B.mapCode f) hooks ren types s context)
  | .subst rearrange next, context => by
    simp only [codeStatementR]
    apply Img_bind (List.map f) _ _ _ _ _ (Img_codeWeakeningContraction B f ..); intro c1
    apply Img_bind (List.map f) _ _ _ _ _ (Img_codeExchange B f ..); intro c2
    apply Img_bind (List.map f) _ _ _ _ _ (Img_codeStatementR hooks ren types next _); intro c3
    apply Img_pure'; simp [mapCode_hookCode]
  | .call label args, context => by
    simp only [codeStatementR]
    apply Img_pure'; simp [mapCode_hookCode]
  | .letS var ty tag args next fv, context => by
    simp only [codeStatementR]
    apply Img_bind id _ _ _ _ _ (Img_id _); intro decl
    apply Img_bind id _ _ _ _ _ (Img_id _); intro pos
    apply Img_bind id _ _ _ _ _ (Img_id _); intro sp
    obtain ⟨context1, arguments⟩ := sp
    simp only [id]
    apply Img_bind (List.map f) _ _ _ _ _ (Img_op f _); intro c1
    apply Img_bind id _ _ _ _ _ (Img_id _); intro t
    apply Img_bind (List.map f) _ _ _ _ _ (Img_codeStatementR hooks ren types next _); intro c3
    apply Img_pure'; simp [mapCode_hookCode]
  | .switch var ty clauses fv, context => by
    simp only [codeStatementR]
    apply Img_bind id _ _ _ _ _ (Img_id _); intro num
    simp only [id]
    apply Img_bind (List.map f)
    · apply Img_ite
      · apply Img_pure'; simp
      · apply Img_bind id _ _ _ _ _ (Img_id _); intro t
        apply Img_pure'; simp
    · intro c1
      apply Img_bind (List.map f) _ _ _ _ _ (Img_codeClausesR hooks ren types _ clauses _); intro c3
      apply Img_pure'
      by_cases hn : clauses.length > 1 <;> simp [mapCode_hookCode, mapCode_codeTable, hn]
  | .create var ty env clauses next fv1 fv2, context => by
    cases env with
    | none => simp only [codeStatementR]; exact Img_throw _ _
    | some envCtx =>
      simp only [codeStatementR]
      apply Img_bind id _ _ _ _ _ (Img_id _); intro sp
      obtain ⟨context1, closureEnvironment⟩ := sp
      simp only [id]
      apply Img_bind (List.map f) _ _ _ _ _ (Img_op f _); intro c1
      apply Img_bind id _ _ _ _ _ (Img_id _); intro num
      apply Img_bind id _ _ _ _ _ (Img_id _); intro t
      simp only [id]
      apply Img_bind (List.map f) _ _ _ _ _ (Img_codeStatementR hooks ren types next _); intro c3
      apply Img_bind (List.map f) _ _ _ _ _ (Img_codeMethodsR hooks ren types _ clauses _); intro c5
      apply Img_pure'
      by_cases hn : clauses.length > 1 <;> simp [mapCode_hookCode, mapCode_codeTable, hn]
  | .invoke var tag ty args, context => by
    simp only [codeStatementR]
    apply Img_bind id _ _ _ _ _ (Img_id _); intro t
    apply Img_bind id _ _ _ _ _ (Img_id _); intro decl
    simp only [id]
    apply Img_ite
    · apply Img_pure'; simp [mapCode_hookCode]
    · apply Img_bind id _ _ _ _ _ (Img_id _); intro pos
      apply Img_pure'; simp [mapCode_hookCode]
  | .lit var n next fv, context => by
    simp only [codeStatementR]
    apply Img_bind id _ _ _ _ _ (Img_id _); intro t
    apply Img_bind (List.map f) _ _ _ _ _ (Img_codeStatementR hooks ren types next _); intro c2
    apply Img_pure'; simp [mapCode_hookCode]
  | .op var fst o snd next fv, context => by
    simp only [codeStatementR]
    apply Img_bind id _ _ _ _ _ (Img_id _); intro t
    apply Img_bind id _ _ _ _ _ (Img_id _); intro s1
    apply Img_bind id _ _ _ _ _ (Img_id _); intro s2
    apply Img_bind (List.map f) _ _ _ _ _ (Img_codeStatementR hooks ren types next _); intro c2
    apply Img_pure'; simp [mapCode_hookCode]
  | .print newline var next fv, context => by
    simp only [codeStatementR]
    apply Img_bind id _ _ _ _ _ (Img_id _); intro t
    simp only [id]
    apply Img_bind (List.map f) _ _ _ _ _ (Img_op f _); intro c1
    apply Img_bind (List.map f) _ _ _ _ _ (Img_codeStatementR hooks ren types next _); intro c2
    apply Img_pure'; simp [mapCode_hookCode]
  | .ifc sort fst snd thenc elsec, context => by
    simp only [codeStatementR]
    apply Img_bind id _ _ _ _ _ (Img_id _); intro num
    simp only [id]
    apply Img_bind (List.map f)
    · cases snd with
      | none =>
        dsimp only
        apply Img_bind id _ _ _ _ _ (Img_id _); intro a
        apply Img_pure'; simp
      | some snd =>
        dsimp only
        apply Img_bind id _ _ _ _ _ (Img_id _); intro a
        apply Img_bind id _ _ _ _ _ (Img_id _); intro b
        apply Img_pure'; simp
    · intro c1
      apply Img_bind (List.map f) _ _ _ _ _ (Img_codeStatementR hooks ren types elsec _); intro c2
      apply Img_bind (List.map f) _ _ _ _ _ (Img_codeStatementR hooks ren types thenc _); intro c3
      apply Img_pure'; simp [mapCode_hookCode]
  | .exit var, context => by
    simp only [codeStatementR]
    apply Img_bind id _ _ _ _ _ (Img_id _); intro t
    apply Img_pure'; simp [mapCode_hookCode]
theorem Img_codeClausesR (hooks : Bool) (ren : Nat → String) (types : List TypeDecl) (context : Ctx) :
    ∀ (cs : Clauses) (baseLabel : String),
      Img (List.map f) (codeClausesR B hooks ren types context cs baseLabel)
        (codeClausesR (B.mapCode f) hooks ren types context cs baseLabel)
  | .nil, _ => by simp only [codeClausesR]; exact Img_pure _ _
  | .cons xtor clauseCtx body rest, baseLabel => by
    simp only [codeClausesR]
    apply Img_bind (List.map f) _ _ _ _ _ (Img_op f _); intro c1
    apply Img_bind (List.map f) _ _ _ _ _ (Img_codeStatementR hooks ren types body _); intro c2
    apply Img_bind (List.map f) _ _ _ _ _ (Img_codeClausesR hooks ren types context rest baseLabel)
    intro c3
    apply Img_pure'; simp
theorem Img_codeMethodsR (hooks : Bool) (ren : Nat → String) (types : List TypeDecl) (env : Ctx) :
    ∀ (cs : Clauses) (baseLabel : String),
      Img (List.map f) (codeMethodsR B hooks ren types env cs baseLabel)
        (codeMethodsR (B.mapCode f) hooks ren types env cs baseLabel)
  | .nil, _ => by simp only [codeMethodsR]; exact Img_pure _ _
  | .cons xtor clauseCtx body rest, baseLabel => by
    simp only [codeMethodsR]
    apply Img_bind (List.map f) _ _ _ _ _ (Img_op f _); intro c1
    apply Img_bind (List.map f) _ _ _ _ _ (Img_codeStatementR hooks ren types body _); intro c2
    apply Img_bind (List.map f) _ _ _ _ _ (Img_codeMethodsR hooks ren types env rest baseLabel)
    intro c3
    apply Img_pure'; simp
end


theorem Img_translateR (hooks : Bool) (ren : Nat → String) (types : List TypeDecl) :
    ∀ (defs : List Def),
      Img (List.map (List.map f)) (translateR B hooks ren types defs)
        (translateR (B.mapCode f) hooks ren types defs)
  | [] => by simp only [translateR]; exact Img_pure _ _
  | d :: ds => by
    simp only [translateR]
    apply Img_bind (List.map f) _ _ _ _ _ (Img_codeStatementR B f hooks ren types d.body d.ctx)
    intro is
    apply Img_bind (List.map (List.map f)) _ _ _ _ _ (Img_translateR hooks ren types ds); intro rest
    apply Img_pure'; simp

theorem mapCode_assemble : ∀ (blocks : List (List Code)) (names : List Ident),
    assemble (B.mapCode f) (blocks.map (List.map f)) names = (assemble B blocks names).map f
  | [], _ => by simp [assemble]
  | _ :: _, [] => by simp [assemble]
  | b :: bs, n :: ns => by simp [assemble, mapCode_assemble bs ns]

/-- naturality of `compile` in the code type -/
theorem Img_compileR (hooks : Bool) (ren : Nat → String) (p : Prog) :
    Img (fun r : List Code × Nat => (r.1.map f, r.2)) (compileR B hooks ren p)
      (compileR (B.mapCode f) hooks ren p) := by
  unfold compileR
  cases p.defs with
  | nil => exact Img_throw _ _
  | cons d0 ds =>
    dsimp only
    apply Img_bind (List.map (List.map f)) _ _ _ _ _ (Img_translateR B f hooks ren p.types _)
    intro blocks
    apply Img_pure'
    simp [mapCode_assemble]

end

/-- the text produced with `mock` is the rendering of the structured code produced with `mockSym`
    (same panics, same final counter) -/
theorem compile_mock_eq_render (hooks : Bool) (p : Prog) (c : Nat) :
    (compile mock hooks p).run c =
      mapRun (fun r : List MockOp × Nat => (r.1.map MockOp.render, r.2))
        ((compile mockSym hooks p).run c) :=
  (Img_compileR mockSym MockOp.render hooks natRen p).run c

/-- the line function compared with the harness (`S6m`) is the rendering of `compileMockSym` -/
theorem runLineMock_eq (dumpS5 : String) (hooks : Bool) (c : Nat) :
    runLineMock dumpS5 hooks c =
      match readS5 dumpS5 with
      | .error e => e
      | .ok p =>
        match compileMockSym p hooks c with
        | .error e => "PANIC " ++ e
        | .ok ops => "OK " ++ "\n".intercalate (ops.map MockOp.render) := by
  unfold runLineMock compileMockSym runGen
  cases readS5 dumpS5 with
  | error e => rfl
  | ok p =>
    simp only [compile_mock_eq_render]
    cases (compile mockSym hooks p).run c with
    | error e => rfl
    | ok r => obtain ⟨⟨ops, n⟩, k⟩ := r; rfl

end Scc.Backend
