/-
  Scc.X86.MemProofsLoad — the contract of `load` (memory.rs: release_block, load_field,
  load_value(s), load_fields, Memory::load with load_register) against `Scc.Heap.loadObj`:
  unique branch (count 0: the blocks go back onto the linear free list, the children move into the
  environment) and shared branch (count > 0: decrement, every pointer child is shared), for objects
  of ANY number of fields (one block or a chain) and EVERY placement of the loaded variables and of
  the memory-block temporaries (registers and spill slots; a spilled memory block is accessed through
  TEMPORARY_TEMP = rax, which is evacuated to SPILL_TEMP and restored at the end).
-/
import Scc.X86.MemProofsStore

set_option linter.unusedSimpArgs false
set_option linter.unusedVariables false

namespace Scc.X86

open Scc.AxCut
open Scc.Backend (GenM TempNum freshLabel)

/-! ## load_field, share_block -/

/-- memory.rs load_field for the temporary `t`: shape of the code, both placements at once -/
def loadFieldCode (t : Temporary) (mbr : Nat) (fo : Int) : List Code :=
  match t with
  | .reg r => [.MOVL r mbr fo]
  | .spill p => [.MOVL TEMP mbr fo, .MOVS TEMP STACK (stackOffset p)]

theorem loadField_run (num : TempNum) (ctx : Ctx) (mbr off k : Nat)
    (h : 2 * ctx.length + num.toNat < 267) :
    (loadField num ctx mbr off).run k =
      .ok (loadFieldCode (posTemp (2 * ctx.length + num.toNat)) mbr (fieldOffset num off), k) := by
  unfold loadField
  rw [genm_bind (freshTemporary_run k h)]
  cases posTemp (2 * ctx.length + num.toNat) <;> rfl

theorem noLab_loadFieldCode (t : Temporary) (mbr : Nat) (fo : Int) : NoLab (loadFieldCode t mbr fo) := by
  intro l; cases t <;> simp [loadFieldCode]

section Prim
variable {c : MachCfg} {μ : MState} {h h' : Scc.Heap.HState}

theorem HRelM.of_frame {μ' : MState} (H : HRelM c μ h) (hh : μ'.heap = μ.heap)
    (h1 : μ'.val (.reg HEAP) = μ.val (.reg HEAP)) (h2 : μ'.val (.reg FREE) = μ.val (.reg FREE)) :
    HRelM c μ' h := by
  obtain ⟨wh, hwh, ewh⟩ := H.heap
  obtain ⟨wf, hwf, ewf⟩ := H.free
  exact ⟨H.base, H.limit, fun a => by rw [hh]; exact H.mem a, ⟨wh, by rw [h1]; exact hwh, ewh⟩,
    ⟨wf, by rw [h2]; exact hwf, ewf⟩⟩

/-- `t := [mbr + off]` (through TEMP for a spilled `t`) is the model's `rd` -/
theorem m_loadFieldCode (C : HeapCfgOK c) (H : HRelM c μ h) {t : Temporary} (ht : TempOK t)
    {mbr : Nat} (hb1 : 2 ≤ mbr) (hb2 : mbr < 16) {b : Word} (hvb : μ.val (.reg mbr) = some b)
    {off : Nat} (ho : off < 2 ^ 31) {v : Nat} (hrd : Scc.Heap.rd h (b.toNat + off) = .ok v) :
    ∃ μ' w, mFwd c (loadFieldCode t mbr (off : Int)) μ = some (μ', .next) ∧ w.toNat = v ∧
      μ'.val t = some w ∧ μ'.val (.reg (jumpReg t)) = some w ∧ μ'.heap = μ.heap ∧ μ'.flags = μ.flags ∧
      (∀ u, u ≠ t → u ≠ .reg TEMP → μ'.val u = μ.val u) := by
  obtain ⟨hok, hv⟩ := rd_eq_ok.1 hrd
  have ha := haddr_ok C H ho hok
  have hb0 : ¬ mbr = 0 := by omega
  have hbo : 1 ≤ mbr := by omega
  cases t with
  | reg r =>
    have hro : regOpnd r = some (.reg r) := regOpnd_of ht.opnd
    refine ⟨μ.setT (.reg r) (some (μ.heap (b.toNat + off))), μ.heap (b.toNat + off), ?_,
      by rw [hv, H.mem], by simp, by simp [jumpReg], rfl, rfl, fun u hu _ => by simp [hu]⟩
    simp [loadFieldCode, mFwd_cons, mFwd_nil, mcont, mexecC, mexec, hb0, hro, maddr, hbo, hb2, hvb, ha]
  | spill p =>
    have hmo : memOpnd 0 (stackOffset p) = some (.spill p) := memOpnd_of ht.opnd
    refine ⟨(μ.setT (.reg 1) (some (μ.heap (b.toNat + off)))).setT (.spill p) (some (μ.heap (b.toNat + off))),
      μ.heap (b.toNat + off), ?_, by rw [hv, H.mem], by simp, by simp [jumpReg, TEMP_eq], rfl, rfl,
      fun u hu hT => by rw [TEMP_eq] at hT; simp [hu, hT]⟩
    simp [loadFieldCode, mFwd_cons, mFwd_nil, mcont, mexecC, mexec, hb0, hmo, maddr, hbo, hb2, hvb, ha, TEMP_eq,
      STACK_eq, regOpnd1]

/-- the code of `share_block` for a pointer in register `r` (label `l`) -/
def shareCode (r : Nat) (l : String) : List Code :=
  [.CMPI r 0, .JEL l, .COMMENT "####increment refcount", .ADDIM r 0 1, .LAB l]

theorem shareBlock_reg_run (r k : Nat) :
    (shareBlock (.reg r)).run k = .ok (shareCode r (labName (k + 1)), k + 1) := rfl

theorem labsIn_shareCode (r k : Nat) : LabsIn (shareCode r (labName (k + 1))) k (k + 1) := by
  intro l hl
  simp only [shareCode, List.mem_cons, reduceCtorEq, false_or, Code.LAB.injEq, List.not_mem_nil, or_false] at hl
  exact ⟨k + 1, hl, by omega, by omega⟩

/-- `share_block` on the view, pointer in ANY register (also TEMP): one more reference -/
theorem m_share1 (C : HeapCfgOK c) (H : HRelM c μ h) {r : Nat} (h1 : 1 ≤ r) (h2 : r < 16) {p : Word}
    (hv : μ.val (.reg r) = some p) (hop : Scc.Heap.shareBlock h p.toNat 1 = .ok h')
    (hno : p ≠ 0 → h.mem.get p.toNat + 1 < 2 ^ 64) (l : String) :
    ∃ μ', mFwd c (shareCode r l) μ = some (μ', .next) ∧ HRelM c μ' h' ∧ μ'.val = μ.val := by
  have hro : regOpnd r = some (.reg r) := regOpnd_of ⟨h1, h2⟩
  have hr0 : ¬ r = 0 := by omega
  by_cases hp : p = 0
  · subst hp
    have : h' = h := by
      simp [Scc.Heap.shareBlock] at hop
      exact hop.symm
    subst this
    refine ⟨μ.setF (some (0, 0)), ?_, H.setF _, rfl⟩
    simp [shareCode, mFwd_cons, mFwd_nil, mcont, mexecC, mexec, hro, hv, skipTo, fitsI32]
  · have hp' : p.toNat ≠ 0 := fun e => hp (BitVec.eq_of_toNat_eq (by simpa using e))
    have hpz : ¬ p = 0#64 := hp
    unfold Scc.Heap.shareBlock at hop
    rw [if_neg hp'] at hop
    cases hrd : Scc.Heap.rd h p.toNat with
    | error f => simp [hrd] at hop
    | ok cnt =>
      simp only [hrd] at hop
      obtain ⟨hok, hcnt⟩ := rd_eq_ok.1 hrd
      obtain ⟨_, rfl⟩ := wr_eq_ok.1 hop
      have ha : haddr c p 0 = some p.toNat := haddr_ok0 C H hok
      have hw : (μ.heap p.toNat + BitVec.ofInt 64 1).toNat = cnt + 1 := by
        have := toNat_add_ofInt_nat (μ.heap p.toNat) 1 (by rw [← H.mem]; exact hno hp)
        rw [hcnt, H.mem]; simpa using this
      refine ⟨(μ.setH p.toNat (μ.heap p.toNat + BitVec.ofInt 64 1)).setF none, ?_, ?_, rfl⟩
      · simp [shareCode, mFwd_cons, mFwd_nil, mcont, mexecC, mexec, hro, hv, skipTo, fitsI32, hpz, hr0, maddr,
          h1, h2, ha]
      · have := (H.setH p.toNat (μ.heap p.toNat + BitVec.ofInt 64 1)).setF none
        rw [hw] at this
        exact this

end Prim

/-! ## load_value -/

/-- memory.rs LoadMode ↦ the model's -/
def modeMap : LoadMode → Scc.Heap.LoadMode
  | .release => .release
  | .share => .share

/-- the model's kind of a variable: `true` = it has a pointer part (not `ext`) -/
def kindOf (b : Binding) : Bool := b.chi != .ext

section Value
variable {c : MachCfg} {μ : MState} {h h' : Scc.Heap.HState}

theorem posTemp_odd_ne {n mbr : Nat} (hme : mbr % 2 = 0) : posTemp (2 * n + 1) ≠ .reg mbr := by
  unfold posTemp
  split
  · intro e; injection e with e; omega
  · intro e; cases e

/-- CONTRACT of `load_value`: field `off` of the block in register `mbr` (an even register ≥ 4: the
memory-block temporary of a context position, or TEMPORARY_TEMP) is loaded into the temporaries of the
variable `b` at position `|ctx|`; in share mode a pointer child gets one more reference.  The first
temporary of `b` may be `mbr` itself (then this is the last access to the block). -/
theorem m_loadValue (C : HeapCfgOK c) (H : HRelM c μ h) {b : Binding} {ctx : Ctx}
    (hcap : 2 * ctx.length + 1 < 267) {mbr : Nat} (hm1 : 4 ≤ mbr) (hm2 : mbr < 16) (hme : mbr % 2 = 0)
    {bw : Word} (hvb : μ.val (.reg mbr) = some bw) {off : Nat} (ho : off ≤ 1000) {mode : LoadMode}
    {v : Scc.Heap.Field} (hop : Scc.Heap.loadValue h (kindOf b) bw.toNat off (modeMap mode) = .ok (h', v))
    (hno : mode = .share → ∀ a, h'.mem.get a < 2 ^ 64) (k : Nat) :
    ∃ code k', (loadValue b ctx mbr off mode).run k = .ok (code, k') ∧ k ≤ k' ∧ LabsIn code k k' ∧
      ∃ μ', mFwd c code μ = some (μ', .next) ∧ HRelM c μ' h' ∧ FieldAt μ' ctx.length b v ∧
        (∀ u, u ≠ .reg TEMP → u ≠ posTemp (2 * ctx.length) → u ≠ posTemp (2 * ctx.length + 1) →
          μ'.val u = μ.val u) := by
  have hs : Scc.Heap.sndOff off < 2 ^ 31 := by simp [Scc.Heap.sndOff, Scc.Heap.fieldOffset]; omega
  have hfo : Scc.Heap.fstOff off < 2 ^ 31 := by simp [Scc.Heap.fstOff, Scc.Heap.fieldOffset]; omega
  have hcap0 : 2 * ctx.length < 267 := by omega
  have hmT : Temporary.reg mbr ≠ .reg TEMP := fun e => by injection e with e; rw [TEMP_eq] at e; omega
  have hmS : Temporary.reg mbr ≠ posTemp (2 * ctx.length + 1) := fun e => posTemp_odd_ne hme e.symm
  obtain ⟨s1, s2, s3⟩ := posTemp_ne_low hcap
  obtain ⟨f1, f2, f3⟩ := posTemp_ne_low hcap0
  have hsf : posTemp (2 * ctx.length + 1) ≠ posTemp (2 * ctx.length) := fun e => by
    have := posTemp_inj.1 e; omega
  unfold loadValue
  rw [genm_bind (loadField_run .snd ctx mbr off k (by simpa [TempNum.toNat] using hcap))]
  simp only [Scc.Heap.loadValue] at hop
  cases hr1 : Scc.Heap.rd h (bw.toNat + Scc.Heap.sndOff off) with
  | error e => simp [hr1] at hop
  | ok wv =>
    simp only [hr1] at hop
    obtain ⟨μ1, w, x1, ew, v1, _, hp1, _, F1⟩ := m_loadFieldCode C H (tempOK_posTemp hcap) (by omega) hm2 hvb hs hr1
    have H1 : HRelM c μ1 h := H.of_frame hp1 (F1 _ (Ne.symm s2) (by simp [HEAP_eq, TEMP_eq]))
      (F1 _ (Ne.symm s3) (by simp [FREE_eq, TEMP_eq]))
    rw [fieldOffset_snd]
    simp only [TempNum.toNat]
    by_cases hχ : (b.chi == .ext) = true
    · -- an integer
      have hk : kindOf b = false := by simp [kindOf, bne, hχ]
      have hne : (b.chi != .ext) = false := hk
      simp only [hk, Bool.false_eq_true, if_false, Except.ok.injEq, Prod.mk.injEq] at hop
      obtain ⟨rfl, rfl⟩ := hop
      simp only [hne, Bool.false_eq_true, if_false]
      refine ⟨_, k, genm_pure _ k, Nat.le_refl _, (noLab_loadFieldCode _ _ _).labsIn _ _, μ1, x1, H1, ?_,
        fun u hT _ hs => F1 u hs hT⟩
      unfold FieldAt
      rw [if_pos hχ]
      exact ⟨w, by rw [ew], v1⟩
    · -- a pointer and a word
      have hk : kindOf b = true := by
        simp only [kindOf, bne]
        cases hb : (b.chi == .ext)
        · rfl
        · exact absurd hb hχ
      have hne : (b.chi != .ext) = true := hk
      simp only [hk, if_true] at hop
      simp only [hne, if_true]
      rw [genm_bind (loadField_run .fst ctx mbr off k (by simp [TempNum.toNat]; omega))]
      rw [genm_bind (freshTemporary_run k (by simp [TempNum.toNat]; omega))]
      simp only [TempNum.toNat, Nat.add_zero]
      rw [fieldOffset_fst]
      cases hr2 : Scc.Heap.rd h (bw.toNat + Scc.Heap.fstOff off) with
      | error e => simp [hr2] at hop
      | ok pv =>
        simp only [hr2] at hop
        have hvb1 : μ1.val (.reg mbr) = some bw := by rw [F1 _ hmS hmT]; exact hvb
        obtain ⟨μ2, p, x2, ep, v2, v2j, hp2, _, F2⟩ :=
          m_loadFieldCode C H1 (tempOK_posTemp hcap0) (by omega) hm2 hvb1 hfo hr2
        have H2 : HRelM c μ2 h := H1.of_frame hp2 (F2 _ (Ne.symm f2) (by simp [HEAP_eq, TEMP_eq]))
          (F2 _ (Ne.symm f3) (by simp [FREE_eq, TEMP_eq]))
        have v2s : μ2.val (posTemp (2 * ctx.length + 1)) = some w := by rw [F2 _ hsf s1]; exact v1
        have hfr2 : ∀ u, u ≠ .reg TEMP → u ≠ posTemp (2 * ctx.length) → u ≠ posTemp (2 * ctx.length + 1) →
            μ2.val u = μ.val u := fun u hT hf hs => by rw [F2 u hf hT, F1 u hs hT]
        have hFA : ∀ μ' : MState, μ'.val = μ2.val → FieldAt μ' ctx.length b (.ptr pv wv) := by
          intro μ' e
          unfold FieldAt
          rw [if_neg hχ, e]
          exact ⟨p, w, by rw [ep, ew], v2, v2s⟩
        have hjr := jumpReg_bounds (tempOK_posTemp hcap0)
        cases mode with
        | release =>
          simp only [modeMap, Except.ok.injEq, Prod.mk.injEq] at hop
          obtain ⟨rfl, rfl⟩ := hop
          simp only [reduceCtorEq, if_false]
          exact ⟨_, k, genm_pure _ k, Nat.le_refl _,
            ((noLab_loadFieldCode _ _ _).append (noLab_loadFieldCode _ _ _)).labsIn _ _, μ2,
            mFwd_seq c x1 x2, H2, hFA μ2 rfl, hfr2⟩
        | share =>
          simp only [modeMap] at hop
          cases hsh : Scc.Heap.shareBlock h pv 1 with
          | error e => simp [hsh] at hop
          | ok s1 =>
            simp only [hsh, Except.ok.injEq, Prod.mk.injEq] at hop
            obtain ⟨rfl, rfl⟩ := hop
            simp only [if_true]
            change ∃ code k', StateT.run (do
                let c3 ← shareBlock (Temporary.reg (jumpReg (posTemp (2 * ctx.length))))
                pure (loadFieldCode (posTemp (2 * ctx.length + 1)) mbr ↑(Scc.Heap.sndOff off) ++
                  loadFieldCode (posTemp (2 * ctx.length)) mbr ↑(Scc.Heap.fstOff off) ++ c3)) k =
              Except.ok (code, k') ∧ _
            rw [genm_bind (shareBlock_reg_run _ k)]
            rw [← ep] at hsh
            have hno' : p ≠ 0 → h.mem.get p.toNat + 1 < 2 ^ 64 := by
              intro hp
              have hp' : p.toNat ≠ 0 := fun e => hp (BitVec.eq_of_toNat_eq (by simpa using e))
              have hb := hno rfl p.toNat
              unfold Scc.Heap.shareBlock at hsh
              rw [if_neg hp'] at hsh
              cases hrd : Scc.Heap.rd h p.toNat with
              | error f => simp [hrd] at hsh
              | ok cnt =>
                simp only [hrd] at hsh
                obtain ⟨_, hc⟩ := rd_eq_ok.1 hrd
                obtain ⟨_, rfl⟩ := wr_eq_ok.1 hsh
                simp only [Scc.Heap.Mem.get_set, if_true] at hb
                omega
            obtain ⟨μ3, x3, H3, F3⟩ := m_share1 C H2 hjr.1 hjr.2.1 v2j hsh hno' (labName (k + 1))
            refine ⟨_, k + 1, genm_pure _ _, by omega, ?_, μ3, mFwd_seq c (mFwd_seq c x1 x2) x3, H3,
              hFA μ3 F3, fun u hT hf hs => by rw [F3]; exact hfr2 u hT hf hs⟩
            exact (((noLab_loadFieldCode _ _ _).append (noLab_loadFieldCode _ _ _)).labsIn _ _).append
              (labsIn_shareCode _ k)

end Value

end Scc.X86

/-! ## load_values -/

namespace Scc.X86
open Scc.AxCut
open Scc.Backend (GenM TempNum freshLabel)

/-- in share mode the model only increments words -/
theorem shareBlock_mono {s s' : Scc.Heap.HState} {p n : Nat} (h : Scc.Heap.shareBlock s p n = .ok s') :
    ∀ a, s.mem.get a ≤ s'.mem.get a := by
  intro a
  unfold Scc.Heap.shareBlock at h
  split at h
  · cases h; exact Nat.le_refl _
  · cases hrd : Scc.Heap.rd s p with
    | error f => simp [hrd] at h
    | ok cnt =>
      simp only [hrd] at h
      obtain ⟨_, hc⟩ := rd_eq_ok.1 hrd
      obtain ⟨_, rfl⟩ := wr_eq_ok.1 h
      simp only [Scc.Heap.Mem.get_set]
      split
      · rename_i e; subst e; omega
      · exact Nat.le_refl _

theorem loadValue_mono {s s' : Scc.Heap.HState} {kd : Bool} {blk off : Nat} {v : Scc.Heap.Field}
    (h : Scc.Heap.loadValue s kd blk off .share = .ok (s', v)) : ∀ a, s.mem.get a ≤ s'.mem.get a := by
  simp only [Scc.Heap.loadValue] at h
  cases hr1 : Scc.Heap.rd s (blk + Scc.Heap.sndOff off) with
  | error e => simp [hr1] at h
  | ok w =>
    simp only [hr1] at h
    cases kd with
    | false =>
      simp only [Bool.false_eq_true, if_false, Except.ok.injEq, Prod.mk.injEq] at h
      obtain ⟨rfl, _⟩ := h
      exact fun _ => Nat.le_refl _
    | true =>
      simp only [if_true] at h
      cases hr2 : Scc.Heap.rd s (blk + Scc.Heap.fstOff off) with
      | error e => simp [hr2] at h
      | ok p =>
        simp only [hr2] at h
        cases hsh : Scc.Heap.shareBlock s p 1 with
        | error e => simp [hsh] at h
        | ok s1 =>
          simp only [hsh, Except.ok.injEq, Prod.mk.injEq] at h
          obtain ⟨rfl, _⟩ := h
          exact shareBlock_mono hsh

theorem loadValuesRev_mono {blk : Nat} : ∀ (ks : List Bool) (ff : Nat) (acc : List Scc.Heap.Field)
    (s s' : Scc.Heap.HState) (vs : List Scc.Heap.Field),
    Scc.Heap.loadValuesRev s blk .share ks ff acc = .ok (s', vs) → ∀ a, s.mem.get a ≤ s'.mem.get a := by
  intro ks
  induction ks with
  | nil =>
    intro ff acc s s' vs h
    simp only [Scc.Heap.loadValuesRev, Except.ok.injEq, Prod.mk.injEq] at h
    obtain ⟨rfl, _⟩ := h
    exact fun _ => Nat.le_refl _
  | cons kd rest ih =>
    intro ff acc s s' vs h
    cases ff with
    | zero => simp [Scc.Heap.loadValuesRev] at h
    | succ ff =>
      simp only [Scc.Heap.loadValuesRev] at h
      cases hlv : Scc.Heap.loadValue s kd blk ff .share with
      | error e => simp [hlv] at h
      | ok r =>
        obtain ⟨s1, v⟩ := r
        simp only [hlv] at h
        exact fun a => Nat.le_trans (loadValue_mono hlv a) (ih ff (v :: acc) s1 s' vs h a)

section Values
variable {c : MachCfg}

/-- the `pop` loop of `load_values`, on the reversed list -/
theorem m_loadValuesLoop (C : HeapCfgOK c) {existing : Ctx} {mbr : Nat} (hm1 : 4 ≤ mbr) (hm2 : mbr < 16)
    (hme : mbr % 2 = 0) {bw : Word} {mode : LoadMode}
    (hmb : ∀ j, 1 ≤ j → posTemp (2 * (existing.length + j)) ≠ .reg mbr) :
    ∀ (bsRev : List Binding) (ff : Nat) (acc : List Scc.Heap.Field) (μ : MState) (h h' : Scc.Heap.HState)
      (vs : List Scc.Heap.Field) (k : Nat), HRelM c μ h → (bsRev ≠ [] → μ.val (.reg mbr) = some bw) →
    2 * (existing.length + bsRev.length) ≤ 267 → ff ≤ 1000 →
    Scc.Heap.loadValuesRev h bw.toNat (modeMap mode) (bsRev.map kindOf) ff acc = .ok (h', vs) →
    (mode = .share → ∀ a, h'.mem.get a < 2 ^ 64) →
    ∃ code k', (loadValuesLoop existing mbr mode bsRev ff).run k = .ok (code, k') ∧ k ≤ k' ∧
      LabsIn code k k' ∧
      ∃ μ' valsRev, mFwd c code μ = some (μ', .next) ∧ HRelM c μ' h' ∧ vs = valsRev.reverse ++ acc ∧
        EnvFieldsRev μ' existing.length bsRev valsRev ∧
        (∀ u, u ≠ .reg TEMP →
          (∀ m, 2 * existing.length ≤ m → m < 2 * (existing.length + bsRev.length) → u ≠ posTemp m) →
          μ'.val u = μ.val u) := by
  intro bsRev
  induction bsRev with
  | nil =>
    intro ff acc μ h h' vs k H _ _ _ hop _
    simp only [List.map_nil, Scc.Heap.loadValuesRev, Except.ok.injEq, Prod.mk.injEq] at hop
    obtain ⟨rfl, rfl⟩ := hop
    exact ⟨[], k, rfl, Nat.le_refl _, LabsIn.nil _ _, μ, [], mFwd_nil c μ, H, rfl, trivial, fun _ _ _ => rfl⟩
  | cons b rest ih =>
    intro ff acc μ h h' vs k H hvb hcap hff hop hno
    simp only [List.length_cons] at hcap
    cases ff with
    | zero => simp [Scc.Heap.loadValuesRev] at hop
    | succ ff =>
      simp only [List.map_cons, Scc.Heap.loadValuesRev] at hop
      cases hlv : Scc.Heap.loadValue h (kindOf b) bw.toNat ff (modeMap mode) with
      | error e => simp [hlv] at hop
      | ok r =>
        obtain ⟨s1, v⟩ := r
        simp only [hlv] at hop
        have hlen : (existing ++ rest.reverse).length = existing.length + rest.length := by simp
        have hno1 : mode = .share → ∀ a, s1.mem.get a < 2 ^ 64 := by
          intro hm a
          subst hm
          exact Nat.lt_of_le_of_lt (loadValuesRev_mono _ _ _ _ _ _ hop a) (hno rfl a)
        obtain ⟨c1, k1, hr1, hk1, hl1, μ1, x1, H1, hFA, F1⟩ := m_loadValue C H (b := b)
          (ctx := existing ++ rest.reverse) (by rw [hlen]; omega) hm1 hm2 hme (hvb (by simp)) (by omega) hlv hno1 k
        rw [hlen] at hFA F1
        have hvb1 : rest ≠ [] → μ1.val (.reg mbr) = some bw := by
          intro hr
          have hpos : 1 ≤ rest.length := List.length_pos_iff.mpr hr
          rw [F1 _ (fun e => by injection e with e; rw [TEMP_eq] at e; omega)
            (Ne.symm (hmb _ hpos)) (fun e => posTemp_odd_ne hme e.symm)]
          exact hvb (by simp)
        obtain ⟨c2, k2, hr2, hk2, hl2, μ2, valsRev, x2, H2, hvs, hE2, F2⟩ :=
          ih ff (v :: acc) μ1 s1 h' vs k1 H1 hvb1 (by omega) (by omega) hop hno
        refine ⟨c1 ++ c2, k2, ?_, by omega, (hl1.mono (Nat.le_refl _) hk2).append (hl2.mono hk1 (Nat.le_refl _)),
          μ2, v :: valsRev, mFwd_seq c x1 x2, H2, ?_, ⟨?_, hE2⟩, ?_⟩
        · simp only [loadValuesLoop]
          rw [genm_bind (show (pred1 (ff + 1)).run k = .ok (ff, k) from rfl), genm_bind hr1, genm_bind hr2]
          rfl
        · rw [hvs]; simp
        · refine hFA.congr ?_ ?_
          · exact F2 _ (posTemp_ne_low (by omega)).1 (fun m _ h2 e => by have := posTemp_inj.1 e; omega)
          · exact F2 _ (posTemp_ne_low (by omega)).1 (fun m _ h2 e => by have := posTemp_inj.1 e; omega)
        · intro u hT hu
          simp only [List.length_cons] at hu
          rw [F2 u hT (fun m h1 h2 => hu m h1 (by omega)),
            F1 u hT (hu _ (by omega) (by omega)) (hu _ (by omega) (by omega))]

end Values
end Scc.X86

/-! ## load_values, the block part of load_fields -/

namespace Scc.X86
open Scc.AxCut
open Scc.Backend (GenM TempNum freshLabel)

theorem envFields_of_rev_aux {μ : MState} (base : Nat) : ∀ (n : Nat) (Γ : Ctx) (fsRev : List Scc.Heap.Field),
    Γ.length = n → EnvFieldsRev μ base Γ.reverse fsRev → EnvFields μ base Γ fsRev.reverse := by
  intro n
  induction n with
  | zero =>
    intro Γ fsRev hn h
    have : Γ = [] := List.eq_nil_of_length_eq_zero hn
    subst this
    cases fsRev with
    | nil => trivial
    | cons _ _ => exact h.elim
  | succ n ih =>
    intro Γ fsRev hn h
    rcases List.eq_nil_or_concat Γ with rfl | ⟨bs, b, rfl⟩
    · simp at hn
    rw [List.concat_eq_append] at h hn ⊢
    rw [List.reverse_append] at h
    cases fsRev with
    | nil => exact h.elim
    | cons f fs =>
      obtain ⟨h1, h2⟩ := h
      rw [List.reverse_cons]
      exact EnvFields.snoc (ih bs fs (by simpa using hn) h2) (by simpa using h1)

theorem envFields_of_rev {μ : MState} (base : Nat) (Γ : Ctx) (fsRev : List Scc.Heap.Field)
    (h : EnvFieldsRev μ base Γ.reverse fsRev) : EnvFields μ base Γ fsRev.reverse :=
  envFields_of_rev_aux base Γ.length Γ fsRev rfl h

theorem EnvFields.append {μ : MState} : ∀ {n : Nat} {Γ1 Γ2 : Ctx} {f1 f2 : List Scc.Heap.Field},
    EnvFields μ n Γ1 f1 → EnvFields μ (n + Γ1.length) Γ2 f2 → EnvFields μ n (Γ1 ++ Γ2) (f1 ++ f2)
  | _, [], _, [], _, _, h2 => by simpa using h2
  | _, [], _, _ :: _, _, h1, _ => h1.elim
  | _, _ :: _, _, [], _, h1, _ => h1.elim
  | n, _ :: bs, _, _ :: _, _, h1, h2 =>
    ⟨h1.1, EnvFields.append h1.2 (by
      rw [List.length_cons, show n + (bs.length + 1) = n + 1 + bs.length by omega] at h2; exact h2)⟩

section Block
variable {c : MachCfg}

/-- CONTRACT of `load_values` -/
theorem m_loadValues (C : HeapCfgOK c) {μ : MState} {h h' : Scc.Heap.HState} (H : HRelM c μ h)
    {toLoad existing : Ctx} {mbr : Nat} (hm1 : 4 ≤ mbr) (hm2 : mbr < 16) (hme : mbr % 2 = 0) {bw : Word}
    (hvb : μ.val (.reg mbr) = some bw) {mode : LoadMode}
    (hmb : ∀ j, 1 ≤ j → posTemp (2 * (existing.length + j)) ≠ .reg mbr)
    (hcap : 2 * (existing.length + toLoad.length) ≤ 267) {ff : Nat} (hff : ff ≤ 1000)
    {vs : List Scc.Heap.Field}
    (hop : Scc.Heap.loadValues h (toLoad.map kindOf) bw.toNat ff (modeMap mode) = .ok (h', vs))
    (hno : mode = .share → ∀ a, h'.mem.get a < 2 ^ 64) (k : Nat) :
    ∃ code k', (loadValues toLoad existing mbr ff mode).run k = .ok (code, k') ∧ k ≤ k' ∧
      LabsIn code k k' ∧
      ∃ μ', mFwd c code μ = some (μ', .next) ∧ HRelM c μ' h' ∧ EnvFields μ' existing.length toLoad vs ∧
        (∀ u, u ≠ .reg TEMP →
          (∀ m, 2 * existing.length ≤ m → m < 2 * (existing.length + toLoad.length) → u ≠ posTemp m) →
          μ'.val u = μ.val u) := by
  unfold Scc.Heap.loadValues at hop
  rw [← List.map_reverse] at hop
  obtain ⟨cs, k', hr, hk, hl, μ', valsRev, x, H', hvs, hE, F⟩ := m_loadValuesLoop C (existing := existing) hm1 hm2
    hme hmb toLoad.reverse ff [] μ h h' vs k H (fun _ => hvb) (by simpa using hcap) hff hop hno
  rw [List.append_nil] at hvs
  subst hvs
  refine ⟨[.COMMENT "###load values"] ++ cs, k', ?_, hk, (noLab_comment _).labsIn _ _ |>.append hl, μ',
    mFwd_seq c (mFwd_comment c _ μ) x, H', envFields_of_rev _ _ _ hE, fun u hT hu => F u hT (by simpa using hu)⟩
  unfold loadValues
  rw [genm_bind hr]
  rfl

end Block
end Scc.X86

namespace Scc.X86
open Scc.AxCut
open Scc.Backend (GenM TempNum freshLabel)

section Block2
variable {c : MachCfg}

/-- the number of extra temporaries a block of position `pos` writes beyond its values: the link -/
def linkSlot (pos : BlockPosition) : Nat := if pos = .other then 1 else 0

/-- CONTRACT of the block part of `load_fields` (release the block / load the link / load the values)
for the memory block in register `mbr` -/
theorem m_loadFieldsBlock (C : HeapCfgOK c) {μ : MState} {s1 s2 s3 : Scc.Heap.HState} (H : HRelM c μ s1)
    {mbr : Nat} (hm1 : 4 ≤ mbr) (hm2 : mbr < 16) (hme : mbr % 2 = 0) {wb : Word}
    (hvb : μ.val (.reg mbr) = some wb) {toLoadNext ctxAll ctxRest : Ctx}
    (hlenAll : ctxAll.length = ctxRest.length + toLoadNext.length) (hne : toLoadNext ≠ [])
    (hcap : 2 * ctxAll.length ≤ 267) {pos : BlockPosition} {mode : LoadMode}
    (hmb : ∀ j, 1 ≤ j → posTemp (2 * (ctxRest.length + j)) ≠ .reg mbr)
    (hrel : (match modeMap mode with
      | .release => Scc.Heap.releaseBlock s1 wb.toNat
      | .share => .ok s1) = .ok s2) {link : Nat}
    (hlink : (if posMap pos = .other then Scc.Heap.rd s2 (wb.toNat + Scc.Heap.fstOff (Scc.Heap.fieldsPerBlock - 1))
      else .ok 0) = .ok link) {vals2 : List Scc.Heap.Field}
    (hlv : Scc.Heap.loadValues s2 (toLoadNext.map kindOf) wb.toNat
      (Scc.Heap.fieldsPerBlock - (posMap pos).toNat) (modeMap mode) = .ok (s3, vals2))
    (hno : mode = .share → ∀ a, s3.mem.get a < 2 ^ 64) (k : Nat) :
    ∃ code k', (loadFieldsBlock mbr toLoadNext ctxAll ctxRest pos mode).run k = .ok (code, k') ∧ k ≤ k' ∧
      LabsIn code k k' ∧
      ∃ μ', mFwd c code μ = some (μ', .next) ∧ HRelM c μ' s3 ∧
        EnvFields μ' ctxRest.length toLoadNext vals2 ∧
        (pos = .other → ∃ lw, μ'.val (posTemp (2 * ctxAll.length)) = some lw ∧ lw.toNat = link) ∧
        (∀ u, u ≠ .reg TEMP → u ≠ .reg HEAP →
          (∀ m, 2 * ctxRest.length ≤ m → m < 2 * ctxAll.length + linkSlot pos → u ≠ posTemp m) →
          μ'.val u = μ.val u) := by
  have hmT : Temporary.reg mbr ≠ .reg TEMP := fun e => by injection e with e; rw [TEMP_eq] at e; omega
  have hmH : Temporary.reg mbr ≠ .reg HEAP := fun e => by injection e with e; rw [HEAP_eq] at e; omega
  have hnpos : 1 ≤ toLoadNext.length := List.length_pos_iff.mpr hne
  -- (1) release
  have step1 : ∃ c1 μ1, c1 = (if mode = .release then [Code.COMMENT "###release block"] ++ releaseBlock mbr else []) ∧
      NoLab c1 ∧ mFwd c c1 μ = some (μ1, .next) ∧ HRelM c μ1 s2 ∧
      (∀ u, u ≠ .reg HEAP → μ1.val u = μ.val u) := by
    cases mode with
    | share =>
      simp only [modeMap, Except.ok.injEq] at hrel
      subst hrel
      exact ⟨[], μ, by simp, noLab_nil, mFwd_nil c μ, H, fun _ _ => rfl⟩
    | release =>
      simp only [modeMap, Scc.Heap.releaseBlock] at hrel
      cases hw : Scc.Heap.wr s1 wb.toNat s1.heap with
      | error e => simp [hw] at hrel
      | ok sx =>
        simp only [hw, Except.ok.injEq] at hrel
        subst hrel
        obtain ⟨hok, rfl⟩ := wr_eq_ok.1 hw
        obtain ⟨wH, hH, eH⟩ := H.heap
        have ha : haddr c wb 0 = some wb.toNat := haddr_ok0 C H hok
        have hro : regOpnd mbr = some (.reg mbr) := regOpnd_of ⟨by omega, hm2⟩
        have hm0 : ¬ mbr = 0 := by omega
        rw [HEAP_eq] at hH
        refine ⟨[Code.COMMENT "###release block"] ++ releaseBlock mbr,
          (μ.setH wb.toNat wH).setT (.reg 2) (some wb), by simp, ?_, ?_, ?_, ?_⟩
        · intro l; simp [releaseBlock]
        · simp [releaseBlock, mFwd_cons, mFwd_nil, mcont, mexecC, mexec, hro, hm0, maddr, hm2, hvb, ha, hH,
            next_zero, HEAP_eq, regOpnd2, show 1 ≤ mbr by omega]
        · obtain ⟨wf, hwf, ewf⟩ := H.free
          have := H.setH wb.toNat wH
          rw [eH] at this
          exact ⟨this.base, this.limit, this.mem, ⟨wb, by simp [HEAP_eq], rfl⟩,
            ⟨wf, by rw [FREE_eq] at hwf ⊢; simp [hwf], ewf⟩⟩
        · intro u hu; rw [HEAP_eq] at hu; simp [hu]
  obtain ⟨c1, μ1, hc1, hn1, x1, H1, F1⟩ := step1
  have hvb1 : μ1.val (.reg mbr) = some wb := by rw [F1 _ hmH]; exact hvb
  -- (2) the link
  have hcl : 2 * ctxAll.length < 267 := by omega
  have hlt : posTemp (2 * ctxAll.length) ≠ .reg mbr := by
    have := hmb toLoadNext.length hnpos
    rwa [← hlenAll] at this
  obtain ⟨l1, l2, l3⟩ := posTemp_ne_low hcl
  have step2 : ∃ c2 μ2, c2 = (if pos = BlockPosition.other then
        [Code.COMMENT "###load link to next block"] ++
          loadFieldCode (posTemp (2 * ctxAll.length)) mbr (fieldOffset .fst (FIELDS_PER_BLOCK - 1))
      else []) ∧ NoLab c2 ∧ mFwd c c2 μ1 = some (μ2, .next) ∧ HRelM c μ2 s2 ∧
      (pos = .other → ∃ lw, μ2.val (posTemp (2 * ctxAll.length)) = some lw ∧ lw.toNat = link) ∧
      (∀ u, u ≠ .reg TEMP → (pos = .other → u ≠ posTemp (2 * ctxAll.length)) → μ2.val u = μ1.val u) := by
    cases pos with
    | last =>
      exact ⟨[], μ1, rfl, noLab_nil, mFwd_nil c μ1, H1, (fun e => by cases e), fun _ _ _ => rfl⟩
    | other =>
      simp only [posMap, if_true] at hlink
      obtain ⟨μ2, lw, x2, elw, v2, _, hp2, _, F2⟩ := m_loadFieldCode C H1 (tempOK_posTemp hcl) (by omega) hm2 hvb1
        (off := Scc.Heap.fstOff (Scc.Heap.fieldsPerBlock - 1)) (by decide) hlink
      refine ⟨_, μ2, rfl, ?_, ?_, H1.of_frame hp2 (F2 _ (Ne.symm l2) (by simp [HEAP_eq, TEMP_eq]))
          (F2 _ (Ne.symm l3) (by simp [FREE_eq, TEMP_eq])), fun _ => ⟨lw, v2, elw⟩,
        fun u hT hu => F2 u (hu rfl) hT⟩
      · rw [if_pos rfl]; exact (noLab_comment _).append (noLab_loadFieldCode _ _ _)
      · rw [if_pos rfl]
        refine mFwd_seq c (mFwd_comment c _ μ1) ?_
        rw [fieldOffset_fst]
        exact x2
  obtain ⟨c2, μ2, hc2, hn2, x2, H2, hlk, F2⟩ := step2
  have hvb2 : μ2.val (.reg mbr) = some wb := by rw [F2 _ hmT (fun _ => Ne.symm hlt)]; exact hvb1
  -- (3) the values
  rw [← fpb_eq] at hlv
  obtain ⟨c3, k', hr3, hk3, hl3, μ3, x3, H3, hE3, F3⟩ := m_loadValues C H2 (existing := ctxRest) hm1 hm2 hme hvb2 hmb
    (by rw [← hlenAll]; exact hcap) (ff := FIELDS_PER_BLOCK - pos.toNat) (by cases pos <;> decide) hlv hno k
  refine ⟨c1 ++ c2 ++ c3, k', ?_, hk3, ((hn1.labsIn _ _).append (hn2.labsIn _ _)).append hl3, μ3,
    mFwd_seq c (mFwd_seq c x1 x2) x3, H3, hE3, ?_, ?_⟩
  · unfold loadFieldsBlock
    rw [hc1, hc2]
    cases pos with
    | last =>
      simp only [reduceCtorEq, if_false]
      rw [genm_bind (genm_pure _ k), genm_bind hr3]
      rfl
    | other =>
      simp only [if_true]
      rw [genm_bind (loadField_run .fst ctxAll mbr (FIELDS_PER_BLOCK - 1) k (by simp [TempNum.toNat]; omega)),
        genm_bind (genm_pure _ k), genm_bind hr3]
      rfl
  · intro hp
    obtain ⟨lw, hlw, elw⟩ := hlk hp
    refine ⟨lw, ?_, elw⟩
    rw [F3 _ l1 (fun m _ h2 e => by have := posTemp_inj.1 e; omega)]
    exact hlw
  · intro u hT hH hu
    rw [F3 u hT (fun m h1 h2 => hu m h1 (by omega)), F2 u hT (fun hp => hu _ (by omega) (by simp [linkSlot, hp])),
      F1 u hH]

end Block2
end Scc.X86

/-! ## load_fields: the recursion over the blocks of a chain -/

namespace Scc.X86
open Scc.AxCut
open Scc.Backend (GenM TempNum freshLabel)

/-- the LOGICAL view: while TEMPORARY_TEMP (rax, register 4) is evacuated (`rf`, the `register_freed`
flag of memory.rs), its contents are in the spill slot SPILL_TEMP -/
def lview (μ : MState) (rf : Bool) : MState :=
  { μ with val := fun u => if rf = true ∧ u = .reg 4 then μ.val (.spill 0) else μ.val u }

theorem lview_false (μ : MState) : lview μ false = μ := by
  cases μ; simp [lview]

theorem lview_val_true (μ : MState) (u : Temporary) :
    (lview μ true).val u = if u = .reg 4 then μ.val (.spill 0) else μ.val u := by
  simp [lview]

theorem lview_val_ne (μ : MState) (rf : Bool) {u : Temporary} (h : u ≠ .reg 4) :
    (lview μ rf).val u = μ.val u := by
  simp [lview, h]

/-- the flag after a level: at the last (outermost) block the register has been restored -/
def outFlag (rf' : Bool) : BlockPosition → Bool
  | .last => false
  | .other => rf'

theorem posTemp_eq_reg4 {m : Nat} : posTemp m = .reg 4 ↔ m = 0 := by
  have : posTemp 0 = .reg 4 := rfl
  rw [← this, posTemp_inj]

theorem posTemp_ne_spill0 (m : Nat) : posTemp m ≠ .spill 0 := by
  unfold posTemp
  split
  · intro e; cases e
  · intro e; injection e with e; omega

theorem posTemp_spill {m : Nat} (h : 12 ≤ m) : posTemp m = .spill (m - 11) := by
  unfold posTemp; rw [if_neg (by omega)]

theorem posTemp_reg {m : Nat} (h : m + 4 < 16) : posTemp m = .reg (m + 4) := by
  unfold posTemp; rw [if_pos h]

theorem heap_loadFields_nil (s : Scc.Heap.HState) (pos : Scc.Heap.BlockPosition) (mode : Scc.Heap.LoadMode)
    (p : Nat) : Scc.Heap.loadFields s [] pos mode p = .ok (s, [], p) := by
  rw [Scc.Heap.loadFields]; simp

theorem heap_loadFields_cons (s : Scc.Heap.HState) (kinds : List Bool) (hne : kinds ≠ [])
    (pos : Scc.Heap.BlockPosition) (mode : Scc.Heap.LoadMode) (p : Nat) :
    Scc.Heap.loadFields s kinds pos mode p =
      match Scc.Heap.loadFields s (kinds.take (Scc.Heap.restLength kinds.length pos)) .other mode p with
      | .error e => .error e
      | .ok (s1, vals1, blk) =>
        match (match mode with
               | .release => Scc.Heap.releaseBlock s1 blk
               | .share => .ok s1) with
        | .error e => .error e
        | .ok s2 =>
          match (if pos = .other then Scc.Heap.rd s2 (blk + Scc.Heap.fstOff (Scc.Heap.fieldsPerBlock - 1))
                 else .ok 0) with
          | .error e => .error e
          | .ok link =>
            match Scc.Heap.loadValues s2 (kinds.drop (Scc.Heap.restLength kinds.length pos)) blk
                (Scc.Heap.fieldsPerBlock - pos.toNat) mode with
            | .error e => .error e
            | .ok (s3, vals2) => .ok (s3, vals1 ++ vals2, link) := by
  rw [Scc.Heap.loadFields]; simp only [dif_neg hne]; rfl

theorem loadValues_mono {s s' : Scc.Heap.HState} {ks : List Bool} {blk ff : Nat} {vs : List Scc.Heap.Field}
    (h : Scc.Heap.loadValues s ks blk ff .share = .ok (s', vs)) : ∀ a, s.mem.get a ≤ s'.mem.get a :=
  loadValuesRev_mono _ _ _ _ _ _ h

end Scc.X86

namespace Scc.X86
open Scc.AxCut
open Scc.Backend (GenM TempNum freshLabel)

section Fields
variable {c : MachCfg}

theorem outFlag_imp {rf' : Bool} {pos : BlockPosition} (h : outFlag rf' pos = true) : rf' = true := by
  cases pos <;> simp [outFlag] at h; exact h

/-- CONTRACT of `load_fields` on the view: ANY number of fields (the recursion goes down the chain of
blocks first), release and share mode, every placement.  Stated on the logical view `lview`. -/
theorem m_loadFields (C : HeapCfgOK c) : ∀ (fuel : Nat) (toLoad existing : Ctx) (pos : BlockPosition)
    (mode : LoadMode) (rf : Bool) (p : Nat) (μ : MState) (h h' : Scc.Heap.HState)
    (vals : List Scc.Heap.Field) (link k : Nat),
    toLoad.length < fuel → HRelM c μ h → 2 * (existing.length + toLoad.length) ≤ 267 →
    (rf = true → 12 ≤ 2 * existing.length) → (pos = .last → rf = false) →
    (∃ pw, (lview μ rf).val (posTemp (2 * existing.length)) = some pw ∧ pw.toNat = p) →
    Scc.Heap.loadFields h (toLoad.map kindOf) (posMap pos) (modeMap mode) p = .ok (h', vals, link) →
    (mode = .share → ∀ a, h'.mem.get a < 2 ^ 64) →
    ∃ code rf' k', (loadFields fuel toLoad existing pos mode rf).run k = .ok ((code, rf'), k') ∧ k ≤ k' ∧
      LabsIn code k k' ∧ (rf' = true → 12 ≤ 2 * (existing.length + toLoad.length)) ∧
      ∃ μ', mFwd c code μ = some (μ', .next) ∧ HRelM c μ' h' ∧
        EnvFields (lview μ' (outFlag rf' pos)) existing.length toLoad vals ∧
        (pos = .other → ∃ lw, (lview μ' rf').val (posTemp (2 * (existing.length + toLoad.length))) = some lw ∧
          lw.toNat = link) ∧
        (∀ u, u ≠ .reg TEMP → u ≠ .reg HEAP → u ≠ .spill 0 →
          (∀ m, 2 * existing.length ≤ m → m < 2 * (existing.length + toLoad.length) + linkSlot pos →
            u ≠ posTemp m) →
          (lview μ' (outFlag rf' pos)).val u = (lview μ rf).val u) := by
  intro fuel
  induction fuel with
  | zero => intro toLoad _ _ _ _ _ _ _ _ _ _ _ hf; exact absurd hf (Nat.not_lt_zero _)
  | succ fuel ih =>
    intro toLoad existing pos mode rf p μ h h' vals link k hfuel H hcap hrf hlast hp hop hno
    simp only [loadFields]
    by_cases hne : toLoad = []
    · -- nothing (more) to load
      subst hne
      simp only [List.map_nil, heap_loadFields_nil, Except.ok.injEq, Prod.mk.injEq] at hop
      obtain ⟨rfl, rfl, rfl⟩ := hop
      simp only [List.isEmpty_nil, if_true]
      have hfl : lview μ (outFlag rf pos) = lview μ rf := by
        cases pos with
        | last => rw [hlast rfl]; rfl
        | other => rfl
      refine ⟨[], rf, k, genm_pure _ k, Nat.le_refl _, LabsIn.nil _ _, by simpa using hrf, μ, mFwd_nil c μ, H,
        trivial, fun _ => by simpa using hp, fun _ _ _ _ _ => by rw [hfl]⟩
    · have hie : toLoad.isEmpty = false := by cases toLoad <;> simp_all
      have hpos : 0 < toLoad.length := List.length_pos_iff.mpr hne
      have hkne : toLoad.map kindOf ≠ [] := by simpa using hne
      rw [heap_loadFields_cons _ _ hkne, List.length_map, ← restLength_eq] at hop
      have hrlt : restLength toLoad.length pos < toLoad.length := by
        rw [restLength_eq]; exact Scc.Heap.restLength_lt _ _ hpos
      simp only [hie, Bool.false_eq_true, if_false]
      generalize restLength toLoad.length pos = rl at hop hrlt ⊢
      have hlt2 : (toLoad.take rl).length = rl := by simp [List.length_take]; omega
      have hlt : (existing ++ toLoad.take rl).length = existing.length + rl := by simp [hlt2]
      have hla : (existing ++ toLoad).length = existing.length + toLoad.length := by simp
      have hdl : (toLoad.drop rl).length = toLoad.length - rl := by simp
      have hdne : toLoad.drop rl ≠ [] := fun e => by
        have := congrArg List.length e; simp at this; omega
      -- the deeper blocks
      cases hdeep : Scc.Heap.loadFields h ((toLoad.map kindOf).take rl) .other (modeMap mode) p with
      | error e => simp [hdeep] at hop
      | ok r1 =>
        obtain ⟨s1, vals1, blk⟩ := r1
        simp only [hdeep] at hop
        cases hrel : (match modeMap mode with
            | .release => Scc.Heap.releaseBlock s1 blk
            | .share => .ok s1) with
        | error e => simp [hrel] at hop
        | ok s2 =>
          simp only [hrel] at hop
          cases hlk : (if posMap pos = .other then
              Scc.Heap.rd s2 (blk + Scc.Heap.fstOff (Scc.Heap.fieldsPerBlock - 1)) else .ok 0) with
          | error e => simp [hlk] at hop
          | ok link' =>
            simp only [hlk] at hop
            cases hlv : Scc.Heap.loadValues s2 ((toLoad.map kindOf).drop rl) blk
                (Scc.Heap.fieldsPerBlock - (posMap pos).toNat) (modeMap mode) with
            | error e => simp [hlv] at hop
            | ok r3 =>
              obtain ⟨s3, vals2⟩ := r3
              simp only [hlv, Except.ok.injEq, Prod.mk.injEq] at hop
              obtain ⟨rfl, rfl, rfl⟩ := hop
              rw [← List.map_take] at hdeep
              rw [← List.map_drop] at hlv
              have hno1 : mode = .share → ∀ a, s1.mem.get a < 2 ^ 64 := by
                intro hm a
                subst hm
                simp only [modeMap, Except.ok.injEq] at hrel
                subst hrel
                exact Nat.lt_of_le_of_lt (loadValues_mono hlv a) (hno rfl a)
              obtain ⟨c0, rfa, k1, hr0, hk1, hl0, hrfa, μa, xa, Ha, Ea, La, Fa⟩ :=
                ih (toLoad.take rl) existing .other mode rf p μ h s1 vals1 blk k (by rw [hlt2]; omega) H
                  (by rw [hlt2]; omega) hrf (fun e => by cases e) hp hdeep hno1
              rw [hlt2] at hrfa La Fa
              obtain ⟨wb, hwb, ewb⟩ := La rfl
              simp only [outFlag] at Ea Fa
              subst ewb
              rw [genm_bind hr0, genm_bind (freshTemporary_run k1 (by rw [hlt]; simp [TempNum.toNat]; omega))]
              simp only [TempNum.toNat, Nat.add_zero, hlt]
              have hmbGen : ∀ j, 1 ≤ j → posTemp (2 * ((existing ++ toLoad.take rl).length + j)) ≠
                  posTemp (2 * (existing.length + rl)) := fun j hj e => by
                have := posTemp_inj.1 e; rw [hlt] at this; omega
              by_cases hreg : 2 * (existing.length + rl) + 4 < 16
              · -- the memory block is in a register
                have hpt := posTemp_reg hreg
                have hrfa0 : rfa = false := by
                  cases rfa with
                  | false => rfl
                  | true => have := hrfa rfl; omega
                have hrf0 : rf = false := by
                  cases rf with
                  | false => rfl
                  | true => have := hrf rfl; omega
                subst hrfa0 hrf0
                rw [lview_false] at hwb Ea
                simp only [lview_false] at Fa
                rw [hpt] at hwb
                obtain ⟨cb, k', hrb, hkb, hlb, μ', xb, H', Eb, Lb, Fb⟩ := m_loadFieldsBlock C Ha
                  (mbr := 2 * (existing.length + rl) + 4) (by omega) hreg (by omega) hwb
                  (toLoadNext := toLoad.drop rl) (ctxAll := existing ++ toLoad)
                  (ctxRest := existing ++ toLoad.take rl) (by rw [hla, hlt, hdl]; omega) hdne (by rw [hla]; exact hcap)
                  (pos := pos) (mode := mode) (fun j hj => by rw [← hpt]; exact hmbGen j hj) hrel hlk hlv hno k1
                rw [hpt]
                simp only []
                rw [genm_bind hrb]
                refine ⟨c0 ++ cb, false, k', genm_pure _ _, by omega,
                  (hl0.mono (Nat.le_refl _) hkb).append (hlb.mono hk1 (Nat.le_refl _)), (fun e => by cases e),
                  μ', mFwd_seq c xa xb, H', ?_, ?_, ?_⟩
                · have : outFlag false pos = false := by cases pos <;> rfl
                  rw [this, lview_false]
                  have e1 : EnvFields μ' existing.length (toLoad.take rl) vals1 :=
                    Ea.congr (fun m h1 h2 => by
                      rw [hlt2] at h2
                      have hm : m < 267 := by omega
                      obtain ⟨n1, n2, _⟩ := posTemp_ne_low hm
                      exact Fb _ n1 n2 (fun m' h1' _ e => by have := posTemp_inj.1 e; rw [hlt] at h1'; omega))
                  have := e1.append (by rw [hlt2, ← hlt]; exact Eb)
                  rwa [List.take_append_drop] at this
                · intro hp'
                  obtain ⟨lw, hlw, elw⟩ := Lb hp'
                  rw [lview_false, ← hla]
                  exact ⟨lw, hlw, elw⟩
                · intro u hT hH hS hu
                  have : outFlag false pos = false := by cases pos <;> rfl
                  rw [this, lview_false]
                  rw [Fb u hT hH (fun m' h1' h2' => hu m' (by rw [hlt] at h1'; omega) (by rw [hla] at h2'; exact h2'))]
                  exact Fa u hT hH hS (fun m' h1' h2' => hu m' h1' (by simp [linkSlot] at h2'; omega))
              · -- the memory block is spilled: access through TEMPORARY_TEMP
                have h12 : 12 ≤ 2 * (existing.length + rl) := by omega
                have hpt := posTemp_spill h12
                have hq1 : 1 ≤ 2 * (existing.length + rl) - 11 := by omega
                have hq2 : 2 * (existing.length + rl) - 11 < 256 := by omega
                have hmo0 : memOpnd 0 (stackOffset 0) = some (.spill 0) := memOpnd_of (show (0 : Nat) < 256 by decide)
                have hmoq : memOpnd 0 (stackOffset (2 * (existing.length + rl) - 11)) =
                    some (.spill (2 * (existing.length + rl) - 11)) := memOpnd_of (show OpndOK (.spill _) from hq2)
                rw [hpt] at hwb
                have hwb' : μa.val (.spill (2 * (existing.length + rl) - 11)) = some wb := by
                  rw [← lview_val_ne μa rfa (by simp)]; exact hwb
                -- evacuate (unless already done), fetch the block pointer
                let v4 : Option Word := (lview μa rfa).val (.reg 4)
                let μc : MState := ((if rfa then μa else μa.setT (.spill 0) (μa.val (.reg 4))).setT (.reg 4) (some wb))
                have hc4 : μc.val (.reg 4) = some wb := by simp [μc]
                have hc0 : μc.val (.spill 0) = v4 := by
                  cases rfa <;> simp [μc, v4, lview]
                have hcu : ∀ u, u ≠ .reg 4 → u ≠ .spill 0 → μc.val u = μa.val u := by
                  intro u h4 h0
                  cases rfa <;> simp [μc, h4, h0]
                have hch : μc.heap = μa.heap := by cases rfa <;> rfl
                have xc : mFwd c ((if (!rfa) = true then
                      [Code.COMMENT "###evacuate additional scratch register for memory block",
                        Code.MOVS TEMPORARY_TEMP STACK (stackOffset SPILL_TEMP)]
                    else []) ++ [Code.MOVL TEMPORARY_TEMP STACK (stackOffset (2 * (existing.length + rl) - 11))]) μa =
                    some (μc, .next) := by
                  have hTT : TEMPORARY_TEMP = 4 := rfl
                  have hST : SPILL_TEMP = 0 := rfl
                  have hq0 : ¬ 2 * (existing.length + rl) - 11 = 0 := by omega
                  cases rfa with
                  | false =>
                    simp [mFwd_cons, mFwd_nil, mcont, mexecC, mexec, hTT, hST, STACK_eq, hmo0, hmoq, regOpnd4, μc, hwb',
                      hq0]
                  | true =>
                    simp [mFwd_cons, mFwd_nil, mcont, mexecC, mexec, hTT, hST, STACK_eq, hmoq, regOpnd4, μc, hwb']
                have Hc : HRelM c μc s1 := Ha.of_frame hch (hcu _ (by simp [HEAP_eq]) (by simp))
                  (hcu _ (by simp [FREE_eq]) (by simp))
                have hmb4 : ∀ j, 1 ≤ j → posTemp (2 * ((existing ++ toLoad.take rl).length + j)) ≠ .reg 4 := by
                  intro j hj e
                  have := posTemp_eq_reg4.1 e
                  rw [hlt] at this; omega
                obtain ⟨cb, k', hrb, hkb, hlb, μd, xb, Hd, Eb, Lb, Fb⟩ := m_loadFieldsBlock C Hc
                  (mbr := TEMPORARY_TEMP) (by decide) (by decide) (by decide) hc4
                  (toLoadNext := toLoad.drop rl) (ctxAll := existing ++ toLoad)
                  (ctxRest := existing ++ toLoad.take rl) (by rw [hla, hlt, hdl]; omega) hdne (by rw [hla]; exact hcap)
                  (pos := pos) (mode := mode) hmb4 hrel hlk hlv hno k1
                -- what the block code leaves alone
                have hfd : ∀ u, u ≠ .reg TEMP → u ≠ .reg HEAP →
                    (∀ m', 2 * (existing.length + rl) ≤ m' → m' < 2 * (existing.length + toLoad.length) + linkSlot pos →
                      u ≠ posTemp m') → μd.val u = μc.val u := by
                  intro u hT hH hu
                  exact Fb u hT hH (fun m' h1' h2' => hu m' (by rw [hlt] at h1'; exact h1') (by rw [hla] at h2'; exact h2'))
                have hd4 : μd.val (.reg 4) = some wb := by
                  rw [hfd _ (by simp [TEMP_eq]) (by simp [HEAP_eq]) (fun m' h1' _ e => by
                    have := posTemp_eq_reg4.1 e.symm; omega)]
                  exact hc4
                have hd0 : μd.val (.spill 0) = v4 := by
                  rw [hfd _ (by simp) (by simp) (fun m' _ _ e => posTemp_ne_spill0 m' e.symm)]
                  exact hc0
                -- restore at the last block
                let μe : MState := if pos = .last then μd.setT (.reg 4) v4 else μd
                have xe : mFwd c (if pos = BlockPosition.last then
                      [Code.COMMENT "###restore evacuated register",
                        Code.MOVL TEMPORARY_TEMP STACK (stackOffset SPILL_TEMP)]
                    else []) μd = some (μe, .next) := by
                  have hTT : TEMPORARY_TEMP = 4 := rfl
                  have hST : SPILL_TEMP = 0 := rfl
                  cases pos with
                  | last => simp [mFwd_cons, mFwd_nil, mcont, mexecC, mexec, hTT, hST, STACK_eq, hmo0, regOpnd4, μe, hd0]
                  | other => simp [mFwd_nil, μe]
                have heh : μe.heap = μd.heap := by cases pos <;> rfl
                have He : HRelM c μe s3 := by
                  refine Hd.of_frame heh ?_ ?_ <;> (cases pos <;> simp [μe, HEAP_eq, FREE_eq])
                -- the logical view of the result
                have hL4 : (lview μe (outFlag true pos)).val (.reg 4) = v4 := by
                  cases pos with
                  | last => simp [outFlag, lview_false, μe]
                  | other => simp [outFlag, lview_val_true, μe, hd0]
                have hLu : ∀ u, u ≠ .reg 4 → (lview μe (outFlag true pos)).val u = μd.val u := by
                  intro u h4
                  rw [lview_val_ne _ _ h4]
                  cases pos <;> simp [μe, h4]
                have hLa : ∀ u, u ≠ .reg TEMP → u ≠ .reg HEAP → u ≠ .spill 0 →
                    (∀ m', 2 * (existing.length + rl) ≤ m' → m' < 2 * (existing.length + toLoad.length) + linkSlot pos →
                      u ≠ posTemp m') → (lview μe (outFlag true pos)).val u = (lview μa rfa).val u := by
                  intro u hT hH hS hu
                  by_cases h4 : u = .reg 4
                  · subst h4; rw [hL4]
                  · rw [hLu u h4, hfd u hT hH hu, hcu u h4 hS, lview_val_ne _ _ h4]
                rw [hpt]
                simp only []
                rw [genm_bind hrb]
                refine ⟨_, true, k', genm_pure _ _, by omega, ?_, fun _ => by omega, μe, ?_, He, ?_, ?_, ?_⟩
                · refine LabsIn.append (LabsIn.append (LabsIn.append (LabsIn.append (hl0.mono (Nat.le_refl _) hkb) ?_)
                    (LabsIn.of_noLab _ _ (by simp))) (hlb.mono hk1 (Nat.le_refl _))) ?_
                  · exact LabsIn.of_noLab _ _ (fun l => by split <;> simp)
                  · exact LabsIn.of_noLab _ _ (fun l => by split <;> simp)
                · have := mFwd_seq c (mFwd_seq c (mFwd_seq c xa xc) xb) xe
                  simpa only [List.append_assoc] using this
                · have e1 : EnvFields (lview μe (outFlag true pos)) existing.length (toLoad.take rl) vals1 :=
                    Ea.congr (fun m' h1' h2' => by
                      rw [hlt2] at h2'
                      have hm : m' < 267 := by omega
                      obtain ⟨n1, n2, _⟩ := posTemp_ne_low hm
                      exact hLa _ n1 n2 (posTemp_ne_spill0 m')
                        (fun m'' h1'' _ e => by have := posTemp_inj.1 e; omega))
                  have e2 : EnvFields (lview μe (outFlag true pos)) (existing.length + rl) (toLoad.drop rl) vals2 := by
                    rw [hlt] at Eb
                    exact Eb.congr (fun m' h1' h2' => hLu _ (fun e => by have := posTemp_eq_reg4.1 e; omega))
                  have := e1.append (by rw [hlt2]; exact e2)
                  rwa [List.take_append_drop] at this
                · intro hp'
                  obtain ⟨lw, hlw, elw⟩ := Lb hp'
                  rw [hla] at hlw
                  refine ⟨lw, ?_, elw⟩
                  subst hp'
                  rw [lview_val_true, if_neg (fun e => by have := posTemp_eq_reg4.1 e; omega)]
                  simpa [μe] using hlw
                · intro u hT hH hS hu
                  rw [hLa u hT hH hS (fun m' h1' h2' => hu m' (by omega) h2')]
                  exact Fa u hT hH hS (fun m' h1' h2' => hu m' h1' (by simp [linkSlot] at h2'; omega))

end Fields
end Scc.X86

/-! ## the generators succeed within the capacity (needed for the branch that does not run) -/

namespace Scc.X86
open Scc.AxCut
open Scc.Backend (GenM TempNum freshLabel)

theorem loadValue_gen (b : Binding) (ctx : Ctx) (mbr off : Nat) (mode : LoadMode) (k : Nat)
    (hcap : 2 * ctx.length + 1 < 267) :
    ∃ code k', (loadValue b ctx mbr off mode).run k = .ok (code, k') ∧ k ≤ k' ∧ LabsIn code k k' := by
  unfold loadValue
  rw [genm_bind (loadField_run .snd ctx mbr off k (by simpa [TempNum.toNat] using hcap))]
  by_cases hχ : (b.chi != .ext) = true
  · simp only [hχ, if_true]
    rw [genm_bind (loadField_run .fst ctx mbr off k (by simp [TempNum.toNat]; omega)),
      genm_bind (freshTemporary_run k (by simp [TempNum.toNat]; omega))]
    cases mode with
    | release =>
      simp only [reduceCtorEq, if_false]
      exact ⟨_, k, genm_pure _ k, Nat.le_refl _,
        ((noLab_loadFieldCode _ _ _).append (noLab_loadFieldCode _ _ _)).labsIn _ _⟩
    | share =>
      simp only [if_true]
      rw [genm_bind (shareBlock_reg_run _ k)]
      exact ⟨_, k + 1, genm_pure _ _, by omega,
        (((noLab_loadFieldCode _ _ _).append (noLab_loadFieldCode _ _ _)).labsIn _ _).append (labsIn_shareCode _ k)⟩
  · simp only [hχ, Bool.false_eq_true, if_false]
    exact ⟨_, k, genm_pure _ k, Nat.le_refl _, (noLab_loadFieldCode _ _ _).labsIn _ _⟩

theorem loadValuesLoop_gen (existing : Ctx) (mbr : Nat) (mode : LoadMode) : ∀ (bsRev : List Binding) (ff k : Nat),
    2 * (existing.length + bsRev.length) ≤ 267 → bsRev.length ≤ ff →
    ∃ code k', (loadValuesLoop existing mbr mode bsRev ff).run k = .ok (code, k') ∧ k ≤ k' ∧ LabsIn code k k' := by
  intro bsRev
  induction bsRev with
  | nil => intro ff k _ _; exact ⟨[], k, rfl, Nat.le_refl _, LabsIn.nil _ _⟩
  | cons b rest ih =>
    intro ff k hcap hff
    simp only [List.length_cons] at hcap hff
    cases ff with
    | zero => omega
    | succ ff =>
      obtain ⟨c1, k1, hr1, hk1, hl1⟩ := loadValue_gen b (existing ++ rest.reverse) mbr ff mode k (by simp; omega)
      obtain ⟨c2, k2, hr2, hk2, hl2⟩ := ih ff k1 (by omega) (by omega)
      refine ⟨c1 ++ c2, k2, ?_, by omega, (hl1.mono (Nat.le_refl _) hk2).append (hl2.mono hk1 (Nat.le_refl _))⟩
      simp only [loadValuesLoop]
      rw [genm_bind (show (pred1 (ff + 1)).run k = .ok (ff, k) from rfl), genm_bind hr1, genm_bind hr2]
      rfl

theorem loadValues_gen (toLoad existing : Ctx) (mbr ff : Nat) (mode : LoadMode) (k : Nat)
    (hcap : 2 * (existing.length + toLoad.length) ≤ 267) (hff : toLoad.length ≤ ff) :
    ∃ code k', (loadValues toLoad existing mbr ff mode).run k = .ok (code, k') ∧ k ≤ k' ∧ LabsIn code k k' := by
  obtain ⟨cs, k', hr, hk, hl⟩ := loadValuesLoop_gen existing mbr mode toLoad.reverse ff k (by simpa using hcap)
    (by simpa using hff)
  refine ⟨[.COMMENT "###load values"] ++ cs, k', ?_, hk, ((noLab_comment _).labsIn _ _).append hl⟩
  unfold loadValues
  rw [genm_bind hr]
  rfl

theorem loadFieldsBlock_gen (mbr : Nat) (toLoadNext ctxAll ctxRest : Ctx) (pos : BlockPosition) (mode : LoadMode)
    (k : Nat) (hlenAll : ctxAll.length = ctxRest.length + toLoadNext.length) (hcap : 2 * ctxAll.length ≤ 267)
    (hff : toLoadNext.length ≤ FIELDS_PER_BLOCK - pos.toNat) :
    ∃ code k', (loadFieldsBlock mbr toLoadNext ctxAll ctxRest pos mode).run k = .ok (code, k') ∧ k ≤ k' ∧
      LabsIn code k k' := by
  obtain ⟨c3, k', hr3, hk3, hl3⟩ := loadValues_gen toLoadNext ctxRest mbr (FIELDS_PER_BLOCK - pos.toNat) mode k
    (by omega) hff
  have hn1 : NoLab (if mode = LoadMode.release then [Code.COMMENT "###release block"] ++ releaseBlock mbr else []) := by
    intro l; split <;> simp [releaseBlock]
  unfold loadFieldsBlock
  cases pos with
  | last =>
    simp only [reduceCtorEq, if_false]
    rw [genm_bind (genm_pure _ k), genm_bind hr3]
    exact ⟨_, k', genm_pure _ _, hk3, ((hn1.labsIn _ _).append (LabsIn.nil _ _)).append hl3⟩
  | other =>
    simp only [if_true]
    rw [genm_bind (loadField_run .fst ctxAll mbr (FIELDS_PER_BLOCK - 1) k (by simp [TempNum.toNat]; omega)),
      genm_bind (genm_pure _ k), genm_bind hr3]
    exact ⟨_, k', genm_pure _ _, hk3, ((hn1.labsIn _ _).append
      (((noLab_comment _).append (noLab_loadFieldCode _ _ _)).labsIn _ _)).append hl3⟩

theorem sub_restLength_le (m : Nat) (pos : BlockPosition) :
    m - restLength m pos ≤ FIELDS_PER_BLOCK - pos.toNat := by
  unfold restLength
  split <;> omega

theorem loadFields_gen : ∀ (fuel : Nat) (toLoad existing : Ctx) (pos : BlockPosition) (mode : LoadMode)
    (rf : Bool) (k : Nat), toLoad.length < fuel → 2 * (existing.length + toLoad.length) ≤ 267 →
    ∃ code rf' k', (loadFields fuel toLoad existing pos mode rf).run k = .ok ((code, rf'), k') ∧ k ≤ k' ∧
      LabsIn code k k' := by
  intro fuel
  induction fuel with
  | zero => intro toLoad _ _ _ _ _ hf; exact absurd hf (Nat.not_lt_zero _)
  | succ fuel ih =>
    intro toLoad existing pos mode rf k hfuel hcap
    simp only [loadFields]
    by_cases hne : toLoad = []
    · subst hne
      simp only [List.isEmpty_nil, if_true]
      exact ⟨[], rf, k, genm_pure _ k, Nat.le_refl _, LabsIn.nil _ _⟩
    · have hie : toLoad.isEmpty = false := by cases toLoad <;> simp_all
      have hpos : 0 < toLoad.length := List.length_pos_iff.mpr hne
      have hrlt : restLength toLoad.length pos < toLoad.length := by
        rw [restLength_eq]; exact Scc.Heap.restLength_lt _ _ hpos
      have hsub := sub_restLength_le toLoad.length pos
      simp only [hie, Bool.false_eq_true, if_false]
      generalize restLength toLoad.length pos = rl at hrlt hsub ⊢
      have hlt2 : (toLoad.take rl).length = rl := by simp [List.length_take]; omega
      have hlt : (existing ++ toLoad.take rl).length = existing.length + rl := by simp [hlt2]
      have hla : (existing ++ toLoad).length = existing.length + toLoad.length := by simp
      have hdl : (toLoad.drop rl).length = toLoad.length - rl := by simp
      obtain ⟨c0, rfa, k1, hr0, hk1, hl0⟩ := ih (toLoad.take rl) existing .other mode rf k (by rw [hlt2]; omega)
        (by rw [hlt2]; omega)
      rw [genm_bind hr0, genm_bind (freshTemporary_run k1 (by rw [hlt]; simp [TempNum.toNat]; omega))]
      cases posTemp (2 * (existing ++ toLoad.take rl).length + TempNum.fst.toNat) with
      | reg r =>
        obtain ⟨cb, k', hrb, hkb, hlb⟩ := loadFieldsBlock_gen r (toLoad.drop rl) (existing ++ toLoad)
          (existing ++ toLoad.take rl) pos mode k1 (by rw [hla, hlt, hdl]; omega) (by rw [hla]; exact hcap)
          (by rw [hdl]; exact hsub)
        simp only []
        rw [genm_bind hrb]
        exact ⟨_, _, k', genm_pure _ _, by omega, (hl0.mono (Nat.le_refl _) hkb).append (hlb.mono hk1 (Nat.le_refl _))⟩
      | spill q =>
        obtain ⟨cb, k', hrb, hkb, hlb⟩ := loadFieldsBlock_gen TEMPORARY_TEMP (toLoad.drop rl) (existing ++ toLoad)
          (existing ++ toLoad.take rl) pos mode k1 (by rw [hla, hlt, hdl]; omega) (by rw [hla]; exact hcap)
          (by rw [hdl]; exact hsub)
        simp only []
        rw [genm_bind hrb]
        refine ⟨_, _, k', genm_pure _ _, by omega, ?_⟩
        refine LabsIn.append (LabsIn.append (LabsIn.append (LabsIn.append (hl0.mono (Nat.le_refl _) hkb) ?_)
          (LabsIn.of_noLab _ _ (by simp))) (hlb.mono hk1 (Nat.le_refl _))) ?_
        · exact LabsIn.of_noLab _ _ (fun l => by split <;> simp)
        · exact LabsIn.of_noLab _ _ (fun l => by split <;> simp)

end Scc.X86

/-! ## Memory::load -/

namespace Scc.X86
open Scc.AxCut
open Scc.Backend (GenM TempNum freshLabel)

/-- memory.rs load_register: shape of the code, given the two runs of `load_fields` -/
theorem loadRegister_run (mb : Nat) (toLoad existing : Ctx) {k kT kE : Nat} {cT cE : List Code} {rT rE : Bool}
    (hT : (loadFields (toLoad.length + 1) toLoad existing .last .release false).run k = .ok ((cT, rT), kT))
    (hE : (loadFields (toLoad.length + 1) toLoad existing .last .share false).run kT = .ok ((cE, rE), kE)) :
    (loadRegister mb toLoad existing).run k =
      .ok ([.COMMENT "##check refcount", .CMPIM mb 0 0] ++ ([.JEL (labName (kE + 1))] ++
        ([.COMMENT "##either decrement refcount and share children...", .ADDIM mb 0 (-1)] ++ cE) ++
        [.JMPL (labName (kE + 2)), .LAB (labName (kE + 1))] ++
        ([.COMMENT "##... or release blocks onto linear free list when loading"] ++ cT) ++
        [.LAB (labName (kE + 2))]), kE + 2) := by
  unfold loadRegister
  rw [genm_bind hT]
  simp only []
  rw [genm_bind hE]
  simp only []
  rw [genm_bind (ifZeroThenElse_run mb (some REFERENCE_COUNT_OFFSET) _ _ kE)]
  rfl

/-- memory.rs load: shape of the code, both placements of the object pointer at once -/
theorem load_run (toLoad existing : Ctx) (hne : toLoad ≠ []) (hcap : 2 * existing.length < 267)
    {k k' : Nat} {cr : List Code}
    (hr : (loadRegister (jumpReg (posTemp (2 * existing.length))) toLoad existing).run k = .ok (cr, k')) :
    (load toLoad existing).run k =
      .ok ([.COMMENT "#load from memory"] ++ loadPtr (posTemp (2 * existing.length)) ++ cr, k') := by
  have hie : toLoad.isEmpty = false := by cases toLoad <;> simp_all
  unfold load
  simp only [hie, Bool.false_eq_true, if_false]
  rw [genm_bind (freshTemporary_run k (by simpa [TempNum.toNat] using hcap))]
  simp only [TempNum.toNat, Nat.add_zero]
  cases hpt : posTemp (2 * existing.length) with
  | reg r =>
    rw [hpt] at hr
    simp only [jumpReg] at hr
    simp only []
    rw [genm_bind hr]
    rfl
  | spill q =>
    rw [hpt] at hr
    simp only [jumpReg] at hr
    simp only []
    rw [genm_bind hr]
    rfl

section Load
variable {c : MachCfg}

/-- CONTRACT of `load` on the view: unique branch (count 0) and shared branch (count > 0), ANY number
of fields, every placement -/
theorem m_load (C : HeapCfgOK c) {μ : MState} {h h' : Scc.Heap.HState} (H : HRelM c μ h)
    {toLoad existing : Ctx} (hcap : 2 * (existing.length + toLoad.length) ≤ 267) {pw : Word}
    (hp : μ.val (posTemp (2 * existing.length)) = some pw) {vals : List Scc.Heap.Field}
    (hop : Scc.Heap.loadObj h pw.toNat (toLoad.map kindOf) = .ok (h', vals))
    (hno : h.mem.get pw.toNat ≠ 0 → ∀ a, h'.mem.get a < 2 ^ 64) (k : Nat) :
    ∃ code k', (load toLoad existing).run k = .ok (code, k') ∧ k ≤ k' ∧ LabsIn code k k' ∧
      ∃ μ', mFwd c code μ = some (μ', .next) ∧ HRelM c μ' h' ∧ EnvFields μ' existing.length toLoad vals ∧
        (∀ u, u ≠ .reg TEMP → u ≠ .reg HEAP → u ≠ .spill 0 →
          (∀ m, 2 * existing.length ≤ m → m < 2 * (existing.length + toLoad.length) → u ≠ posTemp m) →
          μ'.val u = μ.val u) := by
  by_cases hne : toLoad = []
  · subst hne
    simp only [List.map_nil, Scc.Heap.loadObj, if_true, Except.ok.injEq, Prod.mk.injEq] at hop
    obtain ⟨rfl, rfl⟩ := hop
    exact ⟨[], k, rfl, Nat.le_refl _, LabsIn.nil _ _, μ, mFwd_nil c μ, H, trivial, fun _ _ _ _ _ => rfl⟩
  · have hkne : toLoad.map kindOf ≠ [] := by simpa using hne
    have hc0 : 2 * existing.length < 267 := by omega
    have htm := tempOK_posTemp hc0
    obtain ⟨j1, j16, j2, j3, j0⟩ := jumpReg_bounds htm
    obtain ⟨t1, t2, t3⟩ := tempOK_ne htm
    -- the two runs of load_fields
    obtain ⟨cT, rT, kT, hrT, hkT, hlT⟩ := loadFields_gen (toLoad.length + 1) toLoad existing .last .release false k
      (Nat.lt_succ_self _) hcap
    obtain ⟨cE, rE, kE, hrE, hkE, hlE⟩ := loadFields_gen (toLoad.length + 1) toLoad existing .last .share false kT
      (Nat.lt_succ_self _) hcap
    have hrun := load_run toLoad existing hne hc0
      (loadRegister_run (jumpReg (posTemp (2 * existing.length))) toLoad existing hrT hrE)
    have l12 : labName (kE + 1) ≠ labName (kE + 2) := fun e => by have := labName_inj.mp e; omega
    -- the object pointer in a register, the count compared with 0
    simp only [Scc.Heap.loadObj, hkne, if_false] at hop
    cases hrd : Scc.Heap.rd h pw.toNat with
    | error e => simp [hrd] at hop
    | ok cnt =>
      simp only [hrd] at hop
      obtain ⟨hok, hcnt⟩ := rd_eq_ok.1 hrd
      have ha : haddr c pw 0 = some pw.toNat := haddr_ok0 C H hok
      obtain ⟨st1, e1, v1, F1⟩ : ∃ μ1 : MState, mFwd c ([.COMMENT "#load from memory"] ++
            loadPtr (posTemp (2 * existing.length)) ++ [.COMMENT "##check refcount",
            .CMPIM (jumpReg (posTemp (2 * existing.length))) 0 0]) μ =
          some (μ1.setF (some (μ.heap pw.toNat, 0)), .next) ∧
          μ1.val (.reg (jumpReg (posTemp (2 * existing.length)))) = some pw ∧ μ1.heap = μ.heap ∧
          (∀ u, u ≠ .reg TEMP → μ1.val u = μ.val u) := by
        cases hpt : posTemp (2 * existing.length) with
        | reg r =>
          rw [hpt] at hp htm
          have hr0 : ¬ r = 0 := by have := htm.1; omega
          have h1 : 1 ≤ r := by have := htm.1; omega
          refine ⟨μ, ?_, by simpa [jumpReg] using hp, rfl, fun _ _ => rfl⟩
          simp [loadPtr, jumpReg, mFwd_cons, mFwd_nil, mcont, mexecC, mexec, hr0, maddr, h1, htm.2, hp, ha, fitsI32]
        | spill q =>
          rw [hpt] at hp htm
          have hmo : memOpnd 0 (stackOffset q) = some (.spill q) := memOpnd_of htm.opnd
          refine ⟨μ.setT (.reg 1) (some pw), ?_, by simp [jumpReg, TEMP_eq], rfl,
            fun u hu => by rw [TEMP_eq] at hu; simp [hu]⟩
          simp [loadPtr, jumpReg, mFwd_cons, mFwd_nil, mcont, mexecC, mexec, maddr, hp, ha, fitsI32, TEMP_eq,
            STACK_eq, hmo, regOpnd1]
      obtain ⟨hh1, F1⟩ := F1
      have H1 : HRelM c (st1.setF (some (μ.heap pw.toNat, 0))) h :=
        (H.of_frame hh1 (F1 _ (by simp [HEAP_eq, TEMP_eq])) (F1 _ (by simp [FREE_eq, TEMP_eq]))).setF _
      have hp1 : (lview (st1.setF (some (μ.heap pw.toNat, 0))) false).val (posTemp (2 * existing.length)) = some pw := by
        rw [lview_false]; simp only [MState.setF_val]; rw [F1 _ t1]; exact hp
      refine ⟨_, kE + 2, hrun, by omega, ?_, ?_⟩
      · refine LabsIn.append ((noLab_comment _).labsIn _ _ |>.append (LabsIn.of_noLab _ _ (fun l => by
          cases posTemp (2 * existing.length) <;> simp [loadPtr]))) ?_
        refine LabsIn.append (LabsIn.of_noLab _ _ (by simp)) ?_
        refine LabsIn.append (LabsIn.append (LabsIn.append (LabsIn.append (LabsIn.of_noLab _ _ (by simp)) ?_) ?_) ?_) ?_
        · exact (LabsIn.of_noLab _ _ (by simp)).append (hlE.mono hkT (by omega))
        · exact ((LabsIn.nil _ _).cons_lab (n := kE + 1) (by omega) (by omega)).cons_other (by simp)
        · exact ((noLab_comment _).labsIn _ _).append (hlT.mono (Nat.le_refl _) (by omega))
        · exact (LabsIn.nil _ _).cons_lab (by omega) (by omega)
      · rw [show ∀ (X : List Code), [Code.COMMENT "#load from memory"] ++ loadPtr (posTemp (2 * existing.length)) ++
            ([Code.COMMENT "##check refcount", Code.CMPIM (jumpReg (posTemp (2 * existing.length))) 0 0] ++ X) =
            ([Code.COMMENT "#load from memory"] ++ loadPtr (posTemp (2 * existing.length)) ++
              [Code.COMMENT "##check refcount", Code.CMPIM (jumpReg (posTemp (2 * existing.length))) 0 0]) ++ X
            from fun X => by simp, mFwd_pre c e1]
        by_cases hz : cnt = 0
        · -- unique: release the blocks, move the children
          subst hz
          have hx0 : μ.heap pw.toNat = 0#64 := BitVec.eq_of_toNat_eq (by rw [← H.mem, ← hcnt]; rfl)
          simp only [if_true] at hop
          cases hlf : Scc.Heap.loadFields h (toLoad.map kindOf) .last .release pw.toNat with
          | error e => simp [hlf] at hop
          | ok r =>
            obtain ⟨s1, vs, lk⟩ := r
            simp only [hlf, Except.ok.injEq, Prod.mk.injEq] at hop
            obtain ⟨rfl, rfl⟩ := hop
            rw [hx0] at H1 hp1 ⊢
            obtain ⟨code, rf', k', hr, _, _, _, μ', x, H', E', _, F'⟩ := m_loadFields C (toLoad.length + 1) toLoad existing
              .last .release false pw.toNat _ h s1 vs lk k (Nat.lt_succ_self _) H1 hcap (fun e => by cases e)
              (fun _ => rfl) ⟨pw, hp1, rfl⟩ hlf (fun e => by cases e)
            rw [hrT] at hr
            simp only [Except.ok.injEq, Prod.mk.injEq] at hr
            obtain ⟨⟨rfl, rfl⟩, rfl⟩ := hr
            simp only [outFlag, lview_false] at E' F'
            refine ⟨μ', ?_, H', E', fun u hT hH hS hu => ?_⟩
            · refine mFwd_ite_then c _ _ _ _ _ _ (a := 0#64) rfl ?_ (mFwd_seq c (mFwd_comment c _ _) x)
              rw [skipTo_append]
              simp only [skipTo]
              exact hlE.skipTo_none (Or.inr (by omega))
            · rw [F' u hT hH hS (fun m h1 h2 => hu m h1 (by simpa [linkSlot] using h2))]
              simp only [MState.setF_val]
              exact F1 u hT
        · -- shared: decrement, share the children
          have hx0 : ¬ μ.heap pw.toNat = 0#64 := fun e => hz (by rw [hcnt, H.mem, e]; rfl)
          rw [if_neg hz] at hop
          cases hwr : Scc.Heap.wr h pw.toNat (cnt - 1) with
          | error e => simp [hwr] at hop
          | ok s0 =>
            simp only [hwr] at hop
            obtain ⟨_, rfl⟩ := wr_eq_ok.1 hwr
            cases hlf : Scc.Heap.loadFields { h with mem := h.mem.set pw.toNat (cnt - 1) } (toLoad.map kindOf)
                .last .share pw.toNat with
            | error e => simp [hlf] at hop
            | ok r =>
              obtain ⟨s1, vs, lk⟩ := r
              simp only [hlf, Except.ok.injEq, Prod.mk.injEq] at hop
              obtain ⟨rfl, rfl⟩ := hop
              have hw : (μ.heap pw.toNat + BitVec.ofInt 64 (-1)).toNat = cnt - 1 := by
                rw [toNat_add_neg_one _ hx0, hcnt, H.mem]
              let μ2 : MState := (st1.setH pw.toNat (μ.heap pw.toNat + BitVec.ofInt 64 (-1))).setF none
              have H2 : HRelM c μ2 { h with mem := h.mem.set pw.toNat (cnt - 1) } := by
                have := ((H.of_frame hh1 (F1 _ (by simp [HEAP_eq, TEMP_eq])) (F1 _ (by simp [FREE_eq, TEMP_eq]))).setH
                  pw.toNat (μ.heap pw.toNat + BitVec.ofInt 64 (-1))).setF none
                rw [hw] at this
                exact this
              have hp2 : (lview μ2 false).val (posTemp (2 * existing.length)) = some pw := by
                rw [lview_false]; simp only [μ2, MState.setF_val, MState.setH_val]; rw [F1 _ t1]; exact hp
              have x2 : mFwd c [.COMMENT "##either decrement refcount and share children...",
                  .ADDIM (jumpReg (posTemp (2 * existing.length))) 0 (-1)]
                  (st1.setF (some (μ.heap pw.toNat, 0))) = some (μ2, .next) := by
                simp [mFwd_cons, mFwd_nil, mcont, mexecC, mexec, j0, maddr, j1, j16, v1, ha, fitsI32, μ2, hh1]
              obtain ⟨code, rf', k', hr, _, _, _, μ', x, H', E', _, F'⟩ := m_loadFields C (toLoad.length + 1) toLoad
                existing .last .share false pw.toNat μ2 _ s1 vs lk kT (Nat.lt_succ_self _) H2 hcap
                (fun e => by cases e) (fun _ => rfl) ⟨pw, hp2, rfl⟩ hlf (fun _ => hno (by rw [← hcnt]; exact hz))
              rw [hrE] at hr
              simp only [Except.ok.injEq, Prod.mk.injEq] at hr
              obtain ⟨⟨rfl, rfl⟩, rfl⟩ := hr
              simp only [outFlag, lview_false] at E' F'
              refine ⟨μ', ?_, H', E', fun u hT hH hS hu => ?_⟩
              · refine mFwd_ite_else c _ _ _ _ _ _ (a := μ.heap pw.toNat) (b := 0) rfl hx0 l12 ?_
                  (mFwd_seq c x2 x)
                rw [skipTo_append]
                simp only [skipTo]
                exact hlT.skipTo_none (Or.inr (by omega))
              · rw [F' u hT hH hS (fun m h1 h2 => hu m h1 (by simpa [linkSlot] using h2))]
                simp only [μ2, MState.setF_val, MState.setH_val]
                exact F1 u hT

end Load
end Scc.X86

/-! ## Memory::load on the machine -/

namespace Scc.X86
open Scc.AxCut

/-- CONTRACT of `load` (memory.rs Memory::load) on the SPEC machine, for ANY number of fields and EVERY
placement: the object whose pointer is in the first temporary of position `|existing|` is unpacked
into the variables `toLoad` (positions `|existing| …`) exactly as `Scc.Heap.loadObj` does on the
abstract heap — unique branch (count 0): the blocks of the chain go back onto the linear free list,
the children move; shared branch (count > 0): the count is decremented and every pointer child gets one
more reference.  From every boundary state representing a heap on which the model succeeds, the code
runs to its end; the final state is a boundary state with the same `rsp`, represents the model's
result heap, and the variables hold the loaded fields (`EnvFields`).
Changed: TEMP, HEAP, the flags, the heap, the spill slot SPILL_TEMP, the temporaries of the loaded
positions; preserved: FREE, every variable of `existing` (TEMPORARY_TEMP = rax included: evacuated
and restored), the stack outside the spill area.
`hno` (shared branch only): the incremented counts of the model (unbounded naturals) fit in 64 bits. -/
theorem load_contract {c : MachCfg} {la : String → Option Nat} {st : State} {sp : Word}
    (h8 : c.heapBase % 8 = 0) (B : Boundary c st sp) {h h' : Scc.Heap.HState} (R : HeapRel c st h)
    {toLoad existing : Ctx} (hcap : 2 * (existing.length + toLoad.length) ≤ 267) {pw : Word}
    (hp : tempVal sp st (posTemp (2 * existing.length)) = some pw) {vals : List Scc.Heap.Field}
    (hop : Scc.Heap.loadObj h pw.toNat (toLoad.map kindOf) = .ok (h', vals))
    (hno : h.mem.get pw.toNat ≠ 0 → ∀ a, h'.mem.get a < 2 ^ 64) (k : Nat) :
    ∃ code k', (load toLoad existing).run k = .ok (code, k') ∧ k ≤ k' ∧ LabsIn code k k' ∧
      ∃ st', execFwd c la code st = .ok (st', .next) ∧ Boundary c st' sp ∧ HeapRel c st' h' ∧
        EnvFields (mview sp st') existing.length toLoad vals ∧
        FrameT sp st st' (fun u => u = .reg TEMP ∨ u = .reg HEAP ∨ u = .spill 0 ∨
          ∃ m, 2 * existing.length ≤ m ∧ m < 2 * (existing.length + toLoad.length) ∧ u = posTemp m) := by
  obtain ⟨code, k', hrun, hk, hl, μ', hx, H', E', hfr⟩ :=
    m_load (heapCfgOK_of_boundary h8 B) (heapRel_mview (sp := sp) R) hcap (μ := mview sp st) hp hop hno k
  obtain ⟨st', e, B', M', F⟩ := m_to_machine la B hx
    (changed := fun u => u = .reg TEMP ∨ u = .reg HEAP ∨ u = .spill 0 ∨
      ∃ m, 2 * existing.length ≤ m ∧ m < 2 * (existing.length + toLoad.length) ∧ u = posTemp m)
    (fun u hu => hfr u (fun e => hu (Or.inl e)) (fun e => hu (Or.inr (Or.inl e)))
      (fun e => hu (Or.inr (Or.inr (Or.inl e))))
      (fun m h1 h2 e => hu (Or.inr (Or.inr (Or.inr ⟨m, h1, h2, e⟩)))))
  refine ⟨code, k', hrun, hk, hl, st', e, B', heapRel_of_mrep M' H', ?_, F⟩
  exact E'.congr (fun m _ h2 => M'.vals _ (tempOK_posTemp (by omega)).opnd)

end Scc.X86
