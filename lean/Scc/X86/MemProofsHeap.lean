/-
  Scc.X86.MemProofsHeap — the view (MemProofsView.lean) against the heap model Scc/Heap/Model.lean:
  `HRelM` (a view state represents an abstract heap), the primitive accesses (`rd`/`wr` of the model
  = heap loads / stores of the view), fresh-label bookkeeping, and the contracts of
  `erase_block` for an arbitrary register, `erase_fields`, and `acquire_block` (memory.rs) — first on
  the view, then on the machine.
-/
import Scc.X86.MemProofsView
import Scc.X86.ProofsWf

set_option linter.unusedSimpArgs false
set_option linter.unusedVariables false

namespace Scc.X86

open Scc.AxCut
open Scc.Backend (GenM TempNum freshLabel)

theorem HEAP_eq : HEAP = 2 := rfl
theorem FREE_eq : FREE = 3 := rfl
theorem regOpnd1 : regOpnd 1 = some (.reg 1) := by decide
theorem regOpnd2 : regOpnd 2 = some (.reg 2) := by decide
theorem regOpnd3 : regOpnd 3 = some (.reg 3) := by decide
theorem regOpnd4 : regOpnd 4 = some (.reg 4) := by decide

/-! ## the model's primitive accesses -/

/-- `a` is the address of a word of the abstract heap -/
def HOk (h : Scc.Heap.HState) (a : Nat) : Prop :=
  h.base ≤ a ∧ a + 8 ≤ h.limit ∧ (a - h.base) % 8 = 0

theorem rd_eq_ok {s : Scc.Heap.HState} {a v : Nat} :
    Scc.Heap.rd s a = .ok v ↔ HOk s a ∧ v = s.mem.get a := by
  unfold Scc.Heap.rd HOk
  by_cases h1 : s.base ≤ a ∧ a + 8 ≤ s.limit
  · by_cases h2 : (a - s.base) % 8 = 0
    · simp [h1, h2, eq_comm]
    · simp [h1, h2]
  · simp only [h1, if_false]
    constructor
    · intro h; cases h
    · intro h; exact absurd ⟨h.1.1, h.1.2.1⟩ h1

theorem wr_eq_ok {s s' : Scc.Heap.HState} {a v : Nat} :
    Scc.Heap.wr s a v = .ok s' ↔ HOk s a ∧ s' = { s with mem := s.mem.set a v } := by
  unfold Scc.Heap.wr HOk
  by_cases h1 : s.base ≤ a ∧ a + 8 ≤ s.limit
  · by_cases h2 : (a - s.base) % 8 = 0
    · simp [h1, h2, eq_comm]
    · simp [h1, h2]
  · simp only [h1, if_false]
    constructor
    · intro h; cases h
    · intro h; exact absurd ⟨h.1.1, h.1.2.1⟩ h1

/-- the heap region is 8-aligned and lies below 2^63 (so heap addresses never wrap) -/
structure HeapCfgOK (c : MachCfg) : Prop where
  base8 : c.heapBase % 8 = 0
  top : c.heapBase + c.heapBytes ≤ 2 ^ 63

theorem heapCfgOK_of_boundary {c : MachCfg} {st : State} {sp : Word} (h8 : c.heapBase % 8 = 0)
    (B : Boundary c st sp) : HeapCfgOK c := by
  refine ⟨h8, ?_⟩
  have h1 := B.sp.cfg.heapBelow
  have h2 := B.sp.cfg.top
  have h3 := B.sp.low
  have h4 := B.sp.high
  omega

/-- view state `μ` represents the abstract heap `h` -/
structure HRelM (c : MachCfg) (μ : MState) (h : Scc.Heap.HState) : Prop where
  base : h.base = c.heapBase
  limit : h.limit = c.heapBase + c.heapBytes
  mem : ∀ a, h.mem.get a = (μ.heap a).toNat
  heap : ∃ w, μ.val (.reg HEAP) = some w ∧ w.toNat = h.heap
  free : ∃ w, μ.val (.reg FREE) = some w ∧ w.toNat = h.free

theorem heapRel_mview {c : MachCfg} {sp : Word} {st : State} {h : Scc.Heap.HState} (R : HeapRel c st h) :
    HRelM c (mview sp st) h := by
  obtain ⟨wh, hwh, ewh⟩ := R.heap
  obtain ⟨wf, hwf, ewf⟩ := R.free
  refine ⟨R.base, R.limit, R.mem, ⟨wh, ?_, ewh⟩, ⟨wf, ?_, ewf⟩⟩
  · unfold regIs at hwh; simp [mview, tempVal, hwh]
  · unfold regIs at hwf; simp [mview, tempVal, hwf]

theorem heapRel_of_mrep {c : MachCfg} {sp : Word} {st : State} {μ : MState} {h : Scc.Heap.HState}
    (M : MRep c sp st μ) (H : HRelM c μ h) : HeapRel c st h := by
  obtain ⟨wh, hwh, ewh⟩ := H.heap
  obtain ⟨wf, hwf, ewf⟩ := H.free
  refine ⟨H.base, H.limit, fun a => by rw [M.heap]; exact H.mem a,
    ⟨wh, M.regIs (by decide) (by decide) hwh, ewh⟩, ⟨wf, M.regIs (by decide) (by decide) hwf, ewf⟩⟩

section Prim
variable {c : MachCfg} {μ : MState} {h : Scc.Heap.HState}

/-- a valid address of the model is a heap address of the view -/
theorem haddr_ok (C : HeapCfgOK c) (H : HRelM c μ h) {x : Word} {off : Nat} (ho : off < 2 ^ 31)
    (hok : HOk h (x.toNat + off)) : haddr c x (off : Int) = some (x.toNat + off) := by
  obtain ⟨h1, h2, h3⟩ := hok
  rw [H.base] at h1 h3
  rw [H.limit] at h2
  have hb := C.base8
  have ht := C.top
  have hfit : fitsI32 (off : Int) = true := by
    simp only [fitsI32, Bool.and_eq_true, decide_eq_true_eq]; omega
  have hsum : (x + BitVec.ofInt 64 (off : Int)).toNat = x.toNat + off := by
    rw [BitVec.ofInt_natCast, BitVec.toNat_add, BitVec.toNat_ofNat]
    omega
  unfold haddr
  rw [hsum, if_pos]
  refine ⟨hfit, by omega, ?_⟩
  simp only [inHeap, Bool.and_eq_true, decide_eq_true_eq]
  omega

theorem haddr_ok0 (C : HeapCfgOK c) (H : HRelM c μ h) {x : Word} (hok : HOk h x.toNat) :
    haddr c x 0 = some x.toNat := by
  have := haddr_ok C H (x := x) (off := 0) (by decide) (by simpa using hok)
  simpa using this

theorem HRelM.setH (H : HRelM c μ h) (a : Nat) (w : Word) :
    HRelM c (μ.setH a w) { h with mem := h.mem.set a w.toNat } := by
  refine ⟨H.base, H.limit, fun b => ?_, H.heap, H.free⟩
  simp only [Scc.Heap.Mem.get_set, MState.setH_heap]
  by_cases e : a = b
  · subst e; simp
  · have : ¬ b = a := fun h => e h.symm
    simp [e, this, H.mem b]

end Prim

end Scc.X86

namespace Scc.X86
open Scc.AxCut
open Scc.Backend (GenM TempNum freshLabel)

section Erase
variable {c : MachCfg} {μ : MState} {h h' : Scc.Heap.HState}

theorem m_erase_null {r : Nat} (h1 : 1 ≤ r) (h2 : r < 16) (hv : μ.val (.reg r) = some 0)
    (l1 l2 l3 : String) (h13 : l1 ≠ l3) (h23 : l2 ≠ l3) :
    mFwd c (eraseCode r l1 l2 l3) μ = some (μ.setF (some (0, 0)), .next) := by
  have hro : regOpnd r = some (.reg r) := regOpnd_of ⟨h1, h2⟩
  simp [eraseCode, eraseInner, mFwd_cons, mFwd_nil, mcont, mexecC, mexec, hro, hv, skipTo, h13, h23,
    fitsI32]

theorem HRelM.setF (H : HRelM c μ h) (f : Option (Word × Word)) : HRelM c (μ.setF f) h :=
  ⟨H.base, H.limit, H.mem, H.heap, H.free⟩

/-- CONTRACT of `erase_block` on the view, pointer in ANY register `r` (also TEMP): the code runs to
its end, the result represents `Scc.Heap.eraseBlock`, only FREE, the flags and the header word change -/
theorem m_erase (C : HeapCfgOK c) (H : HRelM c μ h) {r : Nat} (h1 : 1 ≤ r) (h2 : r < 16) {p : Word}
    (hv : μ.val (.reg r) = some p) (hop : Scc.Heap.eraseBlock h p.toNat = .ok h')
    (l1 l2 l3 : String) (h12 : l1 ≠ l2) (h13 : l1 ≠ l3) (h23 : l2 ≠ l3) :
    ∃ μ', mFwd c (eraseCode r l1 l2 l3) μ = some (μ', .next) ∧ HRelM c μ' h' ∧
      (∀ u, u ≠ .reg FREE → μ'.val u = μ.val u) := by
  by_cases hp : p = 0
  · subst hp
    have : h' = h := by
      simp [Scc.Heap.eraseBlock] at hop
      exact hop.symm
    subst this
    exact ⟨_, m_erase_null h1 h2 hv l1 l2 l3 h13 h23, H.setF _, fun _ _ => rfl⟩
  · have hp' : p.toNat ≠ 0 := fun e => hp (BitVec.eq_of_toNat_eq (by simpa using e))
    have hro : regOpnd r = some (.reg r) := regOpnd_of ⟨h1, h2⟩
    have hpz : ¬ p = 0#64 := hp
    have hr0 : ¬ r = 0 := by omega
    unfold Scc.Heap.eraseBlock at hop
    rw [if_neg hp'] at hop
    cases hrd : Scc.Heap.rd h p.toNat with
    | error f => simp [hrd] at hop
    | ok cnt =>
      simp only [hrd] at hop
      obtain ⟨hok, hcnt⟩ := rd_eq_ok.1 hrd
      have ha : haddr c p 0 = some p.toNat := haddr_ok0 C H hok
      have hm : maddr c μ r 0 = some p.toNat := by simp [maddr, h1, h2, hv, ha]
      obtain ⟨wf, hwf, ewf⟩ := H.free
      rw [FREE_eq] at hwf
      by_cases hc0 : cnt = 0
      · subst hc0
        have hw0 : μ.heap p.toNat = 0#64 := BitVec.eq_of_toNat_eq (by rw [← H.mem, ← hcnt]; rfl)
        simp only [if_true] at hop
        cases hwr : Scc.Heap.wr h p.toNat h.free with
        | error e => simp [hwr] at hop
        | ok hh =>
          simp only [hwr, Except.ok.injEq] at hop
          obtain ⟨_, rfl⟩ := wr_eq_ok.1 hwr
          subst hop
          refine ⟨((μ.setF (some (0, 0))).setH p.toNat wf).setT (.reg 3) (some p), ?_, ?_, ?_⟩
          · simp [eraseCode, eraseInner, mFwd_cons, mFwd_nil, mcont, mexecC, mexec, hro, hv, skipTo, h12,
              h13, h23, fitsI32, hpz, hr0, hm, hw0, maddr, h1, h2, ha, FREE_eq, regOpnd, hwf]
          · obtain ⟨wh, hwh, ewh⟩ := H.heap
            rw [HEAP_eq] at hwh
            have := (H.setF (some (0, 0))).setH p.toNat wf
            rw [ewf] at this
            exact ⟨this.base, this.limit, this.mem, ⟨wh, by simp [HEAP_eq, hwh], ewh⟩,
              ⟨p, by simp [FREE_eq], rfl⟩⟩
          · intro u hu
            rw [FREE_eq] at hu
            simp [hu]
      · have hw0 : ¬ μ.heap p.toNat = 0#64 := fun e => hc0 (by rw [hcnt, H.mem, e]; rfl)
        rw [if_neg hc0] at hop
        obtain ⟨_, rfl⟩ := wr_eq_ok.1 hop
        have hw : (μ.heap p.toNat + BitVec.ofInt 64 (-1)).toNat = cnt - 1 := by
          rw [toNat_add_neg_one _ hw0, hcnt, H.mem]
        refine ⟨(μ.setH p.toNat (μ.heap p.toNat + BitVec.ofInt 64 (-1))).setF none, ?_, ?_,
          fun _ _ => rfl⟩
        · simp [eraseCode, eraseInner, mFwd_cons, mFwd_nil, mcont, mexecC, mexec, hro, hv, skipTo, h12,
            h13, h23, fitsI32, hpz, hr0, hm, hw0, FREE_eq, regOpnd, maddr, h1, h2, ha]
        · have := (H.setH p.toNat (μ.heap p.toNat + BitVec.ofInt 64 (-1))).setF none
          rw [hw] at this
          exact this

end Erase
end Scc.X86

/-! ## fresh labels -/

namespace Scc.X86
open Scc.AxCut
open Scc.Backend (GenM TempNum freshLabel)

/-- every label defined in `code` is one of the fresh labels `lo+1 … hi` -/
def LabsIn (code : List Code) (lo hi : Nat) : Prop :=
  ∀ l, Code.LAB l ∈ code → ∃ n, l = labName n ∧ lo < n ∧ n ≤ hi

theorem skipTo_none_of_not_mem {l : String} : ∀ {code : List Code}, Code.LAB l ∉ code → skipTo l code = none
  | [], _ => rfl
  | cd :: cs, h => by
    have h1 : cd ≠ Code.LAB l := fun e => h (by simp [e])
    have h2 : Code.LAB l ∉ cs := fun e => h (by simp [e])
    cases cd <;> simp only [skipTo] <;> try exact skipTo_none_of_not_mem h2
    case LAB l' =>
      have : l' ≠ l := fun e => h1 (by rw [e])
      rw [if_neg this]
      exact skipTo_none_of_not_mem h2

theorem LabsIn.skipTo_none {code : List Code} {lo hi n : Nat} (L : LabsIn code lo hi)
    (hn : n ≤ lo ∨ hi < n) : skipTo (labName n) code = none := by
  apply skipTo_none_of_not_mem
  intro hm
  obtain ⟨m, e, h1, h2⟩ := L _ hm
  have := labName_inj.1 e
  omega

theorem LabsIn.nil (lo hi : Nat) : LabsIn [] lo hi := fun _ h => by simp at h

theorem LabsIn.append {a b : List Code} {lo hi : Nat} (ha : LabsIn a lo hi) (hb : LabsIn b lo hi) :
    LabsIn (a ++ b) lo hi := fun l h => by
  rcases List.mem_append.1 h with h | h
  · exact ha l h
  · exact hb l h

theorem LabsIn.mono {a : List Code} {lo hi lo' hi' : Nat} (ha : LabsIn a lo hi) (h1 : lo' ≤ lo)
    (h2 : hi ≤ hi') : LabsIn a lo' hi' := fun l h => by
  obtain ⟨n, e, a1, a2⟩ := ha l h
  exact ⟨n, e, by omega, by omega⟩

theorem LabsIn.of_noLab {a : List Code} (lo hi : Nat) (h : ∀ l, Code.LAB l ∉ a) : LabsIn a lo hi :=
  fun l hl => absurd hl (h l)

theorem LabsIn.cons_lab {a : List Code} {lo hi n : Nat} (ha : LabsIn a lo hi) (h1 : lo < n) (h2 : n ≤ hi) :
    LabsIn (.LAB (labName n) :: a) lo hi := fun l h => by
  rcases List.mem_cons.1 h with h | h
  · injection h with h; exact ⟨n, h, h1, h2⟩
  · exact ha l h

theorem LabsIn.cons_other {a : List Code} {lo hi : Nat} {cd : Code} (ha : LabsIn a lo hi)
    (h : ∀ l, cd ≠ .LAB l) : LabsIn (cd :: a) lo hi := fun l hl => by
  rcases List.mem_cons.1 hl with e | e
  · exact absurd e.symm (h l)
  · exact ha l e

theorem labsIn_eraseCode (r k : Nat) :
    LabsIn (eraseCode r (labName (k + 1)) (labName (k + 2)) (labName (k + 3))) k (k + 3) := by
  intro l h
  simp only [eraseCode, eraseInner, List.mem_cons, List.mem_append, reduceCtorEq, false_or, or_false,
    Code.LAB.injEq, List.not_mem_nil] at h
  rcases h with (h | h) | h
  · exact ⟨k + 1, h, by omega, by omega⟩
  · exact ⟨k + 2, h, by omega, by omega⟩
  · exact ⟨k + 3, h, by omega, by omega⟩

/-! ## erase_fields -/

theorem fieldOffset_nat (n : TempNum) (i : Nat) :
    fieldOffset n i = ((Scc.Heap.fieldOffset n.toNat i : Nat) : Int) := by
  rw [fieldOffset_eq]; simp [Scc.Heap.fieldOffset]

theorem fieldOffset_fst (i : Nat) : fieldOffset .fst i = ((Scc.Heap.fstOff i : Nat) : Int) :=
  fieldOffset_nat .fst i

theorem fieldOffset_snd (i : Nat) : fieldOffset .snd i = ((Scc.Heap.sndOff i : Nat) : Int) :=
  fieldOffset_nat .snd i

/-- the code that erases child `i` of the block in register `blk` (labels `k+1 … k+3`) -/
def eraseFieldCode (blk i k : Nat) : List Code :=
  [.COMMENT ("#####check child " ++ toString (i + 1) ++ " for erasure"),
   .MOVL TEMP blk (fieldOffset .fst i)] ++
    eraseCode TEMP (labName (k + 1)) (labName (k + 2)) (labName (k + 3))

/-- memory.rs erase_fields: shape of the code -/
theorem eraseFields_run (blk k : Nat) :
    (eraseFields blk FIELDS_PER_BLOCK 0).run k =
      .ok (eraseFieldCode blk 0 k ++ (eraseFieldCode blk 1 (k + 3) ++ (eraseFieldCode blk 2 (k + 6) ++ [])),
        k + 9) := rfl

theorem labsIn_eraseFieldCode (blk i k : Nat) : LabsIn (eraseFieldCode blk i k) k (k + 3) :=
  (labsIn_eraseCode TEMP k).cons_other (by simp) |>.cons_other (by simp)

section EraseFields
variable {c : MachCfg} {μ : MState} {h h' : Scc.Heap.HState}

theorem HRelM.setT (H : HRelM c μ h) {t : Temporary} (h1 : t ≠ .reg HEAP) (h2 : t ≠ .reg FREE)
    (v : Option Word) : HRelM c (μ.setT t v) h := by
  obtain ⟨wh, hwh, ewh⟩ := H.heap
  obtain ⟨wf, hwf, ewf⟩ := H.free
  exact ⟨H.base, H.limit, H.mem, ⟨wh, by simp [Ne.symm h1, hwh], ewh⟩, ⟨wf, by simp [Ne.symm h2, hwf], ewf⟩⟩

theorem maddr_eq {b : Nat} (h1 : 1 ≤ b) (h2 : b < 16) {x : Word} (hv : μ.val (.reg b) = some x) (i : Int) :
    maddr c μ b i = haddr c x i := by
  simp [maddr, h1, h2, hv]

/-- one child: `TEMP := [blk + fst i]; erase TEMP` -/
theorem m_eraseField (C : HeapCfgOK c) (H : HRelM c μ h) {blk : Nat} (hb1 : 2 ≤ blk) (hb2 : blk < 16)
    {b : Word} (hv : μ.val (.reg blk) = some b) {i : Nat} (hi : i < 3) {c0 : Nat}
    (hrd : Scc.Heap.rd h (b.toNat + Scc.Heap.fstOff i) = .ok c0)
    (hop : Scc.Heap.eraseBlock h c0 = .ok h') (k : Nat) :
    ∃ μ', mFwd c (eraseFieldCode blk i k) μ = some (μ', .next) ∧ HRelM c μ' h' ∧
      (∀ u, u ≠ .reg FREE → u ≠ .reg TEMP → μ'.val u = μ.val u) := by
  obtain ⟨hok, hc0⟩ := rd_eq_ok.1 hrd
  have hoff : Scc.Heap.fstOff i < 2 ^ 31 := by simp [Scc.Heap.fstOff, Scc.Heap.fieldOffset]; omega
  have ha := haddr_ok C H hoff hok
  have hm : maddr c μ blk (fieldOffset .fst i) = some (b.toNat + Scc.Heap.fstOff i) := by
    rw [maddr_eq (by omega) hb2 hv, fieldOffset_fst, ha]
  have hb0 : ¬ blk = 0 := by omega
  let μ1 := μ.setT (.reg 1) (some (μ.heap (b.toNat + Scc.Heap.fstOff i)))
  have e1 : mFwd c [.COMMENT ("#####check child " ++ toString (i + 1) ++ " for erasure"),
      .MOVL TEMP blk (fieldOffset .fst i)] μ = some (μ1, .next) := by
    simp [mFwd_cons, mFwd_nil, mcont, mexecC, mexec, hb0, hm, regOpnd, TEMP_eq, μ1]
  have H1 : HRelM c μ1 h := H.setT (by simp [HEAP_eq]) (by simp [FREE_eq]) _
  have hv1 : μ1.val (.reg TEMP) = some (μ.heap (b.toNat + Scc.Heap.fstOff i)) := by simp [μ1, TEMP_eq]
  have hop1 : Scc.Heap.eraseBlock h (μ.heap (b.toNat + Scc.Heap.fstOff i)).toNat = .ok h' := by
    rw [← H.mem, ← hc0]; exact hop
  have l12 : labName (k + 1) ≠ labName (k + 2) := fun e => by have := labName_inj.mp e; omega
  have l13 : labName (k + 1) ≠ labName (k + 3) := fun e => by have := labName_inj.mp e; omega
  have l23 : labName (k + 2) ≠ labName (k + 3) := fun e => by have := labName_inj.mp e; omega
  obtain ⟨μ', e2, H2, F2⟩ := m_erase C H1 (r := TEMP) (by decide) (by decide) hv1 hop1 _ _ _ l12 l13 l23
  refine ⟨μ', mFwd_seq c e1 e2, H2, fun u hF hT => ?_⟩
  rw [F2 u hF]
  rw [TEMP_eq] at hT
  simp [μ1, hT]

/-- CONTRACT of `erase_fields` (the three children of the block in register `blk`, e.g. HEAP) -/
theorem m_eraseFields (C : HeapCfgOK c) (H : HRelM c μ h) {blk : Nat} (hb1 : 2 ≤ blk) (hb2 : blk < 16)
    (hbF : blk ≠ FREE) {b : Word} (hv : μ.val (.reg blk) = some b)
    (hop : Scc.Heap.eraseFields h b.toNat = .ok h') (k : Nat) :
    ∃ code, (eraseFields blk FIELDS_PER_BLOCK 0).run k = .ok (code, k + 9) ∧ LabsIn code k (k + 9) ∧
      ∃ μ', mFwd c code μ = some (μ', .next) ∧ HRelM c μ' h' ∧
        (∀ u, u ≠ .reg FREE → u ≠ .reg TEMP → μ'.val u = μ.val u) := by
  refine ⟨_, eraseFields_run blk k, ?_, ?_⟩
  · exact ((labsIn_eraseFieldCode blk 0 k).mono (Nat.le_refl _) (by omega)).append
      (((labsIn_eraseFieldCode blk 1 (k + 3)).mono (by omega) (by omega)).append
        (((labsIn_eraseFieldCode blk 2 (k + 6)).mono (by omega) (by omega)).append (LabsIn.nil _ _)))
  · have hbT : Temporary.reg blk ≠ .reg TEMP := fun e => by injection e with e; rw [TEMP_eq] at e; omega
    have hbF' : Temporary.reg blk ≠ .reg FREE := fun e => by injection e with e; exact hbF e
    unfold Scc.Heap.eraseFields at hop
    cases hr0 : Scc.Heap.rd h (b.toNat + Scc.Heap.fstOff 0) with
    | error f => simp [hr0] at hop
    | ok c0 =>
      simp only [hr0] at hop
      cases he0 : Scc.Heap.eraseBlock h c0 with
      | error f => simp [he0] at hop
      | ok s1 =>
        simp only [he0] at hop
        obtain ⟨μ1, x1, H1, F1⟩ := m_eraseField C H hb1 hb2 hv (by decide) hr0 he0 k
        have hv1 : μ1.val (.reg blk) = some b := by rw [F1 _ hbF' hbT]; exact hv
        cases hr1 : Scc.Heap.rd s1 (b.toNat + Scc.Heap.fstOff 1) with
        | error f => simp [hr1] at hop
        | ok c1 =>
          simp only [hr1] at hop
          cases he1 : Scc.Heap.eraseBlock s1 c1 with
          | error f => simp [he1] at hop
          | ok s2 =>
            simp only [he1] at hop
            obtain ⟨μ2, x2, H2, F2⟩ := m_eraseField C H1 hb1 hb2 hv1 (by decide) hr1 he1 (k + 3)
            have hv2 : μ2.val (.reg blk) = some b := by rw [F2 _ hbF' hbT]; exact hv1
            cases hr2 : Scc.Heap.rd s2 (b.toNat + Scc.Heap.fstOff 2) with
            | error f => simp [hr2] at hop
            | ok c2 =>
              simp only [hr2] at hop
              obtain ⟨μ3, x3, H3, F3⟩ := m_eraseField C H2 hb1 hb2 hv2 (by decide) hr2 hop (k + 6)
              refine ⟨μ3, mFwd_seq c x1 (mFwd_seq c x2 (mFwd_seq c x3 (mFwd_nil c μ3))), H3, fun u hF hT => ?_⟩
              rw [F3 u hF hT, F2 u hF hT, F1 u hF hT]

end EraseFields

end Scc.X86

/-! ## acquire_block -/

namespace Scc.X86
open Scc.AxCut
open Scc.Backend (GenM TempNum freshLabel)

/-- the move of HEAP into the target -/
def acquireHead : Temporary → List Code
  | .reg r => [.MOV r HEAP]
  | .spill p => [.MOV TEMP HEAP, .MOVS HEAP STACK (stackOffset p)]

/-- case (2)/(3) of acquire_block: the inner `if_zero_then_else FREE` -/
def acquireInner (erased : List Code) (k : Nat) : List Code :=
  [.CMPI FREE 0, .JEL (labName (k + 10))] ++
    ([.COMMENT "####mark linear free list empty", .MOVIM HEAP NEXT_ELEMENT_OFFSET 0,
      .COMMENT "####erase children of next block"] ++ erased) ++
    [.JMPL (labName (k + 11)), .LAB (labName (k + 10))] ++
    [.COMMENT "###(3) fall back to bump allocation", .MOV FREE HEAP,
     .ADDI FREE (fieldOffset .fst FIELDS_PER_BLOCK)] ++ [.LAB (labName (k + 11))]

/-- memory.rs acquire_block: shape of the code, both placements at once -/
theorem acquireBlock_run (t : Temporary) (k : Nat) :
    (acquireBlock t).run k =
      .ok (acquireHead t ++ [.COMMENT "##get next free block into heap register",
          .COMMENT "###(1) check linear free list for next block", .MOVL HEAP HEAP NEXT_ELEMENT_OFFSET] ++
        ([.CMPI HEAP 0, .JEL (labName (k + 12))] ++
          [.COMMENT "####initialize refcount of just acquired block",
           .MOVIM (jumpReg t) REFERENCE_COUNT_OFFSET 0] ++
          [.JMPL (labName (k + 13)), .LAB (labName (k + 12))] ++
          ([.COMMENT "###(2) check non-linear lazy free list for next block", .MOV HEAP FREE,
            .MOVL FREE FREE NEXT_ELEMENT_OFFSET] ++
            acquireInner (eraseFieldCode HEAP 0 k ++ (eraseFieldCode HEAP 1 (k + 3) ++
              (eraseFieldCode HEAP 2 (k + 6) ++ []))) k) ++
          [.LAB (labName (k + 13))]), k + 13) := by
  cases t <;> rfl

end Scc.X86

namespace Scc.X86
open Scc.AxCut
open Scc.Backend (GenM TempNum freshLabel)

theorem mFwd_pre (c : MachCfg) {pre rest : List Code} {μ μ1 : MState}
    (h : mFwd c pre μ = some (μ1, .next)) : mFwd c (pre ++ rest) μ = mFwd c rest μ1 :=
  mFwd_seq c h rfl

theorem jumpReg_bounds {t : Temporary} (ht : TempOK t) :
    1 ≤ jumpReg t ∧ jumpReg t < 16 ∧ jumpReg t ≠ 2 ∧ jumpReg t ≠ 3 ∧ jumpReg t ≠ 0 := by
  cases t with
  | reg r => have := ht.1; have := ht.2; simp only [jumpReg]; omega
  | spill p => simp [jumpReg, TEMP_eq]

theorem tempOK_ne {t : Temporary} (ht : TempOK t) :
    t ≠ .reg 1 ∧ t ≠ .reg 2 ∧ t ≠ .reg 3 := by
  cases t with
  | reg r =>
    have := ht.1
    refine ⟨?_, ?_, ?_⟩ <;> (intro e; injection e with e; omega)
  | spill p => simp

section Acquire
variable {c : MachCfg} {μ : MState} {h h' : Scc.Heap.HState}

theorem m_acquireHead {t : Temporary} (ht : TempOK t) {wH : Word} (hH : μ.val (.reg 2) = some wH) :
    ∃ μ1, mFwd c (acquireHead t) μ = some (μ1, .next) ∧ μ1.val t = some wH ∧
      μ1.val (.reg (jumpReg t)) = some wH ∧ μ1.heap = μ.heap ∧
      (∀ u, u ≠ t → u ≠ .reg TEMP → μ1.val u = μ.val u) := by
  cases t with
  | reg r =>
    have hro : regOpnd r = some (.reg r) := regOpnd_of ht.opnd
    refine ⟨μ.setT (.reg r) (some wH), ?_, by simp, by simp [jumpReg], rfl, fun u hu _ => by simp [hu]⟩
    simp [acquireHead, mFwd_cons, mFwd_nil, mcont, mexecC, mexec, hro, HEAP_eq, regOpnd2, hH]
  | spill p =>
    have hmo : memOpnd 0 (stackOffset p) = some (.spill p) := memOpnd_of ht.opnd
    refine ⟨(μ.setT (.reg 1) (some wH)).setT (.spill p) (some wH), ?_, by simp, by simp [jumpReg, TEMP_eq],
      rfl, fun u hu hT => by rw [TEMP_eq] at hT; simp [hu, hT]⟩
    simp [acquireHead, mFwd_cons, mFwd_nil, mcont, mexecC, mexec, hmo, HEAP_eq, TEMP_eq, STACK_eq, regOpnd1,
      regOpnd2, hH]

theorem labsIn_acquireHead (t : Temporary) (lo hi : Nat) : LabsIn (acquireHead t) lo hi :=
  LabsIn.of_noLab lo hi (fun l => by cases t <;> simp [acquireHead])

theorem labsIn_acquireInner {erased : List Code} {k : Nat} (L : LabsIn erased k (k + 9)) :
    LabsIn (acquireInner erased k) k (k + 11) := by
  unfold acquireInner
  refine LabsIn.append (LabsIn.append (LabsIn.append (LabsIn.append ?_ ?_) ?_) ?_) ?_
  · exact LabsIn.of_noLab _ _ (by simp)
  · exact (LabsIn.of_noLab _ _ (by simp)).append (L.mono (Nat.le_refl _) (by omega))
  · exact ((LabsIn.nil _ _).cons_lab (n := k + 10) (by omega) (by omega)).cons_other (by simp)
  · exact LabsIn.of_noLab _ _ (by simp)
  · exact (LabsIn.nil _ _).cons_lab (by omega) (by omega)

end Acquire
end Scc.X86

namespace Scc.X86
open Scc.AxCut
open Scc.Backend (GenM TempNum freshLabel)

section Acquire2
variable {c : MachCfg} {μ : MState} {h h' : Scc.Heap.HState}

theorem toNat_add_64 (w : Word) (hw : w.toNat + 64 < 2 ^ 64) :
    (w + BitVec.ofInt 64 64).toNat = w.toNat + 64 := by
  have := toNat_add_ofInt_nat w 64 hw
  simpa using this

/-- CONTRACT of `acquire_block` on the view: whenever the heap model acquires a block, the emitted
code — target in a register or in a spill slot — runs to its end, the result represents the model's
result, the target holds the acquired block; only the target, TEMP, HEAP, FREE, the flags and the heap
change. -/
theorem m_acquire (C : HeapCfgOK c) (H : HRelM c μ h) {t : Temporary} (ht : TempOK t) {new : Nat}
    (hop : Scc.Heap.acquire h = .ok (h', new)) (k : Nat) :
    ∃ code, (acquireBlock t).run k = .ok (code, k + 13) ∧ LabsIn code k (k + 13) ∧
      ∃ μ', mFwd c code μ = some (μ', .next) ∧ HRelM c μ' h' ∧
        (∃ w, μ'.val t = some w ∧ w.toNat = new) ∧
        (∀ u, u ≠ t → u ≠ .reg TEMP → u ≠ .reg HEAP → u ≠ .reg FREE → μ'.val u = μ.val u) := by
  have LE : LabsIn (eraseFieldCode HEAP 0 k ++ (eraseFieldCode HEAP 1 (k + 3) ++
      (eraseFieldCode HEAP 2 (k + 6) ++ []))) k (k + 9) :=
    ((labsIn_eraseFieldCode HEAP 0 k).mono (Nat.le_refl _) (by omega)).append
      (((labsIn_eraseFieldCode HEAP 1 (k + 3)).mono (by omega) (by omega)).append
        (((labsIn_eraseFieldCode HEAP 2 (k + 6)).mono (by omega) (by omega)).append (LabsIn.nil _ _)))
  have LI := labsIn_acquireInner LE
  refine ⟨_, acquireBlock_run t k, ?_, ?_⟩
  · refine LabsIn.append (LabsIn.append (labsIn_acquireHead t _ _) (LabsIn.of_noLab _ _ (by simp))) ?_
    refine LabsIn.append (LabsIn.append (LabsIn.append (LabsIn.append ?_ ?_) ?_) ?_) ?_
    · exact LabsIn.of_noLab _ _ (by simp)
    · exact LabsIn.of_noLab _ _ (by simp)
    · exact ((LabsIn.nil _ _).cons_lab (n := k + 12) (by omega) (by omega)).cons_other (by simp)
    · exact (LabsIn.of_noLab _ _ (by simp)).append (LI.mono (Nat.le_refl _) (by omega))
    · exact (LabsIn.nil _ _).cons_lab (by omega) (by omega)
  obtain ⟨wH, hH, eH⟩ := H.heap
  obtain ⟨wF, hF, eF⟩ := H.free
  rw [HEAP_eq] at hH
  rw [FREE_eq] at hF
  obtain ⟨j1, j16, j2, j3, j0⟩ := jumpReg_bounds ht
  obtain ⟨t1, t2, t3⟩ := tempOK_ne ht
  obtain ⟨μ1, x1, v1t, v1j, hp1, F1⟩ := m_acquireHead (c := c) ht hH
  have v1H : μ1.val (.reg 2) = some wH := by rw [F1 _ (Ne.symm t2) (by simp [TEMP_eq])]; exact hH
  have v1F : μ1.val (.reg 3) = some wF := by rw [F1 _ (Ne.symm t3) (by simp [TEMP_eq])]; exact hF
  have hjr : regOpnd (jumpReg t) = some (.reg (jumpReg t)) := regOpnd_of ⟨j1, j16⟩
  have jne2 : ¬ Temporary.reg (jumpReg t) = .reg 2 := fun e => j2 (by injection e)
  have jne3 : ¬ Temporary.reg (jumpReg t) = .reg 3 := fun e => j3 (by injection e)
  have l1213 : labName (k + 12) ≠ labName (k + 13) := fun e => by have := labName_inj.mp e; omega
  have l1011 : labName (k + 10) ≠ labName (k + 11) := fun e => by have := labName_inj.mp e; omega
  unfold Scc.Heap.acquire at hop
  cases hrd : Scc.Heap.rd h h.heap with
  | error f => simp [hrd] at hop
  | ok h0 =>
    simp only [hrd] at hop
    obtain ⟨hok, hh0⟩ := rd_eq_ok.1 hrd
    rw [← eH] at hok hh0
    have aH : haddr c wH 0 = some wH.toNat := haddr_ok0 C H hok
    -- the prefix: head, `mov HEAP, [HEAP + 0]`, `cmp HEAP, 0`
    have xpre : mFwd c (acquireHead t ++ [.COMMENT "##get next free block into heap register",
        .COMMENT "###(1) check linear free list for next block", .MOVL HEAP HEAP NEXT_ELEMENT_OFFSET,
        .CMPI HEAP 0]) μ =
        some ((μ1.setT (.reg 2) (some (μ.heap wH.toNat))).setF (some (μ.heap wH.toNat, 0)), .next) := by
      refine mFwd_seq c x1 ?_
      simp [mFwd_cons, mFwd_nil, mcont, mexecC, mexec, HEAP_eq, regOpnd2, next_zero, maddr, v1H, aH, hp1,
        fitsI32]
    rw [show ∀ (E T : List Code), acquireHead t ++ [.COMMENT "##get next free block into heap register",
          .COMMENT "###(1) check linear free list for next block", .MOVL HEAP HEAP NEXT_ELEMENT_OFFSET] ++
          ([.CMPI HEAP 0, .JEL (labName (k + 12))] ++ E ++ [.JMPL (labName (k + 13)), .LAB (labName (k + 12))] ++
            T ++ [.LAB (labName (k + 13))]) =
        (acquireHead t ++ [.COMMENT "##get next free block into heap register",
          .COMMENT "###(1) check linear free list for next block", .MOVL HEAP HEAP NEXT_ELEMENT_OFFSET,
          .CMPI HEAP 0]) ++ ([.JEL (labName (k + 12))] ++ E ++ [.JMPL (labName (k + 13)), .LAB (labName (k + 12))] ++
            T ++ [.LAB (labName (k + 13))]) from fun E T => by simp, mFwd_pre c xpre]
    by_cases hz : h0 = 0
    · -- (2) / (3): the linear free list is exhausted
      subst hz
      have hx0 : μ.heap wH.toNat = 0#64 := BitVec.eq_of_toNat_eq (by rw [← H.mem, ← hh0]; rfl)
      rw [hx0]
      simp only [ne_eq, not_true_eq_false, if_false] at hop
      cases hrf : Scc.Heap.rd h h.free with
      | error f => simp [hrf] at hop
      | ok f' =>
        simp only [hrf] at hop
        obtain ⟨hokF, hf'⟩ := rd_eq_ok.1 hrf
        rw [← eF] at hokF hf'
        have aF : haddr c wF 0 = some wF.toNat := haddr_ok0 C H hokF
        -- the then-branch of the outer test up to `cmp FREE, 0`
        have xthen : mFwd c [.COMMENT "###(2) check non-linear lazy free list for next block",
            .MOV HEAP FREE, .MOVL FREE FREE NEXT_ELEMENT_OFFSET, .CMPI FREE 0]
            ((μ1.setT (.reg 2) (some 0#64)).setF (some (0#64, 0))) =
            some ((((μ1.setT (.reg 2) (some 0#64)).setT (.reg 2) (some wF)).setT (.reg 3)
              (some (μ.heap wF.toNat))).setF (some (μ.heap wF.toNat, 0)), .next) := by
          simp [mFwd_cons, mFwd_nil, mcont, mexecC, mexec, HEAP_eq, FREE_eq, regOpnd2, regOpnd3, next_zero,
            maddr, v1F, aF, hp1, fitsI32]
        by_cases hfz : f' = 0
        · -- (3) bump allocation
          subst hfz
          have hy0 : μ.heap wF.toNat = 0#64 := BitVec.eq_of_toNat_eq (by rw [← H.mem, ← hf']; rfl)
          simp only [if_true, Except.ok.injEq, Prod.mk.injEq] at hop
          obtain ⟨rfl, rfl⟩ := hop
          have hno : wF.toNat + 64 < 2 ^ 64 := by
            have h2 := hokF.2.1
            have := C.top
            rw [H.limit] at h2
            omega
          refine ⟨((((μ1.setT (.reg 2) (some 0#64)).setT (.reg 2) (some wF)).setT (.reg 3)
              (some 0#64)).setT (.reg 3) (some wF)).setT (.reg 3) (some (wF + BitVec.ofInt 64 64))
              |>.setF none, ?_, ?_, ?_, ?_⟩
          · refine mFwd_ite_then c _ _ _ _ _ _ (a := 0#64) rfl (by simp [skipTo, l1213]) ?_
            unfold acquireInner
            rw [show ∀ (E T : List Code), [.COMMENT "###(2) check non-linear lazy free list for next block",
                  .MOV HEAP FREE, .MOVL FREE FREE NEXT_ELEMENT_OFFSET] ++
                ([.CMPI FREE 0, .JEL (labName (k + 10))] ++ E ++ [.JMPL (labName (k + 11)), .LAB (labName (k + 10))] ++
                  T ++ [.LAB (labName (k + 11))]) =
                [.COMMENT "###(2) check non-linear lazy free list for next block",
                  .MOV HEAP FREE, .MOVL FREE FREE NEXT_ELEMENT_OFFSET, .CMPI FREE 0] ++
                ([.JEL (labName (k + 10))] ++ E ++ [.JMPL (labName (k + 11)), .LAB (labName (k + 10))] ++
                  T ++ [.LAB (labName (k + 11))]) from fun E T => by simp, mFwd_pre c xthen, hy0]
            refine mFwd_ite_then c _ _ _ _ _ _ (a := 0#64) rfl ?_ ?_
            · rw [skipTo_append]
              simp only [skipTo]
              exact LE.skipTo_none (Or.inr (by omega))
            · simp [mFwd_cons, mFwd_nil, mcont, mexecC, mexec, HEAP_eq, FREE_eq, regOpnd2, regOpnd3, fitsI32,
                show fieldOffset .fst FIELDS_PER_BLOCK = 64 from by decide]
          · refine ⟨H.base, H.limit, fun a => by simp [hp1, H.mem], ⟨wF, by simp [HEAP_eq], eF⟩,
              ⟨wF + BitVec.ofInt 64 64, by simp [FREE_eq], ?_⟩⟩
            rw [toNat_add_64 _ hno, eF]; rfl
          · exact ⟨wH, by simp [t2, t3, v1t], eH⟩
          · intro u hu hT hHp hFr
            rw [HEAP_eq] at hHp
            rw [FREE_eq] at hFr
            simp [hHp, hFr, F1 u hu hT]
        · -- (2) the head of the lazy free list; its children are erased
          have hy0 : ¬ μ.heap wF.toNat = 0#64 := fun e => hfz (by rw [hf', H.mem, e]; rfl)
          rw [if_neg hfz] at hop
          cases hwr : Scc.Heap.wr { h with heap := h.free, free := f' } h.free 0 with
          | error e => simp [hwr] at hop
          | ok s1 =>
            simp only [hwr] at hop
            obtain ⟨_, rfl⟩ := wr_eq_ok.1 hwr
            cases hef : Scc.Heap.eraseFields { h with heap := h.free, free := f', mem := h.mem.set h.free 0 }
                h.free with
            | error e => simp [hef] at hop
            | ok s2 =>
              simp only [hef, Except.ok.injEq, Prod.mk.injEq] at hop
              obtain ⟨rfl, rfl⟩ := hop
              -- the state in which `erase_fields` starts
              let μ6 : MState := (((((μ1.setT (.reg 2) (some 0#64)).setT (.reg 2) (some wF)).setT (.reg 3)
                (some (μ.heap wF.toNat))).setH wF.toNat 0#64)).setF (some (μ.heap wF.toNat, 0))
              have H6 : HRelM c μ6 { h with heap := h.free, free := f', mem := h.mem.set h.free 0 } := by
                refine ⟨H.base, H.limit, fun a => ?_, ⟨wF, by simp [μ6, HEAP_eq], eF⟩,
                  ⟨μ.heap wF.toNat, by simp [μ6, FREE_eq], by rw [hf', H.mem]⟩⟩
                simp only [Scc.Heap.Mem.get_set, μ6, MState.setF_heap, MState.setH_heap, MState.setT_heap, hp1,
                  ← eF]
                by_cases e : wF.toNat = a
                · subst e; simp
                · have : ¬ a = wF.toNat := fun x => e x.symm
                  simp [e, this, H.mem a]
              have v6H : μ6.val (.reg HEAP) = some wF := by simp [μ6, HEAP_eq]
              have hef' : Scc.Heap.eraseFields
                  { h with heap := h.free, free := f', mem := h.mem.set h.free 0 } wF.toNat = .ok s2 := by
                rw [eF]; exact hef
              obtain ⟨code', hrun', _, μ7, x7, H7, F7⟩ := m_eraseFields C H6 (blk := HEAP) (by decide) (by decide)
                (by decide) v6H hef' k
              rw [eraseFields_run] at hrun'
              simp only [Except.ok.injEq, Prod.mk.injEq, and_true] at hrun'
              subst hrun'
              refine ⟨μ7, ?_, H7, ?_, ?_⟩
              · refine mFwd_ite_then c _ _ _ _ _ _ (a := 0#64) rfl (by simp [skipTo, l1213]) ?_
                unfold acquireInner
                rw [show ∀ (E T : List Code), [.COMMENT "###(2) check non-linear lazy free list for next block",
                      .MOV HEAP FREE, .MOVL FREE FREE NEXT_ELEMENT_OFFSET] ++
                    ([.CMPI FREE 0, .JEL (labName (k + 10))] ++ E ++ [.JMPL (labName (k + 11)), .LAB (labName (k + 10))] ++
                      T ++ [.LAB (labName (k + 11))]) =
                    [.COMMENT "###(2) check non-linear lazy free list for next block",
                      .MOV HEAP FREE, .MOVL FREE FREE NEXT_ELEMENT_OFFSET, .CMPI FREE 0] ++
                    ([.JEL (labName (k + 10))] ++ E ++ [.JMPL (labName (k + 11)), .LAB (labName (k + 10))] ++
                      T ++ [.LAB (labName (k + 11))]) from fun E T => by simp, mFwd_pre c xthen]
                refine mFwd_ite_else c _ _ _ _ _ _ (a := μ.heap wF.toNat) (b := 0) rfl hy0 l1011
                  (by simp [skipTo]) ?_
                have x6 : mFwd c [.COMMENT "####mark linear free list empty", .MOVIM HEAP NEXT_ELEMENT_OFFSET 0,
                    .COMMENT "####erase children of next block"]
                    ((((μ1.setT (.reg 2) (some 0#64)).setT (.reg 2) (some wF)).setT (.reg 3)
                      (some (μ.heap wF.toNat))).setF (some (μ.heap wF.toNat, 0))) = some (μ6, .next) := by
                  simp [mFwd_cons, mFwd_nil, mcont, mexecC, mexec, HEAP_eq, next_zero, maddr, aF, fitsI32, μ6]
                exact mFwd_seq c x6 x7
              · refine ⟨wH, ?_, eH⟩
                rw [F7 t (by rw [FREE_eq]; exact t3) (by rw [TEMP_eq]; exact t1)]
                simp [μ6, t2, t3, v1t]
              · intro u hu hT hHp hFr
                rw [F7 u hFr hT]
                rw [HEAP_eq] at hHp
                rw [FREE_eq] at hFr
                simp [μ6, hHp, hFr, F1 u hu hT]
    · -- (1) the linear free list has another element
      have hx0 : ¬ μ.heap wH.toNat = 0#64 := fun e => hz (by rw [hh0, H.mem, e]; rfl)
      simp only [ne_eq, hz, not_false_eq_true, if_true] at hop
      cases hwr : Scc.Heap.wr { h with heap := h0 } h.heap 0 with
      | error e => simp [hwr] at hop
      | ok s1 =>
        simp only [hwr, Except.ok.injEq, Prod.mk.injEq] at hop
        obtain ⟨rfl, rfl⟩ := hop
        obtain ⟨_, rfl⟩ := wr_eq_ok.1 hwr
        refine ⟨((μ1.setT (.reg 2) (some (μ.heap wH.toNat))).setH wH.toNat 0#64).setF
          (some (μ.heap wH.toNat, 0)), ?_, ?_, ?_, ?_⟩
        · refine mFwd_ite_else c _ _ _ _ _ _ (a := μ.heap wH.toNat) (b := 0) rfl hx0 l1213 ?_ ?_
          · rw [skipTo_append]
            simp only [skipTo]
            exact LI.skipTo_none (Or.inr (by omega))
          · simp [mFwd_cons, mFwd_nil, mcont, mexecC, mexec, refcount_zero, maddr, j1, j16, j0, jne2, v1j, aH,
              fitsI32]
        · refine ⟨H.base, H.limit, fun a => ?_, ⟨μ.heap wH.toNat, by simp [HEAP_eq], by rw [hh0, H.mem]⟩,
            ⟨wF, by simp [FREE_eq, v1F], eF⟩⟩
          simp only [Scc.Heap.Mem.get_set, MState.setF_heap, MState.setH_heap, MState.setT_heap, hp1, ← eH]
          by_cases e : wH.toNat = a
          · subst e; simp
          · have : ¬ a = wH.toNat := fun x => e x.symm
            simp [e, this, H.mem a]
        · exact ⟨wH, by simp [t2, v1t], eH⟩
        · intro u hu hT hHp hFr
          rw [HEAP_eq] at hHp
          simp [hHp, F1 u hu hT]

end Acquire2
end Scc.X86

/-! ## acquire_block on the machine -/

namespace Scc.X86
open Scc.AxCut

/-- CONTRACT of `acquire_block` (memory.rs) on the SPEC machine: from every boundary state that
represents an abstract heap on which `Scc.Heap.acquire` succeeds — (1) next block of the linear free
list, (2) head of the lazy free list with deferred erasure of its three children, (3) bump of the
frontier — the emitted code (target in a register or in a spill slot) runs to its end; the final state
is a boundary state with the same `rsp`, represents the model's result heap, and holds the acquired
block in the target.  Only the target, TEMP, HEAP, FREE, the flags and the heap change. -/
theorem acquireBlock_contract {c : MachCfg} {la : String → Option Nat} {st : State} {sp : Word}
    (h8 : c.heapBase % 8 = 0) (B : Boundary c st sp) {h h' : Scc.Heap.HState} (R : HeapRel c st h)
    {t : Temporary} (ht : TempOK t) {new : Nat} (hop : Scc.Heap.acquire h = .ok (h', new)) (k : Nat) :
    ∃ code, (acquireBlock t).run k = .ok (code, k + 13) ∧ LabsIn code k (k + 13) ∧
      ∃ st', execFwd c la code st = .ok (st', .next) ∧ Boundary c st' sp ∧ HeapRel c st' h' ∧
        (∃ w, tempVal sp st' t = some w ∧ w.toNat = new) ∧
        FrameT sp st st' (fun u => u = t ∨ u = .reg TEMP ∨ u = .reg HEAP ∨ u = .reg FREE) := by
  obtain ⟨code, hrun, hl, μ', hx, H', ⟨w, hw, ew⟩, hfr⟩ :=
    m_acquire (heapCfgOK_of_boundary h8 B) (heapRel_mview (sp := sp) R) ht hop k
  obtain ⟨st', e, B', M', F⟩ := m_to_machine la B hx
    (changed := fun u => u = t ∨ u = .reg TEMP ∨ u = .reg HEAP ∨ u = .reg FREE)
    (fun u hu => hfr u (fun e => hu (Or.inl e)) (fun e => hu (Or.inr (Or.inl e)))
      (fun e => hu (Or.inr (Or.inr (Or.inl e)))) (fun e => hu (Or.inr (Or.inr (Or.inr e)))))
  exact ⟨code, hrun, hl, st', e, B', heapRel_of_mrep M' H', ⟨w, by rw [M'.vals t ht.opnd]; exact hw, ew⟩, F⟩

end Scc.X86
