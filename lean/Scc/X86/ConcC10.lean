/-
  Scc.X86.ConcC10 — C10 (heap footprint) on concrete x86-64 runs of programs with data types: the
  composition of the peak-based run (`run3_peak`, ConcPeakRun.lean) with the entry (`entry_setup`) and with
  the two generic machine facts of ConcMach.lean.

  * `HeapShapeAt m X below inUse` — the heap of the machine state `X` is consistent (`InvW` for some roots)
    with `below` blocks below the allocation frontier, `inUse` of which are neither on the reusable nor on
    the deferred free list.
  * `PeakAtMost … Pk` — at no statement boundary of the machine's run are more than `Pk` blocks in use.
  * `data_programs_peak` — under `PeakAtMost Pk`, a heap of `64·(Pk + A + 2)` bytes suffices for a terminating
    run of ANY length; at every boundary at most `Pk + 1` blocks lie below the frontier; the highest heap
    address written lies inside the heap region.
  * `runItems_larger_heap` — a run that ends with `done v` in a smaller heap is the same run in a larger one.
-/
import Scc.X86.ConcPeakRun
import Scc.X86.ConcMach

set_option linter.unusedVariables false
set_option linter.unusedSimpArgs false

namespace Scc.X86.Conc

open Scc Scc.AxCut Scc.AxCut.Pos Scc.Backend Scc.Backend.Abs Scc.Backend.Sim Scc.Backend.Subst Scc.X86 Scc.X86.Ref
open Scc.Backend.Sim2 Scc.Backend.Keys
open Scc.Props.C14Generic (LabelSafe)
open Scc.Props.C06Generic (outAfter WithinCapacity Reachable EnoughHeap CodeFits statesOf stopsWithin)
open Scc.Heap (HState InvS InvW Exhausted)
open Scc.Heap.Refine (HRef FrLe Room FrPk)

/-- the heap of the machine state `X` is consistent, with `below` blocks below the allocation frontier,
`inUse` of which are in use (neither on the reusable nor on the deferred free list: reachable, or waiting
beneath a deferred block) -/
def HeapShapeAt (m : MonCfg) (X : State) (below inUse : Nat) : Prop :=
  ∃ (h f : Word) (roots lin lazy live : List Nat) (F : Nat),
    rd X m.consts.heap = .ok h ∧ rd X m.consts.free = .ok f ∧
    InvW (memFn X) m.mach.heapBase (m.mach.heapBase + m.mach.heapBytes) h.toNat f.toNat roots [] lin lazy live F ∧
    (F - m.mach.heapBase) / 64 = below ∧ live.length = inUse

/-- the block-level state that a machine state represents has the machine's heap shape -/
theorem heapShapeAt_of_rel {m : MonCfg} {c : MachCfg} (hm : m.mach = c) (hk : m.consts = consts) {X : State}
    {hs : HState} (HR : HeapRel c X hs) {rs lin lazy live : List Nat} {F : Nat}
    (I : InvS hs rs [] lin lazy live F) : HeapShapeAt m X ((F - hs.base) / 64) live.length := by
  obtain ⟨w, hw, ew⟩ := HR.heap
  obtain ⟨f, hf, ef⟩ := HR.free
  refine ⟨w, f, rs, lin, lazy, live, F, by rw [hk]; exact rd_regIs hw, by rw [hk]; exact rd_regIs hf, ?_,
    by rw [hm, HR.base], rfl⟩
  have hmem : memFn X = hs.mem.get := by
    funext a; exact (HR.mem a).symm
  rw [hm, hmem, ew, ef, ← HR.limit, ← HR.base]
  exact I

/-- THE PEAK HYPOTHESIS: at no statement boundary of the machine's run (from `asm_main`) are more than
`Pk` blocks in use.  Only boundaries with at most `C` blocks below the frontier matter (`C` = the trivial
bound `A·fuel + 1`, `A` the largest number of fields of a `let`: a step of the run moves the frontier by at
most `A` blocks; no other boundary occurs) -/
def PeakAtMost (p : AxCut.Prog) (hooks : Bool) (routine : List Code) (ops : List MockOp) (cfg : MonCfg)
    (items : List (Code × Nat)) (args : List Word) (Pk C : Nat) : Prop :=
  ∀ n X st, stepN cfg (mkProg cfg.mach items) n (initState cfg.mach args 6) = .inl X →
    BoundaryOf p hooks routine ops cfg st X → ∀ below inUse, HeapShapeAt cfg X below inUse → below ≤ C →
    inUse ≤ Pk

/-- the blocks in use lie below the frontier -/
theorem HeapShapeAt.inUse_le {m : MonCfg} {X : State} {below inUse : Nat} (h : HeapShapeAt m X below inUse) :
    inUse ≤ below := by
  obtain ⟨_, _, _, lin, lazy, live, F, _, _, I, h1, h2⟩ := h
  have := I.card
  omega

/-- the peak hypothesis holds trivially for `Pk = C` -/
theorem peakAtMost_trivial (p : AxCut.Prog) (hooks : Bool) (routine : List Code) (ops : List MockOp)
    (cfg : MonCfg) (items : List (Code × Nat)) (args : List Word) (C : Nat) :
    PeakAtMost p hooks routine ops cfg items args C C :=
  fun _ _ _ _ _ _ _ h hb => Nat.le_trans h.inUse_le hb

/-- the result record of a run that ends at `s` -/
theorem runLoop_done_mhw {m : MonCfg} (hm : m.heap = false) (p : Prog) (n : Nat) (s : State) (b : Nat)
    {v : Word} (h : step m p s = .inr (.done v)) :
    (runLoop m p (n + 1) s b).maxHeapWritten = s.maxHeapWritten := by
  simp [runLoop, monitor_off hm, h, finish]

theorem runLoop_stepN_eq {m : MonCfg} (hm : m.heap = false) (p : Prog) (k n : Nat) (s s' : State) (b : Nat)
    (h : stepN m p k s = .inl s') : runLoop m p (k + n) s b = runLoop m p n s' b :=
  runLoop_stepN hm p k n s s' b h

/-- C10 ON THE MACHINE: the run under the footprint bound -/
theorem data_programs_peak (p : AxCut.Prog) (args : List Word) (hooks : Bool) (body routine : List Code)
    (nargs : Nat) (d0 : Def) (ops : List MockOp) (c' : Nat)
    (hsafe : LabelSafe p = true) (htp : LinTypedProg p) (hprog : ProgOK p)
    (hcompM : (compile mockSym hooks p).run 0 = .ok ((ops, nargs), c')) (hfit : CodeFits ops)
    (hcompX : compileX86 p hooks 0 = .ok (body, nargs)) (hrout : intoRoutine body nargs = .ok routine)
    (hnd : (labs routine).Nodup)
    (hd : p.defs.head? = some d0) (hentry : ∀ b ∈ d0.ctx, b.chi = .ext ∧ b.ty = .i64)
    (hcap : ∀ st, Reachable p ⟨d0.ctx, args.map .int, d0.body⟩ st → 2 * st.ctx.length ≤ 266)
    (fuel : Nat) (out : List (Bool × Word)) (v : Word) (hfuel : fuel + 1 < 2 ^ 64)
    (hrun : Pos.run p args fuel = ⟨out, .done v⟩)
    (cfg : MonCfg) (MO : MachOK cfg.mach) (hk : cfg.consts = consts)
    (hb8 : cfg.mach.heapBase % 8 = 0) (hb0 : 0 < cfg.mach.heapBase)
    (Pk A : Nat) (hA : ∀ d ∈ p.defs, LetLe A d.body) (hbytes : 64 * (Pk + A + 2) ≤ cfg.mach.heapBytes)
    (items : List (Code × Nat)) (hitems : (items.map (·.1)).map stripC = routine.map stripC)
    (hfitX : addrAt cfg.mach.codeBase routine routine.length < 2 ^ 64)
    (hP : PeakAtMost p hooks routine ops cfg items args Pk (A * fuel + 1)) :
    (mkProg cfg.mach items).labelIdx["asm_main"]? = some 6 ∧
    ∃ n0 X0 n XL, stepN cfg (mkProg cfg.mach items) n0 (initState cfg.mach args 6) = .inl X0 ∧
      BChain cfg (mkProg cfg.mach items)
        (fun st X => BoundaryOf p hooks routine ops cfg st X ∧
          ∃ below inUse, HeapShapeAt cfg X below inUse ∧ below ≤ Pk + 1 ∧ inUse ≤ Pk)
        (statesOf p fuel ⟨d0.ctx, args.map .int, d0.body⟩) X0 ∧
      stepN cfg (mkProg cfg.mach items) n X0 = .inl XL ∧ step cfg (mkProg cfg.mach items) XL = .inr (.done v) ∧
      XL.out.reverse = out ∧ XL.maxHeapWritten ≤ cfg.mach.heapBytes := by
  have hmem : d0 ∈ p.defs := by
    cases hdefs : p.defs with
    | nil => rw [hdefs] at hd; simp at hd
    | cons d ds => rw [hdefs] at hd; simp at hd; subst hd; simp
  have hlen : d0.ctx.length = args.length ∧
      Pos.runState p fuel ⟨d0.ctx, args.map .int, d0.body⟩ [] = ⟨out, .done v⟩ := by
    unfold Pos.run at hrun
    cases hdefs : p.defs with
    | nil => rw [hdefs] at hd; simp at hd
    | cons d ds =>
      rw [hdefs] at hd hrun
      simp only [List.head?_cons, Option.some.injEq] at hd
      subst hd
      simp only at hrun
      by_cases hl : d.ctx.length ≠ args.length
      · simp [hl] at hrun
      · simp only [hl, if_false] at hrun
        exact ⟨by omega, hrun⟩
  obtain ⟨hlen, hrun'⟩ := hlen
  have hc0 := hcap _ Reachable.refl
  simp only at hc0
  obtain ⟨F, pre, st0, h, n0, X0, a, En⟩ := entry_setup p args hooks body routine nargs d0 ops c' hsafe htp
    hcompM hcompX hrout hnd hd hentry hlen hc0 cfg MO hb0 (by omega) items hitems
  have hFc := En.fc
  -- the peak hypothesis on block-level states
  have hPF : PeakFrom F cfg (mkProg cfg.mach items) routine (Program.ofOps ops) hooks p ⟨d0.ctx, args.map .int, d0.body⟩ X0 Pk (A * fuel + 1) := by
    intro n X' st' cfg' hs' _ hn R hC rs lin live Fr I
    have hB : BoundaryOf p hooks routine ops cfg st' X' := ⟨F, cfg', hs', hFc, R⟩
    obtain ⟨Γ', ι, _, _, X3h, _⟩ := R
    exact hP (n0 + n) X' st' (stepN_trans cfg _ En.steps hn) hB _ _ (heapShapeAt_of_rel hFc.symm hk X3h.hrel I)
      (hC _ _ _ _ _ I)
  -- the frontier at the entry
  have hinit := Scc.Heap.init_inv (base := F.c.heapBase) (limit := F.c.heapBase + F.c.heapBytes)
    (by rw [hFc]; exact hb0) (by rw [hFc]; omega)
  have hfb0 : FrBound (Scc.Heap.init F.c.heapBase (F.c.heapBase + F.c.heapBytes)) (Pk + 1) := by
    intro rs lin lazy live Fr J
    have := (Scc.Heap.InvS.witness_unique hinit J).2.2
    have hb : (Scc.Heap.init F.c.heapBase (F.c.heapBase + F.c.heapBytes)).base = F.c.heapBase := rfl
    rw [hb, this]
    omega
  have hcb0 : FrBound (Scc.Heap.init F.c.heapBase (F.c.heapBase + F.c.heapBytes)) 1 := by
    intro rs lin lazy live Fr J
    have := (Scc.Heap.InvS.witness_unique hinit J).2.2
    have hb : (Scc.Heap.init F.c.heapBase (F.c.heapBase + F.c.heapBytes)).base = F.c.heapBase := rfl
    rw [hb, this]
    omega
  obtain ⟨⟨n, XL, g1, g2, g3⟩, hch⟩ := run3_peak En.frame (by rw [hFc]; exact hb8) hFc.symm En.loaded hnd
    (by rw [hFc]; exact hfitX) En.split En.clean En.entry hooks p 0 ops nargs c' hcompM hsafe htp hfit En.defs
    hprog Pk (A * fuel + 1) A hA (by rw [hFc]; exact hbytes) fuel _ [] (initConfig a args) _ X0 out v 1 En.typed hcap
    En.rel (hprog.2 d0 hmem) (hA d0 hmem) rfl (by rw [En.next1]; omega) hfb0 hcb0 (by omega) hPF hrun'
  refine ⟨En.main, n0, X0, n, XL, En.steps, ?_, g1, g2, g3, ?_⟩
  · -- the chain, with the machine-level shape
    -- strengthen pointwise: every element of the chain is on the run, so `hP` applies
    have key : ∀ (sts : List Pos.State) (X : State) (k : Nat),
        stepN cfg (mkProg cfg.mach items) k (initState cfg.mach args 6) = .inl X →
        BChain cfg (mkProg cfg.mach items) (fun st X => ∃ cfgA hs,
          Rel3 F routine (Program.ofOps ops) hooks p st cfgA hs X ∧ FrBound hs (Pk + 1) ∧
            FrBound hs (A * fuel + 1)) sts X →
        BChain cfg (mkProg cfg.mach items) (fun st X => BoundaryOf p hooks routine ops cfg st X ∧
          ∃ below inUse, HeapShapeAt cfg X below inUse ∧ below ≤ Pk + 1 ∧ inUse ≤ Pk) sts X := by
      intro sts
      induction sts with
      | nil => intro X k _ _; trivial
      | cons st rest ih =>
        intro X k hk' hc
        obtain ⟨⟨cfgA, hs, R, hfb, hcC⟩, hrest⟩ := hc
        have hB : BoundaryOf p hooks routine ops cfg st X := ⟨F, cfgA, hs, hFc, R⟩
        have hX3 : ∃ Γ' ι, X3 F Γ' cfgA hs ι X := by
          obtain ⟨Γ', ι, _, _, X3h, _⟩ := R
          exact ⟨Γ', ι, X3h⟩
        obtain ⟨Γ', ι, X3h⟩ := hX3
        obtain ⟨lin, lazy, live, Fr, I⟩ := X3h.href.conc
        have hsh := heapShapeAt_of_rel (m := cfg) hFc.symm hk X3h.hrel I
        refine ⟨⟨hB, _, _, hsh, hfb _ _ _ _ _ I, hP k X st hk' hB _ _ hsh (hcC _ _ _ _ _ I)⟩, ?_⟩
        rcases hrest with e | ⟨n', X', hn', hc'⟩
        · exact Or.inl e
        · exact Or.inr ⟨n', X', hn', ih X' (k + n') (stepN_trans cfg _ hk' hn') hc'⟩
    exact key _ X0 n0 En.steps hch
  · have := stepN_mhw (n0 + n) (stepN_trans cfg _ En.steps g1) (mhwOK_init cfg.mach args 6)
    exact this


/-- the chain of block-level facts as a chain of facts about the raw machine states, using the peak
hypothesis at every state of the chain (they are all on the run) -/
theorem bchain_shape {p : AxCut.Prog} {hooks : Bool} {routine : List Code} {ops : List MockOp} {cfg : MonCfg}
    {items : List (Code × Nat)} {args : List Word} {Pk C : Nat} {F : Frame} (hFc : F.c = cfg.mach)
    (hk : cfg.consts = consts) (hP : PeakAtMost p hooks routine ops cfg items args Pk C) :
    ∀ (sts : List Pos.State) (X : State) (k : Nat),
      stepN cfg (mkProg cfg.mach items) k (initState cfg.mach args 6) = .inl X →
      BChain cfg (mkProg cfg.mach items) (fun st X => ∃ cfgA hs,
        Rel3 F routine (Program.ofOps ops) hooks p st cfgA hs X ∧ FrBound hs (Pk + 1) ∧ FrBound hs C) sts X →
      BChain cfg (mkProg cfg.mach items) (fun st X => BoundaryOf p hooks routine ops cfg st X ∧
        ∃ below inUse, HeapShapeAt cfg X below inUse ∧ below ≤ Pk + 1 ∧ inUse ≤ Pk) sts X := by
  intro sts
  induction sts with
  | nil => intro X k _ _; trivial
  | cons st rest ih =>
    intro X k hk' hc
    obtain ⟨⟨cfgA, hs, R, hfb, hcC⟩, hrest⟩ := hc
    have hB : BoundaryOf p hooks routine ops cfg st X := ⟨F, cfgA, hs, hFc, R⟩
    have hX3 : ∃ Γ' ι, X3 F Γ' cfgA hs ι X := by
      obtain ⟨Γ', ι, _, _, X3h, _⟩ := R
      exact ⟨Γ', ι, X3h⟩
    obtain ⟨Γ', ι, X3h⟩ := hX3
    obtain ⟨lin, lazy, live, Fr, I⟩ := X3h.href.conc
    have hsh := heapShapeAt_of_rel (m := cfg) hFc.symm hk X3h.hrel I
    refine ⟨⟨hB, _, _, hsh, hfb _ _ _ _ _ I, hP k X st hk' hB _ _ hsh (hcC _ _ _ _ _ I)⟩, ?_⟩
    rcases hrest with e | ⟨n', X', hn', hc'⟩
    · exact Or.inl e
    · exact Or.inr ⟨n', X', hn', ih X' (k + n') (stepN_trans cfg _ hk' hn') hc'⟩

/-- C09/C10 ON THE MACHINE FOR EVERY PREFIX OF EVERY RUN (terminating or not): for ANY number `fuel` of steps
of the positional machine, the machine started at `asm_main` passes — without fault — through a boundary
state for every state the positional machine goes through in `fuel` steps -/
theorem data_programs_prefix (p : AxCut.Prog) (args : List Word) (hooks : Bool) (body routine : List Code)
    (nargs : Nat) (d0 : Def) (ops : List MockOp) (c' : Nat)
    (hsafe : LabelSafe p = true) (htp : LinTypedProg p) (hprog : ProgOK p)
    (hcompM : (compile mockSym hooks p).run 0 = .ok ((ops, nargs), c')) (hfit : CodeFits ops)
    (hcompX : compileX86 p hooks 0 = .ok (body, nargs)) (hrout : intoRoutine body nargs = .ok routine)
    (hnd : (labs routine).Nodup)
    (hd : p.defs.head? = some d0) (hentry : ∀ b ∈ d0.ctx, b.chi = .ext ∧ b.ty = .i64)
    (hlen : d0.ctx.length = args.length)
    (hcap : ∀ st, Reachable p ⟨d0.ctx, args.map .int, d0.body⟩ st → 2 * st.ctx.length ≤ 266)
    (fuel : Nat) (hfuel : fuel + 1 < 2 ^ 64)
    (cfg : MonCfg) (MO : MachOK cfg.mach) (hk : cfg.consts = consts)
    (hb8 : cfg.mach.heapBase % 8 = 0) (hb0 : 0 < cfg.mach.heapBase)
    (Pk A : Nat) (hA : ∀ d ∈ p.defs, LetLe A d.body) (hbytes : 64 * (Pk + A + 2) ≤ cfg.mach.heapBytes)
    (items : List (Code × Nat)) (hitems : (items.map (·.1)).map stripC = routine.map stripC)
    (hfitX : addrAt cfg.mach.codeBase routine routine.length < 2 ^ 64)
    (hP : PeakAtMost p hooks routine ops cfg items args Pk (A * fuel + 1)) :
    (mkProg cfg.mach items).labelIdx["asm_main"]? = some 6 ∧
    ∃ n0 X0, stepN cfg (mkProg cfg.mach items) n0 (initState cfg.mach args 6) = .inl X0 ∧
      BChain cfg (mkProg cfg.mach items)
        (fun st X => BoundaryOf p hooks routine ops cfg st X ∧
          ∃ below inUse, HeapShapeAt cfg X below inUse ∧ below ≤ Pk + 1 ∧ inUse ≤ Pk)
        (statesOf p fuel ⟨d0.ctx, args.map .int, d0.body⟩) X0 := by
  have hmem : d0 ∈ p.defs := by
    cases hdefs : p.defs with
    | nil => rw [hdefs] at hd; simp at hd
    | cons d ds => rw [hdefs] at hd; simp at hd; subst hd; simp
  have hc0 := hcap _ Reachable.refl
  simp only at hc0
  obtain ⟨F, pre, st0, h, n0, X0, a, En⟩ := entry_setup p args hooks body routine nargs d0 ops c' hsafe htp
    hcompM hcompX hrout hnd hd hentry hlen hc0 cfg MO hb0 (by omega) items hitems
  have hFc := En.fc
  have hPF : PeakFrom F cfg (mkProg cfg.mach items) routine (Program.ofOps ops) hooks p ⟨d0.ctx, args.map .int, d0.body⟩ X0 Pk (A * fuel + 1) := by
    intro n X' st' cfg' hs' _ hn R hC rs lin live Fr I
    have hB : BoundaryOf p hooks routine ops cfg st' X' := ⟨F, cfg', hs', hFc, R⟩
    obtain ⟨Γ', ι, _, _, X3h, _⟩ := R
    exact hP (n0 + n) X' st' (stepN_trans cfg _ En.steps hn) hB _ _ (heapShapeAt_of_rel hFc.symm hk X3h.hrel I)
      (hC _ _ _ _ _ I)
  have hinit := Scc.Heap.init_inv (base := F.c.heapBase) (limit := F.c.heapBase + F.c.heapBytes)
    (by rw [hFc]; exact hb0) (by rw [hFc]; omega)
  have hfb0 : FrBound (Scc.Heap.init F.c.heapBase (F.c.heapBase + F.c.heapBytes)) (Pk + 1) := by
    intro rs lin lazy live Fr J
    have := (Scc.Heap.InvS.witness_unique hinit J).2.2
    have hb : (Scc.Heap.init F.c.heapBase (F.c.heapBase + F.c.heapBytes)).base = F.c.heapBase := rfl
    rw [hb, this]
    omega
  have hcb0 : FrBound (Scc.Heap.init F.c.heapBase (F.c.heapBase + F.c.heapBytes)) 1 := by
    intro rs lin lazy live Fr J
    have := (Scc.Heap.InvS.witness_unique hinit J).2.2
    have hb : (Scc.Heap.init F.c.heapBase (F.c.heapBase + F.c.heapBytes)).base = F.c.heapBase := rfl
    rw [hb, this]
    omega
  have hch := run3_prefix En.frame (by rw [hFc]; exact hb8) hFc.symm En.loaded hnd
    (by rw [hFc]; exact hfitX) En.split En.clean En.entry hooks p 0 ops nargs c' hcompM hsafe htp hfit En.defs
    hprog Pk (A * fuel + 1) A hA (by rw [hFc]; exact hbytes) fuel _ (initConfig a args) _ X0 1 En.typed hcap
    En.rel (hprog.2 d0 hmem) (hA d0 hmem) (by rw [En.next1]; omega) hfb0 hcb0 (by omega) hPF
  exact ⟨En.main, n0, X0, En.steps, bchain_shape hFc hk hP _ X0 n0 En.steps hch⟩

/-! ## a larger heap gives the same run -/

theorem mkProg_congr {c1 c2 : MachCfg} (h : c1.codeBase = c2.codeBase) (items : List (Code × Nat)) :
    mkProg c1 items = mkProg c2 items := by
  unfold mkProg
  rw [h]

theorem initState_congr {c1 c2 : MachCfg} (S : Sub c1 c2) (args : List Word) (entry : Nat) :
    initState c1 args entry = initState c2 args entry := by
  unfold initState initRegs
  rw [S.base, S.top]

/-- a run (heap monitor off) that ends with `done v` within its fuel in the smaller heap is the same run,
with the same trace, result and highest written heap address, in the larger heap -/
theorem runLoop_larger_heap {m' m : MonCfg} (S : Sub m'.mach m.mach) (h' : m'.heap = false) (hm : m.heap = false)
    (p : Prog) : ∀ (f : Nat) (s : State) (b : Nat) (v : Word), (runLoop m' p f s b).res = .done v →
      runLoop m p f s b = runLoop m' p f s b
  | 0, s, b, v, h => by simp [runLoop, finish] at h
  | f + 1, s, b, v, h => by
    simp only [runLoop, monitor_off h', monitor_off hm] at h ⊢
    cases hs : step m' p s with
    | inl s1 =>
      rw [hs] at h
      rw [step_mono S hs]
      exact runLoop_larger_heap S h' hm p f s1 b v h
    | inr r =>
      rw [hs] at h
      have hr : r = .done v := by simpa [finish] using h
      subst hr
      rw [step_mono_done S hs]

theorem runItems_larger_heap {m' m : MonCfg} (S : Sub m'.mach m.mach) (h' : m'.heap = false) (hm : m.heap = false)
    (items : List (Code × Nat)) (args : List Word) (f : Nat) (v : Word)
    (h : (runItems items args f m').res = .done v) : runItems items args f m = runItems items args f m' := by
  unfold runItems at *
  dsimp only at *
  rw [mkProg_congr S.code items] at h ⊢
  cases hl : (mkProg m.mach items).labelIdx["asm_main"]? with
  | none => rfl
  | some entry =>
    rw [hl] at h
    dsimp only at h ⊢
    split
    · rfl
    · rename_i hn
      rw [if_neg hn] at h
      rw [initState_congr S] at h ⊢
      exact runLoop_larger_heap S h' hm _ f _ 0 v h

/-- … on the run loop: trace, result and the highest heap address written -/
theorem data_programs_peak_items (p : AxCut.Prog) (args : List Word) (hooks : Bool) (body routine : List Code)
    (nargs : Nat) (d0 : Def) (ops : List MockOp) (c' : Nat)
    (hsafe : LabelSafe p = true) (htp : LinTypedProg p) (hprog : ProgOK p)
    (hcompM : (compile mockSym hooks p).run 0 = .ok ((ops, nargs), c')) (hfit : CodeFits ops)
    (hcompX : compileX86 p hooks 0 = .ok (body, nargs)) (hrout : intoRoutine body nargs = .ok routine)
    (hnd : (labs routine).Nodup)
    (hd : p.defs.head? = some d0) (hentry : ∀ b ∈ d0.ctx, b.chi = .ext ∧ b.ty = .i64)
    (hcap : ∀ st, Reachable p ⟨d0.ctx, args.map .int, d0.body⟩ st → 2 * st.ctx.length ≤ 266)
    (fuel : Nat) (out : List (Bool × Word)) (v : Word) (hfuel : fuel + 1 < 2 ^ 64)
    (hrun : Pos.run p args fuel = ⟨out, .done v⟩)
    (cfg : MonCfg) (MO : MachOK cfg.mach) (hk : cfg.consts = consts) (hheap : cfg.heap = false)
    (hb8 : cfg.mach.heapBase % 8 = 0) (hb0 : 0 < cfg.mach.heapBase)
    (Pk A : Nat) (hA : ∀ d ∈ p.defs, LetLe A d.body) (hbytes : 64 * (Pk + A + 2) ≤ cfg.mach.heapBytes)
    (items : List (Code × Nat)) (hitems : (items.map (·.1)).map stripC = routine.map stripC)
    (hfitX : addrAt cfg.mach.codeBase routine routine.length < 2 ^ 64)
    (hP : PeakAtMost p hooks routine ops cfg items args Pk (A * fuel + 1)) :
    ∃ fuel', (runItems items args fuel' cfg).out = out ∧ (runItems items args fuel' cfg).res = .done v ∧
      (runItems items args fuel' cfg).maxHeapWritten ≤ cfg.mach.heapBytes := by
  obtain ⟨hmain, n0, X0, n, XL, h0, _, g1, g2, g3, hm⟩ := data_programs_peak p args hooks body routine nargs d0 ops
    c' hsafe htp hprog hcompM hfit hcompX hrout hnd hd hentry hcap fuel out v hfuel hrun cfg MO hk hb8 hb0 Pk A hA
    hbytes items hitems hfitX hP
  have hargs : ¬ args.length > 5 := by
    have hmem : d0 ∈ p.defs := by
      cases hdefs : p.defs with
      | nil => rw [hdefs] at hd; simp at hd
      | cons d ds => rw [hdefs] at hd; simp at hd; subst hd; simp
    have hlen : d0.ctx.length = args.length := by
      unfold Pos.run at hrun
      cases hdefs : p.defs with
      | nil => rw [hdefs] at hd; simp at hd
      | cons d ds =>
        rw [hdefs] at hd hrun
        simp only [List.head?_cons, Option.some.injEq] at hd
        subst hd
        simp only at hrun
        by_cases hl : d.ctx.length ≠ args.length
        · simp [hl] at hrun
        · omega
    obtain ⟨_, hnargs⟩ := compile_mock_entry hcompM hd
    rw [hnargs, hlen] at hrout
    obtain ⟨moves, hmv, _⟩ := intoRoutine_shape hrout
    have := moveArguments_le _ _ hmv
    omega
  refine ⟨n0 + (n + 1), ?_⟩
  have hrl : runItems items args (n0 + (n + 1)) cfg =
      runLoop cfg (mkProg cfg.mach items) (n0 + (n + 1)) (initState cfg.mach args 6) 0 := by
    unfold runItems
    simp only [hmain]
    rw [if_neg hargs]
  rw [hrl, runLoop_stepN hheap _ n0 (n + 1) _ _ 0 h0, runLoop_stepN hheap _ n 1 _ _ 0 g1]
  obtain ⟨h1, h2⟩ := runLoop_done hheap (mkProg cfg.mach items) 0 XL 0 g2
  refine ⟨by rw [h1]; exact g3, h2, ?_⟩
  rw [runLoop_done_mhw hheap (mkProg cfg.mach items) 0 XL 0 g2]
  exact hm

/-- the configuration with the heap cut down to `bytes` -/
def withHeapBytes (cfg : MonCfg) (bytes : Nat) : MonCfg := { cfg with mach := { cfg.mach with heapBytes := bytes } }

theorem sub_withHeapBytes {cfg : MonCfg} (MO : MachOK cfg.mach) {bytes : Nat} (h : bytes ≤ cfg.mach.heapBytes) :
    Sub (withHeapBytes cfg bytes).mach cfg.mach :=
  ⟨rfl, rfl, h, rfl, rfl, MO.cfg.heapBelow⟩

theorem machOK_withHeapBytes {cfg : MonCfg} (MO : MachOK cfg.mach) {bytes : Nat} (h : bytes ≤ cfg.mach.heapBytes) :
    MachOK (withHeapBytes cfg bytes).mach :=
  ⟨⟨by have := MO.cfg.heapBelow; show cfg.mach.heapBase + bytes ≤ cfg.mach.stackLow; omega, MO.cfg.top⟩,
    MO.top16, MO.room⟩


end Scc.X86.Conc
