/-
  Scc.X86.ConcKHook — THE HEAP MONITOR AT A STATEMENT BOUNDARY (hooks on), ALL PROGRAMS: the port of
  `monitor_boundary` (Scc/X86/ConcHook.lean) to the closure-aware relation `Scc.X86.Ref.K.Rel3`.  At a machine
  state in relation `K.Rel3` to a positional state the program counter is at the `#ctx […]` comment of the
  statement (`Conc.post_first_hook`), the monitor's parser reads the kinds of the context back from it and its
  check succeeds inside its window (`Conc.heapCheck_ok`: completeness of `invCheckFn`).
  `heapCheck_boundary`: the executable check at a boundary UP TO LABELS AND COMMENTS (`BoundaryOf`: after the
  `jmp reg` of an `invoke` the machine is past the hook comment; the check, run with the kinds of the boundary's
  context, succeeds there as well — it does not look at the program counter).
-/
import Scc.X86.ConcKC10
import Scc.X86.ConcHook

set_option linter.unusedVariables false
set_option linter.unusedSimpArgs false

namespace Scc.X86.ConcK

open Scc Scc.AxCut Scc.AxCut.Pos Scc.Backend Scc.Backend.Abs Scc.X86 Scc.X86.Ref
open Scc.Heap (HState InvS InvW)
open Scc.X86.Conc (HeapInvAt HeapShapeAt ctxKinds heapCheck_ok post_first_hook)

/-- THE MONITOR AT A STATEMENT BOUNDARY, hooks on, on the items of the routine, all programs -/
theorem monitor_boundary {F : Frame} {cfg : MonCfg} (hFc : F.c = cfg.mach) (hk : cfg.consts = consts)
    {routine : List Code} {items : List (Code × Nat)} (hitems : items.map (·.1) = routine)
    {P : Program} {prog : AxCut.Prog} {st : Pos.State} {cfgA : Config} {hs : HState} {X : State}
    (R : K.Rel3 F routine P true prog st cfgA hs X)
    (hparse : ∀ Γ, Code.COMMENT (ctxHookComment Γ) ∈ routine → parseCtx (ctxHookComment Γ) = some (ctxKinds Γ)) :
    ∃ below inUse, HeapShapeAt cfg X below inUse ∧
      (cfg.heap = false → monitor cfg (mkProg cfg.mach items) X = .ok none) ∧
      (cfg.heap = true → 64 * below + 64 ≤ X.maxHeapWritten + 512 →
        monitor cfg (mkProg cfg.mach items) X = .ok (some below)) := by
  obtain ⟨Γ', ι, κ, hkeys, RX, X3h, _, k, k', its, hrun, hat⟩ := R
  obtain ⟨rest, hfirst⟩ := post_first_hook natRen prog.types st.stmt Γ' k its k' hrun
  -- the item at the program counter
  obtain ⟨cs1, cs2, hcs, hlen⟩ := hat
  have hget : routine[X.pc]? = some (Code.COMMENT (ctxHookComment Γ')) := by
    rw [hcs, hfirst, ← hlen]
    simp
  have hmem : Code.COMMENT (ctxHookComment Γ') ∈ routine := List.mem_of_getElem? hget
  have hcode : (mkProg cfg.mach items).code[X.pc]? = some (Code.COMMENT (ctxHookComment Γ')) := by
    show (items.map (·.1)).toArray[X.pc]? = _
    rw [hitems, List.getElem?_toArray]
    exact hget
  obtain ⟨⟨roots, h, f, lin, lazy, live, Fr, hr, hh, hf, I⟩, _⟩ := heapInvAt_of_x3 (m := cfg) hFc.symm hk RX X3h
  rw [hFc] at I
  refine ⟨(Fr - cfg.mach.heapBase) / 64, live.length, ⟨h, f, _, lin, lazy, live, Fr, hh, hf, I, rfl, rfl⟩, ?_, ?_⟩
  · intro hoff
    simp [monitor, hoff]
  · intro hon hw
    have hFb := I.frontier_block
    unfold Scc.Heap.IsBlock at hFb
    have hchk := heapCheck_ok hr hh hf I (by omega)
    unfold monitor
    simp only [hon, Bool.not_true, Bool.false_eq_true, if_false, hcode, hparse Γ' hmem, hchk]

/-- THE EXECUTABLE HEAP CHECK SUCCEEDS AT EVERY STATEMENT BOUNDARY (inside the monitor's window), all programs -/
theorem heapCheck_boundary {p : AxCut.Prog} {hooks : Bool} {routine : List Code} {ops : List MockOp}
    {cfg : MonCfg} (hk : cfg.consts = consts) {st : Pos.State} {X : State}
    (B : BoundaryOf p hooks routine ops cfg st X) :
    ∃ below inUse, HeapShapeAt cfg X below inUse ∧
      (64 * below + 64 ≤ X.maxHeapWritten + 512 → heapCheck cfg X (ctxKinds st.ctx) = .ok below) := by
  obtain ⟨roots, h, f, lin, lazy, live, F, hr, hh, hf, I⟩ := heapInvAt_of_boundary hk B
  refine ⟨(F - cfg.mach.heapBase) / 64, live.length, ⟨h, f, _, lin, lazy, live, F, hh, hf, I, rfl, rfl⟩, ?_⟩
  intro hw
  apply heapCheck_ok hr hh hf I
  have hFb := I.frontier_block
  unfold Scc.Heap.IsBlock at hFb
  omega

end Scc.X86.ConcK
