/-
  Scc.X86.RefClosCreate — THREE-WAY SIMULATION OF `create` on x86-64 (C06, closures): the closure
  environment is stored like the fields of an object (`store_mid`: the `store` of `let`, for a new last
  position of any non-`ext` kind), then the ADDRESS OF THE METHOD TABLE is loaded: the address of the table
  label in the mock code on the abstract machine (`ll`), its BYTE ADDRESS in the loaded routine on x86-64
  (`lea`, `LoadedA.labelAddr`).  The lemma also says where the methods are on both sides (`MethodsAt`,
  `XMethodsAt`: for the SAME environment context, the suffix of the context that the generator splits off).
-/
import Scc.X86.RefClosXC

set_option linter.unusedVariables false
set_option linter.unusedSimpArgs false

namespace Scc.X86.Ref.K

open Scc.AxCut Scc.AxCut.Pos Scc.Backend Scc.Backend.Abs Scc.Backend.Sim Scc.Backend.Sim2 Scc.X86
open Scc.Heap (HState InvS InvW)
open Scc.Heap.Refine (HRef FrLe Room)

section Create3

variable {F : Frame} (H : FrameOK F) (h8 : F.c.heapBase % 8 = 0) {mon : MonCfg} (hmon : mon.mach = F.c)
  {px : X86.Prog} {cs : List Code} (L : Loaded px cs) (hnd : (labs cs).Nodup)

include H h8 hmon L hnd in
/-- the `store` of `let` / `create` on both machines: the positions `N, N+1, …` become the fields of a new
object, referenced by the pointer part of the new position `N` (a binding `b` of non-`ext` kind) -/
theorem store_mid {P : Program} {Γ : Ctx} {N : Nat} (hNle : N ≤ Γ.length) {b : Binding} (hb : b.chi ≠ .ext)
    {cfg cA : Config} {hs : HState} {ι : Nat → Nat} {κ : Nat → Nat → Word} {st0 : State}
    (X0 : X3 F Γ cfg hs ι κ st0)
    (hstore : P.code[cfg.pc]? = some (.store (Mock.kindsOf (Γ.drop N)) N))
    (hsA : Abs.step P cfg = .next cA)
    {fields : List Abs.Field} (hf : readFields cfg.temps (Mock.kindsOf (Γ.drop N)) N = some fields)
    (hch : Obj.children ⟨0, fields⟩ = roots.go cfg.temps (Γ.drop N) N)
    (hnext : cfg.next < 2 ^ 64) (hroom : Room hs (64 * (Γ.length - N) + 64))
    {k kst : Nat} {cst rest : List Code}
    (hstX : (store (Γ.drop N) (Γ.take N)).run k = .ok (cst, kst))
    (hat1 : XAt cs st0.pc (cst ++ rest)) :
    ∃ st1 hs' ι' κ' n1, stepN mon px n1 st0 = .inl st1 ∧ st1.pc = st0.pc + cst.length ∧
      X3R F (Γ.take N) cA (roots (Γ.take N) cA.temps ++ rootOf cA.temps b N) hs' ι' κ' st1 ∧
      (∀ r, cA.temps.get (2 * N) = some r → tempVal F.sp st1 (posTemp (2 * N)) = some (imgWord ι' r)) ∧
      cA.pc = cfg.pc + 1 ∧ FrLe hs hs' (64 * (Γ.length - N)) ∧
      cA.out = cfg.out ∧ cA.next ≤ cfg.next + 1 ∧
      (∀ t, t < 2 * N → cA.temps.get t = cfg.temps.get t) ∧
      (∀ t, t < 2 * N → tempVal F.sp st1 (posTemp t) = tempVal F.sp st0 (posTemp t)) ∧
      ((Γ.drop N = [] ∧ cA.heap = cfg.heap ∧ κ' = κ ∧ cA.temps.get (2 * N) = some 0) ∨
       (Γ.drop N ≠ [] ∧ cA.heap = (cfg.next, ⟨0, fields⟩) :: cfg.heap ∧ κ' = storeK F st0 κ cfg.next N ∧
        cA.temps.get (2 * N) = some (BitVec.ofNat 64 cfg.next))) := by
  have hlenTake : (Γ.take N).length = N := by simp [Nat.min_eq_left hNle]
  have hbne : (b.chi != Chi.ext) = true := (Scc.Backend.Sim2.chi_bne_ext _).mpr hb
  cases hΔ : Γ.drop N with
  | nil =>
    have hNΓ : N = Γ.length := by
      have := congrArg List.length hΔ
      simp at this; omega
    rw [hΔ] at hstore hstX
    have hT : Γ.take N = Γ := by rw [hNΓ]; exact List.take_length
    rw [hT] at hstX ⊢
    have hA := step_store_empty P cfg N hstore
    rw [hsA] at hA
    injection hA with hA
    have hlow : ∀ t, t < 2 * Γ.length → cA.temps.get t = cfg.temps.get t := by
      intro t ht
      rw [hA]
      simp only
      rw [get_set_other _ _ (by omega), get_clobberTemp _ (by unfold Mock.T_TEMP; have := X0.cap; omega)]
    obtain ⟨code, kk', hrunS, _, _, st1, hx, hpc1, X1, hv1, hkeepE⟩ :=
      store_x3_empty (la := px.labelAddr) H h8 X0 hlow (by rw [hA]) (by rw [hA]) (by rw [hA]) k
    have hcode : code = cst ∧ kk' = kst := by
      have : (store [] Γ).run k = .ok (cst, kst) := hstX
      rw [hrunS] at this
      injection this with this
      injection this with e1 e2
      exact ⟨e1, e2⟩
    obtain ⟨rfl, rfl⟩ := hcode
    rw [← hmon] at hx
    obtain ⟨n1, steps1, hn1⟩ := x_steps_fwd mon L hnd hat1.left hx
    have h2n : cA.temps.get (2 * N) = some 0 := by
      rw [hA]; simp only; exact get_set_same _ _ _
    refine ⟨_, hs, ι, κ, n1, hn1, rfl, ?_, ?_, by rw [hA], by
      rw [hNΓ, Nat.sub_self]; exact Scc.Heap.Refine.FrLe.refl hs, by rw [hA], by rw [hA]; exact Nat.le_succ _,
      fun t ht => hlow t (by omega),
      fun t ht => by rw [tempVal_setPS]; exact hkeepE t (by omega),
      Or.inl ⟨rfl, by rw [hA], rfl, h2n⟩⟩
    · have hr : rootOf cA.temps b N = [] := by
        unfold rootOf; rw [h2n]; simp
      rw [hr, List.append_nil, roots_congr _ _ _ (fun i hi => hlow (2 * i) (by omega))]
      exact X3R.setPS X1 _ _
    · intro r hr
      rw [h2n] at hr
      injection hr with hr
      subst hr
      rw [tempVal_setPS, hNΓ, hv1]
      simp [imgWord]
  | cons b0 Δ =>
    rw [hΔ] at hstore
    have hfc : readFields cfg.temps (b0.chi :: Mock.kindsOf Δ) N = some fields := by
      rw [hΔ] at hf; exact hf
    have hA := step_store_cons P cfg b0.chi (Mock.kindsOf Δ) N fields hstore hfc
    rw [hsA] at hA
    injection hA with hA
    have hNlt : N < Γ.length := by
      have := congrArg List.length hΔ
      simp at this; omega
    have hlow : ∀ t, t < 2 * N → cA.temps.get t = cfg.temps.get t := by
      intro t ht
      rw [hA]
      simp only
      rw [get_set_other _ _ (by omega), get_clearPositions, if_neg (by omega),
        get_clobberTemp _ (by unfold Mock.T_TEMP; have := X0.cap; omega)]
    obtain ⟨code, kk', hrunS, _, _, st1, hs', p, hx, hpc1, X1, hv1, hp0, hplt, hfrS, hkeepS⟩ :=
      store_x3 (la := px.labelAddr) H h8 X0 hNlt (by rw [hΔ]; exact hfc) hch hnext hlow (by rw [hA]) (by rw [hA])
        (by rw [hA]) hroom k
    have hcode : code = cst ∧ kk' = kst := by
      have : (store (Γ.drop N) (Γ.take N)).run k = .ok (cst, kst) := hstX
      rw [hrunS] at this
      injection this with this
      injection this with e1 e2
      exact ⟨e1, e2⟩
    obtain ⟨rfl, rfl⟩ := hcode
    rw [← hmon] at hx
    obtain ⟨n1, steps1, hn1⟩ := x_steps_fwd mon L hnd hat1.left hx
    have h2n : cA.temps.get (2 * N) = some (BitVec.ofNat 64 cfg.next) := by
      rw [hA]; simp only; exact get_set_same _ _ _
    have hr0 : BitVec.ofNat 64 cfg.next ≠ 0 := ofNat_ne_zero X0.href.abs.pos hnext
    have hrt : (BitVec.ofNat 64 cfg.next).toNat = cfg.next := ofNat_toNat_lt hnext
    refine ⟨_, hs', (fun i => if i = cfg.next then p else ι i), storeK F st0 κ cfg.next N, n1, hn1, rfl, ?_, ?_,
      by rw [hA], hfrS, by rw [hA], by rw [hA]; exact Nat.le_refl _, hlow,
      fun t ht => by rw [tempVal_setPS]; exact hkeepS t ht,
      Or.inr ⟨by simp, by rw [hA], rfl, h2n⟩⟩
    · have hr : rootOf cA.temps b N = [cfg.next] := by
        unfold rootOf
        rw [h2n]
        have h2 : (BitVec.ofNat 64 cfg.next != 0) = true := by rw [bne_iff_ne]; exact hr0
        simp only [hbne, h2, if_true, hrt]
      rw [hr, roots_congr _ _ _ (fun i hi => hlow (2 * i) (by rw [hlenTake] at hi; omega))]
      exact X3R.setPS X1 _ _
    · intro r hr
      rw [h2n] at hr
      injection hr with hr
      subst hr
      rw [tempVal_setPS, hv1]
      unfold imgWord
      rw [if_neg hr0, hrt]
      simp

include H h8 hmon L hnd in
/-- THREE-WAY SIMULATION OF `create` -/
theorem create_x3 (LA : LoadedA F.c px cs) {P : Program} {hooks : Bool} {prog : AxCut.Prog} {Γ : Ctx}
    {ρ : List Value} {x : Ident} {ty : Ty} {Γc : Ctx} {clauses : Clauses} {next : Stmt} {f1 f2 : FV}
    {cfg : Config}
    (R : RelX P hooks prog ⟨Γ, ρ, .create x ty (some Γc) clauses next f1 f2⟩ cfg)
    (hk : Γc.length ≤ Γ.length)
    (hkeys : Ctx.keys (Γ.drop (Γ.length - Γc.length)) = Γc.keys)
    (hfresh : ∀ b ∈ Γ.take (Γ.length - Γc.length), b.var.id ≠ x.id)
    (hcap : 2 * (Γ.length - Γc.length + 1) + 2 < Mock.T_TEMP)
    (hnext : cfg.next < 2 ^ 64)
    {hs : HState} {ι : Nat → Nat} {κ : Nat → Nat → Word} {st : State} (X : X3 F Γ cfg hs ι κ st)
    {k k' : Nat} {items : List Code}
    (hrun : (codeStatementR x86Backend hooks natRen prog.types (.create x ty (some Γc) clauses next f1 f2) Γ).run k =
      .ok (items, k'))
    (hat : XAt cs st.pc items)
    (hroom : Room hs (64 * Γc.length + 64)) :
    ∃ cfg' st' hs' ι' κ' n, stepsTo P 2 cfg cfg' ∧ stepN mon px n st = .inl st' ∧ FrLe hs hs' (64 * Γc.length) ∧
      cfg'.out = cfg.out ∧ cfg'.next ≤ cfg.next + 1 ∧
      RelX P hooks prog ⟨Γ.take (Γ.length - Γc.length) ++ [⟨x, .cns, ty⟩],
        ρ.take (Γ.length - Γc.length) ++ [.clo Γc (ρ.drop (Γ.length - Γc.length)) clauses], next⟩ cfg' ∧
      X3 F (Γ.take (Γ.length - Γc.length) ++ [⟨x, .cns, ty⟩]) cfg' hs' ι' κ' st' ∧
      ∃ k1 k1' items', (codeStatementR x86Backend hooks natRen prog.types next
          (Γ.take (Γ.length - Γc.length) ++ [⟨x, .cns, ty⟩])).run k1 = .ok (items', k1') ∧
        XAt cs st'.pc items' ∧ LetProv F Γ (Γ.length - Γc.length) cfg cfg' κ κ' st st' ∧
        ∃ a w, cfg'.temps.get (2 * (Γ.length - Γc.length) + 1) = some (BitVec.ofNat 64 a) ∧
          tempVal F.sp st' (posTemp (2 * (Γ.length - Γc.length) + 1)) = some w ∧
          MethodsAt P hooks prog.types a (Γ.drop (Γ.length - Γc.length)) clauses ∧
          XMethodsAt F.c cs hooks prog.types w (Γ.drop (Γ.length - Γc.length)) clauses := by
  obtain ⟨cfg', hst, hout', hnx', R'⟩ := sim2_create R hk hkeys hfresh hcap hnext
  -- the mock code at the program counter (as in `sim2_create`)
  obtain ⟨c, c', ops, hrunM, hatM⟩ := R.code
  simp only [codeStatementR, run_bind_ok, run_pure_ok, freshLabelStr_run_ok, splitOffLast_run_ok,
    mockSym_store, mockSym_variableTemporary, vt_run_ok] at hrunM
  obtain ⟨sp, k1, ⟨_, rfl, rfl⟩, c1, k2, ⟨rfl, rfl⟩, num, k3, ⟨rfl, rfl⟩, t, k4, ⟨p, hp, rfl, rfl⟩,
    c3, k5, h3, c5, k6, h5, rfl, rfl⟩ := hrunM
  have hn : (Γ.take (Γ.length - Γc.length)).length = Γ.length - Γc.length := by simp
  have hp' : p = Γ.length - Γc.length := by
    rw [ctxPosition_eq_posOf] at hp
    have := posOf_append_fresh (Γ.take (Γ.length - Γc.length)) ⟨x, .cns, ty⟩ hfresh
    simp only at hp
    rw [this, hn] at hp
    exact (Option.some.inj hp).symm
  subst hp'
  simp only [mockSym_comment, mockSym_loadLabel, mockSym_label, List.append_assoc, CodeAt_hook] at hatM
  simp only [List.cons_append, List.nil_append, CodeAt, TempNum.toNat] at hatM
  obtain ⟨hstore, hll, hat'⟩ := hatM
  rw [CodeAt_append] at hat'
  obtain ⟨hat3, hat45⟩ := hat'
  simp only [CodeAt] at hat45
  obtain ⟨hlab, hat45'⟩ := hat45
  rw [hn] at hstore
  -- the x86 code at the program counter
  simp only [codeStatementR, run_bind_ok, run_pure_ok, freshLabelStr_run_ok, splitOffLast_run_ok] at hrun
  obtain ⟨spX, _, ⟨_, rfl, rfl⟩, cst, kst, hstX, numX, _, ⟨rfl, rfl⟩, tX, _, htX, c3X, k5X, h3X, c5X, k6X, h5X,
    rfl, rfl⟩ := hrun
  obtain ⟨pX, hpX, hltX, rfl, rfl⟩ := (x86_vt_run_ok _ _ _ _ _ _).1 htX
  have hpX' : pX = Γ.length - Γc.length := by
    have := posOf_append_fresh (Γ.take (Γ.length - Γc.length)) ⟨x, .cns, ty⟩ hfresh
    simp only at hpX
    rw [this, hn] at hpX
    exact (Option.some.inj hpX).symm
  subst hpX'
  simp only [TempNum.toNat] at hltX
  generalize hN : Γ.length - Γc.length = N at *
  have hNle : N ≤ Γ.length := by omega
  -- the two abstract steps, explicitly
  obtain ⟨cA, hsA, cB, hsB, hcB⟩ := hst
  have hcB' : cB = cfg' := hcB
  subst hcB'
  -- layout of the x86 items
  simp only [] at hstX h3X htX hat h3 hp hpX h5 h5X
  generalize hlbl : mangleTy ty ++ "_" ++ natRen (kst + 1) = lbl at *
  have hxc : x86Backend.comment "#load tag" = Code.COMMENT "#load tag" := rfl
  have hxl : x86Backend.loadLabel (posTemp (2 * N + TempNum.snd.toNat)) lbl = loadLabel (posTemp (2 * N + 1)) lbl := rfl
  have hxlab : x86Backend.label lbl = Code.LAB lbl := rfl
  rw [hxc, hxl, hxlab] at hat
  generalize hc0 : hookCode x86Backend hooks Γ ++ [x86Backend.comment
      ("create " ++ x.print ++ ": " ++ tyPrint ty ++ " = (" ++ varsPrint Γc ++ ")\\{ ... \\};")] = c0 at hat
  have hc0c : ∀ y ∈ c0, ∃ m', y = Code.COMMENT m' := by rw [← hc0]; exact hook_comments hooks Γ _
  generalize hT : (if clauses.length > 1 then codeTable x86Backend clauses lbl else []) = table at hat
  have hatA : XAt cs st.pc (c0 ++ (cst ++ ((Code.COMMENT "#load tag" :: loadLabel (posTemp (2 * N + 1)) lbl) ++
      (c3X ++ (Code.LAB lbl :: (table ++ c5X)))))) := by
    simpa [List.append_assoc] using hat
  -- the comments
  obtain ⟨k0, hk0⟩ := x_steps_straight mon L hatA.left
    (execStraight_comments mon.mach px.labelAddr c0 st hc0c)
  have X0 : X3 F Γ cfg hs ι κ (setPS st (st.pc + c0.length) k0) := X3R.setPS X _ _
  have hat1 : XAt cs (setPS st (st.pc + c0.length) k0).pc (cst ++ ((Code.COMMENT "#load tag" ::
      loadLabel (posTemp (2 * N + 1)) lbl) ++ (c3X ++ (Code.LAB lbl :: (table ++ c5X))))) := hatA.right
  have hst0 : ∀ t, tempVal F.sp (setPS st (st.pc + c0.length) k0) t = tempVal F.sp st t :=
    fun t => tempVal_setPS _ _ _ _ t
  generalize setPS st (st.pc + c0.length) k0 = st0 at hk0 X0 hat1 hst0
  -- the fields read by the abstract `store`
  have hlenρ : (ρ.drop N).length = (Γ.drop N).length := by
    have := R.len; simp only at this; simp [this]
  obtain ⟨fields, hf, hrep, hch⟩ := readFields_ok2 (Γ.drop N) (ρ.drop N) N (R.vals.slice N) hlenρ
  have hlenTake : (Γ.take N).length = N := hn
  -- the store on both machines
  obtain ⟨st1, hs', ι', κ', n1, hn1, hpc1, X1, hptr1, hpcA, hfrM, _, _, hlowM, hmachM, hobjM⟩ :=
    store_mid H h8 hmon L hnd hNle (b := ⟨x, .cns, ty⟩) (by intro h; cases h) X0 hstore hsA hf (hch 0) hnext
      (by rw [show Γ.length - N = Γc.length by omega]; exact hroom) hstX hat1
  -- the table label in the loaded routine
  obtain ⟨cs1, rest1, hcs, hpcs1⟩ := hat1
  have hcsL : cs = (cs1 ++ cst ++ (Code.COMMENT "#load tag" :: loadLabel (posTemp (2 * N + 1)) lbl) ++ c3X) ++
      Code.LAB lbl :: ((table ++ c5X) ++ rest1) := by
    rw [hcs]; simp [List.append_assoc]
  have hiL : cs[(cs1 ++ cst ++ (Code.COMMENT "#load tag" :: loadLabel (posTemp (2 * N + 1)) lbl) ++ c3X).length]? =
      some (Code.LAB lbl) := by
    conv => lhs; rw [hcsL]
    exact getElem?_mid _ _ _
  have hl := LA.labelAddr hnd hiL
  generalize hidx : (cs1 ++ cst ++ (Code.COMMENT "#load tag" :: loadLabel (posTemp (2 * N + 1)) lbl) ++ c3X).length =
    idx at hiL hl
  -- the table address
  have hll' : P.code[cA.pc]? = some (.ll (2 * N + 1) (mangleTy ty ++ "_" ++ natRen (c + 1))) := by
    rw [hpcA]; exact hll
  have hB := step_ll P cA (2 * N + 1) _ _ hll' (by unfold Mock.T_TEMP; omega) hlab
  rw [hsB] at hB
  injection hB with hB
  have hat2 : XAt cs st1.pc ((Code.COMMENT "#load tag" :: loadLabel (posTemp (2 * N + 1)) lbl) ++
      (c3X ++ (Code.LAB lbl :: (table ++ c5X)))) := by
    rw [hpc1]
    exact ⟨cs1 ++ cst, rest1, by rw [hcs]; simp [List.append_assoc], by simp [hpcs1]⟩
  obtain ⟨st2, hx2, B2, hv2, P2⟩ := loadLabel_correct (la := px.labelAddr) X1.bnd (tempOK_posTemp hltX) hl
  have hx2' : execStraight mon.mach px.labelAddr (Code.COMMENT "#load tag" ::
      loadLabel (posTemp (2 * N + 1)) lbl) st1 = .ok st2 := by
    rw [hmon]
    simp only [execStraight, execCode]
    exact hx2
  obtain ⟨k2', hk2⟩ := x_steps_straight mon L hat2.left hx2'
  have X2 : X3R F (Γ.take N ++ [⟨x, .cns, ty⟩]) cB
      (roots (Γ.take N) cA.temps ++ rootOf cA.temps ⟨x, .cns, ty⟩ N) hs' ι' κ' st2 := by
    refine X3R.snoc H X1 (by rw [hlenTake]; exact hltX) B2 (by rw [hlenTake]; exact P2)
      (a := BitVec.ofNat 64 (cfg.pc + 1 + 1 + instrCount c3))
      (w := BitVec.ofNat 64 (addrAt F.c.codeBase cs idx)) (by rw [hlenTake, hv2]) (fun h => absurd rfl h)
      (by rw [hB, hlenTake]) (by rw [hB]) (by rw [hB]) (by rw [hB]) ?_
    intro _ r hr
    rw [hlenTake] at hr ⊢
    exact hptr1 r hr
  have hgetB : ∀ t, t ≠ 2 * N + 1 → t < 267 → cB.temps.get t = cA.temps.get t := by
    intro t hne ht
    rw [hB]
    simp only
    rw [get_set_other _ _ hne, get_clobberTemp _ (by unfold Mock.T_TEMP; omega)]
  have hrootsB : roots (Γ.take N ++ [⟨x, .cns, ty⟩]) cB.temps =
      roots (Γ.take N) cA.temps ++ rootOf cA.temps ⟨x, .cns, ty⟩ N := by
    rw [roots_snoc, hlenTake]
    congr 1
    · exact roots_congr _ _ _ (fun i hi => hgetB (2 * i) (by omega) (by rw [hlenTake] at hi; omega))
    · unfold rootOf
      rw [hgetB (2 * N) (by omega) (by omega)]
  have hκeq : storeK F st0 κ cfg.next N = storeK F st κ cfg.next N := by
    funext i j
    simp only [storeK, hst0]
  refine ⟨cB, _, hs', ι', κ', _, ⟨cA, hsA, cB, hsB, rfl⟩, stepN_trans mon px hk0 (stepN_trans mon px hn1 hk2),
    by rw [show Γ.length - N = Γc.length by omega] at hfrM; exact hfrM,
    hout', hnx', R', ?_, kst + 1, k5X, c3X, h3X, ?_, ?_, cfg.pc + 1 + 1 + instrCount c3,
    BitVec.ofNat 64 (addrAt F.c.codeBase cs idx), ?_, ?_, ?_, ?_⟩
  · show X3R F _ cB (roots _ cB.temps) hs' ι' κ' _
    rw [hrootsB]
    exact X3R.setPS X2 _ _
  · have := hat2.right.left
    exact this
  · -- what happened to the positions and the heap
    refine ⟨⟨fun t ht => ?_, fun i hi => ?_⟩, fields, hf, ?_⟩
    · rw [hgetB t (by omega) (by omega)]
      exact hlowM t ht
    · rw [tempVal_setPS, mach_keep_some hltX P2 (by omega) (by omega), hmachM _ (by omega), hst0]
    · rcases hobjM with ⟨h1, h2, h3, h4⟩ | ⟨h1, h2, h3, h4⟩
      · exact Or.inl ⟨h1, by rw [hB]; exact h2, h3, by rw [hgetB _ (by omega) (by omega)]; exact h4⟩
      · exact Or.inr ⟨h1, by rw [hB]; exact h2, by rw [h3, hκeq], by rw [hgetB _ (by omega) (by omega)]; exact h4⟩
  · rw [hB]; simp only; exact get_set_same _ _ _
  · rw [tempVal_setPS]; exact hv2
  · refine ⟨mangleTy ty ++ "_" ++ natRen (c + 1), k5, k6, c5, ?_, ?_⟩
    · simpa using h5
    · simp only [CodeAt]
      exact ⟨hlab, hat45'⟩
  · refine ⟨lbl, k5X, k6X, c5X, idx, h5X, ?_, rfl⟩
    rw [hT]
    refine ⟨cs1 ++ cst ++ (Code.COMMENT "#load tag" :: loadLabel (posTemp (2 * N + 1)) lbl) ++ c3X, rest1, ?_, hidx⟩
    rw [hcsL]; simp [List.append_assoc]

end Create3

end Scc.X86.Ref.K
