/-
  Scc.X86.ProofsWf — well-formedness lemmas (property C14) and the witness of an emitted
  instruction that does not exist on x86-64:
  * `table_stride`: in the machine's layout the k-th `jmp near` of a jump table lies
    `jump_length(k) = 5 k` bytes after the table label;
  * operand ranges of what the backend computes from its constants (stack offsets, field offsets,
    jump lengths) fit the 32-bit fields; per-method `codeOperandError = none` lemmas;
  * `loadImmediate_spill_wide` (shape of the repaired D5 case), `imm_in_range_of_operandOK`
    (an instruction that passes the operand check never raises `imm-out-of-range`) and the remaining
    witness `mul_alias_illegal` (`imul [mem], reg`).
-/
import Scc.X86.ProofsTransfer

namespace Scc.X86

/-! ## jump tables -/

theorem jumpLength_eq (k : Nat) : jumpLength k = 5 * (k : Int) := by
  simp [jumpLength, consts]

theorem layoutFrom_jmplns (a0 : Nat) (ls : List String) (rest : List Code) (k : Nat) (hk : k < ls.length) :
    (layoutFrom a0 (ls.map Code.JMPLN ++ rest))[k]? = some (a0 + 5 * k) := by
  induction ls generalizing a0 k with
  | nil => simp at hk
  | cons l ls ih =>
    cases k with
    | zero => simp [layoutFrom]
    | succ k =>
      have hk' : k < ls.length := by simpa using hk
      simp only [List.map_cons, List.cons_append, layoutFrom, codeSize, List.getElem?_cons_succ]
      rw [ih (a0 + 5) k hk']
      congr 1; omega

/-- table_stride: the table label has the address of entry 0 and entry k is `5 k` bytes further, so
    `lea r, [rel T]; add r, jump_length(k); jmp r` lands on the k-th `jmp near`. -/
theorem table_stride (a0 : Nat) (T : String) (ls : List String) (rest : List Code) (k : Nat)
    (hk : k < ls.length) :
    (layoutFrom a0 (Code.LAB T :: (ls.map Code.JMPLN ++ rest)))[0]? = some a0 ∧
    (layoutFrom a0 (Code.LAB T :: (ls.map Code.JMPLN ++ rest)))[k + 1]? = some (a0 + 5 * k) ∧
    (Code.LAB T :: (ls.map Code.JMPLN ++ rest))[k + 1]? = some (Code.JMPLN ls[k]) := by
  refine ⟨by simp [layoutFrom], ?_, ?_⟩
  · simp only [layoutFrom, codeSize, List.getElem?_cons_succ, Nat.add_zero]
    exact layoutFrom_jmplns a0 ls rest k hk
  · simp only [List.getElem?_cons_succ]
    rw [List.getElem?_append_left (by simpa using hk)]
    simp [hk]

/-- the table emitted by utils.rs code_table consists of `jmp near` only (x86 instance) -/
theorem codeTable_jmplns (clauses : Scc.AxCut.Clauses) (base : String) :
    ∃ ls : List String, Scc.Backend.codeTable x86Backend clauses base = ls.map Code.JMPLN := by
  fun_induction Scc.Backend.codeTable x86Backend clauses base with
  | case1 => exact ⟨[], rfl⟩
  | case2 xtor ctx body rest ih =>
    obtain ⟨ls, h⟩ := ih
    refine ⟨Scc.Backend.clauseLabel base xtor :: ls, ?_⟩
    rw [h]
    rfl

/-! ## operand ranges from the constants -/

theorem fieldOffset_eq (n : Scc.Backend.TempNum) (i : Nat) :
    fieldOffset n i = 8 * (2 + 2 * (i : Int) + (n.toNat : Int)) := by
  simp [fieldOffset, address, FIELD_SLOT_SIZE, consts]

theorem fitsI32_fieldOffset (n : Scc.Backend.TempNum) {i : Nat} (hi : i ≤ 1000) :
    fitsI32 (fieldOffset n i) = true := by
  rw [fieldOffset_eq]
  unfold fitsI32
  simp only [Bool.and_eq_true, decide_eq_true_eq]
  cases n <;> simp only [Scc.Backend.TempNum.toNat] <;> omega

theorem fitsI32_jumpLength {k : Nat} (hk : k ≤ 400000000) : fitsI32 (jumpLength k) = true := by
  rw [jumpLength_eq]; simp [fitsI32]; omega

/-- all codes of a list have encodable operands (registers < 16, 32-bit fields in range, forms exist) -/
def OperandsOK (cs : List Code) : Prop := ∀ code ∈ cs, codeOperandError code = none

theorem operandsOK_append {l1 l2 : List Code} (h1 : OperandsOK l1) (h2 : OperandsOK l2) :
    OperandsOK (l1 ++ l2) := by
  intro code hc
  rcases List.mem_append.1 hc with h | h
  · exact h1 code h
  · exact h2 code h

theorem codeOK_of {code : Code} (hr : ∀ r ∈ codeRegs code, r < 16) (hi : ∀ i ∈ codeImm32s code, fitsI32 i = true)
    (hm : match code with | .MOVI _ i => fitsI64 i = true | .IMULMR _ _ _ => False | _ => True) :
    codeOperandError code = none := by
  unfold codeOperandError
  have h1 : (codeRegs code).any (fun r => decide (16 ≤ r)) = false := by
    rw [List.any_eq_false]; intro r hr'; have := hr r hr'; simp; omega
  have h2 : (codeImm32s code).any (fun i => !fitsI32 i) = false := by
    rw [List.any_eq_false]; intro i hi'; simp [hi i hi']
  rw [h1, h2]
  cases code <;> simp_all

theorem validReg {t : Temporary} (h : OpndOK t) : ∀ r, t = .reg r → r < 16 := by
  intro r e; subst e; exact h.2

theorem operandsOK_moveToRegister {r : Nat} (hr : r < 16) {t : Temporary} (ht : OpndOK t) :
    OperandsOK (moveToRegister r t) := by
  intro code hc
  cases t with
  | reg r1 =>
    simp only [moveToRegister, List.mem_singleton] at hc; subst hc
    exact codeOK_of (by simp [codeRegs]; exact ⟨hr, ht.2⟩) (by simp [codeImm32s]) trivial
  | spill p =>
    simp only [moveToRegister, List.mem_singleton] at hc; subst hc
    exact codeOK_of (by simp [codeRegs, STACK_eq]; exact hr)
      (by simp [codeImm32s]; exact fitsI32_stackOffset ht) trivial

theorem operandsOK_moveFromRegister {r : Nat} (hr : r < 16) {t : Temporary} (ht : OpndOK t) :
    OperandsOK (moveFromRegister t r) := by
  intro code hc
  cases t with
  | reg r1 =>
    simp only [moveFromRegister, List.mem_singleton] at hc; subst hc
    exact codeOK_of (by simp [codeRegs]; exact ⟨ht.2, hr⟩) (by simp [codeImm32s]) trivial
  | spill p =>
    simp only [moveFromRegister, List.mem_singleton] at hc; subst hc
    exact codeOK_of (by simp [codeRegs, STACK_eq]; exact hr)
      (by simp [codeImm32s]; exact fitsI32_stackOffset ht) trivial

/-- C14-T4 for `mov` -/
theorem operandsOK_mov {t s : Temporary} (ht : OpndOK t) (hs : OpndOK s) : OperandsOK (mov t s) := by
  cases s with
  | reg rs => exact operandsOK_moveFromRegister hs.2 ht
  | spill ps =>
    cases t with
    | reg rt => exact operandsOK_moveToRegister ht.2 hs
    | spill pt =>
      exact operandsOK_append (operandsOK_moveToRegister (by decide) hs)
        (operandsOK_moveFromRegister (by decide) ht)

/-- C14-T4 for `load_immediate`: EVERY `i64` literal, EVERY placement (repaired code; before /repo
    512f045 this needed `fitsI32 v ∨ t is a register`, defect D5) -/
theorem operandsOK_loadImmediate {t : Temporary} (ht : OpndOK t) {v : Int} (h64 : fitsI64 v = true) :
    OperandsOK (loadImmediate t v) := by
  intro code hc
  cases t with
  | reg r =>
    simp only [loadImmediate, List.mem_singleton] at hc; subst hc
    exact codeOK_of (by simp [codeRegs]; exact ht.2) (by simp [codeImm32s]) h64
  | spill p =>
    by_cases h32 : fitsI32 v = true
    · simp only [loadImmediate, h32, if_true, List.mem_singleton] at hc; subst hc
      exact codeOK_of (by simp [codeRegs, STACK_eq]) (by
        simp [codeImm32s]; exact ⟨fitsI32_stackOffset ht, h32⟩) trivial
    · have h32' : fitsI32 v = false := by simpa using h32
      have e : loadImmediate (.spill p) v = [.MOVI TEMP v, .MOVS TEMP STACK (stackOffset p)] := by
        simp [loadImmediate, h32']
      rw [e] at hc
      rcases List.mem_cons.1 hc with hc | hc
      · subst hc
        exact codeOK_of (by simp [codeRegs, TEMP_eq]) (by simp [codeImm32s]) h64
      · rw [List.mem_singleton] at hc; subst hc
        exact codeOK_of (by simp [codeRegs, TEMP_eq, STACK_eq])
          (by simp [codeImm32s]; exact fitsI32_stackOffset ht) trivial

theorem operandsOK_single {code : Code} (h : codeOperandError code = none) : OperandsOK [code] := by
  intro c hc; simp only [List.mem_singleton] at hc; subst hc; exact h

theorem operandsOK_cons {code : Code} {rest : List Code} (h : codeOperandError code = none)
    (hr : OperandsOK rest) : OperandsOK (code :: rest) :=
  operandsOK_append (operandsOK_single h) hr

/-- a register-register / register-slot / slot-register instruction with valid operands -/
theorem ok_rr {code : Code} {r r1 : Nat} (hregs : codeRegs code = [r, r1]) (himm : codeImm32s code = [])
    (hm : match code with | .MOVI _ _ => False | .IMULMR _ _ _ => False | _ => True)
    (hr : r < 16) (hr1 : r1 < 16) : codeOperandError code = none :=
  codeOK_of (by rw [hregs]; simp; exact ⟨hr, hr1⟩) (by rw [himm]; simp) (by
    cases code <;> simp_all)

theorem ok_rm {code : Code} {r : Nat} {p : Nat} (hregs : codeRegs code = [r, 0])
    (himm : codeImm32s code = [stackOffset p])
    (hm : match code with | .MOVI _ _ => False | .IMULMR _ _ _ => False | _ => True)
    (hr : r < 16) (hp : p < 256) : codeOperandError code = none :=
  codeOK_of (by rw [hregs]; simp; exact hr) (by rw [himm]; simp; exact fitsI32_stackOffset hp) (by
    cases code <;> simp_all)

theorem ok_mr {code : Code} {r : Nat} {p : Nat} (hregs : codeRegs code = [0, r])
    (himm : codeImm32s code = [stackOffset p])
    (hm : match code with | .MOVI _ _ => False | .IMULMR _ _ _ => False | _ => True)
    (hr : r < 16) (hp : p < 256) : codeOperandError code = none :=
  codeOK_of (by rw [hregs]; simp; exact hr) (by rw [himm]; simp; exact fitsI32_stackOffset hp) (by
    cases code <;> simp_all)

theorem operandsOK_addToRegister {r : Nat} (hr : r < 16) {t : Temporary} (ht : OpndOK t) :
    OperandsOK (addToRegister r t) := by
  cases t with
  | reg r1 => exact operandsOK_single (ok_rr (code := .ADD r r1) rfl rfl trivial hr ht.2)
  | spill p => exact operandsOK_single (ok_rm (code := .ADDRM r STACK (stackOffset p)) rfl rfl trivial hr ht)

theorem operandsOK_subToRegister {r : Nat} (hr : r < 16) {t : Temporary} (ht : OpndOK t) :
    OperandsOK (subToRegister r t) := by
  cases t with
  | reg r1 => exact operandsOK_single (ok_rr (code := .SUB r r1) rfl rfl trivial hr ht.2)
  | spill p => exact operandsOK_single (ok_rm (code := .SUBRM r STACK (stackOffset p)) rfl rfl trivial hr ht)

theorem operandsOK_mulToRegister {r : Nat} (hr : r < 16) {t : Temporary} (ht : OpndOK t) :
    OperandsOK (mulToRegister r t) := by
  cases t with
  | reg r1 => exact operandsOK_single (ok_rr (code := .IMUL r r1) rfl rfl trivial hr ht.2)
  | spill p => exact operandsOK_single (ok_rm (code := .IMULRM r STACK (stackOffset p)) rfl rfl trivial hr ht)

theorem operandsOK_addToSpill {p : Nat} (hp : p < 256) {t : Temporary} (ht : OpndOK t) :
    OperandsOK (addToSpill p t) := by
  cases t with
  | reg r1 => exact operandsOK_single (ok_mr (code := .ADDMR STACK (stackOffset p) r1) rfl rfl trivial ht.2 hp)
  | spill q =>
    exact operandsOK_cons (ok_rm (code := .MOVL TEMP STACK (stackOffset q)) rfl rfl trivial (by decide) ht)
      (operandsOK_single (ok_mr (code := .ADDMR STACK (stackOffset p) TEMP) rfl rfl trivial (by decide) hp))

theorem operandsOK_subToSpill {p : Nat} (hp : p < 256) {t : Temporary} (ht : OpndOK t) :
    OperandsOK (subToSpill p t) := by
  cases t with
  | reg r1 => exact operandsOK_single (ok_mr (code := .SUBMR STACK (stackOffset p) r1) rfl rfl trivial ht.2 hp)
  | spill q =>
    exact operandsOK_cons (ok_rm (code := .MOVL TEMP STACK (stackOffset q)) rfl rfl trivial (by decide) ht)
      (operandsOK_single (ok_mr (code := .SUBMR STACK (stackOffset p) TEMP) rfl rfl trivial (by decide) hp))

theorem operandsOK_storeSlot {r p : Nat} (hr : r < 16) (hp : p < 256) :
    OperandsOK [Code.MOVS r STACK (stackOffset p)] :=
  operandsOK_single (ok_rm (code := .MOVS r STACK (stackOffset p)) rfl rfl trivial hr hp)

/-- C14-T4 for `add` (every placement and aliasing) -/
theorem operandsOK_add {t s1 s2 : Temporary} (ht : OpndOK t) (h1 : OpndOK s1) (h2 : OpndOK s2) :
    OperandsOK (add t s1 s2) := by
  unfold add opCommutative
  cases t with
  | reg r =>
    simp only
    split
    · exact operandsOK_addToRegister ht.2 h2
    · split
      · exact operandsOK_addToRegister ht.2 h1
      · exact operandsOK_append (operandsOK_moveToRegister ht.2 h1) (operandsOK_addToRegister ht.2 h2)
  | spill p =>
    simp only
    split
    · exact operandsOK_addToSpill ht h2
    · split
      · exact operandsOK_addToSpill ht h1
      · exact operandsOK_append (operandsOK_append (operandsOK_moveToRegister (by decide) h1)
          (operandsOK_addToRegister (by decide) h2)) (operandsOK_storeSlot (by decide) ht)

/-- C14-T4 for `sub` -/
theorem operandsOK_sub {t s1 s2 : Temporary} (ht : OpndOK t) (h1 : OpndOK s1) (h2 : OpndOK s2) :
    OperandsOK (sub t s1 s2) := by
  unfold sub
  cases t with
  | reg r =>
    simp only
    split
    · exact operandsOK_subToRegister ht.2 h2
    · split
      · exact operandsOK_append (operandsOK_append (operandsOK_moveToRegister (by decide) h1)
          (operandsOK_subToRegister (by decide) h2))
          (operandsOK_single (ok_rr (code := .MOV r TEMP) rfl rfl trivial ht.2 (by decide)))
      · exact operandsOK_append (operandsOK_moveToRegister ht.2 h1) (operandsOK_subToRegister ht.2 h2)
  | spill p =>
    simp only
    split
    · exact operandsOK_subToSpill ht h2
    · exact operandsOK_append (operandsOK_append (operandsOK_moveToRegister (by decide) h1)
        (operandsOK_subToRegister (by decide) h2)) (operandsOK_storeSlot (by decide) ht)

/-- C14-T4 for `mul`, except the aliased spilled target (where `imul [mem], reg` is emitted) -/
theorem operandsOK_mul {t s1 s2 : Temporary} (ht : OpndOK t) (h1 : OpndOK s1) (h2 : OpndOK s2)
    (hal : ∀ p, t = .spill p → t ≠ s1 ∧ t ≠ s2) : OperandsOK (mul t s1 s2) := by
  unfold mul opCommutative
  cases t with
  | reg r =>
    simp only
    split
    · exact operandsOK_mulToRegister ht.2 h2
    · split
      · exact operandsOK_mulToRegister ht.2 h1
      · exact operandsOK_append (operandsOK_moveToRegister ht.2 h1) (operandsOK_mulToRegister ht.2 h2)
  | spill p =>
    obtain ⟨n1, n2⟩ := hal p rfl
    simp only [if_neg n1, if_neg n2]
    exact operandsOK_append (operandsOK_append (operandsOK_moveToRegister (by decide) h1)
      (operandsOK_mulToRegister (by decide) h2)) (operandsOK_storeSlot (by decide) ht)

theorem operandsOK_divBy {s2 : Temporary} (h2 : OpndOK s2) : OperandsOK (divBy s2) := by
  cases s2 with
  | reg r =>
    simp only [divBy]
    split
    · exact operandsOK_cons (by rfl) (operandsOK_single (codeOK_of (by simp [codeRegs, TEMP_eq]) (by simp [codeImm32s]) trivial))
    · exact operandsOK_cons (by rfl) (operandsOK_single (codeOK_of (by simp [codeRegs]; exact h2.2) (by simp [codeImm32s]) trivial))
  | spill p =>
    exact operandsOK_cons (by rfl) (operandsOK_single (codeOK_of (by simp [codeRegs, STACK_eq])
      (by simp [codeImm32s]; exact fitsI32_stackOffset h2) trivial))

/-- C14-T4 for `div` and `rem` -/
theorem operandsOK_div {t s1 s2 : Temporary} (ht : OpndOK t) (h1 : OpndOK s1) (h2 : OpndOK s2) :
    OperandsOK (div t s1 s2) ∧ OperandsOK (rem t s1 s2) := by
  have m1 : OperandsOK [Code.MOV TEMP RETURN2] := operandsOK_single (ok_rr rfl rfl trivial (by decide) (by decide))
  have m2 : OperandsOK [Code.MOV RETURN2 RETURN1] := operandsOK_single (ok_rr rfl rfl trivial (by decide) (by decide))
  have m3 : OperandsOK [Code.MOV RETURN2 TEMP] := operandsOK_single (ok_rr rfl rfl trivial (by decide) (by decide))
  have a1 := operandsOK_moveFromRegister (r := RETURN1) (by decide) ht
  have a2 := operandsOK_moveToRegister (r := RETURN1) (by decide) h1
  have a3 := operandsOK_divBy h2
  have a4 := operandsOK_moveToRegister (r := RETURN1) (by decide) ht
  have a5 := operandsOK_moveFromRegister (r := RETURN2) (by decide) ht
  constructor
  · unfold div
    exact operandsOK_append (operandsOK_append (operandsOK_append (operandsOK_append (operandsOK_append
      (operandsOK_append (operandsOK_append m1 a1) a2) a3) m2) a4) a5) m3
  · unfold rem
    exact operandsOK_append (operandsOK_append (operandsOK_append (operandsOK_append
      (operandsOK_append (operandsOK_append m1 a1) a2) a3) a4) a5) m3

/-- C14-T4 for the comparisons -/
theorem operandsOK_compare {fst snd : Temporary} (h1 : OpndOK fst) (h2 : OpndOK snd) :
    OperandsOK (compare fst snd) := by
  cases fst with
  | reg r1 =>
    cases snd with
    | reg r2 => exact operandsOK_single (ok_rr (code := .CMP r1 r2) rfl rfl trivial h1.2 h2.2)
    | spill p2 => exact operandsOK_single (ok_rm (code := .CMPRM r1 STACK (stackOffset p2)) rfl rfl trivial h1.2 h2)
  | spill p1 =>
    cases snd with
    | reg r2 => exact operandsOK_single (ok_mr (code := .CMPMR STACK (stackOffset p1) r2) rfl rfl trivial h2.2 h1)
    | spill p2 =>
      exact operandsOK_cons (ok_rm (code := .MOVL TEMP STACK (stackOffset p1)) rfl rfl trivial (by decide) h1)
        (operandsOK_single (ok_rm (code := .CMPRM TEMP STACK (stackOffset p2)) rfl rfl trivial (by decide) h2))

/-! ## witnesses -/

/-- D5 (REPAIRED, /repo 512f045), shape: a literal outside i32 into a SPILL slot is now emitted as
    `mov rcx, imm64; mov [rsp + off], rcx` (formerly the non-existent `mov qword [rsp + off], imm64`),
    and both instructions pass the operand check. -/
theorem loadImmediate_spill_wide (p : Nat) {v : Int} (h32 : fitsI32 v = false) :
    loadImmediate (.spill p) v = [.MOVI TEMP v, .MOVS TEMP STACK (stackOffset p)] := by
  simp [loadImmediate, h32]

/-- what `codeOperandError = none` means for the machine: every 32-bit field of the instruction
    passes `imm32` (the ONLY source of the fault `imm-out-of-range` besides `mov r64, imm64`, whose
    guard `fitsI64` also holds), so an instruction that passes the operand check never raises it. -/
theorem imm_in_range_of_operandOK {code : Code} (h : codeOperandError code = none) :
    (∀ i ∈ codeImm32s code, imm32 i = .ok (BitVec.ofInt 64 i)) ∧
    (∀ r i, code = .MOVI r i → fitsI64 i = true) := by
  unfold codeOperandError at h
  split at h
  · cases h
  · split at h
    · cases h
    · rename_i h2
      refine ⟨fun i hi => ?_, ?_⟩
      · have : fitsI32 i = true := by
          have := h2
          simp only [List.any_eq_true, not_exists, not_and, Bool.not_eq_true', Bool.not_eq_false] at this
          exact this i hi
        simp [imm32, this]
      · rintro r i rfl
        simp only at h
        split at h
        · assumption
        · cases h

/-- `mul` with a spilled target that aliases its first source emits `imul [mem], reg`, which is not
    an x86-64 instruction: the machine faults. -/
theorem mul_alias_illegal (c : MachCfg) (la : String → Option Nat) (st : State) (p : Nat) (r : Nat) :
    ∃ e, execStraight c la (mul (.spill p) (.spill p) (.reg r)) st = .error e := by
  exact ⟨_, by simp [mul, opCommutative, mulToSpill, execStraight, execCode]; rfl⟩

end Scc.X86
