/-
  Scc.X86.ProofsArith — Theorem-B lemmas for the x86-64 backend's integer instructions
  (code.rs: add / mul via op_commutative, sub, div, rem, compare + conditional jumps, mov,
  load_immediate, load_label, add_and_jump) for ALL operand values and ALL placements
  (register / spill slot / aliasing), proved on the temporary-level view (ProofsFrame.lean).
  The transfer to the SPEC machine is in ProofsTransfer.lean.
-/
import Scc.X86.ProofsFrame

namespace Scc.X86

theorem TEMP_eq : TEMP = 1 := rfl
theorem STACK_eq : STACK = 0 := rfl
theorem RETURN1_eq : RETURN1 = 4 := rfl
theorem RETURN2_eq : RETURN2 = 5 := rfl

/-- A temporary that can hold a variable: registers 4..15, spill slots 1..255 (utils.rs). -/
def TempOK : Temporary → Prop
  | .reg r => 4 ≤ r ∧ r < 16
  | .spill p => 1 ≤ p ∧ p < 256

theorem TempOK.opnd {t : Temporary} (h : TempOK t) : OpndOK t := by
  cases t with
  | reg r => exact ⟨by have := h.1; omega, h.2⟩
  | spill p => exact h.2

theorem TempOK.ne_temp {t : Temporary} (h : TempOK t) : t ≠ .reg TEMP := by
  intro e; subst e; have := h.1; simp [TEMP_eq] at this

theorem opndOK_temp : OpndOK (.reg TEMP) := ⟨by decide, by decide⟩

/-- `τ'` is `τ` with temporary `t` set to `v`; only the scratch register TEMP (rcx) and the flags
    may have changed besides. -/
structure TUpd (τ τ' : TState) (t : Temporary) (v : Option Word) : Prop where
  val : τ'.val t = v
  others : ∀ u, u ≠ t → u ≠ .reg TEMP → τ'.val u = τ.val u

/-! ## operands -/

theorem regOpnd_of {r : Nat} (h : OpndOK (.reg r)) : regOpnd r = some (.reg r) := by
  simp [regOpnd, h.1, h.2]

theorem memOpnd_of {p : Nat} (h : OpndOK (.spill p)) : memOpnd STACK (stackOffset p) = some (.spill p) := by
  simp [memOpnd, STACK_eq, slotOfDisp_stackOffset h]

section Level
variable {la : String → Option Nat}

theorem texecList_cons (code : Code) (rest : List Code) (τ : TState) :
    texecList la (code :: rest) τ =
      match texec la code τ with
      | some τ1 => texecList la rest τ1
      | none => none := rfl

theorem texec_MOV (τ : TState) (r r1 : Nat) : texec la (.MOV r r1) τ = tmove τ (regOpnd r) (regOpnd r1) := rfl
theorem texec_MOVL (τ : TState) (r b : Nat) (i : Int) :
    texec la (.MOVL r b i) τ = tmove τ (regOpnd r) (memOpnd b i) := rfl
theorem texec_MOVS (τ : TState) (r b : Nat) (i : Int) :
    texec la (.MOVS r b i) τ = tmove τ (memOpnd b i) (regOpnd r) := rfl

/-! ## moves -/

theorem t_moveToRegister {τ : TState} {r : Nat} (hr : OpndOK (.reg r)) {t : Temporary} (ht : OpndOK t) :
    texecList la (moveToRegister r t) τ = some (τ.set (.reg r) (τ.val t)) := by
  cases t with
  | reg r1 => simp [moveToRegister, texecList, texec, tmove, regOpnd_of hr, regOpnd_of ht]
  | spill p => simp [moveToRegister, texecList, texec, tmove, regOpnd_of hr, memOpnd_of ht]

theorem t_moveFromRegister {τ : TState} {r : Nat} (hr : OpndOK (.reg r)) {t : Temporary} (ht : OpndOK t) :
    texecList la (moveFromRegister t r) τ = some (τ.set t (τ.val (.reg r))) := by
  cases t with
  | reg r1 => simp [moveFromRegister, texecList, texec, tmove, regOpnd_of hr, regOpnd_of ht]
  | spill p => simp [moveFromRegister, texecList, texec, tmove, regOpnd_of hr, memOpnd_of ht]

/-- B-mov: `mov t s` copies the (possibly undefined) contents of `s` into `t` -/
theorem t_mov {τ : TState} {t s : Temporary} (ht : OpndOK t) (hs : OpndOK s)
    (hsT : s ≠ .reg TEMP) :
    ∃ τ', texecList la (mov t s) τ = some τ' ∧ TUpd τ τ' t (τ.val s) := by
  cases s with
  | reg rs =>
    refine ⟨_, by simp only [mov]; exact t_moveFromRegister hs ht, ⟨by simp, fun u hu _ => by simp [hu]⟩⟩
  | spill ps =>
    cases t with
    | reg rt =>
      refine ⟨_, by simp only [mov]; exact t_moveToRegister ht hs, ⟨by simp, fun u hu _ => by simp [hu]⟩⟩
    | spill pt =>
      refine ⟨_, by
        simp only [mov]
        rw [texecList_append, t_moveToRegister opndOK_temp hs]
        exact t_moveFromRegister opndOK_temp ht, ⟨by simp, fun u hu hT => by simp [hu, hT]⟩⟩

/-! ## op_to_register / op_to_spill -/

/-- Contract of an `op_to_register` function (add_to_register, sub_to_register, mul_to_register). -/
def RegOpSpec (la : String → Option Nat) (op : Word → Word → Word)
    (opToRegister : Nat → Temporary → List Code) : Prop :=
  ∀ (τ : TState) (r : Nat) (t : Temporary) (x y : Word),
    OpndOK (.reg r) → OpndOK t → τ.val (.reg r) = some x → τ.val t = some y →
    texecList la (opToRegister r t) τ = some { τ.set (.reg r) (some (op x y)) with flags := none }

/-- Contract of an `op_to_spill` function (add_to_spill, sub_to_spill). -/
def SpillOpSpec (la : String → Option Nat) (op : Word → Word → Word)
    (opToSpill : Nat → Temporary → List Code) : Prop :=
  ∀ (τ : TState) (p : Nat) (t : Temporary) (x y : Word),
    OpndOK (.spill p) → TempOK t → τ.val (.spill p) = some x → τ.val t = some y →
    ∃ τ', texecList la (opToSpill p t) τ = some τ' ∧ TUpd τ τ' (.spill p) (some (op x y))

theorem regOp_spec_of (op : Word → Word → Word) (opToRegister : Nat → Temporary → List Code)
    (mkR : Nat → Nat → Code) (mkM : Nat → Nat → Int → Code)
    (hR : ∀ (τ : TState) r r1, texec la (mkR r r1) τ = talu op τ (regOpnd r) (tsrc τ (regOpnd r1)))
    (hM : ∀ (τ : TState) r b i, texec la (mkM r b i) τ = talu op τ (regOpnd r) (tsrc τ (memOpnd b i)))
    (hreg : ∀ r r1, opToRegister r (.reg r1) = [mkR r r1])
    (hspill : ∀ r p, opToRegister r (.spill p) = [mkM r STACK (stackOffset p)]) :
    RegOpSpec la op opToRegister := by
  intro τ r t x y hr ht hx hy
  cases t with
  | reg r1 => simp [hreg, texecList, hR, talu, tsrc, regOpnd_of hr, regOpnd_of ht, hx, hy]
  | spill p => simp [hspill, texecList, hM, talu, tsrc, regOpnd_of hr, memOpnd_of ht, hx, hy]

theorem addToRegister_spec : RegOpSpec la (· + ·) addToRegister :=
  regOp_spec_of (· + ·) addToRegister .ADD .ADDRM (fun _ _ _ => rfl) (fun _ _ _ _ => rfl)
    (fun _ _ => rfl) (fun _ _ => rfl)

theorem subToRegister_spec : RegOpSpec la (· - ·) subToRegister :=
  regOp_spec_of (· - ·) subToRegister .SUB .SUBRM (fun _ _ _ => rfl) (fun _ _ _ _ => rfl)
    (fun _ _ => rfl) (fun _ _ => rfl)

theorem mulToRegister_spec : RegOpSpec la (· * ·) mulToRegister :=
  regOp_spec_of (· * ·) mulToRegister .IMUL .IMULRM (fun _ _ _ => rfl) (fun _ _ _ _ => rfl)
    (fun _ _ => rfl) (fun _ _ => rfl)

theorem spillOp_spec_of (op : Word → Word → Word) (opToSpill : Nat → Temporary → List Code)
    (mk : Nat → Int → Nat → Code)
    (hmk : ∀ (τ : TState) b i r, texec la (mk b i r) τ = talu op τ (memOpnd b i) (tsrc τ (regOpnd r)))
    (hreg : ∀ p r, opToSpill p (.reg r) = [mk STACK (stackOffset p) r])
    (hspill : ∀ p q, opToSpill p (.spill q) =
      [.MOVL TEMP STACK (stackOffset q), mk STACK (stackOffset p) TEMP]) :
    SpillOpSpec la op opToSpill := by
  intro τ p t x y hp ht hx hy
  cases t with
  | reg r1 =>
    have e : texecList la (opToSpill p (.reg r1)) τ =
        some { τ.set (.spill p) (some (op x y)) with flags := none } := by
      simp [hreg, texecList, hmk, talu, tsrc, regOpnd_of ht.opnd, memOpnd_of hp, hx, hy]
    exact ⟨_, e, ⟨by simp, fun u hu _ => by simp [hu]⟩⟩
  | spill q =>
    have e : texecList la (opToSpill p (.spill q)) τ =
        some { (τ.set (.reg TEMP) (τ.val (.spill q))).set (.spill p) (some (op x y)) with flags := none } := by
      simp [hspill, texecList, texec_MOVL, tmove, hmk, talu, tsrc, regOpnd_of opndOK_temp, memOpnd_of hp,
        memOpnd_of ht.opnd, hx, hy]
    exact ⟨_, e, ⟨by simp, fun u hu hT => by simp [hu, hT]⟩⟩

theorem addToSpill_spec : SpillOpSpec la (· + ·) addToSpill :=
  spillOp_spec_of (· + ·) addToSpill .ADDMR (fun _ _ _ _ => rfl) (fun _ _ => rfl) (fun _ _ => rfl)

theorem subToSpill_spec : SpillOpSpec la (· - ·) subToSpill :=
  spillOp_spec_of (· - ·) subToSpill .SUBMR (fun _ _ _ _ => rfl) (fun _ _ => rfl) (fun _ _ => rfl)

/-! ## add / mul (op_commutative), sub -/

/-- op_commutative with a register target (any aliasing with the sources) -/
theorem t_opCommutative_reg {op : Word → Word → Word} {opR : Nat → Temporary → List Code}
    {opS : Nat → Temporary → List Code} (hR : RegOpSpec la op opR) (comm : ∀ x y, op x y = op y x)
    {τ : TState} {r : Nat} {s1 s2 : Temporary} (ht : TempOK (.reg r)) (h1 : TempOK s1) (h2 : TempOK s2)
    {x y : Word} (hx : τ.val s1 = some x) (hy : τ.val s2 = some y) :
    ∃ τ', texecList la (opCommutative opR opS (.reg r) s1 s2) τ = some τ' ∧
      TUpd τ τ' (.reg r) (some (op x y)) := by
  simp only [opCommutative]
  by_cases e1 : Temporary.reg r = s1
  · subst e1
    rw [if_pos rfl]
    exact ⟨_, hR τ r s2 x y ht.opnd h2.opnd hx hy, ⟨by simp, fun u hu _ => by simp [hu]⟩⟩
  · rw [if_neg e1]
    by_cases e2 : Temporary.reg r = s2
    · subst e2
      rw [if_pos rfl]
      exact ⟨_, hR τ r s1 y x ht.opnd h1.opnd hy hx, ⟨by simp [comm x y], fun u hu _ => by simp [hu]⟩⟩
    · rw [if_neg e2, texecList_append, t_moveToRegister ht.opnd h1.opnd]
      have hx' : (τ.set (.reg r) (τ.val s1)).val (.reg r) = some x := by simp [hx]
      have hy' : (τ.set (.reg r) (τ.val s1)).val s2 = some y := by
        rw [TState.set_val, if_neg (fun e => e2 e.symm)]; exact hy
      exact ⟨_, hR _ r s2 x y ht.opnd h2.opnd hx' hy', ⟨by simp, fun u hu _ => by simp [hu]⟩⟩

/-- op_commutative with a spilled target different from both sources -/
theorem t_opCommutative_spill {op : Word → Word → Word} {opR : Nat → Temporary → List Code}
    {opS : Nat → Temporary → List Code} (hR : RegOpSpec la op opR)
    {τ : TState} {p : Nat} {s1 s2 : Temporary} (ht : TempOK (.spill p)) (h1 : TempOK s1) (h2 : TempOK s2)
    (n1 : Temporary.spill p ≠ s1) (n2 : Temporary.spill p ≠ s2)
    {x y : Word} (hx : τ.val s1 = some x) (hy : τ.val s2 = some y) :
    ∃ τ', texecList la (opCommutative opR opS (.spill p) s1 s2) τ = some τ' ∧
      TUpd τ τ' (.spill p) (some (op x y)) := by
  simp only [opCommutative]
  rw [if_neg n1, if_neg n2, texecList_append, texecList_append, t_moveToRegister opndOK_temp h1.opnd]
  have hx' : (τ.set (.reg TEMP) (τ.val s1)).val (.reg TEMP) = some x := by simp [hx]
  have hy' : (τ.set (.reg TEMP) (τ.val s1)).val s2 = some y := by simp [h2.ne_temp, hy]
  simp only [hR _ TEMP s2 x y opndOK_temp h2.opnd hx' hy']
  refine ⟨_, by
    rw [texecList_cons, texec_MOVS]
    simp only [tmove, regOpnd_of opndOK_temp, memOpnd_of ht.opnd, texecList]; rfl, ?_⟩
  exact ⟨by simp, fun u hu hT => by simp [hu, hT]⟩

/-- op_commutative with a spilled target that is also a source -/
theorem t_opCommutative_spill_alias {op : Word → Word → Word} {opR : Nat → Temporary → List Code}
    {opS : Nat → Temporary → List Code} (hS : SpillOpSpec la op opS) (comm : ∀ x y, op x y = op y x)
    {τ : TState} {p : Nat} {s1 s2 : Temporary} (ht : TempOK (.spill p)) (h1 : TempOK s1) (h2 : TempOK s2)
    (al : Temporary.spill p = s1 ∨ Temporary.spill p = s2)
    {x y : Word} (hx : τ.val s1 = some x) (hy : τ.val s2 = some y) :
    ∃ τ', texecList la (opCommutative opR opS (.spill p) s1 s2) τ = some τ' ∧
      TUpd τ τ' (.spill p) (some (op x y)) := by
  simp only [opCommutative]
  by_cases e1 : Temporary.spill p = s1
  · subst e1
    rw [if_pos rfl]
    exact hS τ p s2 x y ht.opnd h2 hx hy
  · rw [if_neg e1]
    have e2 : Temporary.spill p = s2 := al.resolve_left e1
    subst e2
    rw [if_pos rfl, comm x y]
    exact hS τ p s1 y x ht.opnd h1 hy hx

/-- B-add: `add t s1 s2` for every placement and aliasing -/
theorem t_add {τ : TState} {t s1 s2 : Temporary} (ht : TempOK t) (h1 : TempOK s1) (h2 : TempOK s2)
    {x y : Word} (hx : τ.val s1 = some x) (hy : τ.val s2 = some y) :
    ∃ τ', texecList la (add t s1 s2) τ = some τ' ∧ TUpd τ τ' t (some (x + y)) := by
  unfold add
  cases t with
  | reg r => exact t_opCommutative_reg addToRegister_spec BitVec.add_comm ht h1 h2 hx hy
  | spill p =>
    by_cases al : Temporary.spill p = s1 ∨ Temporary.spill p = s2
    · exact t_opCommutative_spill_alias addToSpill_spec BitVec.add_comm ht h1 h2 al hx hy
    · exact t_opCommutative_spill addToRegister_spec ht h1 h2 (fun e => al (Or.inl e))
        (fun e => al (Or.inr e)) hx hy

/-- B-mul: `mul t s1 s2`; a SPILLED target must differ from both sources (otherwise the backend
    emits `imul [mem], reg`, which does not exist: `mul_alias_illegal` in ProofsTransfer) -/
theorem t_mul {τ : TState} {t s1 s2 : Temporary} (ht : TempOK t) (h1 : TempOK s1) (h2 : TempOK s2)
    (hal : ∀ p, t = .spill p → t ≠ s1 ∧ t ≠ s2)
    {x y : Word} (hx : τ.val s1 = some x) (hy : τ.val s2 = some y) :
    ∃ τ', texecList la (mul t s1 s2) τ = some τ' ∧ TUpd τ τ' t (some (x * y)) := by
  unfold mul
  cases t with
  | reg r => exact t_opCommutative_reg mulToRegister_spec BitVec.mul_comm ht h1 h2 hx hy
  | spill p =>
    obtain ⟨n1, n2⟩ := hal p rfl
    exact t_opCommutative_spill mulToRegister_spec ht h1 h2 n1 n2 hx hy

/-- B-sub: `sub t s1 s2` for every placement and aliasing -/
theorem t_sub {τ : TState} {t s1 s2 : Temporary} (ht : TempOK t) (h1 : TempOK s1) (h2 : TempOK s2)
    {x y : Word} (hx : τ.val s1 = some x) (hy : τ.val s2 = some y) :
    ∃ τ', texecList la (sub t s1 s2) τ = some τ' ∧ TUpd τ τ' t (some (x - y)) := by
  have hR := @subToRegister_spec la
  -- the common path: TEMP := s1; TEMP -= s2
  have common : texecList la (moveToRegister TEMP s1 ++ subToRegister TEMP s2) τ =
      some { (τ.set (.reg TEMP) (τ.val s1)).set (.reg TEMP) (some (x - y)) with flags := none } := by
    rw [texecList_append, t_moveToRegister opndOK_temp h1.opnd]
    have hx' : (τ.set (.reg TEMP) (τ.val s1)).val (.reg TEMP) = some x := by simp [hx]
    have hy' : (τ.set (.reg TEMP) (τ.val s1)).val s2 = some y := by simp [h2.ne_temp, hy]
    exact hR _ TEMP s2 x y opndOK_temp h2.opnd hx' hy'
  unfold sub
  cases t with
  | reg r =>
    simp only
    by_cases e1 : Temporary.reg r = s1
    · subst e1
      rw [if_pos rfl]
      exact ⟨_, hR τ r s2 x y ht.opnd h2.opnd hx hy, ⟨by simp, fun u hu _ => by simp [hu]⟩⟩
    · rw [if_neg e1]
      by_cases e2 : Temporary.reg r = s2
      · subst e2
        rw [if_pos rfl, texecList_append, common]
        refine ⟨_, by
          dsimp only
          rw [texecList_cons, texec_MOV]
          simp only [tmove, regOpnd_of opndOK_temp, regOpnd_of ht.opnd, texecList]; rfl, ?_⟩
        exact ⟨by simp, fun u hu hT => by simp [hu, hT]⟩
      · rw [if_neg e2, texecList_append, t_moveToRegister ht.opnd h1.opnd]
        have hx' : (τ.set (.reg r) (τ.val s1)).val (.reg r) = some x := by simp [hx]
        have hy' : (τ.set (.reg r) (τ.val s1)).val s2 = some y := by
          rw [TState.set_val, if_neg (fun e => e2 e.symm)]; exact hy
        exact ⟨_, hR _ r s2 x y ht.opnd h2.opnd hx' hy', ⟨by simp, fun u hu _ => by simp [hu]⟩⟩
  | spill p =>
    simp only
    by_cases e1 : Temporary.spill p = s1
    · subst e1
      rw [if_pos rfl]
      exact subToSpill_spec τ p s2 x y ht.opnd h2 hx hy
    · rw [if_neg e1, texecList_append, common]
      refine ⟨_, by
        dsimp only
        rw [texecList_cons, texec_MOVS]
        simp only [tmove, regOpnd_of opndOK_temp, memOpnd_of ht.opnd, texecList]; rfl, ?_⟩
      exact ⟨by simp, fun u hu hT => by simp [hu, hT]⟩

/-! ## div / rem -/

theorem texec_CQO (τ : TState) : texec la .CQO τ =
    match τ.val (.reg 4) with
    | some x => some (τ.set (.reg 5) (some (signExt x)))
    | none => none := rfl
theorem texec_IDIV (τ : TState) (r : Nat) : texec la (.IDIV r) τ = tidiv τ (regOpnd r) := rfl
theorem texec_IDIVM (τ : TState) (b : Nat) (i : Int) : texec la (.IDIVM b i) τ = tidiv τ (memOpnd b i) := rfl

/-- the operands excluded by the property: division by zero and MIN / -1 -/
def DivOK (x y : Word) : Prop := y ≠ 0 ∧ ¬ (x = minInt64 ∧ y = BitVec.ofInt 64 (-1))

theorem tidiv_ok {τ : TState} {o : Temporary} {x y : Word} (h4 : τ.val (.reg 4) = some x)
    (h5 : τ.val (.reg 5) = some (signExt x)) (ho : τ.val o = some y) (hd : DivOK x y) :
    tidiv τ (some o) =
      some { (τ.set (.reg 4) (some (x.sdiv y))).set (.reg 5) (some (x.srem y)) with flags := none } := by
  have h3 : ¬ ((x = minInt64 && y = BitVec.ofInt 64 (-1)) = true) := by
    simp only [Bool.and_eq_true, decide_eq_true_eq]; exact hd.2
  simp only [tidiv, h4, h5, ho]
  rw [if_neg (by simp), if_neg hd.1, if_neg h3]

/-- `div`'s helper: CQO; IDIV by `s2` (by TEMP when `s2` is RETURN2, whose value was moved there) -/
theorem t_divBy {τ : TState} {s2 : Temporary} (h2 : OpndOK s2) (hs4 : s2 ≠ .reg 4)
    {x y : Word} (hx : τ.val (.reg 4) = some x)
    (hy : (if s2 = .reg 5 then τ.val (.reg TEMP) else τ.val s2) = some y) (hd : DivOK x y) :
    texecList la (divBy s2) τ =
      some { ((τ.set (.reg 5) (some (signExt x))).set (.reg 4) (some (x.sdiv y))).set (.reg 5)
              (some (x.srem y)) with flags := none } := by
  have h4' : (τ.set (.reg 5) (some (signExt x))).val (.reg 4) = some x := by simp [hx]
  have h5' : (τ.set (.reg 5) (some (signExt x))).val (.reg 5) = some (signExt x) := by simp
  cases s2 with
  | reg r =>
    by_cases e : r = RETURN2
    · subst e
      have hy' : (τ.set (.reg 5) (some (signExt x))).val (.reg TEMP) = some y := by
        simpa [RETURN2_eq, TEMP_eq] using hy
      simp only [divBy, if_true, texecList_cons, texec_CQO, hx, texec_IDIV, regOpnd_of opndOK_temp,
        tidiv_ok h4' h5' hy' hd, texecList]
    · have hr5 : Temporary.reg r ≠ Temporary.reg 5 := fun h => e (by injection h)
      have hy' : (τ.set (.reg 5) (some (signExt x))).val (.reg r) = some y := by
        rw [if_neg hr5] at hy
        simp [hr5, hy]
      simp only [divBy, if_neg e, texecList_cons, texec_CQO, hx, texec_IDIV, regOpnd_of h2,
        tidiv_ok h4' h5' hy' hd, texecList]
  | spill p =>
    have hy' : (τ.set (.reg 5) (some (signExt x))).val (.spill p) = some y := by
      simpa using hy
    simp only [divBy, texecList_cons, texec_CQO, hx, texec_IDIVM, memOpnd_of h2,
      tidiv_ok h4' h5' hy' hd, texecList]

/-- hypotheses of B-div / B-rem on the placement: the target is fresh (differs from both sources)
    and is neither RETURN1 nor RETURN2 (true for every variable position ≥ 1); the divisor is not in
    RETURN1 (true for every second temporary) -/
structure DivPlacement (t s1 s2 : Temporary) : Prop where
  ht : TempOK t
  hs1 : TempOK s1
  hs2 : TempOK s2
  t_ne_s1 : t ≠ s1
  t_ne_s2 : t ≠ s2
  t_ne_ret1 : t ≠ .reg 4
  t_ne_ret2 : t ≠ .reg 5
  s2_ne_ret1 : s2 ≠ .reg 4

/-- state after the common prefix of div / rem: TEMP := RETURN2; t := RETURN1; RETURN1 := s1; CQO; IDIV -/
theorem t_divPrefix {τ : TState} {t s1 s2 : Temporary} (P : DivPlacement t s1 s2)
    {x y : Word} (hx : τ.val s1 = some x) (hy : τ.val s2 = some y) (hd : DivOK x y) :
    texecList la ([Code.MOV TEMP RETURN2] ++ moveFromRegister t RETURN1 ++ moveToRegister RETURN1 s1 ++
        divBy s2) τ =
      some { (((((τ.set (.reg TEMP) (τ.val (.reg 5))).set t (τ.val (.reg 4))).set (.reg 4) (some x)).set
              (.reg 5) (some (signExt x))).set (.reg 4) (some (x.sdiv y))).set (.reg 5)
              (some (x.srem y)) with flags := none } := by
  have o1 : OpndOK (.reg 1) := ⟨by decide, by decide⟩
  have o4 : OpndOK (.reg 4) := ⟨by decide, by decide⟩
  have o5 : OpndOK (.reg 5) := ⟨by decide, by decide⟩
  have hs1T : s1 ≠ .reg 1 := P.hs1.ne_temp
  have hs2T : s2 ≠ .reg 1 := P.hs2.ne_temp
  have htT : t ≠ .reg 1 := P.ht.ne_temp
  simp only [RETURN1_eq, RETURN2_eq, TEMP_eq]
  have e1 : texecList la [Code.MOV 1 5] τ = some (τ.set (.reg 1) (τ.val (.reg 5))) := by
    simp only [texecList_cons, texec_MOV, tmove, regOpnd_of o1, regOpnd_of o5, texecList]
  rw [texecList_append, texecList_append, texecList_append, e1]
  dsimp only
  rw [t_moveFromRegister o4 P.ht.opnd]
  dsimp only
  rw [t_moveToRegister o4 P.hs1.opnd]
  dsimp only
  have v1 : ((τ.set (.reg 1) (τ.val (.reg 5))).set t ((τ.set (.reg 1) (τ.val (.reg 5))).val
      (.reg 4))).val s1 = some x := by
    simp [P.t_ne_s1.symm, hs1T, hx]
  have v4 : (τ.set (.reg 1) (τ.val (.reg 5))).val (.reg 4) = τ.val (.reg 4) := by simp
  rw [v1, v4]
  have hx4 : (((τ.set (.reg 1) (τ.val (.reg 5))).set t (τ.val (.reg 4))).set (.reg 4)
      (some x)).val (.reg 4) = some x := by simp
  have hyv : (if s2 = .reg 5 then
        (((τ.set (.reg 1) (τ.val (.reg 5))).set t (τ.val (.reg 4))).set (.reg 4) (some x)).val (.reg TEMP)
      else (((τ.set (.reg 1) (τ.val (.reg 5))).set t (τ.val (.reg 4))).set (.reg 4) (some x)).val s2)
      = some y := by
    by_cases e : s2 = .reg 5
    · subst e
      rw [if_pos rfl]
      simp [TEMP_eq, htT.symm, hy]
    · rw [if_neg e]
      simp [P.s2_ne_ret1, P.t_ne_s2.symm, hs2T, hy]
  rw [t_divBy P.hs2.opnd P.s2_ne_ret1 hx4 hyv hd]

/-- B-div: the RETURN1 / RETURN2 / TEMP dance leaves `x / y` in the target and restores rax, rdx -/
theorem t_div {τ : TState} {t s1 s2 : Temporary} (P : DivPlacement t s1 s2)
    {x y : Word} (hx : τ.val s1 = some x) (hy : τ.val s2 = some y) (hd : DivOK x y) :
    ∃ τ', texecList la (div t s1 s2) τ = some τ' ∧ TUpd τ τ' t (some (x.sdiv y)) := by
  have o1 : OpndOK (.reg 1) := ⟨by decide, by decide⟩
  have o4 : OpndOK (.reg 4) := ⟨by decide, by decide⟩
  have o5 : OpndOK (.reg 5) := ⟨by decide, by decide⟩
  have htT : t ≠ .reg 1 := P.ht.ne_temp
  have ht4 := P.t_ne_ret1
  have ht5 := P.t_ne_ret2
  unfold div
  rw [texecList_append, texecList_append, texecList_append, texecList_append, t_divPrefix P hx hy hd]
  simp only [RETURN1_eq, RETURN2_eq, TEMP_eq]
  simp only [texecList_cons, texec_MOV, tmove, regOpnd_of o1, regOpnd_of o4, regOpnd_of o5, texecList]
  rw [t_moveToRegister o4 P.ht.opnd]
  dsimp only
  rw [t_moveFromRegister o5 P.ht.opnd]
  dsimp only
  refine ⟨_, rfl, ?_, ?_⟩
  · simp [ht4, ht5, ht4.symm, ht5.symm]
  · intro u hu hT
    have hT' : u ≠ .reg 1 := hT
    by_cases e5 : u = .reg 5
    · subst e5; simp [htT.symm, ht4.symm, ht5.symm, htT, ht4, ht5]
    · by_cases e4 : u = .reg 4
      · subst e4; simp [htT.symm, ht4.symm, ht5.symm, htT, ht4, ht5]
      · simp [e4, e5, hu, hT']

/-- B-rem: same dance, the remainder (sign of the dividend) ends in the target -/
theorem t_rem {τ : TState} {t s1 s2 : Temporary} (P : DivPlacement t s1 s2)
    {x y : Word} (hx : τ.val s1 = some x) (hy : τ.val s2 = some y) (hd : DivOK x y) :
    ∃ τ', texecList la (rem t s1 s2) τ = some τ' ∧ TUpd τ τ' t (some (x.srem y)) := by
  have o1 : OpndOK (.reg 1) := ⟨by decide, by decide⟩
  have o4 : OpndOK (.reg 4) := ⟨by decide, by decide⟩
  have o5 : OpndOK (.reg 5) := ⟨by decide, by decide⟩
  have htT : t ≠ .reg 1 := P.ht.ne_temp
  have ht4 := P.t_ne_ret1
  have ht5 := P.t_ne_ret2
  unfold rem
  rw [texecList_append, texecList_append, texecList_append, t_divPrefix P hx hy hd]
  simp only [RETURN1_eq, RETURN2_eq, TEMP_eq]
  rw [t_moveToRegister o4 P.ht.opnd]
  dsimp only
  rw [t_moveFromRegister o5 P.ht.opnd]
  dsimp only
  simp only [texecList_cons, texec_MOV, tmove, regOpnd_of o1, regOpnd_of o5, texecList]
  refine ⟨_, rfl, ?_, ?_⟩
  · simp [ht4, ht5, ht4.symm, ht5.symm]
  · intro u hu hT
    have hT' : u ≠ .reg 1 := hT
    by_cases e5 : u = .reg 5
    · subst e5; simp [htT.symm, ht4.symm, ht5.symm, htT, ht4, ht5]
    · by_cases e4 : u = .reg 4
      · subst e4; simp [htT.symm, ht4.symm, ht5.symm, htT, ht4, ht5]
      · simp [e4, e5, hu, hT']

/-! ## compare, literals, labels -/

theorem texec_CMP (τ : TState) (r r1 : Nat) : texec la (.CMP r r1) τ = tcmp τ (regOpnd r) (tsrc τ (regOpnd r1)) := rfl
theorem texec_CMPRM (τ : TState) (r b : Nat) (i : Int) :
    texec la (.CMPRM r b i) τ = tcmp τ (regOpnd r) (tsrc τ (memOpnd b i)) := rfl
theorem texec_CMPMR (τ : TState) (r1 b : Nat) (i : Int) :
    texec la (.CMPMR b i r1) τ = tcmp τ (memOpnd b i) (tsrc τ (regOpnd r1)) := rfl
theorem texec_CMPI (τ : TState) (r : Nat) (i : Int) : texec la (.CMPI r i) τ = tcmp τ (regOpnd r) (timm i) := rfl
theorem texec_CMPIM (τ : TState) (b : Nat) (i1 i2 : Int) :
    texec la (.CMPIM b i1 i2) τ = tcmp τ (memOpnd b i1) (timm i2) := rfl

/-- B-compare: `compare fst snd` records the two operands in the flags; nothing but TEMP changes -/
theorem t_compare {τ : TState} {fst snd : Temporary} (h1 : TempOK fst) (h2 : TempOK snd)
    {x y : Word} (hx : τ.val fst = some x) (hy : τ.val snd = some y) :
    ∃ τ', texecList la (compare fst snd) τ = some τ' ∧ τ'.flags = some (x, y) ∧
      ∀ u, u ≠ .reg TEMP → τ'.val u = τ.val u := by
  cases fst with
  | reg r1 =>
    cases snd with
    | reg r2 =>
      refine ⟨{ τ with flags := some (x, y) }, ?_, rfl, fun _ _ => rfl⟩
      simp [compare, texecList, texec_CMP, tcmp, tsrc, regOpnd_of h1.opnd, regOpnd_of h2.opnd, hx, hy]
    | spill p2 =>
      refine ⟨{ τ with flags := some (x, y) }, ?_, rfl, fun _ _ => rfl⟩
      simp [compare, texecList, texec_CMPRM, tcmp, tsrc, regOpnd_of h1.opnd, memOpnd_of h2.opnd, hx, hy]
  | spill p1 =>
    cases snd with
    | reg r2 =>
      refine ⟨{ τ with flags := some (x, y) }, ?_, rfl, fun _ _ => rfl⟩
      simp [compare, texecList, texec_CMPMR, tcmp, tsrc, regOpnd_of h2.opnd, memOpnd_of h1.opnd, hx, hy]
    | spill p2 =>
      refine ⟨{ τ.set (.reg TEMP) (τ.val (.spill p1)) with flags := some (x, y) }, ?_, rfl,
        fun u hu => by simp [hu]⟩
      simp [compare, texecList, texec_MOVL, tmove, texec_CMPRM, tcmp, tsrc, regOpnd_of opndOK_temp,
        memOpnd_of h1.opnd, memOpnd_of h2.opnd, hx, hy]

/-- B-compare with an immediate (the `== 0` forms): nothing changes but the flags -/
theorem t_compareImmediate {τ : TState} {t : Temporary} (h1 : TempOK t) {i : Int} (hi : fitsI32 i = true)
    {x : Word} (hx : τ.val t = some x) :
    texecList la (compareImmediate t i) τ = some { τ with flags := some (x, BitVec.ofInt 64 i) } := by
  cases t with
  | reg r => simp [compareImmediate, texecList, texec_CMPI, tcmp, timm, hi, regOpnd_of h1.opnd, hx]
  | spill p => simp [compareImmediate, texecList, texec_CMPIM, tcmp, timm, hi, memOpnd_of h1.opnd, hx]

/-- B-load_immediate, for EVERY `i64` literal and EVERY placement of the target.  (Repaired code,
    /repo 512f045: a literal outside i32 reaches a SPILLED target through TEMP — `mov rcx, imm64;
    mov [rsp + off], rcx` — instead of the non-existent `mov qword [rsp + off], imm64` of defect D5.) -/
theorem t_loadImmediate {τ : TState} {t : Temporary} (ht : TempOK t) {v : Int} (h64 : fitsI64 v = true) :
    ∃ τ', texecList la (loadImmediate t v) τ = some τ' ∧ TUpd τ τ' t (some (BitVec.ofInt 64 v)) := by
  cases t with
  | reg r =>
    refine ⟨τ.set (.reg r) (some (BitVec.ofInt 64 v)), ?_, ⟨by simp, fun u hu _ => by simp [hu]⟩⟩
    simp [loadImmediate, texecList, texec, regOpnd_of ht.opnd, h64]
  | spill p =>
    by_cases h32 : fitsI32 v = true
    · refine ⟨τ.set (.spill p) (some (BitVec.ofInt 64 v)), ?_, ⟨by simp, fun u hu _ => by simp [hu]⟩⟩
      simp [loadImmediate, texecList, texec, memOpnd_of ht.opnd, h32]
    · refine ⟨(τ.set (.reg TEMP) (some (BitVec.ofInt 64 v))).set (.spill p) (some (BitVec.ofInt 64 v)), ?_,
        ⟨by simp, fun u hu hT => by simp [hu, hT]⟩⟩
      simp [loadImmediate, h32, texecList, texec, tmove, regOpnd_of opndOK_temp, memOpnd_of ht.opnd, h64]

/-- B-load_label: the address of the label ends in the target -/
theorem t_loadLabel {τ : TState} {t : Temporary} (ht : TempOK t) {name : String} {n : Nat}
    (hl : la name = some n) :
    ∃ τ', texecList la (loadLabel t name) τ = some τ' ∧ TUpd τ τ' t (some (BitVec.ofNat 64 n)) := by
  cases t with
  | reg r =>
    refine ⟨τ.set (.reg r) (some (BitVec.ofNat 64 n)), ?_, ⟨by simp, fun u hu _ => by simp [hu]⟩⟩
    simp [loadLabel, texecList, texec, regOpnd_of ht.opnd, hl]
  | spill p =>
    refine ⟨(τ.set (.reg TEMP) (some (BitVec.ofNat 64 n))).set (.spill p) (some (BitVec.ofNat 64 n)), ?_,
      ⟨by simp, fun u hu hT => by simp [hu, hT]⟩⟩
    simp [loadLabel, texecList, texec, tmove, regOpnd_of opndOK_temp, memOpnd_of ht.opnd, hl]

/-! ## jumps through a register: switch and invoke -/

theorem texec_ADDI (τ : TState) (r : Nat) (i : Int) : texec la (.ADDI r i) τ = talu (· + ·) τ (regOpnd r) (timm i) := rfl

/-- the register an indirect jump through temporary `t` uses -/
def jumpReg : Temporary → Nat
  | .reg r => r
  | .spill _ => TEMP

/-- code.rs add_and_jump without its final `jmp` -/
def addAndJumpPre (t : Temporary) (imm : Int) : List Code :=
  match t with
  | .reg r => [.ADDI r imm]
  | .spill p => [.MOVL TEMP STACK (stackOffset p), .ADDI TEMP imm]

theorem addAndJump_eq (t : Temporary) (imm : Int) :
    addAndJump t imm = addAndJumpPre t imm ++ [.JMP (jumpReg t)] := by
  cases t <;> rfl

/-- B-add_and_jump (invoke): the jump register ends with `x + imm`, `x` the table address in `t` -/
theorem t_addAndJumpPre {τ : TState} {t : Temporary} (ht : TempOK t) {imm : Int} (hi : fitsI32 imm = true)
    {x : Word} (hx : τ.val t = some x) :
    ∃ τ', texecList la (addAndJumpPre t imm) τ = some τ' ∧
      τ'.val (.reg (jumpReg t)) = some (x + BitVec.ofInt 64 imm) ∧
      ∀ u, u ≠ t → u ≠ .reg TEMP → τ'.val u = τ.val u := by
  cases t with
  | reg r =>
    refine ⟨{ τ.set (.reg r) (some (x + BitVec.ofInt 64 imm)) with flags := none }, ?_, by simp [jumpReg],
      fun u hu _ => by simp [hu]⟩
    simp [addAndJumpPre, texecList, texec_ADDI, talu, timm, hi, regOpnd_of ht.opnd, hx]
  | spill p =>
    refine ⟨{ (τ.set (.reg TEMP) (some x)).set (.reg TEMP) (some (x + BitVec.ofInt 64 imm)) with flags := none },
      ?_, by simp [jumpReg], fun u _ hT => by simp [hT]⟩
    simp [addAndJumpPre, texecList, texec_MOVL, tmove, texec_ADDI, talu, timm, hi, regOpnd_of opndOK_temp,
      memOpnd_of ht.opnd, hx]

/-- switch.rs: `load_label TEMP l; add TEMP TEMP tag` (then `jump TEMP`): TEMP = address of the
    table + the tag; correct for a tag in a register AND in a spill slot -/
theorem t_switchPre {τ : TState} {tag : Temporary} (ht : TempOK tag) {l : String} {n : Nat}
    (hl : la l = some n) {x : Word} (hx : τ.val tag = some x) :
    ∃ τ', texecList la (loadLabel (.reg TEMP) l ++ add (.reg TEMP) (.reg TEMP) tag) τ = some τ' ∧
      τ'.val (.reg TEMP) = some (BitVec.ofNat 64 n + x) ∧
      ∀ u, u ≠ .reg TEMP → τ'.val u = τ.val u := by
  have e1 : texecList la (loadLabel (.reg TEMP) l) τ = some (τ.set (.reg TEMP) (some (BitVec.ofNat 64 n))) := by
    simp [loadLabel, texecList, texec, regOpnd_of opndOK_temp, hl]
  have hx' : (τ.set (.reg TEMP) (some (BitVec.ofNat 64 n))).val tag = some x := by
    simp [ht.ne_temp, hx]
  have e2 := addToRegister_spec (la := la) (τ.set (.reg TEMP) (some (BitVec.ofNat 64 n))) TEMP tag
    (BitVec.ofNat 64 n) x opndOK_temp ht.opnd (by simp) hx'
  refine ⟨_, by
    rw [texecList_append, e1]
    simp only [add, opCommutative, if_true]
    exact e2, by simp, fun u hu => by simp [hu]⟩

end Level

end Scc.X86
