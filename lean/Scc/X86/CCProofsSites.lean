/-
  Scc.X86.CCProofsSites — property C13, x86-64, static facts (continued): what the shape
  `CCShape plainCC body` of Scc/X86/CCProofsStatic.lean says about CALL SITES and about the whole routine.

  (i)   `ccShape_call_site`: every `call` of the body is the call of a print block: it is preceded by
        `blockBefore t ctx` (argument staging; save sequence; argument move) and followed by
        `blockAfter ctx` (restore sequence) for ONE context `ctx` and a source `t` that is the `Snd`
        temporary of a variable of `ctx`; `save_restore_mirror`: the restore sequence undoes the save
        sequence (same backup moves reversed in direction, same padding, pops in reverse push order);
        `mem_callerSave_iff`: the saved registers are EXACTLY the caller-save registers rax … r11 that
        hold a live temporary of `ctx`; the backup registers are free callee-saved registers.
  (ii)  `spDelta` / `spSum`: static displacement of `rsp`.  `routine_call_parity`: at every call site of
        the routine the displacement from the routine entry is ≡ 8 (mod 16), i.e. with the System V
        entry condition `rsp ≡ 8 (mod 16)` the call is made with `rsp ≡ 0 (mod 16)`;
        `routine_balanced`: the displacement at the final `ret` is 0.
  (iii) `routine_anatomy`: the routine is head ++ body ++ epilogue ++ [ret]; the prologue pushes
        `calleeSaved` (ALL callee-saved registers of the machine model) and the epilogue pops them in
        reverse order; `routine_spill_refs`: every `rsp`-relative operand of the routine lies inside the
        spill area reserved by the prologue (`sub rsp, 2048`).
  (iv)  `ccShape_sp_writers`: an instruction of the body that writes `rsp` or is a push / pop / call
        belongs to a print block.
-/
import Scc.X86.CCProofsStatic

set_option linter.unusedVariables false
set_option linter.unusedSimpArgs false

namespace Scc.X86

open Scc.AxCut

/-! ## static displacement of rsp -/

/-- what the instruction adds to `rsp` (instructions that write `rsp` in any other way do not occur:
    `plainCC`) -/
def spDelta : Code → Int
  | .PUSH _ => -8
  | .POP _ => 8
  | .SUBI r i => if r = 0 then -i else 0
  | .ADDI r i => if r = 0 then i else 0
  | _ => 0

def spSum (l : List Code) : Int := (l.map spDelta).sum

@[simp] theorem spSum_nil : spSum [] = 0 := rfl
@[simp] theorem spSum_cons (c : Code) (l : List Code) : spSum (c :: l) = spDelta c + spSum l := by
  simp [spSum]
@[simp] theorem spSum_append (a b : List Code) : spSum (a ++ b) = spSum a + spSum b := by
  simp [spSum]

theorem spDelta_plain {c : Code} (h : plainCC c = true) : spDelta c = 0 := by
  cases c <;> simp [plainCC, isStackOp, codeWrites, codeMems] at h <;> simp [spDelta, *]

theorem spSum_allCC {l : List Code} (h : AllCC l) : spSum l = 0 := by
  induction l with
  | nil => rfl
  | cons c rest ih =>
    simp only [AllCC, List.all_cons, Bool.and_eq_true] at h
    rw [spSum_cons, spDelta_plain h.1, ih h.2]; rfl

theorem spSum_push (l : List Nat) : spSum (l.map Code.PUSH) = -8 * (l.length : Int) := by
  induction l with
  | nil => rfl
  | cons r rest ih => simp only [List.map_cons, spSum_cons, ih, spDelta, List.length_cons]; omega

theorem spSum_pop (l : List Nat) : spSum (l.map Code.POP) = 8 * (l.length : Int) := by
  induction l with
  | nil => rfl
  | cons r rest ih => simp only [List.map_cons, spSum_cons, ih, spDelta, List.length_cons]; omega

theorem spSum_backupMoves (first : Nat) (l : List Nat) (k : Nat) : spSum (backupMoves first l k) = 0 := by
  induction l generalizing k with
  | nil => rfl
  | cons r rest ih =>
    have : backupMoves first (r :: rest) k = Code.MOV (first + k) r :: backupMoves first rest (k + 1) := by
      simp [backupMoves, List.zipIdx_cons]
    rw [this, spSum_cons, ih]; rfl

theorem spSum_restoreMoves (first : Nat) (l : List Nat) (k : Nat) : spSum (restoreMoves first l k) = 0 := by
  induction l generalizing k with
  | nil => rfl
  | cons r rest ih =>
    have : restoreMoves first (r :: rest) k = Code.MOV r (first + k) :: restoreMoves first rest (k + 1) := by
      simp [restoreMoves, List.zipIdx_cons]
    rw [this, spSum_cons, ih]; rfl

/-- number of registers that `save_caller_save_registers` pushes -/
def pushedCount (first : Nat) (L : List Nat) : Nat := L.length - backupRegistersUsed first L

theorem spSum_save (first : Nat) (L : List Nat) :
    spSum (saveCallerSaveRegisters first L) =
      -8 * (pushedCount first L : Int) - (if pushedCount first L % 2 = 0 then 8 else 0) := by
  rw [save_eq]
  simp only [spSum_append, spSum_backupMoves, spSum_push, List.length_drop, pushedCount]
  by_cases h : (L.length - backupRegistersUsed first L) % 2 = 0
  · simp only [h, if_true, spSum_cons, spSum_nil, spDelta]; omega
  · simp only [h, if_false, spSum_nil]; omega

theorem spSum_restore (first : Nat) (L : List Nat) :
    spSum (restoreCallerSaveRegisters first L) =
      8 * (pushedCount first L : Int) + (if pushedCount first L % 2 = 0 then 8 else 0) := by
  rw [restore_eq]
  simp only [spSum_append, spSum_restoreMoves, spSum_pop, List.length_drop, List.length_reverse, pushedCount]
  by_cases h : (L.length - backupRegistersUsed first L) % 2 = 0
  · simp only [h, if_true, spSum_cons, spSum_nil, spDelta]; omega
  · simp only [h, if_false, spSum_nil]; omega

/-! ## the anatomy of a print block -/

/-- the part of a print block before its `call` -/
def blockBefore (t : Temporary) (ctx : Ctx) : List Code :=
  printPre t ++ [Code.COMMENT "#save caller-save registers"] ++
    saveCallerSaveRegisters (callerSaveRegistersInfo ctx).1 (callerSaveRegistersInfo ctx).2 ++
    [Code.COMMENT "#move argument into place", printArgMove t]

/-- the part of a print block after its `call` -/
def blockAfter (ctx : Ctx) : List Code :=
  Code.COMMENT "#restore caller-save registers" ::
    restoreCallerSaveRegisters (callerSaveRegistersInfo ctx).1 (callerSaveRegistersInfo ctx).2

def printFn (nl : Bool) : String := if nl then "println_i64" else "print_i64"

theorem printI64_split (nl : Bool) (t : Temporary) (ctx : Ctx) :
    printI64 nl t ctx = blockBefore t ctx ++ Code.CALL (printFn nl) :: blockAfter ctx := by
  rw [printI64_eq]
  simp [blockBefore, blockAfter, printFn]

def NoCall (l : List Code) : Prop := ∀ c ∈ l, isCall c = false

theorem noCall_append {a b : List Code} (ha : NoCall a) (hb : NoCall b) : NoCall (a ++ b) :=
  fun c hc => (List.mem_append.1 hc).elim (ha c) (hb c)

theorem noCall_save (first : Nat) (L : List Nat) : NoCall (saveCallerSaveRegisters first L) := by
  intro code hcode
  rw [save_eq] at hcode
  simp only [List.mem_append, backupMoves, List.mem_map] at hcode
  rcases hcode with (⟨_, _, rfl⟩ | ⟨_, _, rfl⟩) | hcode
  · rfl
  · rfl
  · split at hcode <;> simp at hcode; subst hcode; rfl

theorem noCall_restore (first : Nat) (L : List Nat) : NoCall (restoreCallerSaveRegisters first L) := by
  intro code hcode
  rw [restore_eq] at hcode
  simp only [List.mem_append, restoreMoves, List.mem_map] at hcode
  rcases hcode with (⟨_, _, rfl⟩ | hcode) | ⟨_, _, rfl⟩
  · rfl
  · split at hcode <;> simp at hcode; subst hcode; rfl
  · rfl

theorem noCall_blockBefore (t : Temporary) (ctx : Ctx) : NoCall (blockBefore t ctx) := by
  unfold blockBefore
  refine noCall_append (noCall_append (noCall_append ?_ ?_) (noCall_save _ _)) ?_
  · cases t <;> simp [NoCall, printPre, moveToRegister, isCall]
  · simp [NoCall, isCall]
  · simp [NoCall, isCall, printArgMove]

theorem noCall_blockAfter (ctx : Ctx) : NoCall (blockAfter ctx) := by
  intro c hc
  simp only [blockAfter, List.mem_cons] at hc
  rcases hc with rfl | hc
  · rfl
  · exact noCall_restore _ _ c hc

theorem spSum_printPre (t : Temporary) : spSum (printPre t) = 0 := by
  cases t <;> simp [printPre, moveToRegister, spDelta]

/-- (ii) for one block: between the block entry and its call `rsp` moves by an ODD number of words -/
theorem spSum_blockBefore (t : Temporary) (ctx : Ctx) : spSum (blockBefore t ctx) % 16 = 8 := by
  simp only [blockBefore, spSum_append, spSum_printPre, spSum_save, spSum_cons, spSum_nil, spDelta,
    printArgMove]
  split <;> omega

/-- … and the whole block is balanced -/
theorem spSum_printI64 (nl : Bool) (t : Temporary) (ctx : Ctx) : spSum (printI64 nl t ctx) = 0 := by
  rw [printI64_split]
  simp only [blockBefore, blockAfter, spSum_append, spSum_printPre, spSum_save, spSum_restore, spSum_cons,
    spSum_nil, spDelta, printArgMove]
  split <;> omega

theorem spSum_ccShape {body : List Code} (h : CCShape plainCC body) : spSum body = 0 := by
  induction h with
  | nil => rfl
  | plain hc _ ih => rw [spSum_cons, spDelta_plain hc, ih]; rfl
  | print _ _ ih => rw [spSum_append, spSum_printI64, ih]; rfl

/-! ## (i) call sites -/

theorem plainCC_noCall {c : Code} (h : plainCC c = true) : isCall c = false := by
  cases c <;> first | rfl | simp [plainCC, isStackOp] at h

/-- a list with exactly one call splits uniquely at it -/
theorem split_at_call {B1 B2 pre post : List Code} {a b : Code} (h1 : NoCall B1)
    (hb : isCall b = true) (e : B1 ++ a :: B2 = pre ++ b :: post) (ha : isCall a = true) (h2 : NoCall B2) :
    pre = B1 ∧ a = b ∧ post = B2 := by
  induction B1 generalizing pre with
  | nil =>
    cases pre with
    | nil => simp at e; exact ⟨rfl, e.1, e.2.symm⟩
    | cons x pre' =>
      simp only [List.nil_append, List.cons_append, List.cons.injEq] at e
      have : b ∈ B2 := by rw [e.2]; simp
      have := h2 b this
      rw [hb] at this; cases this
  | cons x B1' ih =>
    cases pre with
    | nil =>
      simp only [List.cons_append, List.nil_append, List.cons.injEq] at e
      have := h1 x (by simp)
      rw [e.1, hb] at this; cases this
    | cons y pre' =>
      simp only [List.cons_append, List.cons.injEq] at e
      obtain ⟨r1, r2, r3⟩ := ih (fun c hc => h1 c (by simp [hc])) e.2
      exact ⟨by rw [e.1, r1], r2, r3⟩

/-- (i) EVERY CALL SITE of a body is the call of a print block -/
theorem ccShape_call_site {body : List Code} (h : CCShape plainCC body) :
    ∀ {pre post : List Code} {f : String}, body = pre ++ Code.CALL f :: post →
    ∃ pre' nl t ctx post', PrintSrc ctx t ∧ CCShape plainCC pre' ∧ CCShape plainCC post' ∧
      f = printFn nl ∧ pre = pre' ++ blockBefore t ctx ∧ post = blockAfter ctx ++ post' := by
  induction h with
  | nil => intro pre post f e; simp at e
  | @plain c rest hc hrest ih =>
    intro pre post f e
    cases pre with
    | nil =>
      simp only [List.nil_append, List.cons.injEq] at e
      have := plainCC_noCall hc
      rw [e.1] at this; cases this
    | cons x pre1 =>
      simp only [List.cons_append, List.cons.injEq] at e
      obtain ⟨pre', nl, t, ctx, post', hs, h1, h2, hf, hp, hq⟩ := ih e.2
      exact ⟨x :: pre', nl, t, ctx, post', hs, .plain (e.1 ▸ hc) h1, h2, hf, by rw [hp]; rfl, hq⟩
  | @print nl t ctx rest hs hrest ih =>
    intro pre post f e
    rcases List.append_eq_append_iff.1 e with ⟨m, hm1, hm2⟩ | ⟨m, hm1, hm2⟩
    · -- pre = block ++ m, rest = m ++ CALL f :: post
      obtain ⟨pre', nl', t', ctx', post', hs', h1, h2, hf, hp, hq⟩ := ih hm2
      refine ⟨printI64 nl t ctx ++ pre', nl', t', ctx', post', hs', ?_, h2, hf, ?_, hq⟩
      · exact CCShape.append (CCShape.printBlock hs) h1
      · rw [hm1, hp, List.append_assoc]
    · -- block = pre ++ m, CALL f :: post = m ++ rest
      cases m with
      | nil =>
        simp only [List.append_nil] at hm1
        simp only [List.nil_append] at hm2
        obtain ⟨pre', nl', t', ctx', post', hs', h1, h2, hf, hp, hq⟩ :=
          ih (pre := []) (post := post) (f := f) (by simpa using hm2.symm)
        refine ⟨printI64 nl t ctx ++ pre', nl', t', ctx', post', hs', ?_, h2, hf, ?_, hq⟩
        · exact CCShape.append (CCShape.printBlock hs) h1
        · rw [← hm1, List.append_assoc, ← hp]; simp
      | cons x m' =>
        simp only [List.cons_append, List.cons.injEq] at hm2
        obtain ⟨hx, hpost⟩ := hm2
        subst hx
        rw [printI64_split] at hm1
        obtain ⟨r1, r2, r3⟩ := split_at_call (noCall_blockBefore t ctx) rfl hm1 rfl (noCall_blockAfter ctx)
        simp only [Code.CALL.injEq] at r2
        exact ⟨[], nl, t, ctx, rest, hs, .nil, hrest, r2.symm, by rw [r1]; rfl, by rw [hpost, r3]⟩

/-- (ii) for bodies: the displacement of `rsp` between the start of the body and any of its call
    sites is an odd number of words -/
theorem ccShape_call_parity {body : List Code} (h : CCShape plainCC body) {pre post : List Code} {f : String}
    (e : body = pre ++ Code.CALL f :: post) : spSum pre % 16 = 8 := by
  obtain ⟨pre', nl, t, ctx, post', _, h1, _, _, hp, _⟩ := ccShape_call_site h e
  rw [hp, spSum_append, spSum_ccShape h1]
  have := spSum_blockBefore t ctx
  omega

/-- (iv) an instruction of the body that is a push / pop / call / ret or writes `rsp` is not a plain
    instruction, hence (by `CCShape`) part of a print block -/
theorem plainCC_spec {c : Code} (h : plainCC c = true) :
    isStackOp c = false ∧ 0 ∉ codeWrites c ∧ ∀ bi ∈ codeMems c, bi.1 = 0 → slotOK bi.2 = true := by
  simp only [plainCC, Bool.and_eq_true, Bool.not_eq_true', List.all_eq_true, bne_iff_ne, ne_eq,
    Bool.or_eq_true] at h
  refine ⟨h.1.1, fun h0 => h.1.2 0 h0 rfl, fun bi hbi h0 => ?_⟩
  rcases h.2 bi hbi with h1 | h1
  · exact absurd h0 h1
  · exact h1

/-- (iv) an instruction of the body that is NOT plain (it writes `rsp`, or is a push / pop / call /
    ret) lies inside a print block: `body.drop j` starts with `printI64 nl t ctx` and the instruction
    is one of the block's -/
theorem ccShape_nonplain_in_block {plain : Code → Bool} {body : List Code} (h : CCShape plain body) :
    ∀ (k : Nat) (c : Code), body[k]? = some c → plain c = false →
      ∃ j nl t ctx, PrintSrc ctx t ∧ j ≤ k ∧ k < j + (printI64 nl t ctx).length ∧
        (body.drop j).take (printI64 nl t ctx).length = printI64 nl t ctx := by
  induction h with
  | nil => intro k c hk; simp at hk
  | @plain c0 rest hc hrest ih =>
    intro k c hk hp
    cases k with
    | zero =>
      simp only [List.getElem?_cons_zero, Option.some.injEq] at hk
      subst hk
      rw [hc] at hp; cases hp
    | succ k =>
      obtain ⟨j, nl, t, ctx, hs, h1, h2, h3⟩ := ih k c (by simpa using hk) hp
      exact ⟨j + 1, nl, t, ctx, hs, by omega, by omega, by simpa using h3⟩
  | @print nl t ctx rest hs hrest ih =>
    intro k c hk hp
    by_cases hlt : k < (printI64 nl t ctx).length
    · exact ⟨0, nl, t, ctx, hs, by omega, by omega, by simp⟩
    · have hge : (printI64 nl t ctx).length ≤ k := by omega
      rw [List.getElem?_append_right hge] at hk
      obtain ⟨j, nl', t', ctx', hs', h1, h2, h3⟩ := ih _ c hk hp
      refine ⟨j + (printI64 nl t ctx).length, nl', t', ctx', hs', by omega, by omega, ?_⟩
      rw [show j + (printI64 nl t ctx).length = (printI64 nl t ctx).length + j by omega, ← List.drop_drop,
        List.drop_left]
      exact h3

/-! ## the saved registers are exactly the live caller-save registers -/

/-- register `r` holds a live temporary of the context: the `Snd` temporary of any variable, the
    `Fst` temporary of a non-integer -/
def LiveReg (ctx : Ctx) (r : Nat) : Prop :=
  ∃ i b, ctx[i]? = some b ∧ (r = 2 * i + 5 ∨ (r = 2 * i + 4 ∧ b.chi ≠ .ext))

theorem mem_regsToSave_inv (l : List Binding) (k r : Nat) (h : r ∈ regsToSave l k) :
    ∃ i b, l[i]? = some b ∧ (r = 4 + 2 * (k + i) + 1 ∨ (r = 4 + 2 * (k + i) ∧ b.chi ≠ .ext)) := by
  induction l generalizing k with
  | nil => simp [regsToSave] at h
  | cons b0 rest ih =>
    rw [regsToSave_cons, List.mem_append] at h
    rcases h with h | h
    · refine ⟨0, b0, rfl, ?_⟩
      split at h
      · simp at h; left; omega
      · rename_i hne
        simp at h
        rcases h with h | h
        · right; exact ⟨by omega, fun e => hne (by rw [e]; decide)⟩
        · left; omega
    · obtain ⟨i, b, hb, hr⟩ := ih (k + 1) h
      refine ⟨i + 1, b, by simpa using hb, ?_⟩
      rcases hr with hr | hr
      · left; omega
      · right; exact ⟨by omega, hr.2⟩

/-- (i) EXACTNESS: `registers_to_save` = the caller-save registers rax … r11 (backend numbers 4 … 11)
    that hold a live temporary of the context -/
theorem mem_callerSave_iff (ctx : Ctx) (r : Nat) :
    r ∈ (callerSaveRegistersInfo ctx).2 ↔ (4 ≤ r ∧ r ≤ 11 ∧ LiveReg ctx r) := by
  rw [csri_eq]
  dsimp only
  constructor
  · intro h
    obtain ⟨i, b, hb, hr⟩ := mem_regsToSave_inv _ 0 r h
    have hi : i < (ctx.take 4).length := by
      rcases Nat.lt_or_ge i (ctx.take 4).length with h' | h'
      · exact h'
      · simp [List.getElem?_eq_none h'] at hb
    have hi4 : i < 4 := by simp at hi; omega
    have hb' : ctx[i]? = some b := by rw [List.getElem?_take_of_lt hi4] at hb; exact hb
    rcases hr with hr | hr
    · exact ⟨by omega, by omega, i, b, hb', Or.inl (by omega)⟩
    · exact ⟨by omega, by omega, i, b, hb', Or.inr ⟨by omega, hr.2⟩⟩
  · rintro ⟨h4, h11, i, b, hb, hr⟩
    have hi4 : i < 4 := by rcases hr with hr | hr <;> omega
    have hb' : (ctx.take 4)[i]? = some b := by rw [List.getElem?_take_of_lt hi4]; exact hb
    have := mem_regsToSave (ctx.take 4) 0 i b hb'
    rcases hr with hr | hr
    · have e : 4 + 2 * (0 + i) + 1 = r := by omega
      rw [← e]; exact this.1
    · have e : 4 + 2 * (0 + i) = r := by omega
      rw [← e]; exact this.2 hr.2

/-- the backup registers are free (above every live register) callee-saved registers r12 … r15 -/
theorem backupRegs_free (ctx : Ctx) :
    12 ≤ (callerSaveRegistersInfo ctx).1 ∧ 2 * ctx.length + 4 ≤ (callerSaveRegistersInfo ctx).1 ∧
    ((callerSaveRegistersInfo ctx).1 + backupRegistersUsed (callerSaveRegistersInfo ctx).1
      (callerSaveRegistersInfo ctx).2 ≤ 16 ∨
     backupRegistersUsed (callerSaveRegistersInfo ctx).1 (callerSaveRegistersInfo ctx).2 = 0) := by
  rw [csri_eq]
  dsimp only
  refine ⟨Nat.le_max_right _ _, Nat.le_max_left _ _, ?_⟩
  unfold backupRegistersUsed
  simp only [show REGISTER_NUM = 16 from rfl]
  omega

/-- (i) MIRROR: the restore sequence undoes the save sequence: the same registers come back from
    the same backup registers, the padding is removed iff it was added, and the pops are the pushes
    in reverse order -/
theorem save_restore_mirror (first : Nat) (L : List Nat) :
    ∃ (moved pushed : List Nat) (pad : Bool), moved ++ pushed = L ∧
      saveCallerSaveRegisters first L =
        backupMoves first moved 0 ++ pushed.map Code.PUSH ++ (if pad then [Code.SUBI 0 8] else []) ∧
      restoreCallerSaveRegisters first L =
        restoreMoves first moved 0 ++ (if pad then [Code.ADDI 0 8] else []) ++ pushed.reverse.map Code.POP := by
  refine ⟨L.take (backupRegistersUsed first L), L.drop (backupRegistersUsed first L),
    decide ((L.length - backupRegistersUsed first L) % 2 = 0), List.take_append_drop _ _, ?_, ?_⟩
  · rw [save_eq]; simp
  · rw [restore_eq]; simp

/-! ## (iii) the routine -/

/-- everything `into_x86_64_routine` puts before the body -/
def routineHead (moves : List Code) : List Code :=
  [Code.COMMENT "asmsyntax=nasm"] ++ preamble ++ (prologue ++ moves) ++ [Code.COMMENT "actual code"]

theorem routine_anatomy {body routine : List Code} {n : Nat} (h : intoRoutine body n = .ok routine) :
    ∃ moves, moveArguments n = .ok moves ∧ routine = routineHead moves ++ body ++ (epilogue ++ [Code.RET]) := by
  unfold intoRoutine at h
  split at h
  · cases h
  · rename_i su hsu
    cases h
    unfold setup at hsu
    split at hsu
    · cases hsu
    · rename_i moves hm
      refine ⟨moves, hm, ?_⟩
      rw [← cleanup_eq]
      have := setup_eq n moves hm
      unfold setup at this
      rw [hm] at this
      simp only at this
      rw [this] at hsu
      cases hsu
      simp [routineHead]

/-- (iii) PAIRING: the prologue pushes exactly the callee-saved registers of the System V ABI (the
    machine model's `calleeSaved`) and reserves the spill area; the epilogue releases the spill area
    and pops the same registers in reverse order -/
theorem prologue_epilogue_pairing :
    prologue = [Code.COMMENT "setup", Code.COMMENT "save registers"] ++ calleeSaved.map Code.PUSH ++
      [Code.COMMENT "reserve space for register spills", Code.SUBI 0 2048,
       Code.COMMENT "initialize heap pointer", Code.MOV 2 7, Code.COMMENT "initialize free pointer",
       Code.MOV 3 2, Code.ADDI 3 64] ∧
    epilogue = [Code.LAB "cleanup", Code.COMMENT "free space for register spills", Code.ADDI 0 2048,
       Code.COMMENT "restore registers"] ++ calleeSaved.reverse.map Code.POP :=
  ⟨rfl, rfl⟩

theorem allCC_moveArguments : ∀ (n : Nat) (codes : List Code), moveArguments n = .ok codes → AllCC codes
  | 0, codes, h => by
    simp only [moveArguments, Except.ok.injEq] at h; subst h; rfl
  | 1, codes, h => by
    simp only [moveArguments] at h
    split at h
    · rename_i target src ht hs
      cases h
      have hm := List.mem_of_getElem? ht
      simp only [consts, List.mem_cons, List.not_mem_nil, or_false] at hm
      simp [AllCC, plainCC, isStackOp, codeWrites, codeMems]; omega
    · cases h
  | n + 2, codes, h => by
    simp only [moveArguments] at h
    split at h
    · cases h
    · split at h
      · rename_i target src rest ht hs hrest
        cases h
        have hm := List.mem_of_getElem? ht
        simp only [consts, List.mem_cons, List.not_mem_nil, or_false] at hm
        refine allCC_append ?_ (allCC_moveArguments (n + 1) rest hrest)
        simp [AllCC, plainCC, isStackOp, codeWrites, codeMems]; omega
      · cases h

theorem spSum_routineHead {moves : List Code} (hm : AllCC moves) : spSum (routineHead moves) = -2096 := by
  simp only [routineHead, spSum_append, spSum_allCC hm]
  rfl

theorem spSum_epilogue : spSum epilogue = 2096 := rfl

theorem noCall_of_allCC {l : List Code} (h : AllCC l) : NoCall l :=
  fun c hc => plainCC_noCall (List.all_eq_true.1 h c hc)

theorem noCall_routineHead {moves : List Code} (hm : AllCC moves) : NoCall (routineHead moves) := by
  unfold routineHead
  refine noCall_append (noCall_append (noCall_append ?_ ?_) (noCall_append ?_ (noCall_of_allCC hm))) ?_
  · simp [NoCall, isCall]
  · simp [NoCall, isCall, preamble]
  · intro c hc
    simp only [prologue, List.mem_append, List.mem_cons, List.mem_map, List.not_mem_nil, or_false] at hc
    rcases hc with ((rfl | rfl) | ⟨_, _, rfl⟩) | rfl | rfl | rfl | rfl | rfl | rfl | rfl <;> rfl
  · simp [NoCall, isCall]

theorem noCall_epilogue_ret : NoCall (epilogue ++ [Code.RET]) := by
  intro c hc
  simp only [epilogue, List.mem_append, List.mem_cons, List.mem_map, List.not_mem_nil, or_false] at hc
  rcases hc with ((rfl | rfl | rfl | rfl) | ⟨_, _, rfl⟩) | rfl <;> rfl

/-- a call in `H ++ B ++ E`, where `H` and `E` contain no call, is a call of `B` -/
theorem call_in_middle {H B E pre post : List Code} {f : String} (hH : NoCall H) (hE : NoCall E)
    (e : H ++ (B ++ E) = pre ++ Code.CALL f :: post) :
    ∃ pre' post', pre = H ++ pre' ∧ B = pre' ++ Code.CALL f :: post' ∧ post = post' ++ E := by
  have key : ∀ a' : List Code, B ++ E = a' ++ Code.CALL f :: post →
      ∃ post', B = a' ++ Code.CALL f :: post' ∧ post = post' ++ E := by
    intro a' e2
    rcases List.append_eq_append_iff.1 e2 with ⟨m, hm1, hm2⟩ | ⟨m, hm1, hm2⟩
    · have : Code.CALL f ∈ E := by rw [hm2]; simp
      have := hE _ this
      cases this
    · cases m with
      | nil =>
        simp only [List.nil_append] at hm2
        have : Code.CALL f ∈ E := by rw [← hm2]; simp
        have := hE _ this
        cases this
      | cons x m' =>
        simp only [List.cons_append, List.cons.injEq] at hm2
        obtain ⟨rfl, hp⟩ := hm2
        exact ⟨m', hm1, hp⟩
  rcases List.append_eq_append_iff.1 e with ⟨m, hm1, hm2⟩ | ⟨m, hm1, hm2⟩
  · obtain ⟨post', h1, h2⟩ := key m hm2
    exact ⟨m, post', hm1, h1, h2⟩
  · cases m with
    | nil =>
      simp only [List.append_nil] at hm1
      simp only [List.nil_append] at hm2
      obtain ⟨post', h1, h2⟩ := key [] (by simpa using hm2.symm)
      exact ⟨[], post', by simp [hm1], h1, h2⟩
    | cons x m' =>
      simp only [List.cons_append, List.cons.injEq] at hm2
      obtain ⟨rfl, _⟩ := hm2
      have : Code.CALL f ∈ H := by rw [hm1]; simp
      have := hH _ this
      cases this

/-- (ii) PARITY AT EVERY CALL SITE OF THE ROUTINE: the static displacement of `rsp` between the
    routine entry and the call is ≡ 8 (mod 16); with the ABI entry condition `rsp ≡ 8 (mod 16)` the
    call is made with `rsp ≡ 0 (mod 16)` (`call_aligned_of_parity`) -/
theorem routine_call_parity {body routine : List Code} {n : Nat} (hb : CCShape plainCC body)
    (h : intoRoutine body n = .ok routine) {pre post : List Code} {f : String}
    (e : routine = pre ++ Code.CALL f :: post) : spSum pre % 16 = 8 := by
  obtain ⟨moves, hm, hr⟩ := routine_anatomy h
  have hmoves := allCC_moveArguments n moves hm
  rw [hr, List.append_assoc] at e
  obtain ⟨pre', post', h1, h2, _⟩ := call_in_middle (noCall_routineHead hmoves) noCall_epilogue_ret e
  rw [h1, spSum_append, spSum_routineHead hmoves]
  have := ccShape_call_parity hb h2
  omega

/-- with the ABI entry alignment, `entry + displacement` is 16-aligned at the call -/
theorem call_aligned_of_parity {entry : Nat} {d : Int} (he : entry % 16 = 8) (hd : d % 16 = 8) :
    ((entry : Int) + d) % 16 = 0 := by omega

/-- (ii)/(iii) BALANCE: at the final `ret` the static displacement is 0 (`rsp` is back at its entry
    value) -/
theorem routine_balanced {body routine : List Code} {n : Nat} (hb : CCShape plainCC body)
    (h : intoRoutine body n = .ok routine) : spSum routine.dropLast = 0 ∧ routine.getLast? = some Code.RET := by
  obtain ⟨moves, hm, hr⟩ := routine_anatomy h
  have hmoves := allCC_moveArguments n moves hm
  have e : routine = (routineHead moves ++ body ++ epilogue) ++ [Code.RET] := by
    rw [hr]; simp
  rw [e, List.dropLast_concat, List.getLast?_concat]
  refine ⟨?_, rfl⟩
  rw [spSum_append, spSum_append, spSum_routineHead hmoves, spSum_ccShape hb, spSum_epilogue]
  rfl

/-! ## (iii) spill area -/

/-- every `rsp`-relative operand addresses a word of the spill area -/
def spillRefsOK (c : Code) : Bool := (codeMems c).all (fun bi => bi.1 != 0 || slotOK bi.2)

theorem spillRefsOK_of_plainCC {c : Code} (h : plainCC c = true) : spillRefsOK c = true := by
  simp only [plainCC, Bool.and_eq_true] at h
  exact h.2

theorem spillRefs_save (first : Nat) (L : List Nat) :
    (saveCallerSaveRegisters first L).all spillRefsOK = true := by
  rw [List.all_eq_true]
  intro code hcode
  rw [save_eq] at hcode
  simp only [List.mem_append, backupMoves, List.mem_map] at hcode
  rcases hcode with (⟨_, _, rfl⟩ | ⟨_, _, rfl⟩) | hcode
  · rfl
  · rfl
  · split at hcode <;> simp at hcode; subst hcode; rfl

theorem spillRefs_restore (first : Nat) (L : List Nat) :
    (restoreCallerSaveRegisters first L).all spillRefsOK = true := by
  rw [List.all_eq_true]
  intro code hcode
  rw [restore_eq] at hcode
  simp only [List.mem_append, restoreMoves, List.mem_map] at hcode
  rcases hcode with (⟨_, _, rfl⟩ | hcode) | ⟨_, _, rfl⟩
  · rfl
  · split at hcode <;> simp at hcode; subst hcode; rfl
  · rfl

theorem spillRefs_printI64 (nl : Bool) {t : Temporary} (ht : OpndOK t) (ctx : Ctx) :
    (printI64 nl t ctx).all spillRefsOK = true := by
  rw [printI64_eq]
  simp only [List.all_append, spillRefs_save, spillRefs_restore, Bool.and_true]
  have h1 : (printPre t).all spillRefsOK = true := by
    cases t with
    | reg r => rfl
    | spill p =>
      simp only [OpndOK] at ht
      simp [printPre, moveToRegister, spillRefsOK, codeMems, STACK_eq, slotOK_stackOffset ht]
  rw [h1]
  rfl

theorem spillRefs_ccShape {body : List Code} (h : CCShape plainCC body) : body.all spillRefsOK = true := by
  induction h with
  | nil => rfl
  | plain hc _ ih => rw [List.all_cons, spillRefsOK_of_plainCC hc, ih]; rfl
  | @print nl t ctx rest hs _ ih =>
    rw [List.all_append, spillRefs_printI64 nl hs.tempOK.1.opnd ctx, ih]; rfl

/-- (iii) SPILL AREA: the prologue reserves `SPILL_SPACE = 2048` bytes (`sub rsp, 2048`); every
    `rsp`-relative memory operand of every instruction of the routine addresses an 8-aligned word
    `[rsp + d]` with `0 ≤ d` and `d + 8 ≤ 2048`, and all of them are executed with `rsp` at the bottom
    of the spill area (in a print block the only one, the staging of a spilled argument, comes BEFORE
    the first push: `blockBefore` starts with `printPre`) -/
theorem routine_spill_refs {body routine : List Code} {n : Nat} (hb : CCShape plainCC body)
    (h : intoRoutine body n = .ok routine) : routine.all spillRefsOK = true := by
  obtain ⟨moves, hm, hr⟩ := routine_anatomy h
  have hmoves := allCC_moveArguments n moves hm
  rw [hr]
  simp only [List.all_append, Bool.and_eq_true, routineHead]
  refine ⟨⟨⟨⟨⟨rfl, rfl⟩, ⟨rfl, ?_⟩⟩, rfl⟩, spillRefs_ccShape hb⟩, ⟨rfl, rfl⟩⟩
  exact List.all_eq_true.2 fun c hc => spillRefsOK_of_plainCC (List.all_eq_true.1 hmoves c hc)

end Scc.X86
