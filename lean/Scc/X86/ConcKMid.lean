/-
  Scc.X86.ConcKMid — WHERE THE MACHINE IS BETWEEN TWO STATEMENT BOUNDARIES (gap (4b) of
  `C09_x86_monitor_statement`, Props/C09X86.lean): infrastructure.

  The heap monitor of the SPEC machine looks at the heap whenever the program counter is at a comment whose text
  parses as a `#ctx […]` hook (`parseCtx msg ≠ none`): `IsCtx`, `CtxAt cs i`.  The step lemmas of the three-way
  simulation export `stepN mon px n X = .inl X'` only; to know that the monitor is not consulted at the states
  strictly between `X` and `X'` one needs their program counters:
  * `MidS m p cs n s` — the states after `k < n` transitions from `s` (START INCLUDED) are not at a `#ctx` comment;
    `Mid` — the same for `0 < k < n` (the start is the statement boundary, which IS at the hook);
  * composition (`MidS.trans`, `Mid.trans`, …) along `stepN_trans`;
  * the primitives: a straight-line block (`midS_straight`), a block with calls of the print runtime
    (`midS_seq`), a block with forward local labels (`x_steps_fwdM`), one transition (`midS_one`): the program
    counter stays inside the block, so `NoCtx blk` (no item of the block is a `#ctx` comment) suffices;
  * `monitor_not_ctx`: the monitor returns `.ok none` at a state that is not at a `#ctx` comment.
-/
import Scc.X86.RefClosHRun

set_option linter.unusedVariables false
set_option linter.unusedSimpArgs false

namespace Scc.X86.Ref

open Scc.X86

/-- a comment the heap monitor reacts to -/
def IsCtx (c : Code) : Prop := ∃ msg, c = .COMMENT msg ∧ parseCtx msg ≠ none

/-- no item of the list is a `#ctx` comment -/
structure NoCtx (l : List Code) : Prop where
  all : ∀ c ∈ l, ¬ IsCtx c

/-- item `i` of the routine is a `#ctx` comment -/
def CtxAt (cs : List Code) (i : Nat) : Prop := ∃ c, cs[i]? = some c ∧ IsCtx c

theorem NoCtx.nil : NoCtx [] := ⟨fun _ h => by cases h⟩

theorem noCtx_append {a b : List Code} : NoCtx (a ++ b) ↔ NoCtx a ∧ NoCtx b := by
  constructor
  · intro h
    exact ⟨⟨fun c hc => h.all c (List.mem_append.2 (Or.inl hc))⟩,
      ⟨fun c hc => h.all c (List.mem_append.2 (Or.inr hc))⟩⟩
  · rintro ⟨h1, h2⟩
    refine ⟨fun c hc => ?_⟩
    rcases List.mem_append.1 hc with hc | hc
    · exact h1.all c hc
    · exact h2.all c hc

theorem noCtx_cons {c : Code} {l : List Code} : NoCtx (c :: l) ↔ ¬ IsCtx c ∧ NoCtx l := by
  constructor
  · intro h
    exact ⟨h.all c (by simp), ⟨fun x hx => h.all x (by simp [hx])⟩⟩
  · rintro ⟨h1, h2⟩
    refine ⟨fun x hx => ?_⟩
    rcases List.mem_cons.1 hx with rfl | hx
    · exact h1
    · exact h2.all x hx

theorem NoCtx.append {a b : List Code} (ha : NoCtx a) (hb : NoCtx b) : NoCtx (a ++ b) :=
  noCtx_append.2 ⟨ha, hb⟩

theorem NoCtx.cons {c : Code} {l : List Code} (hc : ¬ IsCtx c) (hl : NoCtx l) : NoCtx (c :: l) :=
  noCtx_cons.2 ⟨hc, hl⟩

/-- an item that is not a comment -/
theorem not_isCtx_of_ne {c : Code} (h : ∀ m, c ≠ .COMMENT m) : ¬ IsCtx c := by
  rintro ⟨m, e, _⟩; exact h m e

/-- a comment whose text the monitor's parser rejects -/
theorem not_isCtx_comment {m : String} (h : parseCtx m = none) : ¬ IsCtx (.COMMENT m) := by
  rintro ⟨m', e, hm⟩
  injection e with e
  subst e
  exact hm h

/-- a list without comments -/
theorem noCtx_of_noComment {l : List Code} (h : ∀ c ∈ l, ∀ m, c ≠ .COMMENT m) : NoCtx l :=
  ⟨fun c hc => not_isCtx_of_ne (h c hc)⟩

theorem not_ctxAt_of_xat {cs : List Code} {pc : Nat} {code : Code} {rest : List Code}
    (h : XAt cs pc (code :: rest)) (hc : ¬ IsCtx code) : ¬ CtxAt cs pc := by
  obtain ⟨cs1, rest', e, hl⟩ := h
  rintro ⟨c, hg, hi⟩
  have : cs[pc]? = some code := by rw [e, ← hl]; simp
  rw [this] at hg
  injection hg with hg
  subst hg
  exact hc hi

theorem not_ctxAt_of_split {cs cs1 rest : List Code} {code : Code} (hcs : cs = cs1 ++ code :: rest)
    {pc : Nat} (hpc : pc = cs1.length) (hc : ¬ IsCtx code) : ¬ CtxAt cs pc :=
  not_ctxAt_of_xat (rest := []) ⟨cs1, rest, by rw [hcs]; simp, hpc.symm⟩ hc

theorem not_ctxAt_of_getElem {cs : List Code} {i : Nat} {c : Code} (h : cs[i]? = some c) (hc : ¬ IsCtx c) :
    ¬ CtxAt cs i := by
  rintro ⟨c', hg, hi⟩
  rw [h] at hg
  injection hg with hg
  subst hg
  exact hc hi

/-- an item of non-zero size is no comment -/
theorem not_ctxAt_of_size {cs : List Code} {i : Nat} (h : i < cs.length) (hs : codeSize cs[i] ≠ 0) :
    ¬ CtxAt cs i := by
  rintro ⟨c, hg, m, e, _⟩
  rw [List.getElem?_eq_getElem h] at hg
  injection hg with hg
  rw [hg, e] at hs
  exact hs rfl

theorem noCtx_tail_append {a b : List Code} (h1 : NoCtx a.tail) (h2 : NoCtx b) (ha : a ≠ []) :
    NoCtx (a ++ b).tail := by
  cases a with
  | nil => exact absurd rfl ha
  | cons x t => exact noCtx_append.2 ⟨h1, h2⟩

/-- a position inside a block at the program counter -/
theorem not_ctxAt_of_block {cs blk : List Code} {pc j : Nat} (hat : XAt cs pc blk) (hn : NoCtx blk)
    (hj : j < blk.length) : ¬ CtxAt cs (pc + j) := by
  obtain ⟨cs1, rest, e, hl⟩ := hat
  rintro ⟨c, hg, hi⟩
  have : cs[pc + j]? = some blk[j] := by
    rw [e, ← hl, List.append_assoc, List.getElem?_append_right (by omega)]
    simp [List.getElem?_append_left hj]
  rw [this] at hg
  injection hg with hg
  subst hg
  exact hn.all _ (List.getElem_mem hj) hi

/-! ## the states between -/

/-- the states after `k < n` transitions from `s` (start included) are not at a `#ctx` comment -/
def MidS (m : MonCfg) (p : Prog) (cs : List Code) (n : Nat) (s : State) : Prop :=
  ∀ k sk, k < n → stepN m p k s = .inl sk → ¬ CtxAt cs sk.pc

/-- the states STRICTLY between `s` and the state after `n` transitions are not at a `#ctx` comment -/
def Mid (m : MonCfg) (p : Prog) (cs : List Code) (n : Nat) (s : State) : Prop :=
  ∀ k sk, 0 < k → k < n → stepN m p k s = .inl sk → ¬ CtxAt cs sk.pc

section
variable {m : MonCfg} {p : Prog} {cs : List Code}

theorem MidS.mid {n : Nat} {s : State} (h : MidS m p cs n s) : Mid m p cs n s :=
  fun k sk _ hk hs => h k sk hk hs

theorem MidS.zero (s : State) : MidS m p cs 0 s := fun k _ hk => absurd hk (Nat.not_lt_zero _)

theorem Mid.zero (s : State) : Mid m p cs 0 s := fun k _ _ hk => absurd hk (Nat.not_lt_zero _)

theorem Mid.one (s : State) : Mid m p cs 1 s := fun k _ h0 hk => by omega

theorem midS_one {s : State} (h : ¬ CtxAt cs s.pc) : MidS m p cs 1 s := by
  intro k sk hk hs
  have : k = 0 := by omega
  subst this
  simp only [stepN, Sum.inl.injEq] at hs
  subst hs
  exact h

/-- the state after `a + j` transitions -/
theorem stepN_split {a : Nat} {s s1 : State} (hs : stepN m p a s = .inl s1) (k : Nat) (hk : a ≤ k) :
    stepN m p k s = stepN m p (k - a) s1 := by
  have := stepN_add m p a (k - a) s s1 hs
  rw [show a + (k - a) = k by omega] at this
  exact this

theorem MidS.trans {a b : Nat} {s s1 : State} (h1 : MidS m p cs a s) (hs : stepN m p a s = .inl s1)
    (h2 : MidS m p cs b s1) : MidS m p cs (a + b) s := by
  intro k sk hk hsk
  by_cases hlt : k < a
  · exact h1 k sk hlt hsk
  · rw [stepN_split hs k (by omega)] at hsk
    exact h2 (k - a) sk (by omega) hsk

/-- a first part whose start is excluded, then a part whose start is included (the first part is not empty) -/
theorem Mid.trans {a b : Nat} {s s1 : State} (h1 : Mid m p cs a s) (hs : stepN m p a s = .inl s1)
    (h2 : MidS m p cs b s1) (ha : 0 < a) : Mid m p cs (a + b) s := by
  intro k sk h0 hk hsk
  by_cases hlt : k < a
  · exact h1 k sk h0 hlt hsk
  · rw [stepN_split hs k (by omega)] at hsk
    exact h2 (k - a) sk (by omega) hsk

/-- the same without the condition on the first part -/
theorem Mid.transS {a b : Nat} {s s1 : State} (h1 : Mid m p cs a s) (hs : stepN m p a s = .inl s1)
    (h2 : MidS m p cs b s1) : Mid m p cs (a + b) s := by
  intro k sk h0 hk hsk
  by_cases hlt : k < a
  · exact h1 k sk h0 hlt hsk
  · rw [stepN_split hs k (by omega)] at hsk
    exact h2 (k - a) sk (by omega) hsk

/-- two parts whose starts are excluded, the junction is not at a `#ctx` comment -/
theorem Mid.trans' {a b : Nat} {s s1 : State} (h1 : Mid m p cs a s) (hs : stepN m p a s = .inl s1)
    (h2 : Mid m p cs b s1) (hj : 0 < a → 0 < b → ¬ CtxAt cs s1.pc) : Mid m p cs (a + b) s := by
  intro k sk h0 hk hsk
  by_cases hlt : k < a
  · exact h1 k sk h0 hlt hsk
  · rw [stepN_split hs k (by omega)] at hsk
    by_cases he : k = a
    · subst he
      simp only [Nat.sub_self, stepN, Sum.inl.injEq] at hsk
      subst hsk
      exact hj h0 (by omega)
    · exact h2 (k - a) sk (by omega) (by omega) hsk

/-- an empty first part -/
theorem Mid.of_eq {n n' : Nat} {s : State} (h : Mid m p cs n s) (e : n = n') : Mid m p cs n' s := e ▸ h

theorem MidS.of_eq {n n' : Nat} {s : State} (h : MidS m p cs n s) (e : n = n') : MidS m p cs n' s := e ▸ h

theorem MidS.mono {n n' : Nat} {s : State} (h : MidS m p cs n s) (e : n' ≤ n) : MidS m p cs n' s :=
  fun k sk hk hs => h k sk (by omega) hs

theorem Mid.mono {n n' : Nat} {s : State} (h : Mid m p cs n s) (e : n' ≤ n) : Mid m p cs n' s :=
  fun k sk h0 hk hs => h k sk h0 (by omega) hs

/-- the states between, seen from a state further on (`Tol`: the machine ahead by labels and comments) -/
theorem Mid.shift {n d : Nat} {s s1 : State} (h : Mid m p cs n s) (hs : stepN m p d s = .inl s1) (hd : d ≤ n) :
    Mid m p cs (n - d) s1 := by
  intro k sk h0 hk hsk
  have := stepN_add m p d k s s1 hs
  rw [hsk] at this
  exact h (d + k) sk (by omega) (by omega) this

theorem MidS.shift {n d : Nat} {s s1 : State} (h : MidS m p cs n s) (hs : stepN m p d s = .inl s1) (hd : d ≤ n) :
    MidS m p cs (n - d) s1 := by
  intro k sk hk hsk
  have := stepN_add m p d k s s1 hs
  rw [hsk] at this
  exact h (d + k) sk (by omega) this

end

/-- `tol_run` with the states in between: the simulation runs from the boundary state `X0` through states that
are not at `#ctx` comments, the machine is at `X` (`X0` moved forward over labels and comments): the machine
reaches the new state through such states, or the new state is still behind the machine -/
theorem tol_run_midS (m : MonCfg) {p : Prog} {cs : List Code} (L : Loaded p cs) {X0 X X1 : State}
    (T : Tol cs X0 X) {n : Nat} (h : stepN m p n X0 = .inl X1) (hm : MidS m p cs n X0) :
    (∃ k, stepN m p k X = .inl X1 ∧ MidS m p cs k X) ∨ Tol cs X1 X := by
  by_cases hn : X.pc - X0.pc ≤ n
  · left
    refine ⟨n - (X.pc - X0.pc), ?_, hm.shift (T.steps m L) hn⟩
    have := stepN_add m p (X.pc - X0.pc) (n - (X.pc - X0.pc)) X0 X (T.steps m L)
    rw [show X.pc - X0.pc + (n - (X.pc - X0.pc)) = n by omega] at this
    rw [← this]; exact h
  · right
    have hle := T.le
    have h1 := noop_steps m L n X0 (fun i h1 h2 => T.noop i h1 (by omega))
    rw [h1] at h
    injection h with h
    subst h
    refine ⟨by simp [setPS]; omega, ?_, ?_⟩
    · conv => lhs; rw [T.eq]
      rfl
    · intro i hi1 hi2
      exact T.noop i (by simp [setPS] at hi1; omega) hi2

/-! ## the program counter inside a block -/

/-- straight-line code: after `j` transitions the program counter is `j` items further -/
theorem straight_pcs (m : MonCfg) (p : Prog) : ∀ (codes : List Code) (s s' : State),
    (∀ i (h : i < codes.length), p.code[s.pc + i]? = some codes[i]) →
    execStraight m.mach p.labelAddr codes s = .ok s' →
    ∀ j sj, j ≤ codes.length → stepN m p j s = .inl sj → sj.pc = s.pc + j
  | [], s, s', _, _, j, sj, hj, hs => by
    have : j = 0 := by simpa using hj
    subst this
    simp only [stepN, Sum.inl.injEq] at hs
    subst hs; rfl
  | code :: rest, s, s', hcode, hx, j, sj, hj, hs => by
    cases j with
    | zero =>
      simp only [stepN, Sum.inl.injEq] at hs
      subst hs; rfl
    | succ j =>
      simp only [execStraight] at hx
      cases hc : execCode m.mach p.labelAddr code s with
      | error e => simp [hc] at hx
      | ok r =>
        obtain ⟨s1, ctl⟩ := r
        cases ctl <;> simp only [hc] at hx <;> try cases hx
        have hf : p.code[s.pc]? = some code := by
          have := hcode 0 (by simp)
          rw [List.getElem_cons_zero] at this
          simpa using this
        have hstep := step_next hf hc
        simp only [stepN, hstep] at hs
        have hx' : execStraight m.mach p.labelAddr rest
            (setPS s1 (s.pc + 1) (s.steps + (if codeSize code = 0 then 0 else 1))) =
            .ok (setPS s' (s.pc + 1) (s.steps + (if codeSize code = 0 then 0 else 1))) := by
          rw [execStraight_setPS, hx]; rfl
        have := straight_pcs m p rest _ _ (by
          intro i hi
          have := hcode (i + 1) (by simpa using hi)
          simp only [List.getElem_cons_succ] at this
          rw [← this]
          simp only [setPS]
          congr 1; omega) hx' j sj (by simpa using hj) hs
        rw [this]
        simp only [setPS]
        omega

/-- code with calls of the print runtime: after `j` transitions the program counter is `j` items further -/
theorem seq_pcs (m : MonCfg) (p : Prog) : ∀ (codes : List Code) (s s' : State),
    (∀ i (h : i < codes.length), p.code[s.pc + i]? = some codes[i]) →
    execSeq m.mach p.labelAddr codes s = .ok s' →
    ∀ j sj, j ≤ codes.length → stepN m p j s = .inl sj → sj.pc = s.pc + j
  | [], s, s', _, _, j, sj, hj, hs => by
    have : j = 0 := by simpa using hj
    subst this
    simp only [stepN, Sum.inl.injEq] at hs
    subst hs; rfl
  | code :: rest, s, s', hcode, hx, j, sj, hj, hs => by
    cases j with
    | zero =>
      simp only [stepN, Sum.inl.injEq] at hs
      subst hs; rfl
    | succ j =>
      have hf : p.code[s.pc]? = some code := by
        have := hcode 0 (by simp)
        rw [List.getElem_cons_zero] at this
        simpa using this
      have hrest : ∀ (s1 : State) (k1 : Nat), ∀ i (h : i < rest.length),
          p.code[(setPS s1 (s.pc + 1) k1).pc + i]? = some rest[i] := by
        intro s1 k1 i hi
        have := hcode (i + 1) (by simpa using hi)
        simp only [List.getElem_cons_succ] at this
        rw [← this]
        simp only [setPS]
        congr 1; omega
      simp only [execSeq] at hx
      cases hc : execCode m.mach p.labelAddr code s with
      | error e => simp [hc] at hx
      | ok r =>
        obtain ⟨s1, ctl⟩ := r
        cases ctl <;> simp only [hc] at hx <;> try cases hx
        case next =>
          have hstep := step_next hf hc
          simp only [stepN, hstep] at hs
          have hx' : execSeq m.mach p.labelAddr rest
              (setPS s1 (s.pc + 1) (s.steps + (if codeSize code = 0 then 0 else 1))) =
              .ok (setPS s' (s.pc + 1) (s.steps + (if codeSize code = 0 then 0 else 1))) := by
            rw [execSeq_setPS, hx]; rfl
          have := seq_pcs m p rest _ _ (hrest s1 _) hx' j sj (by simpa using hj) hs
          rw [this]; simp only [setPS]; omega
        case callExt f =>
          cases hce : callExt s1 f with
          | error e => simp [hce] at hx
          | ok s2 =>
            simp only [hce] at hx
            have hstep := step_call hf hc hce
            simp only [stepN, hstep] at hs
            have hx' : execSeq m.mach p.labelAddr rest
                (setPS s2 (s.pc + 1) (s.steps + (if codeSize code = 0 then 0 else 1))) =
                .ok (setPS s' (s.pc + 1) (s.steps + (if codeSize code = 0 then 0 else 1))) := by
              rw [execSeq_setPS, hx]; rfl
            have := seq_pcs m p rest _ _ (hrest s2 _) hx' j sj (by simpa using hj) hs
            rw [this]; simp only [setPS]; omega

/-- a block with forward local labels: the machine arrives just behind the block, and until then the program
counter stays inside the block -/
theorem steps_fwdM (m : MonCfg) (p : Prog) (pc0 : Nat) (codes : List Code) (hb : BlockAt p pc0 codes) :
    ∀ (n off : Nat) (s s' : State), codes.length - off ≤ n → off ≤ codes.length → s.pc = pc0 + off →
      execFwd m.mach p.labelAddr (codes.drop off) s = .ok (s', .next) →
      ∃ k steps', stepN m p k s = .inl (setPS s' (pc0 + codes.length) steps') ∧
        ∀ j sj, j < k → stepN m p j s = .inl sj → pc0 ≤ sj.pc ∧ sj.pc < pc0 + codes.length := by
  intro n
  induction n with
  | zero =>
    intro off s s' hn hoff hpc hx
    have : off = codes.length := by omega
    subst this
    rw [List.drop_length, execFwd_nil] at hx
    simp only [Except.ok.injEq, Prod.mk.injEq, and_true] at hx
    subst hx
    exact ⟨0, s.steps, by simp only [stepN, setPS, ← hpc], fun j _ hj => absurd hj (Nat.not_lt_zero _)⟩
  | succ n ih =>
    intro off s s' hn hoff hpc hx
    by_cases hlt : off < codes.length
    · have hdrop : codes.drop off = codes[off] :: codes.drop (off + 1) := by
        rw [List.drop_eq_getElem_cons hlt]
      have hf : p.code[s.pc]? = some codes[off] := by rw [hpc]; exact hb.code off hlt
      rw [hdrop, execFwd_cons] at hx
      cases hex : execCode m.mach p.labelAddr codes[off] s with
      | error e => simp [hex, contFwd] at hx
      | ok r =>
        obtain ⟨s1, ctl⟩ := r
        rw [hex] at hx
        cases ctl with
        | next =>
          simp only [contFwd] at hx
          have hstep := step_next hf hex
          have hx' := execFwd_setPS m.mach p.labelAddr (s.pc + 1)
            (s.steps + (if codeSize codes[off] = 0 then 0 else 1)) _ (codes.drop (off + 1)) s1 (Nat.le_refl _)
          rw [hx] at hx'
          obtain ⟨k, st, hk, hmid⟩ := ih (off + 1) _ _ (by omega) (by omega)
            (by simp only [setPS]; omega) hx'
          refine ⟨1 + k, st, ?_, ?_⟩
          · rw [stepN_add m p 1 k s _ ((stepN_one m p s).trans hstep)]
            exact hk
          · intro j sj hj hsj
            cases j with
            | zero =>
              simp only [stepN, Sum.inl.injEq] at hsj
              subst hsj
              omega
            | succ j =>
              rw [show j + 1 = 1 + j by omega, stepN_add m p 1 j s _ ((stepN_one m p s).trans hstep)] at hsj
              exact hmid j sj (by omega) hsj
        | jumpLabel l =>
          simp only [contFwd] at hx
          cases hsk : skipTo l (codes.drop (off + 1)) with
          | none => simp [hsk] at hx
          | some rest =>
            simp only [hsk] at hx
            obtain ⟨j0, hj0, hrest⟩ := skipTo_spec hsk
            have hj' : codes[off + 1 + j0]? = some (.LAB l) := by
              rw [List.getElem?_drop] at hj0; exact hj0
            obtain ⟨hjlt, hjeq⟩ := List.getElem?_eq_some_iff.1 hj'
            have hl := hb.labels _ _ hj'
            have hstep := step_jumpLabel hf hex hl
            have hdrop2 : codes.drop (off + 1 + j0) = .LAB l :: rest := by
              rw [List.drop_eq_getElem_cons hjlt, hrest, List.drop_drop, hjeq]
              rfl
            have hx2 : execFwd m.mach p.labelAddr (codes.drop (off + 1 + j0)) s1 = .ok (s', .next) := by
              rw [hdrop2, execFwd_cons, exec_LAB]
              simp only [contFwd]
              exact hx
            have hx' := execFwd_setPS m.mach p.labelAddr (pc0 + (off + 1 + j0))
              (s.steps + (if codeSize codes[off] = 0 then 0 else 1)) _ (codes.drop (off + 1 + j0)) s1
              (Nat.le_refl _)
            rw [hx2] at hx'
            obtain ⟨k, st, hk, hmid⟩ := ih (off + 1 + j0) _ _ (by omega) (by omega) (by simp only [setPS]) hx'
            refine ⟨1 + k, st, ?_, ?_⟩
            · rw [stepN_add m p 1 k s _ ((stepN_one m p s).trans hstep)]
              exact hk
            · intro j sj hj hsj
              cases j with
              | zero =>
                simp only [stepN, Sum.inl.injEq] at hsj
                subst hsj
                omega
              | succ j =>
                rw [show j + 1 = 1 + j by omega, stepN_add m p 1 j s _ ((stepN_one m p s).trans hstep)] at hsj
                exact hmid j sj (by omega) hsj
        | jumpAddr a => simp [contFwd] at hx
        | callExt f => simp [contFwd] at hx
        | ret => simp [contFwd] at hx
    · have : off = codes.length := by omega
      subst this
      rw [List.drop_length, execFwd_nil] at hx
      simp only [Except.ok.injEq, Prod.mk.injEq, and_true] at hx
      subst hx
      exact ⟨0, s.steps, by simp only [stepN, setPS, ← hpc], fun j _ hj => absurd hj (Nat.not_lt_zero _)⟩

/-! ## blocks of the loaded routine -/

section Blocks
variable (m : MonCfg) {p : Prog} {cs : List Code} (L : Loaded p cs)

include L in
/-- a straight-line block without `#ctx` comments at the program counter -/
theorem midS_straight {blk : List Code} {s s' : State} (hat : XAt cs s.pc blk)
    (hx : execStraight m.mach p.labelAddr blk s = .ok s') (hn : NoCtx blk) : MidS m p cs blk.length s := by
  obtain ⟨cs1, rest, e, hl⟩ := hat
  obtain ⟨h1, h2, h3⟩ := L.segment e
  have hx' : execStraight m.mach p.labelAddr (seg p cs1.length blk.length) s = .ok s' := by
    rw [execStraight_strip _ _ _ _ _ h2]; exact hx
  intro k sk hk hsk
  have hpc := straight_pcs m p (seg p cs1.length blk.length) s s' (by rw [← hl]; exact h1) hx' k sk
    (by rw [h3]; omega) hsk
  rw [hpc]
  exact not_ctxAt_of_block ⟨cs1, rest, e, hl⟩ hn hk

include L in
/-- a block with calls of the print runtime, without `#ctx` comments, at the program counter -/
theorem midS_seq {blk : List Code} {s s' : State} (hat : XAt cs s.pc blk)
    (hx : execSeq m.mach p.labelAddr blk s = .ok s') (hn : NoCtx blk) : MidS m p cs blk.length s := by
  obtain ⟨cs1, rest, e, hl⟩ := hat
  obtain ⟨h1, h2, h3⟩ := L.segment e
  have hx' : execSeq m.mach p.labelAddr (seg p cs1.length blk.length) s = .ok s' := by
    rw [execSeq_strip _ _ _ _ _ h2]; exact hx
  intro k sk hk hsk
  have hpc := seq_pcs m p (seg p cs1.length blk.length) s s' (by rw [← hl]; exact h1) hx' k sk
    (by rw [h3]; omega) hsk
  rw [hpc]
  exact not_ctxAt_of_block ⟨cs1, rest, e, hl⟩ hn hk

include L in
/-- a block of comments at the program counter whose FIRST item may be a `#ctx` comment (the hook of the
statement): the states strictly behind the start are not at a `#ctx` comment -/
theorem mid_comments {blk : List Code} {s : State} (hat : XAt cs s.pc blk)
    (hc : ∀ y ∈ blk, ∃ m', y = Code.COMMENT m') (hn : NoCtx blk.tail) : Mid m p cs blk.length s := by
  obtain ⟨cs1, rest, e, hl⟩ := hat
  obtain ⟨h1, h2, h3⟩ := L.segment e
  have hx : execStraight m.mach p.labelAddr blk s = .ok s := execStraight_comments m.mach p.labelAddr blk s hc
  have hx' : execStraight m.mach p.labelAddr (seg p cs1.length blk.length) s = .ok s := by
    rw [execStraight_strip _ _ _ _ _ h2]; exact hx
  intro k sk h0 hk hsk
  have hpc := straight_pcs m p (seg p cs1.length blk.length) s s (by rw [← hl]; exact h1) hx' k sk
    (by rw [h3]; omega) hsk
  rw [hpc]
  rintro ⟨c, hg, hi⟩
  have : cs[s.pc + k]? = some blk[k] := by
    rw [e, ← hl, List.append_assoc, List.getElem?_append_right (by omega)]
    simp [List.getElem?_append_left hk]
  rw [this] at hg
  injection hg with hg
  subst hg
  have hmem : blk[k] ∈ blk.tail := by
    cases blk with
    | nil => simp at hk
    | cons b t =>
      cases k with
      | zero => omega
      | succ k => simp
  exact hn.all _ hmem hi

include L in
/-- a straight-line block at the program counter whose FIRST item may be a `#ctx` comment -/
theorem mid_straight_tail {blk : List Code} {s s' : State} (hat : XAt cs s.pc blk)
    (hx : execStraight m.mach p.labelAddr blk s = .ok s') (hn : NoCtx blk.tail) : Mid m p cs blk.length s := by
  obtain ⟨cs1, rest, e, hl⟩ := hat
  obtain ⟨h1, h2, h3⟩ := L.segment e
  have hx' : execStraight m.mach p.labelAddr (seg p cs1.length blk.length) s = .ok s' := by
    rw [execStraight_strip _ _ _ _ _ h2]; exact hx
  intro k sk h0 hk hsk
  have hpc := straight_pcs m p (seg p cs1.length blk.length) s s' (by rw [← hl]; exact h1) hx' k sk
    (by rw [h3]; omega) hsk
  rw [hpc]
  rintro ⟨c, hg, hi⟩
  have : cs[s.pc + k]? = some blk[k] := by
    rw [e, ← hl, List.append_assoc, List.getElem?_append_right (by omega)]
    simp [List.getElem?_append_left hk]
  rw [this] at hg
  injection hg with hg
  subst hg
  have hmem : blk[k] ∈ blk.tail := by
    cases blk with
    | nil => simp at hk
    | cons b t =>
      cases k with
      | zero => omega
      | succ k => simp
  exact hn.all _ hmem hi

include L in
/-- a block with forward local labels, without `#ctx` comments, at the program counter -/
theorem x_steps_fwdM (hnd : (labs cs).Nodup) {blk : List Code} {s s' : State} (hat : XAt cs s.pc blk)
    (hx : execFwd m.mach p.labelAddr blk s = .ok (s', .next)) (hn : NoCtx blk) :
    ∃ k steps', stepN m p k s = .inl (setPS s' (s.pc + blk.length) steps') ∧ MidS m p cs k s := by
  obtain ⟨cs1, rest, hcs, hl⟩ := hat
  obtain ⟨h1, h2, h3⟩ := L.segment hcs
  have hb : BlockAt p cs1.length (seg p cs1.length blk.length) := by
    refine ⟨h1, ?_⟩
    intro j l hj
    have hjlt : j < blk.length := by
      rcases Nat.lt_or_ge j (seg p cs1.length blk.length).length with h | h
      · rw [h3] at h; exact h
      · rw [List.getElem?_eq_none h] at hj; cases hj
    have hblk : blk[j]? = some (.LAB l) := by
      have := congrArg (fun x => x[j]?) h2
      simp only [List.getElem?_map, hj, Option.map_some] at this
      rw [List.getElem?_eq_getElem hjlt] at this ⊢
      simp only [Option.map_some, Option.some.injEq] at this
      rw [stripC_eq_lab this.symm]
    have hcsj : cs[cs1.length + j]? = some (.LAB l) := by
      rw [hcs, List.append_assoc, List.getElem?_append_right (by omega)]
      simp only [Nat.add_sub_cancel_left]
      rw [List.getElem?_append_left hjlt]
      exact hblk
    rw [L.labels]
    exact labIdx_of_nodup hnd hcsj
  have hx' : execFwd m.mach p.labelAddr (seg p cs1.length blk.length) s = .ok (s', .next) := by
    rw [execFwd_strip _ _ _ _ _ _ (Nat.le_refl _) h2]; exact hx
  obtain ⟨k, st, hk, hmid⟩ := steps_fwdM m p cs1.length _ hb (seg p cs1.length blk.length).length 0 s s'
    (by omega) (by omega) (by rw [← hl]; rfl) (by simpa using hx')
  rw [h3] at hk hmid
  refine ⟨k, st, by rw [← hl]; exact hk, ?_⟩
  intro j sj hj hsj
  obtain ⟨g1, g2⟩ := hmid j sj hj hsj
  have : sj.pc = s.pc + (sj.pc - cs1.length) := by omega
  rw [this]
  exact not_ctxAt_of_block ⟨cs1, rest, hcs, hl⟩ hn (by omega)

end Blocks

/-! ## the monitor -/

/-- at a state that is not at a `#ctx` comment the heap monitor does not look -/
theorem monitor_not_ctx {cfg : MonCfg} {cs : List Code} {items : List (Code × Nat)} (hitems : items.map (·.1) = cs)
    {X : State} (h : ¬ CtxAt cs X.pc) : monitor cfg (mkProg cfg.mach items) X = .ok none := by
  unfold monitor
  split
  · rfl
  · have hcode : (mkProg cfg.mach items).code[X.pc]? = cs[X.pc]? := by
      show (items.map (·.1)).toArray[X.pc]? = _
      rw [hitems, List.getElem?_toArray]
    rw [hcode]
    cases hg : cs[X.pc]? with
    | none => rfl
    | some c =>
      cases c with
      | COMMENT msg =>
        simp only
        cases hp : parseCtx msg with
        | none => rfl
        | some kinds =>
          exfalso
          exact h ⟨_, hg, msg, rfl, by rw [hp]; intro e; cases e⟩
      | _ => rfl

end Scc.X86.Ref
