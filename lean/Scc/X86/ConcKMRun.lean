/-
  Scc.X86.ConcKMRun — THE HEAP MONITOR ALONG THE RUN (gaps (4a), (4b) of `C09_x86_monitor_statement` together):
  every machine state the run visits passes the heap monitor, for ALL programs (data types and closures).
  * `MonPass`: `monitor` returns `.ok _` at the state; `PassUpto n X`: at the states after `t < n` transitions.
  * a statement boundary `X0` (exact: `K.Rel3`) passes inside the monitor's window (`ConcK.monitor_boundary`); the
    states strictly between two boundaries are not at `#ctx` comments (`Mid`, from `K.step3M`), so the monitor does
    not look (`monitor_not_ctx`); the state reached by the `jmp reg` of an `invoke` is not at a comment.
  * `entry_setupM`: the entry with the states of the header (`init_sim3M`).
  * `run3_monD` / `run3_monP`: the three-way run (terminating / still going after `N·(M + 1) + |stmt|` steps of
    the positional machine) with `PassUpto` for all the machine states visited.
  TWO HYPOTHESES ABOUT THE RUN remain (`MonFrom`): the WINDOW of the monitor (gap (3): the frontier block lies
  within 512 bytes above the highest heap address written — a fact about the write history that the simulation
  does not track; trivial while at most 7 blocks lie below the frontier) and THE HOOK AT THE PROGRAM COUNTER
  PARSES to the kinds of the positional state's context (true when variable names have no blanks; the relation
  `K.Rel3` does not track the names of the generator's context).
-/
import Scc.X86.ConcKProgress
import Scc.X86.ConcKHook
import Scc.X86.ConcKMStep
import Scc.X86.ConcKMInit

set_option linter.unusedVariables false
set_option linter.unusedSimpArgs false

namespace Scc.X86.ConcK

open Scc Scc.AxCut Scc.AxCut.Pos Scc.Backend Scc.Backend.Abs Scc.Backend.Sim Scc.Backend.Subst Scc.X86 Scc.X86.Ref
open Scc.Backend.Sim2 Scc.Backend.Keys
open Scc.Props.C14Generic (LabelSafe)
open Scc.Props.C06Generic (outAfter WithinCapacity Reachable EnoughHeap CodeFits statesOf stopsWithin)
open Scc.Heap (HState InvS InvW Exhausted)
open Scc.Heap.Refine (HRef FrLe Room FrPk)
open Scc.X86.Conc (BChain FrBound LiveLe LiveLe0 HeapShapeAt ctxKinds stmtSize clausesSize stmtSize_pos heapCheck_ok
  post_first_hook ctxKinds_keys memFn)

/-! ## passing the monitor -/

/-- the heap monitor does not report at the state -/
def MonPass (mon : MonCfg) (px : X86.Prog) (s : State) : Prop := ∃ b, monitor mon px s = .ok b

/-- the heap monitor does not report at the states after `t < n` transitions from `X` -/
def PassUpto (mon : MonCfg) (px : X86.Prog) (n : Nat) (X : State) : Prop :=
  ∀ t sk, t < n → stepN mon px t X = .inl sk → MonPass mon px sk

theorem PassUpto.zero (mon : MonCfg) (px : X86.Prog) (X : State) : PassUpto mon px 0 X :=
  fun t _ ht => absurd ht (Nat.not_lt_zero _)

theorem PassUpto.trans {mon : MonCfg} {px : X86.Prog} {a b : Nat} {X X1 : State} (h1 : PassUpto mon px a X)
    (hs : stepN mon px a X = .inl X1) (h2 : PassUpto mon px b X1) : PassUpto mon px (a + b) X := by
  intro t sk ht hsk
  by_cases hlt : t < a
  · exact h1 t sk hlt hsk
  · rw [stepN_split hs t (by omega)] at hsk
    exact h2 (t - a) sk (by omega) hsk

/-- the start passes, the states strictly between are not at `#ctx` comments -/
theorem passUpto_of_mid {cfg : MonCfg} {cs : List Code} {items : List (Code × Nat)} (hitems : items.map (·.1) = cs)
    {n : Nat} {X : State} (h0 : MonPass cfg (mkProg cfg.mach items) X)
    (hm : Mid cfg (mkProg cfg.mach items) cs n X) : PassUpto cfg (mkProg cfg.mach items) n X := by
  intro t sk ht hsk
  cases t with
  | zero =>
    simp only [stepN, Sum.inl.injEq] at hsk
    subst hsk; exact h0
  | succ t => exact ⟨none, monitor_not_ctx hitems (hm (t + 1) sk (by omega) ht hsk)⟩

theorem passUpto_of_midS {cfg : MonCfg} {cs : List Code} {items : List (Code × Nat)} (hitems : items.map (·.1) = cs)
    {n : Nat} {X : State} (hm : MidS cfg (mkProg cfg.mach items) cs n X) :
    PassUpto cfg (mkProg cfg.mach items) n X :=
  fun t sk ht hsk => ⟨none, monitor_not_ctx hitems (hm t sk ht hsk)⟩

/-- `retCheck` never reports for the heap monitor -/
theorem retCheck_error_not_invFail {c : MachCfg} {s : State} {r : Res} (h : retCheck c s = .error r) (e : String)
    (ln : Nat) : r ≠ .invFail e ln := by
  intro e'
  subst e'
  unfold retCheck at h
  cases h1 : rd s 0 with
  | error e => rw [h1] at h; cases h
  | ok sp =>
    rw [h1] at h; dsimp only at h
    cases h2 : loadWord c s sp with
    | error e => rw [h2] at h; cases h
    | ok w =>
      rw [h2] at h; dsimp only at h
      split at h
      · cases h
      · split at h
        · cases h
        · split at h
          · cases h
          · cases h3 : rd s 4 with
            | error e => rw [h3] at h; cases h
            | ok v' => rw [h3] at h; cases h

/-- a transition never ends in a report of the heap monitor -/
theorem step_not_invFail {m : MonCfg} {p : Prog} {s : State} {e : String} {ln : Nat} :
    step m p s ≠ .inr (.invFail e ln) := by
  intro hst
  unfold step at hst
  cases hc : p.code[s.pc]? with
  | none => rw [hc] at hst; cases hst
  | some code =>
    rw [hc] at hst; dsimp only at hst
    cases hx : execCode m.mach p.labelAddr code s with
    | error e => rw [hx] at hst; cases hst
    | ok r =>
      obtain ⟨s1, ctl⟩ := r
      rw [hx] at hst; dsimp only at hst
      cases ctl with
      | next => cases hst
      | jumpLabel l =>
        dsimp only at hst
        cases hl : p.labelIdx[l]? with
        | none => rw [hl] at hst; cases hst
        | some i => rw [hl] at hst; cases hst
      | jumpAddr a =>
        dsimp only at hst
        cases hl : p.addrIdx[a]? with
        | none => rw [hl] at hst; cases hst
        | some i => rw [hl] at hst; cases hst
      | callExt f' =>
        dsimp only at hst
        cases hl : callExt (if codeSize code = 0 then s1 else { s1 with steps := s1.steps + 1 }) f' with
        | error e => rw [hl] at hst; cases hst
        | ok s3 => rw [hl] at hst; cases hst
      | ret =>
        dsimp only at hst
        cases hl : retCheck m.mach (if codeSize code = 0 then s1 else { s1 with steps := s1.steps + 1 }) with
        | ok v => rw [hl] at hst; cases hst
        | error r =>
          rw [hl] at hst
          have hni := retCheck_error_not_invFail hl e ln
          cases r with
          | invFail e' ln' =>
            simp only [Sum.inr.injEq] at hst
            exact hni hst
          | fault e' ln' => simp at hst
          | _ => simp at hst

/-- THE RUN LOOP NEVER ENDS IN A REPORT OF THE HEAP MONITOR if the monitor passes at all the states visited -/
theorem runLoop_no_invFail (m : MonCfg) (p : Prog) : ∀ (f : Nat) (s : State) (b : Nat),
    PassUpto m p f s → ∀ e ln, (runLoop m p f s b).res ≠ .invFail e ln
  | 0, s, b, _, e, ln => by simp [runLoop, finish]
  | f + 1, s, b, h, e, ln => by
    obtain ⟨bb, hb⟩ := h 0 s (by omega) rfl
    simp only [runLoop, hb]
    cases hst : step m p s with
    | inl s1 =>
      simp only
      exact runLoop_no_invFail m p f s1 _ (fun t sk ht hsk => h (t + 1) sk (by omega) (by
        simp only [stepN, hst]; exact hsk)) e ln
    | inr r =>
      simp only [finish]
      intro hr
      exact step_not_invFail (by rw [hst, hr])

/-! ## the entry with the states of the header -/

/-- what the header of the routine establishes: the frame, the loaded routine, the first boundary -/
structure EntryM (p : AxCut.Prog) (args : List Word) (hooks : Bool) (routine : List Code) (d0 : Def)
    (ops : List MockOp) (cfg : MonCfg) (items : List (Code × Nat)) (F : Frame) (pre : List Code)
    (st0 : State) (h : Word) (n0 : Nat) (X0 : State) (a : Nat) : Prop where
  fc : F.c = cfg.mach
  frame : FrameOK F
  loaded : LoadedA F.c (mkProg cfg.mach items) routine
  split : routine = pre ++ cleanup
  clean : "cleanup" ∉ labs pre
  entry : EntryFacts F st0 h
  defs : K.XDefsAt routine hooks p
  main : (mkProg cfg.mach items).labelIdx["asm_main"]? = some 6
  steps : stepN cfg (mkProg cfg.mach items) n0 (initState cfg.mach args 6) = .inl X0
  rel : K.Rel3 F routine (Program.ofOps ops) hooks p ⟨d0.ctx, args.map .int, d0.body⟩ (initConfig a args)
    (Scc.Heap.init F.c.heapBase (F.c.heapBase + F.c.heapBytes)) X0
  next1 : (initConfig a args).next = 1
  typed : Pos.StateTyped p ⟨d0.ctx, args.map .int, d0.body⟩
  nargs : args.length ≤ 5
  mid : MidS cfg (mkProg cfg.mach items) routine n0 (initState cfg.mach args 6)

theorem entry_setupM (p : AxCut.Prog) (args : List Word) (hooks : Bool) (body routine : List Code)
    (nargs : Nat) (d0 : Def) (ops : List MockOp) (c' : Nat)
    (hsafe : LabelSafe p = true) (htp : LinTypedProg p)
    (hcompM : (compile mockSym hooks p).run 0 = .ok ((ops, nargs), c'))
    (hcompX : compileX86 p hooks 0 = .ok (body, nargs)) (hrout : intoRoutine body nargs = .ok routine)
    (hnd : (labs routine).Nodup)
    (hd : p.defs.head? = some d0) (hentry : ∀ b ∈ d0.ctx, b.chi = .ext ∧ b.ty = .i64)
    (hlen : d0.ctx.length = args.length) (hc0 : 2 * d0.ctx.length ≤ 266)
    (cfg : MonCfg) (MO : MachOK cfg.mach)
    (hb0 : 0 < cfg.mach.heapBase) (hbytes : 128 ≤ cfg.mach.heapBytes)
    (items : List (Code × Nat)) (hitems : (items.map (·.1)).map stripC = routine.map stripC) :
    ∃ F pre st0 h n0 X0 a, EntryM p args hooks routine d0 ops cfg items F pre st0 h n0 X0 a := by
  have hmem : d0 ∈ p.defs := by
    cases hdefs : p.defs with
    | nil => rw [hdefs] at hd; simp at hd
    | cons d ds => rw [hdefs] at hd; simp at hd; subst hd; simp
  have hnodupD := Scc.Props.C14Generic.labels_unique hooks p 0 ops nargs c' hcompM hsafe
  obtain ⟨_, hnargs⟩ := compile_mock_entry hcompM hd
  rw [hnargs, hlen] at hrout
  have hargs : args.length ≤ 5 := by
    obtain ⟨moves, hm, _⟩ := intoRoutine_shape hrout
    exact moveArguments_le _ _ hm
  -- the loader and the header
  have LA := loadedA_mkProg cfg.mach items routine hitems
  have L := LA.loaded
  obtain ⟨hdr, F, h, st0', k0, st2, hcs, hlabs, hidx, hFc, HF, E, hk0, hpc, R, HR, hmid0⟩ :=
    K.init_sim3M MO hargs hrout L
  -- Theorem A at the entry
  obtain ⟨a, hlab, RX, hn1⟩ := init_relX hooks p 0 ops nargs c' hcompM hnodupD d0 hmem
    (fun b hb => (hentry b hb).1) args hlen (K.withinCapacity_of_le hc0)
  have T : Pos.StateTyped p ⟨d0.ctx, args.map .int, d0.body⟩ :=
    ⟨htp d0 hmem, Pos.ints_typed d0.ctx args hlen hentry⟩
  -- the definitions
  have DX : K.XDefsAt routine hooks p := K.xdefsAt_of_compile hcompX hcs hnd
  obtain ⟨i, kx, kx', ditems, hi, hget, hdrun, hdat⟩ := DX d0 hmem
  -- the entry label is the first item of the body
  have hi0 : i = hdr.length := by
    unfold compileX86 at hcompX
    cases hx : (compile x86Backend hooks p).run 0 with
    | error e => rw [hx] at hcompX; cases hcompX
    | ok r =>
      obtain ⟨⟨body', nargs'⟩, c''⟩ := r
      rw [hx] at hcompX
      simp only [Except.ok.injEq, Prod.mk.injEq] at hcompX
      obtain ⟨rfl, rfl⟩ := hcompX
      unfold compile compileR at hx
      cases hdefs : p.defs with
      | nil => rw [hdefs] at hd; simp at hd
      | cons d ds =>
        rw [hdefs] at hd hx
        simp only [List.head?_cons, Option.some.injEq] at hd
        subst hd
        simp only [run_bind_ok, run_pure_ok, translateR] at hx
        obtain ⟨blocks, c1, ⟨is, c2, h1, rest, c3, h2, rfl, rfl⟩, e, rfl⟩ := hx
        injection e with e1 e2
        have hb : body' = Code.LAB (d.name.print ++ "_") :: (is ++ assemble x86Backend rest (ds.map (·.name))) := by
          rw [← e1]; rfl
        have hget' : routine[hdr.length]? = some (Code.LAB (d.name.print ++ "_")) := by
          rw [hcs, hb]; simp
        have := labIdx_of_nodup hnd hget'
        rw [hi] at this
        exact Option.some.inj this
  subst hi0
  have hsplit : routine = hdr ++ Code.LAB (d0.name.print ++ "_") :: routine.drop (hdr.length + 1) := by
    have hlt : hdr.length < routine.length := by
      rcases Nat.lt_or_ge hdr.length routine.length with h | h
      · exact h
      · rw [List.getElem?_eq_none h] at hget; cases hget
    have h1 : routine.drop hdr.length = routine[hdr.length] :: routine.drop (hdr.length + 1) :=
      List.drop_eq_getElem_cons hlt
    have h2 : routine[hdr.length] = Code.LAB (d0.name.print ++ "_") := by
      rw [List.getElem?_eq_getElem hlt] at hget; exact Option.some.inj hget
    have h3 : routine.take hdr.length = hdr := by
      rw [hcs]; simp [List.append_assoc]
    conv => lhs; rw [← List.take_append_drop hdr.length routine, h1, h2, h3]
  obtain ⟨k3, hk3⟩ := step_fall cfg L hsplit (s := st2) hpc
    (show execCode cfg.mach (mkProg cfg.mach items).labelAddr (Code.LAB (d0.name.print ++ "_")) _ = .ok (_, .next)
      from rfl)
  have hbytes' : 128 ≤ F.c.heapBytes := by rw [hFc]; omega
  have X3i : K.X3 F d0.ctx (initConfig a args)
      (Scc.Heap.init F.c.heapBase (F.c.heapBase + F.c.heapBytes)) id (fun _ _ => 0) (setPS st2 (hdr.length + 1) k3) :=
    K.X3R.setPS (K.x3_init R HR (fun b hb => (hentry b hb).1) hc0 (by rw [hFc]; exact hb0) hbytes' id (fun _ _ => 0)) _ _
  have R3 : K.Rel3 F routine (Program.ofOps ops) hooks p ⟨d0.ctx, args.map .int, d0.body⟩ (initConfig a args)
      (Scc.Heap.init F.c.heapBase (F.c.heapBase + F.c.heapBytes)) (setPS st2 (hdr.length + 1) k3) :=
    ⟨d0.ctx, id, fun _ _ => 0, rfl, RX, X3i, fun i h1 h2 w hw => by
      simp only [List.getElem_map]
      exact .int _ _ _ _, kx, kx', ditems, hdrun, hdat⟩
  have hclean : "cleanup" ∉ labs (hdr ++ body) := by
    rw [hcs, labs_append] at hnd
    have := (List.nodup_append.1 hnd).2.2
    intro hm
    exact this _ hm _ (by simp [labs, codeLabelDef, cleanup]) rfl
  have hlabI : (mkProg cfg.mach items).labelIdx["asm_main"]? = some 6 := by rw [L.labels]; exact hidx
  refine ⟨F, hdr ++ body, st0', h, k0 + 1, _, a, hFc, HF, by rw [hFc]; exact LA, hcs, hclean, E,
    K.xdefsAt_of_compile hcompX hcs hnd, hlabI, ?_, R3, hn1, T, hargs, ?_⟩
  · exact stepN_trans cfg _ hk0 ((stepN_one cfg _ _).trans hk3)
  · exact MidS.trans hmid0 hk0 (midS_one (not_ctxAt_of_split hsplit hpc (not_isCtx_of_noComment rfl)))


/-! ## the run -/

/-- THE TWO HYPOTHESES ABOUT THE RUN from the machine state `X` on, at every statement boundary the machine
reaches from `X` (exactly: not moved over labels and comments):
* THE HOOK PARSES: the monitor's parser reads the kinds of the positional state's context from the comment at the
  program counter (true when the names of the variables have no blanks: `Conc.parseCtx_hook`);
* THE WINDOW (gap (3)): the frontier block lies inside the monitor's window — at most 512 bytes above the highest
  heap address written.  Only boundaries with at most `B` blocks below the frontier matter. -/
def MonFrom (F : Frame) (mon : MonCfg) (px : X86.Prog) (cs : List Code) (P : Program) (hooks : Bool)
    (prog : AxCut.Prog) (st : Pos.State) (X : State) (B : Nat) : Prop :=
  ∀ n X' st' cfg' hs', Reachable prog st st' → stepN mon px n X = .inl X' →
    K.Rel3 F cs P hooks prog st' cfg' hs' X' →
    (∀ msg, cs[X'.pc]? = some (Code.COMMENT msg) → parseCtx msg = some (ctxKinds st'.ctx)) ∧
    ∀ below inUse, HeapShapeAt mon X' below inUse → below ≤ B → 64 * below + 64 ≤ X'.maxHeapWritten + 512

theorem MonFrom.step {F : Frame} {mon : MonCfg} {px : X86.Prog} {cs : List Code} {P : Program} {hooks : Bool}
    {prog : AxCut.Prog} {st st1 : Pos.State} {o : Option (Bool × Word)} {X X' : State} {n B : Nat}
    (h : MonFrom F mon px cs P hooks prog st X B) (hs : Pos.step prog st = .next st1 o)
    (hn : stepN mon px n X = .inl X') : MonFrom F mon px cs P hooks prog st1 X' B :=
  fun n' X'' st' cfg' hs' hr hn' R =>
    h (n + n') X'' st' cfg' hs' (Scc.Props.C06Generic.reachable_prepend hs hr) (stepN_trans mon px hn hn') R

/-- the number of blocks below the frontier is a function of the machine state: any heap shape of a state that
represents the block-level state `hs` has at most `B` blocks below the frontier if `hs` has -/
theorem heapShapeAt_below_le {m : MonCfg} {c : MachCfg} (hm : m.mach = c) (hk : m.consts = consts) {X : State}
    {hs : HState} (HR : HeapRel c X hs) {B : Nat} (hfb : FrBound hs B) {below inUse : Nat}
    (h : HeapShapeAt m X below inUse) : below ≤ B := by
  obtain ⟨hw, fw, roots, lin, lazy, live, Fr, hh, hf, I, hb, _⟩ := h
  obtain ⟨w, hw', ew⟩ := HR.heap
  obtain ⟨f, hf', ef⟩ := HR.free
  rw [hk] at hh hf
  have hh' : rd X consts.heap = .ok w := rd_regIs hw'
  have hf'' : rd X consts.free = .ok f := rd_regIs hf'
  rw [hh'] at hh
  rw [hf''] at hf
  injection hh with hh
  injection hf with hf
  subst hh; subst hf
  have hmem : memFn X = hs.mem.get := by
    funext a; exact (HR.mem a).symm
  have J : InvS hs roots [] lin lazy live Fr := by
    unfold InvS
    rw [HR.base, HR.limit, ← ew, ← ef, ← hmem, ← hm]
    exact I
  have := hfb _ _ _ _ _ J
  rw [HR.base, ← hm] at this
  omega

/-- THE MONITOR AT A STATEMENT BOUNDARY, the parser's round trip as a hypothesis about the comment AT THE PROGRAM
COUNTER (`ConcK.monitor_boundary` asks for it for every context whose hook comment is in the routine) -/
theorem monitor_boundary_at {F : Frame} {cfg : MonCfg} (hFc : F.c = cfg.mach) (hk : cfg.consts = consts)
    {routine : List Code} {items : List (Code × Nat)} (hitems : items.map (·.1) = routine)
    {P : Program} {prog : AxCut.Prog} {st : Pos.State} {cfgA : Config} {hs : HState} {X : State}
    (R : K.Rel3 F routine P true prog st cfgA hs X)
    (hparse : ∀ msg, routine[X.pc]? = some (Code.COMMENT msg) → parseCtx msg = some (ctxKinds st.ctx)) :
    ∃ below inUse, HeapShapeAt cfg X below inUse ∧
      (cfg.heap = false → monitor cfg (mkProg cfg.mach items) X = .ok none) ∧
      (cfg.heap = true → 64 * below + 64 ≤ X.maxHeapWritten + 512 →
        monitor cfg (mkProg cfg.mach items) X = .ok (some below)) := by
  obtain ⟨Γ', ι, κ, hkeys, RX, X3h, _, k, k', its, hrun, hat⟩ := R
  obtain ⟨rest, hfirst⟩ := post_first_hook natRen prog.types st.stmt Γ' k its k' hrun
  obtain ⟨cs1, cs2, hcs, hlen⟩ := hat
  have hget : routine[X.pc]? = some (Code.COMMENT (ctxHookComment Γ')) := by
    rw [hcs, hfirst, ← hlen]
    simp
  have hp := hparse _ hget
  rw [← ctxKinds_keys hkeys] at hp
  have hcode : (mkProg cfg.mach items).code[X.pc]? = some (Code.COMMENT (ctxHookComment Γ')) := by
    show (items.map (·.1)).toArray[X.pc]? = _
    rw [hitems, List.getElem?_toArray]
    exact hget
  obtain ⟨⟨roots, h, f, lin, lazy, live, Fr, hr, hh, hf, I⟩, _⟩ := heapInvAt_of_x3 (m := cfg) hFc.symm hk RX X3h
  rw [hFc] at I
  refine ⟨(Fr - cfg.mach.heapBase) / 64, live.length, ⟨h, f, _, lin, lazy, live, Fr, hh, hf, I, rfl, rfl⟩, ?_, ?_⟩
  · intro hoff
    simp [monitor, hoff]
  · intro hon hw
    have hFb := I.frontier_block
    unfold Scc.Heap.IsBlock at hFb
    have hchk := heapCheck_ok hr hh hf I (by omega)
    unfold monitor
    simp only [hon, Bool.not_true, Bool.false_eq_true, if_false, hcode, hp, hchk]

/-- the monitor at a point of the chain: the boundary state itself (at its hook, which parses, inside the
window) or a state that is not at a `#ctx` comment -/
theorem monPass_point {F : Frame} {cfg : MonCfg} (hFc : F.c = cfg.mach) (hk : cfg.consts = consts)
    {cs : List Code} {items : List (Code × Nat)} (hitems : items.map (·.1) = cs)
    {P : Program} {prog : AxCut.Prog} {st : Pos.State} {cfgA : Config} {hs : HState} {X0 X : State}
    (R : K.Rel3 F cs P true prog st cfgA hs X0) (hX : X = X0 ∨ ¬ CtxAt cs X.pc)
    (hmon : X = X0 → (∀ msg, cs[X0.pc]? = some (Code.COMMENT msg) → parseCtx msg = some (ctxKinds st.ctx)) ∧
      ∀ below inUse, HeapShapeAt cfg X0 below inUse → 64 * below + 64 ≤ X0.maxHeapWritten + 512) :
    MonPass cfg (mkProg cfg.mach items) X := by
  rcases hX with rfl | hX
  · obtain ⟨hp, hwin⟩ := hmon rfl
    obtain ⟨below, inUse, hsh, hoff, hon⟩ := monitor_boundary_at hFc hk hitems R hp
    cases hh : cfg.heap with
    | false => exact ⟨_, hoff hh⟩
    | true => exact ⟨_, hon hh (hwin below inUse hsh)⟩
  · exact ⟨none, monitor_not_ctx hitems hX⟩

/-- the simulation runs from the boundary state `X0` through states that are not at `#ctx` comments to the
machine state `XR` (the next boundary `X'` up to `Tol`); the machine is at `X` (`X0` up to `Tol`): the machine
reaches, through such states, a state that is `X'` up to `Tol`; with at least one transition if one of the
simulated transitions is at an item of non-zero size -/
theorem tol_next_mid (m : MonCfg) {p : Prog} {cs : List Code} (L : Loaded p cs) {X0 X X' XR : State}
    (T : Tol cs X0 X) {n : Nat} (h : stepN m p n X0 = .inl XR) (T' : Tol cs X' XR) (hm : Mid m p cs n X0)
    (hland : XR = X' ∨ ¬ CtxAt cs XR.pc) (hX : X = X0 ∨ ¬ CtxAt cs X.pc) :
    ∃ k XR', stepN m p k X = .inl XR' ∧ Tol cs X' XR' ∧ Mid m p cs k X ∧ (XR' = X' ∨ ¬ CtxAt cs XR'.pc) ∧
      ((∃ n1 Xm, n1 < n ∧ stepN m p n1 X0 = .inl Xm ∧ ¬ NoopAt cs Xm.pc) → 1 ≤ k) := by
  have hle := T.le
  have hreal_d : (∃ n1 Xm, n1 < n ∧ stepN m p n1 X0 = .inl Xm ∧ ¬ NoopAt cs Xm.pc) →
      ∃ n1, n1 < n ∧ X.pc - X0.pc ≤ n1 := by
    rintro ⟨n1, Xm, hn1, hXm, hnn⟩
    refine ⟨n1, hn1, ?_⟩
    rcases Nat.lt_or_ge n1 (X.pc - X0.pc) with hlt | hge
    · exfalso
      have h1 := noop_steps m L n1 X0 (fun i h1 h2 => T.noop i h1 (by omega))
      rw [h1] at hXm
      injection hXm with hXm
      subst hXm
      exact hnn (T.noop _ (by simp [setPS]) (by simp [setPS]; omega))
    · exact hge
  by_cases hn : X.pc - X0.pc ≤ n
  · refine ⟨n - (X.pc - X0.pc), XR, ?_, T', hm.shift (T.steps m L) hn, hland, ?_⟩
    · have := stepN_add m p (X.pc - X0.pc) (n - (X.pc - X0.pc)) X0 X (T.steps m L)
      rw [show X.pc - X0.pc + (n - (X.pc - X0.pc)) = n by omega] at this
      rw [← this]; exact h
    · intro hr
      obtain ⟨n1, h1, h2⟩ := hreal_d hr
      omega
  · have hXne : ¬ CtxAt cs X.pc := by
      rcases hX with e | hne
      · exfalso; rw [e] at hn; omega
      · exact hne
    rcases tol_run m L T h with ⟨k, hk⟩ | T2
    · -- the machine reaches the new state anyway
      refine ⟨0, X, rfl, ?_, Mid.zero _, Or.inr hXne, ?_⟩
      · -- all the simulated transitions were labels and comments
        have h1 := noop_steps m L n X0 (fun i h1 h2 => T.noop i h1 (by omega))
        rw [h1] at h
        injection h with h
        subst h
        refine T'.trans ⟨by simp [setPS]; omega, ?_, ?_⟩
        · conv => lhs; rw [T.eq]
          rfl
        · intro i hi1 hi2
          exact T.noop i (by simp [setPS] at hi1; omega) hi2
      · intro hr
        obtain ⟨n1, h1, h2⟩ := hreal_d hr
        omega
    · refine ⟨0, X, rfl, T'.trans T2, Mid.zero _, Or.inr hXne, ?_⟩
      intro hr
      obtain ⟨n1, h1, h2⟩ := hreal_d hr
      omega

section RunM

variable {F : Frame} (HF : FrameOK F) (h8 : F.c.heapBase % 8 = 0) {mon : MonCfg} (hmon : mon.mach = F.c)
  (hk : mon.consts = consts) {cs pre : List Code} {items : List (Code × Nat)} (hitems : items.map (·.1) = cs)
  (LA : LoadedA F.c (mkProg mon.mach items) cs) (hndL : (labs cs).Nodup)
  (hfitX : addrAt F.c.codeBase cs cs.length < 2 ^ 64) (hcs : cs = pre ++ cleanup)
  (hclean : "cleanup" ∉ labs pre) {st0 : State} {h : Word} (E : EntryFacts F st0 h)

include HF h8 hmon hk hitems LA hndL hfitX hcs hclean E in
/-- THE MONITOR ALONG A RUN THAT IS STILL GOING: as `run3_progress`, and the heap monitor passes at every machine
state visited on the way (hooks on; inside the monitor's window) -/
theorem run3_monP (prog : AxCut.Prog) (c : Nat) (code : List MockOp) (nargs c' : Nat)
    (hcomp : (compile mockSym true prog).run c = .ok ((code, nargs), c'))
    (hsafe : LabelSafe prog = true) (htp : LinTypedProg prog) (hfit : CodeFits code)
    (DX : K.XDefsAt cs true prog) (hprog : K.ProgOK prog) (Pk C A M : Nat)
    (hA : ∀ d ∈ prog.defs, K.AllocLe A d.body) (hM : ∀ d ∈ prog.defs, stmtSize d.body ≤ M)
    (hHF : ∀ d ∈ prog.defs, K.AllHF d.body)
    (hbytes : 64 * (Pk + A + 2) ≤ F.c.heapBytes) :
    ∀ (fuel N : Nat) (st : Pos.State) (acc : List (Bool × Word)) (cfg : Config) (hs : HState) (X0 X : State)
      (out : List (Bool × Word)) (Cb : Nat),
      Pos.StateTyped prog st → (∀ st', Reachable prog st st' → 2 * st'.ctx.length ≤ 266) →
      Tol cs X0 X → (X = X0 ∨ ¬ CtxAt cs X.pc) →
      K.Rel3 F cs (Program.ofOps code) true prog st cfg hs X0 → K.StmtOK st.stmt → K.AllocLe A st.stmt →
      (∀ w ∈ st.env, K.ValAll (K.AllocLeClauses A) w) →
      stmtSize st.stmt ≤ M → (∀ w ∈ st.env, K.ValAll (fun cl => clausesSize cl ≤ M) w) →
      K.AllHF st.stmt → (∀ w ∈ st.env, K.ValAll K.ClausesHF w) →
      cfg.next + fuel < 2 ^ 64 → FrBound hs (Pk + 1) →
      FrBound hs Cb → Cb + A * fuel ≤ C →
      PeakFrom F mon (mkProg mon.mach items) cs (Program.ofOps code) true prog st X Pk C →
      MonFrom F mon (mkProg mon.mach items) cs (Program.ofOps code) true prog st X (Pk + 1) →
      Pos.runState prog fuel st acc = ⟨out, .outOfFuel⟩ → N * (M + 1) + stmtSize st.stmt ≤ fuel →
      ∃ n X', N ≤ n ∧ stepN mon (mkProg mon.mach items) n X = .inl X' ∧ PassUpto mon (mkProg mon.mach items) n X
  | _, 0, _, _, _, _, _, X, _, _, _, _, _, _, _, _, _, _, _, _, _, _, _, _, _, _, _, _, _, _ =>
    ⟨0, X, Nat.le_refl _, rfl, PassUpto.zero _ _ _⟩
  | 0, N + 1, st, _, _, _, _, _, _, _, _, _, _, _, _, _, _, _, _, _, _, _, _, _, _, _, _, _, _, hN => by
    have := stmtSize_pos st.stmt
    omega
  | fuel + 1, N + 1, st, acc, cfg, hs, X0, X, out, Cb, T, hcap, TL, hXor, R, hok, hlet, hvals, hszM, hvalsM, hhf, hvalsH,
      hnext, hfb, hcb, hC, hP, hW, hrun, hN => by
    have L := LA.loaded
    have hX3 : ∃ Γ' ι κ, K.X3 F Γ' cfg hs ι κ X0 := by
      obtain ⟨Γ', ι, κ, _, _, X3h, _⟩ := R
      exact ⟨Γ', ι, κ, X3h⟩
    obtain ⟨Γ0, ι0, κ0, X3h⟩ := hX3
    have hbase := X3h.hrel.base
    have hlimit := X3h.hrel.limit
    have hAr := K.allocArity_le hlet
    have hroom : Room hs (64 * K.allocArity st.stmt + 64) :=
      Conc.Room.of_frBound hfb (by rw [hbase, hlimit]; omega)
    have hsim := K.step3M HF h8 hmon LA hndL hfitX hcs hclean E true prog c code nargs c' hcomp hsafe htp hfit
      DX hprog st cfg hs X0 R T (by unfold EnoughHeap; omega) hok hroom (K.headHF_of_all hhf)
    have hsafe' := Pos.step_safe htp st T
    have hw : ∃ rs lin lazy live F, InvS hs rs [] lin lazy live F := by
      obtain ⟨lin, lazy, live, Fr, I⟩ := X3h.href.conc
      exact ⟨_, lin, lazy, live, Fr, I⟩
    -- the monitor at the machine state of this boundary
    have hpass0 : MonPass mon (mkProg mon.mach items) X :=
      monPass_point hmon.symm hk hitems R hXor (fun e => by
        subst e
        obtain ⟨hp, hwin⟩ := hW 0 X st cfg hs Reachable.refl rfl R
        exact ⟨hp, fun below inUse hsh =>
          hwin below inUse hsh (heapShapeAt_below_le hmon hk X3h.hrel hfb hsh)⟩)
    unfold K.StepSim3M at hsim
    simp only [Pos.runState] at hrun
    cases hst : Pos.step prog st with
    | stuck w => simp [hst] at hrun
    | done v' => simp [hst] at hrun
    | next st' o =>
      simp only [hst] at hrun hsim
      rw [hst] at hsafe'
      have hc' := hcap st' (Reachable.step Reachable.refl hst)
      obtain ⟨cfg', hs', X', XR, n, h1, T', hreal, h2, h3, hfr, hpk, R', hok', hmid, hland⟩ :=
        hsim (K.withinCapacity_of_le hc') hc'
      obtain ⟨k, XR', hk', T'', hmidk, hland', hk1⟩ := tol_next_mid mon L TL h1 T' hmid hland hXor
      obtain ⟨hlet', hvals'⟩ := K.hered_step (K.hered_allocLe A) hA hst hlet hvals
      obtain ⟨hszM', hvalsM'⟩ := K.hered_step (hered_size M) hM hst hszM hvalsM
      obtain ⟨hhf', hvalsH'⟩ := K.hered_step K.hered_allHF hHF hst hhf hvalsH
      have hcb' : FrBound hs' (Cb + A) := hcb.of_frLe (K.FrLe.mono' hfr (by omega)) hw
      have hC' : Cb + A + A * fuel ≤ C := by
        have : A * (fuel + 1) = A * fuel + A := Nat.mul_succ A fuel
        omega
      have hrun' : Pos.runState prog fuel st' (outAfter o acc) = ⟨out, .outOfFuel⟩ := by
        cases o <;> exact hrun
      have hcapr : ∀ st'', Reachable prog st' st'' → 2 * st''.ctx.length ≤ 266 :=
        fun st'' hr => hcap st'' (Scc.Props.C06Generic.reachable_prepend hst hr)
      have hlive' : LiveLe0 hs' Pk := hP k XR' X' st' cfg' hs' (Reachable.step Reachable.refl hst) hk' T'' R'
        (fun rs lin lazy live F J => by
          have := hcb' rs lin lazy live F J
          have : A ≤ A * (fuel + 1) := Nat.le_mul_of_pos_right A (by omega)
          omega)
      have hfb' : FrBound hs' (Pk + 1) := hfb.step hfr.2.1 hpk hw hlive'
      have hpassk : PassUpto mon (mkProg mon.mach items) k X := passUpto_of_mid hitems hpass0 hmidk
      rcases size_step hst with hj | hsz
      · -- a call or an invoke: at least one machine transition; the statement continued with is at most `M`
        have hk1' : 1 ≤ k := hk1 (hreal hj)
        have hN' : N * (M + 1) + stmtSize st'.stmt ≤ fuel := by
          have : (N + 1) * (M + 1) = N * (M + 1) + (M + 1) := Nat.succ_mul N (M + 1)
          have := stmtSize_pos st.stmt
          omega
        obtain ⟨n', X'', hn', hX'', hpass'⟩ := run3_monP prog c code nargs c' hcomp hsafe htp hfit DX hprog Pk C A M
          hA hM hHF hbytes fuel N st' (outAfter o acc) cfg' hs' X' XR' out (Cb + A) hsafe' hcapr T'' hland' R' hok'
          hlet' hvals' hszM' hvalsM' hhf' hvalsH' (by omega) hfb' hcb' hC' (hP.step hst hk') (hW.step hst hk') hrun' hN'
        exact ⟨k + n', X'', by omega, stepN_trans mon _ hk' hX'', hpassk.trans hk' hpass'⟩
      · -- a smaller statement: same target
        have hN' : (N + 1) * (M + 1) + stmtSize st'.stmt ≤ fuel := by omega
        obtain ⟨n', X'', hn', hX'', hpass'⟩ := run3_monP prog c code nargs c' hcomp hsafe htp hfit DX hprog Pk C A M
          hA hM hHF hbytes fuel (N + 1) st' (outAfter o acc) cfg' hs' X' XR' out (Cb + A) hsafe' hcapr T'' hland' R' hok'
          hlet' hvals' hszM' hvalsM' hhf' hvalsH' (by omega) hfb' hcb' hC' (hP.step hst hk') (hW.step hst hk') hrun' hN'
        exact ⟨k + n', X'', by omega, stepN_trans mon _ hk' hX'', hpassk.trans hk' hpass'⟩

include HF h8 hmon hk hitems LA hndL hfitX hcs hclean E in
/-- THE MONITOR ALONG A TERMINATING RUN: as `run3_peak`, and the heap monitor passes at every machine state visited,
the last one (at the final `ret`) included -/
theorem run3_monD (prog : AxCut.Prog) (c : Nat) (code : List MockOp) (nargs c' : Nat)
    (hcomp : (compile mockSym true prog).run c = .ok ((code, nargs), c'))
    (hsafe : LabelSafe prog = true) (htp : LinTypedProg prog) (hfit : CodeFits code)
    (DX : K.XDefsAt cs true prog) (hprog : K.ProgOK prog) (Pk C A : Nat)
    (hA : ∀ d ∈ prog.defs, K.AllocLe A d.body) (hHF : ∀ d ∈ prog.defs, K.AllHF d.body)
    (hbytes : 64 * (Pk + A + 2) ≤ F.c.heapBytes) :
    ∀ (fuel : Nat) (st : Pos.State) (acc : List (Bool × Word)) (cfg : Config) (hs : HState) (X0 X : State)
      (out : List (Bool × Word)) (v : Word) (Cb : Nat),
      Pos.StateTyped prog st → (∀ st', Reachable prog st st' → 2 * st'.ctx.length ≤ 266) →
      Tol cs X0 X → (X = X0 ∨ ¬ CtxAt cs X.pc) →
      K.Rel3 F cs (Program.ofOps code) true prog st cfg hs X0 → K.StmtOK st.stmt → K.AllocLe A st.stmt →
      (∀ w ∈ st.env, K.ValAll (K.AllocLeClauses A) w) →
      K.AllHF st.stmt → (∀ w ∈ st.env, K.ValAll K.ClausesHF w) →
      cfg.out = acc → cfg.next + fuel < 2 ^ 64 → FrBound hs (Pk + 1) →
      FrBound hs Cb → Cb + A * fuel ≤ C →
      PeakFrom F mon (mkProg mon.mach items) cs (Program.ofOps code) true prog st X Pk C →
      MonFrom F mon (mkProg mon.mach items) cs (Program.ofOps code) true prog st X (Pk + 1) →
      Pos.runState prog fuel st acc = ⟨out, .done v⟩ →
      ∃ n XL, stepN mon (mkProg mon.mach items) n X = .inl XL ∧
        step mon (mkProg mon.mach items) XL = .inr (.done v) ∧ XL.out.reverse = out ∧
        PassUpto mon (mkProg mon.mach items) (n + 1) X
  | 0, st, acc, cfg, hs, X0, X, out, v, Cb, _, _, _, _, _, _, _, _, _, _, _, _, _, _, _, _, _, h => by
    simp [Pos.runState] at h
  | fuel + 1, st, acc, cfg, hs, X0, X, out, v, Cb, T, hcap, TL, hXor, R, hok, hlet, hvals, hhf, hvalsH, hacc, hnext,
      hfb, hcb, hC, hP, hW, h => by
    have L := LA.loaded
    have hX3 : ∃ Γ' ι κ, K.X3 F Γ' cfg hs ι κ X0 := by
      obtain ⟨Γ', ι, κ, _, _, X3h, _⟩ := R
      exact ⟨Γ', ι, κ, X3h⟩
    obtain ⟨Γ0, ι0, κ0, X3h⟩ := hX3
    have hbase := X3h.hrel.base
    have hlimit := X3h.hrel.limit
    have hAr := K.allocArity_le hlet
    have hCm : Cb + A ≤ C := by
      have : A ≤ A * (fuel + 1) := Nat.le_mul_of_pos_right A (by omega)
      omega
    have hroom : Room hs (64 * K.allocArity st.stmt + 64) :=
      Conc.Room.of_frBound hfb (by rw [hbase, hlimit]; omega)
    have hsim := K.step3M HF h8 hmon LA hndL hfitX hcs hclean E true prog c code nargs c' hcomp hsafe htp hfit
      DX hprog st cfg hs X0 R T (by unfold EnoughHeap; omega) hok hroom (K.headHF_of_all hhf)
    have hsafe' := Pos.step_safe htp st T
    have hw : ∃ rs lin lazy live F, InvS hs rs [] lin lazy live F := by
      obtain ⟨lin, lazy, live, Fr, I⟩ := X3h.href.conc
      exact ⟨_, lin, lazy, live, Fr, I⟩
    have hpass0 : MonPass mon (mkProg mon.mach items) X :=
      monPass_point hmon.symm hk hitems R hXor (fun e => by
        subst e
        obtain ⟨hp, hwin⟩ := hW 0 X st cfg hs Reachable.refl rfl R
        exact ⟨hp, fun below inUse hsh =>
          hwin below inUse hsh (heapShapeAt_below_le hmon hk X3h.hrel hfb hsh)⟩)
    unfold K.StepSim3M at hsim
    simp only [Pos.runState] at h
    cases hst : Pos.step prog st with
    | stuck w => simp [hst] at h
    | done v' =>
      simp only [hst] at h hsim
      obtain ⟨n, XL, h1, h2, h3, hmid, hlast⟩ := hsim
      simp only [Pos.Behaviour.mk.injEq, Pos.Result.done.injEq] at h
      obtain ⟨rfl, rfl⟩ := h
      -- the machine from `X`: the rest of the simulated transitions
      have hle := TL.le
      have hd : X.pc - X0.pc ≤ n := by
        rcases Nat.lt_or_ge n (X.pc - X0.pc) with hlt | hge
        · exfalso
          have h1' := noop_steps mon L n X0 (fun i h1 h2 => TL.noop i h1 (by omega))
          rw [h1'] at h1
          injection h1 with h1
          subst h1
          have := noop_step mon L (s := setPS X0 (X0.pc + n) X0.steps)
            (TL.noop (X0.pc + n) (by omega) (by omega))
          rw [this] at h2
          cases h2
        · exact hge
      have hkX : stepN mon (mkProg mon.mach items) (n - (X.pc - X0.pc)) X = .inl XL := by
        have := stepN_add mon (mkProg mon.mach items) (X.pc - X0.pc) (n - (X.pc - X0.pc)) X0 X (TL.steps mon L)
        rw [show X.pc - X0.pc + (n - (X.pc - X0.pc)) = n by omega] at this
        rw [← this]; exact h1
      have hmidk : Mid mon (mkProg mon.mach items) cs (n - (X.pc - X0.pc)) X := hmid.shift (TL.steps mon L) hd
      refine ⟨n - (X.pc - X0.pc), XL, hkX, h2, by rw [h3, hacc], ?_⟩
      exact (passUpto_of_mid hitems hpass0 hmidk).trans hkX (fun t sk ht hsk => by
        have : t = 0 := by omega
        subst this
        simp only [stepN, Sum.inl.injEq] at hsk
        subst hsk
        by_cases hz : n - (X.pc - X0.pc) = 0
        · -- the machine is already at the last state
          rw [hz] at hkX
          simp only [stepN, Sum.inl.injEq] at hkX
          subst hkX
          exact hpass0
        · exact ⟨none, monitor_not_ctx hitems hlast⟩)
    | next st' o =>
      simp only [hst] at h hsim
      rw [hst] at hsafe'
      have hc' := hcap st' (Reachable.step Reachable.refl hst)
      obtain ⟨cfg', hs', X', XR, n, h1, T', hreal, h2, h3, hfr, hpk, R', hok', hmid, hland⟩ :=
        hsim (K.withinCapacity_of_le hc') hc'
      obtain ⟨k, XR', hk', T'', hmidk, hland', hk1⟩ := tol_next_mid mon L TL h1 T' hmid hland hXor
      have hacc' : cfg'.out = outAfter o acc := by rw [h2, hacc]
      have h' : Pos.runState prog fuel st' (outAfter o acc) = ⟨out, .done v⟩ := by
        cases o <;> exact h
      obtain ⟨hlet', hvals'⟩ := K.hered_step (K.hered_allocLe A) hA hst hlet hvals
      obtain ⟨hhf', hvalsH'⟩ := K.hered_step K.hered_allHF hHF hst hhf hvalsH
      have hcb' : FrBound hs' (Cb + A) := hcb.of_frLe (K.FrLe.mono' hfr (by omega)) hw
      have hlive' : LiveLe0 hs' Pk := hP k XR' X' st' cfg' hs' (Reachable.step Reachable.refl hst) hk' T'' R'
        (fun rs lin lazy live F J => by have := hcb' rs lin lazy live F J; omega)
      have hfb' : FrBound hs' (Pk + 1) := hfb.step hfr.2.1 hpk hw hlive'
      have hC' : Cb + A + A * fuel ≤ C := by
        have : A * (fuel + 1) = A * fuel + A := Nat.mul_succ A fuel
        omega
      have hpassk : PassUpto mon (mkProg mon.mach items) k X := passUpto_of_mid hitems hpass0 hmidk
      obtain ⟨n', XL, g1, g2, g3, hpass'⟩ := run3_monD prog c code nargs c' hcomp hsafe htp hfit DX hprog Pk C A
        hA hHF hbytes fuel st' (outAfter o acc) cfg' hs' X' XR' out v (Cb + A) hsafe'
        (fun st'' hr => hcap st'' (Scc.Props.C06Generic.reachable_prepend hst hr)) T'' hland' R' hok' hlet' hvals'
        hhf' hvalsH' hacc' (by omega) hfb' hcb' hC' (hP.step hst hk') (hW.step hst hk') h'
      exact ⟨k + n', XL, stepN_trans mon _ hk' g1, g2, g3, by
        rw [Nat.add_assoc]; exact hpassk.trans hk' hpass'⟩

end RunM

end Scc.X86.ConcK
