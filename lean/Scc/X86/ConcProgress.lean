/-
  Scc.X86.ConcProgress — PROGRESS of the x86-64 machine along a run of the positional machine that does not
  end: every `call` takes at least one machine transition (`call_x3Q`: the `jmp` and the label), and every
  other step of the positional machine moves to a strictly smaller statement (`size_step`); so along a run
  of the positional machine that is still going after `N·(M + 1) + |stmt|` steps (`M` = the largest
  definition body) the machine makes at least `N` transitions WITHOUT FAULT (`run3_progress`).
-/
import Scc.X86.ConcPeakRun

set_option linter.unusedVariables false
set_option linter.unusedSimpArgs false

namespace Scc.X86.Conc

open Scc Scc.AxCut Scc.AxCut.Pos Scc.Backend Scc.Backend.Abs Scc.Backend.Sim Scc.Backend.Subst Scc.X86 Scc.X86.Ref
open Scc.Backend.Sim2 Scc.Backend.Keys
open Scc.Props.C14Generic (LabelSafe)
open Scc.Props.C06Generic (outAfter WithinCapacity Reachable EnoughHeap CodeFits statesOf stopsWithin)
open Scc.Heap (HState InvS InvW Exhausted)
open Scc.Heap.Refine (HRef FrLe Room FrPk)

mutual
  /-- the size of a statement: the number of statements it contains -/
  def stmtSize : Stmt → Nat
    | .lit _ _ next _ => stmtSize next + 1
    | .op _ _ _ _ next _ => stmtSize next + 1
    | .print _ _ next _ => stmtSize next + 1
    | .ifc _ _ _ t e => stmtSize t + stmtSize e + 1
    | .exit _ => 1
    | .call _ _ => 1
    | .subst _ next => stmtSize next + 1
    | .letS _ _ _ _ next _ => stmtSize next + 1
    | .switch _ _ clauses _ => clausesSize clauses + 1
    | .create _ _ _ clauses next _ _ => clausesSize clauses + stmtSize next + 1
    | .invoke _ _ _ _ => 1
  def clausesSize : Clauses → Nat
    | .nil => 0
    | .cons _ _ body rest => stmtSize body + clausesSize rest + 1
end

theorem stmtSize_pos (s : Stmt) : 1 ≤ stmtSize s := by
  cases s <;> simp only [stmtSize] <;> omega

theorem clausesSize_nth : ∀ {cs : Clauses} {i : Nat} {c : Clause}, nthClause cs i = some c →
    stmtSize c.body < clausesSize cs + 1
  | .nil, _, _, h => by simp [nthClause] at h
  | .cons x ctx body rest, 0, c, h => by
    simp only [nthClause, Option.some.injEq] at h
    subst h
    simp only [clausesSize]
    omega
  | .cons x ctx body rest, i + 1, c, h => by
    simp only [nthClause] at h
    have := clausesSize_nth h
    simp only [clausesSize]
    omega

/-- the largest definition body -/
def progMaxSize (p : AxCut.Prog) : Nat := (p.defs.map fun d => stmtSize d.body).foldr max 0

theorem stmtSize_le_progMaxSize (p : AxCut.Prog) : ∀ d ∈ p.defs, stmtSize d.body ≤ progMaxSize p :=
  fun d hd => le_foldr_max _ _ (List.mem_map.2 ⟨d, hd, rfl⟩)

/-- a step of the positional machine is a `call`, or moves to a strictly smaller statement -/
theorem size_step {prog : AxCut.Prog} {st st' : Pos.State} {o : Option (Bool × Word)}
    (hs : Pos.step prog st = .next st' o) (hd : DataStmt st.stmt) :
    (∃ l a, st.stmt = .call l a) ∨ stmtSize st'.stmt < stmtSize st.stmt := by
  obtain ⟨Γ, ρ, s⟩ := st
  cases s with
  | lit x n next fv =>
    simp only [Pos.step] at hs
    injection hs with h1 h2; subst h1; right; simp only [stmtSize]; omega
  | op x a o b next fv =>
    simp only [Pos.step] at hs
    split at hs
    · cases hs
    · split at hs
      · cases hs
      · split at hs
        · cases hs
        · injection hs with h1 h2; subst h1; right; simp only [stmtSize]; omega
  | print nl a next fv =>
    simp only [Pos.step] at hs
    split at hs
    · cases hs
    · injection hs with h1 h2; subst h1; right; simp only [stmtSize]; omega
  | ifc srt a b t e =>
    simp only [Pos.step] at hs
    right
    split at hs
    · cases hs
    · split at hs
      · injection hs with h1 h2; subst h1
        show stmtSize (if _ then t else e) < _
        simp only [stmtSize]
        split <;> omega
      · split at hs
        · cases hs
        · injection hs with h1 h2; subst h1
          show stmtSize (if _ then t else e) < _
          simp only [stmtSize]
          split <;> omega
  | exit a =>
    simp only [Pos.step] at hs
    split at hs <;> cases hs
  | letS x ty tag args next fv =>
    simp only [Pos.step] at hs
    split at hs
    · cases hs
    · split at hs
      · cases hs
      · injection hs with h1 h2; subst h1; right; simp only [stmtSize]; omega
  | switch x ty clauses fv =>
    simp only [Pos.step] at hs
    right
    split at hs
    · split at hs
      · cases hs
      · split at hs
        · split at hs
          · cases hs
          · rename_i c hc
            split at hs
            · cases hs
            · injection hs with h1 h2; subst h1
              have := clausesSize_nth hc
              simp only [stmtSize]
              exact this
        · cases hs
    · cases hs
  | create x ty env clauses next f1 f2 => exact absurd hd (by simp [DataStmt])
  | invoke x tag ty args => exact absurd hd (by simp [DataStmt])
  | call l args => exact Or.inl ⟨l, args, rfl⟩
  | subst pairs next =>
    simp only [Pos.step] at hs
    split at hs
    · cases hs
    · injection hs with h1 h2; subst h1; right; simp only [stmtSize]; omega

/-- a `call` continues with the body of a definition -/
theorem call_target {prog : AxCut.Prog} {st st' : Pos.State} {o : Option (Bool × Word)} {l : Ident} {a : Ctx}
    (hs : Pos.step prog st = .next st' o) (hc : st.stmt = .call l a) : ∃ d ∈ prog.defs, st'.stmt = d.body := by
  obtain ⟨Γ, ρ, s⟩ := st
  simp only at hc
  subst hc
  simp only [Pos.step] at hs
  split at hs
  · cases hs
  · rename_i d hfd
    split at hs
    · cases hs
    · injection hs with e1 e2
      subst e1
      exact ⟨d, List.mem_of_find?_eq_some hfd, rfl⟩

section Run3P

variable {F : Frame} (HF : FrameOK F) (h8 : F.c.heapBase % 8 = 0) {mon : MonCfg} (hmon : mon.mach = F.c)
  {px : X86.Prog} {cs pre : List Code} (LA : LoadedA F.c px cs) (hndL : (labs cs).Nodup)
  (hfitX : addrAt F.c.codeBase cs cs.length < 2 ^ 64) (hcs : cs = pre ++ cleanup)
  (hclean : "cleanup" ∉ labs pre) {st0 : State} {h : Word} (E : EntryFacts F st0 h)

include HF h8 hmon LA hndL hfitX hcs hclean E in
/-- PROGRESS: along a run of the positional machine that is still going after `N·(M + 1) + |stmt|` steps, the
machine makes at least `N` transitions without fault -/
theorem run3_progress (hooks : Bool) (prog : AxCut.Prog) (c : Nat) (code : List MockOp) (nargs c' : Nat)
    (hcomp : (compile mockSym hooks prog).run c = .ok ((code, nargs), c'))
    (hsafe : LabelSafe prog = true) (htp : LinTypedProg prog) (hfit : CodeFits code)
    (DX : XDefsAt cs hooks prog) (hprog : ProgOK prog) (Pk C A M : Nat)
    (hA : ∀ d ∈ prog.defs, LetLe A d.body) (hM : ∀ d ∈ prog.defs, stmtSize d.body ≤ M)
    (hbytes : 64 * (Pk + A + 2) ≤ F.c.heapBytes) :
    ∀ (fuel N : Nat) (st : Pos.State) (acc : List (Bool × Word)) (cfg : Config) (hs : HState) (X : State)
      (out : List (Bool × Word)) (Cb : Nat),
      Pos.StateTyped prog st → (∀ st', Reachable prog st st' → 2 * st'.ctx.length ≤ 266) →
      Rel3 F cs (Program.ofOps code) hooks prog st cfg hs X → StmtOK st.stmt → LetLe A st.stmt →
      cfg.next + fuel < 2 ^ 64 → FrBound hs (Pk + 1) →
      FrBound hs Cb → Cb + A * fuel ≤ C →
      PeakFrom F mon px cs (Program.ofOps code) hooks prog st X Pk C →
      Pos.runState prog fuel st acc = ⟨out, .outOfFuel⟩ → N * (M + 1) + stmtSize st.stmt ≤ fuel →
      ∃ n X', N ≤ n ∧ stepN mon px n X = .inl X'
  | _, 0, _, _, _, _, X, _, _, _, _, _, _, _, _, _, _, _, _, _, _ => ⟨0, X, Nat.le_refl _, rfl⟩
  | 0, N + 1, st, _, _, _, _, _, _, _, _, _, _, _, _, _, _, _, _, _, hN => by
    have := stmtSize_pos st.stmt
    omega
  | fuel + 1, N + 1, st, acc, cfg, hs, X, out, Cb, T, hcap, R, hok, hlet, hnext, hfb, hcb, hC, hP, hrun, hN => by
    have hX3 : ∃ Γ' ι, X3 F Γ' cfg hs ι X := by
      obtain ⟨Γ', ι, _, _, X3h, _⟩ := R
      exact ⟨Γ', ι, X3h⟩
    obtain ⟨Γ0, ι0, X3h⟩ := hX3
    have hbase := X3h.hrel.base
    have hlimit := X3h.hrel.limit
    have hAr := stmtArity_le hlet
    have hroom : Room hs (64 * stmtArity st.stmt + 64) := Room.of_frBound hfb (by rw [hbase, hlimit]; omega)
    have hsim := step3P HF h8 hmon LA hndL hfitX hcs hclean E hooks prog c code nargs c' hcomp hsafe htp hfit
      DX hprog st cfg hs X R T (by unfold EnoughHeap; omega) hok hroom
    have hsafe' := Pos.step_safe htp st T
    have hw : ∃ rs lin lazy live F, InvS hs rs [] lin lazy live F := by
      obtain ⟨lin, lazy, live, Fr, I⟩ := X3h.href.conc
      exact ⟨_, lin, lazy, live, Fr, I⟩
    unfold StepSim3P at hsim
    simp only [Pos.runState] at hrun
    cases hst : Pos.step prog st with
    | stuck w => simp [hst] at hrun
    | done v' => simp [hst] at hrun
    | next st' o =>
      simp only [hst] at hrun hsim
      rw [hst] at hsafe'
      have hc' := hcap st' (Reachable.step Reachable.refl hst)
      obtain ⟨cfg', hs', X', n, h1, hpr, h2, h3, hfr, hpk, R', hok'⟩ := hsim (withinCapacity_of_le hc') hc'
      have hlet' : LetLe A st'.stmt := letLe_step hA hst hok.1 hlet
      have hcb' : FrBound hs' (Cb + A) := hcb.of_frLe (FrLe.mono' hfr (by omega)) hw
      have hlive' : LiveLe0 hs' Pk := hP n X' st' cfg' hs' (Reachable.step Reachable.refl hst) h1 R'
        (fun rs lin lazy live F J => by
          have := hcb' rs lin lazy live F J
          have : A ≤ A * (fuel + 1) := Nat.le_mul_of_pos_right A (by omega)
          omega)
      have hfb' : FrBound hs' (Pk + 1) := hfb.step hfr.2.1 hpk hw hlive'
      have hC' : Cb + A + A * fuel ≤ C := by
        have : A * (fuel + 1) = A * fuel + A := Nat.mul_succ A fuel
        omega
      have hrun' : Pos.runState prog fuel st' (outAfter o acc) = ⟨out, .outOfFuel⟩ := by
        cases o <;> exact hrun
      have hcapr : ∀ st'', Reachable prog st' st'' → 2 * st''.ctx.length ≤ 266 :=
        fun st'' hr => hcap st'' (Scc.Props.C06Generic.reachable_prepend hst hr)
      rcases size_step hst hok.1 with ⟨l, a, hcall⟩ | hsz
      · -- a call: at least one machine transition; the callee's body is at most `M`
        have hn1 : 1 ≤ n := hpr l a hcall
        have hszM : stmtSize st'.stmt ≤ M := by
          obtain ⟨d, hd, e⟩ := call_target hst hcall
          rw [e]; exact hM d hd
        have hN' : N * (M + 1) + stmtSize st'.stmt ≤ fuel := by
          have : (N + 1) * (M + 1) = N * (M + 1) + (M + 1) := Nat.succ_mul N (M + 1)
          have := stmtSize_pos st.stmt
          omega
        obtain ⟨n', X'', hn', hX''⟩ := run3_progress hooks prog c code nargs c' hcomp hsafe htp hfit DX hprog Pk C A M
          hA hM hbytes fuel N st' (outAfter o acc) cfg' hs' X' out (Cb + A) hsafe' hcapr R' hok' hlet' (by omega)
          hfb' hcb' hC' (hP.step hst h1) hrun' hN'
        exact ⟨n + n', X'', by omega, stepN_trans mon px h1 hX''⟩
      · -- a smaller statement: same target
        have hN' : (N + 1) * (M + 1) + stmtSize st'.stmt ≤ fuel := by omega
        obtain ⟨n', X'', hn', hX''⟩ := run3_progress hooks prog c code nargs c' hcomp hsafe htp hfit DX hprog Pk C A M
          hA hM hbytes fuel (N + 1) st' (outAfter o acc) cfg' hs' X' out (Cb + A) hsafe' hcapr R' hok' hlet' (by omega)
          hfb' hcb' hC' (hP.step hst h1) hrun' hN'
        exact ⟨n + n', X'', by omega, stepN_trans mon px h1 hX''⟩

end Run3P

end Scc.X86.Conc
