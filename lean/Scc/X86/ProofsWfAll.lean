/-
  Scc.X86.ProofsWfAll — C14 operand check (`codeOperandError = none`: registers < 16, 32-bit
  displacement / immediate fields in range, `mov r64, imm64` within i64, the form exists) for EVERY
  method of the x86-64 backend instance `x86Backend` (code.rs, memory.rs, parallel_moves.rs,
  utils.rs) and for the routine wrapper (into_routine.rs).  ProofsWf.lean has the arithmetic /
  compare / mov / load_immediate methods; this file adds the rest:
    load_label, jump, add_and_jump, jump_label_if_*, print_i64 (caller-save dance),
    store_temporary / restore_temporary, skip_if_zero, if_zero_then_else, erase_block,
    share_block_n, store (store_fields, acquire_block, erase_fields, …), load (load_fields, …),
    setup / cleanup / preamble.
  `Post m Q`: every successful run of the generator `m` returns a value satisfying `Q`
  (a Hoare-style postcondition for `GenM`; the label counter is irrelevant here).
-/
import Scc.X86.ProofsWf
import Scc.X86.ProofsCC
import Scc.Backend.Proofs

namespace Scc.X86

open Scc.AxCut
open Scc.Backend (GenM TempNum freshLabel run_bind_ok run_pure_ok run_throw_ok)

/-! ## postconditions of generators -/

def Post {α : Type} (m : GenM α) (Q : α → Prop) : Prop :=
  ∀ c a c', m.run c = .ok (a, c') → Q a

theorem Post.pure {α : Type} {a : α} {Q : α → Prop} (h : Q a) : Post (pure a : GenM α) Q := by
  intro c r c' hr
  obtain ⟨rfl, _⟩ := (run_pure_ok a c r c').1 hr
  exact h

theorem Post.throw {α : Type} {e : String} {Q : α → Prop} : Post (throw e : GenM α) Q := by
  intro c r c' hr
  exact ((run_throw_ok e c r c').1 hr).elim

theorem Post.bind {α β : Type} {m : GenM α} {f : α → GenM β} {Q1 : α → Prop} {Q : β → Prop}
    (h1 : Post m Q1) (h2 : ∀ a, Q1 a → Post (f a) Q) : Post (m >>= f) Q := by
  intro c r c' hr
  obtain ⟨a, c1, ha, hf⟩ := (run_bind_ok m f c r c').1 hr
  exact h2 a (h1 c a c1 ha) c1 r c' hf

theorem Post.mono {α : Type} {m : GenM α} {Q1 Q : α → Prop} (h1 : Post m Q1) (h : ∀ a, Q1 a → Q a) :
    Post m Q := fun c a c' hr => h a (h1 c a c' hr)

theorem Post.true {α : Type} (m : GenM α) : Post m (fun _ => True) := fun _ _ _ _ => trivial

theorem Post.liftE {α : Type} {e : Except String α} {Q : α → Prop} (h : ∀ a, e = .ok a → Q a) :
    Post (liftE e) Q := by
  cases e with
  | error m => exact Post.throw
  | ok a => exact Post.pure (h a rfl)

/-! ## temporaries handed out by utils.rs are valid operands -/

theorem temporaryFromPosition_ok {n : Nat} {t : Temporary} (h : temporaryFromPosition n = .ok t) :
    OpndOK t := by
  unfold temporaryFromPosition at h
  dsimp only at h
  have hR : RESERVED = 4 := rfl
  have hN : REGISTER_NUM = 16 := rfl
  have hS : RESERVED_SPILLS = 1 := rfl
  have hM : SPILL_NUM = 256 := rfl
  by_cases h1 : n + RESERVED < REGISTER_NUM
  · rw [if_pos h1] at h; cases h
    exact ⟨by omega, by omega⟩
  · rw [if_neg h1] at h
    by_cases h2 : n + RESERVED - REGISTER_NUM + RESERVED_SPILLS < SPILL_NUM
    · rw [if_pos h2] at h; cases h
      show n + RESERVED - REGISTER_NUM + RESERVED_SPILLS < 256
      omega
    · rw [if_neg h2] at h; cases h

theorem post_freshTemporary (n : TempNum) (ctx : Ctx) : Post (freshTemporary n ctx) OpndOK :=
  Post.liftE fun _ h => temporaryFromPosition_ok h

theorem post_variableTemporary (n : TempNum) (ctx : Ctx) (id : Nat) :
    Post (variableTemporary n ctx id) OpndOK := by
  unfold variableTemporary
  split
  · exact Post.liftE fun _ h => temporaryFromPosition_ok h
  · exact Post.throw

/-! ## single instructions -/

theorem ok_gen {code : Code}
    (hm : match code with | .MOVI _ _ => False | .IMULMR _ _ _ => False | _ => True)
    (hr : ∀ r ∈ codeRegs code, r < 16) (hi : ∀ i ∈ codeImm32s code, fitsI32 i = true) :
    codeOperandError code = none :=
  codeOK_of hr hi (by cases code <;> simp_all)

theorem fitsI32_zero : fitsI32 0 = true := by decide
theorem fitsI32_address1 : fitsI32 (address 1) = true := by decide
theorem fitsI32_refcount : fitsI32 REFERENCE_COUNT_OFFSET = true := by decide
theorem fitsI32_next : fitsI32 NEXT_ELEMENT_OFFSET = true := by decide
theorem fitsI32_spillTemp : fitsI32 (stackOffset SPILL_TEMP) = true := fitsI32_stackOffset (by decide)

theorem ok_condJump (sort : IfSort) (l : String) : codeOperandError (condJump sort l) = none := by
  cases sort <;> rfl

/-- `mov [rsp + stack_offset p], r` -/
theorem ok_MOVS_slot {r p : Nat} (hr : r < 16) (hp : p < 256) :
    codeOperandError (.MOVS r STACK (stackOffset p)) = none :=
  ok_rm (code := .MOVS r STACK (stackOffset p)) rfl rfl trivial hr hp

/-- `mov r, [rsp + stack_offset p]` -/
theorem ok_MOVL_slot {r p : Nat} (hr : r < 16) (hp : p < 256) :
    codeOperandError (.MOVL r STACK (stackOffset p)) = none :=
  ok_rm (code := .MOVL r STACK (stackOffset p)) rfl rfl trivial hr hp

/-- `mov [b + i], r` / `mov r, [b + i]` with any base register -/
theorem ok_MOVS {r b : Nat} {i : Int} (hr : r < 16) (hb : b < 16) (hi : fitsI32 i = true) :
    codeOperandError (.MOVS r b i) = none :=
  ok_gen (code := .MOVS r b i) trivial (by simp [codeRegs]; exact ⟨hr, hb⟩) (by simp [codeImm32s]; exact hi)

theorem ok_MOVL {r b : Nat} {i : Int} (hr : r < 16) (hb : b < 16) (hi : fitsI32 i = true) :
    codeOperandError (.MOVL r b i) = none :=
  ok_gen (code := .MOVL r b i) trivial (by simp [codeRegs]; exact ⟨hr, hb⟩) (by simp [codeImm32s]; exact hi)

theorem ok_MOV {r r1 : Nat} (hr : r < 16) (hr1 : r1 < 16) : codeOperandError (.MOV r r1) = none :=
  ok_rr (code := .MOV r r1) rfl rfl trivial hr hr1

theorem ok_MOVIM {b : Nat} {i1 i2 : Int} (hb : b < 16) (h1 : fitsI32 i1 = true) (h2 : fitsI32 i2 = true) :
    codeOperandError (.MOVIM b i1 i2) = none :=
  ok_gen (code := .MOVIM b i1 i2) trivial (by simp [codeRegs]; exact hb) (by simp [codeImm32s]; exact ⟨h1, h2⟩)

theorem ok_ADDIM {b : Nat} {i1 i2 : Int} (hb : b < 16) (h1 : fitsI32 i1 = true) (h2 : fitsI32 i2 = true) :
    codeOperandError (.ADDIM b i1 i2) = none :=
  ok_gen (code := .ADDIM b i1 i2) trivial (by simp [codeRegs]; exact hb) (by simp [codeImm32s]; exact ⟨h1, h2⟩)

theorem ok_CMPIM {b : Nat} {i1 i2 : Int} (hb : b < 16) (h1 : fitsI32 i1 = true) (h2 : fitsI32 i2 = true) :
    codeOperandError (.CMPIM b i1 i2) = none :=
  ok_gen (code := .CMPIM b i1 i2) trivial (by simp [codeRegs]; exact hb) (by simp [codeImm32s]; exact ⟨h1, h2⟩)

theorem ok_CMPI {r : Nat} {i : Int} (hr : r < 16) (hi : fitsI32 i = true) :
    codeOperandError (.CMPI r i) = none :=
  ok_gen (code := .CMPI r i) trivial (by simp [codeRegs]; exact hr) (by simp [codeImm32s]; exact hi)

theorem ok_ADDI {r : Nat} {i : Int} (hr : r < 16) (hi : fitsI32 i = true) :
    codeOperandError (.ADDI r i) = none :=
  ok_gen (code := .ADDI r i) trivial (by simp [codeRegs]; exact hr) (by simp [codeImm32s]; exact hi)

theorem ok_SUBI {r : Nat} {i : Int} (hr : r < 16) (hi : fitsI32 i = true) :
    codeOperandError (.SUBI r i) = none :=
  ok_gen (code := .SUBI r i) trivial (by simp [codeRegs]; exact hr) (by simp [codeImm32s]; exact hi)

theorem ok_r1 {code : Code} {r : Nat} (hregs : codeRegs code = [r]) (himm : codeImm32s code = [])
    (hm : match code with | .MOVI _ _ => False | .IMULMR _ _ _ => False | _ => True) (hr : r < 16) :
    codeOperandError code = none :=
  codeOK_of (by rw [hregs]; simp; exact hr) (by rw [himm]; simp) (by cases code <;> simp_all)

theorem operandsOK_nil : OperandsOK [] := fun _ h => by simp at h

theorem operandsOK_comment (m : String) : OperandsOK [Code.COMMENT m] := operandsOK_single rfl

/-! ## code.rs: the remaining `Instructions` methods -/

theorem operandsOK_loadLabel {t : Temporary} (ht : OpndOK t) (name : String) :
    OperandsOK (loadLabel t name) := by
  cases t with
  | reg r => exact operandsOK_single (ok_r1 (code := .LEAL r name) rfl rfl trivial ht.2)
  | spill p =>
    exact operandsOK_cons (ok_r1 (code := .LEAL TEMP name) rfl rfl trivial (by decide))
      (operandsOK_single (ok_MOVS_slot (by decide) ht))

theorem operandsOK_jump {t : Temporary} (ht : OpndOK t) : OperandsOK (jump t) := by
  cases t with
  | reg r => exact operandsOK_single (ok_r1 (code := .JMP r) rfl rfl trivial ht.2)
  | spill p =>
    exact operandsOK_cons (ok_MOVL_slot (by decide) ht)
      (operandsOK_single (ok_r1 (code := .JMP TEMP) rfl rfl trivial (by decide)))

theorem operandsOK_addAndJump {t : Temporary} (ht : OpndOK t) {imm : Int} (hi : fitsI32 imm = true) :
    OperandsOK (addAndJump t imm) := by
  cases t with
  | reg r =>
    exact operandsOK_cons (ok_ADDI ht.2 hi) (operandsOK_single (ok_r1 (code := .JMP r) rfl rfl trivial ht.2))
  | spill p =>
    exact operandsOK_cons (ok_MOVL_slot (by decide) ht) (operandsOK_cons (ok_ADDI (by decide) hi)
      (operandsOK_single (ok_r1 (code := .JMP TEMP) rfl rfl trivial (by decide))))

theorem operandsOK_compareImmediate {t : Temporary} (ht : OpndOK t) {i : Int} (hi : fitsI32 i = true) :
    OperandsOK (compareImmediate t i) := by
  cases t with
  | reg r => exact operandsOK_single (ok_CMPI ht.2 hi)
  | spill p => exact operandsOK_single (ok_CMPIM (by decide) (fitsI32_stackOffset ht) hi)

theorem operandsOK_jumpLabelIf (sort : IfSort) {a b : Temporary} (ha : OpndOK a) (hb : OpndOK b)
    (l : String) : OperandsOK (jumpLabelIf sort a b l) :=
  operandsOK_append (operandsOK_compare ha hb) (operandsOK_single (ok_condJump sort l))

theorem operandsOK_jumpLabelIfZero (sort : IfSort) {a : Temporary} (ha : OpndOK a) (l : String) :
    OperandsOK (jumpLabelIfZero sort a l) :=
  operandsOK_append (operandsOK_compareImmediate ha fitsI32_zero) (operandsOK_single (ok_condJump sort l))

/-- all five operators; `mul` needs a spilled target to differ from its sources (`mul_alias_illegal`) -/
theorem operandsOK_binop (o : BinOp) {t s1 s2 : Temporary} (ht : OpndOK t) (h1 : OpndOK s1) (h2 : OpndOK s2)
    (hal : o = .prod → ∀ p, t = .spill p → t ≠ s1 ∧ t ≠ s2) : OperandsOK (binop o t s1 s2) := by
  cases o with
  | sum => exact operandsOK_add ht h1 h2
  | sub => exact operandsOK_sub ht h1 h2
  | prod => exact operandsOK_mul ht h1 h2 (hal rfl)
  | div => exact (operandsOK_div ht h1 h2).1
  | rem => exact (operandsOK_div ht h1 h2).2

/-! ## parallel_moves.rs -/

theorem operandsOK_storeTemporary {t : Temporary} (ht : OpndOK t) (sp : Bool) :
    OperandsOK (storeTemporary t sp) := by
  cases t with
  | reg r =>
    simp only [storeTemporary]
    split
    · exact operandsOK_single (ok_MOVS_slot ht.2 (by decide))
    · exact operandsOK_single (ok_MOV (by decide) ht.2)
  | spill p =>
    simp only [storeTemporary]
    refine operandsOK_append (operandsOK_single (ok_MOVL_slot (by decide) ht)) ?_
    split
    · exact operandsOK_single (ok_MOVS_slot (by decide) (by decide))
    · exact operandsOK_nil

theorem operandsOK_restoreTemporary {t : Temporary} (ht : OpndOK t) (sp : Bool) :
    OperandsOK (restoreTemporary t sp) := by
  cases t with
  | reg r =>
    simp only [restoreTemporary]
    split
    · exact operandsOK_single (ok_MOVL_slot ht.2 (by decide))
    · exact operandsOK_single (ok_MOV ht.2 (by decide))
  | spill p =>
    simp only [restoreTemporary]
    refine operandsOK_append ?_ (operandsOK_single (ok_MOVS_slot (by decide) ht))
    split
    · exact operandsOK_single (ok_MOVL_slot (by decide) (by decide))
    · exact operandsOK_nil

/-! ## code.rs print_i64: the caller-save dance -/

theorem operandsOK_saveCallerSaveRegisters (first : Nat) (L : List Nat) (hL : ∀ r ∈ L, r < 16) :
    OperandsOK (saveCallerSaveRegisters first L) := by
  intro code hc
  simp only [saveCallerSaveRegisters, List.mem_append, List.mem_map] at hc
  rcases hc with (⟨⟨r, i⟩, hri, rfl⟩ | ⟨r, hr, rfl⟩) | hc
  · have h1 := List.mem_zipIdx hri
    simp only [Nat.zero_add, List.length_take, backupRegistersUsed, REGISTER_NUM, consts] at h1
    have hr : r < 16 := hL r (List.mem_of_mem_take (by rw [h1.2.2]; exact List.getElem_mem _))
    exact ok_MOV (by omega) hr
  · exact ok_r1 (code := .PUSH r) rfl rfl trivial (hL r (List.mem_of_mem_drop hr))
  · split at hc
    · simp only [List.mem_singleton] at hc; subst hc
      exact ok_SUBI (by decide) fitsI32_address1
    · simp at hc

theorem operandsOK_restoreCallerSaveRegisters (first : Nat) (L : List Nat) (hL : ∀ r ∈ L, r < 16) :
    OperandsOK (restoreCallerSaveRegisters first L) := by
  intro code hc
  simp only [restoreCallerSaveRegisters, List.mem_append, List.mem_map] at hc
  rcases hc with (⟨⟨r, i⟩, hri, rfl⟩ | hc) | ⟨r, hr, rfl⟩
  · have h1 := List.mem_zipIdx hri
    simp only [Nat.zero_add, List.length_take, backupRegistersUsed, REGISTER_NUM, consts] at h1
    have hr : r < 16 := hL r (List.mem_of_mem_take (by rw [h1.2.2]; exact List.getElem_mem _))
    exact ok_MOV hr (by omega)
  · split at hc
    · simp only [List.mem_singleton] at hc; subst hc
      exact ok_ADDI (by decide) fitsI32_address1
    · simp at hc
  · exact ok_r1 (code := .POP r) rfl rfl trivial
      (hL r (List.mem_of_mem_drop (List.mem_reverse.1 hr)))

theorem callerSaveRegs_lt (ctx : Ctx) : ∀ r ∈ (callerSaveRegistersInfo ctx).2, r < 16 := by
  intro r hr
  rw [csri_eq] at hr
  have := (regsToSave_bounds (ctx.take 4) 0).1 r hr
  have hl : (ctx.take 4).length ≤ 4 := by simp [List.length_take]; omega
  omega

/-- code.rs print_i64, every context and placement of the argument -/
theorem operandsOK_printI64 (nl : Bool) {t : Temporary} (ht : OpndOK t) (ctx : Ctx) :
    OperandsOK (printI64 nl t ctx) := by
  have hs := operandsOK_saveCallerSaveRegisters (callerSaveRegistersInfo ctx).1 _ (callerSaveRegs_lt ctx)
  have hr := operandsOK_restoreCallerSaveRegisters (callerSaveRegistersInfo ctx).1 _ (callerSaveRegs_lt ctx)
  have hcall : OperandsOK [Code.CALL (if nl then "println_i64" else "print_i64"),
      Code.COMMENT "#restore caller-save registers"] :=
    operandsOK_cons rfl (operandsOK_comment _)
  cases t with
  | reg r =>
    exact operandsOK_append (operandsOK_append (operandsOK_append (operandsOK_append (operandsOK_append
      (operandsOK_append operandsOK_nil (operandsOK_comment _)) hs) (operandsOK_comment _))
      (operandsOK_single (ok_MOV (by decide) ht.2))) hcall) hr
  | spill p =>
    exact operandsOK_append (operandsOK_append (operandsOK_append (operandsOK_append (operandsOK_append
      (operandsOK_append (operandsOK_append (operandsOK_comment _)
        (operandsOK_moveToRegister (by decide) (t := .spill p) ht)) (operandsOK_comment _)) hs)
      (operandsOK_comment _)) (operandsOK_single (ok_MOV (by decide) (by decide)))) hcall) hr

/-! ## memory.rs -/

/-- the generator returns code that passes the operand check -/
abbrev PostOK (m : GenM (List Code)) : Prop := Post m OperandsOK

theorem operandsOK_lab (l : String) : OperandsOK [Code.LAB l] := operandsOK_single rfl

theorem postOK_skipIfZero {cond : Temporary} (hc : OpndOK cond) {body : List Code} (hb : OperandsOK body) :
    PostOK (skipIfZero cond body) := by
  unfold skipIfZero
  exact Post.bind (Post.true _) fun l _ => Post.pure
    (operandsOK_append (operandsOK_append (operandsOK_append
      (operandsOK_compareImmediate hc fitsI32_zero) (operandsOK_single rfl)) hb) (operandsOK_lab _))

theorem postOK_ifZeroThenElse {cond : Nat} (hc : cond < 16) {offset : Option Int}
    (ho : ∀ off, offset = some off → fitsI32 off = true) {tb eb : List Code} (ht : OperandsOK tb)
    (he : OperandsOK eb) : PostOK (ifZeroThenElse cond offset tb eb) := by
  unfold ifZeroThenElse
  refine Post.bind (Post.true _) fun l1 _ => Post.bind (Post.true _) fun l2 _ => Post.pure ?_
  have hcmp : ∀ (o : Option Int), (∀ off, o = some off → fitsI32 off = true) →
      codeOperandError (match o with
        | some off => Code.CMPIM cond off 0
        | none => Code.CMPI cond 0) = none := by
    intro o ho'
    cases o with
    | none => exact ok_CMPI hc fitsI32_zero
    | some off => exact ok_CMPIM hc (ho' off rfl) fitsI32_zero
  exact operandsOK_append (operandsOK_append (operandsOK_append (operandsOK_append
    (operandsOK_cons (hcmp offset ho) (operandsOK_single rfl)) he)
    (operandsOK_cons rfl (operandsOK_lab _))) ht) (operandsOK_lab _)

theorem postOK_eraseValidObject {r : Nat} (hr : r < 16) : PostOK (eraseValidObject r) := by
  unfold eraseValidObject
  exact postOK_ifZeroThenElse hr (fun _ h => by cases h; exact fitsI32_refcount)
    (operandsOK_cons rfl (operandsOK_cons (ok_MOVS (by decide) hr fitsI32_next)
      (operandsOK_single (ok_MOV (by decide) hr))))
    (operandsOK_cons rfl (operandsOK_single (ok_ADDIM hr fitsI32_refcount (by decide))))

theorem postOK_eraseBlock {t : Temporary} (ht : OpndOK t) : PostOK (eraseBlock t) := by
  unfold eraseBlock
  cases t with
  | reg r =>
    exact Post.bind (postOK_eraseValidObject ht.2) fun c hc =>
      postOK_skipIfZero ht (operandsOK_append (operandsOK_comment _) hc)
  | spill p =>
    exact Post.bind (postOK_eraseValidObject (by decide)) fun c hc =>
      Post.bind (postOK_skipIfZero opndOK_temp (operandsOK_append (operandsOK_comment _) hc)) fun r hr =>
        Post.pure (operandsOK_append (operandsOK_single (ok_MOVL_slot (by decide) ht)) hr)

theorem postOK_shareBlockN {t : Temporary} (ht : OpndOK t) {n : Nat} (hn : fitsI32 (n : Int) = true) :
    PostOK (shareBlockN t n) := by
  unfold shareBlockN
  cases t with
  | reg r =>
    exact postOK_skipIfZero ht (operandsOK_append (operandsOK_comment _)
      (operandsOK_single (ok_ADDIM ht.2 fitsI32_refcount hn)))
  | spill p =>
    exact postOK_skipIfZero ht (operandsOK_append (operandsOK_comment _)
      (operandsOK_cons (ok_MOVL_slot (by decide) ht)
        (operandsOK_single (ok_ADDIM (by decide) fitsI32_refcount hn))))

theorem postOK_shareBlock {t : Temporary} (ht : OpndOK t) : PostOK (shareBlock t) :=
  postOK_shareBlockN ht (by decide)

theorem postOK_eraseFields {r : Nat} (hr : r < 16) : ∀ (n offset : Nat), n + offset ≤ 1000 →
    PostOK (eraseFields r n offset)
  | 0, _, _ => by unfold eraseFields; exact Post.pure operandsOK_nil
  | n + 1, offset, h => by
    unfold eraseFields
    exact Post.bind (postOK_eraseBlock opndOK_temp) fun c hc =>
      Post.bind (postOK_eraseFields hr n (offset + 1) (by omega)) fun rest hrest =>
        Post.pure (operandsOK_append (operandsOK_append
          (operandsOK_cons rfl (operandsOK_single
            (ok_MOVL (by decide) hr (fitsI32_fieldOffset .fst (by omega))))) hc) hrest)

theorem postOK_acquireBlock {t : Temporary} (ht : OpndOK t) : PostOK (acquireBlock t) := by
  unfold acquireBlock
  dsimp only
  have hhead : ∀ (u : Temporary), OpndOK u → OperandsOK (match u with
      | .reg newBlockRegister => [Code.MOV newBlockRegister HEAP]
      | .spill newBlockPosition => [Code.MOV TEMP HEAP, Code.MOVS HEAP STACK (stackOffset newBlockPosition)]) := by
    intro u hu
    cases u with
    | reg r => exact operandsOK_single (ok_MOV hu.2 (by decide))
    | spill p =>
      exact operandsOK_cons (ok_MOV (r := TEMP) (r1 := HEAP) (by decide) (by decide))
        (operandsOK_single (ok_MOVS_slot (by decide) hu))
  have hinit : ∀ (u : Temporary), OpndOK u → codeOperandError (match u with
      | .reg newBlockRegister => Code.MOVIM newBlockRegister REFERENCE_COUNT_OFFSET 0
      | .spill _ => Code.MOVIM TEMP REFERENCE_COUNT_OFFSET 0) = none := by
    intro u hu
    cases u with
    | reg r => exact ok_MOVIM hu.2 fitsI32_refcount fitsI32_zero
    | spill p => exact ok_MOVIM (by decide) fitsI32_refcount fitsI32_zero
  have hHEAP : HEAP < 16 := by decide
  have hFREE : FREE < 16 := by decide
  have hTEMP : TEMP < 16 := by decide
  refine Post.bind (postOK_eraseFields hHEAP FIELDS_PER_BLOCK 0 (by decide)) fun erased he => ?_
  refine Post.bind (postOK_ifZeroThenElse hFREE (fun _ h => by cases h)
    (operandsOK_cons rfl (operandsOK_cons (ok_MOV hFREE hHEAP)
      (operandsOK_single (ok_ADDI hFREE (fitsI32_fieldOffset .fst (by decide))))))
    (operandsOK_append (operandsOK_cons rfl (operandsOK_cons
      (ok_MOVIM hHEAP fitsI32_next fitsI32_zero) (operandsOK_comment _))) he)) fun inner hi => ?_
  refine Post.bind (postOK_ifZeroThenElse hHEAP (fun _ h => by cases h)
    (operandsOK_append (operandsOK_cons rfl (operandsOK_cons (ok_MOV hHEAP hFREE)
      (operandsOK_single (ok_MOVL hFREE hFREE fitsI32_next)))) hi)
    (operandsOK_cons rfl (operandsOK_single (hinit t ht)))) fun outer ho => ?_
  exact Post.pure (operandsOK_append (operandsOK_append (hhead t ht)
    (operandsOK_cons rfl (operandsOK_cons rfl
      (operandsOK_single (ok_MOVL hHEAP hHEAP fitsI32_next))))) ho)

theorem operandsOK_releaseBlock {r : Nat} (hr : r < 16) : OperandsOK (releaseBlock r) :=
  operandsOK_cons (ok_MOVS (by decide) hr fitsI32_next) (operandsOK_single (ok_MOV (by decide) hr))

theorem operandsOK_storeZero {r : Nat} (hr : r < 16) {off : Nat} (ho : off ≤ 1000) :
    OperandsOK (storeZero r off) :=
  operandsOK_single (ok_MOVIM hr (fitsI32_fieldOffset .fst ho) fitsI32_zero)

theorem operandsOK_storeZeros {r : Nat} (hr : r < 16) {k : Nat} (hk : k ≤ 1000) :
    OperandsOK (storeZeros k r) := by
  intro code hc
  simp only [storeZeros, List.mem_flatten, List.mem_map, List.mem_range] at hc
  obtain ⟨l, ⟨off, hoff, rfl⟩, hcl⟩ := hc
  exact operandsOK_storeZero hr (by omega) code hcl

theorem postOK_storeField (n : TempNum) (ctx : Ctx) {r : Nat} (hr : r < 16) {off : Nat} (ho : off ≤ 1000) :
    PostOK (storeField n ctx r off) := by
  unfold storeField
  refine Post.bind (post_freshTemporary n ctx) fun t ht => ?_
  cases t with
  | reg rt => exact Post.pure (operandsOK_single (ok_MOVS ht.2 hr (fitsI32_fieldOffset n ho)))
  | spill p =>
    exact Post.pure (operandsOK_cons (ok_MOVL_slot (by decide) ht)
      (operandsOK_single (ok_MOVS (by decide) hr (fitsI32_fieldOffset n ho))))

theorem postOK_loadField (n : TempNum) (ctx : Ctx) {r : Nat} (hr : r < 16) {off : Nat} (ho : off ≤ 1000) :
    PostOK (loadField n ctx r off) := by
  unfold loadField
  refine Post.bind (post_freshTemporary n ctx) fun t ht => ?_
  cases t with
  | reg rt => exact Post.pure (operandsOK_single (ok_MOVL ht.2 hr (fitsI32_fieldOffset n ho)))
  | spill p =>
    exact Post.pure (operandsOK_cons (ok_MOVL (by decide) hr (fitsI32_fieldOffset n ho))
      (operandsOK_single (ok_MOVS_slot (by decide) ht)))

theorem postOK_storeValue (b : Binding) (ctx : Ctx) {r : Nat} (hr : r < 16) {off : Nat} (ho : off ≤ 1000) :
    PostOK (storeValue b ctx r off) := by
  unfold storeValue
  refine Post.bind (postOK_storeField .snd ctx hr ho) fun c1 h1 => ?_
  split
  · exact Post.pure (operandsOK_append h1 (operandsOK_storeZero hr ho))
  · exact Post.bind (postOK_storeField .fst ctx hr ho) fun c2 h2 => Post.pure (operandsOK_append h1 h2)

theorem postOK_loadValue (b : Binding) (ctx : Ctx) {r : Nat} (hr : r < 16) {off : Nat} (ho : off ≤ 1000)
    (mode : LoadMode) : PostOK (loadValue b ctx r off mode) := by
  unfold loadValue
  refine Post.bind (postOK_loadField .snd ctx hr ho) fun c1 h1 => ?_
  split
  · refine Post.bind (postOK_loadField .fst ctx hr ho) fun c2 h2 => ?_
    refine Post.bind (post_freshTemporary .fst ctx) fun t ht => ?_
    have hreg : ∀ (u : Temporary), OpndOK u →
        OpndOK (.reg (match u with | .reg register => register | .spill _ => TEMP)) := by
      intro u hu
      cases u with
      | reg rt => exact hu
      | spill p => exact opndOK_temp
    dsimp only
    split
    · exact Post.bind (postOK_shareBlock (hreg t ht)) fun c3 h3 =>
        Post.pure (operandsOK_append (operandsOK_append h1 h2) h3)
    · exact Post.pure (operandsOK_append h1 h2)
  · exact Post.pure h1

theorem post_pred1 (n : Nat) : Post (pred1 n) (fun k => k + 1 = n) := by
  cases n with
  | zero => exact Post.throw
  | succ k => exact Post.pure rfl

theorem post_storeValuesLoop (ctx : Ctx) {r : Nat} (hr : r < 16) : ∀ (l : List Binding) (ff : Nat),
    ff ≤ 1000 → Post (storeValuesLoop ctx r l ff) (fun res => OperandsOK res.1 ∧ res.2 ≤ ff)
  | [], ff, _ => by unfold storeValuesLoop; exact Post.pure ⟨operandsOK_nil, Nat.le_refl _⟩
  | b :: rest, ff, h => by
    unfold storeValuesLoop
    refine Post.bind (post_pred1 ff) fun off hoff => ?_
    refine Post.bind (postOK_storeValue b _ hr (by omega)) fun c hc => ?_
    refine Post.bind (post_storeValuesLoop ctx hr rest off (by omega)) fun res hres => ?_
    obtain ⟨cs, ff'⟩ := res
    exact Post.pure ⟨operandsOK_append hc hres.1, by have := hres.2; simp at this ⊢; omega⟩

theorem postOK_storeValues (toStore ctx : Ctx) {r : Nat} (hr : r < 16) {ff : Nat} (h : ff ≤ 1000) :
    PostOK (storeValues toStore ctx r ff) := by
  unfold storeValues
  refine Post.bind (post_storeValuesLoop ctx hr toStore.reverse ff h) fun res hres => ?_
  obtain ⟨cs, ff'⟩ := res
  refine Post.pure (operandsOK_append (operandsOK_append (operandsOK_append (operandsOK_comment _) hres.1) ?_)
    (operandsOK_storeZeros hr (by have := hres.2; simp at this; omega)))
  split
  · exact operandsOK_comment _
  · exact operandsOK_nil

theorem postOK_loadValuesLoop (ctx : Ctx) {r : Nat} (hr : r < 16) (mode : LoadMode) :
    ∀ (l : List Binding) (ff : Nat), ff ≤ 1000 → PostOK (loadValuesLoop ctx r mode l ff)
  | [], ff, _ => by unfold loadValuesLoop; exact Post.pure operandsOK_nil
  | b :: rest, ff, h => by
    unfold loadValuesLoop
    refine Post.bind (post_pred1 ff) fun off hoff => ?_
    refine Post.bind (postOK_loadValue b _ hr (by omega) mode) fun c hc => ?_
    exact Post.bind (postOK_loadValuesLoop ctx hr mode rest off (by omega)) fun cs hcs =>
      Post.pure (operandsOK_append hc hcs)

theorem postOK_loadValues (toLoad ctx : Ctx) {r : Nat} (hr : r < 16) {ff : Nat} (h : ff ≤ 1000)
    (mode : LoadMode) : PostOK (loadValues toLoad ctx r ff mode) := by
  unfold loadValues
  exact Post.bind (postOK_loadValuesLoop ctx hr mode toLoad.reverse ff h) fun cs hcs =>
    Post.pure (operandsOK_append (operandsOK_comment _) hcs)

theorem fieldsPerBlock_le (pos : BlockPosition) : FIELDS_PER_BLOCK - pos.toNat ≤ 1000 := by
  cases pos <;> decide

theorem postOK_storeFields : ∀ (fuel : Nat) (toStore ctx : Ctx) (pos : BlockPosition),
    PostOK (storeFields fuel toStore ctx pos)
  | 0, _, _, _ => by unfold storeFields; exact Post.throw
  | fuel + 1, toStore, ctx, pos => by
    have hHEAP : HEAP < 16 := by decide
    unfold storeFields
    split
    · split
      · exact Post.bind (post_freshTemporary .fst ctx) fun t ht =>
          Post.pure (operandsOK_append (operandsOK_comment _) (operandsOK_loadImmediate ht (by decide)))
      · exact Post.pure operandsOK_nil
    · dsimp only
      split
      · refine Post.bind (postOK_storeField .fst _ hHEAP (by decide)) fun c hc =>
          Post.bind (Post.pure (operandsOK_append (operandsOK_comment _) hc)) fun c1 h1 => ?_
        refine Post.bind (postOK_storeValues _ _ hHEAP (fieldsPerBlock_le pos)) fun c3 h3 => ?_
        refine Post.bind (post_freshTemporary .fst _) fun t ht => ?_
        refine Post.bind (postOK_acquireBlock ht) fun c4 h4 => ?_
        refine Post.bind (postOK_storeFields fuel _ ctx .other) fun c5 h5 => ?_
        refine Post.pure (operandsOK_append (operandsOK_append (operandsOK_append (operandsOK_append
          (operandsOK_append h1 ?_) h3) (operandsOK_comment _)) h4) h5)
        split
        · exact operandsOK_comment _
        · exact operandsOK_nil
      · refine Post.bind (Post.pure operandsOK_nil) fun c1 h1 => ?_
        refine Post.bind (postOK_storeValues _ _ hHEAP (fieldsPerBlock_le pos)) fun c3 h3 => ?_
        refine Post.bind (post_freshTemporary .fst _) fun t ht => ?_
        refine Post.bind (postOK_acquireBlock ht) fun c4 h4 => ?_
        refine Post.bind (postOK_storeFields fuel _ ctx .other) fun c5 h5 => ?_
        refine Post.pure (operandsOK_append (operandsOK_append (operandsOK_append (operandsOK_append
          (operandsOK_append h1 ?_) h3) (operandsOK_comment _)) h4) h5)
        split
        · exact operandsOK_comment _
        · exact operandsOK_nil

theorem postOK_store (toStore ctx : Ctx) : PostOK (store toStore ctx) :=
  postOK_storeFields _ _ _ _

theorem postOK_loadFieldsBlock {r : Nat} (hr : r < 16) (toLoadNext c1 c2 : Ctx) (pos : BlockPosition)
    (mode : LoadMode) : PostOK (loadFieldsBlock r toLoadNext c1 c2 pos mode) := by
  unfold loadFieldsBlock
  have h1 : OperandsOK (if mode = .release then
      [Code.COMMENT "###release block"] ++ releaseBlock r else []) := by
    split
    · exact operandsOK_append (operandsOK_comment _) (operandsOK_releaseBlock hr)
    · exact operandsOK_nil
  dsimp only
  split
  · refine Post.bind (postOK_loadField .fst _ hr (by decide)) fun c hc =>
      Post.bind (Post.pure (operandsOK_append (operandsOK_comment _) hc)) fun c2' h2 => ?_
    exact Post.bind (postOK_loadValues _ _ hr (fieldsPerBlock_le pos) mode) fun c3 h3 =>
      Post.pure (operandsOK_append (operandsOK_append h1 h2) h3)
  · refine Post.bind (Post.pure operandsOK_nil) fun c2' h2 => ?_
    exact Post.bind (postOK_loadValues _ _ hr (fieldsPerBlock_le pos) mode) fun c3 h3 =>
      Post.pure (operandsOK_append (operandsOK_append h1 h2) h3)

theorem post_loadFields : ∀ (fuel : Nat) (toLoad ctx : Ctx) (pos : BlockPosition) (mode : LoadMode)
    (freed : Bool), Post (loadFields fuel toLoad ctx pos mode freed) (fun res => OperandsOK res.1)
  | 0, _, _, _, _, _ => by unfold loadFields; exact Post.throw
  | fuel + 1, toLoad, ctx, pos, mode, freed => by
    unfold loadFields
    split
    · exact Post.pure operandsOK_nil
    · refine Post.bind (post_loadFields fuel _ ctx .other mode freed) fun res hres => ?_
      obtain ⟨c0, freed'⟩ := res
      refine Post.bind (post_freshTemporary .fst _) fun t ht => ?_
      cases t with
      | reg r =>
        exact Post.bind (postOK_loadFieldsBlock ht.2 _ _ _ pos mode) fun c hc =>
          Post.pure (operandsOK_append hres hc)
      | spill p =>
        refine Post.bind (postOK_loadFieldsBlock (r := TEMPORARY_TEMP) (by decide) _ _ _ pos mode) fun c hc => ?_
        refine Post.pure (operandsOK_append (operandsOK_append (operandsOK_append (operandsOK_append hres ?_)
          (operandsOK_single (ok_MOVL_slot (by decide) ht))) hc) ?_)
        · split
          · exact operandsOK_cons rfl (operandsOK_single (ok_MOVS_slot (by decide) (by decide)))
          · exact operandsOK_nil
        · split
          · exact operandsOK_cons rfl (operandsOK_single (ok_MOVL_slot (by decide) (by decide)))
          · exact operandsOK_nil

theorem postOK_loadRegister {r : Nat} (hr : r < 16) (toLoad ctx : Ctx) :
    PostOK (loadRegister r toLoad ctx) := by
  unfold loadRegister
  refine Post.bind (post_loadFields _ toLoad ctx .last .release false) fun res1 h1 => ?_
  obtain ⟨cThen, f1⟩ := res1
  refine Post.bind (post_loadFields _ toLoad ctx .last .share false) fun res2 h2 => ?_
  obtain ⟨cElse, f2⟩ := res2
  refine Post.bind (postOK_ifZeroThenElse hr (fun _ h => by cases h; exact fitsI32_refcount)
    (operandsOK_append (operandsOK_comment _) h1)
    (operandsOK_append (operandsOK_cons rfl (operandsOK_single (ok_ADDIM hr fitsI32_refcount (by decide)))) h2))
    fun c hc => Post.pure (operandsOK_append (operandsOK_comment _) hc)

theorem postOK_load (toLoad ctx : Ctx) : PostOK (load toLoad ctx) := by
  unfold load
  split
  · exact Post.pure operandsOK_nil
  · refine Post.bind (post_freshTemporary .fst ctx) fun t ht => ?_
    cases t with
    | reg r =>
      exact Post.bind (postOK_loadRegister ht.2 toLoad ctx) fun c hc =>
        Post.pure (operandsOK_append (operandsOK_comment _) hc)
    | spill p =>
      exact Post.bind (postOK_loadRegister (r := TEMP) (by decide) toLoad ctx) fun c hc =>
        Post.pure (operandsOK_append (operandsOK_cons rfl (operandsOK_single (ok_MOVL_slot (by decide) ht))) hc)

/-! ## into_routine.rs -/

theorem mainParamRegs_lt {i t : Nat} (h : consts.mainParamRegs[i]? = some t) : t < 16 := by
  have hm := List.mem_of_getElem? h
  simp only [consts, List.mem_cons, List.not_mem_nil, or_false] at hm
  omega

theorem arg_lt {i r : Nat} (h : arg i = .ok r) : r < 16 := by
  unfold arg at h
  split at h
  · rename_i r' hr
    cases h
    have hm := List.mem_of_getElem? hr
    simp only [consts, List.mem_cons, List.not_mem_nil, or_false] at hm
    omega
  · cases h

theorem operandsOK_moveArguments : ∀ (n : Nat) (codes : List Code), moveArguments n = .ok codes →
    OperandsOK codes
  | 0, codes, h => by
    simp only [moveArguments, Except.ok.injEq] at h; subst h; exact operandsOK_comment _
  | 1, codes, h => by
    simp only [moveArguments] at h
    split at h
    · rename_i target src ht hs
      cases h
      exact operandsOK_cons rfl (operandsOK_single (ok_MOV (mainParamRegs_lt ht) (arg_lt hs)))
    · cases h
  | n + 2, codes, h => by
    simp only [moveArguments] at h
    split at h
    · cases h
    · split at h
      · rename_i target src rest ht hs hrest
        cases h
        exact operandsOK_append (operandsOK_cons rfl
          (operandsOK_single (ok_MOV (mainParamRegs_lt ht) (arg_lt hs))))
          (operandsOK_moveArguments (n + 1) rest hrest)
      · cases h

theorem operandsOK_setup {n : Nat} {codes : List Code} (h : setup n = .ok codes) : OperandsOK codes := by
  unfold setup at h
  split at h
  · cases h
  · rename_i moves hm
    cases h
    refine operandsOK_append (operandsOK_append (operandsOK_append
      (operandsOK_cons rfl (operandsOK_comment _)) ?_) ?_) (operandsOK_moveArguments n moves hm)
    · intro code hc
      simp only [List.mem_map] at hc
      obtain ⟨r, hr, rfl⟩ := hc
      refine ok_r1 (code := .PUSH r) rfl rfl trivial ?_
      simp only [consts, List.mem_cons, List.not_mem_nil, or_false] at hr
      omega
    · exact operandsOK_cons rfl (operandsOK_cons (ok_SUBI (by decide) (by decide))
        (operandsOK_cons rfl (operandsOK_cons (ok_MOV (by decide) (by decide))
        (operandsOK_cons rfl (operandsOK_cons (ok_MOV (by decide) (by decide))
        (operandsOK_single (ok_ADDI (by decide) (fitsI32_fieldOffset .fst (by decide)))))))))

theorem operandsOK_cleanup : OperandsOK cleanup := by
  unfold cleanup
  refine operandsOK_append (operandsOK_append (operandsOK_cons rfl (operandsOK_cons rfl
    (operandsOK_cons (ok_ADDI (by decide) (by decide)) (operandsOK_comment _)))) ?_) (operandsOK_single rfl)
  intro code hc
  simp only [List.mem_map, List.mem_reverse] at hc
  obtain ⟨r, hr, rfl⟩ := hc
  refine ok_r1 (code := .POP r) rfl rfl trivial ?_
  simp only [consts, List.mem_cons, List.not_mem_nil, or_false] at hr
  omega

theorem operandsOK_preamble : OperandsOK preamble := by
  intro code hc
  simp only [preamble, List.mem_cons, List.not_mem_nil, or_false] at hc
  rcases hc with rfl | rfl | rfl | rfl | rfl | rfl <;> rfl

/-- into_routine.rs: the wrapper adds only encodable instructions around the body -/
theorem operandsOK_intoRoutine {body routine : List Code} {n : Nat} (hb : OperandsOK body)
    (h : intoRoutine body n = .ok routine) : OperandsOK routine := by
  unfold intoRoutine at h
  split at h
  · cases h
  · rename_i su hsu
    cases h
    exact operandsOK_append (operandsOK_append (operandsOK_append (operandsOK_append (operandsOK_append
      (operandsOK_comment _) operandsOK_preamble) (operandsOK_setup hsu)) (operandsOK_comment _)) hb)
      operandsOK_cleanup

end Scc.X86
