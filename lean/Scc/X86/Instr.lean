/-
  Scc.X86.Instr — the instruction type of the x86-64 backend and its printer.
  Modelled source: /repo/lang/axcut2x86_64/src/code.rs (`enum Code`, `impl Print for Code`) and
  /repo/lang/axcut2x86_64/src/config.rs (`Register`, `Spill`, `Temporary`, `Immediate` and their
  `Print` impls).  Shared by the machine model (Machine.lean parses text INTO this type) and the
  backend model (Backend.lean produces lists of it).  Core imports only; executable.

  Registers are the backend's numbers `Register(n)`; immediates are `Int` (Rust: i64).
-/
namespace Scc.X86

/-- config.rs: struct Register(pub usize) -/
abbrev Reg := Nat

/-- config.rs: impl Print for Register -/
def regName : Reg → String
  | 0 => "rsp" | 1 => "rcx" | 2 => "rbx" | 3 => "rbp"
  | 4 => "rax" | 5 => "rdx" | 6 => "rsi" | 7 => "rdi"
  | n => "r" ++ toString n

/-- config.rs: enum Temporary { Register(Register), Spill(Spill) } -/
inductive Temporary where
  | reg (r : Nat)
  | spill (p : Nat)
  deriving DecidableEq, Repr, BEq, Inhabited

/-- code.rs: enum Code (same constructor names and argument order as the Rust enum) -/
inductive Code where
  | ADD (r r1 : Nat)
  | ADDRM (r r1 : Nat) (i : Int)
  | ADDMR (r1 : Nat) (i : Int) (r : Nat)
  | ADDI (r : Nat) (i : Int)
  | ADDIM (r : Nat) (i1 i2 : Int)
  | SUB (r r1 : Nat)
  | SUBRM (r r1 : Nat) (i : Int)
  | SUBMR (r1 : Nat) (i : Int) (r : Nat)
  | SUBI (r : Nat) (i : Int)
  | IMUL (r r1 : Nat)
  | IMULRM (r r1 : Nat) (i : Int)
  | IMULMR (r1 : Nat) (i : Int) (r : Nat)
  | IDIV (r : Nat)
  | IDIVM (r : Nat) (i : Int)
  | CQO
  | JMP (r : Nat)
  | JMPL (l : String)
  | JMPLN (l : String)
  | LEAL (r : Nat) (l : String)
  | MOV (r r1 : Nat)
  /-- `mov [r1 + i], r` (store) -/
  | MOVS (r r1 : Nat) (i : Int)
  /-- `mov r, [r1 + i]` (load) -/
  | MOVL (r r1 : Nat) (i : Int)
  | MOVI (r : Nat) (i : Int)
  | MOVIM (r : Nat) (i1 i2 : Int)
  | CMP (r r1 : Nat)
  | CMPRM (r r1 : Nat) (i : Int)
  | CMPMR (r : Nat) (i : Int) (r1 : Nat)
  | CMPI (r : Nat) (i : Int)
  | CMPIM (r : Nat) (i1 i2 : Int)
  | JEL (l : String)
  | JNEL (l : String)
  | JLL (l : String)
  | JLEL (l : String)
  | JGL (l : String)
  | JGEL (l : String)
  | PUSH (r : Nat)
  | POP (r : Nat)
  | CALL (f : String)
  | RET
  | LAB (l : String)
  | NOEXECSTACK
  | TEXT
  | GLOBAL (l : String)
  | EXTERN (f : String)
  | COMMENT (msg : String)
  deriving DecidableEq, Repr, Inhabited

/-- `i32::try_from(val).is_ok()` on an `i64` value (code.rs load_immediate); also the range of every
immediate / displacement field except the one of `mov r64, imm64` (Machine.lean). -/
def fitsI32 (i : Int) : Bool := decide (-2147483648 ≤ i) && decide (i ≤ 2147483647)
/-- the range of `i64` (`Immediate.val`) = the immediate field of `mov r64, imm64` -/
def fitsI64 (i : Int) : Bool := decide (-9223372036854775808 ≤ i) && decide (i ≤ 9223372036854775807)

/-- config.rs: impl Print for Immediate (`format!("{}", val)`) -/
def immStr (i : Int) : String := toString i

def INDENT : String := "    "

/-- `[r + i]` -/
def memStr (r : Reg) (i : Int) : String := "[" ++ regName r ++ " + " ++ immStr i ++ "]"

/-- code.rs: impl Print for Code.  NOTE `CMPRM` has no space after the `+`, and `LAB` starts with
    a hard line break (an empty line precedes every label). -/
def printCode : Code → String
  | .ADD r r1 => INDENT ++ "add " ++ regName r ++ ", " ++ regName r1
  | .ADDRM r r1 i => INDENT ++ "add " ++ regName r ++ ", " ++ memStr r1 i
  | .ADDMR r1 i r => INDENT ++ "add " ++ memStr r1 i ++ ", " ++ regName r
  | .ADDI r i => INDENT ++ "add " ++ regName r ++ ", " ++ immStr i
  | .ADDIM r i1 i2 => INDENT ++ "add qword " ++ memStr r i1 ++ ", " ++ immStr i2
  | .SUB r r1 => INDENT ++ "sub " ++ regName r ++ ", " ++ regName r1
  | .SUBRM r r1 i => INDENT ++ "sub " ++ regName r ++ ", " ++ memStr r1 i
  | .SUBMR r1 i r => INDENT ++ "sub " ++ memStr r1 i ++ ", " ++ regName r
  | .SUBI r i => INDENT ++ "sub " ++ regName r ++ ", " ++ immStr i
  | .IMUL r r1 => INDENT ++ "imul " ++ regName r ++ ", " ++ regName r1
  | .IMULRM r r1 i => INDENT ++ "imul " ++ regName r ++ ", " ++ memStr r1 i
  | .IMULMR r1 i r => INDENT ++ "imul " ++ memStr r1 i ++ ", " ++ regName r
  | .IDIV r => INDENT ++ "idiv " ++ regName r
  | .IDIVM r i => INDENT ++ "idiv qword " ++ memStr r i
  | .CQO => INDENT ++ "cqo"
  | .JMP r => INDENT ++ "jmp " ++ regName r
  | .JMPL l => INDENT ++ "jmp " ++ l
  | .JMPLN l => INDENT ++ "jmp near " ++ l
  | .LEAL r l => INDENT ++ "lea " ++ regName r ++ ", [rel " ++ l ++ "]"
  | .MOV r r1 => INDENT ++ "mov " ++ regName r ++ ", " ++ regName r1
  | .MOVS r r1 i => INDENT ++ "mov " ++ memStr r1 i ++ ", " ++ regName r
  | .MOVL r r1 i => INDENT ++ "mov " ++ regName r ++ ", " ++ memStr r1 i
  | .MOVI r i => INDENT ++ "mov " ++ regName r ++ ", " ++ immStr i
  | .MOVIM r i1 i2 => INDENT ++ "mov qword " ++ memStr r i1 ++ ", " ++ immStr i2
  | .CMP r r1 => INDENT ++ "cmp " ++ regName r ++ ", " ++ regName r1
  | .CMPRM r r1 i => INDENT ++ "cmp " ++ regName r ++ ", [" ++ regName r1 ++ " +" ++ immStr i ++ "]"
  | .CMPMR r i r1 => INDENT ++ "cmp " ++ memStr r i ++ ", " ++ regName r1
  | .CMPI r i => INDENT ++ "cmp " ++ regName r ++ ", " ++ immStr i
  | .CMPIM r i1 i2 => INDENT ++ "cmp qword " ++ memStr r i1 ++ ", " ++ immStr i2
  | .JEL l => INDENT ++ "je " ++ l
  | .JNEL l => INDENT ++ "jne " ++ l
  | .JLL l => INDENT ++ "jl " ++ l
  | .JLEL l => INDENT ++ "jle " ++ l
  | .JGL l => INDENT ++ "jg " ++ l
  | .JGEL l => INDENT ++ "jge " ++ l
  | .PUSH r => INDENT ++ "push " ++ regName r
  | .POP r => INDENT ++ "pop " ++ regName r
  | .CALL f => INDENT ++ "call " ++ f
  | .RET => INDENT ++ "ret"
  | .LAB l => "\n" ++ l ++ ":"
  | .NOEXECSTACK => "section .note.GNU-stack noalloc noexec nowrite progbits"
  | .TEXT => "section .text"
  | .GLOBAL l => "global " ++ l
  | .EXTERN f => "extern " ++ f
  | .COMMENT msg => INDENT ++ "; " ++ msg

/-- coder.rs: impl Print for AssemblyProg (`intersperse(instructions, line())`) -/
def printProg (cs : List Code) : String := "\n".intercalate (cs.map printCode)

end Scc.X86
