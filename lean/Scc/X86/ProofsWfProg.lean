/-
  Scc.X86.ProofsWfProg — C14 operand ranges for WHOLE PROGRAMS.

  Part 1 (generic in the backend record): if every method of a backend `B` returns only codes that
  satisfy a predicate `P` when it is given temporaries satisfying `TOK` (and literals / tag numbers /
  share counts within stated bounds) — `OpsSat` — then every code emitted by the generic code
  generator (Generic.lean: `codeStatementR`, `codeClausesR`, `codeMethodsR`, `translateR`,
  `compileR`, including substitutions = reference-count updates + parallel moves over the spanning
  forest) satisfies `P`, for every program within the bounds (`StmtB`).
  Part 2: the x86-64 instance (`opsSat_x86`) with `P` = operand RANGES of an instruction
  (`codeRangeOK`: registers < 16, every 32-bit displacement / immediate field in range,
  `mov r64, imm64` within i64), and the theorem for the routine text `compile_rangesOK`.
-/
import Scc.X86.ProofsWfAll

set_option linter.unusedVariables false

namespace Scc.X86

open Scc.AxCut
open Scc.Backend

/-! ## lists of codes -/

def AllP {Code : Type} (P : Code → Prop) (l : List Code) : Prop := ∀ c ∈ l, P c

theorem AllP.nil {Code : Type} {P : Code → Prop} : AllP P [] := fun _ h => by simp at h
theorem AllP.single {Code : Type} {P : Code → Prop} {c : Code} (h : P c) : AllP P [c] :=
  fun x hx => by simp only [List.mem_singleton] at hx; subst hx; exact h
theorem AllP.append {Code : Type} {P : Code → Prop} {a b : List Code} (ha : AllP P a) (hb : AllP P b) :
    AllP P (a ++ b) := fun x hx => (List.mem_append.1 hx).elim (ha x) (hb x)
theorem AllP.cons {Code : Type} {P : Code → Prop} {c : Code} {l : List Code} (h : P c) (hl : AllP P l) :
    AllP P (c :: l) := AllP.append (AllP.single h) hl
theorem AllP.flatten {Code : Type} {P : Code → Prop} {ls : List (List Code)} (h : ∀ l ∈ ls, AllP P l) :
    AllP P ls.flatten := fun x hx => by
  obtain ⟨l, hl, hxl⟩ := List.mem_flatten.1 hx
  exact h l hl x hxl
theorem AllP.ite {Code : Type} {P : Code → Prop} {c : Prop} [Decidable c] {a b : List Code}
    (ha : AllP P a) (hb : AllP P b) : AllP P (if c then a else b) := by
  split <;> assumption

section Generic

variable {Code T : Type} (B : Backend Code T) (P : Code → Prop) (TOK : T → Prop)

/-- what the generic generator needs from the backend methods -/
structure OpsSat (LitOK : Int → Prop) (maxTags maxSubst : Nat) : Prop where
  temp : TOK B.temp
  return1 : TOK B.return1
  vt : ∀ n ctx id, Post (B.variableTemporary n ctx id) TOK
  comment : ∀ m, P (B.comment m)
  label : ∀ l, P (B.label l)
  jump : ∀ t, TOK t → AllP P (B.jump t)
  jumpLabel : ∀ l, AllP P (B.jumpLabel l)
  jumpLabelFixed : ∀ l, AllP P (B.jumpLabelFixed l)
  jumpLabelIf : ∀ s a b l, TOK a → TOK b → AllP P (B.jumpLabelIf s a b l)
  jumpLabelIfZero : ∀ s a l, TOK a → AllP P (B.jumpLabelIfZero s a l)
  loadImmediate : ∀ t n, TOK t → LitOK n → AllP P (B.loadImmediate t n)
  tagLit : ∀ k, k < maxTags → LitOK (B.jumpLength k)
  loadLabel : ∀ t l, TOK t → AllP P (B.loadLabel t l)
  addAndJump : ∀ t k, TOK t → k < maxTags → AllP P (B.addAndJump t (B.jumpLength k))
  binop : ∀ o t s1 s2, TOK t → TOK s1 → TOK s2 → AllP P (B.binop o t s1 s2)
  mov : ∀ t s, TOK t → TOK s → AllP P (B.mov t s)
  printI64 : ∀ nl t ctx, TOK t → Post (B.printI64 nl t ctx) (AllP P)
  eraseBlock : ∀ t, TOK t → Post (B.eraseBlock t) (AllP P)
  shareBlockN : ∀ t n, TOK t → n < maxSubst → Post (B.shareBlockN t n) (AllP P)
  store : ∀ a b, Post (B.store a b) (AllP P)
  load : ∀ a b, Post (B.load a b) (AllP P)
  storeTemporary : ∀ t sp, TOK t → AllP P (B.storeTemporary t sp)
  restoreTemporary : ∀ t sp, TOK t → AllP P (B.restoreTemporary t sp)

variable {B P TOK}

/-! ## parallel_moves.rs: every node of the spanning forest is one of the given temporaries -/

mutual
  def TreeOK (TOK : T → Prop) : Tree T → Prop
    | .backEdge => True
    | .node t kids => TOK t ∧ TreesOK TOK kids
  def TreesOK (TOK : T → Prop) : List (Tree T) → Prop
    | [] => True
    | k :: ks => TreeOK TOK k ∧ TreesOK TOK ks
end

def RootOK (TOK : T → Prop) : Root T → Prop
  | .startNode t kids => TOK t ∧ TreesOK TOK kids

theorem treesOK_of_forall {TOK : T → Prop} : ∀ {l : List (Tree T)}, (∀ k ∈ l, TreeOK TOK k) → TreesOK TOK l
  | [], _ => trivial
  | k :: ks, h => ⟨h k (by simp), treesOK_of_forall fun x hx => h x (by simp [hx])⟩

variable {LitOK : Int → Prop} {maxTags maxSubst : Nat}

mutual
  theorem allP_treeMoves (S : OpsSat B P TOK LitOK maxTags maxSubst) {temporary : T} (ht : TOK temporary)
      (sp : Bool) : ∀ (tr : Tree T), TreeOK TOK tr → AllP P (treeMoves B temporary sp tr)
    | .backEdge, _ => by simp only [treeMoves]; exact S.storeTemporary _ _ ht
    | .node target kids, h => by
      simp only [treeMoves]
      exact AllP.append (allP_treeMovesList S h.1 sp kids h.2) (S.mov _ _ h.1 ht)
  theorem allP_treeMovesList (S : OpsSat B P TOK LitOK maxTags maxSubst) {temporary : T}
      (ht : TOK temporary) (sp : Bool) :
      ∀ (trs : List (Tree T)), TreesOK TOK trs → AllP P (treeMovesList B temporary sp trs)
    | [], _ => by simp only [treeMovesList]; exact AllP.nil
    | k :: ks, h => by
      simp only [treeMovesList]
      exact AllP.append (allP_treeMoves S ht sp k h.1) (allP_treeMovesList S ht sp ks h.2)
end

theorem allP_rootMoves (S : OpsSat B P TOK LitOK maxTags maxSubst) :
    ∀ (r : Root T), RootOK TOK r → AllP P (rootMoves B r)
  | .startNode t kids, h => by
    simp only [rootMoves]
    exact AllP.append (allP_treeMovesList S h.1 _ kids h.2)
      (AllP.ite (S.restoreTemporary _ _ h.1) AllP.nil)

/-- all targets of the move map are valid -/
def PmOK (TOK : T → Prop) (pm : List (T × List T)) : Prop := ∀ e ∈ pm, ∀ t ∈ e.2, TOK t

theorem mapLookup_ok {pm : List (T × List T)} (hpm : PmOK TOK pm) {k : T} {ts : List T}
    (h : mapLookup B pm k = some ts) : ∀ t ∈ ts, TOK t := by
  unfold mapLookup at h
  cases hf : pm.find? (fun e => B.tempEq k e.1) with
  | none => simp [hf] at h
  | some e =>
    simp only [hf, Option.some.injEq] at h
    subst h
    exact hpm e (List.mem_of_find?_eq_some hf)

theorem mapExcept_ok_forall {α β : Type} {f : α → Except String β} {Q : β → Prop} :
    ∀ {l : List α} {r : List β}, (∀ a ∈ l, ∀ b, f a = .ok b → Q b) → mapExcept f l = .ok r →
      ∀ b ∈ r, Q b
  | [], r, _, h => by simp [mapExcept] at h; subst h; simp
  | a :: as, r, hq, h => by
    simp only [mapExcept] at h
    cases ha : f a with
    | error e => simp [ha] at h
    | ok b0 =>
      simp only [ha] at h
      cases hr : mapExcept f as with
      | error e => simp [hr] at h
      | ok bs =>
        simp only [hr, Except.ok.injEq] at h
        subst h
        intro b hb
        simp only [List.mem_cons] at hb
        rcases hb with rfl | hb
        · exact hq a (by simp) _ ha
        · exact mapExcept_ok_forall (fun a' ha' => hq a' (by simp [ha'])) hr b hb

theorem spanningTree_ok {pm : List (T × List T)} (hpm : PmOK TOK pm) (root : T) :
    ∀ (fuel : Nat) (node : T) (tr : Tree T), TOK node → spanningTree B pm root fuel node = .ok tr →
      TreeOK TOK tr
  | 0, _, _, _, h => by simp [spanningTree] at h
  | fuel + 1, node, tr, hn, h => by
    simp only [spanningTree] at h
    split at h
    · cases h; trivial
    · split at h
      · rename_i targets hl
        split at h
        · cases h
        · rename_i kids hk
          cases h
          refine ⟨hn, treesOK_of_forall ?_⟩
          exact mapExcept_ok_forall (fun a ha b hb =>
            spanningTree_ok hpm root fuel a b (mapLookup_ok hpm hl a ha) hb) hk
      · cases h; exact ⟨hn, trivial⟩

theorem pmOK_deleteTargets {pm : List (T × List T)} (hpm : PmOK TOK pm) (del : List T) :
    PmOK TOK (deleteTargets B del pm) := by
  intro e he t ht
  simp only [deleteTargets, List.mem_map] at he
  obtain ⟨⟨k, ts⟩, hmem, rfl⟩ := he
  exact hpm _ hmem t ((List.mem_filter.1 ht).1)

theorem spanningForestLoop_ok (fuel : Nat) : ∀ (keys : List T) (pm : List (T × List T)) (roots : List (Root T)),
    (∀ k ∈ keys, TOK k) → PmOK TOK pm → spanningForestLoop B fuel keys pm = .ok roots →
    ∀ r ∈ roots, RootOK TOK r
  | [], pm, roots, _, _, h => by simp [spanningForestLoop] at h; subst h; simp
  | temporary :: keys, pm, roots, hk, hpm, h => by
    simp only [spanningForestLoop] at h
    split at h
    · cases h
    · rename_i targets0 hl
      split at h
      · cases h
      · rename_i kids hkids
        split at h
        · cases h
        · rename_i rest hrest
          cases h
          have hroot : RootOK TOK (Root.startNode temporary kids) := by
            refine ⟨hk temporary (by simp), treesOK_of_forall ?_⟩
            exact mapExcept_ok_forall (fun a ha b hb =>
              spanningTree_ok hpm temporary fuel a b
                (mapLookup_ok hpm hl a ((List.mem_filter.1 ha).1)) hb) hkids
          intro r hr
          simp only [List.mem_cons] at hr
          rcases hr with rfl | hr
          · exact hroot
          · exact spanningForestLoop_ok fuel keys _ rest (fun k hk' => hk k (by simp [hk']))
              (pmOK_deleteTargets hpm _) hrest r hr

theorem allP_parallelMoves (S : OpsSat B P TOK LitOK maxTags maxSubst) {conns : List (T × List T)}
    (hkeys : ∀ e ∈ conns, TOK e.1) (hpm : PmOK TOK conns) {code : List Code}
    (h : parallelMoves B conns = .ok code) : AllP P code := by
  unfold parallelMoves at h
  split at h
  · cases h
  · rename_i forest hf
    cases h
    have hroots := spanningForestLoop_ok (B := B) _ _ _ forest
      (fun k hk => by
        obtain ⟨e, he, rfl⟩ := List.mem_map.1 hk
        exact hkeys e he) hpm hf
    refine AllP.append (AllP.ite (AllP.single (S.comment _)) AllP.nil) (AllP.flatten ?_)
    intro l hl
    obtain ⟨r, hr, rfl⟩ := List.mem_map.1 hl
    exact allP_rootMoves S r (hroots r hr)

/-! ## substitution.rs -/

theorem mem_mapInsert {K V : Type} (cmp : K → K → Ordering) (k : K) (v : V) {QK : K → Prop} {QV : V → Prop}
    (hk : QK k) (hv : QV v) : ∀ (l : List (K × V)), (∀ e ∈ l, QK e.1 ∧ QV e.2) →
      ∀ e ∈ mapInsert cmp k v l, QK e.1 ∧ QV e.2
  | [], _, e, he => by
    simp only [mapInsert, List.mem_singleton] at he; subst he; exact ⟨hk, hv⟩
  | (k', v') :: rest, hl, e, he => by
    simp only [mapInsert] at he
    split at he
    · simp only [List.mem_cons] at he
      rcases he with rfl | rfl | he
      · exact ⟨hk, hv⟩
      · exact hl _ (by simp)
      · exact hl e (by simp [he])
    · simp only [List.mem_cons] at he
      rcases he with rfl | he
      · exact ⟨(hl (k', v') (by simp)).1, hv⟩
      · exact hl e (by simp [he])
    · simp only [List.mem_cons] at he
      rcases he with rfl | he
      · exact hl _ (by simp)
      · exact mem_mapInsert cmp k v hk hv rest (fun x hx => hl x (by simp [hx])) e he

theorem mem_setInsert {t : T} {s : List T} (ht : TOK t) (hs : ∀ x ∈ s, TOK x) :
    ∀ x ∈ setInsert B t s, TOK x := by
  induction s with
  | nil => intro x hx; simp only [setInsert, List.mem_singleton] at hx; subst hx; exact ht
  | cons t' rest ih =>
    intro x hx
    simp only [setInsert] at hx
    split at hx
    · simp only [List.mem_cons] at hx
      rcases hx with rfl | rfl | hx
      · exact ht
      · exact hs _ (by simp)
      · exact hs x (by simp [hx])
    · exact hs x hx
    · simp only [List.mem_cons] at hx
      rcases hx with rfl | hx
      · exact hs _ (by simp)
      · exact ih (fun y hy => hs y (by simp [hy])) x hx

theorem mem_setOfList {ts : List T} (hts : ∀ x ∈ ts, TOK x) : ∀ x ∈ setOfList B ts, TOK x := by
  unfold setOfList
  suffices h : ∀ (l acc : List T), (∀ x ∈ l, TOK x) → (∀ x ∈ acc, TOK x) →
      ∀ x ∈ l.foldl (fun s t => setInsert B t s) acc, TOK x from h ts [] hts (by simp)
  intro l
  induction l with
  | nil => intro acc _ hacc; simpa using hacc
  | cons a rest ih =>
    intro acc hl hacc
    simp only [List.foldl_cons]
    exact ih _ (fun x hx => hl x (by simp [hx])) (mem_setInsert (hl a (by simp)) hacc)

theorem post_mapMGen {α β : Type} {f : α → GenM β} {Q : β → Prop} (hf : ∀ a, Post (f a) Q) :
    ∀ (l : List α), Post (mapMGen f l) (fun bs => ∀ b ∈ bs, Q b)
  | [] => by simp only [mapMGen]; exact Post.pure (by simp)
  | a :: as => by
    simp only [mapMGen]
    exact Post.bind (hf a) fun b hb => Post.bind (post_mapMGen hf as) fun bs hbs =>
      Post.pure (by
        intro x hx
        simp only [List.mem_cons] at hx
        rcases hx with rfl | hx
        · exact hb
        · exact hbs x hx)

/-- keys and targets of a move map are valid -/
def ConnsOK (TOK : T → Prop) (pm : List (T × List T)) : Prop :=
  ∀ e ∈ pm, TOK e.1 ∧ ∀ t ∈ e.2, TOK t

theorem post_connections_go (S : OpsSat B P TOK LitOK maxTags maxSubst) (context newContext : Ctx) :
    ∀ (tm : List (Binding × List Nat)) (acc : List (T × List T)), ConnsOK TOK acc →
      Post (connections.go B context newContext tm acc) (ConnsOK TOK)
  | [], acc, hacc => by simp only [connections.go]; exact Post.pure hacc
  | (binding, targets) :: rest, acc, hacc => by
    simp only [connections.go]
    split
    · refine Post.bind (S.vt _ _ _) fun k hk => ?_
      refine Post.bind (post_mapMGen (fun target => S.vt .snd newContext target) targets) fun ts hts => ?_
      exact post_connections_go S context newContext rest _
        (mem_mapInsert _ k _ (QK := TOK) (QV := fun l => ∀ t ∈ l, TOK t) hk (mem_setOfList hts) acc hacc)
    · refine Post.bind (S.vt _ _ _) fun k1 hk1 => ?_
      refine Post.bind (post_mapMGen (fun target => S.vt .fst newContext target) targets) fun ts1 hts1 => ?_
      refine Post.bind (S.vt _ _ _) fun k2 hk2 => ?_
      refine Post.bind (post_mapMGen (fun target => S.vt .snd newContext target) targets) fun ts2 hts2 => ?_
      exact post_connections_go S context newContext rest _
        (mem_mapInsert _ k2 _ (QK := TOK) (QV := fun l => ∀ t ∈ l, TOK t) hk2 (mem_setOfList hts2) _
          (mem_mapInsert _ k1 _ (QK := TOK) (QV := fun l => ∀ t ∈ l, TOK t) hk1 (mem_setOfList hts1) acc hacc))

theorem post_codeExchange (S : OpsSat B P TOK LitOK maxTags maxSubst) (tm : List (Binding × List Nat))
    (context newContext : Ctx) : Post (codeExchange B tm context newContext) (AllP P) := by
  unfold codeExchange connections
  refine Post.bind (post_connections_go S context newContext tm [] (fun _ h => by simp at h)) fun conns hc => ?_
  cases hpm : parallelMoves B conns with
  | error e => exact Post.throw
  | ok code =>
    exact Post.pure (allP_parallelMoves S (fun e he => (hc e he).1) (fun e he => (hc e he).2) hpm)

theorem post_updateReferenceCount (S : OpsSat B P TOK LitOK maxTags maxSubst) (var : Ident) (context : Ctx)
    {newCount : Nat} (hn : newCount ≤ maxSubst) :
    Post (updateReferenceCount B var context newCount) (AllP P) := by
  unfold updateReferenceCount
  refine Post.bind (S.vt _ _ _) fun t ht => ?_
  match newCount, hn with
  | 0, _ => exact Post.bind (S.eraseBlock t ht) fun code hc => Post.pure (AllP.cons (S.comment _) hc)
  | 1, _ => exact Post.pure AllP.nil
  | n + 2, hn =>
    exact Post.bind (S.shareBlockN t (n + 1) ht (by omega)) fun code hc =>
      Post.pure (AllP.cons (S.comment _) hc)

theorem post_codeWeakeningContraction (S : OpsSat B P TOK LitOK maxTags maxSubst) (context : Ctx) :
    ∀ (tm : List (Binding × List Nat)), (∀ e ∈ tm, e.2.length ≤ maxSubst) →
      Post (codeWeakeningContraction B tm context) (AllP P)
  | [], _ => by simp only [codeWeakeningContraction]; exact Post.pure AllP.nil
  | (binding, targets) :: rest, h => by
    simp only [codeWeakeningContraction]
    refine Post.bind (Q1 := AllP P) ?_ fun code hc => ?_
    · split
      · exact post_updateReferenceCount S _ _ (h (binding, targets) (by simp))
      · exact Post.pure AllP.nil
    · exact Post.bind (post_codeWeakeningContraction S context rest (fun e he => h e (by simp [he])))
        fun codeRest hr => Post.pure (AllP.append hc hr)

theorem transpose_lengths (rearrange : List (Binding × Ident)) (context : Ctx) :
    ∀ e ∈ transpose rearrange context, e.2.length ≤ rearrange.length := by
  unfold transpose
  suffices h : ∀ (l : Ctx) (acc : List (Binding × List Nat)),
      (∀ e ∈ acc, True ∧ e.2.length ≤ rearrange.length) →
      ∀ e ∈ l.foldl (fun targetMap binding =>
        mapInsert bindingCmp binding
          ((rearrange.filter fun x => binding.var.id == x.2.id).map fun x => x.1.var.id) targetMap) acc,
        True ∧ e.2.length ≤ rearrange.length from
    fun e he => (h context [] (by simp) e he).2
  intro l
  induction l with
  | nil => intro acc hacc; simpa using hacc
  | cons b rest ih =>
    intro acc hacc
    simp only [List.foldl_cons]
    refine ih _ (mem_mapInsert bindingCmp b _ (QK := fun _ => True)
      (QV := fun v => v.length ≤ rearrange.length) trivial ?_ acc hacc)
    simp only [List.length_map]
    exact List.length_filter_le _ _

/-! ## statements -/

mutual
  /-- the bounds a program must respect: literals satisfy `LitOK` (for the real backends: they are
      `i64` values, which the parser guarantees) and no substitution lists more than `maxSubst`
      pairs (a share count is smaller than the number of pairs) -/
  def StmtB (LitOK : Int → Prop) (maxSubst : Nat) : Stmt → Prop
    | .subst pairs next => pairs.length ≤ maxSubst ∧ StmtB LitOK maxSubst next
    | .call _ _ => True
    | .letS _ _ _ _ next _ => StmtB LitOK maxSubst next
    | .switch _ _ clauses _ => ClausesB LitOK maxSubst clauses
    | .create _ _ _ clauses next _ _ => ClausesB LitOK maxSubst clauses ∧ StmtB LitOK maxSubst next
    | .invoke _ _ _ _ => True
    | .lit _ n next _ => LitOK n ∧ StmtB LitOK maxSubst next
    | .op _ _ _ _ next _ => StmtB LitOK maxSubst next
    | .print _ _ next _ => StmtB LitOK maxSubst next
    | .ifc _ _ _ thenc elsec => StmtB LitOK maxSubst thenc ∧ StmtB LitOK maxSubst elsec
    | .exit _ => True
  def ClausesB (LitOK : Int → Prop) (maxSubst : Nat) : Clauses → Prop
    | .nil => True
    | .cons _ _ body rest => StmtB LitOK maxSubst body ∧ ClausesB LitOK maxSubst rest
end

theorem xtorPosition_go_lt : ∀ (xs : List XtorSig) (tag : Ident) (k i : Nat),
    xtorPosition.go tag xs k = some i → i < k + xs.length
  | [], _, _, _, h => by simp [xtorPosition.go] at h
  | x :: xs, tag, k, i, h => by
    simp only [xtorPosition.go] at h
    split at h
    · cases h; simp
    · have := xtorPosition_go_lt xs tag (k + 1) i h
      simp only [List.length_cons]; omega

theorem xtorPosition_lt {d : TypeDecl} {tag : Ident} {i : Nat} (h : xtorPosition d tag = some i) :
    i < d.xtors.length := by
  have := xtorPosition_go_lt d.xtors tag 0 i h
  omega

theorem post_lookupTypeDeclM (types : List TypeDecl) (ty : Ty) :
    Post (lookupTypeDeclM types ty) (· ∈ types) := by
  intro c d c' h
  have h1 := ((lookupTypeDeclM_run_ok types ty c d c').1 h).1
  cases ty with
  | i64 => simp [lookupTypeDecl] at h1
  | decl n =>
    simp only [lookupTypeDecl] at h1
    exact List.mem_of_find?_eq_some h1

theorem post_xtorPositionM (d : TypeDecl) (tag : Ident) :
    Post (xtorPositionM d tag) (· < d.xtors.length) := by
  intro c i c' h
  exact xtorPosition_lt ((xtorPositionM_run_ok d tag c i c').1 h).1

theorem allP_codeTable (S : OpsSat B P TOK LitOK maxTags maxSubst) (base : String) :
    ∀ (cs : Clauses), AllP P (codeTable B cs base)
  | .nil => by simp only [codeTable]; exact AllP.nil
  | .cons xtor _ _ rest => by
    simp only [codeTable]
    exact AllP.append (S.jumpLabelFixed _) (allP_codeTable S base rest)

theorem allP_hookCode (S : OpsSat B P TOK LitOK maxTags maxSubst) (hooks : Bool) (ctx : Ctx) :
    AllP P (hookCode B hooks ctx) := by
  unfold hookCode
  exact AllP.ite (AllP.single (S.comment _)) AllP.nil

theorem allP_c0 (S : OpsSat B P TOK LitOK maxTags maxSubst) (hooks : Bool) (ctx : Ctx) (m : String) :
    AllP P (hookCode B hooks ctx ++ [B.comment m]) :=
  AllP.append (allP_hookCode S hooks ctx) (AllP.single (S.comment _))

mutual
theorem post_codeStatementR (S : OpsSat B P TOK LitOK maxTags maxSubst) (hooks : Bool) (ren : Nat → String)
    (types : List TypeDecl) (htypes : ∀ d ∈ types, d.xtors.length ≤ maxTags) :
    ∀ (s : Stmt) (context : Ctx), StmtB LitOK maxSubst s →
      Post (codeStatementR B hooks ren types s context) (AllP P)
  | .subst rearrange next, context, hb => by
    simp only [codeStatementR]
    simp only [StmtB] at hb
    refine Post.bind (post_codeWeakeningContraction S context _ (fun e he =>
      Nat.le_trans (transpose_lengths rearrange context e he) hb.1)) fun c1 h1 => ?_
    refine Post.bind (post_codeExchange S _ _ _) fun c2 h2 => ?_
    refine Post.bind (post_codeStatementR S hooks ren types htypes next _ hb.2) fun c3 h3 => ?_
    exact Post.pure (AllP.append (AllP.append (AllP.append (allP_c0 S _ _ _) h1) h2) h3)
  | .call label args, context, _ => by
    simp only [codeStatementR]
    exact Post.pure (AllP.append (allP_c0 S _ _ _) (S.jumpLabel _))
  | .letS var ty tag args next fv, context, hb => by
    simp only [codeStatementR]
    simp only [StmtB] at hb
    refine Post.bind (post_lookupTypeDeclM types ty) fun decl hd => ?_
    refine Post.bind (post_xtorPositionM decl tag) fun pos hpos => ?_
    refine Post.bind (Post.true _) fun sp _ => ?_
    obtain ⟨context1, arguments⟩ := sp
    dsimp only
    refine Post.bind (S.store _ _) fun c1 h1 => ?_
    refine Post.bind (S.vt _ _ _) fun t ht => ?_
    refine Post.bind (post_codeStatementR S hooks ren types htypes next _ hb) fun c3 h3 => ?_
    exact Post.pure (AllP.append (AllP.append (AllP.append (allP_c0 S _ _ _) h1)
      (AllP.cons (S.comment _) (S.loadImmediate _ _ ht
        (S.tagLit _ (Nat.lt_of_lt_of_le hpos (htypes decl hd)))))) h3)
  | .switch var ty clauses fv, context, hb => by
    simp only [codeStatementR]
    simp only [StmtB] at hb
    refine Post.bind (Post.true _) fun num _ => ?_
    refine Post.bind (Q1 := AllP P) ?_ fun c1 h1 => ?_
    · split
      · exact Post.pure (AllP.single (S.comment _))
      · exact Post.bind (S.vt _ _ _) fun t ht =>
          Post.pure (AllP.append (AllP.append (S.loadLabel _ _ S.temp) (S.binop _ _ _ _ S.temp S.temp ht))
            (S.jump _ S.temp))
    · refine Post.bind (post_codeClausesR S hooks ren types htypes _ clauses _ hb) fun c3 h3 => ?_
      exact Post.pure (AllP.append (AllP.append (AllP.append (allP_c0 S _ _ _) h1)
        (AllP.cons (S.label _) (AllP.ite (allP_codeTable S _ clauses) AllP.nil))) h3)
  | .create var ty env clauses next fv1 fv2, context, hb => by
    cases env with
    | none => simp only [codeStatementR]; exact Post.throw
    | some envCtx =>
      simp only [codeStatementR]
      simp only [StmtB] at hb
      refine Post.bind (Post.true _) fun sp _ => ?_
      obtain ⟨context1, closureEnvironment⟩ := sp
      dsimp only
      refine Post.bind (S.store _ _) fun c1 h1 => ?_
      refine Post.bind (Post.true _) fun num _ => ?_
      refine Post.bind (S.vt _ _ _) fun t ht => ?_
      refine Post.bind (post_codeStatementR S hooks ren types htypes next _ hb.2) fun c3 h3 => ?_
      refine Post.bind (post_codeMethodsR S hooks ren types htypes _ clauses _ hb.1) fun c5 h5 => ?_
      exact Post.pure (AllP.append (AllP.append (AllP.append (AllP.append (AllP.append (allP_c0 S _ _ _) h1)
        (AllP.cons (S.comment _) (S.loadLabel _ _ ht))) h3)
        (AllP.cons (S.label _) (AllP.ite (allP_codeTable S _ clauses) AllP.nil))) h5)
  | .invoke var tag ty args, context, _ => by
    simp only [codeStatementR]
    refine Post.bind (S.vt _ _ _) fun t ht => ?_
    refine Post.bind (post_lookupTypeDeclM types ty) fun decl hd => ?_
    split
    · exact Post.pure (AllP.append (AllP.append (allP_c0 S _ _ _) (AllP.single (S.comment _))) (S.jump _ ht))
    · exact Post.bind (post_xtorPositionM decl tag) fun pos hpos =>
        Post.pure (AllP.append (allP_c0 S _ _ _)
          (S.addAndJump _ _ ht (Nat.lt_of_lt_of_le hpos (htypes decl hd))))
  | .lit var n next fv, context, hb => by
    simp only [codeStatementR]
    simp only [StmtB] at hb
    refine Post.bind (S.vt _ _ _) fun t ht => ?_
    refine Post.bind (post_codeStatementR S hooks ren types htypes next _ hb.2) fun c2 h2 => ?_
    exact Post.pure (AllP.append (AllP.append (allP_c0 S _ _ _) (S.loadImmediate _ _ ht hb.1)) h2)
  | .op var fst o snd next fv, context, hb => by
    simp only [codeStatementR]
    simp only [StmtB] at hb
    refine Post.bind (S.vt _ _ _) fun t ht => ?_
    refine Post.bind (S.vt _ _ _) fun s1 hs1 => ?_
    refine Post.bind (S.vt _ _ _) fun s2 hs2 => ?_
    refine Post.bind (post_codeStatementR S hooks ren types htypes next _ hb) fun c2 h2 => ?_
    exact Post.pure (AllP.append (AllP.append (allP_c0 S _ _ _) (S.binop _ _ _ _ ht hs1 hs2)) h2)
  | .print newline var next fv, context, hb => by
    simp only [codeStatementR]
    simp only [StmtB] at hb
    refine Post.bind (S.vt _ _ _) fun t ht => ?_
    refine Post.bind (S.printI64 _ _ _ ht) fun c1 h1 => ?_
    refine Post.bind (post_codeStatementR S hooks ren types htypes next _ hb) fun c2 h2 => ?_
    exact Post.pure (AllP.append (AllP.append (allP_c0 S _ _ _) h1) h2)
  | .ifc sort fst snd thenc elsec, context, hb => by
    simp only [codeStatementR]
    simp only [StmtB] at hb
    refine Post.bind (Post.true _) fun num _ => ?_
    refine Post.bind (Q1 := AllP P) ?_ fun c1 h1 => ?_
    · cases snd with
      | none =>
        dsimp only
        exact Post.bind (S.vt _ _ _) fun a ha => Post.pure (S.jumpLabelIfZero _ _ _ ha)
      | some snd =>
        dsimp only
        exact Post.bind (S.vt _ _ _) fun a ha => Post.bind (S.vt _ _ _) fun b hb' =>
          Post.pure (S.jumpLabelIf _ _ _ _ ha hb')
    · refine Post.bind (post_codeStatementR S hooks ren types htypes elsec _ hb.2) fun c2 h2 => ?_
      refine Post.bind (post_codeStatementR S hooks ren types htypes thenc _ hb.1) fun c3 h3 => ?_
      exact Post.pure (AllP.append (AllP.append (AllP.append (AllP.append (AllP.append (allP_c0 S _ _ _) h1)
        (AllP.single (S.comment _))) h2) (AllP.cons (S.label _) (AllP.single (S.comment _)))) h3)
  | .exit var, context, _ => by
    simp only [codeStatementR]
    exact Post.bind (S.vt _ _ _) fun t ht =>
      Post.pure (AllP.append (AllP.append (allP_c0 S _ _ _) (S.mov _ _ S.return1 ht)) (S.jumpLabel _))
theorem post_codeClausesR (S : OpsSat B P TOK LitOK maxTags maxSubst) (hooks : Bool) (ren : Nat → String)
    (types : List TypeDecl) (htypes : ∀ d ∈ types, d.xtors.length ≤ maxTags) (context : Ctx) :
    ∀ (cs : Clauses) (baseLabel : String), ClausesB LitOK maxSubst cs →
      Post (codeClausesR B hooks ren types context cs baseLabel) (AllP P)
  | .nil, _, _ => by simp only [codeClausesR]; exact Post.pure AllP.nil
  | .cons xtor clauseCtx body rest, baseLabel, hb => by
    simp only [codeClausesR]
    simp only [ClausesB] at hb
    refine Post.bind (S.load _ _) fun c1 h1 => ?_
    refine Post.bind (post_codeStatementR S hooks ren types htypes body _ hb.1) fun c2 h2 => ?_
    refine Post.bind (post_codeClausesR S hooks ren types htypes context rest baseLabel hb.2) fun c3 h3 => ?_
    exact Post.pure (AllP.cons (S.label _) (AllP.append (AllP.append h1 h2) h3))
theorem post_codeMethodsR (S : OpsSat B P TOK LitOK maxTags maxSubst) (hooks : Bool) (ren : Nat → String)
    (types : List TypeDecl) (htypes : ∀ d ∈ types, d.xtors.length ≤ maxTags) (env : Ctx) :
    ∀ (cs : Clauses) (baseLabel : String), ClausesB LitOK maxSubst cs →
      Post (codeMethodsR B hooks ren types env cs baseLabel) (AllP P)
  | .nil, _, _ => by simp only [codeMethodsR]; exact Post.pure AllP.nil
  | .cons xtor clauseCtx body rest, baseLabel, hb => by
    simp only [codeMethodsR]
    simp only [ClausesB] at hb
    refine Post.bind (S.load _ _) fun c1 h1 => ?_
    refine Post.bind (post_codeStatementR S hooks ren types htypes body _ hb.1) fun c2 h2 => ?_
    refine Post.bind (post_codeMethodsR S hooks ren types htypes env rest baseLabel hb.2) fun c3 h3 => ?_
    exact Post.pure (AllP.cons (S.label _) (AllP.append (AllP.append h1 h2) h3))
end

theorem post_translateR (S : OpsSat B P TOK LitOK maxTags maxSubst) (hooks : Bool) (ren : Nat → String)
    (types : List TypeDecl) (htypes : ∀ d ∈ types, d.xtors.length ≤ maxTags) :
    ∀ (defs : List Def), (∀ d ∈ defs, StmtB LitOK maxSubst d.body) →
      Post (translateR B hooks ren types defs) (fun blocks => ∀ b ∈ blocks, AllP P b)
  | [], _ => by simp only [translateR]; exact Post.pure (by simp)
  | d :: ds, h => by
    simp only [translateR]
    refine Post.bind (post_codeStatementR S hooks ren types htypes d.body d.ctx (h d (by simp))) fun is his => ?_
    refine Post.bind (post_translateR S hooks ren types htypes ds (fun x hx => h x (by simp [hx]))) fun rest hr => ?_
    exact Post.pure (by
      intro b hb
      simp only [List.mem_cons] at hb
      rcases hb with rfl | hb
      · exact his
      · exact hr b hb)

theorem allP_assemble (S : OpsSat B P TOK LitOK maxTags maxSubst) :
    ∀ (blocks : List (List Code)) (names : List Ident), (∀ b ∈ blocks, AllP P b) →
      AllP P (assemble B blocks names)
  | [], _, _ => by simp only [assemble]; exact AllP.nil
  | _ :: _, [], _ => by simp only [assemble]; exact AllP.nil
  | block :: blocks, name :: names, h => by
    simp only [assemble]
    exact AllP.cons (S.label _) (AllP.append (h block (by simp))
      (allP_assemble S blocks names (fun b hb => h b (by simp [hb]))))

/-- the bounds of a whole program -/
def ProgB (LitOK : Int → Prop) (maxTags maxSubst : Nat) (p : AxCut.Prog) : Prop :=
  (∀ d ∈ p.types, d.xtors.length ≤ maxTags) ∧ (∀ d ∈ p.defs, StmtB LitOK maxSubst d.body)

/-- GENERIC LIFTING: every code emitted for a program within the bounds satisfies `P` -/
theorem post_compileR (S : OpsSat B P TOK LitOK maxTags maxSubst) (hooks : Bool) (ren : Nat → String)
    (p : AxCut.Prog) (hp : ProgB LitOK maxTags maxSubst p) :
    Post (compileR B hooks ren p) (fun r => AllP P r.1) := by
  unfold compileR
  cases hd : p.defs with
  | nil => exact Post.throw
  | cons d0 ds =>
    dsimp only
    refine Post.bind (post_translateR S hooks ren p.types hp.1 _ (by rw [← hd]; exact hp.2)) fun blocks hb => ?_
    exact Post.pure (allP_assemble S _ _ hb)

end Generic

/-! ## Part 2: the x86-64 instance -/

/-- operand RANGES of one instruction: register numbers, 32-bit fields, the 64-bit immediate of
    `mov r64, imm64` (everything `codeOperandError` checks except the existence of `imul [mem], reg`) -/
def codeRangeOK (code : Code) : Prop :=
  (∀ r ∈ codeRegs code, r < 16) ∧ (∀ i ∈ codeImm32s code, fitsI32 i = true) ∧
  (∀ r i, code = .MOVI r i → fitsI64 i = true)

theorem codeRangeOK_of_operandOK {code : Code} (h : codeOperandError code = none) : codeRangeOK code := by
  unfold codeOperandError at h
  split at h
  · cases h
  · rename_i h1
    split at h
    · cases h
    · rename_i h2
      refine ⟨fun r hr => ?_, fun i hi => ?_, ?_⟩
      · have h1' := h1
        simp only [List.any_eq_true, not_exists, not_and, decide_eq_true_eq] at h1'
        exact Nat.lt_of_not_le (h1' r hr)
      · have := h2
        simp only [List.any_eq_true, not_exists, not_and, Bool.not_eq_true', Bool.not_eq_false] at this
        exact this i hi
      · rintro r i rfl
        simp only at h
        split at h
        · assumption
        · cases h

/-- conversely: in range and not `imul [mem], reg` = passes the operand check -/
theorem operandOK_of_codeRangeOK {code : Code} (h : codeRangeOK code)
    (hm : ∀ b i r, code ≠ .IMULMR b i r) : codeOperandError code = none :=
  codeOK_of h.1 h.2.1 (by
    cases code <;> simp_all
    · exact h.2.2 _ _ rfl)

theorem allP_of_operandsOK {l : List Code} (h : OperandsOK l) : AllP codeRangeOK l :=
  fun c hc => codeRangeOK_of_operandOK (h c hc)

/-- a code in range never raises the machine fault `imm-out-of-range` -/
theorem imm_in_range_of_codeRangeOK {code : Code} (h : codeRangeOK code) :
    (∀ i ∈ codeImm32s code, imm32 i = .ok (BitVec.ofInt 64 i)) ∧
    (∀ r i, code = .MOVI r i → fitsI64 i = true) :=
  ⟨fun i hi => by simp [imm32, h.2.1 i hi], h.2.2⟩

theorem rangeOK_IMULMR {p r : Nat} (hp : p < 256) (hr : r < 16) :
    codeRangeOK (.IMULMR STACK (stackOffset p) r) :=
  ⟨by simp [codeRegs, STACK_eq]; exact hr, by simp [codeImm32s]; exact fitsI32_stackOffset hp,
   by intro _ _ h; cases h⟩

theorem allP_mulToSpill {p : Nat} (hp : p < 256) {t : Temporary} (ht : OpndOK t) :
    AllP codeRangeOK (mulToSpill p t) := by
  cases t with
  | reg r => exact AllP.single (rangeOK_IMULMR hp ht.2)
  | spill q =>
    exact AllP.cons (codeRangeOK_of_operandOK (ok_MOVL_slot (by decide) ht))
      (AllP.single (rangeOK_IMULMR hp (by decide)))

/-- `mul` for EVERY placement and aliasing (an aliased spilled target emits `imul [mem], reg`, whose
    operands are in range although the form does not exist: `mul_alias_illegal`) -/
theorem allP_mul {t s1 s2 : Temporary} (ht : OpndOK t) (h1 : OpndOK s1) (h2 : OpndOK s2) :
    AllP codeRangeOK (mul t s1 s2) := by
  by_cases hal : ∀ p, t = .spill p → t ≠ s1 ∧ t ≠ s2
  · exact allP_of_operandsOK (operandsOK_mul ht h1 h2 hal)
  · cases t with
    | reg r => exact absurd (fun p hp => by cases hp) hal
    | spill p =>
      unfold mul opCommutative
      simp only
      split
      · exact allP_mulToSpill ht h2
      · split
        · exact allP_mulToSpill ht h1
        · rename_i n1 n2
          exact absurd (fun q hq => ⟨n1, n2⟩) hal

theorem allP_binop (o : BinOp) {t s1 s2 : Temporary} (ht : OpndOK t) (h1 : OpndOK s1) (h2 : OpndOK s2) :
    AllP codeRangeOK (binop o t s1 s2) := by
  cases o with
  | prod => exact allP_mul ht h1 h2
  | sum => exact allP_of_operandsOK (operandsOK_binop .sum ht h1 h2 (fun h => by cases h))
  | sub => exact allP_of_operandsOK (operandsOK_binop .sub ht h1 h2 (fun h => by cases h))
  | div => exact allP_of_operandsOK (operandsOK_binop .div ht h1 h2 (fun h => by cases h))
  | rem => exact allP_of_operandsOK (operandsOK_binop .rem ht h1 h2 (fun h => by cases h))

/-- the bounds under which the x86-64 backend's fields cannot overflow: at most 4·10^8 xtors per
    type (`jump_length(k) = 5 k` must fit 32 bits), fewer than 2^31 pairs per substitution (share
    counts are 32-bit immediates) -/
def maxTagsX86 : Nat := 400000000
def maxSubstX86 : Nat := 2147483647

theorem fitsI64_of_fitsI32 {i : Int} (h : fitsI32 i = true) : fitsI64 i = true := by
  simp only [fitsI32, fitsI64, Bool.and_eq_true, decide_eq_true_eq] at *
  omega

theorem opsSat_x86 :
    OpsSat x86Backend codeRangeOK OpndOK (fun n => fitsI64 n = true) maxTagsX86 maxSubstX86 where
  temp := opndOK_temp
  return1 := (⟨by decide, by decide⟩ : OpndOK (.reg RETURN1))
  vt := post_variableTemporary
  comment := fun _ => codeRangeOK_of_operandOK rfl
  label := fun _ => codeRangeOK_of_operandOK rfl
  jump := fun _ ht => allP_of_operandsOK (operandsOK_jump ht)
  jumpLabel := fun _ => AllP.single (codeRangeOK_of_operandOK rfl)
  jumpLabelFixed := fun _ => AllP.single (codeRangeOK_of_operandOK rfl)
  jumpLabelIf := fun s _ _ l ha hb => allP_of_operandsOK (operandsOK_jumpLabelIf s ha hb l)
  jumpLabelIfZero := fun s _ l ha => allP_of_operandsOK (operandsOK_jumpLabelIfZero s ha l)
  loadImmediate := fun _ _ ht hn => allP_of_operandsOK (operandsOK_loadImmediate ht hn)
  tagLit := fun k hk => fitsI64_of_fitsI32 (fitsI32_jumpLength (Nat.le_of_lt hk))
  loadLabel := fun _ l ht => allP_of_operandsOK (operandsOK_loadLabel ht l)
  addAndJump := fun _ k ht hk =>
    allP_of_operandsOK (operandsOK_addAndJump ht (fitsI32_jumpLength (Nat.le_of_lt hk)))
  binop := fun o _ _ _ ht h1 h2 => allP_binop o ht h1 h2
  mov := fun _ _ ht hs => allP_of_operandsOK (operandsOK_mov ht hs)
  printI64 := fun nl _ ctx ht => Post.pure (allP_of_operandsOK (operandsOK_printI64 nl ht ctx))
  eraseBlock := fun _ ht => (postOK_eraseBlock ht).mono fun _ => allP_of_operandsOK
  shareBlockN := fun _ n ht hn => (postOK_shareBlockN ht (by
    simp only [fitsI32, Bool.and_eq_true, decide_eq_true_eq]
    simp only [maxSubstX86] at hn
    omega)).mono fun _ => allP_of_operandsOK
  store := fun a b => (postOK_store a b).mono fun _ => allP_of_operandsOK
  load := fun a b => (postOK_load a b).mono fun _ => allP_of_operandsOK
  storeTemporary := fun _ sp ht => allP_of_operandsOK (operandsOK_storeTemporary ht sp)
  restoreTemporary := fun _ sp ht => allP_of_operandsOK (operandsOK_restoreTemporary ht sp)

/-- the hypothesis on programs: literals are `i64` values (always true for parsed programs), type
    declarations and substitutions below the (astronomic) bounds above -/
def ProgInRange (p : AxCut.Prog) : Prop := ProgB (fun n => fitsI64 n = true) maxTagsX86 maxSubstX86 p

/-- C14 operand ranges for WHOLE PROGRAMS: every instruction of the body the x86-64 code generator
    emits for a program in range has register numbers < 16, all 32-bit fields in range and 64-bit
    immediates within i64 -/
theorem compile_rangesOK {p : AxCut.Prog} {hooks : Bool} {c0 : Nat} {body : List Code} {nargs : Nat}
    (hp : ProgInRange p) (h : compileX86 p hooks c0 = .ok (body, nargs)) : AllP codeRangeOK body := by
  unfold compileX86 at h
  split at h
  · cases h
  · rename_i r c' hr
    cases h
    exact post_compileR opsSat_x86 hooks natRen p hp c0 _ c' hr

/-- … and of the whole routine (prologue, body, epilogue) -/
theorem routine_rangesOK {p : AxCut.Prog} {hooks : Bool} {c0 : Nat} {body routine : List Code} {nargs : Nat}
    (hp : ProgInRange p) (h : compileX86 p hooks c0 = .ok (body, nargs))
    (hr : intoRoutine body nargs = .ok routine) : AllP codeRangeOK routine := by
  have hb := compile_rangesOK hp h
  unfold intoRoutine at hr
  split at hr
  · cases hr
  · rename_i su hsu
    cases hr
    exact AllP.append (AllP.append (AllP.append (AllP.append (AllP.append
      (allP_of_operandsOK (operandsOK_comment _)) (allP_of_operandsOK operandsOK_preamble))
      (allP_of_operandsOK (operandsOK_setup hsu))) (allP_of_operandsOK (operandsOK_comment _))) hb)
      (allP_of_operandsOK operandsOK_cleanup)

end Scc.X86
