/-
  Scc.X86.Total — the x86-64 backend model (`x86Backend`, Scc/X86/Backend.lean) is "total or capacity"
  (property C12, link `codegen_total`; vocabulary of Scc/Backend/TotalDefs.lean).

  Proved here (for ALL arguments, all values of the label counter, all fuel):
  * `x86_total : TotalBackend x86Backend capX86 (fun _ => True)` with `capX86 e := e = "Out of temporaries"`:
    no other panic message of the model is reachable from the backend methods.  In particular
    - `variable_temporary` on a variable of the context never reaches "Variable … not found in context";
    - `store`/`load` never reach "store_fields/load_fields: out of fuel" (fuel = length + 1 suffices because
      `restLength len bp < len` for `len > 0`, as FIELDS_PER_BLOCK - 1 ≥ 2 > 0) nor
      "attempt to subtract with overflow" (`store_values`/`load_values` are always called with
      `free_fields ≥` the number of values);
    - `variable_temporary n Γ id` is `temporary_from_position (2 * pos + n)` for the FIRST position of `id`
      in `Γ`; `temporary_from_position` is injective where it succeeds (`vt_inj`, `vt_det`);
    - the derived `PartialEq` of `Temporary` is equality.
  * `intoRoutine_resOk`, `intoRoutine_ok`: `into_x86_64_routine` fails only with
    "too many arguments for main", and not at all for at most 5 arguments.
  * `fitsX86 n` (every position `< 2 * n` has a temporary) holds iff `2 * n ≤ 267`
    (`fitsX86_of_le`, `not_fitsX86_134`; 267 = REGISTER_NUM - RESERVED + SPILL_NUM - RESERVED_SPILLS).
  * `x86_total_fits : TotalBackend x86Backend (fun _ => False) fitsX86`: when the number of variables fits,
    NO error at all.  `store a b` only requests positions `≤ 2 * (|a| + |b|)`, `load a b` only positions
    `< 2 * (|a| + |b|)`, `variable_temporary n Γ id` only positions `< 2 * |Γ|`.
  Both instances come from one set of lemmas, parametrised by `Good cap N` ("every position below `2 * N`
  has a temporary or fails with a `cap` message").
  Proof file, core imports only.
-/
import Scc.Backend.TotalDefs
import Scc.X86.Backend

set_option linter.unusedSimpArgs false
set_option linter.unusedVariables false

namespace Scc.X86.Total

open Scc.AxCut Scc.Backend Scc.Backend.Total Scc.X86

/-- the only panic message of the backend methods that is reachable -/
def capX86 (e : String) : Prop := e = "Out of temporaries"

/-! ## temporary_from_position -/

theorem tfp_lt {q : Nat} (h : q < 267) :
    temporaryFromPosition q = .ok (if q < 12 then .reg (q + 4) else .spill (q - 11)) := by
  unfold temporaryFromPosition
  have hR : RESERVED = 4 := rfl
  have hN : REGISTER_NUM = 16 := rfl
  have hS : RESERVED_SPILLS = 1 := rfl
  have hP : SPILL_NUM = 256 := rfl
  simp only [hR, hN, hS, hP]
  by_cases h12 : q < 12
  · rw [if_pos (by omega), if_pos h12]
  · rw [if_neg (by omega), if_pos (by omega), if_neg h12]
    congr 2; omega

theorem tfp_ge {q : Nat} (h : 267 ≤ q) : temporaryFromPosition q = .error "Out of temporaries" := by
  unfold temporaryFromPosition
  have hR : RESERVED = 4 := rfl
  have hN : REGISTER_NUM = 16 := rfl
  have hS : RESERVED_SPILLS = 1 := rfl
  have hP : SPILL_NUM = 256 := rfl
  simp only [hR, hN, hS, hP]
  rw [if_neg (by omega), if_neg (by omega)]

theorem tfp_ok_lt {q : Nat} {t : Temporary} (h : temporaryFromPosition q = .ok t) : q < 267 := by
  by_cases hq : q < 267
  · exact hq
  · rw [tfp_ge (by omega)] at h; cases h

/-- `temporary_from_position` is injective where it succeeds -/
theorem tfp_inj {q q' : Nat} {t : Temporary} (h : temporaryFromPosition q = .ok t)
    (h' : temporaryFromPosition q' = .ok t) : q = q' := by
  have hq := tfp_ok_lt h
  have hq' := tfp_ok_lt h'
  rw [tfp_lt hq] at h
  rw [tfp_lt hq'] at h'
  have e : (if q < 12 then Temporary.reg (q + 4) else Temporary.spill (q - 11)) =
      (if q' < 12 then Temporary.reg (q' + 4) else Temporary.spill (q' - 11)) := by
    injection h with h; injection h' with h'; rw [h, h']
  by_cases a : q < 12 <;> by_cases b : q' < 12
  · rw [if_pos a, if_pos b] at e; injection e with e; omega
  · rw [if_pos a, if_neg b] at e; cases e
  · rw [if_neg a, if_pos b] at e; cases e
  · rw [if_neg a, if_neg b] at e; injection e with e; omega

/-- the only error of `temporary_from_position` -/
theorem tfp_resOk (q : Nat) : ResOk capX86 (temporaryFromPosition q) := by
  by_cases hq : q < 267
  · rw [tfp_lt hq]; trivial
  · rw [tfp_ge (by omega)]; exact rfl

/-! ## capacity, abstractly -/

/-- every position below `2 * N` has a temporary, or fails with a permitted message -/
def Good (cap : String → Prop) (N : Nat) : Prop := ∀ q, q < 2 * N → ResOk cap (temporaryFromPosition q)

theorem Good.mono {cap : String → Prop} {M N : Nat} (h : M ≤ N) (g : Good cap N) : Good cap M :=
  fun q hq => g q (by omega)

theorem good_capX86 (N : Nat) : Good capX86 N := fun q _ => tfp_resOk q

/-! ## total generators -/

section
variable {cap : String → Prop}

theorem tot_liftE {α : Type} {e : Except String α} (h : ResOk cap e) : Tot cap (liftE e) := by
  cases e with
  | error m => exact TotP.throw h
  | ok a => exact Tot.pure a

theorem tot_freshTemporary {N : Nat} (g : Good cap N) (n : TempNum) (Γ : Ctx) (h : Γ.length < N) :
    Tot cap (freshTemporary n Γ) := by
  unfold freshTemporary
  refine tot_liftE (g _ ?_)
  cases n <;> simp only [TempNum.toNat] <;> omega

theorem tot_skipIfZero (t : Temporary) (l : List Code) : Tot cap (skipIfZero t l) := by
  unfold skipIfZero
  exact Tot.bind Tot.freshLabel fun _ => Tot.pure _

theorem tot_ifZeroThenElse (r : Reg) (o : Option Int) (a b : List Code) :
    Tot cap (ifZeroThenElse r o a b) := by
  unfold ifZeroThenElse
  exact Tot.bind Tot.freshLabel fun _ => Tot.bind Tot.freshLabel fun _ => Tot.pure _

theorem tot_eraseValidObject (r : Reg) : Tot cap (eraseValidObject r) := by
  unfold eraseValidObject
  exact tot_ifZeroThenElse _ _ _ _

theorem tot_eraseBlock (t : Temporary) : Tot cap (eraseBlock t) := by
  unfold eraseBlock
  cases t with
  | reg r =>
    dsimp only
    exact Tot.bind (tot_eraseValidObject _) fun _ => tot_skipIfZero _ _
  | spill p =>
    dsimp only
    exact Tot.bind (tot_eraseValidObject _) fun _ => Tot.bind (tot_skipIfZero _ _) fun _ => Tot.pure _

theorem tot_shareBlockN (t : Temporary) (n : Nat) : Tot cap (shareBlockN t n) := by
  unfold shareBlockN
  cases t <;> exact tot_skipIfZero _ _

theorem tot_eraseFields (r : Reg) : ∀ (n off : Nat), Tot cap (eraseFields r n off)
  | 0, _ => by unfold eraseFields; exact Tot.pure _
  | n + 1, off => by
    unfold eraseFields
    exact Tot.bind (tot_eraseBlock _) fun _ => Tot.bind (tot_eraseFields r n (off + 1)) fun _ => Tot.pure _

theorem tot_acquireBlock (t : Temporary) : Tot cap (acquireBlock t) := by
  unfold acquireBlock
  exact Tot.bind (tot_eraseFields _ _ _) fun _ => Tot.bind (tot_ifZeroThenElse _ _ _ _) fun _ =>
    Tot.bind (tot_ifZeroThenElse _ _ _ _) fun _ => Tot.pure _

/-! ## memory.rs: fields and values -/

theorem tot_storeField {N : Nat} (g : Good cap N) (n : TempNum) (Γ : Ctx) (r : Reg) (off : Nat)
    (h : Γ.length < N) : Tot cap (storeField n Γ r off) := by
  unfold storeField
  refine Tot.bind (tot_freshTemporary g n Γ h) fun t => ?_
  cases t <;> exact Tot.pure _

theorem tot_loadField {N : Nat} (g : Good cap N) (n : TempNum) (Γ : Ctx) (r : Reg) (off : Nat)
    (h : Γ.length < N) : Tot cap (loadField n Γ r off) := by
  unfold loadField
  refine Tot.bind (tot_freshTemporary g n Γ h) fun t => ?_
  cases t <;> exact Tot.pure _

theorem tot_storeValue {N : Nat} (g : Good cap N) (b : Binding) (Γ : Ctx) (r : Reg) (off : Nat)
    (h : Γ.length < N) : Tot cap (storeValue b Γ r off) := by
  unfold storeValue
  refine Tot.bind (tot_storeField g _ _ _ _ h) fun c1 => ?_
  refine TotP.ite (fun _ => Tot.pure _) fun _ => ?_
  exact Tot.bind (tot_storeField g _ _ _ _ h) fun _ => Tot.pure _

theorem tot_loadValue {N : Nat} (g : Good cap N) (b : Binding) (Γ : Ctx) (r : Reg) (off : Nat)
    (m : LoadMode) (h : Γ.length < N) : Tot cap (loadValue b Γ r off m) := by
  unfold loadValue
  refine Tot.bind (tot_loadField g _ _ _ _ h) fun c1 => ?_
  refine TotP.ite (fun _ => ?_) fun _ => Tot.pure _
  refine Tot.bind (tot_loadField g _ _ _ _ h) fun c2 => ?_
  refine Tot.bind (tot_freshTemporary g _ _ h) fun t => ?_
  refine TotP.ite (fun _ => ?_) fun _ => Tot.pure _
  exact Tot.bind (tot_shareBlockN _ _) fun _ => Tot.pure _

theorem tot_pred1 {n : Nat} (h : 0 < n) : TotP cap (fun k => k + 1 = n) (pred1 n) := by
  cases n with
  | zero => omega
  | succ k => exact TotP.pure rfl

/-- `store_values`: never "attempt to subtract with overflow" when `free_fields ≥` the number of values -/
theorem tot_storeValuesLoop {N : Nat} (g : Good cap N) (rem : Ctx) (r : Reg) :
    ∀ (l : List Binding) (ff : Nat), l.length ≤ ff → rem.length + l.length ≤ N →
      Tot cap (storeValuesLoop rem r l ff)
  | [], _, _, _ => by unfold storeValuesLoop; exact Tot.pure _
  | b :: l, ff, h1, h2 => by
    unfold storeValuesLoop
    simp only [List.length_cons] at h1 h2
    refine TotP.bind (tot_pred1 (by omega)) fun off hoff => ?_
    refine Tot.bind (tot_storeValue g _ _ _ _ ?_) fun c => ?_
    · simp only [List.length_append, List.length_reverse]; omega
    refine Tot.bind (tot_storeValuesLoop g rem r l off (by omega) (by omega)) fun p => ?_
    exact Tot.pure _

theorem tot_storeValues {N : Nat} (g : Good cap N) (ts rem : Ctx) (r : Reg) (ff : Nat)
    (h1 : ts.length ≤ ff) (h2 : rem.length + ts.length ≤ N) : Tot cap (storeValues ts rem r ff) := by
  unfold storeValues
  refine Tot.bind (tot_storeValuesLoop g rem r _ ff ?_ ?_) fun p => Tot.pure _
  · simpa only [List.length_reverse] using h1
  · simpa only [List.length_reverse] using h2

theorem tot_loadValuesLoop {N : Nat} (g : Good cap N) (ex : Ctx) (r : Reg) (m : LoadMode) :
    ∀ (l : List Binding) (ff : Nat), l.length ≤ ff → ex.length + l.length ≤ N →
      Tot cap (loadValuesLoop ex r m l ff)
  | [], _, _, _ => by unfold loadValuesLoop; exact Tot.pure _
  | b :: l, ff, h1, h2 => by
    unfold loadValuesLoop
    simp only [List.length_cons] at h1 h2
    refine TotP.bind (tot_pred1 (by omega)) fun off hoff => ?_
    refine Tot.bind (tot_loadValue g _ _ _ _ _ ?_) fun c => ?_
    · simp only [List.length_append, List.length_reverse]; omega
    refine Tot.bind (tot_loadValuesLoop g ex r m l off (by omega) (by omega)) fun p => ?_
    exact Tot.pure _

theorem tot_loadValues {N : Nat} (g : Good cap N) (tl ex : Ctx) (r : Reg) (ff : Nat) (m : LoadMode)
    (h1 : tl.length ≤ ff) (h2 : ex.length + tl.length ≤ N) : Tot cap (loadValues tl ex r ff m) := by
  unfold loadValues
  refine Tot.bind (tot_loadValuesLoop g ex r m _ ff ?_ ?_) fun p => Tot.pure _
  · simpa only [List.length_reverse] using h1
  · simpa only [List.length_reverse] using h2

/-! ## memory.rs: store_fields / load_fields -/

theorem fpb_sub (bp : BlockPosition) : 2 ≤ FIELDS_PER_BLOCK - bp.toNat := by
  have h : FIELDS_PER_BLOCK = 3 := rfl
  cases bp <;> simp only [BlockPosition.toNat, h] <;> omega

/-- a non-empty list of bindings gets strictly shorter for the next block -/
theorem restLength_lt {len : Nat} (bp : BlockPosition) (h : 0 < len) : restLength len bp < len := by
  unfold restLength
  have := fpb_sub bp
  split <;> omega

/-- the values of one block fit into the block -/
theorem sub_restLength_le (len : Nat) (bp : BlockPosition) :
    len - restLength len bp ≤ FIELDS_PER_BLOCK - bp.toNat := by
  unfold restLength
  split <;> omega

theorem tot_storeFields {N : Nat} (g : Good cap N) :
    ∀ (fuel : Nat) (ts rem : Ctx) (bp : BlockPosition), ts.length < fuel → ts.length + rem.length < N →
      Tot cap (storeFields fuel ts rem bp)
  | 0, _, _, _, h, _ => by omega
  | fuel + 1, ts, rem, bp, hf, hN => by
    unfold storeFields
    refine TotP.ite (fun he => ?_) fun he => ?_
    · refine TotP.ite (fun _ => ?_) fun _ => Tot.pure _
      exact Tot.bind (tot_freshTemporary g _ _ (by omega)) fun _ => Tot.pure _
    · have hpos : 0 < ts.length := by
        cases ts with
        | nil => exact absurd rfl he
        | cons _ _ => simp
      have hrl := restLength_lt bp hpos
      have hsub := sub_restLength_le ts.length bp
      dsimp only
      refine TotP.ite (fun _ => ?_) fun _ => ?_
      · refine Tot.bind (tot_storeField g _ _ _ _ ?_) fun _ => ?_
        · simp only [List.length_append]; omega
        refine Tot.bind (Tot.pure _) fun c1 => ?_
        refine Tot.bind (tot_storeValues g _ _ _ _ ?_ ?_) fun c3 => ?_
        · simp only [List.length_drop]; exact hsub
        · simp only [List.length_append, List.length_drop, List.length_take]; omega
        refine Tot.bind (tot_freshTemporary g _ _ ?_) fun t => ?_
        · simp only [List.length_append, List.length_take]; omega
        refine Tot.bind (tot_acquireBlock _) fun c4 => ?_
        refine Tot.bind (tot_storeFields g fuel _ rem .other ?_ ?_) fun c5 => Tot.pure _
        · simp only [List.length_take]; omega
        · simp only [List.length_take]; omega
      · refine Tot.bind (Tot.pure _) fun c1 => ?_
        refine Tot.bind (tot_storeValues g _ _ _ _ ?_ ?_) fun c3 => ?_
        · simp only [List.length_drop]; exact hsub
        · simp only [List.length_append, List.length_drop, List.length_take]; omega
        refine Tot.bind (tot_freshTemporary g _ _ ?_) fun t => ?_
        · simp only [List.length_append, List.length_take]; omega
        refine Tot.bind (tot_acquireBlock _) fun c4 => ?_
        refine Tot.bind (tot_storeFields g fuel _ rem .other ?_ ?_) fun c5 => Tot.pure _
        · simp only [List.length_take]; omega
        · simp only [List.length_take]; omega

theorem tot_loadFieldsBlock {N : Nat} (g : Good cap N) (r : Reg) (next epl epr : Ctx)
    (bp : BlockPosition) (m : LoadMode) (h1 : next.length ≤ FIELDS_PER_BLOCK - bp.toNat)
    (h2 : epr.length + next.length ≤ N) (h3 : bp = .other → epl.length < N) :
    Tot cap (loadFieldsBlock r next epl epr bp m) := by
  unfold loadFieldsBlock
  dsimp only
  refine TotP.ite (fun hb => ?_) fun _ => ?_
  · refine Tot.bind (tot_loadField g _ _ _ _ (h3 hb)) fun _ => ?_
    refine Tot.bind (Tot.pure _) fun c2 => ?_
    exact Tot.bind (tot_loadValues g _ _ _ _ _ h1 h2) fun _ => Tot.pure _
  · refine Tot.bind (Tot.pure _) fun c2 => ?_
    exact Tot.bind (tot_loadValues g _ _ _ _ _ h1 h2) fun _ => Tot.pure _

theorem tot_loadFields {N : Nat} (g : Good cap N) :
    ∀ (fuel : Nat) (tl ex : Ctx) (bp : BlockPosition) (m : LoadMode) (rf : Bool), tl.length < fuel →
      tl.length + ex.length + bp.toNat ≤ N → Tot cap (loadFields fuel tl ex bp m rf)
  | 0, _, _, _, _, _, h, _ => by omega
  | fuel + 1, tl, ex, bp, m, rf, hf, hN => by
    unfold loadFields
    refine TotP.ite (fun he => Tot.pure _) fun he => ?_
    have hpos : 0 < tl.length := by
      cases tl with
      | nil => exact absurd rfl he
      | cons _ _ => simp
    have hrl := restLength_lt bp hpos
    have hsub := sub_restLength_le tl.length bp
    have hother : bp = .other → tl.length + ex.length < N := by
      intro hb; subst hb; simp only [BlockPosition.toNat] at hN; omega
    refine Tot.bind (tot_loadFields g fuel _ ex .other m rf ?_ ?_) fun p => ?_
    · simp only [List.length_take]; omega
    · simp only [List.length_take, BlockPosition.toNat]; omega
    obtain ⟨c0, rf'⟩ := p
    dsimp only
    refine Tot.bind (tot_freshTemporary g _ _ ?_) fun t => ?_
    · simp only [List.length_append, List.length_take]; omega
    have hblock : ∀ r, Tot cap (loadFieldsBlock r (tl.drop (restLength tl.length bp)) (ex ++ tl)
        (ex ++ tl.take (restLength tl.length bp)) bp m) := by
      intro r
      refine tot_loadFieldsBlock g _ _ _ _ _ _ ?_ ?_ ?_
      · simp only [List.length_drop]; exact hsub
      · simp only [List.length_append, List.length_drop, List.length_take]; omega
      · intro hb; have := hother hb; simp only [List.length_append]; omega
    cases t with
    | reg r => exact Tot.bind (hblock r) fun _ => Tot.pure _
    | spill p => exact Tot.bind (hblock _) fun _ => Tot.pure _

theorem tot_store {N : Nat} (g : Good cap N) (a b : Ctx) (h : a.length + b.length < N) :
    Tot cap (store a b) := by
  unfold store
  exact tot_storeFields g _ _ _ _ (by omega) h

theorem tot_loadRegister {N : Nat} (g : Good cap N) (r : Reg) (a b : Ctx) (h : a.length + b.length ≤ N) :
    Tot cap (loadRegister r a b) := by
  unfold loadRegister
  refine Tot.bind (tot_loadFields g _ _ _ _ _ _ (by omega) (by simpa [BlockPosition.toNat] using h))
    fun p => ?_
  refine Tot.bind (tot_loadFields g _ _ _ _ _ _ (by omega) (by simpa [BlockPosition.toNat] using h))
    fun q => ?_
  exact Tot.bind (tot_ifZeroThenElse _ _ _ _) fun _ => Tot.pure _

theorem tot_load {N : Nat} (g : Good cap N) (a b : Ctx) (h : a.length + b.length ≤ N) :
    Tot cap (load a b) := by
  unfold load
  refine TotP.ite (fun _ => Tot.pure _) fun he => ?_
  have hpos : 0 < a.length := by
    cases a with
    | nil => exact absurd rfl he
    | cons _ _ => simp
  refine Tot.bind (tot_freshTemporary g _ _ (by omega)) fun t => ?_
  cases t with
  | reg r => exact Tot.bind (tot_loadRegister g _ _ _ h) fun _ => Tot.pure _
  | spill p => exact Tot.bind (tot_loadRegister g _ _ _ h) fun _ => Tot.pure _

end

/-! ## utils.rs: variable_temporary -/

/-- `ctxPosition` returns the FIRST position of the variable: the binding there has this id -/
theorem ctxPosition_some {id : Nat} : ∀ {Γ : Ctx} {i q : Nat}, ctxPosition Γ id i = some q →
    ∃ p b, q = i + p ∧ p < Γ.length ∧ Γ[p]? = some b ∧ b.var.id = id
  | [], _, _, h => by simp [ctxPosition] at h
  | b :: bs, i, q, h => by
    unfold ctxPosition at h
    split at h
    · rename_i hb
      injection h with h
      exact ⟨0, b, by omega, by simp, rfl, by simpa using hb⟩
    · obtain ⟨p, b', hq, hp, hb', hid⟩ := ctxPosition_some h
      exact ⟨p + 1, b', by omega, by simp; omega, by simpa using hb', hid⟩

/-- `get_position` succeeds on every variable of the context -/
theorem ctxPosition_of_mem {id : Nat} : ∀ {Γ : Ctx} (i : Nat), (∃ b ∈ Γ, b.var.id = id) →
    ∃ q, ctxPosition Γ id i = some q
  | [], _, h => by obtain ⟨b, hb, _⟩ := h; cases hb
  | b :: bs, i, h => by
    unfold ctxPosition
    by_cases hb : (b.var.id == id) = true
    · rw [if_pos hb]; exact ⟨i, rfl⟩
    · rw [if_neg hb]
      obtain ⟨b', hb', hid⟩ := h
      rcases List.mem_cons.mp hb' with rfl | hb'
      · exact absurd (by simpa using hid) hb
      · exact ctxPosition_of_mem (i + 1) ⟨b', hb', hid⟩

/-- the runs of `variable_temporary` -/
theorem vt_run_ok' {n : TempNum} {Γ : Ctx} {id : Nat} {c k : Nat} {t : Temporary}
    (h : (variableTemporary n Γ id).run c = .ok (t, k)) :
    ∃ q, ctxPosition Γ id 0 = some q ∧ temporaryFromPosition (2 * q + n.toNat) = .ok t := by
  unfold variableTemporary at h
  cases hp : ctxPosition Γ id 0 with
  | none =>
    rw [hp] at h
    have h2 : (Except.error _ : Except String (Temporary × Nat)) = .ok (t, k) := h
    cases h2
  | some q =>
    rw [hp] at h
    dsimp only at h
    refine ⟨q, rfl, ?_⟩
    cases ht : temporaryFromPosition (2 * q + n.toNat) with
    | error e =>
      rw [ht] at h
      have h2 : (Except.error _ : Except String (Temporary × Nat)) = .ok (t, k) := h
      cases h2
    | ok t' =>
      rw [ht] at h
      have h' : (Except.ok (t', c) : Except String (Temporary × Nat)) = .ok (t, k) := h
      injection h' with h'
      injection h' with h1 h2
      rw [h1]

theorem vt_run_ok {n : TempNum} {Γ : Ctx} {id : Nat} {c k : Nat} {t : Temporary}
    (h : (variableTemporary n Γ id).run c = .ok (t, k)) :
    ∃ p b, p < Γ.length ∧ Γ[p]? = some b ∧ b.var.id = id ∧
      temporaryFromPosition (2 * p + n.toNat) = .ok t := by
  obtain ⟨q, hp, ht⟩ := vt_run_ok' h
  obtain ⟨p, b, hq, hlt, hb, hid⟩ := ctxPosition_some hp
  have hq' : q = p := by omega
  subst hq'
  exact ⟨q, b, hlt, hb, hid, ht⟩

theorem isVT_iff {n : TempNum} {Γ : Ctx} {id : Nat} {t : Temporary} (h : IsVT x86Backend n Γ id t) :
    ∃ p b, p < Γ.length ∧ Γ[p]? = some b ∧ b.var.id = id ∧
      temporaryFromPosition (2 * p + n.toNat) = .ok t := by
  obtain ⟨c, k, h⟩ := h
  exact vt_run_ok h

theorem tot_variableTemporary {cap : String → Prop} {N : Nat} (g : Good cap N) (n : TempNum) (Γ : Ctx)
    (id : Nat) (hmem : ∃ b ∈ Γ, b.var.id = id) (hN : Γ.length ≤ N) :
    Tot cap (variableTemporary n Γ id) := by
  unfold variableTemporary
  obtain ⟨q, hq⟩ := ctxPosition_of_mem 0 hmem
  rw [hq]
  obtain ⟨p, b, hqp, hlt, _, _⟩ := ctxPosition_some hq
  refine tot_liftE (g _ ?_)
  cases n <;> simp only [TempNum.toNat] <;> omega

theorem x86_vt_inj {Γ : Ctx} {n n' : TempNum} {id id' : Nat} {t : Temporary}
    (h : IsVT x86Backend n Γ id t) (h' : IsVT x86Backend n' Γ id' t) : n = n' ∧ id = id' := by
  obtain ⟨p, b, _, hb, hid, ht⟩ := isVT_iff h
  obtain ⟨p', b', _, hb', hid', ht'⟩ := isVT_iff h'
  have e := tfp_inj ht ht'
  have hp : p = p' := by cases n <;> cases n' <;> simp only [TempNum.toNat] at e <;> omega
  subst hp
  rw [hb] at hb'
  injection hb' with hb'
  subst hb'
  refine ⟨?_, hid.symm.trans hid'⟩
  cases n <;> cases n' <;> simp only [TempNum.toNat] at e <;> first | rfl | omega

theorem x86_vt_det {Γ : Ctx} {n : TempNum} {id : Nat} {t t' : Temporary}
    (h : IsVT x86Backend n Γ id t) (h' : IsVT x86Backend n Γ id t') : t = t' := by
  obtain ⟨c, k, h⟩ := h
  obtain ⟨c', k', h'⟩ := h'
  obtain ⟨q, hq, ht⟩ := vt_run_ok' h
  obtain ⟨q', hq', ht'⟩ := vt_run_ok' h'
  rw [hq] at hq'
  injection hq' with hq'
  subst hq'
  rw [ht] at ht'
  injection ht'

theorem x86_tempEq_iff (a b : Temporary) : x86Backend.tempEq a b = true ↔ a = b := by
  show (a == b) = true ↔ a = b
  cases a <;> cases b <;> simp [BEq.beq, instBEqTemporary.beq]

/-! ## the backend is total or out of temporaries -/

/-- the methods of `x86Backend` under an abstract capacity `Good cap` -/
theorem x86_total_of {cap : String → Prop} {fits : Nat → Prop}
    (fits_mono : ∀ {m n : Nat}, m ≤ n → fits n → fits m) (good : ∀ n, fits n → Good cap n) :
    TotalBackend x86Backend cap fits where
  fits_mono := fits_mono
  tempEq_iff := x86_tempEq_iff
  vt_total := fun n Γ id hmem hf => tot_variableTemporary (good _ hf) n Γ id hmem (Nat.le_refl _)
  vt_inj := x86_vt_inj
  vt_det := x86_vt_det
  printI64 := fun nl t Γ _ => Tot.pure _
  eraseBlock := fun t => tot_eraseBlock t
  shareBlockN := fun t n => tot_shareBlockN t n
  store := fun a b hf => tot_store (good _ hf) a b (by omega)
  load := fun a b hf => tot_load (good _ hf) a b (Nat.le_refl _)

/-- PART 1: no panic message other than "Out of temporaries" is reachable from the methods of the
    x86-64 backend, for any arguments and any value of the label counter. -/
theorem x86_total : TotalBackend x86Backend capX86 (fun _ => True) :=
  x86_total_of (fun _ _ => trivial) (fun n _ => good_capX86 n)

/-! ## into_routine.rs -/

theorem moveArguments_resOk (n : Nat) :
    ResOk (fun e => e = "too many arguments for main") (moveArguments n) := by
  match n with
  | 0 => exact trivial
  | 1 => unfold moveArguments; split <;> first | exact trivial | exact rfl
  | n + 2 =>
    unfold moveArguments
    split
    · exact rfl
    · split <;> first | exact trivial | exact rfl

theorem intoRoutine_resOk (body : List Code) (nargs : Nat) :
    ResOk (fun e => e = "too many arguments for main") (intoRoutine body nargs) := by
  have h := moveArguments_resOk nargs
  unfold intoRoutine setup
  cases hm : moveArguments nargs with
  | error e => rw [hm] at h; exact h
  | ok r => exact trivial

theorem moveArguments_ok : ∀ {n : Nat}, n ≤ 5 → ∃ r, moveArguments n = .ok r
  | 0, _ => ⟨_, rfl⟩
  | 1, _ => ⟨_, rfl⟩
  | 2, _ => ⟨_, rfl⟩
  | 3, _ => ⟨_, rfl⟩
  | 4, _ => ⟨_, rfl⟩
  | 5, _ => ⟨_, rfl⟩
  | n + 6, h => by omega

theorem intoRoutine_ok (body : List Code) {nargs : Nat} (h : nargs ≤ 5) :
    ∃ r, intoRoutine body nargs = .ok r := by
  obtain ⟨r, hr⟩ := moveArguments_ok h
  unfold intoRoutine setup
  rw [hr]
  exact ⟨_, rfl⟩

example : ∃ r, intoRoutine [.RET] 5 = .ok r := intoRoutine_ok _ (by decide)

/-- bridge to the line function `compileX86` -/
theorem compileX86_resOk_of (hooks : Bool) (c : Nat) (p : Prog) :
    ResOk capX86 ((Scc.Backend.compile x86Backend hooks p).run c) → ResOk capX86 (compileX86 p hooks c) := by
  intro h
  unfold compileX86
  cases hr : (Scc.Backend.compile x86Backend hooks p).run c with
  | error e => rw [hr] at h; exact h
  | ok r => exact trivial

/-! ## PART 2: no error at all when the number of variables fits -/

/-- every position below `2 * n` has a temporary -/
def fitsX86 (n : Nat) : Prop := ∀ q, q < 2 * n → ∃ t, temporaryFromPosition q = .ok t

/-- 267 = REGISTER_NUM - RESERVED + SPILL_NUM - RESERVED_SPILLS positions have a temporary -/
theorem capacity_eq : REGISTER_NUM - RESERVED + (SPILL_NUM - RESERVED_SPILLS) = 267 := rfl

theorem fitsX86_of_le {n : Nat} (h : 2 * n ≤ 267) : fitsX86 n :=
  fun q hq => ⟨_, tfp_lt (by omega)⟩

theorem fitsX86_iff (n : Nat) : fitsX86 n ↔ 2 * n ≤ 267 := by
  constructor
  · intro h
    by_cases hn : 2 * n ≤ 267
    · exact hn
    · obtain ⟨t, ht⟩ := h 267 (by omega)
      rw [tfp_ge (Nat.le_refl _)] at ht; cases ht
  · exact fitsX86_of_le

/-- the bound is tight: 133 variables fit, 134 do not -/
theorem fitsX86_133 : fitsX86 133 := fitsX86_of_le (by decide)

theorem not_fitsX86_134 : ¬ fitsX86 134 := fun h => by
  have := (fitsX86_iff 134).1 h
  omega

example : fitsX86 5 := fitsX86_of_le (by decide)

theorem fitsX86_mono {m n : Nat} (h : m ≤ n) (f : fitsX86 n) : fitsX86 m := fun q hq => f q (by omega)

theorem good_of_fitsX86 {n : Nat} (f : fitsX86 n) : Good (fun _ => False) n := fun q hq => by
  obtain ⟨t, ht⟩ := f q hq
  rw [ht]; trivial

/-- PART 2: when the number of variables fits, NO panic of the model is reachable from the methods -/
theorem x86_total_fits : TotalBackend x86Backend (fun _ => False) fitsX86 :=
  x86_total_of fitsX86_mono (fun _ f => good_of_fitsX86 f)

end Scc.X86.Total

#print axioms Scc.X86.Total.x86_total
#print axioms Scc.X86.Total.x86_total_fits
#print axioms Scc.X86.Total.intoRoutine_resOk
#print axioms Scc.X86.Total.intoRoutine_ok
#print axioms Scc.X86.Total.compileX86_resOk_of
#print axioms Scc.X86.Total.fitsX86_of_le
#print axioms Scc.X86.Total.not_fitsX86_134
